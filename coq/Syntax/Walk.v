(* Syntax/Walk.v — model of syntax.Walk / syntax.Preorder (syntax/walk.go) over
   generic values, driven by a walk table (Gen/WalkTable.v, probed from the running
   code on every run), and the specification "every node reachable through the
   exported fields, exactly once, parent first".
   NO PROOFS in this file. *)
From Verif Require Import Base.Str Syntax.Schema.
From Coq Require Import Permutation.
Open Scope N_scope.

(* ---- the walk table ----------------------------------------------------------- *)
(* one step of a `case *T:` arm of Walk *)
Inductive wmode :=
| WOne             (* Walk(node.F, f): F must not be nil *)
| WNilable         (* walkNilable(node.F, f) / if node.F != nil { Walk(node.F, f) } *)
| WList            (* walkList(node.F, f) *)
| WComments        (* walkComments(node.F, f) *)
| WDeferEndAfter   (* the Stmt loop: comments c with !node.End().After(c.Pos()) and all later ones are deferred *)
| WDeferPosAfter   (* the CaseItem/ArrayElem loop: comments with c.Pos().After(node.Pos()) and all later ones are deferred *)
| WUnknown.        (* the probe saw something it cannot classify *)
(* path [i] = field i of the node; [i;j] = field j of the non-node struct behind the
   pointer field i (node.Slice.Offset), skipped when that pointer is nil *)
Record wstep := { w_path : list nat; w_mode : wmode }.
(* by struct id; None = Walk has no case for the kind (panics) or the struct is not a node *)
Definition walk_table := list (option (list wstep)).
Definition table_get (tbl : walk_table) (sid : nat) : option (list wstep) :=
  match nth_error tbl sid with Some (Some st) => Some st | _ => None end.

(* ---- Impl: targets of one node ---------------------------------------------------- *)
Definition node_pos (v : value) : pos :=
  match v with VStruct _ (Some (p, _)) _ => p | _ => pos_zero end.
Definition node_end (v : value) : pos :=
  match v with VStruct _ (Some (_, e)) _ => e | _ => pos_zero end.

(* Ok None: the enclosing pointer is nil, the step does nothing *)
Definition field_at (v : value) (path : list nat) : res (option value) :=
  match v, path with
  | VStruct _ _ fs, [i] =>
      match nth_error fs i with Some x => Ok (Some x) | None => Err E_ILL end
  | VStruct _ _ fs, [i; j] =>
      match nth_error fs i with
      | Some (VPtr None) => Ok None
      | Some (VPtr (Some (VStruct _ _ fs2))) =>
          match nth_error fs2 j with Some x => Ok (Some x) | None => Err E_ILL end
      | _ => Err E_ILL
      end
  | _, _ => Err E_ILL
  end.

Definition deref (x : value) : res (option value) :=
  match x with VPtr o => Ok o | VIface o => Ok o | _ => Err E_ILL end.

(* walkList: a nil element makes Walk dereference nil (or hand a typed nil to f): Panic *)
Fixpoint deref_all (l : list value) : res (list value) :=
  match l with
  | [] => Ok []
  | x :: r =>
      match deref x with
      | Ok (Some n) => match deref_all r with Ok ns => Ok (n :: ns) | e => e end
      | Ok None => Panic
      | Err c => Err c
      | Panic => Panic
      end
  end.

(* the comment loops: leading part walked now, the rest deferred past f(nil) *)
Fixpoint span_comments (keep : value -> bool) (l : list value) : list value * list value :=
  match l with
  | [] => ([], [])
  | c :: r => if keep c then let '(a, b) := span_comments keep r in (c :: a, b) else ([], l)
  end.

(* (walked in order before f(nil), walked in order after f(nil)) *)
Definition step_targets (v : value) (st : wstep) : res (list value * list value) :=
  match field_at v (w_path st) with
  | Err c => Err c
  | Panic => Panic
  | Ok None => Ok ([], [])
  | Ok (Some x) =>
      match w_mode st with
      | WOne => match deref x with
                | Ok (Some n) => Ok ([n], [])
                | Ok None => Panic
                | Err c => Err c | Panic => Panic end
      | WNilable => match deref x with
                    | Ok (Some n) => Ok ([n], [])
                    | Ok None => Ok ([], [])
                    | Err c => Err c | Panic => Panic end
      | WList => match x with
                 | VSlice _ l => match deref_all l with Ok ns => Ok (ns, []) | Err c => Err c | Panic => Panic end
                 | _ => Err E_ILL end
      | WComments => match x with VSlice _ l => Ok (l, []) | _ => Err E_ILL end
      | WDeferEndAfter =>
          match x with
          | VSlice _ l => Ok (span_comments (fun c => pos_after (node_end v) (node_pos c)) l)
          | _ => Err E_ILL end
      | WDeferPosAfter =>
          match x with
          | VSlice _ l => Ok (span_comments (fun c => negb (pos_after (node_pos c) (node_pos v))) l)
          | _ => Err E_ILL end
      | WUnknown => Err E_ILL
      end
  end.

Fixpoint targets (v : value) (steps : list wstep) : res (list value * list value) :=
  match steps with
  | [] => Ok ([], [])
  | st :: r =>
      match step_targets v st with
      | Ok (n1, d1) => match targets v r with
                       | Ok (n2, d2) => Ok (n1 ++ n2, d1 ++ d2)
                       | e => e end
      | Err c => Err c
      | Panic => Panic
      end
  end.

(* ---- Impl: Walk ---------------------------------------------------------------------- *)
(* a callback event: f(node) / f(nil) *)
Definition ev := option value.

Section WalkImpl.
  Context {S : Type}.
  Variable tbl : walk_table.
  (* the callback f, an arbitrary Go closure: a state machine *)
  Variable cb : S -> ev -> S * bool.

  Fixpoint walk_seq (w : S -> value -> res (list ev * S)) (l : list value) (s : S) : res (list ev * S) :=
    match l with
    | [] => Ok ([], s)
    | x :: r =>
        match w s x with
        | Ok (t1, s1) => match walk_seq w r s1 with
                         | Ok (t2, s2) => Ok (t1 ++ t2, s2)
                         | e => e end
        | e => e
        end
    end.

  (* Walk(node, f); fuel bounds the nesting depth *)
  Fixpoint walk (fuel : nat) (s : S) (v : value) : res (list ev * S) :=
    match fuel with
    | O => Err E_FUEL
    | Datatypes.S fuel' =>
        match v with
        | VStruct sid _ _ =>
            let '(s1, b) := cb s (Some v) in
            if negb b then Ok ([Some v], s1)
            else
              match table_get tbl sid with
              | None => Panic              (* default: panic("unexpected node type") *)
              | Some steps =>
                  match targets v steps with
                  | Ok (now, dfr) =>
                      match walk_seq (walk fuel') now s1 with
                      | Ok (t1, s2) =>
                          let '(s3, _) := cb s2 None in
                          match walk_seq (walk fuel') dfr s3 with
                          | Ok (t2, s4) => Ok (Some v :: t1 ++ None :: t2, s4)
                          | e => e end
                      | e => e end
                  | Err c => Err c
                  | Panic => Panic
                  end
              end
        | _ => Err E_ILL
        end
    end.
End WalkImpl.

(* Preorder(node): ok := true; Walk(node, func(n) bool { if n != nil { ok = ok && yield(n) }; return ok }) *)
Section PreorderImpl.
  Context {Y : Type}.
  Variable yield : Y -> value -> Y * bool.
  Definition pre_cb (st : bool * Y) (e : ev) : (bool * Y) * bool :=
    let '(ok, y) := st in
    match e with
    | None => ((ok, y), ok)
    | Some n => if ok then let '(y', b) := yield y n in ((b, y'), b) else ((false, y), false)
    end.
  Definition preorder (tbl : walk_table) (fuel : nat) (y : Y) (v : value) : res (list ev * (bool * Y)) :=
    walk tbl pre_cb fuel (true, y) v.
  (* the consumer fed a sequence, never called again once it answered false *)
  Fixpoint feed (st : bool * Y) (l : list value) : bool * Y :=
    match l with
    | [] => st
    | n :: r => let '(ok, y) := st in
                if ok then let '(y', b) := yield y n in feed (b, y') r else (false, y)
    end.
End PreorderImpl.

Definition cb_true : unit -> ev -> unit * bool := fun _ _ => (tt, true).
Definition walk_all (tbl : walk_table) (fuel : nat) (v : value) : res (list ev * unit) :=
  walk tbl cb_true fuel tt v.
Fixpoint somes (l : list ev) : list value :=
  match l with [] => [] | Some v :: r => v :: somes r | None :: r => somes r end.
Fixpoint count_none (l : list ev) : nat :=
  match l with [] => O | None :: r => Datatypes.S (count_none r) | Some _ :: r => count_none r end.

(* ---- Spec: nodes reachable through exported fields ------------------------------------- *)
Section Spec.
  Variable sch : schema.

  (* nodes reachable from a value without passing through another node *)
  Fixpoint reach (v : value) : list value :=
    match v with
    | VStruct sid _ fs =>
        if is_node sch sid then [v]
        else (fix go (l : list value) : list value :=
                match l with [] => [] | x :: r => reach x ++ go r end) fs
    | VPtr (Some u) => reach u
    | VIface (Some u) => reach u
    | VSlice _ l =>
        (fix go (l : list value) : list value :=
           match l with [] => [] | x :: r => reach x ++ go r end) l
    | _ => []
    end.

  (* the children of a node: what its exported fields reach *)
  Definition kids (v : value) : list value :=
    match v with VStruct _ _ fs => flat_map reach fs | _ => [] end.

  (* every node in a value (reflection enumeration, declaration order, depth first) *)
  Fixpoint nodes_in (v : value) : list value :=
    match v with
    | VStruct sid _ fs =>
        (if is_node sch sid then [v] else []) ++
        (fix go (l : list value) : list value :=
           match l with [] => [] | x :: r => nodes_in x ++ go r end) fs
    | VPtr (Some u) => nodes_in u
    | VIface (Some u) => nodes_in u
    | VSlice _ l =>
        (fix go (l : list value) : list value :=
           match l with [] => [] | x :: r => nodes_in x ++ go r end) l
    | _ => []
    end.

  Fixpoint height (v : value) : nat :=
    match v with
    | VStruct _ _ fs =>
        Datatypes.S ((fix go (l : list value) : nat :=
             match l with [] => O | x :: r => Nat.max (height x) (go r) end) fs)
    | VPtr (Some u) => Datatypes.S (height u)
    | VIface (Some u) => Datatypes.S (height u)
    | VSlice _ l =>
        Datatypes.S ((fix go (l : list value) : nat :=
             match l with [] => O | x :: r => Nat.max (height x) (go r) end) l)
    | _ => O
    end.

  (* The callback sequence of a walk of [v] under callback [cb] from state [s]:
     f(v) first; if it answers false nothing else; otherwise every child of v (all of
     [kids v], each once, in some order) is walked, f(nil) is called once, and the
     children that were deferred (trailing comments) are walked after it. *)
  Section Rel.
    Context {S : Type}.
    Variable cb : S -> ev -> S * bool.
    Inductive WalkSpec : S -> value -> list ev -> S -> Prop :=
    | WS_prune : forall s v s1,
        cb s (Some v) = (s1, false) -> WalkSpec s v [Some v] s1
    | WS_enter : forall s v s1 now dfr t1 s2 s3 b t2 s4,
        cb s (Some v) = (s1, true) ->
        Permutation (now ++ dfr) (kids v) ->
        WalkSeq s1 now t1 s2 ->
        cb s2 None = (s3, b) ->
        WalkSeq s3 dfr t2 s4 ->
        WalkSpec s v (Some v :: t1 ++ None :: t2) s4
    with WalkSeq : S -> list value -> list ev -> S -> Prop :=
    | WQ_nil : forall s, WalkSeq s [] [] s
    | WQ_cons : forall s x r t1 s1 t2 s2,
        WalkSpec s x t1 s1 -> WalkSeq s1 r t2 s2 -> WalkSeq s (x :: r) (t1 ++ t2) s2.
  End Rel.

  (* ---- table_ok: the probed table against the reflected schema ------------------------- *)
  Inductive fclass := CNone | CPtr | CList | CComments | CSub (sid : nat) | CBad.

  Definition all_nodes_iface (iid : nat) : bool :=
    match get_iface sch iid with
    | Some d => forallb (is_node sch) (i_impls d)
    | None => false
    end.

  Definition classify (t : ty) : fclass :=
    match t with
    | TString | TBool | TUint _ | TPos => CNone
    | TPtr sid => if is_node sch sid then CPtr else CSub sid
    | TIface iid => if all_nodes_iface iid then CPtr else CBad
    | TStruct _ => CBad
    | TSlice te =>
        match te with
        | TPtr sid => if is_node sch sid then CList else CBad
        | TIface iid => if all_nodes_iface iid then CList else CBad
        | TStruct sid => if is_node sch sid then CComments else CBad
        | TString | TBool | TUint _ | TPos => CNone
        | TSlice _ => CBad
        end
    end.

  (* paths (relative to a struct with these fields, starting at index k) that reach nodes *)
  Fixpoint sub_paths (i : nat) (k : nat) (ds : list field_decl) : option (list (list nat * fclass)) :=
    match ds with
    | [] => Some []
    | d :: r =>
        match sub_paths i (Datatypes.S k) r with
        | None => None
        | Some rest =>
            match classify (f_ty d) with
            | CNone => Some rest
            | CPtr => Some (([i; k], CPtr) :: rest)
            | CList => Some (([i; k], CList) :: rest)
            | CComments => Some (([i; k], CComments) :: rest)
            | CSub _ => None
            | CBad => None
            end
        end
    end.

  Fixpoint node_paths (k : nat) (ds : list field_decl) : option (list (list nat * fclass)) :=
    match ds with
    | [] => Some []
    | d :: r =>
        match node_paths (Datatypes.S k) r with
        | None => None
        | Some rest =>
            match classify (f_ty d) with
            | CNone => Some rest
            | CPtr => Some (([k], CPtr) :: rest)
            | CList => Some (([k], CList) :: rest)
            | CComments => Some (([k], CComments) :: rest)
            | CSub s2 =>
                if is_node sch s2 then None else
                match sub_paths k O (struct_fields sch s2) with
                | Some sp => Some (sp ++ rest)
                | None => None
                end
            | CBad => None
            end
        end
    end.

  Definition reach_paths (sid : nat) : option (list (list nat * fclass)) :=
    node_paths O (struct_fields sch sid).

  Definition mode_ok (c : fclass) (m : wmode) : bool :=
    match c, m with
    | CPtr, WOne | CPtr, WNilable => true
    | CList, WList => true
    | CComments, WComments | CComments, WDeferEndAfter | CComments, WDeferPosAfter => true
    | _, _ => false
    end.

  Definition path_eqb (a b : list nat) : bool :=
    (fix go (a b : list nat) : bool :=
       match a, b with
       | [], [] => true
       | x :: a', y :: b' => Nat.eqb x y && go a' b'
       | _, _ => false
       end) a b.
  Definition mem_path (p : list nat) (l : list (list nat)) : bool := existsb (path_eqb p) l.
  Fixpoint nodup_paths (l : list (list nat)) : bool :=
    match l with [] => true | p :: r => negb (mem_path p r) && nodup_paths r end.
  Fixpoint path_class (p : list nat) (rp : list (list nat * fclass)) : option fclass :=
    match rp with
    | [] => None
    | (q, c) :: r => if path_eqb p q then Some c else path_class p r
    end.

  Definition steps_ok (sid : nat) (steps : list wstep) : bool :=
    match reach_paths sid with
    | None => false
    | Some rp =>
        let sp := map w_path steps in
        let pp := map fst rp in
        nodup_paths sp && nodup_paths pp &&
        forallb (fun p => mem_path p pp) sp && forallb (fun p => mem_path p sp) pp &&
        forallb (fun st => match path_class (w_path st) rp with
                           | Some c => mode_ok c (w_mode st)
                           | None => false end) steps
    end.

  (* every node kind for which Walk has a case visits exactly the node-reaching paths *)
  Definition kind_ok (tbl : walk_table) (sid : nat) : bool :=
    match nth_error tbl sid with
    | Some (Some steps) => steps_ok sid steps
    | Some None => true
    | None => false
    end.
  Definition table_ok (tbl : walk_table) : bool :=
    forallb (fun sid => negb (is_node sch sid) || kind_ok tbl sid) (seq O (length (structs sch))).

  (* the node kinds Walk has no case for (by name) *)
  Definition panic_kinds (tbl : walk_table) : list str :=
    flat_map (fun sid => if is_node sch sid
                         then match table_get tbl sid with
                              | None => match get_struct sch sid with Some d => [s_name d] | None => [] end
                              | Some _ => [] end
                         else [])
             (seq O (length (structs sch))).
End Spec.

(* key of a node for comparing traces with Go: (struct id, Pos, End) *)
Definition node_key (v : value) : nat * (N * N) * (N * N) :=
  match v with VStruct sid _ _ => (sid, node_pos v, node_end v) | _ => (O, pos_zero, pos_zero) end.
