(* Syntax/CommentQueue.v — model of the printer's pending-comment queue
   (syntax/printer.go: Printer.comments, Printer.flushComments, and the way
   Printer.stmtList hands a statement's comments to them), for a flat statement
   list.  A comment is its text (bytes) plus the facts comments() looks at under
   Minify: is it a recognised shebang, and does it sit at line 1, column 1.
   The shebang recogniser (fileutil.Shebang, a regular expression) is not modelled:
   its verdict is part of the input.  NO PROOFS in this file. *)
From Verif Require Import Base.Str.

Record comment := { c_text : str; c_shebang : bool; c_at_1_1 : bool }.

Record pstate := { pending : list comment; written : list comment }.

Definition st0 : pstate := {| pending := []; written := [] |}.

(* Printer.comments(cs...):
     if p.minify { for c in cs { if Shebang("#"+c.Text) != "" && col==1 && line==1 { write } }; return }
     p.pendingComments = append(p.pendingComments, cs...) *)
Definition comments (minify : bool) (cs : list comment) (p : pstate) : pstate :=
  if minify then
    {| pending := pending p;
       written := written p ++ filter (fun c => c_shebang c && c_at_1_1 c) cs |}
  else {| pending := pending p ++ cs; written := written p |}.

(* Printer.flushComments: for _, c := range p.pendingComments { ... write '#'+text ... };
   p.pendingComments = nil *)
Definition flush (p : pstate) : pstate :=
  {| pending := []; written := written p ++ pending p |}.

(* one statement as stmtList sees it: the comments before it, the comments inside it
   (midComs), the comments after its command (endComs), and whether a newline (which
   flushes) is printed before it *)
Record stmt_coms := { before : list comment; mid : list comment; after_ : list comment; nl_before : bool }.

(* Printer.stmtList(stmts, last) restricted to the comment traffic:
     for each s: comments(before...); [newlines -> flush]; comments(mid...); stmt; comments(after...)
     comments(last...)
   and Print ends with flushComments. *)
Fixpoint stmt_list (minify : bool) (ss : list stmt_coms) (p : pstate) : pstate :=
  match ss with
  | [] => p
  | s :: rest =>
      let p1 := comments minify (before s) p in
      let p2 := if nl_before s then flush p1 else p1 in
      let p3 := comments minify (mid s) p2 in
      let p4 := comments minify (after_ s) p3 in
      stmt_list minify rest p4
  end.

Definition print_file (minify : bool) (ss : list stmt_coms) (last : list comment) : list comment :=
  written (flush (comments minify last (stmt_list minify ss st0))).

(* the comments of the list in source order *)
Fixpoint all_comments (ss : list stmt_coms) : list comment :=
  match ss with
  | [] => []
  | s :: rest => before s ++ mid s ++ after_ s ++ all_comments rest
  end.
