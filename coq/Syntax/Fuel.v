(* Syntax/Fuel.v — the parser's progress discipline as an abstract "progress machine".

   The real parser (syntax/parser.go, lexer.go) is a recursive-descent parser whose loops
   (Parser.stmts, wordParts, the operator loops, the lexer's rune loops) are all of the shape
       for { look at the current token; either consume >= 1 token/byte, or return to the caller }
   with nested constructs opened only after their opening token has been consumed, and with EOF
   (Parser.next at runeEOF sets tok = _EOF and consumes nothing) forcing every loop to return.
   This file states that discipline for an ARBITRARY controller (the controller stands for all the
   unmodelled parser logic: it sees the whole state and any private data) and Proofs/FuelProofs.v
   shows that it bounds the number of steps by 2*len + depth.  NO PROOFS here. *)
From Coq Require Import List Arith Bool.
Import ListNotations.

Section Machine.
  Variable A : Type.                      (* private data of the controller: tokens, flags, partial trees ... *)

  Record st := mk { rem : nat;            (* unread input (bytes or tokens) *)
                    depth : nat;          (* open constructs = pending returns *)
                    priv : A }.

  Inductive act :=
  | Consume (k : nat) (a : A)             (* consume S k units, stay in the same construct *)
  | Open (k : nat) (a : A)                (* consume S k units (the opening token) and enter a nested construct *)
  | Return (a : A)                        (* leave the current construct, consuming nothing *)
  | Stall (a : A)                         (* a loop iteration that neither consumes nor returns (the defect) *)
  | Halt.

  Variable ctl : st -> act.

  Definition step (s : st) : option st :=
    match ctl s with
    | Consume k a => Some (mk (rem s - S k) (depth s) a)
    | Open k a => Some (mk (rem s - S k) (S (depth s)) a)
    | Return a => match depth s with O => None | S d => Some (mk (rem s) d a) end
    | Stall a => Some (mk (rem s) (depth s) a)
    | Halt => None
    end.

  Inductive outcome := Done (steps : nat) (final : st) | OutOfFuel.

  Fixpoint run (fuel : nat) (s : st) : outcome :=
    match fuel with
    | O => OutOfFuel
    | S f => match step s with
             | None => Done 0 s
             | Some s' => match run f s' with
                          | Done n fin => Done (S n) fin
                          | OutOfFuel => OutOfFuel
                          end
             end
    end.

  (* The discipline: no Stall; at EOF (nothing left) the only moves are Return and Halt. *)
  Definition disciplined : Prop :=
    forall s, match ctl s with
              | Stall _ => False
              | Consume _ _ | Open _ _ => rem s <> 0
              | _ => True
              end.

  Definition potential (s : st) : nat := 2 * rem s + depth s.
End Machine.

Arguments mk {A}.
Arguments rem {A}.
Arguments depth {A}.
Arguments priv {A}.
Arguments Consume {A}.
Arguments Open {A}.
Arguments Return {A}.
Arguments Stall {A}.
Arguments Halt {A}.
Arguments Done {A}.
Arguments OutOfFuel {A}.

(* a controller that stalls once it has seen EOF: the shape of "a loop that no longer advances on a malformed token" *)
Definition stalling_ctl (s : st unit) : act unit :=
  match rem s with O => Stall tt | S _ => Consume 0 tt end.

(* a small disciplined controller (consume one, open on even remaining, unwind at EOF) used as non-vacuity example *)
Definition demo_ctl (s : st unit) : act unit :=
  match rem s with
  | O => Return tt
  | S r => if Nat.even r then Open 0 tt else Consume 0 tt
  end.
