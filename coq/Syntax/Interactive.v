(* Syntax/Interactive.v — C08: Parser.InteractiveSeq / wrappedReader.Read as a state machine.  Model + Spec, NO PROOFS.

   Transliteration of syntax/parser.go:
     wrappedReader.Read:   if (p.r is '\n' or escNewl) && p.line > w.lastLine {
                               if p.Incomplete() { yield(w.accumulated, p.err) }        -- accumulated is NOT cleared
                               else if len(w.accumulated) == 0 { yield(nil, p.err) }
                               w.lastLine = p.line }
     InteractiveSeq loop:  for stmt, err := range p.StmtsSeq(&w) {
                               w.accumulated = append(w.accumulated, stmt)
                               if err != nil { yield(w.accumulated, err); continue }
                               if p.tok == _Newl { yield(w.accumulated, nil); w.accumulated = w.accumulated[:0]; w.lastLine = p.line + 1 } }
   The underlying parser is abstracted into the event trace it produces (recorded from the real parser by the harness):
     ERead  : wrappedReader.Read is entered   (rune-is-newline?, p.line, p.Incomplete())
     EStmt  : StmtsSeq hands out a statement  (id, err?, p.tok == _Newl?, p.line, p.Incomplete() seen by the callback) *)
From Coq Require Import List Arith Bool.
Import ListNotations.

Inductive event :=
| ERead (rnl : bool) (line : nat) (inc : bool)
| EStmt (id : nat) (err : bool) (nl : bool) (line : nat) (inc : bool).

Record out := mkOut { o_batch : list nat; o_inc : bool; o_err : bool }.

Record ist := mkI { acc : list nat; lastLine : nat }.

Definition step (s : ist) (e : event) : ist * list out :=
  match e with
  | ERead rnl line inc =>
      if rnl && Nat.ltb (lastLine s) line then
        if inc then (mkI (acc s) line, [mkOut (acc s) true false])
        else match acc s with
             | [] => (mkI [] line, [mkOut [] false false])
             | _ => (mkI (acc s) line, [])
             end
      else (s, [])
  | EStmt id err nl line inc =>
      let a := acc s ++ [id] in
      if err then (mkI a (lastLine s), [mkOut a inc true])
      else if nl then (mkI [] (S line), [mkOut a inc false])
      else (mkI a (lastLine s), [])
  end.

Fixpoint run (s : ist) (tr : list event) : ist * list out :=
  match tr with
  | [] => (s, [])
  | e :: rest => let '(s1, o1) := step s e in
                 let '(s2, o2) := run s1 rest in (s2, o1 ++ o2)
  end.

Definition init : ist := mkI [] 0.

(* ---- Spec side *)
Fixpoint stmts_of (tr : list event) : list nat :=
  match tr with
  | [] => []
  | EStmt id _ _ _ _ :: rest => id :: stmts_of rest
  | _ :: rest => stmts_of rest
  end.

(* the batches a caller following the documented protocol consumes: those handed out with Incomplete() = false and no error *)
Definition complete_batches (os : list out) : list (list nat) :=
  map o_batch (filter (fun o => negb (o_inc o) && negb (o_err o)) os).

Definition error_free (tr : list event) : bool :=
  forallb (fun e => match e with EStmt _ err _ _ _ => negb err | _ => true end) tr.

(* the parser reports Incomplete() = false whenever it hands out a statement that is followed by a newline token
   (openNodes = 0 and no literal under construction at that point) *)
Definition stmt_at_newline_complete (tr : list event) : bool :=
  forallb (fun e => match e with EStmt _ _ true _ inc => negb inc | _ => true end) tr.

(* the last statement of the trace is followed by a newline token *)
Fixpoint ends_at_newline (tr : list event) : bool :=
  match tr with
  | [] => true
  | EStmt _ _ nl _ _ :: rest => if existsb (fun e => match e with EStmt _ _ _ _ _ => true | _ => false end) rest
                                then ends_at_newline rest else nl
  | _ :: rest => ends_at_newline rest
  end.
