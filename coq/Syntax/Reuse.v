(* Syntax/Reuse.v — C08: a reused Parser/Printer behaves like a fresh one.  Model + Spec, NO PROOFS.

   A Parser (Printer) is a record of fields.  Every public entry point first calls reset().
   Fields fall in four classes (decided per field by the generated table Gen/ParserFields.v):
     Config      set by New*/option functions only, never by reset: part of the configuration under test
     Reset       assigned by reset(): has its initial value when the run starts
     WriteFirst  neither: the run writes it before it reads it (src, f, spaced, pos, lastBquoteEsc, rx*, buffers ...);
                 evidence = go/ast (assigned by every entry point) or the behavioural poison probe (overwriting the field
                 of a used instance right before the call never changes a result)
     Uncovered   neither configuration nor reset, and the probe saw it influence a result: a reuse defect *)
From Coq Require Import List Arith Bool String.
Import ListNotations.

Inductive fclass := Config | Reset | WriteFirst | Uncovered.

Record frow := mkF { f_struct : string; f_name : string;
                     f_reset : bool;      (* go/ast: assigned in reset() *)
                     f_config : bool;     (* go/ast: assigned in New<T> / an option function *)
                     f_entry : bool;      (* go/ast: assigned by every public entry point *)
                     f_live : bool }.     (* probe: poisoning it before an API call changed some result *)

Definition class_of (r : frow) : fclass :=
  if f_reset r then Reset
  else if f_config r then Config
  else if f_live r then Uncovered
  else WriteFirst.

Definition is_uncovered (c : fclass) : bool := match c with Uncovered => true | _ => false end.

Definition fields_covered (t : list frow) : bool := forallb (fun r => negb (is_uncovered (class_of r))) t.

(* sanity of the table itself *)
Definition config_not_reset (t : list frow) : bool := forallb (fun r => negb (f_config r && f_reset r)) t.
Definition reset_fields_dead (t : list frow) : bool := forallb (fun r => implb (f_reset r) (negb (f_live r))) t.

Section Machine.
  Variable V : Type.                         (* field values *)
  Variable I R : Type.                       (* inputs, results (tree or error) *)
  Variable table : list frow.
  Definition state := nat -> V.              (* field index (position in the table) -> value *)
  Variable init : nat -> V.                  (* the value reset() assigns *)

  Definition cls (f : nat) : fclass :=
    match nth_error table f with Some r => class_of r | None => Reset end.

  Definition reset (s : state) : state :=
    fun f => match cls f with Reset => init f | _ => s f end.

  (* the body of an entry point after reset(): arbitrary, except that it never reads a WriteFirst field before writing it *)
  Variable run : state -> I -> R.
  Definition write_first_frame : Prop :=
    forall s s' i, (forall f, cls f <> WriteFirst -> s f = s' f) -> run s i = run s' i.

  Definition same_config (s s0 : state) : Prop := forall f, cls f = Config -> s f = s0 f.

  Definition api (s : state) (i : I) : R := run (reset s) i.
End Machine.
