(* Syntax/Simplify.v — model of syntax/simplify.go (after the `fix:` commit that stops
   simplifyWord from rewriting dollar-double-quoted strings) over three sub-languages of the syntax tree:

     words       Lit | SglQuoted{Dollar} | DblQuoted{Dollar; Lit/ParamExp parts} | ParamExp
     arithmetic  Word | UnaryArithm | BinaryArithm | ParenArithm
     [[ ]] tests Word | UnaryTest | BinaryTest | ParenTest
     statements  Subshell nesting with opaque other commands

   Impl: simplifier.visit + the Preorder walk (the walk descends into the children
   *after* visit has replaced them, which is why the walks below take fuel: the
   children of the visited node are not syntactic children of the original node).
   Spec: evaluators (arithmetic over an integer environment with side effects, [[ ]]
   over literal/pattern views of words, quote removal for words, subshell semantics
   over abstract commands).
   NO PROOFS in this file.  Bytes, not runes: the parser only produces valid UTF-8
   literal values, on which the rune loop of simplifyWord and the byte loop below
   coincide (all bytes it distinguishes are ASCII). *)
From Verif Require Import Base.Str.
Open Scope N_scope.

(* ===================================================================== *)
(* Words                                                                  *)
(* ===================================================================== *)

(* ParamExp without sub-nodes: Short, a bit mask of Excl(1) Length(2) Width(4) IsSet(8)
   Names(16,32), and Param.Value.  simple() <-> flags = 0 on this fragment. *)
Inductive dpart :=
| DLit (s : str)
| DParam (short : bool) (flags : N) (name : str).

Inductive wpart :=
| WLit (s : str)
| WSgl (dollar : bool) (s : str)
| WDbl (dollar : bool) (ps : list dpart)
| WParam (short : bool) (flags : N) (name : str).

Definition word := list wpart.

Definition BSL : N := 92.  (* \ *)
Definition SQ : N := 39.   (* ' *)
Definition DQ : N := 34.   (* double quote *)
Definition DOLLAR : N := 36.
Definition BQ : N := 96.   (* ` *)

Definition ascii_letter (r : N) : bool :=
  ((97 <=? r) && (r <=? 122)) || ((65 <=? r) && (r <=? 90)).
Definition ascii_digit (r : N) : bool := (48 <=? r) && (r <=? 57).

(* syntax.ValidName *)
Fixpoint valid_name_tail (s : str) : bool :=
  match s with
  | [] => true
  | r :: t => (ascii_letter r || (r =? 95) || ascii_digit r) && valid_name_tail t
  end.
Definition valid_name (s : str) : bool :=
  match s with
  | [] => false
  | r :: t => (ascii_letter r || (r =? 95)) && valid_name_tail t
  end.

(* the rune loop of simplifyWord over lit.Value; None = `continue parts`,
   Some v = the strings.Builder contents at the end of the loop *)
Fixpoint sw_scan (s : str) (escaped : bool) : option str :=
  match s with
  | [] => Some []
  | r :: t =>
      if r =? BSL then
        (* escaped = !escaped; if escaped { continue } *)
        if negb escaped then sw_scan t true
        else option_map (cons r) (sw_scan t false)
      else if r =? SQ then None
      else if (r =? DOLLAR) || (r =? DQ) || (r =? BQ) then option_map (cons r) (sw_scan t false)
      else if escaped then None
      else option_map (cons r) (sw_scan t false)
  end.

(* simplifier.simplifyWord: the `for i, wp := range wps` loop. `break` leaves the
   remaining parts untouched.  Returns (parts, modified). *)
Fixpoint simplify_word (wps : word) : word * bool :=
  match wps with
  | [] => ([], false)
  | wp :: rest =>
      match wp with
      | WDbl false [DLit v] =>
          match sw_scan v false with
          | None => let (r, m) := simplify_word rest in (wp :: r, m)          (* continue parts *)
          | Some nv =>
              if str_eqb nv v then (wps, false)                               (* break *)
              else let (r, m) := simplify_word rest in (WSgl false nv :: r, true)
          end
      | _ => (wps, false)                                                     (* break *)
      end
  end.

(* what simplifyWord did before the fix: Dollar was copied to the SglQuoted *)
Fixpoint simplify_word_prefix (wps : word) : word * bool :=
  match wps with
  | [] => ([], false)
  | wp :: rest =>
      match wp with
      | WDbl dollar [DLit v] =>
          match sw_scan v false with
          | None => let (r, m) := simplify_word_prefix rest in (wp :: r, m)
          | Some nv =>
              if str_eqb nv v then (wps, false)
              else let (r, m) := simplify_word_prefix rest in (WSgl dollar nv :: r, true)
          end
      | _ => (wps, false)
      end
  end.

(* ---- Spec: expansion of a word in a context without field splitting, as a list of
   (byte, quoted) — the literal view (expand.Literal) is the bytes, the pattern view
   (expand.Pattern) additionally knows which bytes are quoted. ---- *)

Definition qstr := list (N * bool).
Definition quoted (s : str) : qstr := map (fun c => (c, true)) s.
Definition unquoted (s : str) : qstr := map (fun c => (c, false)) s.

(* expand.wordField, ql == quoteDouble: a backslash followed by a double quote, backslash, dollar or backquote is dropped *)
Definition dq_special (c : N) : bool := (c =? DQ) || (c =? BSL) || (c =? DOLLAR) || (c =? BQ).
Fixpoint dq_unescape (s : str) : str :=
  match s with
  | [] => []
  | b :: t =>
      if b =? BSL then
        match t with
        | c :: t' => if dq_special c then c :: dq_unescape t' else b :: dq_unescape t
        | [] => [b]
        end
      else b :: dq_unescape t
  end.

(* $'...' ANSI-C quoting (the common escapes; \c, \u, \U and anything else stay as written) *)
Definition octal_digit (c : N) : bool := (48 <=? c) && (c <=? 55).
Definition hex_val (c : N) : option N :=
  if ascii_digit c then Some (c - 48)
  else if (97 <=? c) && (c <=? 102) then Some (c - 87)
  else if (65 <=? c) && (c <=? 70) then Some (c - 55)
  else None.
Definition simple_escape (c : N) : option N :=
  if c =? 97 then Some 7          (* \a *)
  else if c =? 98 then Some 8     (* \b *)
  else if (c =? 101) || (c =? 69) then Some 27  (* \e \E *)
  else if c =? 102 then Some 12   (* \f *)
  else if c =? 110 then Some 10   (* \n *)
  else if c =? 114 then Some 13   (* \r *)
  else if c =? 116 then Some 9    (* \t *)
  else if c =? 118 then Some 11   (* \v *)
  else if (c =? BSL) || (c =? SQ) || (c =? DQ) || (c =? 63) then Some c
  else None.
(* fuel = length of the input; every step consumes at least one byte *)
Fixpoint ansi_c_fuel (fuel : nat) (s : str) : str :=
  match fuel with
  | O => []
  | S f =>
      match s with
      | [] => []
      | b :: t =>
          if negb (b =? BSL) then b :: ansi_c_fuel f t
          else match t with
               | [] => [b]
               | c :: t' =>
                   match simple_escape c with
                   | Some v => v :: ansi_c_fuel f t'
                   | None =>
                       if octal_digit c then
                         match t' with
                         | d1 :: t2 =>
                             if octal_digit d1 then
                               match t2 with
                               | d2 :: t3 =>
                                   if octal_digit d2
                                   then (((c - 48) * 64 + (d1 - 48) * 8 + (d2 - 48)) mod 256) :: ansi_c_fuel f t3
                                   else ((c - 48) * 8 + (d1 - 48)) :: ansi_c_fuel f t2
                               | [] => [(c - 48) * 8 + (d1 - 48)]
                               end
                             else (c - 48) :: ansi_c_fuel f t'
                         | [] => [c - 48]
                         end
                       else if c =? 120 then      (* \xH or \xHH *)
                         match t' with
                         | h1 :: t2 =>
                             match hex_val h1 with
                             | Some v1 =>
                                 match t2 with
                                 | h2 :: t3 =>
                                     match hex_val h2 with
                                     | Some v2 => (v1 * 16 + v2) :: ansi_c_fuel f t3
                                     | None => v1 :: ansi_c_fuel f t2
                                     end
                                 | [] => [v1]
                                 end
                             | None => b :: c :: ansi_c_fuel f t'
                             end
                         | [] => [b; c]
                         end
                       else b :: c :: ansi_c_fuel f t'
                   end
               end
      end
  end.
Definition ansi_c_decode (s : str) : str := ansi_c_fuel (length s) s.

Section WordSem.
  (* value of a parameter expansion (short, flags, name); for the arithmetic evaluator it
     is instantiated from the integer environment *)
  Variable pval : bool -> N -> str -> str.

  Definition expand_dpart (p : dpart) : qstr :=
    match p with
    | DLit s => quoted (dq_unescape s)
    | DParam sh fl n => quoted (pval sh fl n)
    end.

  Definition expand_wpart (p : wpart) : qstr :=
    match p with
    | WLit s => unquoted s                      (* raw, as expand.wordField with quoteNone *)
    | WSgl false s => quoted s
    | WSgl true s => quoted (ansi_c_decode s)
    | WDbl _ ps => flat_map expand_dpart ps     (* dollar-dquote = dquote (no translation) *)
    | WParam sh fl n => unquoted (pval sh fl n)
    end.

  Definition expand_q (w : word) : qstr := flat_map expand_wpart w.
  Definition literal (w : word) : str := map fst (expand_q w).
End WordSem.

(* what the parser guarantees about a DblQuoted literal: it does not end inside an escape *)
Fixpoint ends_escaped (s : str) (esc : bool) : bool :=
  match s with
  | [] => esc
  | c :: t => if c =? BSL then ends_escaped t (negb esc) else ends_escaped t false
  end.
Definition wf_dpart (p : dpart) : bool :=
  match p with DLit s => negb (ends_escaped s false) | DParam _ _ _ => true end.
Definition wf_wpart (p : wpart) : bool :=
  match p with WDbl _ ps => forallb wf_dpart ps | _ => true end.
Definition wf_word (w : word) : bool := forallb wf_wpart w.

(* Word.Lit() *)
Fixpoint word_lit_aux (w : word) : option str :=
  match w with
  | [] => Some []
  | WLit s :: r => match word_lit_aux r with Some t => Some (s ++ t) | None => None end
  | _ => None
  end.
Definition word_lit (w : word) : str := match word_lit_aux w with Some s => s | None => [] end.

(* ===================================================================== *)
(* Arithmetic                                                             *)
(* ===================================================================== *)

Inductive aexpr :=
| AWord (w : word)
| AUn (op : N) (post : bool) (x : aexpr)
| ABin (op : N) (x y : aexpr)
| AParen (x : aexpr).

(* operator codes (assigned by the harness exporter from the Go constants):
   unary: 0 Inc, 1 Dec, >= 100 others.
   binary: 0 Assgn, 1..14 compound assignments, 20 TernQuest, 21 TernColon,
           22 AndArit, 23 OrArit, 24 Pow (an ordinary operator for the model; the code is fixed
           for the class predicate of KF-C04-4), >= 100 others (incl. Comma). *)
Definition un_incdec (op : N) : bool := op <? 2.
Definition bin_assign (op : N) : bool := op <? 20.
Definition OP_QUEST : N := 20.
Definition OP_COLON : N := 21.
Definition OP_ANDARIT : N := 22.
Definition OP_ORARIT : N := 23.

(* removeParensArithm *)
Fixpoint remove_parens_arithm (x : aexpr) : aexpr * bool :=
  match x with
  | AParen y => (fst (remove_parens_arithm y), true)
  | _ => (x, false)
  end.

(* inlineSimpleParams *)
Definition inline_simple_params (x : aexpr) : aexpr * bool :=
  match x with
  | AWord [WParam sh fl name] =>
      if valid_name name && (fl =? 0) then (AWord [WLit name], true) else (x, false)
  | _ => (x, false)
  end.

Fixpoint asize (e : aexpr) : nat :=
  match e with
  | AWord _ => 1
  | AUn _ _ x => S (asize x)
  | ABin _ x y => S (asize x + asize y)
  | AParen x => S (asize x)
  end.

(* visit (the *Word, *ParenArithm, *BinaryArithm cases) followed by the walk into the
   children as they are after visit.  None = out of fuel. *)
Fixpoint walk_arith (fuel : nat) (e : aexpr) : option (aexpr * bool) :=
  match fuel with
  | O => None
  | S f =>
      match e with
      | AWord w => let (w', m) := simplify_word w in Some (AWord w', m)
      | AUn op post x =>
          match walk_arith f x with
          | Some (x', m) => Some (AUn op post x', m)
          | None => None
          end
      | ABin op x y =>
          let (x1, m1) := inline_simple_params x in
          let (y1, m2) := inline_simple_params y in
          match walk_arith f x1, walk_arith f y1 with
          | Some (x2, m3), Some (y2, m4) => Some (ABin op x2 y2, m1 || m2 || m3 || m4)
          | _, _ => None
          end
      | AParen x =>
          let (x1, m1) := remove_parens_arithm x in
          let (x2, m2) := inline_simple_params x1 in
          match walk_arith f x2 with
          | Some (x3, m3) => Some (AParen x3, m1 || m2 || m3)
          | None => None
          end
      end
  end.

(* the holder nodes: ArithmExp / ArithmCmd / Slice.Offset / Slice.Length (parens = inline = true),
   Assign.Index / ParamExp.Index (parens only), and expressions that no case of visit
   handles at their top: CStyleLoop.Init/Cond/Post, LetClause.Exprs (parens = inline = false) *)
Definition simplify_arith_fuel (fuel : nat) (parens inline : bool) (e : aexpr) : option (aexpr * bool) :=
  let (x1, m1) := if parens then remove_parens_arithm e else (e, false) in
  let (x2, m2) := if inline then inline_simple_params x1 else (x1, false) in
  match walk_arith fuel x2 with
  | Some (x3, m3) => Some (x3, m1 || m2 || m3)
  | None => None
  end.
Definition simplify_arith (parens inline : bool) (e : aexpr) : option (aexpr * bool) :=
  simplify_arith_fuel (asize e) parens inline e.

(* ---- Spec: evaluation over an integer environment ---- *)
Definition aenv := list (str * Z).
Fixpoint env_get (env : aenv) (n : str) : Z :=
  match env with
  | [] => 0%Z
  | (k, v) :: r => if str_eqb k n then v else env_get r n
  end.
Definition env_set (env : aenv) (n : str) (v : Z) : aenv := (n, v) :: env.

Section ArithSem.
  Variable itoa : Z -> str.                       (* strconv.FormatInt(v, 10) *)
  Variable atoi : str -> Z.                       (* expand.atoi *)
  Variable pother : N -> str -> aenv -> str.      (* non-simple expansions ${#x} ${!x} ... *)
  Variable binop : N -> Z -> Z -> res Z.          (* binArit, incl. division by zero errors *)
  Variable assignop : N -> Z -> Z -> res Z.       (* the switch of assgnArit *)
  Variable unop : N -> Z -> res Z.

  Definition apval (env : aenv) (sh : bool) (fl : N) (n : str) : str :=
    if fl =? 0 then itoa (env_get env n) else pother fl n env.

  (* expand.Arithm; the environment is threaded because ++ -- and assignments write it *)
  Fixpoint aeval (e : aexpr) (env : aenv) : res (Z * aenv) :=
    match e with
    | AWord w =>
        let s := literal (apval env) w in
        Ok (if valid_name s then env_get env s else atoi s, env)
    | AParen x => aeval x env
    | AUn op post x =>
        if un_incdec op then
          match x with
          | AWord w =>
              let name := word_lit w in
              let old := env_get env name in
              let val := if op =? 0 then (old + 1)%Z else (old - 1)%Z in
              Ok (if post then old else val, env_set env name val)
          | _ => Panic                      (* expr.X.( *syntax.Word) *)
          end
        else
          match aeval x env with
          | Ok (v, env1) => match unop op v with Ok r => Ok (r, env1) | Err c => Err c | Panic => Panic end
          | Err c => Err c
          | Panic => Panic
          end
    | ABin op x y =>
        if bin_assign op then
          match x with
          | AWord w =>
              let name := word_lit w in
              match aeval y env with
              | Ok (arg, env1) =>
                  (* val is read before the right operand is evaluated *)
                  match assignop op (env_get env name) arg with
                  | Ok v => Ok (v, env_set env1 name v)
                  | Err c => Err c
                  | Panic => Panic
                  end
              | Err c => Err c
              | Panic => Panic
              end
          | _ => Panic
          end
        else if op =? OP_QUEST then
          match aeval x env with
          | Ok (cond, env1) =>
              match y with
              | ABin op2 a b =>
                  (* b2 := expr.Y.( *syntax.BinaryArithm); its Op is not checked *)
                  if (cond =? 0)%Z then aeval b env1 else aeval a env1
              | _ => Panic
              end
          | Err c => Err c
          | Panic => Panic
          end
        else if (op =? OP_ANDARIT) || (op =? OP_ORARIT) then
          match aeval x env with
          | Ok (l, env1) =>
              if (op =? OP_ANDARIT) && (l =? 0)%Z then Ok (0%Z, env1)
              else if (op =? OP_ORARIT) && negb (l =? 0)%Z then Ok (1%Z, env1)
              else match aeval y env1 with
                   | Ok (r, env2) => Ok (if (r =? 0)%Z then 0%Z else 1%Z, env2)
                   | Err c => Err c
                   | Panic => Panic
                   end
          | Err c => Err c
          | Panic => Panic
          end
        else
          match aeval x env with
          | Ok (l, env1) =>
              match aeval y env1 with
              | Ok (r, env2) => match binop op l r with Ok v => Ok (v, env2) | Err c => Err c | Panic => Panic end
              | Err c => Err c
              | Panic => Panic
              end
          | Err c => Err c
          | Panic => Panic
          end
    end.
End ArithSem.

(* what the parser guarantees (must follow a name / a literal): the operand of ++ --
   and the left operand of an assignment is a word made of one literal *)
Definition is_lit_word (e : aexpr) : bool :=
  match e with AWord [WLit _] => true | _ => false end.
Fixpoint wf_arith (e : aexpr) : bool :=
  match e with
  | AWord w => wf_word w
  | AUn op _ x => (if un_incdec op then is_lit_word x else true) && wf_arith x
  | ABin op x y => (if bin_assign op then is_lit_word x else true) && wf_arith x && wf_arith y
  | AParen x => wf_arith x
  end.

(* ===================================================================== *)
(* [[ ]] test expressions                                                 *)
(* ===================================================================== *)

Inductive texpr :=
| TWord (w : word)
| TUn (op : N) (x : texpr)
| TBin (op : N) (x y : texpr)
| TParen (x : texpr).

(* unary: 0 TsNot, 1 TsEmpStr (-z), 2 TsNempStr (-n), >= 100 others.
   binary: 0 TsMatchShort (=), 1 TsMatch (==), 2 TsNoMatch (!=), 3 TsReMatch (=~),
           4 AndTest, 5 OrTest, >= 100 others. *)
Definition T_NOT : N := 0.
Definition T_EMP : N := 1.
Definition T_NEMP : N := 2.
Definition T_MATCHSHORT : N := 0.
Definition T_MATCH : N := 1.
Definition T_NOMATCH : N := 2.
Definition T_REMATCH : N := 3.
Definition T_AND : N := 4.
Definition T_OR : N := 5.

(* unquoteParams *)
Definition unquote_params (x : texpr) : texpr * bool :=
  match x with
  | TWord [WDbl _ [DParam sh fl n]] => (TWord [WParam sh fl n], true)
  | _ => (x, false)
  end.

(* removeParensTest *)
Fixpoint remove_parens_test (x : texpr) : texpr * bool :=
  match x with
  | TParen y => (fst (remove_parens_test y), true)
  | _ => (x, false)
  end.

(* removeNegateTest *)
Definition remove_negate_test (x : texpr) : texpr * bool :=
  match x with
  | TUn op (TUn op2 y) =>
      if op =? T_NOT then
        if op2 =? T_EMP then (TUn T_NEMP y, true)
        else if op2 =? T_NEMP then (TUn T_EMP y, true)
        else if op2 =? T_NOT then (y, true)
        else (x, false)
      else (x, false)
  | TUn op (TBin op2 a b) =>
      if op =? T_NOT then
        if op2 =? T_MATCH then (TBin T_NOMATCH a b, true)
        else if op2 =? T_NOMATCH then (TBin T_MATCH a b, true)
        else (x, false)
      else (x, false)
  | _ => (x, false)
  end.

Fixpoint tsize (e : texpr) : nat :=
  match e with
  | TWord _ => 1
  | TUn _ x => S (tsize x)
  | TBin _ x y => S (tsize x + tsize y)
  | TParen x => S (tsize x)
  end.

Fixpoint walk_test (fuel : nat) (e : texpr) : option (texpr * bool) :=
  match fuel with
  | O => None
  | S f =>
      match e with
      | TWord w => let (w', m) := simplify_word w in Some (TWord w', m)
      | TParen x =>
          let (x1, m1) := remove_parens_test x in
          let (x2, m2) := remove_negate_test x1 in
          match walk_test f x2 with
          | Some (x3, m3) => Some (TParen x3, m1 || m2 || m3)
          | None => None
          end
      | TBin op x y =>
          let (x1, m1) := unquote_params x in
          let (x2, m2) := remove_negate_test x1 in
          let (op1, m3) := if op =? T_MATCHSHORT then (T_MATCH, true) else (op, false) in
          let (y1, m4) := if (op1 =? T_MATCH) || (op1 =? T_NOMATCH) || (op1 =? T_REMATCH)
                          then (y, false) else unquote_params y in
          let (y2, m5) := remove_negate_test y1 in
          match walk_test f x2, walk_test f y2 with
          | Some (x3, m6), Some (y3, m7) => Some (TBin op1 x3 y3, m1 || m2 || m3 || m4 || m5 || m6 || m7)
          | _, _ => None
          end
      | TUn op x =>
          let (x1, m1) := unquote_params x in
          match walk_test f x1 with
          | Some (x2, m2) => Some (TUn op x2, m1 || m2)
          | None => None
          end
      end
  end.

(* the *TestClause case *)
Definition simplify_test_fuel (fuel : nat) (e : texpr) : option (texpr * bool) :=
  let (x1, m1) := remove_parens_test e in
  let (x2, m2) := remove_negate_test x1 in
  match walk_test fuel x2 with
  | Some (x3, m3) => Some (x3, m1 || m2 || m3)
  | None => None
  end.
Definition simplify_test (e : texpr) : option (texpr * bool) := simplify_test_fuel (tsize e) e.

Fixpoint wf_test (e : texpr) : bool :=
  match e with
  | TWord w => wf_word w
  | TUn _ x => wf_test x
  | TBin _ x y => wf_test x && wf_test y
  | TParen x => wf_test x
  end.

(* ---- Spec: the truth value of a [[ ]] expression ---- *)
Section TestSem.
  Variable pval : bool -> N -> str -> str.
  Variable pmatch : qstr -> str -> bool.          (* pattern (with quoting) against a string *)
  Variable untest_o : N -> str -> bool.           (* -e -f -v ... *)
  Variable bintest_o : N -> str -> str -> bool.   (* =~ -eq -nt < > ... *)

  Definition nonempty (s : str) : bool := match s with [] => false | _ => true end.

  Definition untest (op : N) (s : str) : bool :=
    if op =? T_EMP then negb (nonempty s)
    else if op =? T_NEMP then nonempty s
    else untest_o op s.

  Fixpoint teval (e : texpr) : res bool :=
    match e with
    | TWord w => Ok (nonempty (literal pval w))
    | TParen x => teval x
    | TUn op x =>
        if op =? T_NOT then
          match teval x with Ok b => Ok (negb b) | Err c => Err c | Panic => Panic end
        else
          match x with
          | TWord w => Ok (untest op (literal pval w))
          | _ => Panic           (* the parser only puts a word after a unary operator *)
          end
    | TBin op x y =>
        if (op =? T_AND) || (op =? T_OR) then
          match teval x, teval y with
          | Ok a, Ok b => Ok (if op =? T_AND then a && b else a || b)
          | Panic, _ | _, Panic => Panic
          | Err c, _ => Err c
          | _, Err c => Err c
          end
        else
          match x, y with
          | TWord xw, TWord yw =>
              if (op =? T_MATCHSHORT) || (op =? T_MATCH) then Ok (pmatch (expand_q pval yw) (literal pval xw))
              else if op =? T_NOMATCH then Ok (negb (pmatch (expand_q pval yw) (literal pval xw)))
              else Ok (bintest_o op (literal pval xw) (literal pval yw))
          | _, _ => Panic        (* x.X.( *syntax.Word) *)
          end
    end.
End TestSem.

(* ===================================================================== *)
(* Subshells                                                              *)
(* ===================================================================== *)

(* a statement is plain when it is not negated, not in the background, not a coprocess,
   not disowned and has no redirections *)
Inductive cmd :=
| CSub (ss : list stmt)
| COther (id : N)
with stmt :=
| St (plain : bool) (c : cmd).

(* inlineSubshell: for len(stmts) == 1 { ... stmts = sub.Stmts }.
   inline_inner c = Some stmts: c is a Subshell, stmts = what the loop ends with once it
   has taken the step into c. *)
Fixpoint inline_inner (c : cmd) : option (list stmt) :=
  match c with
  | COther _ => None
  | CSub inner =>
      Some (match inner with
            | [St true c'] => match inline_inner c' with Some r => r | None => inner end
            | _ => inner
            end)
  end.
Definition inline_subshell (ss : list stmt) : list stmt * bool :=
  match ss with
  | [St true c] => match inline_inner c with Some r => (r, true) | None => (ss, false) end
  | _ => (ss, false)
  end.

Fixpoint csize (c : cmd) : nat :=
  match c with
  | COther _ => 1
  | CSub ss => S ((fix go (l : list stmt) : nat :=
                     match l with [] => O | St _ c' :: r => S (csize c' + go r) end) ss)
  end.
Definition ssize (ss : list stmt) : nat :=
  (fix go (l : list stmt) : nat := match l with [] => O | St _ c' :: r => S (csize c' + go r) end) ss.

(* the *Subshell / *CmdSubst case and the walk over the statements *)
Fixpoint walk_cmd (fuel : nat) (c : cmd) : option (cmd * bool) :=
  match fuel with
  | O => None
  | S f =>
      match c with
      | COther id => Some (COther id, false)
      | CSub ss =>
          let (ss1, m1) := inline_subshell ss in
          match (fix go (l : list stmt) : option (list stmt * bool) :=
                   match l with
                   | [] => Some ([], false)
                   | St p c' :: r =>
                       match walk_cmd f c', go r with
                       | Some (c2, m2), Some (r2, m3) => Some (St p c2 :: r2, m2 || m3)
                       | _, _ => None
                       end
                   end) ss1 with
          | Some (ss2, m2) => Some (CSub ss2, m1 || m2)
          | None => None
          end
      end
  end.
Definition simplify_cmd (c : cmd) : option (cmd * bool) := walk_cmd (csize c) c.

(* ---- Spec: abstract command semantics.  A subshell runs its statements on a copy of
   the state: it contributes output and status only. ---- *)
Section CmdSem.
  Variable State : Type.
  Variable run_other : N -> State -> State * str * Z.
  (* negation, redirections, ... of a non-plain statement: a function of the state before
     and of what the command's run produced *)
  Variable modify : State -> State * str * Z -> State * str * Z.
  Variable set_status : State -> Z -> State.

  Fixpoint sem_cmd (c : cmd) (s : State) : State * str * Z :=
    match c with
    | COther id => run_other id s
    | CSub ss =>
        let '(_, o, z) :=
          (fix go (l : list stmt) (s0 : State) : State * str * Z :=
             match l with
             | [] => (s0, [], 0%Z)
             | St p c' :: r =>
                 let '(s1, o1, z1) := if p then sem_cmd c' s0 else modify s0 (sem_cmd c' s0) in
                 match r with
                 | [] => (s1, o1, z1)
                 | _ => let '(s2, o2, z2) := go r (set_status s1 z1) in (s2, o1 ++ o2, z2)
                 end
             end) ss s in
        (s, o, z)
    end.
End CmdSem.

(* ===================================================================== *)
(* Decidable equality (used by the in-kernel comparison with the Go trees) *)
(* ===================================================================== *)

Definition dpart_eqb (a b : dpart) : bool :=
  match a, b with
  | DLit x, DLit y => str_eqb x y
  | DParam s1 f1 n1, DParam s2 f2 n2 => Bool.eqb s1 s2 && (f1 =? f2) && str_eqb n1 n2
  | _, _ => false
  end.
Fixpoint list_eqb {A} (eqb : A -> A -> bool) (a b : list A) : bool :=
  match a, b with
  | [], [] => true
  | x :: a', y :: b' => eqb x y && list_eqb eqb a' b'
  | _, _ => false
  end.
Definition wpart_eqb (a b : wpart) : bool :=
  match a, b with
  | WLit x, WLit y => str_eqb x y
  | WSgl d1 x, WSgl d2 y => Bool.eqb d1 d2 && str_eqb x y
  | WDbl d1 x, WDbl d2 y => Bool.eqb d1 d2 && list_eqb dpart_eqb x y
  | WParam s1 f1 n1, WParam s2 f2 n2 => Bool.eqb s1 s2 && (f1 =? f2) && str_eqb n1 n2
  | _, _ => false
  end.
Definition word_eqb : word -> word -> bool := list_eqb wpart_eqb.
Fixpoint aexpr_eqb (a b : aexpr) : bool :=
  match a, b with
  | AWord x, AWord y => word_eqb x y
  | AUn o1 p1 x, AUn o2 p2 y => (o1 =? o2) && Bool.eqb p1 p2 && aexpr_eqb x y
  | ABin o1 x1 y1, ABin o2 x2 y2 => (o1 =? o2) && aexpr_eqb x1 x2 && aexpr_eqb y1 y2
  | AParen x, AParen y => aexpr_eqb x y
  | _, _ => false
  end.
Fixpoint texpr_eqb (a b : texpr) : bool :=
  match a, b with
  | TWord x, TWord y => word_eqb x y
  | TUn o1 x, TUn o2 y => (o1 =? o2) && texpr_eqb x y
  | TBin o1 x1 y1, TBin o2 x2 y2 => (o1 =? o2) && texpr_eqb x1 x2 && texpr_eqb y1 y2
  | TParen x, TParen y => texpr_eqb x y
  | _, _ => false
  end.
Fixpoint cmd_eqb (a b : cmd) : bool :=
  match a, b with
  | COther i, COther j => i =? j
  | CSub x, CSub y =>
      (fix go (l1 l2 : list stmt) : bool :=
         match l1, l2 with
         | [], [] => true
         | St p1 c1 :: r1, St p2 c2 :: r2 => Bool.eqb p1 p2 && cmd_eqb c1 c2 && go r1 r2
         | _, _ => false
         end) x y
  | _, _ => false
  end.
Definition opt_eqb {A} (eqb : A -> A -> bool) (a b : option (A * bool)) : bool :=
  match a, b with
  | Some (x, m), Some (y, n) => eqb x y && Bool.eqb m n
  | None, None => true
  | _, _ => false
  end.
