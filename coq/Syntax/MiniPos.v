(* Syntax/MiniPos.v — MiniSh level S with positions: the trees of MiniAst.v carrying the source
   LINES the printer compares in its default (multi-line) mode, exported from Go field by field:
     Stmt.Pos().Line / Stmt.End().Line, CallExpr (line of its words: all on one line in the
     fragment), Block.Lbrace/Rbrace, Subshell.Lparen/Rparen, IfClause.Position/ThenPos/FiPos
     (else/elif: Position, ThenPos), WhileClause.WhilePos/DoPos/DonePos, BinaryCmd.OpPos.
   erase : forget the lines.   canon : the canonical position assignment = the lines the real
   parser assigns to the printer's own fully multi-line output: every statement of a body
   on its own line, the closing word on its own line, a single-statement condition on the
   line of its `if` / `elif` / `while`, `then` / `do` on the line where the condition ends,
   both operands of && || | on one line.  NO PROOFS in this file. *)
From Verif Require Import Base.Str Syntax.Word Syntax.MiniAst.

Inductive pcmd :=
| PCall (l : nat) (args : list word)
| PBlock (lb : nat) (ss : pstmts) (rb : nat)
| PSubshell (lp : nat) (ss : pstmts) (rp : nat)
| PIf (l : nat) (cond : pstmts) (thenl : nat) (thn : pstmts) (els : pelse)
| PWhile (until : bool) (l : nat) (cond : pstmts) (dol : nat) (body : pstmts) (donel : nat)
| PBinary (op : binop) (x : pstmt) (opl : nat) (y : pstmt)
with pstmt :=
| PStmt (l : nat) (neg : bool) (c : pcmd) (bg : bool) (endl : nat)
with pstmts :=
| PNil
| PCons (s : pstmt) (ss : pstmts)
with pelse :=
| PNoElse (fil : nat)
| PElif (l : nat) (cond : pstmts) (thenl : nat) (thn : pstmts) (els : pelse)
| PElse (l : nat) (thn : pstmts) (fil : nat).

Definition pfile := pstmts.

Fixpoint erase_cmd (c : pcmd) : cmd :=
  match c with
  | PCall _ args => Call args
  | PBlock _ ss _ => Block (erase_stmts ss)
  | PSubshell _ ss _ => Subshell (erase_stmts ss)
  | PIf _ c _ t e => IfClause (erase_stmts c) (erase_stmts t) (erase_else e)
  | PWhile u _ c _ b _ => WhileClause u (erase_stmts c) (erase_stmts b)
  | PBinary op x _ y => Binary op (erase_stmt x) (erase_stmt y)
  end
with erase_stmt (s : pstmt) : stmt :=
  match s with PStmt _ n c b _ => Stmt n (erase_cmd c) b end
with erase_stmts (ss : pstmts) : stmts :=
  match ss with PNil => SNil | PCons s r => SCons (erase_stmt s) (erase_stmts r) end
with erase_else (e : pelse) : else_ :=
  match e with
  | PNoElse _ => NoElse
  | PElif _ c _ t e' => Elif (erase_stmts c) (erase_stmts t) (erase_else e')
  | PElse _ t _ => Else (erase_stmts t)
  end.

Definition pstmt_line (s : pstmt) : nat := match s with PStmt l _ _ _ _ => l end.
Definition pstmt_end (s : pstmt) : nat := match s with PStmt _ _ _ _ e => e end.
Definition pstmt_cmd (s : pstmt) : pcmd := match s with PStmt _ _ c _ _ => c end.
Fixpoint pslen (ss : pstmts) : nat := match ss with PNil => O | PCons _ r => S (pslen r) end.
Definition pfirst_line (ss : pstmts) : nat := match ss with PCons s _ => pstmt_line s | PNil => O end.
(* stmtsEnd(stmts, nil).Line(): End of the last statement (0 for an empty list) *)
Fixpoint plast_end (ss : pstmts) : nat :=
  match ss with
  | PNil => O
  | PCons s PNil => pstmt_end s
  | PCons _ r => plast_end r
  end.
Definition pcmd_line (c : pcmd) : nat :=
  match c with
  | PCall l _ | PBlock l _ _ | PSubshell l _ _ | PIf l _ _ _ _ | PWhile _ l _ _ _ _ => l
  | PBinary _ x _ _ => pstmt_line x
  end.
Definition pelse_line (e : pelse) : nat :=     (* thenEnd: el.Position, or FiPos *)
  match e with PNoElse fil => fil | PElif l _ _ _ _ => l | PElse l _ _ => l end.

(* ------------------------------------------------------------------ canonical positions
   every function takes the line on which the node starts and returns the node and the
   line on which it ends *)
Definition single (ss : stmts) : bool := match ss with SCons _ SNil => true | _ => false end.

Fixpoint canon_cmd (l : nat) (c : cmd) : pcmd * nat :=
  match c with
  | Call args => (PCall l args, l)
  | Block ss => let '(pss, e) := canon_lines (S l) ss l in (PBlock l pss (S e), S e)
  | Subshell ss => let '(pss, e) := canon_lines (S l) ss l in (PSubshell l pss (S e), S e)
  | IfClause c t els =>
      let '(pc, thenl) := canon_cond l c in
      let '(pt, et) := canon_lines (S thenl) t thenl in
      let '(pe, fil) := canon_else (S et) els in
      (PIf l pc thenl pt pe, fil)
  | WhileClause u c b =>
      let '(pc, dol) := canon_cond l c in
      let '(pb, eb) := canon_lines (S dol) b dol in
      (PWhile u l pc dol pb (S eb), S eb)
  | Binary op x y =>
      let '(px, ex) := canon_stmt l x in
      let '(py, ey) := canon_stmt ex y in
      (PBinary op px ex py, ey)
  end
with canon_stmt (l : nat) (s : stmt) : pstmt * nat :=
  match s with
  | Stmt n c b => let '(pc, e) := canon_cmd l c in (PStmt l n pc b e, e)
  end
(* a list whose statements start on lines l, end+1, ... ; prev = end line when the list is empty *)
with canon_lines (l : nat) (ss : stmts) (prev : nat) : pstmts * nat :=
  match ss with
  | SNil => (PNil, prev)
  | SCons s rest =>
      let '(ps, e) := canon_stmt l s in
      let '(pr, e') := canon_lines (S e) rest e in
      (PCons ps pr, e')
  end
(* a condition after `if` on line l: one statement stays on that line, several go on their
   own lines and push `then` onto the line after the last; returns the line of then / do *)
with canon_cond (l : nat) (ss : stmts) : pstmts * nat :=
  match ss with
  | SNil => (PNil, S l)
  | SCons s rest =>
      match rest with
      | SNil => let '(ps, e) := canon_stmt l s in (PCons ps PNil, e)
      | _ =>
          let '(ps, e) := canon_stmt (S l) s in
          let '(pr, e') := canon_lines (S e) rest e in
          (PCons ps pr, S e')
      end
  end
(* the part of an if after the Then list; l = the line of elif / else / fi *)
with canon_else (l : nat) (e : else_) : pelse * nat :=
  match e with
  | NoElse => (PNoElse l, l)
  | Elif c t els =>
      let '(pc, thenl) := canon_cond l c in
      let '(pt, et) := canon_lines (S thenl) t thenl in
      let '(pe, fil) := canon_else (S et) els in
      (PElif l pc thenl pt pe, fil)
  | Else t =>
      let '(pt, et) := canon_lines (S l) t l in
      (PElse l pt (S et), S et)
  end.

Definition canon_file (t : file) : pfile := fst (canon_lines 1 t 0).
