(* Syntax/FormatSem.v -- core fragment for property C03 (formatting never changes what a
   script does): words with quoting, simple commands, ! && || { } ( ) if while/until.
   The tree records what the printer may change (property C01's normal form): source
   line of a statement, its trailing comment, whether it was ended by `;` or a newline,
   the number of escaped newlines (line continuations) before a word, the spelling of a
   command substitution (backquotes or dollar-paren), and braces around a parameter name.
   [norm_*] erases exactly those; [sem_*] is an abstract-command semantics (the utilities,
   the state and the parameter lookup are Section variables).  LINENO is the one
   position-dependent parameter: it is excluded from the fragment by the exporter (Scope).
   NO PROOFS in this file.  Own list-like constructors so that the six types form one
   mutual inductive with a usable mutual induction scheme. *)
From Verif Require Import Base.Str.
Open Scope N_scope.

Inductive word : Type :=
| WNil
| WCons (p : part) (w : word)
with part : Type :=
| PLit (s : str)                          (* unquoted literal text, raw *)
| PSgl (s : str)                          (* '...' *)
| PDbl (d : dq)                           (* double-quoted parts *)
| PParam (braces : bool) (name : str)     (* $x (false) or ${x} (true) *)
| PSub (backquote : bool) (body : stmts)  (* `...` (true) or $(...) (false) *)
with dq : Type :=
| DNil
| DLit (s : str) (r : dq)
| DParam (braces : bool) (name : str) (r : dq)
| DSub (backquote : bool) (body : stmts) (r : dq)
with words : Type :=
| WsNil
| WsCons (escnl : N) (w : word) (r : words)   (* escnl: line continuations before the word *)
with stmts : Type :=
| SNil
| SCons (line : N) (comment : option str) (semi : bool) (s : stmt) (r : stmts)
with stmt : Type :=
| Simple (ws : words)
| Not (s : stmt)
| AndOr (isand : bool) (a b : stmt)
| Brace (body : stmts)
| Subshell (body : stmts)
| If (c t e : stmts)
| While (until : bool) (c b : stmts).

Definition BSL : N := 92.
Definition DQ : N := 34.
Definition DOLLAR : N := 36.
Definition BQ : N := 96.
Definition NL : N := 10.

(* escaped newlines inside double quotes: a backslash-newline pair is a line continuation
   (an escaped backslash does not pair with a following newline) *)
Fixpoint strip_escnl_dq (s : str) : str :=
  match s with
  | [] => []
  | b :: t =>
      if b =? BSL then
        match t with
        | c :: t' => if c =? NL then strip_escnl_dq t' else b :: c :: strip_escnl_dq t'
        | [] => [b]
        end
      else b :: strip_escnl_dq t
  end.

(* ---- norm: what the printer is allowed to change ---- *)
Fixpoint norm_word (w : word) : word :=
  match w with
  | WNil => WNil
  | WCons p r => WCons (norm_part p) (norm_word r)
  end
with norm_part (p : part) : part :=
  match p with
  | PLit s => PLit s
  | PSgl s => PSgl s
  | PDbl d => PDbl (norm_dq d)
  | PParam _ n => PParam false n
  | PSub _ b => PSub false (norm_stmts b)
  end
with norm_dq (d : dq) : dq :=
  match d with
  | DNil => DNil
  | DLit s r => match strip_escnl_dq s with
                | [] => norm_dq r                 (* an empty literal part is no part *)
                | s' => DLit s' (norm_dq r)
                end
  | DParam _ n r => DParam false n (norm_dq r)
  | DSub _ b r => DSub false (norm_stmts b) (norm_dq r)
  end
with norm_words (ws : words) : words :=
  match ws with
  | WsNil => WsNil
  | WsCons _ w r => WsCons 0 (norm_word w) (norm_words r)
  end
with norm_stmts (l : stmts) : stmts :=
  match l with
  | SNil => SNil
  | SCons _ _ _ s r => SCons 0 None false (norm_stmt s) (norm_stmts r)
  end
with norm_stmt (s : stmt) : stmt :=
  match s with
  | Simple ws => Simple (norm_words ws)
  | Not s' => Not (norm_stmt s')
  | AndOr o a b => AndOr o (norm_stmt a) (norm_stmt b)
  | Brace b => Brace (norm_stmts b)
  | Subshell b => Subshell (norm_stmts b)
  | If c t e => If (norm_stmts c) (norm_stmts t) (norm_stmts e)
  | While u c b => While u (norm_stmts c) (norm_stmts b)
  end.

(* ---- semantics ---- *)

(* quote removal of unquoted text: a backslash quotes the next byte; backslash-newline vanishes *)
Fixpoint unquote_lit (s : str) : str :=
  match s with
  | [] => []
  | b :: t =>
      if b =? BSL then
        match t with
        | c :: t' => if c =? NL then unquote_lit t' else c :: unquote_lit t'
        | [] => [b]
        end
      else b :: unquote_lit t
  end.

(* inside double quotes a backslash only escapes dollar, backquote, double quote, backslash, newline *)
Fixpoint unquote_dq (s : str) : str :=
  match s with
  | [] => []
  | b :: t =>
      if b =? BSL then
        match t with
        | c :: t' =>
            if c =? NL then unquote_dq t'
            else if (c =? DQ) || (c =? BSL) || (c =? DOLLAR) || (c =? BQ) then c :: unquote_dq t'
            else b :: unquote_dq t
        | [] => [b]
        end
      else b :: unquote_dq t
  end.

(* strip trailing newlines of a command substitution's output *)
Fixpoint strip_nl_rev (r : str) : str :=
  match r with
  | c :: t => if c =? NL then strip_nl_rev t else r
  | [] => []
  end.
Definition strip_trailing_nl (s : str) : str := rev (strip_nl_rev (rev s)).

Inductive outcome (S : Type) : Type :=
| Done (s : S) (out : str) (status : Z)
| OutOfFuel.
Arguments Done {S} s out status.
Arguments OutOfFuel {S}.

Section Sem.
  Variable State : Type.
  Variable lookup : State -> str -> str.                       (* parameter value *)
  Variable run : list str -> State -> State * str * Z.           (* a simple command: argv *)
  Variable set_status : State -> Z -> State.

  (* while loop: at most [n] iterations *)
  Fixpoint loop (n : nat) (until : bool) (cond body : State -> outcome State) (s : State) (acc : str) (last : Z)
    : outcome State :=
    match n with
    | O => OutOfFuel
    | S n' =>
        match cond s with
        | OutOfFuel => OutOfFuel
        | Done s1 o1 z1 =>
            if Bool.eqb (z1 =? 0)%Z (negb until) then
              match body s1 with
              | OutOfFuel => OutOfFuel
              | Done s2 o2 z2 => loop n' until cond body (set_status s2 z2) (acc ++ o1 ++ o2) z2
              end
            else Done s1 (acc ++ o1) last
        end
    end.

  (* word expansion threads the state only through the status (a substitution runs in a
     subshell: the state is restored, its status is remembered) ; one field per word *)
  Fixpoint sem_word (fuel : nat) (w : word) (s : State) : option (str * State) :=
    match w with
    | WNil => Some ([], s)
    | WCons p r =>
        match sem_part fuel p s with
        | Some (a, s1) => match sem_word fuel r s1 with Some (b, s2) => Some (a ++ b, s2) | None => None end
        | None => None
        end
    end
  with sem_part (fuel : nat) (p : part) (s : State) : option (str * State) :=
    match p with
    | PLit t => Some (unquote_lit t, s)
    | PSgl t => Some (t, s)
    | PDbl d => sem_dq fuel d s
    | PParam _ n => Some (lookup s n, s)
    | PSub _ b =>
        match sem_stmts fuel b s with
        | Done _ o z => Some (strip_trailing_nl o, set_status s z)
        | OutOfFuel => None
        end
    end
  with sem_dq (fuel : nat) (d : dq) (s : State) : option (str * State) :=
    match d with
    | DNil => Some ([], s)
    | DLit t r => match sem_dq fuel r s with Some (b, s2) => Some (unquote_dq t ++ b, s2) | None => None end
    | DParam _ n r => match sem_dq fuel r s with Some (b, s2) => Some (lookup s n ++ b, s2) | None => None end
    | DSub _ b r =>
        match sem_stmts fuel b s with
        | Done _ o z =>
            match sem_dq fuel r (set_status s z) with
            | Some (b', s2) => Some (strip_trailing_nl o ++ b', s2)
            | None => None
            end
        | OutOfFuel => None
        end
    end
  with sem_words (fuel : nat) (ws : words) (s : State) : option (list str * State) :=
    match ws with
    | WsNil => Some ([], s)
    | WsCons _ w r =>
        match sem_word fuel w s with
        | Some (a, s1) => match sem_words fuel r s1 with Some (l, s2) => Some (a :: l, s2) | None => None end
        | None => None
        end
    end
  with sem_stmts (fuel : nat) (l : stmts) (s : State) : outcome State :=
    match l with
    | SNil => Done s [] 0%Z
    | SCons _ _ _ st r =>
        match sem_stmt fuel st s with
        | OutOfFuel => OutOfFuel
        | Done s1 o1 z1 =>
            match r with
            | SNil => Done s1 o1 z1
            | _ => match sem_stmts fuel r (set_status s1 z1) with
                   | OutOfFuel => OutOfFuel
                   | Done s2 o2 z2 => Done s2 (o1 ++ o2) z2
                   end
            end
        end
    end
  with sem_stmt (fuel : nat) (st : stmt) (s : State) : outcome State :=
    match st with
    | Simple ws =>
        match sem_words fuel ws s with
        | Some (argv, s1) => let '(s2, o, z) := run argv s1 in Done s2 o z
        | None => OutOfFuel
        end
    | Not st' =>
        match sem_stmt fuel st' s with
        | Done s1 o z => Done s1 o (if (z =? 0)%Z then 1%Z else 0%Z)
        | OutOfFuel => OutOfFuel
        end
    | AndOr isand a b =>
        match sem_stmt fuel a s with
        | OutOfFuel => OutOfFuel
        | Done s1 o1 z1 =>
            if Bool.eqb (z1 =? 0)%Z isand then
              match sem_stmt fuel b (set_status s1 z1) with
              | Done s2 o2 z2 => Done s2 (o1 ++ o2) z2
              | OutOfFuel => OutOfFuel
              end
            else Done s1 o1 z1
        end
    | Brace b => sem_stmts fuel b s
    | Subshell b =>
        match sem_stmts fuel b s with
        | Done _ o z => Done s o z
        | OutOfFuel => OutOfFuel
        end
    | If c t e =>
        match sem_stmts fuel c s with
        | OutOfFuel => OutOfFuel
        | Done s1 o1 z1 =>
            match (if (z1 =? 0)%Z then sem_stmts fuel t (set_status s1 z1)
                   else match e with SNil => Done s1 [] 0%Z | _ => sem_stmts fuel e (set_status s1 z1) end) with
            | Done s2 o2 z2 => Done s2 (o1 ++ o2) z2
            | OutOfFuel => OutOfFuel
            end
        end
    | While u c b =>
        loop fuel u (sem_stmts fuel c) (sem_stmts fuel b) s [] 0%Z
    end.
End Sem.
