(* Syntax/FormatSem.v -- fragment for property C03 (formatting never changes what a script
   does): words with quoting, simple commands with assignments, redirections and
   here-documents, ! && || { } ( ) if while/until for case, function declarations and calls.
   The tree records what the printer may change (property C01's normal form): source
   line of a statement, its trailing comment, whether it was ended by `;` or a newline,
   the number of escaped newlines (line continuations) before a word, the spelling of a
   command substitution (backquotes or dollar-paren), braces around a parameter name,
   line continuations inside double quotes, and the leading tabs of the lines of a
   dash here-document (the printer re-indents them).
   [norm_*] erases exactly those; [sem_*] is an abstract-command semantics (utilities,
   state, parameter lookup, redirection plumbing, pattern matcher, function table are
   Section variables).  LINENO is the one position-dependent parameter: it is excluded
   from the fragment by the exporter (Scope).
   NO PROOFS in this file.  Own list-like constructors so that the types form one mutual
   inductive with a usable mutual induction scheme. *)
From Verif Require Import Base.Str.
Open Scope N_scope.

Inductive word : Type :=
| WNil
| WCons (p : part) (w : word)
with part : Type :=
| PLit (s : str)                          (* unquoted literal text, raw *)
| PSgl (s : str)                          (* '...' *)
| PDbl (d : dq)                           (* double-quoted parts *)
| PParam (braces : bool) (name : str)     (* $x (false) or ${x} (true) *)
| PSub (backquote : bool) (body : stmts)  (* `...` (true) or $(...) (false) *)
with dq : Type :=                         (* parts of a double-quoted string or of a here-document body *)
| DNil
| DLit (s : str) (r : dq)
| DParam (braces : bool) (name : str) (r : dq)
| DSub (backquote : bool) (body : stmts) (r : dq)
with words : Type :=
| WsNil
| WsCons (escnl : N) (w : word) (r : words)   (* escnl: line continuations before the word *)
with assigns : Type :=
| ANil
| ACons (append : bool) (name : str) (value : word) (r : assigns)   (* name=value, name+=value *)
with redirs : Type :=
| RNil
| RFile (op : N) (fd : option str) (target : word) (r : redirs)     (* > >> < <> >& <& >| &> &>> <<< *)
| RHdoc (dash quoted : bool) (delim : str) (body : dq) (r : redirs) (* << and <<- ; quoted delimiter = no expansion *)
with citems : Type :=
| CNil
| CCons (pats : words) (body : stmts) (r : citems)                   (* pattern|pattern) body ;; *)
with stmts : Type :=
| SNil
| SCons (line : N) (comment : option str) (semi : bool) (s : stmt) (r : stmts)
with stmt : Type :=
| Simple (asg : assigns) (ws : words)
| Redirected (s : stmt) (rs : redirs)
| Not (s : stmt)
| AndOr (isand : bool) (a b : stmt)
| Brace (body : stmts)
| Subshell (body : stmts)
| If (c t e : stmts)
| While (until : bool) (c b : stmts)
| For (var : str) (items : words) (body : stmts)
| Case (w : word) (items : citems)
| FuncDecl (name : str) (body : stmt).

Definition BSL : N := 92.
Definition DQ : N := 34.
Definition DOLLAR : N := 36.
Definition BQ : N := 96.
Definition NL : N := 10.
Definition TAB : N := 9.

(* escaped newlines inside double quotes: a backslash-newline pair is a line continuation
   (an escaped backslash does not pair with a following newline) *)
Fixpoint strip_escnl_dq (s : str) : str :=
  match s with
  | [] => []
  | b :: t =>
      if b =? BSL then
        match t with
        | c :: t' => if c =? NL then strip_escnl_dq t' else b :: c :: strip_escnl_dq t'
        | [] => [b]
        end
      else b :: strip_escnl_dq t
  end.

(* dash here-documents: the shell removes the leading tabs of every line of the body (and of
   the line with the delimiter) before anything else; bol = at the beginning of a line *)
Fixpoint strip_tabs_str (s : str) (bol : bool) : str * bool :=
  match s with
  | [] => ([], bol)
  | c :: t =>
      if bol && (c =? TAB) then strip_tabs_str t true
      else let (r, e) := strip_tabs_str t (c =? NL) in (c :: r, e)
  end.
Fixpoint strip_tabs_dq (d : dq) (bol : bool) : dq :=
  match d with
  | DNil => DNil
  | DLit s r => let (s', e) := strip_tabs_str s bol in
                match s' with
                | [] => strip_tabs_dq r e          (* an empty literal part is no part *)
                | _ => DLit s' (strip_tabs_dq r e)
                end
  | DParam b n r => DParam b n (strip_tabs_dq r false)
  | DSub bq b r => DSub bq b (strip_tabs_dq r false)
  end.

(* ---- norm: what the printer is allowed to change ---- *)
Fixpoint norm_word (w : word) : word :=
  match w with
  | WNil => WNil
  | WCons p r => WCons (norm_part p) (norm_word r)
  end
with norm_part (p : part) : part :=
  match p with
  | PLit s => PLit s
  | PSgl s => PSgl s
  | PDbl d => PDbl (norm_dq d)
  | PParam _ n => PParam false n
  | PSub _ b => PSub false (norm_stmts b)
  end
with norm_dq (d : dq) : dq :=
  match d with
  | DNil => DNil
  | DLit s r => match strip_escnl_dq s with
                | [] => norm_dq r                 (* an empty literal part is no part *)
                | s' => DLit s' (norm_dq r)
                end
  | DParam _ n r => DParam false n (norm_dq r)
  | DSub _ b r => DSub false (norm_stmts b) (norm_dq r)
  end
with norm_hd (d : dq) : dq :=                       (* here-document body: literals stay as written *)
  match d with
  | DNil => DNil
  | DLit s r => match s with [] => norm_hd r | _ => DLit s (norm_hd r) end
  | DParam _ n r => DParam false n (norm_hd r)
  | DSub _ b r => DSub false (norm_stmts b) (norm_hd r)
  end
with norm_words (ws : words) : words :=
  match ws with
  | WsNil => WsNil
  | WsCons _ w r => WsCons 0 (norm_word w) (norm_words r)
  end
with norm_assigns (a : assigns) : assigns :=
  match a with
  | ANil => ANil
  | ACons ap n v r => ACons ap n (norm_word v) (norm_assigns r)
  end
with norm_redirs (rs : redirs) : redirs :=
  match rs with
  | RNil => RNil
  | RFile op fd t r => RFile op fd (norm_word t) (norm_redirs r)
  | RHdoc dash q delim b r =>
      RHdoc dash q delim (if dash then strip_tabs_dq (norm_hd b) true else norm_hd b) (norm_redirs r)
  end
with norm_citems (c : citems) : citems :=
  match c with
  | CNil => CNil
  | CCons ps b r => CCons (norm_words ps) (norm_stmts b) (norm_citems r)
  end
with norm_stmts (l : stmts) : stmts :=
  match l with
  | SNil => SNil
  | SCons _ _ _ s r => SCons 0 None false (norm_stmt s) (norm_stmts r)
  end
with norm_stmt (s : stmt) : stmt :=
  match s with
  | Simple a ws => Simple (norm_assigns a) (norm_words ws)
  | Redirected s' rs => Redirected (norm_stmt s') (norm_redirs rs)
  | Not s' => Not (norm_stmt s')
  | AndOr o a b => AndOr o (norm_stmt a) (norm_stmt b)
  | Brace b => Brace (norm_stmts b)
  | Subshell b => Subshell (norm_stmts b)
  | If c t e => If (norm_stmts c) (norm_stmts t) (norm_stmts e)
  | While u c b => While u (norm_stmts c) (norm_stmts b)
  | For v items b => For v (norm_words items) (norm_stmts b)
  | Case w items => Case (norm_word w) (norm_citems items)
  | FuncDecl n b => FuncDecl n (norm_stmt b)
  end.

(* ---- semantics ---- *)

(* quote removal of unquoted text: a backslash quotes the next byte; backslash-newline vanishes *)
Fixpoint unquote_lit (s : str) : str :=
  match s with
  | [] => []
  | b :: t =>
      if b =? BSL then
        match t with
        | c :: t' => if c =? NL then unquote_lit t' else c :: unquote_lit t'
        | [] => [b]
        end
      else b :: unquote_lit t
  end.

(* inside double quotes a backslash only escapes dollar, backquote, double quote, backslash, newline *)
Fixpoint unquote_dq (s : str) : str :=
  match s with
  | [] => []
  | b :: t =>
      if b =? BSL then
        match t with
        | c :: t' =>
            if c =? NL then unquote_dq t'
            else if (c =? DQ) || (c =? BSL) || (c =? DOLLAR) || (c =? BQ) then c :: unquote_dq t'
            else b :: unquote_dq t
        | [] => [b]
        end
      else b :: unquote_dq t
  end.

(* here-document with an unquoted delimiter: as double quotes, but a double quote is not special *)
Fixpoint unquote_hd (s : str) : str :=
  match s with
  | [] => []
  | b :: t =>
      if b =? BSL then
        match t with
        | c :: t' =>
            if c =? NL then unquote_hd t'
            else if (c =? BSL) || (c =? DOLLAR) || (c =? BQ) then c :: unquote_hd t'
            else b :: unquote_hd t
        | [] => [b]
        end
      else b :: unquote_hd t
  end.

(* strip trailing newlines of a command substitution's output *)
Fixpoint strip_nl_rev (r : str) : str :=
  match r with
  | c :: t => if c =? NL then strip_nl_rev t else r
  | [] => []
  end.
Definition strip_trailing_nl (s : str) : str := rev (strip_nl_rev (rev s)).

Inductive outcome (S : Type) : Type :=
| Done (s : S) (out : str) (status : Z)
| OutOfFuel.
Arguments Done {S} s out status.
Arguments OutOfFuel {S}.

Definition HDOC_OP : N := 1000.

Section Sem.
  Variable State : Type.
  Variable lookup : State -> str -> str.                          (* parameter value *)
  (* a simple command: evaluated assignments (append, name, value) and argv (may be empty) *)
  Variable run : list (bool * str * str) -> list str -> State -> State * str * Z.
  Variable set_status : State -> Z -> State.
  (* redirections of one statement, evaluated: (operator, descriptor, target or here-document text) *)
  Variable redir_open : list (N * option str * str) -> State -> State.
  Variable redir_close : State -> State -> str -> State * str.  (* state before, state after, output *)
  Variable set_var : State -> str -> str -> State.                (* the for loop variable *)
  Variable pmatch : str -> str -> bool.                           (* case pattern against a string *)
  Variable def_func : State -> str -> stmt -> State.
  Variable func_body : State -> str -> option stmt.
  Variable enter_func : list (bool * str * str) -> list str -> State -> State.
  Variable leave_func : State -> State -> State.
  (* how the body of a called function is executed (the top level ties this knot on fuel) *)
  Variable call : stmt -> State -> outcome State.

  (* while loop: at most [n] iterations *)
  Fixpoint loop (n : nat) (until : bool) (cond body : State -> outcome State) (s : State) (acc : str) (last : Z)
    : outcome State :=
    match n with
    | O => OutOfFuel
    | S n' =>
        match cond s with
        | OutOfFuel => OutOfFuel
        | Done s1 o1 z1 =>
            if Bool.eqb (z1 =? 0)%Z (negb until) then
              match body s1 with
              | OutOfFuel => OutOfFuel
              | Done s2 o2 z2 => loop n' until cond body (set_status s2 z2) (acc ++ o1 ++ o2) z2
              end
            else Done s1 (acc ++ o1) last
        end
    end.

  Fixpoint for_loop (var : str) (vals : list str) (body : State -> outcome State) (s : State) (acc : str) (last : Z)
    : outcome State :=
    match vals with
    | [] => Done s acc last
    | v :: rest =>
        match body (set_var s var v) with
        | OutOfFuel => OutOfFuel
        | Done s2 o2 z2 => for_loop var rest body (set_status s2 z2) (acc ++ o2) z2
        end
    end.

  (* word expansion threads the state only through the status (a substitution runs in a
     subshell: the state is restored, its status is remembered) ; one field per word *)
  Fixpoint sem_word (fuel : nat) (w : word) (s : State) : option (str * State) :=
    match w with
    | WNil => Some ([], s)
    | WCons p r =>
        match sem_part fuel p s with
        | Some (a, s1) => match sem_word fuel r s1 with Some (b, s2) => Some (a ++ b, s2) | None => None end
        | None => None
        end
    end
  with sem_part (fuel : nat) (p : part) (s : State) : option (str * State) :=
    match p with
    | PLit t => Some (unquote_lit t, s)
    | PSgl t => Some (t, s)
    | PDbl d => sem_dq fuel d s
    | PParam _ n => Some (lookup s n, s)
    | PSub _ b =>
        match sem_stmts fuel b s with
        | Done _ o z => Some (strip_trailing_nl o, set_status s z)
        | OutOfFuel => None
        end
    end
  with sem_dq (fuel : nat) (d : dq) (s : State) : option (str * State) :=
    match d with
    | DNil => Some ([], s)
    | DLit t r => match sem_dq fuel r s with Some (b, s2) => Some (unquote_dq t ++ b, s2) | None => None end
    | DParam _ n r => match sem_dq fuel r s with Some (b, s2) => Some (lookup s n ++ b, s2) | None => None end
    | DSub _ b r =>
        match sem_stmts fuel b s with
        | Done _ o z =>
            match sem_dq fuel r (set_status s z) with
            | Some (b', s2) => Some (strip_trailing_nl o ++ b', s2)
            | None => None
            end
        | OutOfFuel => None
        end
    end
  (* here-document body; dash = the leading tabs of every line are removed first (bol = at the
     beginning of a line); quoted delimiter = the text is taken as it is *)
  with sem_hd (fuel : nat) (quoted dash bol : bool) (d : dq) (s : State) : option (str * State) :=
    match d with
    | DNil => Some ([], s)
    | DLit t r =>
        let (t', e) := if dash then strip_tabs_str t bol else (t, false) in
        match sem_hd fuel quoted dash e r s with
        | Some (b, s2) => Some ((if quoted then t' else unquote_hd t') ++ b, s2)
        | None => None end
    | DParam _ n r =>
        match sem_hd fuel quoted dash false r s with Some (b, s2) => Some (lookup s n ++ b, s2) | None => None end
    | DSub _ b r =>
        match sem_stmts fuel b s with
        | Done _ o z =>
            match sem_hd fuel quoted dash false r (set_status s z) with
            | Some (b', s2) => Some (strip_trailing_nl o ++ b', s2)
            | None => None
            end
        | OutOfFuel => None
        end
    end
  with sem_words (fuel : nat) (ws : words) (s : State) : option (list str * State) :=
    match ws with
    | WsNil => Some ([], s)
    | WsCons _ w r =>
        match sem_word fuel w s with
        | Some (a, s1) => match sem_words fuel r s1 with Some (l, s2) => Some (a :: l, s2) | None => None end
        | None => None
        end
    end
  with sem_assigns (fuel : nat) (a : assigns) (s : State) : option (list (bool * str * str) * State) :=
    match a with
    | ANil => Some ([], s)
    | ACons ap n v r =>
        match sem_word fuel v s with
        | Some (x, s1) => match sem_assigns fuel r s1 with Some (l, s2) => Some ((ap, n, x) :: l, s2) | None => None end
        | None => None
        end
    end
  with sem_redirs (fuel : nat) (rs : redirs) (s : State) : option (list (N * option str * str) * State) :=
    match rs with
    | RNil => Some ([], s)
    | RFile op fd t r =>
        match sem_word fuel t s with
        | Some (x, s1) => match sem_redirs fuel r s1 with Some (l, s2) => Some ((op, fd, x) :: l, s2) | None => None end
        | None => None
        end
    | RHdoc dash q _ b r =>
        match sem_hd fuel q dash true b s with
        | Some (x, s1) => match sem_redirs fuel r s1 with Some (l, s2) => Some ((HDOC_OP, None, x) :: l, s2) | None => None end
        | None => None
        end
    end
  with sem_citems (fuel : nat) (c : citems) (v : str) (s : State) : outcome State :=
    match c with
    | CNil => Done s [] 0%Z
    | CCons ps b r =>
        match sem_words fuel ps s with
        | None => OutOfFuel
        | Some (pl, s1) =>
            if existsb (fun p => pmatch p v) pl then sem_stmts fuel b s1
            else sem_citems fuel r v s1
        end
    end
  with sem_stmts (fuel : nat) (l : stmts) (s : State) : outcome State :=
    match l with
    | SNil => Done s [] 0%Z
    | SCons _ _ _ st r =>
        match sem_stmt fuel st s with
        | OutOfFuel => OutOfFuel
        | Done s1 o1 z1 =>
            match r with
            | SNil => Done s1 o1 z1
            | _ => match sem_stmts fuel r (set_status s1 z1) with
                   | OutOfFuel => OutOfFuel
                   | Done s2 o2 z2 => Done s2 (o1 ++ o2) z2
                   end
            end
        end
    end
  with sem_stmt (fuel : nat) (st : stmt) (s : State) : outcome State :=
    match st with
    | Simple asg ws =>
        match sem_assigns fuel asg s with
        | None => OutOfFuel
        | Some (al, s0) =>
            match sem_words fuel ws s0 with
            | None => OutOfFuel
            | Some (argv, s1) =>
                match match argv with name :: _ => func_body s1 name | [] => None end with
                | Some body =>
                    match call body (enter_func al argv s1) with
                    | Done s2 o z => Done (leave_func s1 s2) o z
                    | OutOfFuel => OutOfFuel
                    end
                | None => let '(s2, o, z) := run al argv s1 in Done s2 o z
                end
            end
        end
    | Redirected st' rs =>
        match sem_redirs fuel rs s with
        | None => OutOfFuel
        | Some (rl, s0) =>
            match sem_stmt fuel st' (redir_open rl s0) with
            | Done s1 o z => let (s2, o') := redir_close s0 s1 o in Done s2 o' z
            | OutOfFuel => OutOfFuel
            end
        end
    | Not st' =>
        match sem_stmt fuel st' s with
        | Done s1 o z => Done s1 o (if (z =? 0)%Z then 1%Z else 0%Z)
        | OutOfFuel => OutOfFuel
        end
    | AndOr isand a b =>
        match sem_stmt fuel a s with
        | OutOfFuel => OutOfFuel
        | Done s1 o1 z1 =>
            if Bool.eqb (z1 =? 0)%Z isand then
              match sem_stmt fuel b (set_status s1 z1) with
              | Done s2 o2 z2 => Done s2 (o1 ++ o2) z2
              | OutOfFuel => OutOfFuel
              end
            else Done s1 o1 z1
        end
    | Brace b => sem_stmts fuel b s
    | Subshell b =>
        match sem_stmts fuel b s with
        | Done _ o z => Done s o z
        | OutOfFuel => OutOfFuel
        end
    | If c t e =>
        match sem_stmts fuel c s with
        | OutOfFuel => OutOfFuel
        | Done s1 o1 z1 =>
            match (if (z1 =? 0)%Z then sem_stmts fuel t (set_status s1 z1)
                   else match e with SNil => Done s1 [] 0%Z | _ => sem_stmts fuel e (set_status s1 z1) end) with
            | Done s2 o2 z2 => Done s2 (o1 ++ o2) z2
            | OutOfFuel => OutOfFuel
            end
        end
    | While u c b =>
        loop fuel u (sem_stmts fuel c) (sem_stmts fuel b) s [] 0%Z
    | For v items b =>
        match sem_words fuel items s with
        | None => OutOfFuel
        | Some (vals, s1) => for_loop v vals (sem_stmts fuel b) s1 [] 0%Z
        end
    | Case w items =>
        match sem_word fuel w s with
        | None => OutOfFuel
        | Some (v, s1) => sem_citems fuel items v s1
        end
    | FuncDecl n b =>
        (* the function table holds normal forms: what a declaration stores does not depend on layout *)
        Done (def_func s n (norm_stmt b)) [] 0%Z
    end.
End Sem.

(* top level: a function call runs the stored body with one unit of fuel less *)
Section Top.
  Variable State : Type.
  Variable lookup : State -> str -> str.
  Variable run : list (bool * str * str) -> list str -> State -> State * str * Z.
  Variable set_status : State -> Z -> State.
  Variable redir_open : list (N * option str * str) -> State -> State.
  Variable redir_close : State -> State -> str -> State * str.
  Variable set_var : State -> str -> str -> State.
  Variable pmatch : str -> str -> bool.
  Variable def_func : State -> str -> stmt -> State.
  Variable func_body : State -> str -> option stmt.
  Variable enter_func : list (bool * str * str) -> list str -> State -> State.
  Variable leave_func : State -> State -> State.

  Fixpoint call_fuel (fuel : nat) (b : stmt) (s : State) : outcome State :=
    match fuel with
    | O => OutOfFuel
    | S f => sem_stmt State lookup run set_status redir_open redir_close set_var pmatch def_func func_body
               enter_func leave_func (call_fuel f) f b s
    end.

  Definition sem_top (fuel : nat) (l : stmts) (s : State) : outcome State :=
    sem_stmts State lookup run set_status redir_open redir_close set_var pmatch def_func func_body
      enter_func leave_func (call_fuel fuel) fuel l s.
End Top.
