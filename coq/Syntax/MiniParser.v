(* Syntax/MiniParser.v — MiniSh level S parser (LangBash): a recursive-descent parser with
   fuel on bytes that follows syntax/parser.go for the node kinds of MiniAst.v:
     stmts/stmtList (stop words, `)` only inside a subshell, the separator rule),
     getStmt (`!`, the left-associative && / || loop, the `;` / `&` terminator),
     gotStmtPipe (reserved words only at command position, the left-associative `|`
     loop, Negated moved to the outer Stmt), followStmts (no leading `;`, non-empty),
     block, subshell, ifClause (elif chain, else, fi), whileClause, callExpr.
   next_token models Parser.next for the tokens of the fragment (words through
   Word.lex_word); everything else ( redirections, `((`, `;;`, `|&`, `&>`, comments,
   backquotes, `name(`, a CR ...) is outside the fragment: None.
   None is also the answer where the real parser reports an error.
   Parsing is in peek style: every function takes the input positioned before the
   lookahead token (Go keeps the lookahead in p.tok).
   NO PROOFS in this file. *)
From Verif Require Import Base.Str Syntax.Word Syntax.MiniAst.
Open Scope N_scope.

Inductive tok :=
| TEOF | TNewl | TSemi | TAmp | TAndAnd | TOrOr | TPipe | TLparen | TRparen
| TWord (w : word).

Fixpoint skip_blanks (s : str) : str :=
  match s with
  | c :: t => if (c =? 32) || (c =? 9) then skip_blanks t else s
  | [] => []
  end.

(* consecutive newline tokens are merged by Parser.next *)
Fixpoint skip_blank_lines (s : str) : str :=
  match s with
  | c :: t => if (c =? 32) || (c =? 9) || (c =? 10) then skip_blank_lines t else s
  | [] => []
  end.

Definition next_token (s : str) : option (tok * str) :=
  match skip_blanks s with
  | [] => Some (TEOF, [])
  | c :: t =>
      if c =? 10 then Some (TNewl, skip_blank_lines t)
      else if c =? 59 then                                   (* ; but not ;; ;& ;| *)
        match t with
        | d :: _ => if (d =? 59) || (d =? 38) || (d =? 124) then None else Some (TSemi, t)
        | [] => Some (TSemi, t)
        end
      else if c =? 38 then                                   (* & && ; not &> &| &! *)
        match t with
        | d :: t' => if d =? 38 then Some (TAndAnd, t')
                     else if (d =? 62) || (d =? 124) || (d =? 33) then None
                     else Some (TAmp, t)
        | [] => Some (TAmp, t)
        end
      else if c =? 124 then                                  (* | || ; not |& *)
        match t with
        | d :: t' => if d =? 124 then Some (TOrOr, t')
                     else if d =? 38 then None
                     else Some (TPipe, t)
        | [] => Some (TPipe, t)
        end
      else if c =? 40 then                                   (* ( ; not (( *)
        match t with
        | d :: _ => if d =? 40 then None else Some (TLparen, t)
        | [] => Some (TLparen, t)
        end
      else if c =? 41 then Some (TRparen, t)
      else if (c =? 60) || (c =? 62) || (c =? 35) || (c =? 13) then None   (* < > # CR *)
      else
        match lex_word (c :: t) with
        | Some (w, r) =>
            match w with
            | [] => None
            | _ =>
                match r with
                | d :: _ => if (d =? 40) || (d =? 60) || (d =? 62) then None   (* name( , n> *)
                            else Some (TWord w, r)
                | [] => Some (TWord w, r)
                end
            end
        | None => None
        end
  end.

(* p.tok == _LitWord && p.val == v *)
Definition is_rsrv (t : tok) (v : str) : bool :=
  match t with
  | TWord [Lit v'] => bytes_eqb v' v
  | _ => false
  end.

(* Parser.stopToken *)
Definition stop_token (t : tok) : bool :=
  match t with
  | TWord _ | TLparen => false
  | _ => true
  end.

(* p.got(_Newl) *)
Definition got_newl (s : str) : bool :=
  match next_token s with Some (TNewl, _) => true | _ => false end.
Definition skip_newl (s : str) : str :=
  match next_token s with Some (TNewl, s') => s' | _ => s end.

(* does the stmts loop stop at this token *)
Definition stops_at (stops : list str) (insub : bool) (t : tok) : bool :=
  match t with
  | TEOF => true
  | TRparen => insub
  | TWord [Lit v] => existsb (bytes_eqb v) stops
  | _ => false
  end.

Definition word_assign (w : word) : bool :=
  match w with Lit v :: _ => assign_prefix v | _ => false end.

Definition set_bg (s : stmt) : stmt := match s with Stmt n c _ => Stmt n c true end.

(* followStmts: a leading `;` is an error; the list must not be empty *)
Definition lead_semi (s : str) : bool :=
  match next_token s with Some (TSemi, _) => true | _ => false end.
Definition nonempty (r : option (stmts * str)) : option (stmts * str) :=
  match r with
  | Some (SNil, _) => None
  | x => x
  end.

(* gotRsrv(v) as a requirement *)
Definition expect_rsrv (v : str) (s : str) : option str :=
  match next_token s with
  | Some (t, s') => if is_rsrv t v then Some s' else None
  | None => None
  end.

(* callExpr: the argument loop *)
Fixpoint p_args (fuel : nat) (insub : bool) (s : str) : option (list word * str) :=
  match fuel with
  | O => None
  | S fuel =>
      match next_token s with
      | Some (TWord w, s') =>
          match p_args fuel insub s' with
          | Some (ws, r) => Some (w :: ws, r)
          | None => None
          end
      | Some (TLparen, _) => None
      | Some (TRparen, _) => if insub then Some ([], s) else None
      | Some (_, _) => Some ([], s)
      | None => None
      end
  end.

Fixpoint p_stmts (fuel : nat) (stops : list str) (insub gotEnd : bool) (s : str)
  : option (stmts * str) :=
  match fuel with
  | O => None
  | S fuel =>
      let newLine := got_newl s in
      let s1 := skip_newl s in
      match next_token s1 with
      | None => None
      | Some (t, _) =>
          if stops_at stops insub t then Some (SNil, s1)
          else if negb newLine && negb gotEnd then None
          else
            match p_stmt fuel insub true false s1 with
            | Some (st, semi, s2) =>
                match p_stmts fuel stops insub semi s2 with
                | Some (rest, s3) => Some (SCons st rest, s3)
                | None => None
                end
            | None => None
            end
      end
  end

(* getStmt(readEnd, binCmd): result, whether a terminator was read, rest *)
with p_stmt (fuel : nat) (insub readEnd binCmd : bool) (s : str)
  : option (stmt * bool * str) :=
  match fuel with
  | O => None
  | S fuel =>
      match next_token s with
      | None => None
      | Some (t, s1) =>
          let neg := is_rsrv t kw_bang in
          let s2 := if neg then s1 else s in
          match next_token s2 with
          | None => None
          | Some (t2, _) =>
              if neg && (stop_token t2 || is_rsrv t2 kw_bang) then None
              else
                match p_pipe fuel insub neg s2 with
                | Some (st, s3) =>
                    match p_andor fuel insub binCmd st s3 with
                    | Some (st', s4) =>
                        if readEnd then
                          match next_token s4 with
                          | Some (TSemi, s5) => Some (st', true, s5)
                          | Some (TAmp, s5) => Some (set_bg st', true, s5)
                          | Some (_, _) => Some (st', false, s4)
                          | None => None
                          end
                        else Some (st', false, s4)
                    | None => None
                    end
                | None => None
                end
          end
      end
  end

(* the && / || loop of getStmt *)
with p_andor (fuel : nat) (insub binCmd : bool) (acc : stmt) (s : str)
  : option (stmt * str) :=
  match next_token s with
  | None => None
  | Some (t, s1) =>
      match (match t with TAndAnd => Some AndStmt | TOrOr => Some OrStmt | _ => None end) with
      | None => Some (acc, s)
      | Some op =>
          if binCmd then Some (acc, s)
          else
            match fuel with
            | O => None
            | S fuel =>
                match p_stmt fuel insub false true (skip_newl s1) with
                | Some (y, _, s2) => p_andor fuel insub binCmd (Stmt false (Binary op acc y) false) s2
                | None => None
                end
            end
      end
  end

(* gotStmtPipe(s{Negated: neg}, false): one command, then the `|` loop *)
with p_pipe (fuel : nat) (insub neg : bool) (s : str) : option (stmt * str) :=
  match fuel with
  | O => None
  | S fuel =>
      match p_cmd fuel insub s with
      | Some (c, s1) =>
          match p_pipe_loop fuel insub c s1 with
          | Some (c', s2) => Some (Stmt neg c' false, s2)
          | None => None
          end
      | None => None
      end
  end

with p_pipe_loop (fuel : nat) (insub : bool) (acc : cmd) (s : str) : option (cmd * str) :=
  match next_token s with
  | None => None
  | Some (TPipe, s1) =>
      match fuel with
      | O => None
      | S fuel =>
          (* gotStmtPipe(&Stmt{}, true): a single command *)
          match p_cmd fuel insub (skip_newl s1) with
          | Some (y, s2) =>
              p_pipe_loop fuel insub (Binary Pipe (Stmt false acc false) (Stmt false y false)) s2
          | None => None
          end
      end
  | Some (_, _) => Some (acc, s)
  end

(* the switch of gotStmtPipe *)
with p_cmd (fuel : nat) (insub : bool) (s : str) : option (cmd * str) :=
  match fuel with
  | O => None
  | S fuel =>
      match next_token s with
      | Some (TLparen, s1) =>
          (* subshell: followStmts("(") with quote = subCmd, then `)` *)
          if lead_semi s1 then None else
          match nonempty (p_stmts fuel [] true true s1) with
          | Some (ss, s2) =>
              match next_token s2 with
              | Some (TRparen, s3) => Some (Subshell ss, s3)
              | _ => None
              end
          | None => None
          end
      | Some (TWord w, s1) =>
          match w with
          | [Lit v] =>
              if bytes_eqb v kw_lbrace then
                if lead_semi s1 then None else
                match nonempty (p_stmts fuel [kw_rbrace] insub true s1) with
                | Some (ss, s2) =>
                    match expect_rsrv kw_rbrace s2 with
                    | Some s3 => Some (Block ss, s3)
                    | None => None
                    end
                | None => None
                end
              else if bytes_eqb v kw_if then
                if lead_semi s1 then None else
                match nonempty (p_stmts fuel [kw_then] insub true s1) with
                | Some (cond, s2) =>
                    match expect_rsrv kw_then s2 with
                    | Some s3 =>
                        if lead_semi s3 then None else
                        match nonempty (p_stmts fuel [kw_fi; kw_elif; kw_else] insub true s3) with
                        | Some (thn, s4) =>
                            match p_else fuel insub s4 with
                            | Some (e, s5) => Some (IfClause cond thn e, s5)
                            | None => None
                            end
                        | None => None
                        end
                    | None => None
                    end
                | None => None
                end
              else if bytes_eqb v kw_while || bytes_eqb v kw_until then
                if lead_semi s1 then None else
                match nonempty (p_stmts fuel [kw_do] insub true s1) with
                | Some (cond, s2) =>
                    match expect_rsrv kw_do s2 with
                    | Some s3 =>
                        if lead_semi s3 then None else
                        match nonempty (p_stmts fuel [kw_done] insub true s3) with
                        | Some (body, s4) =>
                            match expect_rsrv kw_done s4 with
                            | Some s5 => Some (WhileClause (bytes_eqb v kw_until) cond body, s5)
                            | None => None
                            end
                        | None => None
                        end
                    | None => None
                    end
                | None => None
                end
              else if is_reserved v then None
              else if assign_prefix v then None
              else
                match p_args fuel insub s1 with
                | Some (ws, s2) => Some (Call (w :: ws), s2)
                | None => None
                end
          | _ =>
              if word_assign w then None
              else
                match p_args fuel insub s1 with
                | Some (ws, s2) => Some (Call (w :: ws), s2)
                | None => None
                end
          end
      | _ => None
      end
  end

(* ifClause after a Then list: elif chain, else, fi *)
with p_else (fuel : nat) (insub : bool) (s : str) : option (else_ * str) :=
  match fuel with
  | O => None
  | S fuel =>
      match next_token s with
      | Some (t, s1) =>
          if is_rsrv t kw_fi then Some (NoElse, s1)
          else if is_rsrv t kw_elif then
            if lead_semi s1 then None else
            match nonempty (p_stmts fuel [kw_then] insub true s1) with
            | Some (cond, s2) =>
                match expect_rsrv kw_then s2 with
                | Some s3 =>
                    if lead_semi s3 then None else
                    match nonempty (p_stmts fuel [kw_fi; kw_elif; kw_else] insub true s3) with
                    | Some (thn, s4) =>
                        match p_else fuel insub s4 with
                        | Some (e, s5) => Some (Elif cond thn e, s5)
                        | None => None
                        end
                    | None => None
                    end
                | None => None
                end
            | None => None
            end
          else if is_rsrv t kw_else then
            if lead_semi s1 then None else
            match nonempty (p_stmts fuel [kw_fi] insub true s1) with
            | Some (thn, s2) =>
                match expect_rsrv kw_fi s2 with
                | Some s3 => Some (Else thn, s3)
                | None => None
                end
            | None => None
            end
          else None
      | None => None
      end
  end.

(* Parser.Parse: stmtList() to EOF.  Every call consumes fuel; a nesting level costs a
   bounded number of calls per input byte, so 8 * length + 16 is never exhausted on
   well-formed input (proved for printed files in Proofs/MiniRoundtrip.v). *)
Definition parse_fuel (s : str) : nat := 8 * length s + 16.

Definition parse_file (s : str) : option file :=
  match p_stmts (parse_fuel s) [] false true s with
  | Some (ss, r) =>
      match next_token r with
      | Some (TEOF, _) => Some ss
      | _ => None
      end
  | None => None
  end.
