(* Syntax/Pos.v — model of syntax.Pos (nodes.go): two uint32 words, offs and lineCol
   (line in the upper 18 bits, column in the lower 14), NewPos, Offset, Line, Col,
   IsValid, After, posAddCol, and of Parser.nextPos's saturation (parser.go).
   Transliteration, bit operations as in the Go code.  NO PROOFS in this file. *)
From Coq Require Import NArith ZArith Bool.
Open Scope N_scope.

Record pos := mkpos { p_offs : N; p_linecol : N }.   (* both uint32 *)

Definition two32 : N := 4294967296.
Definition offsetRecovered : N := 4294967285.   (* math.MaxUint32 - 10 *)
Definition offsetMax : N := 4294967284.         (* math.MaxUint32 - 11 *)
Definition lineBitSize : N := 18.
Definition lineMax : N := 262143.               (* 1<<18 - 1 *)
Definition colBitSize : N := 14.                (* 32 - lineBitSize *)
Definition colMax : N := 16383.                 (* 1<<14 - 1 *)
Definition colBitMask : N := colMax.

Definition u32 (x : N) : N := x mod two32.      (* the conversion uint32(x) *)

(* func NewPos(offset, line, column uint) Pos *)
Definition NewPos (offset line column : N) : pos :=
  let offset := N.min offset offsetMax in
  let line := if lineMax <? line then 0 else line in
  let column := if colMax <? column then 0 else column in
  mkpos (u32 offset) (N.lor (u32 (N.shiftl (u32 line) colBitSize)) (u32 column)).

Definition Offset (p : pos) : N := if offsetMax <? p_offs p then 0 else p_offs p.
Definition Line (p : pos) : N := N.shiftr (p_linecol p) colBitSize.
Definition Col (p : pos) : N := N.land (p_linecol p) colBitMask.

Definition IsValid (p : pos) : bool := (p_offs p <=? offsetMax) && negb (p_linecol p =? 0).
Definition recoveredPos : pos := mkpos offsetRecovered 0.
Definition IsRecovered (p : pos) : bool := (p_offs p =? offsetRecovered) && (p_linecol p =? 0).

(* func (p Pos) After(p2 Pos) bool *)
Definition After (p p2 : pos) : bool :=
  if negb (IsValid p) then false else p_offs p2 <? p_offs p.

(* func posAddCol(p Pos, n int) Pos; n is a Go int, here any Z (the int64 sums do not
   overflow for |n| < 2^62, which the theorems assume) *)
Definition posAddCol (p : pos) (n : Z) : pos :=
  if negb (IsValid p) then p else
  let offs := Z.min (Z.max (Z.of_N (p_offs p) + n) 0) (Z.of_N offsetMax) in
  let col := Z.of_N (Col p) in
  let col := if (0 <? col)%Z
             then (let c := (col + n)%Z in if (c <? 1)%Z || (Z.of_N colMax <? c)%Z then 0%Z else c)
             else col in
  mkpos (u32 (Z.to_N offs))
        (N.lor (N.ldiff (p_linecol p) colBitMask) (u32 (Z.to_N col))).

(* Parser.nextPos on the raw bookkeeping values: offset = offs+bsp-w (int64), line, col (int64).
     offset := min(raw, offsetMax); line/col = 0 when above their maximum;
     NewPos(uint(offset), line, col)
   uint(x) of a negative int64 wraps modulo 2^64. *)
Definition two64 : Z := 18446744073709551616%Z.
Definition to_uint (x : Z) : N := Z.to_N (x mod two64).
Definition next_pos (rawoffs line col : Z) : pos :=
  let offset := Z.min rawoffs (Z.of_N offsetMax) in
  let l := if (line <=? Z.of_N lineMax)%Z then to_uint line else 0 in
  let c := if (col <=? Z.of_N colMax)%Z then to_uint col else 0 in
  NewPos (to_uint offset) l c.
