(* Syntax/TypedJson.v — model of syntax/typedjson/json.go (encodeValue, encodePos,
   decodeValue, decodePos, Encode, Decode) over generic values and a JSON AST.
   The byte level (encoding/json printing and parsing) is not modelled.
   Tables (Gen/Operators.v, dumped from the running code on every run):
     ops_str  : per uint type, String() of every defined constant
     ops_unm  : per uint type, the texts UnmarshalText accepts and their values
     by_name  : the Type names Decode accepts (typedjson's nodeByName), with the struct they denote
   NO PROOFS in this file. *)
From Verif Require Import Base.Str Syntax.Schema.
Open Scope N_scope.

Definition k_Type : str := [84;121;112;101].
Definition k_Pos : str := [80;111;115].
Definition k_End : str := [69;110;100].
Definition k_Offset : str := [79;102;102;115;101;116].
Definition k_Line : str := [76;105;110;101].
Definition k_Col : str := [67;111;108].

Record tables := { ops_str : list (nat * list (N * str));
                   ops_unm : list (nat * list (str * N));
                   by_name : list (str * nat) }.

Fixpoint assoc_nat {A} (k : nat) (l : list (nat * A)) : option A :=
  match l with [] => None | (k', a) :: r => if Nat.eqb k k' then Some a else assoc_nat k r end.
Fixpoint assoc_N {A} (k : N) (l : list (N * A)) : option A :=
  match l with [] => None | (k', a) :: r => if k =? k' then Some a else assoc_N k r end.
Fixpoint assoc_str {A} (k : str) (l : list (str * A)) : option A :=
  match l with [] => None | (k', a) :: r => if str_eqb k k' then Some a else assoc_str k r end.

Definition op_string (tb : tables) (uid : nat) (n : N) : option str :=
  match assoc_nat uid (ops_str tb) with Some l => assoc_N n l | None => None end.
Definition op_unmarshal (tb : tables) (uid : nat) (s : str) : option N :=
  match assoc_nat uid (ops_unm tb) with Some l => assoc_str s l | None => None end.

(* ---- encode ------------------------------------------------------------------------ *)
(* encodePos leaves out recovered positions and the zero position (and the invalid
   offsets above offsetMax, which report Offset() = 0) *)
Definition pos_omitted (p : pos) : bool :=
  negb (pos_valid p) && (pos_is_recovered p || (pos_offset p =? 0)).
Definition jn (n : N) : json := JNum (JInt (Z.of_N n)).
Definition enc_pos (p : pos) : option json :=
  if pos_omitted p then None
  else Some (JObj [(k_Offset, jn (pos_offset p)); (k_Line, jn (pos_line p)); (k_Col, jn (pos_col p))]).

Definition opt_member (k : str) (o : option json) : list (str * json) :=
  match o with Some j => [(k, j)] | None => [] end.

(* mapping a partial function over a list, left to right, first failure wins *)
Definition map_res {A B} (f : A -> res B) : list A -> res (list B) :=
  fix go (l : list A) : res (list B) :=
    match l with
    | [] => Ok []
    | x :: r => match f x with
                | Ok y => match go r with Ok ys => Ok (y :: ys) | Err c => Err c | Panic => Panic end
                | Err c => Err c
                | Panic => Panic
                end
    end.

(* the members of the fields that are not left out, in declaration order *)
Definition members (ds : list field_decl) (os : list (option json)) : list (str * json) :=
  flat_map (fun dq => opt_member (f_name (fst dq)) (snd dq)) (combine ds os).

Section Enc.
  Variable sch : schema.
  Variable tb : tables.

  (* encodeValue: Ok None = noValue (zero values are left out).  A struct yields its
     members without the Type key; whoever needs the Type key (an interface field, the
     root) puts it in front. *)
  Fixpoint enc (v : value) : res (option json) :=
    match v with
    | VPtr None => Ok None
    | VPtr (Some u) => enc u
    | VIface None => Ok None
    | VIface (Some u) =>
        match u with
        | VStruct sid _ _ =>
            match enc u, get_struct sch sid with
            | Ok (Some (JObj ms)), Some d => Ok (Some (JObj ((k_Type, JStr (s_name d)) :: ms)))
            | Ok _, _ => Err E_ILL
            | Err c, _ => Err c
            | Panic, _ => Panic
            end
        | _ => Err E_ILL
        end
    | VStruct sid attrs fs =>
        match get_struct sch sid with
        | None => Err E_ILL
        | Some d =>
            (* Pos and End of a node come from its methods *)
            let pe := match attrs with
                      | Some (p, e) => opt_member k_Pos (enc_pos p) ++ opt_member k_End (enc_pos e)
                      | None => []
                      end in
            if negb (Nat.eqb (length fs) (length (s_fields d))) then Err E_ILL else
            match map_res (fun x => match x with
                                    | VPos p => Ok (enc_pos p)       (* field.Type == posType *)
                                    | _ => enc x end) fs with
            | Ok os => Ok (Some (JObj (pe ++ members (s_fields d) os)))
            | Err c => Err c
            | Panic => Panic
            end
        end
    | VSlice _ [] => Ok None
    | VSlice _ l =>
        (* enc.Index(i).Set(encElem) with an invalid encElem panics *)
        match map_res (fun x => match enc x with
                                | Ok (Some j) => Ok j
                                | Ok None => Panic
                                | Err c => Err c
                                | Panic => Panic
                                end) l with
        | Ok js => Ok (Some (JArr js))
        | Err c => Err c
        | Panic => Panic
        end
    | VStr [] => Ok None
    | VStr s => Ok (Some (JStr s))
    | VBool false => Ok None
    | VBool true => Ok (Some (JBool true))
    | VUint uid n =>
        if n =? 0 then Ok None
        else match get_uint sch uid with
             | None => Err E_ILL
             | Some d =>
                 if u_stringer d
                 then match op_string tb uid n with
                      | Some s => Ok (Some (JStr s))
                      | None => Err E_ILL   (* not a defined constant: outside the tables *)
                      end
                 else Ok (Some (jn n))
             end
    | VPos p => Ok (enc_pos p)   (* not reached: Pos fields are handled by the struct case *)
    end.

  (* EncodeOptions.Encode: the root is a non-nil *T, Type in front *)
  Definition encode (v : value) : res json :=
    match v with
    | VPtr (Some (VStruct sid a fs)) =>
        match enc (VStruct sid a fs), get_struct sch sid with
        | Ok (Some (JObj ms)), Some d => Ok (JObj ((k_Type, JStr (s_name d)) :: ms))
        | Ok _, _ => Err E_ILL
        | Err c, _ => Err c
        | Panic, _ => Panic
        end
    | VPtr None => Panic            (* "node did not contain a named type?" *)
    | _ => Err E_ILL
    end.
End Enc.

(* ---- decode -------------------------------------------------------------------------- *)
(* jsonUint *)
Definition json_uint (n : jnum) : option N :=
  match n with
  | JInt z => if (0 <=? z)%Z && (z <=? Z.of_N maxUint32)%Z then Some (Z.to_N z) else None
  | JFrac => None
  end.

(* decodePos: an object with exactly the three keys, each a number in range *)
Definition dec_pos (j : json) : res pos :=
  match j with
  | JObj ms =>
      if negb (Nat.eqb (length ms) 3) then Err E_DEC else
      match assoc_str k_Offset ms, assoc_str k_Line ms, assoc_str k_Col ms with
      | Some (JNum a), Some (JNum b), Some (JNum c) =>
          match json_uint a, json_uint b, json_uint c with
          | Some o, Some l, Some cl => Ok (new_pos o l cl)
          | _, _, _ => Err E_DEC
          end
      | _, _, _ => Err E_DEC
      end
  | _ => Err E_DEC
  end.

Inductive kind := KStruct | KPtr | KIface | KSlice | KString | KBool | KUint | KOther.
Definition kind_of (t : ty) : kind :=
  match t with
  | TStruct _ => KStruct | TPos => KStruct | TPtr _ => KPtr | TIface _ => KIface | TSlice _ => KSlice
  | TString => KString | TBool => KBool | TUint _ => KUint
  end.

Section Dec.
  Variable sch : schema.
  Variable tb : tables.

  (* reflect.PointerTo(nodeType).AssignableTo(typ) *)
  Definition ptr_assignable (sid : nat) (t : ty) : bool :=
    match t with
    | TPtr sid' => Nat.eqb sid sid'
    | TIface iid => mem_nat sid (iface_impls sch iid)
    | _ => false
    end.

  (* reflect operations that panic when their precondition fails; decodeValue guards each *)
  Definition rv_set_new (t : ty) (sid : nat) : res unit :=      (* val.Set(reflect.New(nodeType)) *)
    if ptr_assignable sid t then Ok tt else Panic.
  Definition rv_struct_fields (t : ty) : res (option (nat * list field_decl)) :=  (* val.FieldByName on a struct *)
    match t with
    | TStruct sid => Ok (Some (sid, struct_fields sch sid))
    | TPos => Ok None                     (* syntax.Pos: only unexported fields *)
    | _ => Panic
    end.
  Definition rv_set_string (t : ty) (s : str) : res value :=
    match kind_of t with KString => Ok (VStr s) | _ => Panic end.
  Definition rv_set_uint (t : ty) (n : N) : res value :=
    match t with TUint u => Ok (VUint u n) | _ => Panic end.
  Definition rv_set_bool (t : ty) (b : bool) : res value :=
    match t with TBool => Ok (VBool b) | _ => Panic end.
  Definition rv_slice_elem (t : ty) : res ty :=
    match t with TSlice te => Ok te | _ => Panic end.

  Definition is_unmarshaler (t : ty) : option nat :=
    match t with
    | TUint u => match get_uint sch u with Some d => if u_unmarshaler d then Some u else None | None => None end
    | _ => None
    end.
  Definition uint_overflows (u : nat) (n : N) : bool := negb (uint_fits sch u n).

  Fixpoint index_of (name : str) (ds : list field_decl) (i : nat) : option (nat * ty) :=
    match ds with
    | [] => None
    | d :: r => if str_eqb name (f_name d) then Some (i, f_ty d) else index_of name r (S i)
    end.
  Fixpoint lookup_nat {A} (k : nat) (l : list (nat * A)) : option A :=
    match l with [] => None | (k', a) :: r => if Nat.eqb k k' then Some a else lookup_nat k r end.

  Fixpoint filter_some {A} (l : list (option A)) : list A :=
    match l with [] => [] | Some a :: r => a :: filter_some r | None :: r => filter_some r end.
  Definition is_meta_key (k : str) : bool := str_eqb k k_Type || str_eqb k k_Pos || str_eqb k k_End.

  (* decodeValue into a fresh zero value of type t (every destination in the code is fresh) *)
  Fixpoint dec (t : ty) (j : json) {struct j} : res value :=
    match j with
    | JObj ms =>
        let tn := match assoc_str k_Type ms with Some (JStr s) => s | _ => [] end in
        (* the struct type that is filled and how the result is wrapped *)
        match (match tn with
               | _ :: _ =>
                   match assoc_str tn (by_name tb) with
                   | None => Err E_DEC                                   (* unknown type *)
                   | Some sid =>
                       if negb (ptr_assignable sid t) then Err E_DEC      (* cannot decode T into typ *)
                       else match rv_set_new t sid with
                            | Ok _ => Ok (TStruct sid,
                                          match t with TIface _ => (fun s => VIface (Some s))
                                                     | _ => (fun s => VPtr (Some s)) end)
                            | Err c => Err c | Panic => Panic end
                   end
               | [] =>
                   match t with
                   | TPtr sid => Ok (TStruct sid, (fun s => VPtr (Some s)))   (* val.Set(reflect.New(typ.Elem())) *)
                   | TIface _ => Err E_DEC                                   (* missing "Type" *)
                   | _ => Ok (t, (fun s => s))
                   end
               end) with
        | Err c => Err c
        | Panic => Panic
        | Ok (st, wrap) =>
            match kind_of st with
            | KStruct =>
                match rv_struct_fields st with
                | Err c => Err c
                | Panic => Panic
                | Ok None =>
                    (* a Pos destination: every key other than Type/Pos/End is an unknown field *)
                    if forallb (fun kv => is_meta_key (fst kv)) ms then Ok (wrap (VPos pos_zero)) else Err E_DEC
                | Ok (Some (sid, ds)) =>
                    match map_res (fun kv : str * json =>
                              if is_meta_key (fst kv) then Ok None
                              else match index_of (fst kv) ds O with
                                   | None => Err E_DEC                 (* unknown field *)
                                   | Some (i, ft) =>
                                       match (match ft with
                                              | TPos => match dec_pos (snd kv) with
                                                        | Ok p => Ok (VPos p) | Err c => Err c | Panic => Panic end
                                              | _ => dec ft (snd kv) end) with
                                       | Ok x => Ok (Some (i, x))
                                       | Err c => Err c
                                       | Panic => Panic
                                       end
                                   end) ms with
                    | Ok found =>
                        Ok (wrap (VStruct sid None
                                    (map (fun id => match lookup_nat (fst id) (filter_some found) with
                                                    | Some x => x
                                                    | None => zero_shallow (f_ty (snd id)) end)
                                         (combine (seq O (length ds)) ds))))
                    | Err c => Err c
                    | Panic => Panic
                    end
                end
            | _ => Err E_DEC                                              (* cannot decode JSON object into typ *)
            end
        end
    | JArr l =>
        match kind_of t with
        | KSlice =>
            match rv_slice_elem t with
            | Ok te =>
                match map_res (dec te) l with
                | Ok vs => Ok (VSlice (match vs with [] => true | _ => false end) vs)
                | Err c => Err c
                | Panic => Panic
                end
            | Err c => Err c
            | Panic => Panic
            end
        | _ => Err E_DEC
        end
    | JStr s =>
        match kind_of t with
        | KString => rv_set_string t s
        | _ => match is_unmarshaler t with
               | Some u => match op_unmarshal tb u s with
                           | Some n => rv_set_uint t n
                           | None => Err E_DEC
                           end
               | None => Err E_DEC
               end
        end
    | JNum n =>
        match kind_of t with
        | KUint =>
            match is_unmarshaler t with
            | Some _ => Err E_DEC                                       (* a string is required *)
            | None =>
                match json_uint n, t with
                | Some u, TUint uid => if uint_overflows uid u then Err E_DEC else rv_set_uint t u
                | _, _ => Err E_DEC
                end
            end
        | _ => Err E_DEC
        end
    | JBool b =>
        match t with
        | TBool => rv_set_bool t b            (* bool is assignable to the type bool only *)
        | _ => Err E_DEC
        end
    | JNull => Ok (zero_value sch t)
    end.

  (* DecodeOptions.Decode: into a nil syntax.Node; a nil result is an error *)
  Definition decode (j : json) : res value :=
    match dec (TIface (node_iface sch)) j with
    | Ok (VIface None) => Err E_DEC
    | r => r
    end.
End Dec.

(* ---- the tree a round trip yields ----------------------------------------------------------- *)
(* canon: positions that encodePos leaves out become the zero position, empty slices become nil;
   erase: the method results (attrs) are not fields and are dropped. *)
Definition canon_pos (p : pos) : pos := if pos_omitted p then pos_zero else p.
Fixpoint canon (v : value) : value :=
  match v with
  | VStruct sid a fs => VStruct sid a (map canon fs)
  | VPtr (Some u) => VPtr (Some (canon u))
  | VIface (Some u) => VIface (Some (canon u))
  | VSlice b l =>
      match l with
      | [] => VSlice true []
      | _ => VSlice false (map canon l)    (* a slice with elements is not nil *)
      end
  | VPos p => VPos (canon_pos p)
  | _ => v
  end.
Fixpoint erase (v : value) : value :=
  match v with
  | VStruct sid _ fs => VStruct sid None (map erase fs)
  | VPtr (Some u) => VPtr (Some (erase u))
  | VIface (Some u) => VIface (Some (erase u))
  | VSlice b l => VSlice b (map erase l)
  | _ => v
  end.

(* ---- finite checks on the generated schema and tables ------------------------------------------ *)
Section Checks.
  Variable sch : schema.
  Variable tb : tables.
  Fixpoint nodup_str (l : list str) : bool :=
    match l with [] => true | s :: r => negb (existsb (str_eqb s) r) && nodup_str r end.

  (* every defined constant of every operator type survives String -> UnmarshalText *)
  Definition ops_roundtrip : bool :=
    forallb (fun e => forallb (fun ns => match op_unmarshal tb (fst e) (snd ns) with
                                         | Some n => n =? fst ns
                                         | None => false end) (snd e)) (ops_str tb).

  (* element types of slices: no slices of positions or of slices *)
  Definition elem_ty_ok (t : ty) : bool :=
    match t with TPos | TSlice _ => false | _ => true end.
  (* field types: no struct-valued fields besides Pos *)
  Definition field_ty_ok (t : ty) : bool :=
    match t with
    | TStruct _ => false
    | TSlice te => elem_ty_ok te
    | _ => true
    end.
  (* what the round-trip proof needs from the schema and tables *)
  Definition schema_json_ok : bool :=
    forallb (fun d => nodup_str (map f_name (s_fields d)) &&
                      forallb (fun f => negb (is_meta_key (f_name f)) && field_ty_ok (f_ty f)) (s_fields d))
            (structs sch) &&
    (* nodeByName: every node struct is there under its own name *)
    forallb (fun id => negb (s_node (snd id)) ||
                       match assoc_str (s_name (snd id)) (by_name tb) with
                       | Some sid => Nat.eqb sid (fst id)
                       | None => false end)
            (combine (seq O (length (structs sch))) (structs sch)) &&
    forallb (fun d => match s_name d with [] => false | _ => true end) (structs sch) &&
    (* what implements an interface is a node struct *)
    forallb (fun i => forallb (is_node sch) (i_impls i)) (ifaces sch) &&
    (* a Stringer uint type is a TextUnmarshaler and vice versa *)
    forallb (fun d => Bool.eqb (u_stringer d) (u_unmarshaler d) && (u_bits d <=? 32)) (uints sch) &&
    ops_roundtrip.
End Checks.
