(* Syntax/LangGate.v — C11: language-variant gating.  Model + Spec, NO PROOFS.

   (1) the gate table: every `X.lang.in(SET)` / `checkLang(pos, SET, ...)` call site of syntax/*.go with its set of
       variants (generated into Gen/LangSets.v by go/ast on every run) and the boolean checks over it;
   (2) an abstract "gated parser": a deterministic process that may consult gates (and the error-recovery budget)
       and whose result depends on the variant ONLY through the answers;
   (3) the generic-tree twin of the Go checker for "no non-POSIX node kind / flag". *)
From Coq Require Import List Arith Bool String.
Import ListNotations.

(* ---- variants: the bit index of the LangVariant constant *)
Definition bash : nat := 0.
Definition posix : nat := 1.
Definition mksh : nat := 2.
Definition bats : nat := 3.
Definition zsh : nat := 4.

Definition mem (v : nat) (s : list nat) : bool := existsb (Nat.eqb v) s.

(* ---- (1) the gate table *)
Inductive gkind := KIn | KNotIn | KCheckLang | KWrapper | KUngated.
Record gate := mkGate { g_site : string; g_kind : gkind; g_set : list nat; g_feature : string }.

Definition is_ungated (g : gate) : bool := match g_kind g with KUngated => true | _ => false end.
Definition is_wrapper (g : gate) : bool := match g_kind g with KWrapper => true | _ => false end.

(* every use of the variant is a recognised gate with a constant set (exactly one wrapper: checkLang's own test) *)
Definition all_gated_b (t : list gate) : bool :=
  forallb (fun g => negb (is_ungated g)) t && Nat.eqb (List.length (filter is_wrapper t)) 1.

Definition const_gates (t : list gate) : list gate := filter (fun g => negb (is_wrapper g) && negb (is_ungated g)) t.

(* bash in the set => bats in the set, for every gate *)
Definition bash_subset_bats_b (t : list gate) : bool :=
  forallb (fun g => implb (mem bash (g_set g)) (mem bats (g_set g))) (const_gates t).

(* the gates that tell bats from bash: bats in the set, bash not *)
Definition bats_extra (t : list gate) : list gate :=
  filter (fun g => mem bats (g_set g) && negb (mem bash (g_set g))) (const_gates t).

(* no feature gate lets POSIX through: POSIX is in a gate's set only when the set is {posix} (a POSIX-only restriction) *)
Definition posix_gate_b (t : list gate) : bool :=
  forallb (fun g => negb (mem posix (g_set g)) || (match g_set g with [v] => Nat.eqb v posix | _ => false end)) (const_gates t)
  && forallb (fun g => match g_kind g with KCheckLang => negb (mem posix (g_set g)) | _ => true end) t.

(* ---- (2) the abstract gated parser *)
Section Proc.
  Variable R : Type.
  Inductive proc :=
  | Ret (r : R)                              (* finished: accepted tree or error *)
  | Ask (g : nat) (k : bool -> proc)         (* p.lang.in(set_g) / checkLang(set_g): continue with the answer *)
  | AskRecover (k : proc).                   (* recoverError(): continues with k when budget is left, otherwise the run is rejected *)

  Variable rejected : R.

  Fixpoint exec (oracle : nat -> bool) (budget : nat) (p : proc) : R :=
    match p with
    | Ret r => r
    | Ask g k => exec oracle budget (k (oracle g))
    | AskRecover k => match budget with O => rejected | S b => exec oracle b k end
    end.

  (* gates consulted during the run *)
  Fixpoint consulted (oracle : nat -> bool) (budget : nat) (p : proc) : list nat :=
    match p with
    | Ret _ => []
    | Ask g k => g :: consulted oracle budget (k (oracle g))
    | AskRecover k => match budget with O => [] | S b => consulted oracle b k end
    end.

  (* does the run reach a recoverError() call at all *)
  Fixpoint asks_recover (oracle : nat -> bool) (budget : nat) (p : proc) : bool :=
    match p with
    | Ret _ => false
    | Ask g k => asks_recover oracle budget (k (oracle g))
    | AskRecover _ => true
    end.
End Proc.
Arguments Ret {R}.
Arguments Ask {R}.
Arguments AskRecover {R}.
Arguments exec {R}.
Arguments consulted {R}.
Arguments asks_recover {R}.

(* the oracle of variant v over a table of sets: gate number g answers "v is in set g" *)
Definition oracle_of (sets : list (list nat)) (v : nat) (g : nat) : bool := mem v (nth g sets []).
Definition sets_of (t : list gate) : list (list nat) := map g_set t.

(* positions (indices into the table) of the gates that tell bats from bash *)
Fixpoint extra_idx_from (i : nat) (sets : list (list nat)) : list nat :=
  match sets with
  | [] => []
  | s :: rest => if mem bats s && negb (mem bash s) then i :: extra_idx_from (S i) rest else extra_idx_from (S i) rest
  end.
Definition extra_idx (sets : list (list nat)) := extra_idx_from 0 sets.

Definition subset_b (sets : list (list nat)) : bool := forallb (fun s => implb (mem bash s) (mem bats s)) sets.

(* ---- (3) generic tree + POSIX checker (Coq twin of harness/cmd/c11 nodeFlags/nonPosix) *)
Inductive gtree := G (flags : list nat) (kids : list gtree).

Definition flag_ok (forbidden : list nat) (f : nat) : bool := negb (mem f forbidden).

Fixpoint posix_only (forbidden : list nat) (t : gtree) : bool :=
  match t with
  | G flags kids =>
      forallb (flag_ok forbidden) flags &&
      (fix all (l : list gtree) : bool := match l with [] => true | k :: r => posix_only forbidden k && all r end) kids
  end.

(* declarative: node n occurs in tree t *)
Inductive occurs : gtree -> gtree -> Prop :=
| occ_here : forall t, occurs t t
| occ_kid : forall n flags kids k, In k kids -> occurs n k -> occurs n (G flags kids).

Definition node_flags (t : gtree) : list nat := match t with G f _ => f end.

Definition forbidden_of (table : list (nat * bool)) : list nat :=
  map fst (filter (fun p => snd p) table).
