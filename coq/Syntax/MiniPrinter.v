(* Syntax/MiniPrinter.v — MiniSh level S printer: transliteration of the separator state
   machine of syntax/printer.go (stmtList, nestedStmts, stmt, command, ifClause, wordJoin,
   spacePad, spacedString, spacedToken, semiOrNewl, semiRsrv, newlines, newline,
   closingParen, rightParen) for the node kinds of MiniAst.v.

   Part 1 (this file, prefix sl_): the option SingleLine.  With SingleLine set and no comments
   or heredocs, wantsNewline is false everywhere (mustNewline stays false), wordJoin /
   stmt / BinaryCmd / Subshell / closingParen take their singleLine branches, and no
   decision reads a position or p.line; indent() is never reached, so Indent n,
   BinaryNextLine, SwitchCaseIndent, SpaceRedirects, FunctionNextLine do not change the
   output for this fragment (the code leg prints under several of them).  Fields kept:
   wantSpace (three-valued), wantNewline, wroteSemi, firstLine.  Dropped as dead under
   SingleLine: mustNewline (always false), line, level/lastLevel/levelIncs, nestedBinary,
   pendingComments, pendingHdocs.  The one position test whose result is stored
   (stmtList: sep) only feeds wantNewline, which SingleLine reads at exactly one place,
   the `;` between statements, directly after wantNewline := true; its positional
   disjunct is modelled as false.
   NO PROOFS in this file. *)
From Verif Require Import Base.Str Syntax.Word Syntax.MiniAst.
Open Scope N_scope.

Inductive wsp := SpNotRequired | SpRequired | SpWritten.

Record pst := mkP {
  out : str;
  wantSpace : wsp;
  wantNewline : bool;
  wroteSemi : bool;
  firstLine : bool }.

Definition wr (b : str) (p : pst) : pst :=
  mkP (out p ++ b) (wantSpace p) (wantNewline p) (wroteSemi p) (firstLine p).
Definition set_ws (w : wsp) (p : pst) : pst :=
  mkP (out p) w (wantNewline p) (wroteSemi p) (firstLine p).
Definition set_wn (b : bool) (p : pst) : pst :=
  mkP (out p) (wantSpace p) b (wroteSemi p) (firstLine p).
Definition set_semi (b : bool) (p : pst) : pst :=
  mkP (out p) (wantSpace p) (wantNewline p) b (firstLine p).
Definition set_first (b : bool) (p : pst) : pst :=
  mkP (out p) (wantSpace p) (wantNewline p) (wroteSemi p) b.

Definition is_required (w : wsp) : bool := match w with SpRequired => true | _ => false end.

Definition s_bang : str := [33].
Definition s_lbrace : str := [123].
Definition s_rbrace : str := [125].
Definition s_semi : str := [59].
Definition s_amp : str := [38].
Definition s_sp : str := [32].
Definition s_nl : str := [10].
Definition s_lparen : str := [40].
Definition s_rparen : str := [41].

Definition op_string (op : binop) : str :=
  match op with AndStmt => [38;38] | OrStmt => [124;124] | Pipe => [124] end.

(* p.space() *)
Definition space (p : pst) : pst := set_ws SpWritten (wr s_sp p).

(* p.spacePad(pos) without KeepPadding: cols.lineStart is false, cols.column is 0 *)
Definition spacePad (p : pst) : pst :=
  if is_required (wantSpace p) then set_ws SpWritten (wr s_sp p) else p.

(* p.spacedString(s, pos); p.spacedToken is the same without Minify *)
Definition spacedString (s : str) (p : pst) : pst := set_ws SpRequired (wr s (spacePad p)).
Definition spacedToken (s : str) (p : pst) : pst := set_ws SpRequired (wr s (spacePad p)).

(* p.semiOrNewl(s, pos): wantsNewline(Pos{}, false) is false, no pending heredocs *)
Definition sl_semiOrNewl (s : str) (p : pst) : pst :=
  let p := if wroteSemi p then p else wr s_semi p in
  let p := space p in
  set_ws SpRequired (wr s p).

(* p.semiRsrv(s, pos): wantsNewline(pos, false) is false *)
Definition sl_semiRsrv (s : str) (p : pst) : pst :=
  let p := if wroteSemi p then p else wr s_semi p in
  let p := spacePad p in
  set_ws SpRequired (wr s p).

(* p.newlines(pos): first call clears firstLine; otherwise !wantsNewline -> return *)
Definition sl_newlines (p : pst) : pst :=
  if firstLine p then set_first false p else p.

(* p.newline(pos): nothing pending; writes the byte *)
Definition newline (p : pst) : pst :=
  set_wn false (set_ws SpWritten (wr s_nl p)).

(* p.wordJoin(ws): singleLine, so never the escaped-newline branch *)
Fixpoint sl_wordJoin (ws : list word) (p : pst) : pst :=
  match ws with
  | [] => p
  | w :: rest =>
      let p := spacePad p in
      let p := set_ws SpRequired (wr (print_word false w) p) in     (* p.word(w) *)
      sl_wordJoin rest p
  end.

Definition first_starts_lparen (ss : stmts) : bool :=
  match ss with SCons s _ => starts_lparen s | SNil => false end.

(* stmtList around its loop: sep, then wantNewline := false for a single statement.
   nestedStmts = the wantNewline cases + stmtList (len > 1; the two other cases read a
   closing position / pending comments: false here) *)
Definition stmtList_with (loop : stmts -> bool -> pst -> pst) (ss : stmts) (p : pst) : pst :=
  let sep := wantNewline p in
  let p := loop ss false p in
  if Nat.eqb (slen ss) 1 && negb sep then set_wn false p else p.
Definition nestedStmts_with (loop : stmts -> bool -> pst -> pst) (ss : stmts) (p : pst) : pst :=
  let p := if Nat.ltb 1 (slen ss) then set_wn true p else p in
  stmtList_with loop ss p.

Fixpoint sl_command (c : cmd) (p : pst) {struct c} : pst :=
  let p := spacePad p in
  match c with
  | Call args =>
      (* assigns: none; redirs: none; wordJoin(Args[:1]); wordJoin(Args[1:]) *)
      sl_wordJoin args p
  | Block ss =>
      let p := wr s_lbrace p in
      let p := set_semi true p in
      let p := set_ws SpRequired p in
      let p := nestedStmts_with sl_stmtLoop ss p in
      sl_semiRsrv s_rbrace p
  | Subshell ss =>
      let p := wr s_lparen p in
      let p :=
        match ss with
        | SNil => set_ws SpRequired p
        | SCons s0 _ =>
            if starts_lparen s0 then set_ws SpRequired p   (* singleLine: stays required *)
            else set_ws SpNotRequired p
        end in
      let p := spacePad p in
      let p := nestedStmts_with sl_stmtLoop ss p in
      (* closingParen *)
      let p := set_ws SpNotRequired p in
      let p :=
        match ss with
        | SCons s0 SNil => if ends_rparen s0 then set_ws SpRequired p else p
        | _ => p
        end in
      let p := spacePad p in
      (* rightParen: newlines(pos) then ')' *)
      let p := sl_newlines p in
      set_ws SpRequired (wr s_rparen p)
  | IfClause cond thn els =>
      let p := spacedString kw_if p in
      let p := nestedStmts_with sl_stmtLoop cond p in
      let p := sl_semiOrNewl kw_then p in
      let p := nestedStmts_with sl_stmtLoop thn p in
      sl_else els p
  | WhileClause until cond body =>
      let p := spacedString (if until then kw_until else kw_while) p in
      let p := nestedStmts_with sl_stmtLoop cond p in
      let p := sl_semiOrNewl kw_do p in
      let p := nestedStmts_with sl_stmtLoop body p in
      sl_semiRsrv kw_done p
  | Binary op x y =>
      let p := sl_stmt x p in
      let p := spacedToken (op_string op) p in
      sl_stmt y p
  end

(* the tail of ifClause after the Then list *)
with sl_else (e : else_) (p : pst) {struct e} : pst :=
  match e with
  | NoElse => sl_semiRsrv kw_fi p
  | Elif cond thn els =>
      let p := sl_semiRsrv kw_elif p in
      (* ifClause(el, true) *)
      let p := nestedStmts_with sl_stmtLoop cond p in
      let p := sl_semiOrNewl kw_then p in
      let p := nestedStmts_with sl_stmtLoop thn p in
      sl_else els p
  | Else thn =>
      let p := sl_semiRsrv kw_else p in
      let p := nestedStmts_with sl_stmtLoop thn p in
      sl_semiRsrv kw_fi p
  end

with sl_stmt (s : stmt) (p : pst) {struct s} : pst :=
  match s with
  | Stmt neg c bg =>
      let p := set_semi false p in
      let p := if neg then spacedString s_bang p else p in
      let p := sl_command c p in
      let p := set_semi false p in
      if bg then
        let p := space p in
        let p := wr s_amp p in
        let p := set_semi true p in
        set_ws SpRequired p
      else p
  end

(* the loop of stmtList; i0 = (i > 0) *)
with sl_stmtLoop (ss : stmts) (i0 : bool) (p : pst) {struct ss} : pst :=
  match ss with
  | SNil => p
  | SCons s rest =>
      let p :=
        if i0 && wantNewline p && negb (wroteSemi p)
        then set_ws SpRequired (wr s_semi p) else p in
      let p := sl_newlines p in       (* !minify *)
      let p := sl_stmt s p in
      let p := set_wn true p in
      sl_stmtLoop rest true p
  end.

Definition sl_nestedStmts := nestedStmts_with sl_stmtLoop.
Definition sl_stmtList := stmtList_with sl_stmtLoop.

(* Printer.reset with Minify off *)
Definition init_pst : pst := mkP [] SpWritten false false true.

(* Print(File): stmtList(Stmts, Last); newline(Pos{}) *)
Definition sl_print_file (t : file) : str := out (newline (sl_stmtList t init_pst)).

(* ------------------------------------------------------------------ options *)
Record opts := mkOpts {
  o_single_line : bool;
  o_indent : N;             (* Indent(n): 0 = tabs *)
  o_binary_next_line : bool }.

Definition opts_single (o : opts) : Prop := o_single_line o = true.
