(* Syntax/CoreGrammar.v — token-level model of the statement grammar of
   syntax/parser.go (mvdan/sh) for the core shared by POSIX sh and bash:
   simple commands, assignments, redirections, pipelines, && ||, !, ( ), { },
   if/elif/else, while/until, for-in, case with ;; , function declarations.

   [parse_core] is a transliteration of the Go parser's control flow
   (Parser.stmts / getStmt / gotStmtPipe / callExpr / doRedirect / block /
   subshell / ifClause / whileClause / forClause+wordIter / caseClause+caseItems /
   funcDecl / followStmts), on a list of already-lexed tokens, with
     * the [stops] lists and the lexer states subCmd / switchCase ([quote]),
     * openNodes and the ParseError.Incomplete flag computed as posErr does
       (tok == EOF && openNodes > 0),
     * the position of every error (as the number of tokens that remained when
       the token it points at was current),
     * first-error-wins: errPass keeps the first error and makes every later
       read see EOF, so the model returns at the first error.
   Bugs included: `in` at command position is a command name, a function body is
   any statement, reserved words are still dispatched after leading redirections,
   `2>` after a redirection operator is its target word "2".

   [accepts] is an independent recogniser written from the POSIX grammar (XCU 2.10)
   with the bash/dash deltas as explicit switches; it does not follow the Go code.

   NO PROOFS in this file. *)
From Verif Require Import Base.Str.

Inductive token :=
| TWord      (* a word that does not start with a literal: 'q r' "$x" $(a) ${x} *)
| TLit       (* literal word, not a valid name, not reserved: -x a.b 1 x/y *)
| TName      (* literal word that is a valid name and not reserved *)
| TAssign    (* name=value with a purely literal value: v=1 v= *)
| TAssignW   (* name=value whose value has a quoted/expanded part (w='a b' v=$x): lexed as _Lit "w=" + more
                word parts, so it is not a _LitWord and getLit consumes only its literal head *)
| TIf | TThen | TElif | TElse | TFi | TWhile | TUntil | TDo | TDone | TFor | TIn | TCase | TEsac
| TLbrace | TRbrace | TBang
| TSemi | TAmp | TAndAnd | TOrOr | TPipe | TLparen | TRparen | TDSemi | TNewl
| TRedir     (* > < >> *)
| TIoRedir.  (* 2> : io-number glued to a redirection operator (_LitRedir + operator) *)

Scheme Equality for token.

Inductive quote := QNone | QSub | QCase.   (* noState | subCmd | switchCase *)

Inductive ecode :=
| EBangAlone | EBangMulti | EBangFull
| ERbraceClose | EDSemiCase | ESep
| EStartFollow | EStartRparen | EStartInvalid
| EThenIf | EFi | EDo | EDone | EEsac
| ERedirWord | EFollowStmts | EFollowRsrv | EStmtEnd | EMatch | EAfterOp
| EFooParen | EInvalidFunc | EFuncBody | ECmdWords
| EForLit | EForIn | EWordList
| ECaseWord | ECasePatWords | ECasePatSep
| ELangRedirCompound | ELangCStyleFor | ELangForBrace | ELangCaseBrace | ELangBuiltin.

Scheme Equality for ecode.

(* result of a parsing function: value, or the first error (code, position as
   remaining-token count, Incomplete flag), or out of fuel *)
Inductive pres (A : Type) : Type :=
| POk (a : A)
| PErr (c : ecode) (pos : nat) (inc : bool)
| PFuel.
Arguments POk {A} a.
Arguments PErr {A} c pos inc.
Arguments PFuel {A}.

(* posErr: Incomplete = p.tok == _EOF && p.openNodes > 0   (litBs is empty between tokens) *)
Definition perr {A} (o : nat) (cur : list token) (c : ecode) (pos : nat) : pres A :=
  PErr c pos (match cur with [] => Nat.ltb 0 o | _ => false end).

(* checkLang: a LangError is never Incomplete *)
Definition lerr {A} (c : ecode) (pos : nat) : pres A := PErr c pos false.

Definition is_litword (t : token) : bool :=   (* tok == _LitWord *)
  match t with
  | TLit | TName | TAssign | TIf | TThen | TElif | TElse | TFi | TWhile | TUntil | TDo | TDone
  | TFor | TIn | TCase | TEsac | TLbrace | TRbrace | TBang => true
  | _ => false
  end.

(* getWord: consumes one word; `2>` yields the word "2" and leaves the operator *)
Definition get_word (ts : list token) : option (list token) :=
  match ts with
  | t :: r => if is_litword t then Some r
              else match t with TWord | TAssignW => Some r | TIoRedir => Some (TRedir :: r) | _ => None end
  | [] => None
  end.

(* getLit: tok.isLit() *)
Definition get_lit (ts : list token) : option (list token) :=
  match ts with
  | t :: r => if is_litword t then Some r
              else match t with
                   | TIoRedir => Some (TRedir :: r)
                   | TAssignW => Some (TWord :: r)   (* the literal `w=` is taken, the rest of the word stays *)
                   | _ => None
                   end
  | [] => None
  end.

Definition got_newl (ts : list token) : list token :=
  match ts with TNewl :: r => r | _ => ts end.

Definition stop_token (ts : list token) : bool :=
  match ts with
  | [] => true
  | t :: _ => match t with TNewl | TSemi | TAmp | TPipe | TAndAnd | TOrOr | TDSemi | TRparen => true | _ => false end
  end.

Definition peek_redir (ts : list token) : bool :=
  match ts with (TRedir | TIoRedir) :: _ => true | _ => false end.

(* doRedirect, for ts = (TRedir|TIoRedir) :: r *)
Definition do_redirect (o : nat) (ts : list token) : pres (list token) :=
  match ts with
  | _ :: r => match get_word r with
              | Some r' => POk r'
              | None => perr o r ERedirWord (length ts)
              end
  | [] => POk []
  end.

Definition bind {A B} (x : pres A) (k : A -> pres B) : pres B :=
  match x with POk a => k a | PErr c p i => PErr c p i | PFuel => PFuel end.

(* for p.peekRedir() { p.doRedirect(s) } *)
Fixpoint redirs (fuel : nat) (o : nat) (ts : list token) : pres (list token) :=
  match fuel with
  | O => PFuel
  | S f => if peek_redir ts
           then bind (do_redirect o ts) (fun r => redirs f o r)
           else POk ts
  end.

(* isBashCompoundCommand(_LitWord, val), restricted to the alphabet *)
Definition is_compound_kw (t : token) : bool :=
  match t with TLbrace | TIf | TWhile | TUntil | TFor | TCase => true | _ => false end.

(* unexpectedInCallExpr: in a non-bash variant a first argument that is a bash
   compound-command keyword is reported as a LangError first *)
Definition unexpected_in_call {A} (posix : bool) (o : nat) (first : option token) (ts : list token) : pres A :=
  match first with
  | Some a => if posix && is_compound_kw a then lerr ELangBuiltin (length ts)
              else perr o ts ECmdWords (length ts)
  | None => perr o ts ECmdWords (length ts)
  end.

(* the loop of callExpr; first = ce.Args[0] if any *)
Fixpoint call_loop (posix : bool) (fuel : nat) (o : nat) (q : quote) (first : option token)
         (ts : list token) : pres (list token) :=
  match fuel with
  | O => PFuel
  | S f =>
      match ts with
      | [] => POk ts
      | t :: r =>
          if is_litword t then
            call_loop posix f o q
              (match first with
               | None => match t with TAssign => None | _ => Some t end
               | _ => first
               end) r
          else match t with
               | TNewl | TSemi | TAmp | TPipe | TAndAnd | TOrOr | TDSemi => POk ts
               | TWord => call_loop posix f o q (match first with None => Some TWord | _ => first end) r
               | TAssignW => call_loop posix f o q first r   (* an assignment while there are no args, else an arg (never Args[0]'s Lit) *)
               | TLparen => unexpected_in_call posix o first ts
               | TRparen => match q with QSub => POk ts | _ => unexpected_in_call posix o first ts end
               | _ => (* TRedir TIoRedir *)
                   bind (do_redirect o ts) (fun r' => call_loop posix f o q first r')
               end
      end
  end.

Definition in_stops (stops : list token) (t : token) : bool := existsb (token_beq t) stops.

Definition invalid_start_code (t : token) : ecode :=
  match t with
  | TSemi | TAmp | TPipe | TAndAnd | TOrOr => EStartFollow
  | TRparen => EStartRparen
  | _ => EStartInvalid
  end.

(* ValidName(name.Value) for the tokens that can reach the funcDecl branch *)
Definition valid_func_name (t : token) : bool :=
  match t with TName | TIn => true | _ => false end.

Definition is_quote_sub (q : quote) : bool := match q with QSub => true | _ => false end.
Definition is_quote_case (q : quote) : bool := match q with QCase => true | _ => false end.

(* for !p.stopToken() { getWord or "word list can only contain words" } *)
Fixpoint word_list (fuel : nat) (o : nat) (ts : list token) : pres (list token) :=
  match fuel with
  | O => PFuel
  | S f => if stop_token ts then POk ts
           else match get_word ts with
                | Some r => word_list f o r
                | None => perr o ts EWordList (length ts)
                end
  end.

(* p.pos is not advanced by a newline token nor at EOF: curErr then reports the
   position of the last real token ([prev]) *)
Definition cur_pos (prev : nat) (ts : list token) : nat :=
  match ts with [] => prev | TNewl :: _ => prev | _ => length ts end.

(* the pattern loop of caseItems; prev = position of the last consumed token *)
Fixpoint pats_loop (fuel : nat) (o : nat) (prev : nat) (ts : list token) : pres (list token) :=
  match fuel with
  | O => PFuel
  | S f =>
      match ts with
      | [] => POk []
      | _ => match get_word ts with
             | None => perr o ts ECasePatWords (cur_pos prev ts)
             | Some r => match r with
                         | TRparen :: _ => POk r
                         | TPipe :: r2 => pats_loop f o (length r) r2
                         | _ => perr o r ECasePatSep (cur_pos (length ts) r)
                         end
             end
      end
  end.

(* wordIter + the optional `in` list, for the tokens after `for` *)
Definition word_iter (fuel : nat) (o : nat) (fpos : nat) (r : list token) : pres (list token) :=
  match get_lit r with
  | None => perr o r EForLit fpos
  | Some r1 =>
      match r1 with
      | TSemi :: r2 => POk (got_newl r2)
      | _ =>
          let r2 := got_newl r1 in
          match r2 with
          | TIn :: r3 =>
              bind (word_list fuel o r3) (fun r4 =>
              let r5 := match r4 with TSemi :: x => x | _ => r4 end in
              POk (got_newl r5))
          | TDo :: _ => POk r2
          | _ => perr o r2 EForIn fpos
          end
      end
  end.

Section Parser.
  Variable posix : bool.   (* LangPOSIX (true) or LangBash (false) *)

  (* All functions take: fuel, openNodes [o], lexer state [q], remaining tokens. *)
  Fixpoint stmts (fuel : nat) (o : nat) (q : quote) (stops : list token) (gotEnd any : bool)
           (ts : list token) {struct fuel} : pres (list token * bool) :=
    match fuel with
    | O => PFuel
    | S f =>
        match ts with
        | [] => POk ([], any)
        | _ =>
            let newLine := match ts with TNewl :: _ => true | _ => false end in
            let ts1 := got_newl ts in
            let brk : option (pres (list token * bool)) :=
              match ts1 with
              | t :: _ =>
                  if is_litword t then
                    if in_stops stops t then Some (POk (ts1, any))
                    else match t with TRbrace => Some (perr o ts1 ERbraceClose (length ts1)) | _ => None end
                  else match t with
                       | TRparen => if is_quote_sub q then Some (POk (ts1, any)) else None
                       | TDSemi => if is_quote_case q then Some (POk (ts1, any))
                                   else Some (perr o ts1 EDSemiCase (length ts1))
                       | _ => None
                       end
              | [] => None
              end in
            match brk with
            | Some r => r
            | None =>
                if negb newLine && negb gotEnd then perr o ts1 ESep (length ts1)
                else match ts1 with
                     | [] => POk ([], any)
                     | t :: _ =>
                         bind (get_stmt f (S o) q true false ts1) (fun v =>
                         match v with
                         | None => perr o ts1 (invalid_start_code t) (length ts1)
                         | Some (r, semi) => stmts f o q stops semi true r
                         end)
                     end
            end
        end
    end

  (* getStmt(readEnd, binCmd, _) : None = nil *)
  with get_stmt (fuel : nat) (o : nat) (q : quote) (readEnd binCmd : bool)
                (ts : list token) {struct fuel} : pres (option (list token * bool)) :=
    match fuel with
    | O => PFuel
    | S f =>
        let pos := length ts in
        let neg : pres (bool * list token) :=
          match ts with
          | TBang :: r =>
              if stop_token r then perr o r EBangAlone pos
              else match r with
                   | TBang :: r2 => perr o r2 EBangMulti pos
                   | _ => POk (true, r)
                   end
          | _ => POk (false, ts)
          end in
        bind neg (fun nr =>
        let '(negated, ts1) := nr in
        bind (stmt_pipe f o q negated false pos ts1) (fun sp =>
        match sp with
        | None => POk None
        | Some r => and_or f o q readEnd binCmd r
        end))
    end

  (* the && || loop of getStmt and the trailing ; & *)
  with and_or (fuel : nat) (o : nat) (q : quote) (readEnd binCmd : bool)
              (ts : list token) {struct fuel} : pres (option (list token * bool)) :=
    match fuel with
    | O => PFuel
    | S f =>
        match ts with
        | (TAndAnd | TOrOr) :: r =>
            if binCmd then POk (Some (ts, false))
            else
              let r1 := got_newl r in
              bind (get_stmt f o q false true r1) (fun v =>
              match v with
              | None => perr o r1 EAfterOp (length ts)
              | Some (r2, _) => and_or f o q readEnd binCmd r2
              end)
        | _ =>
            if readEnd then
              match ts with
              | (TSemi | TAmp) :: r => POk (Some (r, true))
              | _ => POk (Some (ts, false))
              end
            else POk (Some (ts, false))
        end
    end

  (* gotStmtPipe(s, binCmd); spos = s.Pos(); None = nil *)
  with stmt_pipe (fuel : nat) (o : nat) (q : quote) (negated binCmd : bool) (spos : nat)
                 (ts : list token) {struct fuel} : pres (option (list token)) :=
    match fuel with
    | O => PFuel
    | S f =>
        bind (redirs fuel o ts) (fun ts1 =>
        let had_redirs := Nat.ltb (length ts1) (length ts) in
        (* cmd : None = no command; Some (rest, compound) *)
        let cmd : pres (option (list token * bool)) :=
          match ts1 with
          | t :: r =>
              let as_name : pres (option (list token * bool)) :=
                match r with
                | TLparen :: r2 =>
                    match r2 with
                    | TRparen :: r3 =>
                        if posix && negb (valid_func_name t) then perr o r3 EInvalidFunc (length ts1)
                        else bind (func_decl f o q (length ts1) r3) (fun x => POk (Some (x, true)))
                    | _ => perr o r2 EFooParen (length ts1)
                    end
                | _ => bind (call_loop posix fuel o q (Some t) r) (fun x => POk (Some (x, false)))
                end in
              match t with
              | TLbrace => bind (block f o q ts1) (fun x => POk (Some (x, true)))
              | TIf => bind (if_clause f o q ts1) (fun x => POk (Some (x, true)))
              | TWhile | TUntil => bind (while_clause f o q ts1) (fun x => POk (Some (x, true)))
              | TFor => bind (for_clause f o q ts1) (fun x => POk (Some (x, true)))
              | TCase => bind (case_clause f o q ts1) (fun x => POk (Some (x, true)))
              | TRbrace => perr o ts1 ERbraceClose (length ts1)
              | TThen | TElif | TElse => perr o ts1 EThenIf (length ts1)
              | TFi => perr o ts1 EFi (length ts1)
              | TDo => perr o ts1 EDo (length ts1)
              | TDone => perr o ts1 EDone (length ts1)
              | TEsac => perr o ts1 EEsac (length ts1)
              | TBang => if negated then as_name else perr o ts1 EBangFull (length ts1)
              | TAssign | TAssignW => bind (call_loop posix fuel o q None r) (fun x => POk (Some (x, false)))
              | TLit | TName | TIn => as_name
              | TWord =>
                  match r with
                  | TLparen :: r2 => perr o r2 EInvalidFunc (length ts1)
                  | _ => bind (call_loop posix fuel o q (Some TWord) r) (fun x => POk (Some (x, false)))
                  end
              | TLparen => bind (subshell f o ts1) (fun x => POk (Some (x, true)))
              | _ => POk None
              end
          | [] => POk None
          end in
        bind cmd (fun c =>
        match c with
        | None => if had_redirs then pipe_loop f o q binCmd ts1 else POk None
        | Some (r, compound) =>
            if had_redirs && compound then lerr ELangRedirCompound spos
            else bind (redirs fuel o r) (fun r' => pipe_loop f o q binCmd r')
        end))
    end

  (* the | loop of gotStmtPipe *)
  with pipe_loop (fuel : nat) (o : nat) (q : quote) (binCmd : bool)
                 (ts : list token) {struct fuel} : pres (option (list token)) :=
    match fuel with
    | O => PFuel
    | S f =>
        match ts with
        | TPipe :: r =>
            if binCmd then POk (Some ts)
            else
              let r1 := got_newl r in
              bind (stmt_pipe f o q false true (length r1) r1) (fun v =>
              match v with
              | None => perr o r1 EAfterOp (length ts)
              | Some r2 => pipe_loop f o q binCmd r2
              end)
        | _ => POk (Some ts)
        end
    end

  (* followStmts(left, lpos, stops...) *)
  with follow_stmts (fuel : nat) (o : nat) (q : quote) (lpos : nat) (stops : list token)
                    (ts : list token) {struct fuel} : pres (list token) :=
    match fuel with
    | O => PFuel
    | S f =>
        match ts with
        | TSemi :: r => perr o r EFollowStmts lpos
        | _ =>
            bind (stmts f o q stops true false ts) (fun v =>
            let '(r, any) := v in if any then POk r else perr o r EFollowStmts lpos)
        end
    end

  (* block, ts = TLbrace :: r *)
  with block (fuel : nat) (o : nat) (q : quote) (ts : list token) {struct fuel} : pres (list token) :=
    match fuel with
    | O => PFuel
    | S f =>
        bind (follow_stmts f o q (length ts) [TRbrace] (tl ts)) (fun r1 =>
        match r1 with
        | TRbrace :: r2 => POk r2
        | _ => perr o r1 EMatch (length ts)
        end)
    end

  (* subshell, ts = TLparen :: r *)
  with subshell (fuel : nat) (o : nat) (ts : list token) {struct fuel} : pres (list token) :=
    match fuel with
    | O => PFuel
    | S f =>
        bind (follow_stmts f o QSub (length ts) [] (tl ts)) (fun r1 =>
        match r1 with
        | TRparen :: r2 => POk r2
        | _ => perr o r1 EMatch (length ts)
        end)
    end

  (* ifClause, ts = TIf :: r *)
  with if_clause (fuel : nat) (o : nat) (q : quote) (ts : list token) {struct fuel} : pres (list token) :=
    match fuel with
    | O => PFuel
    | S f =>
        let ipos := length ts in
        bind (follow_stmts f o q ipos [TThen] (tl ts)) (fun r1 =>
        match r1 with
        | TThen :: r2 =>
            bind (follow_stmts f o q (length r1) [TFi; TElif; TElse] r2) (fun r3 =>
            elif_loop f o q ipos r3)
        | _ => perr o r1 EFollowRsrv ipos
        end)
    end

  (* the elif loop, the optional else and the closing fi *)
  with elif_loop (fuel : nat) (o : nat) (q : quote) (ipos : nat) (ts : list token) {struct fuel} : pres (list token) :=
    match fuel with
    | O => PFuel
    | S f =>
        match ts with
        | TElif :: r =>
            let epos := length ts in
            bind (follow_stmts f o q epos [TThen] r) (fun r1 =>
            match r1 with
            | TThen :: r2 =>
                bind (follow_stmts f o q (length r1) [TFi; TElif; TElse] r2) (fun r3 =>
                elif_loop f o q ipos r3)
            | _ => perr o r1 EFollowRsrv epos
            end)
        | _ =>
            let after_else : pres (list token) :=
              match ts with
              | TElse :: r => follow_stmts f o q (length ts) [TFi] r
              | _ => POk ts
              end in
            bind after_else (fun r5 =>
            match r5 with
            | TFi :: r6 => POk r6
            | _ => perr o r5 EStmtEnd ipos
            end)
        end
    end

  (* whileClause, ts = (TWhile|TUntil) :: r *)
  with while_clause (fuel : nat) (o : nat) (q : quote) (ts : list token) {struct fuel} : pres (list token) :=
    match fuel with
    | O => PFuel
    | S f =>
        let wpos := length ts in
        bind (follow_stmts f o q wpos [TDo] (tl ts)) (fun r1 =>
        match r1 with
        | TDo :: r2 =>
            bind (follow_stmts f o q (length r1) [TDone] r2) (fun r3 =>
            match r3 with
            | TDone :: r4 => POk r4
            | _ => perr o r3 EStmtEnd wpos
            end)
        | _ => perr o r1 EFollowRsrv wpos
        end)
    end

  (* forClause, ts = TFor :: r *)
  with for_clause (fuel : nat) (o : nat) (q : quote) (ts : list token) {struct fuel} : pres (list token) :=
    match fuel with
    | O => PFuel
    | S f =>
        let fpos := length ts in
        let r := tl ts in
        let cstyle : pres unit :=
          match r with
          | TLparen :: _ => if posix then lerr ELangCStyleFor (length r) else POk tt
          | _ => POk tt
          end in
        bind cstyle (fun _ =>
        bind (word_iter fuel o fpos r) (fun r1 =>
        match r1 with
        | TLbrace :: r2 =>
            if posix then lerr ELangForBrace (length r1)
            else
              bind (follow_stmts f o q (length r1) [TRbrace] r2) (fun r3 =>
              match r3 with
              | TRbrace :: r4 => POk r4
              | _ => perr o r3 EStmtEnd fpos
              end)
        | TDo :: r2 =>
            bind (follow_stmts f o q (length r1) [TDone] r2) (fun r3 =>
            match r3 with
            | TDone :: r4 => POk r4
            | _ => perr o r3 EStmtEnd fpos
            end)
        | _ => perr o r1 EFollowRsrv fpos
        end))
    end

  (* caseClause, ts = TCase :: r *)
  with case_clause (fuel : nat) (o : nat) (q : quote) (ts : list token) {struct fuel} : pres (list token) :=
    match fuel with
    | O => PFuel
    | S f =>
        let cpos := length ts in
        let r := tl ts in
        match get_word r with
        | None => perr o r ECaseWord cpos
        | Some r0 =>
            let r1 := got_newl r0 in
            match r1 with
            | TLbrace :: _ => lerr ELangCaseBrace cpos
            | TIn :: r2 =>
                bind (case_items f o (length r1) (got_newl r2)) (fun r3 =>
                match r3 with
                | TEsac :: r4 => POk r4
                | _ => perr o r3 EStmtEnd cpos
                end)
            | _ => perr o r1 EFollowRsrv cpos
            end
        end
    end

  (* the item loop of caseItems (after its initial got(_Newl)); prev = position of the last consumed token *)
  with case_items (fuel : nat) (o : nat) (prev : nat) (ts : list token) {struct fuel} : pres (list token) :=
    match fuel with
    | O => PFuel
    | S f =>
        match ts with
        | [] => POk ts
        | TEsac :: _ => POk ts
        | _ =>
            let ts1 := match ts with TLparen :: r => r | _ => ts end in
            let prev1 := match ts with TLparen :: _ => length ts | _ => prev end in
            (* the input ended right after the optional '(' of an item: "case patterns must consist of words"
               (repo fix 78dddf0: an item without patterns never reaches the tree) *)
            bind (match ts1 with
                  | [] => perr o ts1 ECasePatWords prev1
                  | _ => pats_loop fuel o prev1 ts1
                  end) (fun r =>
            bind (stmts f o QCase [TEsac] true false (tl r)) (fun v =>
            let r2 := fst v in
            match r2 with
            | TDSemi :: r3 => case_items f o (length r2) (got_newl r3)
            | _ => POk r2
            end))
        end
    end

  (* funcDecl, ts = the tokens after `name ( )`; npos = position of the name *)
  with func_decl (fuel : nat) (o : nat) (q : quote) (npos : nat) (ts : list token) {struct fuel} : pres (list token) :=
    match fuel with
    | O => PFuel
    | S f =>
        let r := got_newl ts in
        bind (get_stmt f o q false false r) (fun v =>
        match v with
        | None => perr o r EFuncBody npos
        | Some (r2, _) => POk r2
        end)
    end.
End Parser.

(* the lexer merges consecutive newlines into one _Newl token *)
Fixpoint norm (ts : list token) : list token :=
  match ts with
  | TNewl :: r => match r with
                  | TNewl :: _ => norm r
                  | _ => TNewl :: norm r
                  end
  | t :: r => t :: norm r
  | [] => []
  end.

Definition fuel_for (ts : list token) : nat := 12 * length ts + 16.

(* Parser.Parse on an already normalised token list: stmtList() with no stops in noState *)
Definition parse_toks (posix : bool) (ts : list token) : pres (list token * bool) :=
  stmts posix (fuel_for ts) 0 QNone [] true false ts.

Definition parse_core (posix : bool) (ts : list token) : pres (list token * bool) :=
  parse_toks posix (norm ts).

Definition accepted {A} (r : pres A) : bool := match r with POk _ => true | _ => false end.
Definition incomplete {A} (r : pres A) : bool := match r with PErr _ _ i => i | _ => false end.
Definition out_of_fuel {A} (r : pres A) : bool := match r with PFuel => true | _ => false end.

(* ====================================================================== *)
(* Spec: a recogniser written from the POSIX shell grammar (XCU 2.10.2),
   independent of the Go code.  Reserved words are recognised only where the
   grammar's rule 1 applies (first word of a command, after another reserved
   word, third word of for/case for `in`).  The deltas of the two real shells
   inside the alphabet are explicit switches. *)

Record shell := {
  sh_lone_bang : bool;     (* bash: pipeline_command : BANG list_terminator *)
  sh_func_any_cmd : bool;  (* dash: function body may be any command, not only a compound command *)
  sh_func_lit_name : bool; (* bash: a function name may be any unquoted literal word *)
  sh_for_brace : bool;     (* bash: for NAME [in words] ; { list ; } *)
  sh_for_nl_semi : bool    (* dash: for NAME <newline> ; do *)
}.

Definition sh_bash : shell := {| sh_lone_bang := true; sh_func_any_cmd := false; sh_func_lit_name := true;
                                 sh_for_brace := true; sh_for_nl_semi := false |}.
Definition sh_dash : shell := {| sh_lone_bang := false; sh_func_any_cmd := true; sh_func_lit_name := false;
                                 sh_for_brace := false; sh_for_nl_semi := true |}.

(* WORD where no reserved word is recognised: any word-like token *)
Definition is_word (t : token) : bool :=
  is_litword t || match t with TWord | TAssignW => true | _ => false end.

(* WORD at a position where rule 1 applies: reserved words are not WORDs *)
Definition is_plain_word (t : token) : bool :=
  match t with TWord | TLit | TName => true | _ => false end.

Fixpoint skip_newl (ts : list token) : list token :=
  match ts with TNewl :: r => skip_newl r | _ => ts end.

Inductive ares :=
| AOk (rest : list token)
| ANone          (* no production starts here; nothing consumed *)
| AFail.         (* syntax error *)

(* io_redirect : [IO_NUMBER] op filename *)
Definition a_redirect (ts : list token) : ares :=
  match ts with
  | (TRedir | TIoRedir) :: t :: r => if is_word t then AOk r else AFail
  | (TRedir | TIoRedir) :: [] => AFail
  | _ => ANone
  end.

(* redirect_list? *)
Fixpoint a_redirects (fuel : nat) (ts : list token) : option (list token) :=
  match fuel with
  | O => None
  | S f => match a_redirect ts with
           | AOk r => a_redirects f r
           | ANone => Some ts
           | AFail => None
           end
  end.

(* cmd_suffix? : (io_redirect | WORD)* *)
Fixpoint a_suffix (fuel : nat) (ts : list token) : option (list token) :=
  match fuel with
  | O => None
  | S f => match ts with
           | t :: r => if is_word t then a_suffix f r
                       else match a_redirect ts with
                            | AOk r' => a_suffix f r'
                            | ANone => Some ts
                            | AFail => None
                            end
           | [] => Some []
           end
  end.

(* cmd_prefix : (io_redirect | ASSIGNMENT_WORD)+ then [cmd_word cmd_suffix?];
   called when ts starts with a redirection or an assignment *)
Fixpoint a_prefix (fuel : nat) (ts : list token) : option (list token) :=
  match fuel with
  | O => None
  | S f => match ts with
           | (TAssign | TAssignW) :: r => a_prefix f r
           | t :: r => match a_redirect ts with
                       | AOk r' => a_prefix f r'
                       | AFail => None
                       | ANone => if is_word t then a_suffix f r   (* cmd_word: rule 7b, reserved words are plain words *)
                                  else Some ts
                       end
           | [] => Some []
           end
  end.

(* wordlist of for: WORD* *)
Fixpoint a_words (ts : list token) : list token :=
  match ts with t :: r => if is_word t then a_words r else ts | [] => [] end.

(* pattern : WORD ( '|' WORD )* ; ts starts at the first WORD *)
Fixpoint a_pattern (fuel : nat) (ts : list token) : option (list token) :=
  match fuel with
  | O => None
  | S f => match ts with
           | t :: r => if is_word t then
                         match r with
                         | TPipe :: r2 => a_pattern f r2
                         | _ => Some r
                         end
                       else None
           | [] => None
           end
  end.

Section Spec.
  Variable sh : shell.

  (* list / term with its separators; leading newlines allowed; returns the rest and
     whether at least one and_or was read.  Stops (without failing) where no and_or starts. *)
  Fixpoint a_list (fuel : nat) (any : bool) (ts : list token) {struct fuel} : option (list token * bool) :=
    match fuel with
    | O => None
    | S f =>
        let ts1 := skip_newl ts in
        match a_andor f ts1 with
        | AFail => None
        | ANone => Some (ts1, any)
        | AOk r =>
            match r with
            | (TSemi | TAmp | TNewl) :: r' => a_list f true (match r with TNewl :: _ => r | _ => r' end)
            | _ => Some (r, true)
            end
        end
    end

  (* and_or : pipeline ( (&& | ||) linebreak pipeline )* *)
  with a_andor (fuel : nat) (ts : list token) {struct fuel} : ares :=
    match fuel with
    | O => AFail
    | S f =>
        match a_pipeline f ts with
        | AOk r =>
            match r with
            | (TAndAnd | TOrOr) :: r' =>
                match a_andor f (skip_newl r') with
                | AOk r2 => AOk r2
                | _ => AFail
                end
            | _ => AOk r
            end
        | x => x
        end
    end

  (* pipeline : Bang? command ( '|' linebreak command )* *)
  with a_pipeline (fuel : nat) (ts : list token) {struct fuel} : ares :=
    match fuel with
    | O => AFail
    | S f =>
        match ts with
        | TBang :: r =>
            if sh_lone_bang sh then
              (* bash: BANG pipeline_command | BANG list_terminator *)
              match r with
              | [] => AOk r
              | (TSemi | TNewl) :: _ => AOk r
              | _ => match a_pipeline f r with AOk r2 => AOk r2 | _ => AFail end
              end
            else match a_pipe_seq f r with AOk r2 => AOk r2 | _ => AFail end
        | _ => a_pipe_seq f ts
        end
    end

  with a_pipe_seq (fuel : nat) (ts : list token) {struct fuel} : ares :=
    match fuel with
    | O => AFail
    | S f =>
        match a_command f ts with
        | AOk r =>
            match r with
            | TPipe :: r' => match a_pipe_seq f (skip_newl r') with AOk r2 => AOk r2 | _ => AFail end
            | _ => AOk r
            end
        | x => x
        end
    end

  (* command : simple_command | compound_command redirect_list? | function_definition *)
  with a_command (fuel : nat) (ts : list token) {struct fuel} : ares :=
    match fuel with
    | O => AFail
    | S f =>
        match ts with
        | [] => ANone
        | t :: r =>
            match t with
            | TAssign | TAssignW | TRedir | TIoRedir =>
                match a_prefix fuel ts with Some r' => AOk r' | None => AFail end
            | TWord | TLit | TName =>
                match r with
                | TLparen :: r2 =>
                    (* function_definition : fname '(' ')' linebreak function_body *)
                    let name_ok := match t with TName => true | TLit => sh_func_lit_name sh | _ => false end in
                    match r2 with
                    | TRparen :: r3 =>
                        if name_ok then
                          let r4 := skip_newl r3 in
                          if sh_func_any_cmd sh then
                            match a_command f r4 with AOk r5 => AOk r5 | _ => AFail end
                          else
                            match a_compound f r4 with AOk r5 => AOk r5 | _ => AFail end
                        else AFail
                    | _ => AFail
                    end
                | _ => match a_suffix fuel r with Some r' => AOk r' | None => AFail end
                end
            | TIf | TWhile | TUntil | TFor | TCase | TLbrace | TLparen => a_compound f ts
            | _ => ANone
            end
        end
    end

  (* compound_command redirect_list? *)
  with a_compound (fuel : nat) (ts : list token) {struct fuel} : ares :=
    match fuel with
    | O => AFail
    | S f =>
        let body : option (list token) :=
          match ts with
          | TLparen :: r =>
              match a_clist f r with
              | Some (TRparen :: r2) => Some r2
              | _ => None
              end
          | TLbrace :: r =>
              match a_clist f r with
              | Some (TRbrace :: r2) => Some r2
              | _ => None
              end
          | TIf :: r =>
              match a_clist f r with
              | Some (TThen :: r2) =>
                  match a_clist f r2 with
                  | Some r3 => a_else f r3
                  | None => None
                  end
              | _ => None
              end
          | (TWhile | TUntil) :: r =>
              match a_clist f r with
              | Some r2 => a_do_group f r2
              | None => None
              end
          | TFor :: t :: r =>
              if match t with TName => true | _ => false end then
                (* after the name: [linebreak in wordlist] sequential_sep? do_group *)
                let r1 := skip_newl r in
                let after : option (list token) :=
                  match r1 with
                  | TIn :: r2 =>
                      let r3 := a_words r2 in
                      match r3 with
                      | TSemi :: r4 => Some (skip_newl r4)
                      | TNewl :: _ => Some (skip_newl r3)
                      | _ => None
                      end
                  | _ =>
                      match r with
                      | TSemi :: r2 => Some (skip_newl r2)
                      | TNewl :: _ =>
                          match r1 with
                          | TSemi :: r2 => if sh_for_nl_semi sh then Some (skip_newl r2) else Some r1
                          | _ => Some r1
                          end
                      | _ => Some r
                      end
                  end in
                match after with
                | Some (TLbrace :: r5) =>
                    if sh_for_brace sh then
                      match a_clist f r5 with
                      | Some (TRbrace :: r6) => Some r6
                      | _ => None
                      end
                    else None
                | Some r5 => a_do_group f r5
                | None => None
                end
              else None
          | TCase :: t :: r =>
              if is_word t then
                match skip_newl r with
                | TIn :: r2 => a_case_items f (skip_newl r2)
                | _ => None
                end
              else None
          | _ => None
          end in
        match body with
        | Some r => match a_redirects fuel r with Some r' => AOk r' | None => AFail end
        | None => match ts with
                  | (TLparen | TLbrace | TIf | TWhile | TUntil | TFor | TCase) :: _ => AFail
                  | _ => ANone
                  end
        end
    end

  (* compound_list : non-empty list *)
  with a_clist (fuel : nat) (ts : list token) {struct fuel} : option (list token) :=
    match fuel with
    | O => None
    | S f => match a_list f false ts with
             | Some (r, true) => Some r
             | _ => None
             end
    end

  (* do_group : Do compound_list Done *)
  with a_do_group (fuel : nat) (ts : list token) {struct fuel} : option (list token) :=
    match fuel with
    | O => None
    | S f => match ts with
             | TDo :: r => match a_clist f r with
                           | Some (TDone :: r2) => Some r2
                           | _ => None
                           end
             | _ => None
             end
    end

  (* else_part? Fi *)
  with a_else (fuel : nat) (ts : list token) {struct fuel} : option (list token) :=
    match fuel with
    | O => None
    | S f => match ts with
             | TFi :: r => Some r
             | TElif :: r =>
                 match a_clist f r with
                 | Some (TThen :: r2) =>
                     match a_clist f r2 with
                     | Some r3 => a_else f r3
                     | None => None
                     end
                 | _ => None
                 end
             | TElse :: r =>
                 match a_clist f r with
                 | Some (TFi :: r2) => Some r2
                 | _ => None
                 end
             | _ => None
             end
    end

  (* case_list? Esac ; ts is after `in` linebreak *)
  with a_case_items (fuel : nat) (ts : list token) {struct fuel} : option (list token) :=
    match fuel with
    | O => None
    | S f =>
        match ts with
        | TEsac :: r => Some r
        | _ =>
            let ts1 := match ts with TLparen :: r => r | _ => ts end in
            match a_pattern fuel ts1 with
            | Some (TRparen :: r) =>
                (* linebreak | compound_list, then DSEMI linebreak, or (last item) Esac *)
                match a_list f false r with
                | Some (r2, _) =>
                    match r2 with
                    | TDSemi :: r3 => a_case_items f (skip_newl r3)
                    | TEsac :: r3 => Some r3
                    | _ => None
                    end
                | None => None
                end
            | _ => None
            end
        end
    end.

  (* program : linebreak complete_commands? linebreak *)
  Definition a_program (fuel : nat) (ts : list token) : bool :=
    match a_list fuel false ts with
    | Some ([], _) => true
    | _ => false
    end.
End Spec.

Definition accepts (sh : shell) (ts : list token) : bool := a_program sh (fuel_for ts) ts.
