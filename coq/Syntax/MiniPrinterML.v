(* Syntax/MiniPrinterML.v — MiniSh level S printer, default (multi-line) mode: transliteration of
   syntax/printer.go for the node kinds of MiniPos.v WITH the position logic:
     wantsNewline, newline, newlines (incl. the preserved single empty line), indent,
     incLevel / decLevel (levelIncs stack, lastLevel), bslashNewl, semiOrNewl, semiRsrv,
     stmtList (sep), nestedStmts (the closing-position case), stmt, command, ifClause,
     Subshell spacing (Lparen line vs first statement line), closingParen (Lparen line vs
     Rparen line), BinaryCmd same-line and multi-line branches (BinaryNextLine, nestedBinary).
   Options modelled: Indent n (0 = tabs; the tabwriter escape bytes around the tabs are
   stripped by the tabwriter and the fragment has no other tab cell), BinaryNextLine.
   Not set: SingleLine, Minify, KeepPadding.  Dead in the fragment and dropped: mustNewline
   (set only by comments / heredocs / Minify), pendingComments, pendingHdocs; wordJoin's
   escaped-newline branch and stmt's `sep` (a later-line `;`) need an escaped newline in the
   source: all words of a CallExpr are on its line (the exporter rejects anything else).
   NO PROOFS in this file. *)
From Verif Require Import Base.Str Syntax.Word Syntax.MiniAst Syntax.MiniPrinter Syntax.MiniPos.
Open Scope N_scope.

Record mst := mkM {
  m_out : str;
  m_ws : wsp;
  m_wn : bool;            (* wantNewline *)
  m_semi : bool;          (* wroteSemi *)
  m_first : bool;         (* firstLine *)
  m_line : nat;
  m_level : nat;
  m_last : nat;           (* lastLevel *)
  m_incs : list bool;     (* levelIncs, top of the stack first *)
  m_nb : bool }.          (* nestedBinary *)

Definition mwr (b : str) (p : mst) : mst :=
  mkM (m_out p ++ b) (m_ws p) (m_wn p) (m_semi p) (m_first p) (m_line p) (m_level p) (m_last p) (m_incs p) (m_nb p).
Definition mset_ws (w : wsp) (p : mst) : mst :=
  mkM (m_out p) w (m_wn p) (m_semi p) (m_first p) (m_line p) (m_level p) (m_last p) (m_incs p) (m_nb p).
Definition mset_wn (b : bool) (p : mst) : mst :=
  mkM (m_out p) (m_ws p) b (m_semi p) (m_first p) (m_line p) (m_level p) (m_last p) (m_incs p) (m_nb p).
Definition mset_semi (b : bool) (p : mst) : mst :=
  mkM (m_out p) (m_ws p) (m_wn p) b (m_first p) (m_line p) (m_level p) (m_last p) (m_incs p) (m_nb p).
Definition mset_first (b : bool) (p : mst) : mst :=
  mkM (m_out p) (m_ws p) (m_wn p) (m_semi p) b (m_line p) (m_level p) (m_last p) (m_incs p) (m_nb p).
Definition mset_line (l : nat) (p : mst) : mst :=
  mkM (m_out p) (m_ws p) (m_wn p) (m_semi p) (m_first p) l (m_level p) (m_last p) (m_incs p) (m_nb p).
Definition mset_levels (lv la : nat) (incs : list bool) (p : mst) : mst :=
  mkM (m_out p) (m_ws p) (m_wn p) (m_semi p) (m_first p) (m_line p) lv la incs (m_nb p).
Definition mset_nb (b : bool) (p : mst) : mst :=
  mkM (m_out p) (m_ws p) (m_wn p) (m_semi p) (m_first p) (m_line p) (m_level p) (m_last p) (m_incs p) b.

(* p.advanceLine(line) *)
Definition advanceLine (l : nat) (p : mst) : mst := mset_line (Nat.max (m_line p) l) p.

(* p.wantsNewline(pos, false) with mustNewline = false, no SingleLine, no Minify *)
Definition wantsNewline (posl : nat) (p : mst) : bool := m_wn p || Nat.ltb (m_line p) posl.

Definition mspace (p : mst) : mst := mset_ws SpWritten (mwr s_sp p).
Definition mspacePad (p : mst) : mst :=
  if is_required (m_ws p) then mset_ws SpWritten (mwr s_sp p) else p.
Definition mspacedString (s : str) (p : mst) : mst := mset_ws SpRequired (mwr s (mspacePad p)).

(* the bytes indent() leaves in the output: level tabs, or indentSpaces*level blanks *)
Definition indent_bytes (ind : nat) (level : nat) : str :=
  match ind with
  | O => repeat 9 level
  | _ => repeat 32 (ind * level)
  end.

(* p.indent() *)
Definition mindent (ind : nat) (p : mst) : mst :=
  mwr (indent_bytes ind (m_level p)) (mset_levels (m_level p) (m_level p) (m_incs p) p).

(* p.incLevel() / p.decLevel() *)
Definition incLevel (p : mst) : mst :=
  if Nat.leb (m_level p) (m_last p) || match m_incs p with [] => true | _ => false end
  then mset_levels (S (m_level p)) (m_last p) (true :: m_incs p) p
  else match m_incs p with
       | true :: tl => mset_levels (m_level p) (m_last p) (true :: false :: tl) p
       | incs => mset_levels (m_level p) (m_last p) (false :: incs) p
       end.
Definition decLevel (p : mst) : mst :=
  match m_incs p with
  | true :: tl => mset_levels (Nat.pred (m_level p)) (m_last p) tl p
  | _ :: tl => mset_levels (m_level p) (m_last p) tl p
  | [] => p                     (* Go would panic: never reached, every dec follows its inc *)
  end.

(* p.newline(pos) *)
Definition mnewline (posl : nat) (p : mst) : mst :=
  advanceLine posl (mset_wn false (mset_ws SpWritten (mwr s_nl p))).

(* p.newlines(pos) *)
Definition mnewlines (ind : nat) (posl : nat) (p : mst) : mst :=
  if m_first p then mset_first false p
  else if negb (wantsNewline posl p) then p
  else
    let p := mset_wn false (mset_ws SpWritten (mwr s_nl p)) in
    let p := if Nat.ltb (S (m_line p)) posl then mwr s_nl p else p in     (* preserve single empty lines *)
    let p := advanceLine posl p in
    mindent ind p.

(* p.bslashNewl() *)
Definition bslashNewl (ind : nat) (p : mst) : mst :=
  let p := if is_required (m_ws p) then mspace p else p in
  let p := mwr [92; 10] p in
  let p := mset_line (S (m_line p)) p in
  mindent ind p.

(* p.semiOrNewl(s, pos) *)
Definition msemiOrNewl (ind : nat) (s : str) (posl : nat) (p : mst) : mst :=
  let p :=
    if wantsNewline 0 p then mindent ind (mnewline posl p)
    else
      let p := if m_semi p then p else mwr s_semi p in
      let p := mspace p in
      advanceLine posl p in
  mset_ws SpRequired (mwr s p).

(* p.semiRsrv(s, pos) *)
Definition msemiRsrv (ind : nat) (s : str) (posl : nat) (p : mst) : mst :=
  let p :=
    if wantsNewline posl p then mnewlines ind posl p
    else
      let p := if m_semi p then p else mwr s_semi p in
      mspacePad p in
  mset_ws SpRequired (mwr s p).

Fixpoint mwordJoin (ws : list word) (p : mst) : mst :=
  match ws with
  | [] => p
  | w :: rest => mwordJoin rest (mset_ws SpRequired (mwr (print_word false w) (mspacePad p)))
  end.

(* stmtList / nestedStmts around the statement loop *)
Definition mstmtList_with (loop : pstmts -> mst -> mst) (ss : pstmts) (p : mst) : mst :=
  let sep := m_wn p || (match ss with PNil => false | _ => Nat.ltb (m_line p) (pfirst_line ss) end) in
  let p := loop ss p in
  if Nat.eqb (pslen ss) 1 && negb sep then mset_wn false p else p.

(* closing = 0 stands for Pos{} *)
Definition mnestedStmts_with (loop : pstmts -> mst -> mst) (ss : pstmts) (closing : nat) (p : mst) : mst :=
  let p := incLevel p in
  let p :=
    if Nat.ltb 1 (pslen ss) then mset_wn true p
    else if Nat.ltb (m_line p) closing && Nat.ltb 0 (pslen ss) && Nat.ltb (plast_end ss) closing
    then mset_wn true p
    else p in
  let p := mstmtList_with loop ss p in
  decLevel p.

Definition pstarts_lparen (s : pstmt) : bool := starts_lparen (erase_stmt s).
Definition pends_rparen (s : pstmt) : bool := ends_rparen (erase_stmt s).
Definition is_pbinary (c : pcmd) : bool := match c with PBinary _ _ _ _ => true | _ => false end.

Fixpoint ml_command (ind : nat) (bnl : bool) (c : pcmd) (p : mst) {struct c} : mst :=
  let p := advanceLine (pcmd_line c) p in
  let p := mspacePad p in
  match c with
  | PCall _ args => mwordJoin args p
  | PBlock _ ss rb =>
      let p := mwr s_lbrace p in
      let p := mset_semi true p in
      let p := mset_ws SpRequired p in
      let p := mnestedStmts_with (ml_stmtLoop ind bnl) ss rb p in
      msemiRsrv ind s_rbrace rb p
  | PSubshell lp ss rp =>
      let p := mwr s_lparen p in
      let p :=
        match ss with
        | PNil => mset_ws SpRequired p
        | PCons s0 _ =>
            if pstarts_lparen s0 then
              if negb (Nat.eqb lp (pstmt_line s0)) || Nat.ltb 1 (pslen ss)
              then mset_ws SpNotRequired p else mset_ws SpRequired p
            else mset_ws SpNotRequired p
        end in
      let p := mspacePad p in
      let p := mnestedStmts_with (ml_stmtLoop ind bnl) ss rp p in
      (* closingParen *)
      let p := mset_ws SpNotRequired p in
      let p :=
        match ss with
        | PCons s0 PNil => if pends_rparen s0 && Nat.eqb lp rp then mset_ws SpRequired p else p
        | _ => p
        end in
      let p := mspacePad p in
      (* rightParen *)
      let p := mnewlines ind rp p in
      mset_ws SpRequired (mwr s_rparen p)
  | PIf _ cond thenl thn els =>
      let p := mspacedString kw_if p in
      let p := mnestedStmts_with (ml_stmtLoop ind bnl) cond 0 p in
      let p := msemiOrNewl ind kw_then thenl p in
      let p := mnestedStmts_with (ml_stmtLoop ind bnl) thn (pelse_line els) p in
      ml_else ind bnl els p
  | PWhile until _ cond dol body donel =>
      let p := mspacedString (if until then kw_until else kw_while) p in
      let p := mnestedStmts_with (ml_stmtLoop ind bnl) cond 0 p in
      let p := msemiOrNewl ind kw_do dol p in
      let p := mnestedStmts_with (ml_stmtLoop ind bnl) body donel p in
      msemiRsrv ind kw_done donel p
  | PBinary op x opl y =>
      let p := ml_stmt ind bnl x p in
      if Nat.leb (pstmt_line y) (m_line p) then
        let p := mspacedString (op_string op) p in       (* spacedToken *)
        let p := advanceLine (pstmt_line y) p in
        ml_stmt ind bnl y p
      else
        let indent := negb (m_nb p) in
        let p := if indent then incLevel p else p in
        let p :=
          if bnl then
            let p := bslashNewl ind p in
            mspacedString (op_string op) p
          else
            let p := mspacedString (op_string op) p in
            let p := advanceLine opl p in
            mindent ind (mnewline 0 p) in
        let p := advanceLine (pstmt_line y) p in
        let p := mset_nb (is_pbinary (pstmt_cmd y)) p in
        let p := ml_stmt ind bnl y p in
        let p := if indent then decLevel p else p in
        mset_nb false p
  end

with ml_else (ind : nat) (bnl : bool) (e : pelse) (p : mst) {struct e} : mst :=
  match e with
  | PNoElse fil => msemiRsrv ind kw_fi fil p
  | PElif l cond thenl thn els =>
      let p := msemiRsrv ind kw_elif l p in
      let p := mnestedStmts_with (ml_stmtLoop ind bnl) cond 0 p in
      let p := msemiOrNewl ind kw_then thenl p in
      let p := mnestedStmts_with (ml_stmtLoop ind bnl) thn (pelse_line els) p in
      ml_else ind bnl els p
  | PElse l thn fil =>
      let p := msemiRsrv ind kw_else l p in
      let p := mnestedStmts_with (ml_stmtLoop ind bnl) thn fil p in
      msemiRsrv ind kw_fi fil p
  end

with ml_stmt (ind : nat) (bnl : bool) (s : pstmt) (p : mst) {struct s} : mst :=
  match s with
  | PStmt _ neg c bg _ =>
      let p := mset_semi false p in
      let p := if neg then mspacedString s_bang p else p in
      let p := ml_command ind bnl c p in
      let p := incLevel p in
      let p := mset_semi false p in
      let p :=
        if bg then mset_ws SpRequired (mset_semi true (mwr s_amp (mspace p))) else p in
      decLevel p
  end

with ml_stmtLoop (ind : nat) (bnl : bool) (ss : pstmts) (p : mst) {struct ss} : mst :=
  match ss with
  | PNil => p
  | PCons s rest =>
      let p := mnewlines ind (pstmt_line s) p in
      let p := advanceLine (pstmt_line s) p in
      let p := ml_stmt ind bnl s p in
      let p := mset_wn true p in
      ml_stmtLoop ind bnl rest p
  end.

Definition init_mst : mst := mkM [] SpWritten false false true O O O [] false.

(* Print(File) *)
Definition ml_print_pfile (ind : nat) (bnl : bool) (t : pfile) : str :=
  m_out (mnewline 0 (mstmtList_with (ml_stmtLoop ind bnl) t init_mst)).

(* the default printer on a tree without positions: canonical positions *)
Definition ml_print_file (ind : nat) (bnl : bool) (t : file) : str :=
  ml_print_pfile ind bnl (canon_file t).
