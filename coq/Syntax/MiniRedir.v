(* Syntax/MiniRedir.v — MiniSh level S+ : simple commands with assignments and redirections
     Stmt{Cmd: CallExpr{Assigns, Args}, Redirs}  with  Assign{Name, Value} (scalar `x=w`, no append,
     no index, no array) and Redirect{N, Op, Word} for Op in  >  >>  <  >&  with an optional fd literal.
   NOT yet integrated into the statement induction of MiniAst.v (a new cmd constructor would add one
   case to every mutual proof): this file models ONE simple command, the code leg exercises it inside
   one-statement files, and Proofs/MiniRedirProofs.v proves what is proved about it.
   x_command : transliteration of Printer.command (CallExpr) + Printer.assigns + Printer.stmtRedirs
     (option SpaceRedirects) when everything is on one line and every redirection follows the words
     (printRedirsUntil prints a redirection earlier only if its source position precedes the first
     or second word: the canonical layout puts them last, the exporter rejects other trees); the
     incLevel/decLevel pairs of assigns and stmt write nothing on one line.
   p_xcall : callExpr's loop with getAssign (`name=` split off the first literal, the rest of the
     word is the value) and doRedirect (operator, then a word), on bytes.
   NO PROOFS in this file. *)
From Verif Require Import Base.Str Syntax.Word Syntax.MiniAst Syntax.MiniPrinter Syntax.MiniParser.
Open Scope N_scope.

Inductive rop := RdrOut | AppOut | RdrIn | DplOut.
Definition rop_string (op : rop) : str :=
  match op with RdrOut => [62] | AppOut => [62;62] | RdrIn => [60] | DplOut => [62;38] end.
Definition is_dpl (op : rop) : bool := match op with DplOut => true | _ => false end.

Record redir := mkR { r_n : str; r_op : rop; r_word : word }.
Record assign := mkA { a_name : str; a_value : word }.     (* a_value = [] : Value == nil *)
Record xcall := mkX { x_assigns : list assign; x_args : list word; x_redirs : list redir }.

(* ------------------------------------------------------------------ printer *)
(* Printer.assigns *)
Fixpoint x_assigns_p (l : list assign) (p : pst) : pst :=
  match l with
  | [] => p
  | a :: rest =>
      let p := spacePad p in
      let p := wr (a_name a) p in
      let p := wr [61] p in
      let p := match a_value a with
               | [] => p
               | v => set_ws SpRequired (wr (print_word false v) p)      (* p.word(a.Value) *)
               end in
      x_assigns_p rest (set_ws SpRequired p)
  end.

(* Printer.stmtRedirs *)
Fixpoint x_redirs_p (sr : bool) (l : list redir) (p : pst) : pst :=
  match l with
  | [] => p
  | r :: rest =>
      let p := if is_required (wantSpace p) then spacePad p else p in
      let p := wr (r_n r) p in
      let p := wr (rop_string (r_op r)) p in
      let p := if sr && negb (is_dpl (r_op r)) then space p else set_ws SpRequired p in
      let p := set_ws SpRequired (wr (print_word false (r_word r)) p) in
      x_redirs_p sr rest p
  end.

Definition x_command (sr : bool) (x : xcall) (p : pst) : pst :=
  let p := spacePad p in
  let p := x_assigns_p (x_assigns x) p in
  let p := sl_wordJoin (x_args x) p in
  x_redirs_p sr (x_redirs x) p.

(* a file holding this one statement: stmtList, stmt, newline *)
Definition x_print_file (sr : bool) (x : xcall) : str :=
  out (newline (x_command sr x (set_first false init_pst))).

(* ------------------------------------------------------------------ parser *)
Inductive xtok := XTok (t : tok) | XRedir (n : str) (op : rop).

Fixpoint span_digits (s acc : str) : str * str :=
  match s with
  | c :: t => if is_digit c then span_digits t (c :: acc) else (rev acc, s)
  | [] => (rev acc, [])
  end.

(* the operator at the head of s (after an optional fd); None = not one of > >> < >& *)
Definition redir_op (s : str) : option (rop * str) :=
  match s with
  | 62 :: t =>
      match t with
      | 62 :: t' => Some (AppOut, t')
      | 38 :: t' => Some (DplOut, t')
      | 124 :: _ | 40 :: _ => None                 (* >| clobber, >( process substitution *)
      | _ => Some (RdrOut, t)
      end
  | 60 :: t =>
      match t with
      | 60 :: _ | 38 :: _ | 62 :: _ | 40 :: _ => None     (* << <& <> <( *)
      | _ => Some (RdrIn, t)
      end
  | _ => None
  end.

(* a word / operator token of the statement level if there is one; otherwise (next_token refuses
   a leading < or > and a literal directly followed by < or >) a redirection operator with its
   optional fd literal (the lexer's _LitRedir: digits directly followed by < or >) *)
Definition next_xtoken (s : str) : option (xtok * str) :=
  match next_token s with
  | Some (t, r) => Some (XTok t, r)
  | None =>
      let '(ds, r) := span_digits (skip_blanks s) [] in
      match redir_op r with
      | Some (op, r') => Some (XRedir ds op, r')
      | None => None
      end
  end.

(* getAssign on a word whose first literal is name=... *)
Definition split_assign (w : word) : option assign :=
  match w with
  | Lit v :: rest =>
      match cut_byte 61 v with
      | Some (name, after) =>
          if valid_name name
          then Some (mkA name (match after with [] => rest | _ => Lit after :: rest end))
          else None                                  (* a+=b, a[i]=b: outside *)
      | None => None
      end
  | _ => None
  end.

Definition x_cons_assign (a : assign) (x : xcall) : xcall := mkX (a :: x_assigns x) (x_args x) (x_redirs x).
Definition x_cons_arg (w : word) (x : xcall) : xcall := mkX (x_assigns x) (w :: x_args x) (x_redirs x).
Definition x_cons_redir (r : redir) (x : xcall) : xcall := mkX (x_assigns x) (x_args x) (r :: x_redirs x).

(* callExpr's loop; seen = len(ce.Args) > 0 *)
Fixpoint p_xcall (fuel : nat) (insub seen : bool) (s : str) : option (xcall * str) :=
  match fuel with
  | O => None
  | S fuel =>
      match next_xtoken s with
      | Some (XTok (TWord w), s1) =>
          if negb seen && word_assign w then
            match split_assign w with
            | Some a =>
                match p_xcall fuel insub false s1 with
                | Some (x, r) => Some (x_cons_assign a x, r)
                | None => None
                end
            | None => None
            end
          else
            match p_xcall fuel insub true s1 with
            | Some (x, r) => Some (x_cons_arg w x, r)
            | None => None
            end
      | Some (XRedir n op, s1) =>
          match next_xtoken s1 with
          | Some (XTok (TWord w), s2) =>
              match p_xcall fuel insub seen s2 with
              | Some (x, r) => Some (x_cons_redir (mkR n op w) x, r)
              | None => None
              end
          | _ => None
          end
      | Some (XTok TLparen, _) => None
      | Some (XTok TRparen, _) => if insub then Some (mkX [] [] [], s) else None
      | Some (XTok _, _) => Some (mkX [] [] [], s)
      | None => None
      end
  end.

(* a one-statement file: the simple command, a newline, end of input *)
Definition parse_xfile (s : str) : option xcall :=
  match p_xcall (S (length s)) false false s with
  | Some (x, r) =>
      match x_assigns x, x_args x, x_redirs x with
      | [], [], [] => None
      | _, _, _ =>
          match next_token r with
          | Some (TNewl, r') => match next_token r' with Some (TEOF, _) => Some x | _ => None end
          | Some (TEOF, _) => Some x
          | _ => None
          end
      end
  | None => None
  end.
