(* Syntax/Word.v — MiniSh level W: words made of Lit, SglQuoted{Dollar},
   DblQuoted{Dollar; parts}, and simple ParamExp ($x / ${x}).

   print_word  : transliteration of Printer.wordParts / wordPart / dblQuoted / paramExp
                 (syntax/printer.go) restricted to these part kinds, including
                   - the doubling of an odd trailing backslash of a Lit, and
                   - the Minify rule ${x} -> $x guarded by ValidName(name+next).
   lex_word    : byte-level model of what the lexer/parser (syntax/lexer.go,
                 Parser.wordPart, Parser.paramExp, LangBash) does on the same part
                 kinds: maximal literal runs with backslash escapes, '...', $'...',
                 "..." with nested literals and parameter expansions, $name, $1, $@,
                 ${name}.  Anything else (backquotes, $( , $[ , a lone $, ...) is
                 outside the fragment: lex_word answers None.
   norm_word   : C01's "ignoring" clause on this fragment.
   NO PROOFS in this file. *)
From Verif Require Import Base.Str.
Open Scope N_scope.

Definition BS : N := 92.   (* \ *)
Definition SQ : N := 39.   (* ' *)
Definition DQ : N := 34.   (* double quote *)
Definition DOL : N := 36.  (* $ *)
Definition LBRACE : N := 123.
Definition RBRACE : N := 125.
Definition NL : N := 10.
Definition BQ : N := 96.   (* ` *)
Definition SEMI : N := 59.

Definition is_lower (c : N) : bool := (97 <=? c) && (c <=? 122).
Definition is_upper (c : N) : bool := (65 <=? c) && (c <=? 90).
Definition is_digit (c : N) : bool := (48 <=? c) && (c <=? 57).
(* asciiLetter(r) || r == '_' *)
Definition name_start (c : N) : bool := is_lower c || is_upper c || (c =? 95).
(* paramNameRune *)
Definition name_char (c : N) : bool := name_start c || is_digit c.

(* syntax.ValidName *)
Definition valid_name (s : str) : bool :=
  match s with
  | [] => false
  | c :: t => name_start c && forallb name_char t
  end.

(* singleRuneParam: @ * # $ ? ! - and the digits *)
Definition special_param (c : N) : bool :=
  (c =? 64) || (c =? 42) || (c =? 35) || (c =? 36) || (c =? 63) || (c =? 33) || (c =? 45).
Definition single_param (c : N) : bool := special_param c || is_digit c.

(* bytes that end a word (the delimiters the theorem quantifies over are a subset) *)
Definition word_break (c : N) : bool :=
  (c =? 32) || (c =? 9) || (c =? 10) || (c =? 59) || (c =? 38) || (c =? 124)
  || (c =? 40) || (c =? 41) || (c =? 60) || (c =? 62).

(* bytes that end an unquoted literal run *)
Definition lit_stop (c : N) : bool :=
  word_break c || (c =? DQ) || (c =? SQ) || (c =? DOL) || (c =? BQ).

(* ------------------------------------------------------------------ AST *)
Inductive qpart :=
| QLit (v : str)
| QParam (short : bool) (name : str).

Inductive part :=
| Lit (v : str)
| Sgl (dollar : bool) (v : str)
| Dbl (dollar : bool) (ps : list qpart)
| Param (short : bool) (name : str).

Definition word := list part.

(* ------------------------------------------------------------------ printer *)

(* number of trailing backslashes is odd:
   n := len(v) - len(strings.TrimRight(v, `\`)); n%2 == 1 *)
Fixpoint trailing_bs (rv : str) : nat :=   (* on the reversed value *)
  match rv with
  | c :: t => if c =? BS then S (trailing_bs t) else O
  | [] => O
  end.
Definition odd_trailing_bs (v : str) : bool := Nat.odd (trailing_bs (rev v)).

Definition print_lit (v : str) : str := if odd_trailing_bs v then v ++ [BS] else v.

(* the Minify decision of Printer.wordPart for a simple long ${name}:
     case len(name) > 1 && !ValidName(name):   keep ${10}
     case ValidName(name + litCont):           keep ${var}cont
     case litCont == "[":                      keep ${var}[index]  (zsh would index $var[..])
     default:                                  print $name
   litCont is the first byte of the next part when that is a non-empty Lit, else ';' *)
Definition minify_shortens (name : str) (lit_cont : N) : bool :=
  if (Nat.ltb 1 (length name)) && negb (valid_name name) then false
  else if valid_name (name ++ [lit_cont]) then false
  else if lit_cont =? 91 then false
  else true.

Definition print_param (short : bool) (name : str) : str :=
  if short then DOL :: name else DOL :: LBRACE :: name ++ [RBRACE].

Definition eff_short (minify short : bool) (name : str) (lit_cont : N) : bool :=
  if short then true else if minify then minify_shortens name lit_cont else false.

Definition qlit_cont (next : list qpart) : N :=
  match next with
  | QLit (c :: _) :: _ => c
  | _ => SEMI
  end.

Fixpoint print_qparts (minify : bool) (ps : list qpart) : str :=
  match ps with
  | [] => []
  | QLit v :: rest => print_lit v ++ print_qparts minify rest
  | QParam short name :: rest =>
      print_param (eff_short minify short name (qlit_cont rest)) name ++ print_qparts minify rest
  end.

Definition lit_cont (next : list part) : N :=
  match next with
  | Lit (c :: _) :: _ => c
  | _ => SEMI
  end.

Fixpoint print_word (minify : bool) (w : word) : str :=
  match w with
  | [] => []
  | Lit v :: rest => print_lit v ++ print_word minify rest
  | Sgl dollar v :: rest =>
      (if dollar then [DOL] else []) ++ SQ :: v ++ SQ :: print_word minify rest
  | Dbl dollar ps :: rest =>
      (if dollar then [DOL] else []) ++ DQ :: print_qparts minify ps ++ DQ :: print_word minify rest
  | Param short name :: rest =>
      print_param (eff_short minify short name (lit_cont rest)) name ++ print_word minify rest
  end.

(* ------------------------------------------------------------------ norm *)
Definition norm_lit (v : str) : str := print_lit v.  (* doubled trailing backslash *)

Fixpoint norm_qparts (minify : bool) (ps : list qpart) : list qpart :=
  match ps with
  | [] => []
  | QLit v :: rest => QLit (norm_lit v) :: norm_qparts minify rest
  | QParam short name :: rest =>
      QParam (eff_short minify short name (qlit_cont rest)) name :: norm_qparts minify rest
  end.

Fixpoint norm_word (minify : bool) (w : word) : word :=
  match w with
  | [] => []
  | Lit v :: rest => Lit (norm_lit v) :: norm_word minify rest
  | Sgl d v :: rest => Sgl d v :: norm_word minify rest
  | Dbl d ps :: rest => Dbl d (norm_qparts minify ps) :: norm_word minify rest
  | Param short name :: rest =>
      Param (eff_short minify short name (lit_cont rest)) name :: norm_word minify rest
  end.

(* ------------------------------------------------------------------ lexer *)

(* '...' : up to the next single quote *)
Fixpoint lex_sgl (s acc : str) : option (str * str) :=
  match s with
  | [] => None
  | c :: t => if c =? SQ then Some (rev acc, t) else lex_sgl t (c :: acc)
  end.

(* $'...' : a backslash takes the next byte with it *)
Fixpoint lex_dsgl (s acc : str) : option (str * str) :=
  match s with
  | [] => None
  | c :: t =>
      if c =? SQ then Some (rev acc, t)
      else if c =? BS then
        match t with
        | [] => None
        | d :: t' => lex_dsgl t' (d :: c :: acc)
        end
      else lex_dsgl t (c :: acc)
  end.

(* maximal run of name bytes *)
Fixpoint lex_name (s acc : str) : str * str :=
  match s with
  | c :: t => if name_char c then lex_name t (c :: acc) else (rev acc, s)
  | [] => (rev acc, [])
  end.

(* up to '}' *)
Fixpoint lex_until_rbrace (s acc : str) : option (str * str) :=
  match s with
  | [] => None
  | c :: t => if c =? RBRACE then Some (rev acc, t) else lex_until_rbrace t (c :: acc)
  end.

Definition all_digits (s : str) : bool :=
  match s with [] => false | _ => forallb is_digit s end.

(* names accepted inside ${...} in this fragment *)
Definition long_name_ok (n : str) : bool :=
  valid_name n || all_digits n ||
  match n with [c] => special_param c | _ => false end.

(* after a '$' (already consumed): short or long parameter; None = outside the fragment *)
Definition lex_dollar_param (s : str) : option (bool * str * str) :=
  match s with
  | [] => None
  | c :: t =>
      if c =? LBRACE then
        match lex_until_rbrace t [] with
        | Some (n, rest) => if long_name_ok n then Some (false, n, rest) else None
        | None => None
        end
      else if single_param c then Some (true, [c], t)
      else if name_start c then
        let '(n, rest) := lex_name s [] in Some (true, n, rest)
      else None
  end.

(* unquoted literal run: a backslash takes the next byte with it (backslash-newline
   is a line continuation and is dropped); a lone backslash at the end of input is kept *)
Fixpoint lex_lit (s acc : str) : str * str :=
  match s with
  | [] => (rev acc, [])
  | c :: t =>
      if c =? BS then
        match t with
        | [] => (rev (c :: acc), [])
        | d :: t' => if d =? NL then lex_lit t' acc else lex_lit t' (d :: c :: acc)
        end
      else if lit_stop c then (rev acc, s)
      else lex_lit t (c :: acc)
  end.

(* literal run inside double quotes: stops at the closing quote, $ and backquote; a backslash takes the next byte *)
Fixpoint lex_qlit (s acc : str) : str * str :=
  match s with
  | [] => (rev acc, [])
  | c :: t =>
      if c =? BS then
        match t with
        | [] => (rev (c :: acc), [])
        | d :: t' => if d =? NL then lex_qlit t' acc else lex_qlit t' (d :: c :: acc)
        end
      else if (c =? DQ) || (c =? DOL) || (c =? BQ) then (rev acc, s)
      else lex_qlit t (c :: acc)
  end.

(* inside double quotes, up to the closing quote *)
Fixpoint lex_dq (fuel : nat) (s : str) : option (list qpart * str) :=
  match fuel with
  | O => None
  | S fuel =>
      match s with
      | [] => None
      | c :: t =>
          if c =? DQ then Some ([], t)
          else if c =? DOL then
            match lex_dollar_param t with
            | Some (short, n, rest) =>
                match lex_dq fuel rest with
                | Some (ps, r) => Some (QParam short n :: ps, r)
                | None => None
                end
            | None => None
            end
          else if c =? BQ then None
          else
            let '(v, rest) := lex_qlit s [] in
            match v with
            | [] => None
            | _ => match lex_dq fuel rest with
                   | Some (ps, r) => Some (QLit v :: ps, r)
                   | None => None
                   end
            end
      end
  end.

Fixpoint lex_parts (fuel : nat) (s : str) : option (word * str) :=
  match fuel with
  | O => None
  | S fuel =>
      match s with
      | [] => Some ([], [])
      | c :: t =>
          if word_break c then Some ([], s)
          else if c =? SQ then
            match lex_sgl t [] with
            | Some (v, rest) =>
                match lex_parts fuel rest with
                | Some (ps, r) => Some (Sgl false v :: ps, r)
                | None => None
                end
            | None => None
            end
          else if c =? DQ then
            match lex_dq (S (length t)) t with
            | Some (qs, rest) =>
                match lex_parts fuel rest with
                | Some (ps, r) => Some (Dbl false qs :: ps, r)
                | None => None
                end
            | None => None
            end
          else if c =? DOL then
            match t with
            | d :: t' =>
                if d =? SQ then
                  match lex_dsgl t' [] with
                  | Some (v, rest) =>
                      match lex_parts fuel rest with
                      | Some (ps, r) => Some (Sgl true v :: ps, r)
                      | None => None
                      end
                  | None => None
                  end
                else if d =? DQ then
                  match lex_dq (S (length t')) t' with
                  | Some (qs, rest) =>
                      match lex_parts fuel rest with
                      | Some (ps, r) => Some (Dbl true qs :: ps, r)
                      | None => None
                      end
                  | None => None
                  end
                else
                  match lex_dollar_param t with
                  | Some (short, n, rest) =>
                      match lex_parts fuel rest with
                      | Some (ps, r) => Some (Param short n :: ps, r)
                      | None => None
                      end
                  | None => None
                  end
            | [] => None
            end
          else if c =? BQ then None
          else
            let '(v, rest) := lex_lit s [] in
            match v with
            | [] => None
            | _ => match lex_parts fuel rest with
                   | Some (ps, r) => Some (Lit v :: ps, r)
                   | None => None
                   end
            end
      end
  end.

(* a '#' at the start of a word starts a comment: outside the fragment *)
Definition lex_word (s : str) : option (word * str) :=
  match s with
  | c :: _ => if c =? 35 then None else lex_parts (S (length s)) s
  | [] => lex_parts 1 s
  end.

Definition not_comment_start (w : word) : Prop :=
  match w with
  | Lit (c :: _) :: _ => c <> 35
  | _ => True
  end.

(* ------------------------------------------------------------------ well-formedness
   "Lit values are what the lexer can produce" (within the fragment). *)

(* unquoted literal bytes: no metacharacter unless backslash-escaped *)
Inductive wf_lit_body : str -> Prop :=
| wfl_nil : wf_lit_body []
| wfl_plain c v : lit_stop c = false -> c <> BS -> wf_lit_body v -> wf_lit_body (c :: v)
| wfl_esc d v : d <> NL -> wf_lit_body v -> wf_lit_body (BS :: d :: v).

(* literal bytes inside double quotes *)
Inductive wf_qlit : str -> Prop :=
| wfq_nil : wf_qlit []
| wfq_plain c v : c <> DQ -> c <> DOL -> c <> BQ -> c <> BS -> wf_qlit v -> wf_qlit (c :: v)
| wfq_esc d v : d <> NL -> wf_qlit v -> wf_qlit (BS :: d :: v).

(* $'...' bytes *)
Inductive wf_dsgl : str -> Prop :=
| wfd_nil : wf_dsgl []
| wfd_plain c v : c <> SQ -> c <> BS -> wf_dsgl v -> wf_dsgl (c :: v)
| wfd_esc d v : wf_dsgl v -> wf_dsgl (BS :: d :: v).

Definition no_sq (v : str) : Prop := forallb (fun c => negb (c =? SQ)) v = true.

(* parameter names *)
Definition short_name_ok (n : str) : bool :=
  valid_name n || match n with [c] => single_param c | _ => false end.

Definition wf_param (short : bool) (n : str) : Prop :=
  if short then short_name_ok n = true
  else long_name_ok n = true /\ forallb (fun c => negb (c =? RBRACE)) n = true.

(* first byte of the next part must not extend a short $name *)
Definition qnext_ok (short : bool) (n : str) (next : list qpart) : Prop :=
  match next with
  | QLit (c :: _) :: _ => short = true -> valid_name n = true -> name_char c = false
  | _ => True
  end.

Inductive wf_qparts : list qpart -> Prop :=
| wfqs_nil : wf_qparts []
| wfqs_lit v rest : v <> [] -> wf_qlit v ->
    (match rest with QLit _ :: _ => False | _ => True end) ->
    wf_qparts rest -> wf_qparts (QLit v :: rest)
| wfqs_param short n rest : wf_param short n -> qnext_ok short n rest ->
    wf_qparts rest -> wf_qparts (QParam short n :: rest).

Definition next_ok (short : bool) (n : str) (next : word) : Prop :=
  match next with
  | Lit (c :: _) :: _ => short = true -> valid_name n = true -> name_char c = false
  | _ => True
  end.

(* a literal that continues a word after a quoted part or an expansion must not start
   with '#': the real lexer then reads past a following ')' (observed: `(x 'a'#b)` does
   not parse), which this byte-level model does not reproduce; such words are excluded *)
Definition hash_ok (next : word) : Prop :=
  match next with
  | Lit (c :: _) :: _ => c <> 35
  | _ => True
  end.

(* a Lit may end in a lone backslash only at the very end of the word
   (the lexer yields that only for a backslash at the end of the input) *)
Inductive wf_word : word -> Prop :=
| wfw_nil : wf_word []
| wfw_lit v rest : v <> [] -> wf_lit_body v ->
    (match rest with Lit _ :: _ => False | _ => True end) ->
    wf_word rest -> wf_word (Lit v :: rest)
| wfw_lit_lone v : wf_lit_body v -> wf_word [Lit (v ++ [BS])]
| wfw_sgl v rest : no_sq v -> hash_ok rest -> wf_word rest -> wf_word (Sgl false v :: rest)
| wfw_dsgl v rest : wf_dsgl v -> hash_ok rest -> wf_word rest -> wf_word (Sgl true v :: rest)
| wfw_dbl d ps rest : wf_qparts ps -> hash_ok rest -> wf_word rest -> wf_word (Dbl d ps :: rest)
| wfw_param short n rest : wf_param short n -> next_ok short n rest -> hash_ok rest ->
    wf_word rest -> wf_word (Param short n :: rest).

(* delimiters the round-trip theorem quantifies over: blank, tab, newline, ; & | )
   ( '(' would start an extended glob after ?*+@! and '<' '>' turn digits into a
   redirection's file descriptor: these interact with the word and are excluded ) *)
Definition word_delim (c : N) : bool :=
  (c =? 32) || (c =? 9) || (c =? 10) || (c =? 59) || (c =? 38) || (c =? 124) || (c =? 41).
