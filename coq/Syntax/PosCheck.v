(* Syntax/PosCheck.v — a small node fragment of syntax/nodes.go with its transliterated Pos()/End(),
   the Coq twin of the Go position checker (harness/cmd/c09) on that fragment, and the declarative
   specification of "source positions point at the source they describe" (C09).
   Fragment: File > Stmt (optional Semicolon ';' or '&', Cmd = CallExpr without assignments or
   redirections) > CallExpr.Args > Word with exactly one part > Lit | SglQuoted (not $'').
   All positions in the fragment are valid and below the Pos limits, so a position is the triple
   (offset, line, column) and posAddCol adds to offset and column (C09_posAddCol).
   NO PROOFS in this file. *)
From Verif Require Import Base.Str Syntax.Pos Syntax.Reader.
Open Scope N_scope.

Definition tpos := (nat * Z * Z)%type.
Definition p_off (p : tpos) : nat := fst (fst p).
Definition add_col (p : tpos) (n : nat) : tpos :=
  let '(o, l, c) := p in ((o + n)%nat, l, (c + Z.of_nat n)%Z).

Record lit := mklit { l_pos : tpos; l_end : tpos; l_val : str }.          (* Lit{ValuePos, ValueEnd, Value} *)
Record sgl := mksgl { q_left : tpos; q_right : tpos; q_val : str }.      (* SglQuoted{Left, Right, Value} *)
Inductive part := PLit (l : lit) | PSgl (q : sgl).                        (* Word{Parts: [one part]} *)
Record stmt := mkstmt { s_pos : tpos; s_args : list part; s_semi : option tpos }.
Definition file := list stmt.

(* ---- transliterated Pos()/End() --------------------------------------------- *)
Definition part_pos (p : part) : tpos := match p with PLit l => l_pos l | PSgl q => q_left q end.
(* func (q *SglQuoted) End() Pos { return posAddCol(q.Right, 1) };  Lit.End = ValueEnd;
   Word.Pos/End = first part's Pos / last part's End *)
Definition part_end (p : part) : tpos := match p with PLit l => l_end l | PSgl q => add_col (q_right q) 1 end.
Definition zero_pos : tpos := (0%nat, 0%Z, 0%Z).                           (* Pos{} *)
(* CallExpr.Pos = Args[0].Pos, CallExpr.End = Args[len-1].End (no Assigns) *)
Definition call_pos (args : list part) : tpos := match args with a :: _ => part_pos a | [] => zero_pos end.
Definition call_end (args : list part) : tpos := match rev args with a :: _ => part_end a | [] => zero_pos end.
(* Stmt.Pos = Position; Stmt.End = posAddCol(Semicolon, 1) if valid, else Cmd.End *)
Definition stmt_pos (s : stmt) : tpos := s_pos s.
Definition stmt_end (s : stmt) : tpos :=
  match s_semi s with Some p => add_col p 1 | None => call_end (s_args s) end.
(* File.Pos = Stmts[0].Pos, File.End = Stmts[len-1].End (no trailing comments) *)
Definition file_pos (f : file) : tpos := match f with s :: _ => stmt_pos s | [] => zero_pos end.
Definition file_end (f : file) : tpos := match rev f with s :: _ => stmt_end s | [] => zero_pos end.

(* ---- the checker twin --------------------------------------------------------- *)
Fixpoint prefixb (want l : str) : bool :=
  match want, l with
  | [], _ => true
  | x :: want', y :: l' => (x =? y) && prefixb want' l'
  | _ :: _, [] => false
  end.
Definition text_atb (src : str) (off : nat) (want : str) : bool := prefixb want (skipn off src).

(* posOK: inside the input, line/col those of the offset *)
Definition pos_okb (src : str) (p : tpos) : bool :=
  let '(o, l, c) := p in
  Nat.leb o (length src) && let '(l', c') := linecol src o 1%Z 1%Z in (l =? l')%Z && (c =? c')%Z.
Definition leb_pos (a b : tpos) : bool := Nat.leb (p_off a) (p_off b).       (* !a.After(b) *)
Definition span_okb (src : str) (a b : tpos) : bool := pos_okb src a && pos_okb src b && leb_pos a b.

Definition QUOTE : N := 39.
Definition check_part (src : str) (p : part) : bool :=
  match p with
  | PLit l =>
      span_okb src (l_pos l) (l_end l) &&
      text_atb src (p_off (l_pos l)) (l_val l) &&
      Nat.eqb (p_off (l_end l)) (p_off (l_pos l) + length (l_val l))
  | PSgl q =>
      span_okb src (q_left q) (add_col (q_right q) 1) && pos_okb src (q_right q) &&
      text_atb src (p_off (q_left q)) (QUOTE :: q_val q ++ [QUOTE]) &&
      text_atb src (p_off (q_right q)) [QUOTE] &&
      Nat.eqb (p_off (q_right q)) (p_off (q_left q) + 1 + length (q_val q))
  end.

Definition withinb (ppos pend cpos cend : tpos) : bool := leb_pos ppos cpos && leb_pos cend pend.

Definition check_stmt (src : str) (s : stmt) : bool :=
  match s_args s with [] => false | _ => true end &&
  span_okb src (stmt_pos s) (stmt_end s) &&
  forallb (check_part src) (s_args s) &&
  (* Word within CallExpr, CallExpr within Stmt *)
  forallb (fun a => withinb (call_pos (s_args s)) (call_end (s_args s)) (part_pos a) (part_end a)) (s_args s) &&
  withinb (stmt_pos s) (stmt_end s) (call_pos (s_args s)) (call_end (s_args s)) &&
  match s_semi s with
  | None => true
  | Some p => pos_okb src p && (text_atb src (p_off p) [59] || text_atb src (p_off p) [38])   (* ";" or "&" *)
  end.

Fixpoint orderedb (f : file) : bool :=
  match f with
  | a :: (b :: _) as t => Nat.ltb (p_off (stmt_pos a)) (p_off (stmt_pos b)) && orderedb t
  | _ => true
  end.

Definition check_file (src : str) (f : file) : bool :=
  forallb (check_stmt src) f && orderedb f &&
  forallb (fun s => withinb (file_pos f) (file_end f) (stmt_pos s) (stmt_end s)) f.

(* ---- the declarative specification ---------------------------------------------- *)
(* the text txt stands in src at byte offset off *)
Definition at_text (src : str) (off : nat) (txt : str) : Prop :=
  exists pre post, src = pre ++ txt ++ post /\ length pre = off.
(* a position lies inside the input and its line and column are those of its offset *)
Definition PosOK (src : str) (p : tpos) : Prop :=
  (p_off p <= length src)%nat /\
  pos_of_offset src (p_off p) = (Z.of_nat (p_off p), snd (fst p), snd p).
Definition SpanOK (src : str) (a b : tpos) : Prop := PosOK src a /\ PosOK src b /\ (p_off a <= p_off b)%nat.
Definition Within (ppos pend cpos cend : tpos) : Prop :=
  (p_off ppos <= p_off cpos)%nat /\ (p_off cend <= p_off pend)%nat.

Definition PartSpec (src : str) (p : part) : Prop :=
  SpanOK src (part_pos p) (part_end p) /\
  match p with
  | PLit l => at_text src (p_off (l_pos l)) (l_val l) /\ p_off (l_end l) = (p_off (l_pos l) + length (l_val l))%nat
  | PSgl q => at_text src (p_off (q_left q)) (QUOTE :: q_val q ++ [QUOTE]) /\
              at_text src (p_off (q_right q)) [QUOTE] /\ PosOK src (q_right q) /\
              p_off (part_end p) = (p_off (q_left q) + length (q_val q) + 2)%nat
  end.

Definition StmtSpec (src : str) (s : stmt) : Prop :=
  s_args s <> [] /\
  SpanOK src (stmt_pos s) (stmt_end s) /\
  Forall (PartSpec src) (s_args s) /\
  Forall (fun a => Within (stmt_pos s) (stmt_end s) (part_pos a) (part_end a)) (s_args s) /\
  match s_semi s with
  | None => True
  | Some p => PosOK src p /\ (at_text src (p_off p) [59] \/ at_text src (p_off p) [38])
  end.

Fixpoint Ordered (f : file) : Prop :=
  match f with
  | a :: (b :: _) as t => (p_off (stmt_pos a) < p_off (stmt_pos b))%nat /\ Ordered t
  | _ => True
  end.

Definition FileSpec (src : str) (f : file) : Prop :=
  Forall (StmtSpec src) f /\ Ordered f /\
  Forall (fun s => Within (file_pos f) (file_end f) (stmt_pos s) (stmt_end s)) f.
