(* Syntax/Reader.v — model of the byte reader of syntax.Parser (lexer.go, parser.go):
   the fields src/bs/bsp/offs/line/col/r/w/readErr/readEOF/err, Parser.reset (those fields),
   fill, peek, peekAt, peekTwo, zshNumRange, rune and nextPos, driven by an io.Reader that
   hands out the input under a READ SCHEDULE.

   The io.Reader: [rd_src] are the bytes not yet delivered, [rd_sched] the number of bytes
   each successive Read call is willing to return (0 = a legal (0, nil) read; after the
   schedule is used up a Read returns everything that fits, like strings.Reader), [rd_eager]
   says whether the Read that delivers the last byte also returns io.EOF (like
   iotest.DataErrReader) or whether EOF comes with a later (0, io.EOF) read.
   Only io.EOF is modelled as a read error.

   Go things made explicit: the read buffer has [bufsz] bytes (const bufSize = 1024 in Go;
   a parameter here), Read into an empty slice returning (0, nil) forever is [Hang],
   an out-of-range index or negative slice bound is [GoPanic], exhausted fuel is [OutOfFuel]
   (the field [bad]; the theorems show it stays [Good]).

   Not modelled: p.litBs (literal accumulation), p.lastBquoteEsc, read errors other than EOF.
   p.openBquotes / p.openBquoteDbls are parser state the reader only reads: parameters
   [obq] [obqd] of rune.

   NO PROOFS in this file. *)
From Verif Require Import Base.Str Base.Utf8 Syntax.Pos.
Open Scope N_scope.

Definition runeEOF : N := 1114112.   (* utf8.MaxRune + 1 *)
Definition escNewl : N := 1114113.   (* utf8.MaxRune + 2 *)

(* utf8.FullRune *)
Definition full_rune (s : str) : bool :=
  match s with
  | [] => false
  | s0 :: t =>
      let size : nat :=
        if s0 <? 128 then 0%nat                       (* first[b] = as = 0xF0: x&7 = 0 *)
        else if in_range 194 223 s0 then 2%nat
        else if in_range 224 239 s0 then 3%nat
        else if in_range 240 244 s0 then 4%nat
        else 1%nat in                                 (* xx = 0xF1 *)
      if Nat.leb size (length s) then true
      else
        (* must be short or invalid *)
        let lo := if s0 =? 224 then 160 else if s0 =? 240 then 144 else 128 in
        let hi := if s0 =? 237 then 159 else if s0 =? 244 then 143 else 191 in
        match t with
        | s1 :: t' =>
            if (s1 <? lo) || (hi <? s1) then true
            else match t' with
                 | s2 :: _ => if (s2 <? 128) || (191 <? s2) then true else false
                 | [] => false
                 end
        | [] => false
        end
  end.

(* ---- the io.Reader under a schedule -------------------------------------- *)
Record reader := mkreader { rd_src : str; rd_sched : list nat; rd_eager : bool }.

(* one Read(buf) with len(buf) = cap: (bytes, err == io.EOF, reader afterwards) *)
Definition read_call (rd : reader) (cap : nat) : str * bool * reader :=
  match rd_src rd with
  | [] => ([], true, rd)
  | _ =>
      let want := match rd_sched rd with [] => length (rd_src rd) | k :: _ => k end in
      let n := Nat.min want (Nat.min cap (length (rd_src rd))) in
      let rest := skipn n (rd_src rd) in
      (firstn n (rd_src rd),
       rd_eager rd && Nat.ltb 0 n && match rest with [] => true | _ => false end,
       mkreader rest (tl (rd_sched rd)) (rd_eager rd))
  end.

Inductive badness := Good | Hang | GoPanic | OutOfFuel.

(* ---- parser state (reader part) ------------------------------------------ *)
Record st := mkst {
  rd : reader;
  bs : str; bsp : nat;
  offs : Z; line : Z; col : Z;
  r : N; w : Z;
  readErr : bool;                  (* p.readErr == io.EOF *)
  readEOF : bool;
  perr : option (Z * Z * Z);       (* p.err: raw position of the ParseError "invalid UTF-8 encoding" *)
  bad : badness
}.

(* Parser.reset + p.src = the reader *)
Definition init (rdr : reader) : st :=
  mkst rdr [] 0 0%Z 1%Z 1%Z 0 0%Z false false None Good.

Definition set_bad (s : st) (b : badness) : st :=
  mkst (rd s) (bs s) (bsp s) (offs s) (line s) (col s) (r s) (w s) (readErr s) (readEOF s) (perr s)
       (match bad s with Good => b | x => x end).
Definition set_bsp (s : st) (x : nat) : st :=
  mkst (rd s) (bs s) x (offs s) (line s) (col s) (r s) (w s) (readErr s) (readEOF s) (perr s) (bad s).
Definition set_col (s : st) (x : Z) : st :=
  mkst (rd s) (bs s) (bsp s) (offs s) (line s) x (r s) (w s) (readErr s) (readEOF s) (perr s) (bad s).
Definition set_line (s : st) (x : Z) : st :=
  mkst (rd s) (bs s) (bsp s) (offs s) x (col s) (r s) (w s) (readErr s) (readEOF s) (perr s) (bad s).
Definition set_rw (s : st) (r' : N) (w' : Z) : st :=
  mkst (rd s) (bs s) (bsp s) (offs s) (line s) (col s) r' w' (readErr s) (readEOF s) (perr s) (bad s).
Definition set_readEOF (s : st) (x : bool) : st :=
  mkst (rd s) (bs s) (bsp s) (offs s) (line s) (col s) (r s) (w s) (readErr s) x (perr s) (bad s).
Definition set_perr (s : st) (x : option (Z * Z * Z)) : st :=
  mkst (rd s) (bs s) (bsp s) (offs s) (line s) (col s) (r s) (w s) (readErr s) (readEOF s) x (bad s).

(* nextPos before saturation: (offs + bsp - w, line, col) *)
Definition raw_pos (s : st) : Z * Z * Z :=
  ((offs s + Z.of_nat (bsp s) - w s)%Z, line s, col s).

(* fill's readAgain loop: Read until n > 0 or an error.  Every (0, nil) read uses up one
   schedule entry; with the schedule used up a read returns > 0 bytes unless cap = 0,
   in which case Go reads (0, nil) forever: None. *)
Fixpoint read_again (fuel : nat) (rdr : reader) (cap : nat) : option (str * bool * reader) :=
  let '(got, eof, rdr') := read_call rdr cap in
  match got with
  | _ :: _ => Some (got, eof, rdr')
  | [] =>
      if eof then Some ([], true, rdr')
      else match fuel with
           | O => None
           | S f => read_again f rdr' cap
           end
  end.

(* func (p *Parser) fill() (n int) *)
Definition fill (bufsz : nat) (s : st) : st * nat :=
  if readEOF s || (r s =? runeEOF) then (s, 0%nat) else
  if Nat.ltb (length (bs s)) (bsp s) then (set_bad s GoPanic, 0%nat)   (* p.readBuf[:left], left < 0 *)
  else
  let leftb := skipn (bsp s) (bs s) in
  let offs' := (offs s + Z.of_nat (bsp s))%Z in
  if readErr s then
    (* n, err := 0, p.readErr *)
    (mkst (rd s) leftb 0 offs' (line s) (col s) (r s) (w s) true (readEOF s) (perr s) (bad s), 0%nat)
  else
    match read_again (length (rd_sched (rd s))) (rd s) (bufsz - length leftb) with
    | None => (set_bad s Hang, 0%nat)
    | Some (got, eof, rdr') =>
        (mkst rdr' (leftb ++ got) 0 offs' (line s) (col s) (r s) (w s) eof eof (perr s) (bad s),
         length got)
    end.

Definition RuneSelfB : N := 128.

(* func (p *Parser) peek() byte *)
Definition peek (bufsz : nat) (s : st) : st * N :=
  let s1 := if Nat.leb (length (bs s)) (bsp s) then fst (fill bufsz s) else s in
  (s1, match nth_error (bs s1) (bsp s1) with Some b => b | None => RuneSelfB end).

(* the loop `for cond { if fill() == 0 { break } }` with cond = "byte bsp+i is not in the buffer":
   returns the state and whether the loop ended because the byte is there *)
Fixpoint ensure (fuel : nat) (bufsz : nat) (i : nat) (s : st) : st * bool :=
  if Nat.ltb (bsp s + i) (length (bs s)) then (s, true) else
  match fuel with
  | O => (set_bad s OutOfFuel, false)
  | S f => let '(s1, n) := fill bufsz s in
           if Nat.eqb n 0 then (s1, false) else ensure f bufsz i s1
  end.

(* func (p *Parser) peekAt(i int) byte *)
Definition peekAt (bufsz : nat) (i : nat) (s : st) : st * N :=
  if Nat.ltb (bsp s + i) (length (bs s)) then (s, nth (bsp s + i) (bs s) 0)
  else if Nat.leb bufsz i then (s, RuneSelfB)
  else
    let '(s1, ok) := ensure (S i) bufsz i s in
    (s1, if ok then nth (bsp s1 + i) (bs s1) 0 else RuneSelfB).

(* func (p *Parser) peekTwo() (byte, byte) *)
Definition peekTwo (bufsz : nat) (s : st) : st * N * N :=
  let '(s1, _) := ensure 2 bufsz 1 s in
  match nth_error (bs s1) (bsp s1), nth_error (bs s1) (bsp s1 + 1) with
  | None, _ => (s1, RuneSelfB, RuneSelfB)
  | Some a, None => (s1, a, RuneSelfB)
  | Some a, Some b => (s1, a, b)
  end.

Definition is_digit (b : N) : bool := (48 <=? b) && (b <=? 57).

(* `for asciiDigit(p.peekAt(i)) { i++ }` *)
Fixpoint skip_digits (fuel : nat) (bufsz : nat) (i : nat) (s : st) : st * nat :=
  match fuel with
  | O => (set_bad s OutOfFuel, i)
  | S f => let '(s1, b) := peekAt bufsz i s in
           if is_digit b then skip_digits f bufsz (S i) s1 else (s1, i)
  end.

(* func (p *Parser) zshNumRange() bool *)
Definition zshNumRange (bufsz : nat) (s : st) : st * bool :=
  let '(s1, i) := skip_digits (S bufsz) bufsz 0 s in
  let '(s2, b) := peekAt bufsz i s1 in
  if negb (b =? 45) then (s2, false) else
  let '(s3, j) := skip_digits (S bufsz) bufsz (S i) s2 in
  let '(s4, c) := peekAt bufsz j s3 in
  (s4, c =? 62).

Definition bquoteEscaped (b : N) : bool := (b =? 36) || (b =? 96) || (b =? 92).

(* Parser.errPass as called from posErr in rune: first error wins *)
Definition err_pass (s : st) (p : Z * Z * Z) : st :=
  match perr s with
  | Some _ => s
  | None => set_rw (set_bsp (set_perr s (Some p)) (length (bs s) + 1)) runeEOF 1%Z
  end.

(* decodeRune: ... the non-ASCII branch of rune; fuel 4 (each retry has read >= 1 more byte
   of a rune of at most 4 bytes) *)
Fixpoint decode_loop (fuel : nat) (bufsz : nat) (s : st) : st :=
  let rest := skipn (bsp s) (bs s) in
  let '(rr, wd) := decode_rune rest in
  let s := set_rw s rr (w s) in                       (* p.r, w = utf8.DecodeRune(...) *)
  let again :=
    if (rr =? RuneError) && negb (full_rune rest) then
      let '(s1, n) := fill bufsz s in (s1, negb (Nat.eqb n 0))
    else (s, false) in
  let '(s1, retry) := again in
  if retry then
    match fuel with
    | O => set_bad s1 OutOfFuel
    | S f => decode_loop f bufsz s1
    end
  else
    let s2 := set_rw (set_bsp s1 (bsp s1 + wd)) (r s1) (Z.of_nat wd) in
    if (rr =? RuneError) && Nat.eqb wd 1 then err_pass s2 (raw_pos s2) else s2.

(* after a backslash that is not an escaped newline: p.readEOF = false and the
   backquote-escape test; true = "bquotes++; p.col++; goto retry" *)
Definition bs_tail (bufsz : nat) (obq obqd : nat) (bq : nat) (s : st) : st * bool :=
  let s := set_readEOF s false in
  if Nat.ltb 0 obq then
    let '(s, next) := peek bufsz s in
    if (Nat.ltb bq obq && bquoteEscaped next) || (Nat.ltb bq obqd && (next =? 34))
    then (set_col s (col s + 1), true)
    else (s, false)
  else (s, false).

(* the retry loop of rune; [bq] is the local variable bquotes.  Every retry has consumed
   at least one byte, so fuel = bytes left + 2 is enough. *)
Fixpoint rune_loop (fuel : nat) (bufsz : nat) (obq obqd : nat) (bq : nat) (s : st) : st :=
  match fuel with
  | O => set_bad s OutOfFuel
  | S fuel' =>
      let '(s, at_eof) :=
        if Nat.leb (length (bs s)) (bsp s)
        then let '(s1, n) := fill bufsz s in (s1, Nat.eqb n 0)
        else (s, false) in
      if at_eof then set_rw (set_bsp s (length (bs s) + 1)) runeEOF 1%Z
      else
      match nth_error (bs s) (bsp s) with
      | None => set_bad s GoPanic                              (* p.bs[p.bsp] out of range *)
      | Some b =>
          if b <? 128 then
            let s := set_bsp s (S (bsp s)) in
            if b =? 0 then rune_loop fuel' bufsz obq obqd bq (set_col s (col s + 1))
            else if b =? 13 then
              let '(s, p1) := peek bufsz s in
              if p1 =? 10 then rune_loop fuel' bufsz obq obqd bq (set_col s (col s + 1))
              else set_rw s b 1%Z
            else if b =? 92 then
              let '(s, esc) :=
                if r s =? 92 then (s, 0%nat)
                else
                  let '(s, p1) := peek bufsz s in
                  if p1 =? 10 then (s, 1%nat)
                  else
                    let '(s, q1, q2) := peekTwo bufsz s in
                    if (q1 =? 13) && (q2 =? 10) then (s, 2%nat) else (s, 0%nat) in
              match esc with
              | 1%nat => set_rw (set_bsp s (S (bsp s))) escNewl 2%Z
              | 2%nat => set_rw (set_bsp s (bsp s + 2)) escNewl 3%Z
              | _ =>
                  let '(s, again) := bs_tail bufsz obq obqd bq s in
                  if again then rune_loop fuel' bufsz obq obqd (S bq) s
                  else set_rw s b 1%Z
              end
            else set_rw s b 1%Z
          else decode_loop 4 bufsz s
      end
  end.

(* func (p *Parser) rune() rune — the result is the field r of the new state *)
Definition rune (bufsz : nat) (obq obqd : nat) (s : st) : st :=
  if r s =? runeEOF then s else
  let s := if (r s =? 10) || (r s =? escNewl)
           then set_col (set_line s (line s + 1)) 1%Z
           else set_col s (col s + w s) in
  rune_loop (length (rd_src (rd s)) + length (bs s) + 2) bufsz obq obqd 0 s.

(* ---- observable sequences -------------------------------------------------- *)
(* what a caller sees after rune(): the rune, its width and nextPos (raw).  After the error
   "invalid UTF-8 encoding" the parser stops (r = runeEOF) and hands out the error with its
   position; the position of the stop itself (end of the current buffer) is never handed out. *)
Inductive obs :=
| ORune (rn : N) (wd : Z) (p : Z * Z * Z)
| OErr (p : Z * Z * Z).
Definition observe (s : st) : obs :=
  match perr s with
  | Some e => OErr e
  | None => ORune (r s) (w s) (raw_pos s)
  end.

(* repeated rune() up to and including the first runeEOF *)
Fixpoint rune_stream (fuel : nat) (bufsz obq obqd : nat) (s : st) : list obs :=
  match fuel with
  | O => []
  | S f => let s' := rune bufsz obq obqd s in
           if r s' =? runeEOF then [observe s'] else observe s' :: rune_stream f bufsz obq obqd s'
  end.

Definition trace (bufsz obq obqd : nat) (input : str) (sched : list nat) (eager : bool) : list obs :=
  rune_stream (length input + 2) bufsz obq obqd (init (mkreader input sched eager)).

(* The unchunked reader of the Spec: one Read returns everything (that fits the buffer),
   EOF comes with a later read — strings.Reader / bytes.Reader. *)
Definition whole (input : str) : reader := mkreader input [] false.

(* ---- Spec for C07: the reader on the unchunked input --------------------------
   The same functions with no buffer and no Read calls at all: the state is the list of bytes
   not yet consumed plus the bookkeeping.  [a_off] is offs+bsp (the offset of the next unread
   byte), so nextPos is (a_off - a_w, a_line, a_col). *)
Record ast := mkast {
  a_rem : str; a_off : Z; a_line : Z; a_col : Z; a_r : N; a_w : Z; a_err : option (Z * Z * Z)
}.

Definition ahd (l : str) : N := match l with b :: _ => b | [] => RuneSelfB end.

Definition apeek (a : ast) : N := ahd (a_rem a).
Definition apeekTwo (a : ast) : N * N :=
  match a_rem a with
  | [] => (RuneSelfB, RuneSelfB)
  | [x] => (x, RuneSelfB)
  | x :: y :: _ => (x, y)
  end.
(* peekAt: a byte further than the buffer size ahead is never seen *)
Definition apeekAt (bufsz i : nat) (a : ast) : N :=
  if Nat.leb bufsz i then RuneSelfB
  else match nth_error (a_rem a) i with Some b => b | None => RuneSelfB end.

Fixpoint askip_digits (fuel bufsz i : nat) (a : ast) : nat :=
  match fuel with
  | O => i
  | S f => if is_digit (apeekAt bufsz i a) then askip_digits f bufsz (S i) a else i
  end.
Definition azshNumRange (bufsz : nat) (a : ast) : bool :=
  let i := askip_digits (S bufsz) bufsz 0 a in
  if negb (apeekAt bufsz i a =? 45) then false
  else let j := askip_digits (S bufsz) bufsz (S i) a in apeekAt bufsz j a =? 62.

Definition aret (a : ast) (rem : str) (off col : Z) (r' : N) (w' : Z) : ast :=
  mkast rem off (a_line a) col r' w' (a_err a).

(* the retry loop of rune, structural on the unread input *)
Fixpoint aloop (obq obqd : nat) (bq : nat) (rem : str) (off col : Z) (a : ast) {struct rem} : ast :=
  match rem with
  | [] => aret a [] (off + 1) col runeEOF 1%Z
  | b :: t =>
      if b <? 128 then
        if b =? 0 then aloop obq obqd bq t (off + 1) (col + 1) a
        else if (b =? 13) && (ahd t =? 10) then aloop obq obqd bq t (off + 1) (col + 1) a
        else if (b =? 92) && negb (a_r a =? 92) && (ahd t =? 10) then aret a (tl t) (off + 2) col escNewl 2%Z
        else if (b =? 92) && negb (a_r a =? 92) && (ahd t =? 13) && (ahd (tl t) =? 10)
             then aret a (tl (tl t)) (off + 3) col escNewl 3%Z
        else if (b =? 92) && Nat.ltb 0 obq &&
                ((Nat.ltb bq obq && bquoteEscaped (ahd t)) || (Nat.ltb bq obqd && (ahd t =? 34)))
             then aloop obq obqd (S bq) t (off + 1) (col + 1) a
        else aret a t (off + 1) col b 1%Z
      else
        let '(rr, wd) := decode_rune rem in
        let off' := (off + Z.of_nat wd)%Z in
        if (rr =? RuneError) && Nat.eqb wd 1 then
          match a_err a with
          | None => mkast [] 0 (a_line a) col runeEOF 1%Z (Some (off, a_line a, col))
          | Some _ => aret a (skipn wd rem) off' col rr (Z.of_nat wd)
          end
        else aret a (skipn wd rem) off' col rr (Z.of_nat wd)
  end.

Definition arune (obq obqd : nat) (a : ast) : ast :=
  if a_r a =? runeEOF then a else
  let '(l, c) := if (a_r a =? 10) || (a_r a =? escNewl) then ((a_line a + 1)%Z, 1%Z)
                 else (a_line a, (a_col a + a_w a)%Z) in
  aloop obq obqd 0 (a_rem a) (a_off a) c (mkast (a_rem a) (a_off a) l c (a_r a) (a_w a) (a_err a)).

Definition ainit (input : str) : ast := mkast input 0%Z 1%Z 1%Z 0 0%Z None.

Definition aobserve (a : ast) : obs :=
  match a_err a with
  | Some e => OErr e
  | None => ORune (a_r a) (a_w a) ((a_off a - a_w a)%Z, a_line a, a_col a)
  end.

Fixpoint arune_stream (fuel : nat) (obq obqd : nat) (a : ast) : list obs :=
  match fuel with
  | O => []
  | S f => let a' := arune obq obqd a in
           if a_r a' =? runeEOF then [aobserve a'] else aobserve a' :: arune_stream f obq obqd a'
  end.

Definition atrace (obq obqd : nat) (input : str) : list obs :=
  arune_stream (length input + 2) obq obqd (ainit input).

(* what the buffered reader state stands for *)
Definition rem (s : st) : str := skipn (bsp s) (bs s) ++ rd_src (rd s).
Definition abs (s : st) : ast :=
  match perr s with
  | Some e => mkast [] 0 (line s) (col s) (r s) (w s) (Some e)
  | None =>
      mkast (if r s =? runeEOF then [] else rem s) (offs s + Z.of_nat (bsp s)) (line s) (col s) (r s) (w s) None
  end.

(* ---- Spec for C09: line and column of a byte offset ------------------------ *)
Fixpoint linecol (input : str) (off : nat) (l c : Z) : Z * Z :=
  match off, input with
  | O, _ => (l, c)
  | S k, b :: t => if b =? 10 then linecol t k (l + 1)%Z 1%Z else linecol t k l (c + 1)%Z
  | S _, [] => (l, c)
  end.

(* pos_of_offset input off = (off, 1 + newlines before off, 1 + bytes since the last newline) *)
Definition pos_of_offset (input : str) (off : nat) : Z * Z * Z :=
  let '(l, c) := linecol input off 1%Z 1%Z in (Z.of_nat off, l, c).

Definition pos_agrees (input : str) (p : Z * Z * Z) : bool :=
  let '(o, l, c) := p in
  (0 <=? o)%Z && (o <=? Z.of_nat (length input))%Z &&
  let '(o', l', c') := pos_of_offset input (Z.to_nat o) in
  (l =? l')%Z && (c =? c')%Z.

(* ---- the script driver of the code leg (hook syntax.VerifReaderScript) ------ *)
(* operations: 'R' = rune, 'P' = peek, 'T' = peekTwo, 'Z' = zshNumRange *)
Definition step (bufsz obq obqd : nat) (op : N) (s : st) : st * (N * N * bool) :=
  if op =? 82 then (rune bufsz obq obqd s, (0, 0, false))
  else if op =? 80 then let '(s1, b) := peek bufsz s in (s1, (b, 0, false))
  else if op =? 84 then let '(s1, a, b) := peekTwo bufsz s in (s1, (a, b, false))
  else if op =? 90 then let '(s1, z) := zshNumRange bufsz s in (s1, (0, 0, z))
  else (s, (0, 0, false)).

Definition pos_fields (p : Z * Z * Z) : list Z :=
  let '(o, l, c) := p in
  let q := next_pos o l c in [Z.of_N (Offset q); Z.of_N (Line q); Z.of_N (Col q)].

(* one row per operation, the columns of the harness:
   r w b1 b2 z rawoffs line col left | Offset Line Col of nextPos() | err, Offset Line Col of its Pos | bad *)
Definition obs_row (s : st) (res : N * N * bool) : list Z :=
  let '(b1, b2, z) := res in
  let '(o, l, c) := raw_pos s in
  [Z.of_N (r s); w s; Z.of_N b1; Z.of_N b2; if z then 1%Z else 0%Z; o; l; c;
   (Z.of_nat (length (bs s)) - Z.of_nat (bsp s))%Z]
  ++ pos_fields (raw_pos s)
  ++ match perr s with
     | None => [0%Z; 0%Z; 0%Z; 0%Z]
     | Some e => 1%Z :: pos_fields e
     end
  ++ [match bad s with Good => 0%Z | Hang => 1%Z | GoPanic => 2%Z | OutOfFuel => 3%Z end].

Fixpoint run_script (bufsz obq obqd : nat) (script : list N) (s : st) : list (list Z) :=
  match script with
  | [] => []
  | op :: rest =>
      let '(s1, res) := step bufsz obq obqd op s in
      obs_row s1 res :: run_script bufsz obq obqd rest s1
  end.

(* a handed-out position (of a rune or of the invalid-UTF-8 error) agrees with its offset *)
Definition obs_ok (input : str) (o : obs) : bool :=
  match o with ORune _ _ p => pos_agrees input p | OErr p => pos_agrees input p end.
