(* Syntax/Quote.v — model of syntax/quote.go: Quote(s, lang), and a small model
   [unquote] of what a shell (and syntax.Parser + expand.Literal) does with the quoted
   text: word lexing, quote removal, double-quote backslash rules, $'...' escape decoding
   (expand.Format with args = nil).
   Transliteration of the Go code; unicode.IsPrint is the Section variable [is_print].
   NO PROOFS in this file. *)
From Verif Require Import Base.Str Base.Utf8.
Open Scope N_scope.

Inductive lang := LBash | LPosix | LMksh | LBats | LZsh.

(* lang.in(LangPOSIX), lang.in(LangMirBSDKorn) for the five named variants *)
Definition is_posix (l : lang) : bool := match l with LPosix => true | _ => false end.
Definition is_mksh (l : lang) : bool := match l with LMksh => true | _ => false end.

Definition mem_N (x : N) (l : list N) : bool := existsb (N.eqb x) l.

(* the first `switch r` of Quote:  ; dquote ' ( ) $ | & > < `  space \t \r \n  \  #  {  ~  * ? [  = *)
Definition shell_chars : list N :=
  [59; 34; 39; 40; 41; 36; 124; 38; 62; 60; 96; 32; 9; 13; 10; 92; 35; 123; 126; 42; 63; 91; 61].
Definition shell_char (r : N) : bool := mem_N r shell_chars.

(* syntax.IsKeyword *)
Definition keywords : list str :=
  [[33] (* ! *);
   [91;91] (* [[ *);
   [93;93] (* ]] *);
   [99;97;115;101] (* case *);
   [99;111;112;114;111;99] (* coproc *);
   [100;111] (* do *);
   [100;111;110;101] (* done *);
   [101;108;115;101] (* else *);
   [101;115;97;99] (* esac *);
   [102;105] (* fi *);
   [102;111;114] (* for *);
   [102;117;110;99;116;105;111;110] (* function *);
   [105;102] (* if *);
   [105;110] (* in *);
   [115;101;108;101;99;116] (* select *);
   [116;104;101;110] (* then *);
   [116;105;109;101] (* time *);
   [117;110;116;105;108] (* until *);
   [119;104;105;108;101] (* while *);
   [123] (* { *);
   [125] (* } *)].
Definition is_keyword (s : str) : bool := existsb (str_eqb s) keywords.

(* isHex *)
Definition is_hex (r : N) : bool :=
  in_range 48 57 r || in_range 97 102 r || in_range 65 70 r.

(* fmt %0<w>x of n, exact for n < 16^w (always the case where Quote uses it:
   a byte with %02x, r < 0x10000 with %04x, r <= MaxRune with %08x) *)
Definition hexd (d : N) : N := if d <? 10 then 48 + d else 87 + d.
Fixpoint hex_fixed (w : nat) (n : N) : str :=
  match w with
  | O => []
  | S w' => hexd ((n / 16 ^ N.of_nat w') mod 16) :: hex_fixed w' n
  end.

(* error codes; Err carries 8 * ByteOffset + code *)
Definition E_NULL : N := 1.   (* quoteErrNull *)
Definition E_POSIX : N := 2.  (* quoteErrPOSIX *)
Definition E_RANGE : N := 3.  (* quoteErrRange *)
Definition E_MKSH : N := 4.   (* quoteErrMksh *)
Definition qerr {A} (offs code : N) : res A := Err (8 * offs + code).

Section Quote.
  Variable is_print : N -> bool.   (* unicode.IsPrint *)

  (* r == utf8.RuneError && size == 1: an invalid byte (a valid U+FFFD has size 3) *)
  Definition invalid_rune (r : N) (bs : str) : bool := (r =? RuneError) && Nat.eqb (length bs) 1.

  (* (r == utf8.RuneError && size == 1) || !unicode.IsPrint(r) *)
  Definition non_print (r : N) (bs : str) : bool := invalid_rune r bs || negb (is_print r).

  (* first loop: Ok (shellChars, nonPrintable) or the QuoteError *)
  Fixpoint scan (l : lang) (rs : list (N * str)) (offs : N) (sc np : bool) : res (bool * bool) :=
    match rs with
    | [] => Ok (sc, np)
    | (r, bs) :: rest =>
        if r =? 0 then qerr offs E_NULL
        else
          let sc' := sc || shell_char r in
          if non_print r bs then
            if is_posix l then qerr offs E_POSIX
            else scan l rest (offs + N.of_nat (length bs)) sc' true
          else scan l rest (offs + N.of_nat (length bs)) sc' np
    end.

  (* one iteration of the $'...' loop: Ok (bytes written, nextRequoteIfHex) or error code *)
  Definition ansi_rune (l : lang) (r : N) (bs : str) (last : bool) : res (str * bool) :=
    if (r =? 39) || (r =? 92) then Ok (92 :: encode_rune r, false)
    else if is_print r && negb (invalid_rune r bs) then
      Ok ((if last && is_hex r then [39; 36; 39] else []) ++ encode_rune r, false)
    else if r =? 7 then Ok ([92; 97], false)     (* \a *)
    else if r =? 8 then Ok ([92; 98], false)     (* \b *)
    else if r =? 12 then Ok ([92; 102], false)   (* \f *)
    else if r =? 10 then Ok ([92; 110], false)   (* \n *)
    else if r =? 13 then Ok ([92; 114], false)   (* \r *)
    else if r =? 9 then Ok ([92; 116], false)    (* \t *)
    else if r =? 11 then Ok ([92; 118], false)   (* \v *)
    else if (r <? RuneSelf) || invalid_rune r bs then
      Ok ([92; 120] ++ hex_fixed 2 (hd 0 bs), is_mksh l)          (* \x%02x of rem[0] *)
    else if MaxRune <? r then Err E_RANGE
    else if is_mksh l && (65533 <? r) then Err E_MKSH
    else if r <? 65536 then Ok ([92; 117] ++ hex_fixed 4 r, false)  (* \u%04x *)
    else Ok ([92; 85] ++ hex_fixed 8 r, false).                     (* \U%08x *)

  Fixpoint ansi (l : lang) (rs : list (N * str)) (offs : N) (last : bool) : res str :=
    match rs with
    | [] => Ok []
    | (r, bs) :: rest =>
        match ansi_rune l r bs last with
        | Ok (out, next) =>
            match ansi l rest (offs + N.of_nat (length bs)) next with
            | Ok t => Ok (out ++ t)
            | e => e
            end
        | Err c => qerr offs c
        | Panic => Panic
        end
    end.

  (* the double-quote loop: for _, r := range s { switch r { case dquote, backslash, backquote, dollar:
     WriteByte(backslash) }; WriteRune(r) } *)
  Fixpoint dq (rs : list (N * str)) : str :=
    match rs with
    | [] => []
    | (r, _) :: rest =>
        (if mem_N r [34; 92; 96; 36] then [92] else []) ++ encode_rune r ++ dq rest
    end.

  Definition quote (s : str) (l : lang) : res str :=
    match s with
    | [] => Ok [39; 39]
    | _ =>
        let rs := runes s in
        match scan l rs 0 false false with
        | Err c => Err c
        | Panic => Panic
        | Ok (sc, np) =>
            if negb sc && negb np && negb (is_keyword s) then Ok s
            else if np then
              match ansi l rs 0 false with
              | Ok body => Ok ([36; 39] ++ body ++ [39])
              | e => e
              end
            else if negb (contains_byte 39 s) then Ok ([39] ++ s ++ [39])
            else Ok ([34] ++ dq rs ++ [34])
        end
    end.
End Quote.

(* ------------------------------------------------------------------------------ *)
(* unquote: the quoted text read back as ONE shell word.  A byte transducer:
   [step] consumes one byte and emits bytes of the expanded string; None = the text
   is not (known to be) a single inert word.  It is deliberately conservative outside
   the image of Quote: any unquoted byte of [word_special], an unquoted backslash,
   a `$` that does not start $'...', an unescaped $ or ` inside double quotes, backslash-newline
   inside double quotes, an escape that decodes to NUL, \c, \x \u \U without digits, octal above 0377,
   \u \U that is no scalar value, or (mksh) a hex digit directly after \xHH  give None.
   The text is meant to be non-empty, valid UTF-8 (the Go lexer refuses anything else) and in argument position.
   Inside the quotes it follows the parser (syntax/parser.go sglQuote/dollSglQuote,
   dblQuoted) and expand (wordField: inside double quotes the backslash before dquote \ $ ` is dropped;
   Format: the $'...' escapes  \a \b \e \E \f \n \r \t \v \\ \' \dquote \?  \NNN  \xHH  \uHHHH
   \UHHHHHHHH, an unknown escape keeps its backslash). *)

(* bytes that may not appear unquoted in a literal word (spec side; the same set as the
   code's list, confirmed against bash/dash by the search) *)
Definition word_special (c : N) : bool :=
  mem_N c [59; 34; 39; 40; 41; 36; 124; 38; 62; 60; 96;   (* ; dquote ' ( ) $ | & > < ` *)
           32; 9; 13; 10;                                  (* blanks, newline *)
           92; 35; 123; 126; 42; 63; 91; 61].              (* \ # { ~ * ? [ = *)

Inductive ukind := KX | KU | KBigU | KOct.

Inductive ustate :=
| UTop | UTopDollar | USgl | UDbl | UDblBs | UAnsi | UAnsiBs
| UAnsiNum (k : ukind) (rem : nat) (acc : N) (nd : nat)   (* rem >= 1 more digits allowed *)
| UAnsiXDone.                                             (* mksh: just after \xHH *)

Definition hexval (c : N) : option N :=
  if in_range 48 57 c then Some (c - 48)
  else if in_range 97 102 c then Some (c - 87)
  else if in_range 65 70 c then Some (c - 55)
  else None.

Definition digit_of (k : ukind) (c : N) : option N :=
  match k with
  | KOct => if in_range 48 55 c then Some (c - 48) else None
  | _ => hexval c
  end.
Definition base_of (k : ukind) : N := match k with KOct => 8 | _ => 16 end.
Definition kind_char (k : ukind) : N := match k with KX => 120 | KU => 117 | KBigU => 85 | KOct => 48 end.

(* the bytes an escape with value v writes; None for NUL (expand cuts the string there), for an octal
   value above 0377 and for \u/\U values that are no Unicode scalar value (expand.Format and bash differ there) *)
Definition emit (k : ukind) (v : N) : option str :=
  if v =? 0 then None
  else match k with
       | KX => Some [v mod 256]
       | KOct => if 255 <? v then None else Some [v]
       | KU | KBigU => if (MaxRune <? v) || in_range 55296 57343 v then None else Some (encode_rune v)
       end.

Definition after_emit (l : lang) (k : ukind) : ustate :=
  match k with KX => if is_mksh l then UAnsiXDone else UAnsi | _ => UAnsi end.

(* a byte inside $'...' that is not part of an escape in progress *)
Definition ansi_plain (c : N) : option (ustate * str) :=
  if c =? 39 then Some (UTop, [])
  else if c =? 92 then Some (UAnsiBs, [])
  else Some (UAnsi, [c]).

Definition step (l : lang) (st : ustate) (c : N) : option (ustate * str) :=
  match st with
  | UTop =>
      if c =? 39 then Some (USgl, [])
      else if c =? 34 then Some (UDbl, [])
      else if c =? 36 then Some (UTopDollar, [])
      else if word_special c then None
      else Some (UTop, [c])
  | UTopDollar =>
      if (c =? 39) && negb (is_posix l) then Some (UAnsi, []) else None
  | USgl => if c =? 39 then Some (UTop, []) else Some (USgl, [c])
  | UDbl =>
      if c =? 34 then Some (UTop, [])
      else if c =? 92 then Some (UDblBs, [])
      else if (c =? 36) || (c =? 96) then None
      else Some (UDbl, [c])
  | UDblBs =>
      if mem_N c [34; 92; 36; 96] then Some (UDbl, [c])
      else if c =? 10 then None      (* backslash-newline: bash drops it, expand keeps it *)
      else Some (UDbl, [92; c])
  | UAnsi => ansi_plain c
  | UAnsiBs =>
      if c =? 97 then Some (UAnsi, [7])
      else if c =? 98 then Some (UAnsi, [8])
      else if (c =? 101) || (c =? 69) then Some (UAnsi, [27])
      else if c =? 102 then Some (UAnsi, [12])
      else if c =? 110 then Some (UAnsi, [10])
      else if c =? 114 then Some (UAnsi, [13])
      else if c =? 116 then Some (UAnsi, [9])
      else if c =? 118 then Some (UAnsi, [11])
      else if mem_N c [92; 39; 34; 63] then Some (UAnsi, [c])
      else if in_range 48 55 c then Some (UAnsiNum KOct 2 (c - 48) 1, [])
      else if c =? 120 then Some (UAnsiNum KX 2 0 0, [])
      else if c =? 117 then Some (UAnsiNum KU 4 0 0, [])
      else if c =? 85 then Some (UAnsiNum KBigU 8 0 0, [])
      else if c =? 99 then None      (* \cX: a control character in bash, kept literally by expand.Format *)
      else Some (UAnsi, [92; c])
  | UAnsiNum k rem acc nd =>
      match digit_of k c with
      | Some d =>
          let acc' := base_of k * acc + d in
          match rem with
          | S (S rem') => Some (UAnsiNum k (S rem') acc' (S nd), [])
          | _ => match emit k acc' with
                 | Some out => Some (after_emit l k, out)
                 | None => None
                 end
          end
      | None =>
          let pre := match nd with
                     | O => None      (* \x \u \U without a digit (bash also reads \x{..}) *)
                     | _ => emit k acc
                     end in
          match pre, ansi_plain c with
          | Some p, Some (st', out) => Some (st', p ++ out)
          | _, _ => None
          end
      end
  | UAnsiXDone => if is_hex c then None else ansi_plain c
  end.

Fixpoint urun (l : lang) (st : ustate) (q : str) : option str :=
  match q with
  | [] => match st with UTop => Some [] | _ => None end
  | c :: t =>
      match step l st c with
      | None => None
      | Some (st', out) =>
          match urun l st' t with
          | Some r => Some (out ++ r)
          | None => None
          end
      end
  end.

Definition unquote (l : lang) (q : str) : option str := urun l UTop q.

(* ------------------------------------------------------------------------------ *)
(* Spec-side predicates used by the theorems *)
Definition bytes_ok (s : str) : Prop := Forall (fun b => b < 256) s.
Definition rune_values (s : str) : list N := map fst (runes s).
