(* GENERATED on every run of ./check C14/C15 by harness/hxsyn from the running Go code. Do not edit. *)
From Verif Require Import Base.Str Syntax.Schema.
Open Scope N_scope.

Definition gen_structs : list struct_decl := [
  (* 0 File *) {| s_name := [70;105;108;101]; s_node := true; s_fields := [
      (* 0 Name *) {| f_name := [78;97;109;101]; f_ty := TString |};
      (* 1 Stmts *) {| f_name := [83;116;109;116;115]; f_ty := (TSlice (TPtr 1)) |};
      (* 2 Last *) {| f_name := [76;97;115;116]; f_ty := (TSlice (TStruct 2)) |}] |};
  (* 1 Stmt *) {| s_name := [83;116;109;116]; s_node := true; s_fields := [
      (* 0 Comments *) {| f_name := [67;111;109;109;101;110;116;115]; f_ty := (TSlice (TStruct 2)) |};
      (* 1 Cmd *) {| f_name := [67;109;100]; f_ty := (TIface 0) |};
      (* 2 Position *) {| f_name := [80;111;115;105;116;105;111;110]; f_ty := TPos |};
      (* 3 Semicolon *) {| f_name := [83;101;109;105;99;111;108;111;110]; f_ty := TPos |};
      (* 4 Negated *) {| f_name := [78;101;103;97;116;101;100]; f_ty := TBool |};
      (* 5 Background *) {| f_name := [66;97;99;107;103;114;111;117;110;100]; f_ty := TBool |};
      (* 6 Coprocess *) {| f_name := [67;111;112;114;111;99;101;115;115]; f_ty := TBool |};
      (* 7 Disown *) {| f_name := [68;105;115;111;119;110]; f_ty := TBool |};
      (* 8 Redirs *) {| f_name := [82;101;100;105;114;115]; f_ty := (TSlice (TPtr 45)) |}] |};
  (* 2 Comment *) {| s_name := [67;111;109;109;101;110;116]; s_node := true; s_fields := [
      (* 0 Hash *) {| f_name := [72;97;115;104]; f_ty := TPos |};
      (* 1 Text *) {| f_name := [84;101;120;116]; f_ty := TString |}] |};
  (* 3 CallExpr *) {| s_name := [67;97;108;108;69;120;112;114]; s_node := true; s_fields := [
      (* 0 Assigns *) {| f_name := [65;115;115;105;103;110;115]; f_ty := (TSlice (TPtr 4)) |};
      (* 1 Args *) {| f_name := [65;114;103;115]; f_ty := (TSlice (TPtr 6)) |}] |};
  (* 4 Assign *) {| s_name := [65;115;115;105;103;110]; s_node := true; s_fields := [
      (* 0 Append *) {| f_name := [65;112;112;101;110;100]; f_ty := TBool |};
      (* 1 Naked *) {| f_name := [78;97;107;101;100]; f_ty := TBool |};
      (* 2 Name *) {| f_name := [78;97;109;101]; f_ty := (TPtr 5) |};
      (* 3 Index *) {| f_name := [73;110;100;101;120]; f_ty := (TIface 1) |};
      (* 4 Value *) {| f_name := [86;97;108;117;101]; f_ty := (TPtr 6) |};
      (* 5 Array *) {| f_name := [65;114;114;97;121]; f_ty := (TPtr 22) |}] |};
  (* 5 Lit *) {| s_name := [76;105;116]; s_node := true; s_fields := [
      (* 0 ValuePos *) {| f_name := [86;97;108;117;101;80;111;115]; f_ty := TPos |};
      (* 1 ValueEnd *) {| f_name := [86;97;108;117;101;69;110;100]; f_ty := TPos |};
      (* 2 Value *) {| f_name := [86;97;108;117;101]; f_ty := TString |}] |};
  (* 6 Word *) {| s_name := [87;111;114;100]; s_node := true; s_fields := [
      (* 0 Parts *) {| f_name := [80;97;114;116;115]; f_ty := (TSlice (TIface 2)) |}] |};
  (* 7 SglQuoted *) {| s_name := [83;103;108;81;117;111;116;101;100]; s_node := true; s_fields := [
      (* 0 Left *) {| f_name := [76;101;102;116]; f_ty := TPos |};
      (* 1 Right *) {| f_name := [82;105;103;104;116]; f_ty := TPos |};
      (* 2 Dollar *) {| f_name := [68;111;108;108;97;114]; f_ty := TBool |};
      (* 3 Value *) {| f_name := [86;97;108;117;101]; f_ty := TString |}] |};
  (* 8 DblQuoted *) {| s_name := [68;98;108;81;117;111;116;101;100]; s_node := true; s_fields := [
      (* 0 Left *) {| f_name := [76;101;102;116]; f_ty := TPos |};
      (* 1 Right *) {| f_name := [82;105;103;104;116]; f_ty := TPos |};
      (* 2 Dollar *) {| f_name := [68;111;108;108;97;114]; f_ty := TBool |};
      (* 3 Parts *) {| f_name := [80;97;114;116;115]; f_ty := (TSlice (TIface 2)) |}] |};
  (* 9 CmdSubst *) {| s_name := [67;109;100;83;117;98;115;116]; s_node := true; s_fields := [
      (* 0 Left *) {| f_name := [76;101;102;116]; f_ty := TPos |};
      (* 1 Right *) {| f_name := [82;105;103;104;116]; f_ty := TPos |};
      (* 2 Stmts *) {| f_name := [83;116;109;116;115]; f_ty := (TSlice (TPtr 1)) |};
      (* 3 Last *) {| f_name := [76;97;115;116]; f_ty := (TSlice (TStruct 2)) |};
      (* 4 Backquotes *) {| f_name := [66;97;99;107;113;117;111;116;101;115]; f_ty := TBool |};
      (* 5 TempFile *) {| f_name := [84;101;109;112;70;105;108;101]; f_ty := TBool |};
      (* 6 ReplyVar *) {| f_name := [82;101;112;108;121;86;97;114]; f_ty := TBool |}] |};
  (* 10 ParamExp *) {| s_name := [80;97;114;97;109;69;120;112]; s_node := true; s_fields := [
      (* 0 Dollar *) {| f_name := [68;111;108;108;97;114]; f_ty := TPos |};
      (* 1 Rbrace *) {| f_name := [82;98;114;97;99;101]; f_ty := TPos |};
      (* 2 Short *) {| f_name := [83;104;111;114;116]; f_ty := TBool |};
      (* 3 Flags *) {| f_name := [70;108;97;103;115]; f_ty := (TPtr 5) |};
      (* 4 Excl *) {| f_name := [69;120;99;108]; f_ty := TBool |};
      (* 5 Length *) {| f_name := [76;101;110;103;116;104]; f_ty := TBool |};
      (* 6 Width *) {| f_name := [87;105;100;116;104]; f_ty := TBool |};
      (* 7 IsSet *) {| f_name := [73;115;83;101;116]; f_ty := TBool |};
      (* 8 Split *) {| f_name := [83;112;108;105;116]; f_ty := (TUint 0) |};
      (* 9 GlobSubst *) {| f_name := [71;108;111;98;83;117;98;115;116]; f_ty := (TUint 0) |};
      (* 10 RcExpand *) {| f_name := [82;99;69;120;112;97;110;100]; f_ty := (TUint 0) |};
      (* 11 Param *) {| f_name := [80;97;114;97;109]; f_ty := (TPtr 5) |};
      (* 12 NestedParam *) {| f_name := [78;101;115;116;101;100;80;97;114;97;109]; f_ty := (TIface 2) |};
      (* 13 Index *) {| f_name := [73;110;100;101;120]; f_ty := (TIface 1) |};
      (* 14 Modifiers *) {| f_name := [77;111;100;105;102;105;101;114;115]; f_ty := (TSlice (TPtr 5)) |};
      (* 15 Slice *) {| f_name := [83;108;105;99;101]; f_ty := (TPtr 11) |};
      (* 16 Repl *) {| f_name := [82;101;112;108]; f_ty := (TPtr 12) |};
      (* 17 Names *) {| f_name := [78;97;109;101;115]; f_ty := (TUint 1) |};
      (* 18 Exp *) {| f_name := [69;120;112]; f_ty := (TPtr 13) |}] |};
  (* 11 Slice *) {| s_name := [83;108;105;99;101]; s_node := false; s_fields := [
      (* 0 Offset *) {| f_name := [79;102;102;115;101;116]; f_ty := (TIface 1) |};
      (* 1 Length *) {| f_name := [76;101;110;103;116;104]; f_ty := (TIface 1) |}] |};
  (* 12 Replace *) {| s_name := [82;101;112;108;97;99;101]; s_node := false; s_fields := [
      (* 0 All *) {| f_name := [65;108;108]; f_ty := TBool |};
      (* 1 Orig *) {| f_name := [79;114;105;103]; f_ty := (TPtr 6) |};
      (* 2 With *) {| f_name := [87;105;116;104]; f_ty := (TPtr 6) |}] |};
  (* 13 Expansion *) {| s_name := [69;120;112;97;110;115;105;111;110]; s_node := false; s_fields := [
      (* 0 Op *) {| f_name := [79;112]; f_ty := (TUint 2) |};
      (* 1 Word *) {| f_name := [87;111;114;100]; f_ty := (TPtr 6) |}] |};
  (* 14 ArithmExp *) {| s_name := [65;114;105;116;104;109;69;120;112]; s_node := true; s_fields := [
      (* 0 Left *) {| f_name := [76;101;102;116]; f_ty := TPos |};
      (* 1 Right *) {| f_name := [82;105;103;104;116]; f_ty := TPos |};
      (* 2 Bracket *) {| f_name := [66;114;97;99;107;101;116]; f_ty := TBool |};
      (* 3 Unsigned *) {| f_name := [85;110;115;105;103;110;101;100]; f_ty := TBool |};
      (* 4 X *) {| f_name := [88]; f_ty := (TIface 1) |}] |};
  (* 15 ExtGlob *) {| s_name := [69;120;116;71;108;111;98]; s_node := true; s_fields := [
      (* 0 OpPos *) {| f_name := [79;112;80;111;115]; f_ty := TPos |};
      (* 1 Op *) {| f_name := [79;112]; f_ty := (TUint 3) |};
      (* 2 Pattern *) {| f_name := [80;97;116;116;101;114;110]; f_ty := (TPtr 5) |}] |};
  (* 16 ProcSubst *) {| s_name := [80;114;111;99;83;117;98;115;116]; s_node := true; s_fields := [
      (* 0 OpPos *) {| f_name := [79;112;80;111;115]; f_ty := TPos |};
      (* 1 Rparen *) {| f_name := [82;112;97;114;101;110]; f_ty := TPos |};
      (* 2 Op *) {| f_name := [79;112]; f_ty := (TUint 4) |};
      (* 3 Stmts *) {| f_name := [83;116;109;116;115]; f_ty := (TSlice (TPtr 1)) |};
      (* 4 Last *) {| f_name := [76;97;115;116]; f_ty := (TSlice (TStruct 2)) |}] |};
  (* 17 BraceExp *) {| s_name := [66;114;97;99;101;69;120;112]; s_node := true; s_fields := [
      (* 0 Sequence *) {| f_name := [83;101;113;117;101;110;99;101]; f_ty := TBool |};
      (* 1 Elems *) {| f_name := [69;108;101;109;115]; f_ty := (TSlice (TPtr 6)) |}] |};
  (* 18 BinaryArithm *) {| s_name := [66;105;110;97;114;121;65;114;105;116;104;109]; s_node := true; s_fields := [
      (* 0 OpPos *) {| f_name := [79;112;80;111;115]; f_ty := TPos |};
      (* 1 Op *) {| f_name := [79;112]; f_ty := (TUint 5) |};
      (* 2 X *) {| f_name := [88]; f_ty := (TIface 1) |};
      (* 3 Y *) {| f_name := [89]; f_ty := (TIface 1) |}] |};
  (* 19 UnaryArithm *) {| s_name := [85;110;97;114;121;65;114;105;116;104;109]; s_node := true; s_fields := [
      (* 0 OpPos *) {| f_name := [79;112;80;111;115]; f_ty := TPos |};
      (* 1 Op *) {| f_name := [79;112]; f_ty := (TUint 6) |};
      (* 2 Post *) {| f_name := [80;111;115;116]; f_ty := TBool |};
      (* 3 X *) {| f_name := [88]; f_ty := (TIface 1) |}] |};
  (* 20 ParenArithm *) {| s_name := [80;97;114;101;110;65;114;105;116;104;109]; s_node := true; s_fields := [
      (* 0 Lparen *) {| f_name := [76;112;97;114;101;110]; f_ty := TPos |};
      (* 1 Rparen *) {| f_name := [82;112;97;114;101;110]; f_ty := TPos |};
      (* 2 X *) {| f_name := [88]; f_ty := (TIface 1) |}] |};
  (* 21 FlagsArithm *) {| s_name := [70;108;97;103;115;65;114;105;116;104;109]; s_node := true; s_fields := [
      (* 0 Flags *) {| f_name := [70;108;97;103;115]; f_ty := (TPtr 5) |};
      (* 1 X *) {| f_name := [88]; f_ty := (TIface 1) |}] |};
  (* 22 ArrayExpr *) {| s_name := [65;114;114;97;121;69;120;112;114]; s_node := true; s_fields := [
      (* 0 Lparen *) {| f_name := [76;112;97;114;101;110]; f_ty := TPos |};
      (* 1 Rparen *) {| f_name := [82;112;97;114;101;110]; f_ty := TPos |};
      (* 2 Elems *) {| f_name := [69;108;101;109;115]; f_ty := (TSlice (TPtr 23)) |};
      (* 3 Last *) {| f_name := [76;97;115;116]; f_ty := (TSlice (TStruct 2)) |}] |};
  (* 23 ArrayElem *) {| s_name := [65;114;114;97;121;69;108;101;109]; s_node := true; s_fields := [
      (* 0 Index *) {| f_name := [73;110;100;101;120]; f_ty := (TIface 1) |};
      (* 1 Value *) {| f_name := [86;97;108;117;101]; f_ty := (TPtr 6) |};
      (* 2 Comments *) {| f_name := [67;111;109;109;101;110;116;115]; f_ty := (TSlice (TStruct 2)) |}] |};
  (* 24 Subshell *) {| s_name := [83;117;98;115;104;101;108;108]; s_node := true; s_fields := [
      (* 0 Lparen *) {| f_name := [76;112;97;114;101;110]; f_ty := TPos |};
      (* 1 Rparen *) {| f_name := [82;112;97;114;101;110]; f_ty := TPos |};
      (* 2 Stmts *) {| f_name := [83;116;109;116;115]; f_ty := (TSlice (TPtr 1)) |};
      (* 3 Last *) {| f_name := [76;97;115;116]; f_ty := (TSlice (TStruct 2)) |}] |};
  (* 25 Block *) {| s_name := [66;108;111;99;107]; s_node := true; s_fields := [
      (* 0 Lbrace *) {| f_name := [76;98;114;97;99;101]; f_ty := TPos |};
      (* 1 Rbrace *) {| f_name := [82;98;114;97;99;101]; f_ty := TPos |};
      (* 2 Stmts *) {| f_name := [83;116;109;116;115]; f_ty := (TSlice (TPtr 1)) |};
      (* 3 Last *) {| f_name := [76;97;115;116]; f_ty := (TSlice (TStruct 2)) |}] |};
  (* 26 IfClause *) {| s_name := [73;102;67;108;97;117;115;101]; s_node := true; s_fields := [
      (* 0 Position *) {| f_name := [80;111;115;105;116;105;111;110]; f_ty := TPos |};
      (* 1 ThenPos *) {| f_name := [84;104;101;110;80;111;115]; f_ty := TPos |};
      (* 2 FiPos *) {| f_name := [70;105;80;111;115]; f_ty := TPos |};
      (* 3 Cond *) {| f_name := [67;111;110;100]; f_ty := (TSlice (TPtr 1)) |};
      (* 4 CondLast *) {| f_name := [67;111;110;100;76;97;115;116]; f_ty := (TSlice (TStruct 2)) |};
      (* 5 Then *) {| f_name := [84;104;101;110]; f_ty := (TSlice (TPtr 1)) |};
      (* 6 ThenLast *) {| f_name := [84;104;101;110;76;97;115;116]; f_ty := (TSlice (TStruct 2)) |};
      (* 7 Else *) {| f_name := [69;108;115;101]; f_ty := (TPtr 26) |};
      (* 8 Last *) {| f_name := [76;97;115;116]; f_ty := (TSlice (TStruct 2)) |}] |};
  (* 27 WhileClause *) {| s_name := [87;104;105;108;101;67;108;97;117;115;101]; s_node := true; s_fields := [
      (* 0 WhilePos *) {| f_name := [87;104;105;108;101;80;111;115]; f_ty := TPos |};
      (* 1 DoPos *) {| f_name := [68;111;80;111;115]; f_ty := TPos |};
      (* 2 DonePos *) {| f_name := [68;111;110;101;80;111;115]; f_ty := TPos |};
      (* 3 Until *) {| f_name := [85;110;116;105;108]; f_ty := TBool |};
      (* 4 Cond *) {| f_name := [67;111;110;100]; f_ty := (TSlice (TPtr 1)) |};
      (* 5 CondLast *) {| f_name := [67;111;110;100;76;97;115;116]; f_ty := (TSlice (TStruct 2)) |};
      (* 6 Do *) {| f_name := [68;111]; f_ty := (TSlice (TPtr 1)) |};
      (* 7 DoLast *) {| f_name := [68;111;76;97;115;116]; f_ty := (TSlice (TStruct 2)) |}] |};
  (* 28 ForClause *) {| s_name := [70;111;114;67;108;97;117;115;101]; s_node := true; s_fields := [
      (* 0 ForPos *) {| f_name := [70;111;114;80;111;115]; f_ty := TPos |};
      (* 1 DoPos *) {| f_name := [68;111;80;111;115]; f_ty := TPos |};
      (* 2 DonePos *) {| f_name := [68;111;110;101;80;111;115]; f_ty := TPos |};
      (* 3 Select *) {| f_name := [83;101;108;101;99;116]; f_ty := TBool |};
      (* 4 Braces *) {| f_name := [66;114;97;99;101;115]; f_ty := TBool |};
      (* 5 Loop *) {| f_name := [76;111;111;112]; f_ty := (TIface 3) |};
      (* 6 Do *) {| f_name := [68;111]; f_ty := (TSlice (TPtr 1)) |};
      (* 7 DoLast *) {| f_name := [68;111;76;97;115;116]; f_ty := (TSlice (TStruct 2)) |}] |};
  (* 29 WordIter *) {| s_name := [87;111;114;100;73;116;101;114]; s_node := true; s_fields := [
      (* 0 Name *) {| f_name := [78;97;109;101]; f_ty := (TPtr 5) |};
      (* 1 InPos *) {| f_name := [73;110;80;111;115]; f_ty := TPos |};
      (* 2 Items *) {| f_name := [73;116;101;109;115]; f_ty := (TSlice (TPtr 6)) |}] |};
  (* 30 CStyleLoop *) {| s_name := [67;83;116;121;108;101;76;111;111;112]; s_node := true; s_fields := [
      (* 0 Lparen *) {| f_name := [76;112;97;114;101;110]; f_ty := TPos |};
      (* 1 Rparen *) {| f_name := [82;112;97;114;101;110]; f_ty := TPos |};
      (* 2 Init *) {| f_name := [73;110;105;116]; f_ty := (TIface 1) |};
      (* 3 Cond *) {| f_name := [67;111;110;100]; f_ty := (TIface 1) |};
      (* 4 Post *) {| f_name := [80;111;115;116]; f_ty := (TIface 1) |}] |};
  (* 31 BinaryCmd *) {| s_name := [66;105;110;97;114;121;67;109;100]; s_node := true; s_fields := [
      (* 0 OpPos *) {| f_name := [79;112;80;111;115]; f_ty := TPos |};
      (* 1 Op *) {| f_name := [79;112]; f_ty := (TUint 7) |};
      (* 2 X *) {| f_name := [88]; f_ty := (TPtr 1) |};
      (* 3 Y *) {| f_name := [89]; f_ty := (TPtr 1) |}] |};
  (* 32 FuncDecl *) {| s_name := [70;117;110;99;68;101;99;108]; s_node := true; s_fields := [
      (* 0 Position *) {| f_name := [80;111;115;105;116;105;111;110]; f_ty := TPos |};
      (* 1 RsrvWord *) {| f_name := [82;115;114;118;87;111;114;100]; f_ty := TBool |};
      (* 2 Parens *) {| f_name := [80;97;114;101;110;115]; f_ty := TBool |};
      (* 3 Name *) {| f_name := [78;97;109;101]; f_ty := (TPtr 5) |};
      (* 4 Names *) {| f_name := [78;97;109;101;115]; f_ty := (TSlice (TPtr 5)) |};
      (* 5 Body *) {| f_name := [66;111;100;121]; f_ty := (TPtr 1) |}] |};
  (* 33 ArithmCmd *) {| s_name := [65;114;105;116;104;109;67;109;100]; s_node := true; s_fields := [
      (* 0 Left *) {| f_name := [76;101;102;116]; f_ty := TPos |};
      (* 1 Right *) {| f_name := [82;105;103;104;116]; f_ty := TPos |};
      (* 2 Unsigned *) {| f_name := [85;110;115;105;103;110;101;100]; f_ty := TBool |};
      (* 3 X *) {| f_name := [88]; f_ty := (TIface 1) |}] |};
  (* 34 CaseClause *) {| s_name := [67;97;115;101;67;108;97;117;115;101]; s_node := true; s_fields := [
      (* 0 Case *) {| f_name := [67;97;115;101]; f_ty := TPos |};
      (* 1 In *) {| f_name := [73;110]; f_ty := TPos |};
      (* 2 Esac *) {| f_name := [69;115;97;99]; f_ty := TPos |};
      (* 3 Braces *) {| f_name := [66;114;97;99;101;115]; f_ty := TBool |};
      (* 4 Word *) {| f_name := [87;111;114;100]; f_ty := (TPtr 6) |};
      (* 5 Items *) {| f_name := [73;116;101;109;115]; f_ty := (TSlice (TPtr 35)) |};
      (* 6 Last *) {| f_name := [76;97;115;116]; f_ty := (TSlice (TStruct 2)) |}] |};
  (* 35 CaseItem *) {| s_name := [67;97;115;101;73;116;101;109]; s_node := true; s_fields := [
      (* 0 Op *) {| f_name := [79;112]; f_ty := (TUint 8) |};
      (* 1 OpPos *) {| f_name := [79;112;80;111;115]; f_ty := TPos |};
      (* 2 Comments *) {| f_name := [67;111;109;109;101;110;116;115]; f_ty := (TSlice (TStruct 2)) |};
      (* 3 Patterns *) {| f_name := [80;97;116;116;101;114;110;115]; f_ty := (TSlice (TPtr 6)) |};
      (* 4 Stmts *) {| f_name := [83;116;109;116;115]; f_ty := (TSlice (TPtr 1)) |};
      (* 5 Last *) {| f_name := [76;97;115;116]; f_ty := (TSlice (TStruct 2)) |}] |};
  (* 36 TestClause *) {| s_name := [84;101;115;116;67;108;97;117;115;101]; s_node := true; s_fields := [
      (* 0 Left *) {| f_name := [76;101;102;116]; f_ty := TPos |};
      (* 1 Right *) {| f_name := [82;105;103;104;116]; f_ty := TPos |};
      (* 2 X *) {| f_name := [88]; f_ty := (TIface 4) |}] |};
  (* 37 BinaryTest *) {| s_name := [66;105;110;97;114;121;84;101;115;116]; s_node := true; s_fields := [
      (* 0 OpPos *) {| f_name := [79;112;80;111;115]; f_ty := TPos |};
      (* 1 Op *) {| f_name := [79;112]; f_ty := (TUint 9) |};
      (* 2 X *) {| f_name := [88]; f_ty := (TIface 4) |};
      (* 3 Y *) {| f_name := [89]; f_ty := (TIface 4) |}] |};
  (* 38 UnaryTest *) {| s_name := [85;110;97;114;121;84;101;115;116]; s_node := true; s_fields := [
      (* 0 OpPos *) {| f_name := [79;112;80;111;115]; f_ty := TPos |};
      (* 1 Op *) {| f_name := [79;112]; f_ty := (TUint 10) |};
      (* 2 X *) {| f_name := [88]; f_ty := (TIface 4) |}] |};
  (* 39 ParenTest *) {| s_name := [80;97;114;101;110;84;101;115;116]; s_node := true; s_fields := [
      (* 0 Lparen *) {| f_name := [76;112;97;114;101;110]; f_ty := TPos |};
      (* 1 Rparen *) {| f_name := [82;112;97;114;101;110]; f_ty := TPos |};
      (* 2 X *) {| f_name := [88]; f_ty := (TIface 4) |}] |};
  (* 40 DeclClause *) {| s_name := [68;101;99;108;67;108;97;117;115;101]; s_node := true; s_fields := [
      (* 0 Variant *) {| f_name := [86;97;114;105;97;110;116]; f_ty := (TPtr 5) |};
      (* 1 Args *) {| f_name := [65;114;103;115]; f_ty := (TSlice (TPtr 4)) |}] |};
  (* 41 TimeClause *) {| s_name := [84;105;109;101;67;108;97;117;115;101]; s_node := true; s_fields := [
      (* 0 Time *) {| f_name := [84;105;109;101]; f_ty := TPos |};
      (* 1 PosixFormat *) {| f_name := [80;111;115;105;120;70;111;114;109;97;116]; f_ty := TBool |};
      (* 2 Stmt *) {| f_name := [83;116;109;116]; f_ty := (TPtr 1) |}] |};
  (* 42 CoprocClause *) {| s_name := [67;111;112;114;111;99;67;108;97;117;115;101]; s_node := true; s_fields := [
      (* 0 Coproc *) {| f_name := [67;111;112;114;111;99]; f_ty := TPos |};
      (* 1 Name *) {| f_name := [78;97;109;101]; f_ty := (TPtr 6) |};
      (* 2 Stmt *) {| f_name := [83;116;109;116]; f_ty := (TPtr 1) |}] |};
  (* 43 LetClause *) {| s_name := [76;101;116;67;108;97;117;115;101]; s_node := true; s_fields := [
      (* 0 Let *) {| f_name := [76;101;116]; f_ty := TPos |};
      (* 1 Exprs *) {| f_name := [69;120;112;114;115]; f_ty := (TSlice (TIface 1)) |}] |};
  (* 44 TestDecl *) {| s_name := [84;101;115;116;68;101;99;108]; s_node := true; s_fields := [
      (* 0 Position *) {| f_name := [80;111;115;105;116;105;111;110]; f_ty := TPos |};
      (* 1 Description *) {| f_name := [68;101;115;99;114;105;112;116;105;111;110]; f_ty := (TPtr 6) |};
      (* 2 Body *) {| f_name := [66;111;100;121]; f_ty := (TPtr 1) |}] |};
  (* 45 Redirect *) {| s_name := [82;101;100;105;114;101;99;116]; s_node := true; s_fields := [
      (* 0 OpPos *) {| f_name := [79;112;80;111;115]; f_ty := TPos |};
      (* 1 Op *) {| f_name := [79;112]; f_ty := (TUint 11) |};
      (* 2 N *) {| f_name := [78]; f_ty := (TPtr 5) |};
      (* 3 Word *) {| f_name := [87;111;114;100]; f_ty := (TPtr 6) |};
      (* 4 Hdoc *) {| f_name := [72;100;111;99]; f_ty := (TPtr 6) |}] |}
].

Definition gen_ifaces : list iface_decl := [
  (* 0 Command *) {| i_name := [67;111;109;109;97;110;100]; i_impls := [3%nat;24%nat;25%nat;26%nat;27%nat;28%nat;31%nat;32%nat;33%nat;34%nat;36%nat;40%nat;41%nat;42%nat;43%nat;44%nat] |};
  (* 1 ArithmExpr *) {| i_name := [65;114;105;116;104;109;69;120;112;114]; i_impls := [6%nat;18%nat;19%nat;20%nat;21%nat] |};
  (* 2 WordPart *) {| i_name := [87;111;114;100;80;97;114;116]; i_impls := [5%nat;7%nat;8%nat;9%nat;10%nat;14%nat;15%nat;16%nat;17%nat] |};
  (* 3 Loop *) {| i_name := [76;111;111;112]; i_impls := [29%nat;30%nat] |};
  (* 4 TestExpr *) {| i_name := [84;101;115;116;69;120;112;114]; i_impls := [6%nat;37%nat;38%nat;39%nat] |};
  (* 5 Node *) {| i_name := [78;111;100;101]; i_impls := [0%nat;2%nat;1%nat;4%nat;45%nat;3%nat;24%nat;25%nat;26%nat;27%nat;28%nat;29%nat;30%nat;31%nat;32%nat;6%nat;5%nat;7%nat;8%nat;9%nat;10%nat;14%nat;33%nat;18%nat;19%nat;20%nat;21%nat;34%nat;35%nat;36%nat;37%nat;38%nat;39%nat;40%nat;22%nat;23%nat;15%nat;16%nat;41%nat;42%nat;43%nat;17%nat;44%nat] |}
].

Definition gen_uints : list uint_decl := [
  (* 0 OptState *) {| u_name := [79;112;116;83;116;97;116;101]; u_bits := 8; u_stringer := false; u_unmarshaler := false |};
  (* 1 ParNamesOperator *) {| u_name := [80;97;114;78;97;109;101;115;79;112;101;114;97;116;111;114]; u_bits := 32; u_stringer := true; u_unmarshaler := true |};
  (* 2 ParExpOperator *) {| u_name := [80;97;114;69;120;112;79;112;101;114;97;116;111;114]; u_bits := 32; u_stringer := true; u_unmarshaler := true |};
  (* 3 GlobOperator *) {| u_name := [71;108;111;98;79;112;101;114;97;116;111;114]; u_bits := 32; u_stringer := true; u_unmarshaler := true |};
  (* 4 ProcOperator *) {| u_name := [80;114;111;99;79;112;101;114;97;116;111;114]; u_bits := 32; u_stringer := true; u_unmarshaler := true |};
  (* 5 BinAritOperator *) {| u_name := [66;105;110;65;114;105;116;79;112;101;114;97;116;111;114]; u_bits := 32; u_stringer := true; u_unmarshaler := true |};
  (* 6 UnAritOperator *) {| u_name := [85;110;65;114;105;116;79;112;101;114;97;116;111;114]; u_bits := 32; u_stringer := true; u_unmarshaler := true |};
  (* 7 BinCmdOperator *) {| u_name := [66;105;110;67;109;100;79;112;101;114;97;116;111;114]; u_bits := 32; u_stringer := true; u_unmarshaler := true |};
  (* 8 CaseOperator *) {| u_name := [67;97;115;101;79;112;101;114;97;116;111;114]; u_bits := 32; u_stringer := true; u_unmarshaler := true |};
  (* 9 BinTestOperator *) {| u_name := [66;105;110;84;101;115;116;79;112;101;114;97;116;111;114]; u_bits := 32; u_stringer := true; u_unmarshaler := true |};
  (* 10 UnTestOperator *) {| u_name := [85;110;84;101;115;116;79;112;101;114;97;116;111;114]; u_bits := 32; u_stringer := true; u_unmarshaler := true |};
  (* 11 RedirOperator *) {| u_name := [82;101;100;105;114;79;112;101;114;97;116;111;114]; u_bits := 32; u_stringer := true; u_unmarshaler := true |}
].

Definition gen_schema : schema :=
  {| structs := gen_structs; ifaces := gen_ifaces; uints := gen_uints; node_iface := 5 |}.
