(* GENERATED on every run by checks/c08.py: reflection over syntax.Parser/syntax.Printer (verif hook), go/ast over
   reset()/New*/option functions/entry points of <repo>/syntax, behavioural poison probe - do not edit. *)
From Coq Require Import List String.
From Verif Require Import Syntax.Reuse.
Import ListNotations.
Open Scope string_scope.

Definition parser_fields : list frow := [
  mkF "Parser" "src" false false true false;
  mkF "Parser" "bs" true false false false;
  mkF "Parser" "bsp" true false false false;
  mkF "Parser" "r" true false false false;
  mkF "Parser" "w" true false false false;
  mkF "Parser" "f" false false true false;
  mkF "Parser" "spaced" false false false false;
  mkF "Parser" "err" true false false false;
  mkF "Parser" "readErr" true false false false;
  mkF "Parser" "readEOF" true false false false;
  mkF "Parser" "tok" true false false false;
  mkF "Parser" "val" true false false false;
  mkF "Parser" "offs" true false false false;
  mkF "Parser" "line" true false false false;
  mkF "Parser" "col" true false false false;
  mkF "Parser" "pos" false false false false;
  mkF "Parser" "quote" true false false false;
  mkF "Parser" "eqlOffs" true false false false;
  mkF "Parser" "keepComments" false true false true;
  mkF "Parser" "lang" false true false true;
  mkF "Parser" "stopAt" false true false false;
  mkF "Parser" "recoveredErrors" true false false false;
  mkF "Parser" "recoverErrorsMax" false true false true;
  mkF "Parser" "forbidNested" true false false false;
  mkF "Parser" "buriedHdocs" true false false false;
  mkF "Parser" "heredocs" true false false false;
  mkF "Parser" "hdocStops" true false false false;
  mkF "Parser" "parsingDoc" true false false false;
  mkF "Parser" "openNodes" true false false false;
  mkF "Parser" "openBquotes" true false false false;
  mkF "Parser" "openBquoteDbls" true false false false;
  mkF "Parser" "lastBquoteEsc" false false false false;
  mkF "Parser" "rxOpenParens" false false false false;
  mkF "Parser" "rxFirstPart" false false false false;
  mkF "Parser" "accComs" true false false false;
  mkF "Parser" "curComs" true false false false;
  mkF "Parser" "litBatch" true false false false;
  mkF "Parser" "wordBatch" true false false false;
  mkF "Parser" "readBuf" false false false false;
  mkF "Parser" "litBuf" false false false false;
  mkF "Parser" "litBs" true false false false
].

Definition printer_fields : list frow := [
  mkF "Printer" "w" false true false true;
  mkF "Printer" "tabWriter" false true false true;
  mkF "Printer" "cols" false true false true;
  mkF "Printer" "indentSpaces" false true false true;
  mkF "Printer" "binNextLine" false true false true;
  mkF "Printer" "swtCaseIndent" false true false true;
  mkF "Printer" "spaceRedirects" false true false true;
  mkF "Printer" "keepPadding" false true false false;
  mkF "Printer" "minify" false true false true;
  mkF "Printer" "singleLine" false true false true;
  mkF "Printer" "funcNextLine" false true false true;
  mkF "Printer" "wantSpace" true false false false;
  mkF "Printer" "wantNewline" true false false false;
  mkF "Printer" "mustNewline" true false false false;
  mkF "Printer" "wroteSemi" true false false false;
  mkF "Printer" "pendingComments" true false false false;
  mkF "Printer" "firstLine" true false false false;
  mkF "Printer" "line" true false false false;
  mkF "Printer" "lastLevel" true false false false;
  mkF "Printer" "level" true false false false;
  mkF "Printer" "levelIncs" true false false false;
  mkF "Printer" "nestedBinary" true false false false;
  mkF "Printer" "pendingHdocs" true false false false;
  mkF "Printer" "tabsPrinter" false false false false;
  mkF "Printer" "tabsPrinter.w" false false false false;
  mkF "Printer" "tabsPrinter.tabWriter" false false false false;
  mkF "Printer" "tabsPrinter.cols" false false false false;
  mkF "Printer" "tabsPrinter.indentSpaces" false false false false;
  mkF "Printer" "tabsPrinter.binNextLine" false false false false;
  mkF "Printer" "tabsPrinter.swtCaseIndent" false false false false;
  mkF "Printer" "tabsPrinter.spaceRedirects" false false false false;
  mkF "Printer" "tabsPrinter.keepPadding" false false false false;
  mkF "Printer" "tabsPrinter.minify" false false false false;
  mkF "Printer" "tabsPrinter.singleLine" false false false false;
  mkF "Printer" "tabsPrinter.funcNextLine" false false false false;
  mkF "Printer" "tabsPrinter.wantSpace" false false false false;
  mkF "Printer" "tabsPrinter.wantNewline" false false false false;
  mkF "Printer" "tabsPrinter.mustNewline" false false false false;
  mkF "Printer" "tabsPrinter.wroteSemi" false false false false;
  mkF "Printer" "tabsPrinter.pendingComments" false false false false;
  mkF "Printer" "tabsPrinter.firstLine" false false false false;
  mkF "Printer" "tabsPrinter.line" false false false false;
  mkF "Printer" "tabsPrinter.lastLevel" false false false false;
  mkF "Printer" "tabsPrinter.level" false false false false;
  mkF "Printer" "tabsPrinter.levelIncs" false false false false;
  mkF "Printer" "tabsPrinter.nestedBinary" false false false false;
  mkF "Printer" "tabsPrinter.pendingHdocs" false false false false;
  mkF "Printer" "tabsPrinter.tabsPrinter" false false false false
].
