(* GENERATED on every run of ./check C14 by harness/hxsyn from the running Go code. Do not edit. *)
(* Row of a node kind = the steps syntax.Walk was observed to take on a fully populated node of that kind. *)
From Verif Require Import Base.Str Syntax.Schema Syntax.Walk.

Definition gen_walk_table : walk_table := [
  (* 0 File *) Some [
      (* Stmts *) {| w_path := [1%nat]; w_mode := WList |}; 
      (* Last *) {| w_path := [2%nat]; w_mode := WComments |}];
  (* 1 Stmt *) Some [
      (* Comments *) {| w_path := [0%nat]; w_mode := WDeferEndAfter |}; 
      (* Cmd *) {| w_path := [1%nat]; w_mode := WNilable |}; 
      (* Redirs *) {| w_path := [8%nat]; w_mode := WList |}];
  (* 2 Comment *) Some [];
  (* 3 CallExpr *) Some [
      (* Assigns *) {| w_path := [0%nat]; w_mode := WList |}; 
      (* Args *) {| w_path := [1%nat]; w_mode := WList |}];
  (* 4 Assign *) Some [
      (* Name *) {| w_path := [2%nat]; w_mode := WNilable |}; 
      (* Value *) {| w_path := [4%nat]; w_mode := WNilable |}; 
      (* Index *) {| w_path := [3%nat]; w_mode := WNilable |}; 
      (* Array *) {| w_path := [5%nat]; w_mode := WNilable |}];
  (* 5 Lit *) Some [];
  (* 6 Word *) Some [
      (* Parts *) {| w_path := [0%nat]; w_mode := WList |}];
  (* 7 SglQuoted *) Some [];
  (* 8 DblQuoted *) Some [
      (* Parts *) {| w_path := [3%nat]; w_mode := WList |}];
  (* 9 CmdSubst *) Some [
      (* Stmts *) {| w_path := [2%nat]; w_mode := WList |}; 
      (* Last *) {| w_path := [3%nat]; w_mode := WComments |}];
  (* 10 ParamExp *) Some [
      (* Flags *) {| w_path := [3%nat]; w_mode := WNilable |}; 
      (* Param *) {| w_path := [11%nat]; w_mode := WNilable |}; 
      (* NestedParam *) {| w_path := [12%nat]; w_mode := WNilable |}; 
      (* Index *) {| w_path := [13%nat]; w_mode := WNilable |}; 
      (* Modifiers *) {| w_path := [14%nat]; w_mode := WList |}; 
      (* Slice.Offset *) {| w_path := [15%nat;0%nat]; w_mode := WNilable |}; 
      (* Slice.Length *) {| w_path := [15%nat;1%nat]; w_mode := WNilable |}; 
      (* Repl.Orig *) {| w_path := [16%nat;1%nat]; w_mode := WNilable |}; 
      (* Repl.With *) {| w_path := [16%nat;2%nat]; w_mode := WNilable |}; 
      (* Exp.Word *) {| w_path := [18%nat;1%nat]; w_mode := WNilable |}];
  (* 11 Slice *) None;
  (* 12 Replace *) None;
  (* 13 Expansion *) None;
  (* 14 ArithmExp *) Some [
      (* X *) {| w_path := [4%nat]; w_mode := WOne |}];
  (* 15 ExtGlob *) Some [
      (* Pattern *) {| w_path := [2%nat]; w_mode := WOne |}];
  (* 16 ProcSubst *) Some [
      (* Stmts *) {| w_path := [3%nat]; w_mode := WList |}; 
      (* Last *) {| w_path := [4%nat]; w_mode := WComments |}];
  (* 17 BraceExp *) None;
  (* 18 BinaryArithm *) Some [
      (* X *) {| w_path := [2%nat]; w_mode := WOne |}; 
      (* Y *) {| w_path := [3%nat]; w_mode := WOne |}];
  (* 19 UnaryArithm *) Some [
      (* X *) {| w_path := [3%nat]; w_mode := WOne |}];
  (* 20 ParenArithm *) Some [
      (* X *) {| w_path := [2%nat]; w_mode := WOne |}];
  (* 21 FlagsArithm *) Some [
      (* Flags *) {| w_path := [0%nat]; w_mode := WOne |}; 
      (* X *) {| w_path := [1%nat]; w_mode := WNilable |}];
  (* 22 ArrayExpr *) Some [
      (* Elems *) {| w_path := [2%nat]; w_mode := WList |}; 
      (* Last *) {| w_path := [3%nat]; w_mode := WComments |}];
  (* 23 ArrayElem *) Some [
      (* Comments *) {| w_path := [2%nat]; w_mode := WDeferPosAfter |}; 
      (* Index *) {| w_path := [0%nat]; w_mode := WNilable |}; 
      (* Value *) {| w_path := [1%nat]; w_mode := WNilable |}];
  (* 24 Subshell *) Some [
      (* Stmts *) {| w_path := [2%nat]; w_mode := WList |}; 
      (* Last *) {| w_path := [3%nat]; w_mode := WComments |}];
  (* 25 Block *) Some [
      (* Stmts *) {| w_path := [2%nat]; w_mode := WList |}; 
      (* Last *) {| w_path := [3%nat]; w_mode := WComments |}];
  (* 26 IfClause *) Some [
      (* Cond *) {| w_path := [3%nat]; w_mode := WList |}; 
      (* CondLast *) {| w_path := [4%nat]; w_mode := WComments |}; 
      (* Then *) {| w_path := [5%nat]; w_mode := WList |}; 
      (* ThenLast *) {| w_path := [6%nat]; w_mode := WComments |}; 
      (* Last *) {| w_path := [8%nat]; w_mode := WComments |}; 
      (* Else *) {| w_path := [7%nat]; w_mode := WNilable |}];
  (* 27 WhileClause *) Some [
      (* Cond *) {| w_path := [4%nat]; w_mode := WList |}; 
      (* CondLast *) {| w_path := [5%nat]; w_mode := WComments |}; 
      (* Do *) {| w_path := [6%nat]; w_mode := WList |}; 
      (* DoLast *) {| w_path := [7%nat]; w_mode := WComments |}];
  (* 28 ForClause *) Some [
      (* Loop *) {| w_path := [5%nat]; w_mode := WOne |}; 
      (* Do *) {| w_path := [6%nat]; w_mode := WList |}; 
      (* DoLast *) {| w_path := [7%nat]; w_mode := WComments |}];
  (* 29 WordIter *) Some [
      (* Name *) {| w_path := [0%nat]; w_mode := WOne |}; 
      (* Items *) {| w_path := [2%nat]; w_mode := WList |}];
  (* 30 CStyleLoop *) Some [
      (* Init *) {| w_path := [2%nat]; w_mode := WNilable |}; 
      (* Cond *) {| w_path := [3%nat]; w_mode := WNilable |}; 
      (* Post *) {| w_path := [4%nat]; w_mode := WNilable |}];
  (* 31 BinaryCmd *) Some [
      (* X *) {| w_path := [2%nat]; w_mode := WOne |}; 
      (* Y *) {| w_path := [3%nat]; w_mode := WOne |}];
  (* 32 FuncDecl *) Some [
      (* Name *) {| w_path := [3%nat]; w_mode := WNilable |}; 
      (* Names *) {| w_path := [4%nat]; w_mode := WList |}; 
      (* Body *) {| w_path := [5%nat]; w_mode := WOne |}];
  (* 33 ArithmCmd *) Some [
      (* X *) {| w_path := [3%nat]; w_mode := WOne |}];
  (* 34 CaseClause *) Some [
      (* Word *) {| w_path := [4%nat]; w_mode := WOne |}; 
      (* Items *) {| w_path := [5%nat]; w_mode := WList |}; 
      (* Last *) {| w_path := [6%nat]; w_mode := WComments |}];
  (* 35 CaseItem *) Some [
      (* Comments *) {| w_path := [2%nat]; w_mode := WDeferPosAfter |}; 
      (* Patterns *) {| w_path := [3%nat]; w_mode := WList |}; 
      (* Stmts *) {| w_path := [4%nat]; w_mode := WList |}; 
      (* Last *) {| w_path := [5%nat]; w_mode := WComments |}];
  (* 36 TestClause *) Some [
      (* X *) {| w_path := [2%nat]; w_mode := WOne |}];
  (* 37 BinaryTest *) Some [
      (* X *) {| w_path := [2%nat]; w_mode := WOne |}; 
      (* Y *) {| w_path := [3%nat]; w_mode := WOne |}];
  (* 38 UnaryTest *) Some [
      (* X *) {| w_path := [2%nat]; w_mode := WOne |}];
  (* 39 ParenTest *) Some [
      (* X *) {| w_path := [2%nat]; w_mode := WOne |}];
  (* 40 DeclClause *) Some [
      (* Variant *) {| w_path := [0%nat]; w_mode := WNilable |}; 
      (* Args *) {| w_path := [1%nat]; w_mode := WList |}];
  (* 41 TimeClause *) Some [
      (* Stmt *) {| w_path := [2%nat]; w_mode := WNilable |}];
  (* 42 CoprocClause *) Some [
      (* Name *) {| w_path := [1%nat]; w_mode := WNilable |}; 
      (* Stmt *) {| w_path := [2%nat]; w_mode := WOne |}];
  (* 43 LetClause *) Some [
      (* Exprs *) {| w_path := [1%nat]; w_mode := WList |}];
  (* 44 TestDecl *) Some [
      (* Description *) {| w_path := [1%nat]; w_mode := WOne |}; 
      (* Body *) {| w_path := [2%nat]; w_mode := WOne |}];
  (* 45 Redirect *) Some [
      (* N *) {| w_path := [2%nat]; w_mode := WNilable |}; 
      (* Word *) {| w_path := [3%nat]; w_mode := WOne |}; 
      (* Hdoc *) {| w_path := [4%nat]; w_mode := WNilable |}]
].
