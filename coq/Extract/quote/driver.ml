(* driver for the extracted C13 model: compares Go's Quote observations with the model
   and evaluates the model-side round trip.
   usage: c13_model TABLE CASES
     TABLE: lines "lo hi" (printable code point ranges, ascending)
     CASES: lines "<hex s|-> r0 r1 r2 r3 r4", r = Q<hex> | Q- | E<int> | P
   output: "M <line>" for a quote mismatch, "R <line>" for a round-trip failure, "done <n>" *)
open Quote_model

let rec pos_of_int i =
  if i = 1 then XH else if i land 1 = 1 then XI (pos_of_int (i lsr 1)) else XO (pos_of_int (i lsr 1))
let n_of_int i = if i = 0 then N0 else Npos (pos_of_int i)
let rec int_of_pos = function XH -> 1 | XO p -> 2 * int_of_pos p | XI p -> 2 * int_of_pos p + 1
let int_of_n = function N0 -> 0 | Npos p -> int_of_pos p

let unhex s =
  if s = "-" then [] else
  List.init (String.length s / 2) (fun i -> n_of_int (int_of_string ("0x" ^ String.sub s (2 * i) 2)))

let read_lines f =
  let ic = open_in f in
  let rec go acc = match input_line ic with l -> go (l :: acc) | exception End_of_file -> close_in ic; List.rev acc in
  go []

let hex_of l = if l = [] then "" else String.concat "" (List.map (fun n -> Printf.sprintf "%02x" (int_of_n n)) l)

let langs = [LBash; LPosix; LMksh; LBats; LZsh]

(* -unq CASES: lines "<hex q> g0 g1 g2 g3 g4 bash dash", g = W:<hex> | N, bash/dash = W:<hex> | ?
   whenever the model's unquote gives Some t, the Go parser+expander (and the shell, if it ran) must give t.
   output: "U <line> <lang>" Go differs, "B <line>" bash differs, "D <line>" dash differs, "some <n>", "done <n>" *)
let unq_main file =
  let n = ref 0 and some = ref 0 in
  List.iteri (fun i line ->
    match String.split_on_char ' ' line with
    | qh :: rest when List.length rest = 7 ->
      incr n;
      let q = unhex qh in
      List.iteri (fun li l ->
        match unquote l q with
        | Some t ->
          incr some;
          let want = "W:" ^ hex_of t in
          if List.nth rest li <> "?" && List.nth rest li <> want then Printf.printf "U %d %d\n" i li;
          if li = 0 && List.nth rest 5 <> "?" && List.nth rest 5 <> want then Printf.printf "B %d\n" i;
          if li = 1 && List.nth rest 6 <> "?" && List.nth rest 6 <> want then Printf.printf "D %d\n" i
        | None -> ()) langs
    | _ -> Printf.printf "U %d -1\n" i) (read_lines file);
  Printf.printf "some %d\ndone %d\n" !some !n

let quote_main () =
  let table = Array.of_list (List.map (fun l -> Scanf.sscanf l "%d %d" (fun a b -> (a, b))) (read_lines Sys.argv.(1))) in
  let is_print_int x =
    let rec go lo hi = if lo >= hi then false else
      let m = (lo + hi) / 2 in
      let (a, b) = table.(m) in
      if x < a then go lo m else if x > b then go (m + 1) hi else true in
    go 0 (Array.length table) in
  let is_print n = is_print_int (int_of_n n) in
  let n = ref 0 in
  List.iteri (fun i line ->
    match String.split_on_char ' ' line with
    | sh :: rs when List.length rs = 5 ->
      incr n;
      let s = unhex sh in
      let ok = ref true and rt = ref true in
      List.iter2 (fun l r ->
        let m = quote is_print s l in
        let same = match m with
          | Ok q -> String.length r > 0 && r.[0] = 'Q' && q = unhex (String.sub r 1 (String.length r - 1))
          | Err c -> String.length r > 0 && r.[0] = 'E' && int_of_n c = int_of_string (String.sub r 1 (String.length r - 1))
          | Panic -> r = "P" in
        if not same then ok := false;
        (match m with
         | Ok q -> if unquote l q <> Some s then rt := false
         | _ -> ())) langs rs;
      if not !ok then Printf.printf "M %d\n" i;
      if not !rt then Printf.printf "R %d\n" i
    | _ -> Printf.printf "M %d\n" i) (read_lines Sys.argv.(2));
  Printf.printf "done %d\n" !n

let () = if Sys.argv.(1) = "-unq" then unq_main Sys.argv.(2) else quote_main ()
