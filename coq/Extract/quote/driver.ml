(* driver for the extracted C13 model: compares Go's Quote observations with the model
   and evaluates the model-side round trip.
   usage: c13_model TABLE CASES
     TABLE: lines "lo hi" (printable code point ranges, ascending)
     CASES: lines "<hex s|-> r0 r1 r2 r3 r4", r = Q<hex> | Q- | E<int> | P
   output: "M <line>" for a quote mismatch, "R <line>" for a round-trip failure, "done <n>" *)
open Quote_model

let rec pos_of_int i =
  if i = 1 then XH else if i land 1 = 1 then XI (pos_of_int (i lsr 1)) else XO (pos_of_int (i lsr 1))
let n_of_int i = if i = 0 then N0 else Npos (pos_of_int i)
let rec int_of_pos = function XH -> 1 | XO p -> 2 * int_of_pos p | XI p -> 2 * int_of_pos p + 1
let int_of_n = function N0 -> 0 | Npos p -> int_of_pos p

let unhex s =
  if s = "-" then [] else
  List.init (String.length s / 2) (fun i -> n_of_int (int_of_string ("0x" ^ String.sub s (2 * i) 2)))

let read_lines f =
  let ic = open_in f in
  let rec go acc = match input_line ic with l -> go (l :: acc) | exception End_of_file -> close_in ic; List.rev acc in
  go []

let () =
  let table = Array.of_list (List.map (fun l -> Scanf.sscanf l "%d %d" (fun a b -> (a, b))) (read_lines Sys.argv.(1))) in
  let is_print_int x =
    let rec go lo hi = if lo >= hi then false else
      let m = (lo + hi) / 2 in
      let (a, b) = table.(m) in
      if x < a then go lo m else if x > b then go (m + 1) hi else true in
    go 0 (Array.length table) in
  let is_print n = is_print_int (int_of_n n) in
  let langs = [LBash; LPosix; LMksh; LBats; LZsh] in
  let n = ref 0 in
  List.iteri (fun i line ->
    match String.split_on_char ' ' line with
    | sh :: rs when List.length rs = 5 ->
      incr n;
      let s = unhex sh in
      let ok = ref true and rt = ref true in
      List.iter2 (fun l r ->
        let m = quote is_print s l in
        let same = match m with
          | Ok q -> String.length r > 0 && r.[0] = 'Q' && q = unhex (String.sub r 1 (String.length r - 1))
          | Err c -> String.length r > 0 && r.[0] = 'E' && int_of_n c = int_of_string (String.sub r 1 (String.length r - 1))
          | Panic -> r = "P" in
        if not same then ok := false;
        (match m with
         | Ok q -> if unquote l q <> Some s then rt := false
         | _ -> ())) langs rs;
      if not !ok then Printf.printf "M %d\n" i;
      if not !rt then Printf.printf "R %d\n" i
    | _ -> Printf.printf "M %d\n" i) (read_lines Sys.argv.(2));
  Printf.printf "done %d\n" !n
