(* Extract/quote/QuoteExtract.v — extraction of the C13 model to OCaml for volume runs.
   Only ExtrOcamlBasic (bool/option/list/prod/unit); N, positive, nat stay inductive. *)
From Verif Require Import Base.Str Base.Utf8 Syntax.Quote.
Require Extraction.
Require Import ExtrOcamlBasic.
Extraction Language OCaml.
Extraction "Extract/quote/quote_model.ml" quote unquote.
