(* Proofs/BracesSeqTermProofs.v — C16: a clean sequence {x..y[..n]} gives the same list on both sides. *)
From Verif Require Import Base.Str Proofs.StrProofs Expand.Braces Proofs.BracesProofs Proofs.BracesSeqProofs.
Require Import ZifyN ZifyNat ZifyBool.
Open Scope N_scope.

(* ------------------------------------------------------------------ clean sequences *)

Record sq := mkSq { sx : str; sy : str; sn : option str }.
Definition sq_tail (d : sq) : str := match sn d with None => [] | Some n => DOT :: DOT :: n end.
Definition sq_text (d : sq) : str := sx d ++ DOT :: DOT :: sy d ++ sq_tail d.
Definition sq_more (d : sq) : list word := match sn d with None => [] | Some n => [[PLit n]] end.
Definition sq_es (d : sq) : list word := [PLit (sx d)] :: [PLit (sy d)] :: sq_more d.

Definition step_ok (d : sq) : bool :=
  match sn d with
  | None => true
  | Some n => is_num n && in64 (num_val n) && (MIN64 <? num_val n)%Z
  end.
Definition sq_letters (d : sq) : bool :=
  match sx d, sy d with
  | [a], [b] => ascii_letter a && ascii_letter b
  | _, _ => false
  end.
Definition sq_numbers (d : sq) : bool :=
  is_num (sx d) && is_num (sy d) && in64 (num_val (sx d)) && in64 (num_val (sy d))
  && negb (subover (num_val (sx d)) (num_val (sy d))).
(* letters, or int64 decimal numbers (optional '-', leading zeros allowed) outside bash's end-start overflow guard;
   the step an int64 decimal number other than -2^63 *)
Definition sq_okb (d : sq) : bool := step_ok d && (sq_letters d || sq_numbers d).

Definition sq_i0 (d : sq) : Z := match sn d with None => 1%Z | Some n => num_val n end.

Definition alnum (s : str) : bool := forallb (fun c => is_digit c || ascii_letter c || (c =? MINUS)) s.

Lemma is_num_alnum : forall s, is_num s = true -> alnum s = true /\ s <> [].
Proof.
  intros [|c s'] H; [discriminate|]. split; [|discriminate]. unfold is_num in H. unfold alnum.
  assert (D: forall d, digits d = true -> forallb (fun c => is_digit c || ascii_letter c || (c =? MINUS)) d = true).
  { intros d Hd. destruct (digits_inv _ Hd) as (_ & _ & _ & _ & Hf). clear Hd. induction d; [reflexivity|].
    simpl in *. apply andb_prop in Hf. destruct Hf as [Ha Hf]. rewrite Ha. simpl. auto. }
  destruct (c =? MINUS) eqn:Em.
  - simpl. rewrite Em, !orb_true_r. simpl. now apply D.
  - now apply D.
Qed.

Lemma alnum_nodot : forall s r, alnum s = true -> cut_dotdot (s ++ DOT :: DOT :: r) = Some (s, r).
Proof.
  induction s as [|c s IH]; intros r H; [reflexivity|].
  simpl in H. apply andb_prop in H. destruct H as [Hc Hs].
  assert (Ec: (c =? DOT) = false) by (unfold is_digit, ascii_letter, MINUS, DOT in *; lia).
  change ((c :: s) ++ DOT :: DOT :: r) with (c :: (s ++ DOT :: DOT :: r)). cbn [cut_dotdot].
  assert (Es: starts_dotdot (c :: s ++ DOT :: DOT :: r) = false).
  { unfold starts_dotdot. destruct (s ++ DOT :: DOT :: r); [reflexivity|]. now rewrite Ec. }
  rewrite Es, (IH r Hs). reflexivity.
Qed.

Lemma word_lit_single : forall x, word_lit [PLit x] = x.
Proof. intros. unfold word_lit. simpl. now rewrite app_nil_r. Qed.

Lemma sq_tail_head : forall d, no_digit_head (sq_tail d) = true /\ match sq_tail d with [] => true | e0 :: _ => e0 =? DOT end = true.
Proof. intros d. unfold sq_tail. destruct (sn d); split; reflexivity. Qed.

Lemma incr_of_tail : forall d, step_ok d = true -> incr_of (sq_tail d) = Some (sq_i0 d).
Proof.
  intros d H. unfold step_ok, sq_tail, sq_i0 in *. destruct (sn d) as [n|]; [|reflexivity].
  apply andb_prop in H. destruct H as [H _]. apply andb_prop in H. destruct H as [Hn Hi].
  destruct n as [|c n']; [discriminate|].
  change (incr_of (DOT :: DOT :: c :: n')) with
    (match strtoimax (c :: n') with Some (v, []) => if in64 v then Some v else None | _ => None end).
  destruct (readers_agree _ Hn) as [-> _]. now rewrite Hi.
Qed.

Lemma seq_step_more : forall d, step_ok d = true ->
  seq_step (sq_more d) = Z.abs (if (sq_i0 d =? 0)%Z then 1%Z else sq_i0 d) /\ (MIN64 < sq_i0 d)%Z.
Proof.
  intros d H. unfold step_ok, sq_more, sq_i0 in *. destruct (sn d) as [n|]; [|split; [reflexivity|unfold MIN64; lia]].
  apply andb_prop in H. destruct H as [H Hm]. apply andb_prop in H. destruct H as [Hn Hi].
  split; [|lia]. unfold seq_step. rewrite word_lit_single, (parse_int_num64 n Hn Hi). cbn [fst].
  set (v := num_val n) in *. unfold in64, MIN64, MAX64 in *.
  destruct (v <? 0)%Z eqn:E.
  - rewrite wrap64_id by (unfold in64, MIN64, MAX64; lia).
    assert (E2: (- v <? 0)%Z = false) by lia. rewrite E2.
    destruct (- v =? 0)%Z eqn:E3; destruct (v =? 0)%Z eqn:E4; lia.
  - rewrite E. destruct (v =? 0)%Z eqn:E4; lia.
Qed.

Lemma hlz_z : forall s t,
  let r := s ++ t in
  (Nat.ltb 1 (length s) && (hd 0 r =? ZERO))
  || (Nat.ltb 2 (length s) && (hd 0 r =? MINUS) && match tl r with d :: _ => d =? ZERO | [] => false end)
  = has_leading_zeros s.
Proof.
  intros s t r. subst r. unfold has_leading_zeros.
  destruct s as [|a [|b [|c s]]]; simpl; try reflexivity.
  all: destruct (a =? MINUS) eqn:Em; try reflexivity.
  all: try (apply N.eqb_eq in Em; subst a; simpl; reflexivity).
  all: simpl; now rewrite orb_false_r.
Qed.

Lemma zpad_width_go : forall chars x y t, y <> [] ->
  zpad_width chars x (y ++ t) (length y)
  = if negb chars && (has_leading_zeros x || has_leading_zeros y) then Nat.max (length x) (length y) else O.
Proof.
  intros chars x y t Hy. unfold zpad_width.
  pose proof (hlz_z x []) as H1. rewrite app_nil_r in H1. cbv zeta in H1.
  pose proof (hlz_z y t) as H2. cbv zeta in H2.
  rewrite <- H1, <- H2. rewrite <- !orb_assoc. reflexivity.
Qed.

Lemma flat_comma_none : forall t, forallb (fun c => negb (c =? COMMA) && negb (c =? BS)) t = true -> flat_comma t = false.
Proof.
  induction t as [|c t IH]; intros H; [reflexivity|]. simpl in H. apply andb_prop in H. destruct H as [Hc Ht].
  apply andb_prop in Hc. destruct Hc as [H1 H2]. apply negb_true_iff in H1, H2. simpl. rewrite H2, H1. auto.
Qed.

Lemma alnum_seqchars : forall s, alnum s = true -> forallb (fun c => negb (c =? COMMA) && negb (c =? BS)) s = true.
Proof.
  induction s as [|c s IH]; intros H; [reflexivity|]. simpl in *. apply andb_prop in H. destruct H as [Hc Hs].
  rewrite IH by exact Hs. rewrite andb_true_r. unfold is_digit, ascii_letter, MINUS, COMMA, BS in *. lia.
Qed.

(* ------------------------------------------------------------------ both sides on a clean sequence *)

Definition sq_vals (d : sq) : list str := match seq_values (sq_es d) with Ok v => v | _ => [] end.
Definition tack_of (text : str) : sres :=
  match seq_term text with
  | SeqList l => Words l
  | SeqMany => Many
  | NotSeq | SeqGuard => Words [LB :: text ++ [RB]]
  end.

Lemma lhs_kind_num : forall x, is_num x = true -> in64 (num_val x) = true -> lhs_kind x = Some (false, num_val x).
Proof. intros x H I. unfold lhs_kind. destruct (readers_agree x H) as [-> _]. now rewrite I. Qed.

Lemma lhs_kind_letter : forall a, ascii_letter a = true -> lhs_kind [a] = Some (true, Z.of_N a).
Proof. intros a H. unfold lhs_kind. rewrite (strtoimax_letter a [] H), H. reflexivity. Qed.

Lemma rhs_kind_num : forall y t, is_num y = true -> in64 (num_val y) = true ->
  no_digit_head t = true -> match t with [] => true | e0 :: _ => e0 =? DOT end = true ->
  rhs_kind (y ++ t) = Some (false, num_val y, t, length y).
Proof.
  intros y t H I Ht1 Ht2. pose proof (strtoimax_num y t H Ht1) as ST.
  destruct y as [|c y']; [discriminate|]. change ((c :: y') ++ t) with (c :: (y' ++ t)) in *.
  unfold rhs_kind. rewrite ST, I, Ht2. cbn [andb].
  assert (C: is_digit c || ((c =? PLUS) || (c =? MINUS)) && match y' ++ t with d :: _ => is_digit d | [] => false end = true).
  { unfold is_num in H. destruct (c =? MINUS) eqn:Em.
    - destruct (digits_inv _ H) as (c1 & d1 & -> & Hc1 & _). simpl. rewrite Hc1. now rewrite orb_true_r, orb_true_r.
    - destruct (digits_inv _ H) as (c1 & d1 & E0 & Hc1 & _). injection E0 as -> ->. now rewrite Hc1. }
  rewrite C. f_equal. f_equal. change (c :: y' ++ t) with ((c :: y') ++ t). rewrite app_length. lia.
Qed.

Lemma rhs_kind_letter : forall b t, ascii_letter b = true ->
  match t with [] => true | e0 :: _ => e0 =? DOT end = true ->
  rhs_kind (b :: t) = Some (true, Z.of_N b, t, 1%nat).
Proof.
  intros b t H Ht. destruct (letter_not_digit b H) as (Hd & Hm & Hp). unfold rhs_kind.
  rewrite Hd, Hm, Hp, H, Ht. reflexivity.
Qed.

Lemma letter_range : forall a, ascii_letter a = true -> (0 <= Z.of_N a < 128)%Z.
Proof. intros a H. unfold ascii_letter in H. lia. Qed.

Lemma letter_alnum : forall a, ascii_letter a = true -> alnum [a] = true.
Proof. intros a H. unfold alnum. simpl. now rewrite H, orb_true_r. Qed.

Theorem sq_agree : forall d, sq_okb d = true ->
  seq_values (sq_es d) = Ok (sq_vals d) /\ sq_vals d <> [] /\ seq_broken (sq_es d) = false
  /\ tack_of (sq_text d) = lim (sq_vals d) /\ flat_comma (sq_text d) = false
  /\ alnum (sx d) = true /\ alnum (sy d) = true /\ sx d <> [] /\ sy d <> []
  /\ match sn d with Some n => alnum n = true /\ n <> [] | None => True end.
Proof.
  intros d H. unfold sq_okb in H. apply andb_prop in H. destruct H as [Hst Hk].
  destruct (seq_step_more d Hst) as [Estep Hi0].
  pose proof (incr_of_tail d Hst) as Einc.
  destruct (sq_tail_head d) as [Tt1 Tt2].
  assert (Hn: match sn d with Some n => alnum n = true /\ n <> [] | None => True end).
  { unfold step_ok in Hst. destruct (sn d) as [n|]; [|exact I].
    apply andb_prop in Hst. destruct Hst as [Hst _]. apply andb_prop in Hst. destruct Hst as [Hn _].
    now apply is_num_alnum. }
  assert (Main: forall chars from to,
            alnum (sx d) = true -> alnum (sy d) = true -> sx d <> [] -> sy d <> [] ->
            seq_values (sq_es d) = Ok (seq_mk (sx d) (sy d) (sq_more d) chars from to) ->
            lhs_kind (sx d) = Some (chars, from) ->
            rhs_kind (sy d ++ sq_tail d) = Some (chars, to, sq_tail d, length (sy d)) ->
            in64 from = true -> in64 to = true -> subover from to = false ->
            (chars = true -> (0 <= from < 128)%Z /\ (0 <= to < 128)%Z) ->
            seq_broken (sq_es d) = false ->
            seq_values (sq_es d) = Ok (sq_vals d) /\ sq_vals d <> [] /\ seq_broken (sq_es d) = false
            /\ tack_of (sq_text d) = lim (sq_vals d) /\ flat_comma (sq_text d) = false
            /\ alnum (sx d) = true /\ alnum (sy d) = true /\ sx d <> [] /\ sy d <> []
            /\ match sn d with Some n => alnum n = true /\ n <> [] | None => True end).
  { intros chars from to Ax Ay Nx Ny EV EL ER If It Hg Hc Hb.
    assert (EVs: sq_vals d = seq_mk (sx d) (sy d) (sq_more d) chars from to) by (unfold sq_vals; now rewrite EV).
    pose proof (core_seq chars from to (sq_i0 d)
                  (if negb chars && (has_leading_zeros (sx d) || has_leading_zeros (sy d))
                   then Nat.max (length (sx d)) (length (sy d)) else O)
                  (seq_step (sq_more d)) If It Hg Hi0 Estep Hc) as CORE.
    cbv zeta in CORE. fold (seq_mk (sx d) (sy d) (sq_more d) chars from to) in CORE. rewrite <- EVs in CORE.
    destruct CORE as [NE CORE].
    assert (ET: seq_term (sq_text d)
                = mkseq chars from to (sq_i0 d)
                    (if negb chars && (has_leading_zeros (sx d) || has_leading_zeros (sy d))
                     then Nat.max (length (sx d)) (length (sy d)) else O)).
    { unfold seq_term, sq_text. rewrite (alnum_nodot _ _ Ax).
      destruct (sx d) as [|x0 x'] eqn:Ex; [congruence|].
      destruct (sy d ++ sq_tail d) as [|y0 y'] eqn:Ey; [destruct (sy d); [congruence|discriminate]|].
      rewrite EL, ER, Einc, Bool.eqb_reflx. cbn [negb].
      rewrite <- Ey. rewrite zpad_width_go by exact Ny. reflexivity. }
    split; [now rewrite EVs|]. split; [exact NE|]. split; [exact Hb|]. split.
    - unfold tack_of. rewrite ET. destruct CORE as [[-> ->]|[-> ->]]; reflexivity.
    - split; [|auto 10].
      apply flat_comma_none. unfold sq_text. rewrite forallb_app. rewrite (alnum_seqchars _ Ax). cbn [forallb andb].
      change ((negb (DOT =? COMMA) && negb (DOT =? BS))) with true. cbn [andb].
      rewrite forallb_app, (alnum_seqchars _ Ay). cbn [andb]. unfold sq_tail.
      destruct (sn d) as [n|]; [|reflexivity]. destruct Hn as [An _]. cbn [forallb].
      change ((negb (DOT =? COMMA) && negb (DOT =? BS))) with true. cbn [andb]. now apply alnum_seqchars. }
  apply orb_prop in Hk. destruct Hk as [Hl|Hnum].
  - (* letters *)
    unfold sq_letters in Hl. destruct (sx d) as [|a [|? ?]] eqn:Ex; try discriminate.
    destruct (sy d) as [|b [|? ?]] eqn:Ey; try discriminate.
    apply andb_prop in Hl. destruct Hl as [La Lb].
    rewrite <- Ex, <- Ey in *.
    apply (Main true (Z.of_N a) (Z.of_N b)).
    + rewrite Ex. now apply letter_alnum.
    + rewrite Ey. now apply letter_alnum.
    + rewrite Ex. discriminate.
    + rewrite Ey. discriminate.
    + unfold seq_values, sq_es. rewrite !word_lit_single, Ex, Ey.
      rewrite (parse_int_letter a La), (parse_int_letter b Lb). reflexivity.
    + rewrite Ex. now apply lhs_kind_letter.
    + rewrite Ey. cbn [app length]. now apply rhs_kind_letter.
    + pose proof (letter_range a La). unfold in64, MIN64, MAX64. lia.
    + pose proof (letter_range b Lb). unfold in64, MIN64, MAX64. lia.
    + pose proof (letter_range a La). pose proof (letter_range b Lb). unfold subover, MIN64, MAX64. lia.
    + intros _. split; now apply letter_range.
    + unfold seq_broken, sq_es, seq_elem_kind, parse_ok. rewrite !word_lit_single, Ex, Ey.
      rewrite (parse_int_letter a La), (parse_int_letter b Lb). cbn [snd]. rewrite La, Lb. cbn.
      unfold sq_more, step_ok in *. destruct (sn d) as [n|]; [|reflexivity].
      apply andb_prop in Hst. destruct Hst as [Hst _]. apply andb_prop in Hst. destruct Hst as [Hnn Hin].
      unfold parse_ok. rewrite word_lit_single, (parse_int_num64 n Hnn Hin). reflexivity.
  - (* numbers *)
    unfold sq_numbers in Hnum. apply andb_prop in Hnum. destruct Hnum as [Hnum Hg]. apply negb_true_iff in Hg.
    apply andb_prop in Hnum. destruct Hnum as [Hnum Iy]. apply andb_prop in Hnum. destruct Hnum as [Hnum Ix].
    apply andb_prop in Hnum. destruct Hnum as [Nx Ny].
    destruct (is_num_alnum _ Nx) as [Ax Ex]. destruct (is_num_alnum _ Ny) as [Ay Ey].
    apply (Main false (num_val (sx d)) (num_val (sy d))); auto.
    + unfold seq_values, sq_es. rewrite !word_lit_single.
      rewrite (parse_int_num64 _ Nx Ix), (parse_int_num64 _ Ny Iy). reflexivity.
    + now apply lhs_kind_num.
    + now apply rhs_kind_num.
    + discriminate.
    + unfold seq_broken, sq_es, seq_elem_kind, parse_ok. rewrite !word_lit_single.
      rewrite (parse_int_num64 _ Nx Ix), (parse_int_num64 _ Ny Iy). cbn.
      unfold sq_more, step_ok in *. destruct (sn d) as [n|]; [|reflexivity].
      apply andb_prop in Hst. destruct Hst as [Hst _]. apply andb_prop in Hst. destruct Hst as [Hnn Hin].
      unfold parse_ok. rewrite word_lit_single, (parse_int_num64 n Hnn Hin). reflexivity.
Qed.
