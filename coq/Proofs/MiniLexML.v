(* Proofs/MiniLexML.v — lexing layer for the default (multi-line) layout: next_token iterated over
   R_file yields the token list of the tree with TNewl tokens where the layout breaks lines. *)
From Verif Require Import Base.Str Syntax.Word Syntax.MiniAst Syntax.MiniPrinter Syntax.MiniParser
  Syntax.MiniPos Syntax.MiniPrinterML Proofs.WordProofs Proofs.MiniRender Proofs.MiniLex Proofs.MiniRenderML.
Require Import ZifyN ZifyBool.
Open Scope N_scope.

Fixpoint u_cmd (c : cmd) : list tok :=
  match c with
  | Call args => map TWord args
  | Block ss => K kw_lbrace :: u_lines ss ++ [TNewl; K kw_rbrace]
  | Subshell ss => TLparen :: u_lines ss ++ [TNewl; TRparen]
  | IfClause c t e => K kw_if :: u_cond c ++ K kw_then :: u_lines t ++ u_else e
  | WhileClause u c b =>
      K (if u then kw_until else kw_while) :: u_cond c ++ K kw_do :: u_lines b ++ [TNewl; K kw_done]
  | Binary op x y => u_stmt x ++ t_op op :: u_stmt y
  end
with u_stmt (s : stmt) : list tok :=
  match s with
  | Stmt n c b => (if n then [K kw_bang] else []) ++ u_cmd c ++ (if b then [TAmp] else [])
  end
with u_lines (ss : stmts) : list tok :=
  match ss with
  | SNil => []
  | SCons s rest => TNewl :: u_stmt s ++ u_lines rest
  end
with u_cond (ss : stmts) : list tok :=
  match ss with
  | SNil => []
  | SCons s rest =>
      match rest with
      | SNil => u_stmt s ++ (if stmt_bg s then [] else [TSemi])
      | _ => (TNewl :: u_stmt s ++ u_lines rest) ++ [TNewl]
      end
  end
with u_else (e : else_) : list tok :=
  match e with
  | NoElse => [TNewl; K kw_fi]
  | Elif c t e' => TNewl :: K kw_elif :: u_cond c ++ K kw_then :: u_lines t ++ u_else e'
  | Else t => TNewl :: K kw_else :: u_lines t ++ [TNewl; K kw_fi]
  end.

(* ------------------------------------------------------------------ newline + indentation *)
Definition nonblank (s : str) : Prop :=
  match s with c :: _ => c <> 32 /\ c <> 9 /\ c <> 10 | [] => False end.

Lemma nonblank_app : forall a b, nonblank a -> nonblank (a ++ b).
Proof. intros [|c a] b H; [contradiction|exact H]. Qed.

Lemma skip_bl_repeat : forall c n X, (c = 9 \/ c = 32) -> nonblank X -> skip_blank_lines (repeat c n ++ X) = X.
Proof.
  intros c n X Hc HX. induction n as [|n IH].
  - destruct X as [|x X]; [contradiction|]. simpl in HX. simpl.
    replace (x =? 32) with false by lia. replace (x =? 9) with false by lia. replace (x =? 10) with false by lia.
    reflexivity.
  - cbn [repeat app skip_blank_lines]. destruct Hc as [-> | ->]; simpl; exact IH.
Qed.

Lemma next_nl : forall ind d X, nonblank X -> next_token (nl ind d ++ X) = Some (TNewl, X).
Proof.
  intros ind d X HX. unfold nl, s_nl. cbn [app]. unfold next_token. cbn [skip_blanks].
  replace (10 =? 32) with false by reflexivity. replace (10 =? 9) with false by reflexivity. cbn [orb].
  replace (10 =? 10) with true by reflexivity.
  unfold indent_bytes. destruct ind; rewrite skip_bl_repeat; auto.
Qed.

Lemma delim_tail_nl : forall ind d X, delim_tail (nl ind d ++ X).
Proof. intros. unfold nl, s_nl. simpl. auto. Qed.

(* first byte of a rendered statement / keyword is not a blank *)
Lemma r_words_nb : forall ws, ws <> [] -> Forall wf_sword ws -> nonblank (r_words ws).
Proof.
  intros [|w rest] Hne Hf; [congruence|]. inversion Hf; subst.
  destruct (sword_first w) as (c & t & E & Hc); [assumption|].
  cbn [r_words]. rewrite E. simpl. unfold word_start in Hc. lia.
Qed.

Lemma first_nb :
  (forall c, wf_cmd c -> forall ind d, nonblank (R_cmd ind d c)) /\
  (forall s, wf_stmt s -> forall ind d, nonblank (R_stmt ind d s)) /\
  (forall ss : stmts, True) /\ (forall e : else_, True).
Proof.
  apply mini_mutind; try (intros; exact I).
  - intros args (Hf & Hw) ind d. cbn. destruct args; [contradiction|]. apply r_words_nb; [discriminate|assumption].
  - intros. cbn. lia.
  - intros. cbn. lia.
  - intros. cbn. lia.
  - intros u. intros. cbn. destruct u; simpl; lia.
  - intros op x IHx y IHy (Wx & _) ind d. cbn [R_cmd]. apply nonblank_app. apply IHx; assumption.
  - intros n c IHc b (Wc & _) ind d. cbn [R_stmt]. destruct n.
    + cbn. lia.
    + cbn [app]. apply nonblank_app. apply IHc; assumption.
Qed.

Lemma kw_nb : forall v X, plain_kw v = true -> nonblank (v ++ X).
Proof.
  intros v X H. destruct (plain_kw_inv v H) as (c & t & -> & Hb & _).
  cbn [forallb] in Hb. apply andb_prop in Hb. destruct Hb as (Hb & _). apply andb_prop in Hb. destruct Hb as (Hb & _).
  simpl. unfold lit_stop, word_break in Hb. lia.
Qed.

(* ------------------------------------------------------------------ the lexing theorem *)
Lemma u_nonempty : forall s, wf_stmt s -> u_stmt s <> [].
Proof.
  intros [n c b] (Wc & _). cbn. destruct n; [discriminate|]. cbn.
  assert (u_cmd c <> []).
  { clear b. revert Wc. destruct c; cbn; try discriminate.
    - destruct args; [intros (_ & F); contradiction|intros _; discriminate].
    - intros _ E. apply app_eq_nil in E. destruct E as (_ & E). discriminate. }
  destruct (u_cmd c); [congruence|simpl; discriminate].
Qed.

Definition UL_cmd (c : cmd) : Prop := wf_cmd c -> forall ind d tail, delim_tail tail ->
  yields (R_cmd ind d c ++ tail) (u_cmd c) tail.
Definition UL_stmt (s : stmt) : Prop := wf_stmt s -> forall ind d tail, delim_tail tail ->
  yields (R_stmt ind d s ++ tail) (u_stmt s) tail.
Definition UL_lines (ss : stmts) : Prop := wf_stmts ss ->
  (forall ind k tail, delim_tail tail -> yields (R_lines ind k ss ++ tail) (u_lines ss) tail) /\
  (ss <> SNil -> forall ind d kw tail, plain_kw kw = true -> delim_tail tail ->
     yields (R_cond ind d ss ++ kw ++ tail) (u_cond ss ++ [K kw]) tail).
Definition UL_else (e : else_) : Prop := wf_else e -> forall ind d tail, delim_tail tail ->
  yields (R_else ind d e ++ tail) (u_else e) tail.

(* newline, indentation, keyword *)
Lemma yields_nl_kw : forall ind d kw tail, plain_kw kw = true -> delim_tail tail ->
  yields (nl ind d ++ kw ++ tail) [TNewl; K kw] tail.
Proof.
  intros. econstructor; [apply next_nl; apply kw_nb; assumption|]. apply yields_kw; assumption.
Qed.

Theorem lexing_ml :
  (forall c, UL_cmd c) /\ (forall s, UL_stmt s) /\ (forall ss, UL_lines ss) /\ (forall e, UL_else e).
Proof.
  destruct first_nb as (_ & NBs & _).
  apply mini_mutind.
  - (* Call *) intros args (Hf & _) ind d tail Ht. cbn [R_cmd u_cmd]. apply yields_words; assumption.
  - (* Block *)
    intros ss IH (Hne & W) ind d tail Ht. cbn [R_cmd u_cmd]. rewrite <- !app_assoc.
    destruct (IH W) as (IHl & _).
    destruct ss as [|s0 r]; [congruence|].
    econstructor; [apply next_token_kw; [reflexivity|cbn [R_lines]; rewrite <- app_assoc; apply delim_tail_nl]|].
    eapply yields_app; [apply IHl; apply delim_tail_nl|]. apply yields_nl_kw; [reflexivity|assumption].
  - (* Subshell *)
    intros ss IH (Hne & W) ind d tail Ht. cbn [R_cmd u_cmd]. rewrite <- !app_assoc.
    destruct (IH W) as (IHl & _).
    destruct ss as [|s0 r]; [congruence|].
    assert (NL : next_token (s_lparen ++ R_lines ind (S d) (SCons s0 r) ++ nl ind d ++ s_rparen ++ tail) =
                 Some (TLparen, R_lines ind (S d) (SCons s0 r) ++ nl ind d ++ s_rparen ++ tail)).
    { cbn [R_lines]. unfold nl, s_nl. rewrite <- !app_assoc. cbn [app]. apply next_lparen. lia. }
    econstructor; [exact NL|].
    eapply yields_app; [apply IHl; apply delim_tail_nl|].
    econstructor; [apply next_nl; simpl; lia|]. apply yields_one. reflexivity.
  - (* IfClause *)
    intros c IHc t IHt e IHe (Hc & Ht & Wc & Wt & We) ind d tail Htl. cbn [R_cmd u_cmd]. rewrite <- !app_assoc.
    destruct (IHc Wc) as (_ & IHcc). destruct (IHt Wt) as (IHtl & _).
    assert (DT : delim_tail (R_cond ind d c ++ kw_then ++ R_lines ind (S d) t ++ R_else ind d e ++ tail)).
    { destruct c as [|s0 [|s1 r]]; [congruence| |]; cbn [R_cond]; rewrite <- ?app_assoc; [simpl; auto|apply delim_tail_nl]. }
    econstructor; [apply next_token_kw; [reflexivity|exact DT]|].
    assert (DT2 : delim_tail (R_lines ind (S d) t ++ R_else ind d e ++ tail)).
    { destruct t; [congruence|]. cbn [R_lines]. rewrite <- app_assoc. apply delim_tail_nl. }
    change (K kw_then :: u_lines t ++ u_else e) with ([K kw_then] ++ u_lines t ++ u_else e). rewrite (app_assoc (u_cond c)).
    eapply yields_app; [apply (IHcc Hc ind d kw_then); [reflexivity|exact DT2]|].
    eapply yields_app; [apply IHtl; destruct e; cbn [R_else]; rewrite <- app_assoc; apply delim_tail_nl|].
    apply IHe; assumption.
  - (* WhileClause *)
    intros u c IHc b IHb (Hc & Hb & Wc & Wb) ind d tail Htl. cbn [R_cmd u_cmd]. rewrite <- !app_assoc.
    destruct (IHc Wc) as (_ & IHcc). destruct (IHb Wb) as (IHbl & _).
    assert (DT : delim_tail (R_cond ind d c ++ kw_do ++ R_lines ind (S d) b ++ nl ind d ++ kw_done ++ tail)).
    { destruct c as [|s0 [|s1 r]]; [congruence| |]; cbn [R_cond]; rewrite <- ?app_assoc; [simpl; auto|apply delim_tail_nl]. }
    econstructor; [apply next_token_kw; [destruct u; reflexivity|exact DT]|].
    assert (DT2 : delim_tail (R_lines ind (S d) b ++ nl ind d ++ kw_done ++ tail)).
    { destruct b; [congruence|]. cbn [R_lines]. rewrite <- app_assoc. apply delim_tail_nl. }
    change (K kw_do :: u_lines b ++ [TNewl; K kw_done]) with ([K kw_do] ++ u_lines b ++ [TNewl; K kw_done]). rewrite (app_assoc (u_cond c)).
    eapply yields_app; [apply (IHcc Hc ind d kw_do); [reflexivity|exact DT2]|].
    eapply yields_app; [apply IHbl; apply delim_tail_nl|]. apply yields_nl_kw; [reflexivity|assumption].
  - (* Binary *)
    intros op x IHx y IHy (Wx & Wy & _) ind d tail Htl. cbn [R_cmd u_cmd]. rewrite <- !app_assoc.
    eapply yields_app; [apply IHx; [assumption|apply delim_tail_sp]|].
    apply yields_sp; [discriminate|].
    econstructor; [apply next_op|].
    apply yields_sp; [apply u_nonempty; assumption|]. apply IHy; assumption.
  - (* Stmt *)
    intros n c IHc b (Wc & Hn) ind d tail Htl. cbn [R_stmt u_stmt]. rewrite <- !app_assoc.
    assert (Y : yields (R_cmd ind d c ++ (if b then s_sp ++ s_amp else []) ++ tail)
                       (u_cmd c ++ (if b then [TAmp] else [])) tail).
    { destruct b.
      - eapply yields_app; [apply IHc; [assumption|apply delim_tail_sp]|].
        rewrite <- app_assoc. apply yields_sp; [discriminate|]. apply yields_one. apply next_amp. assumption.
      - cbn [app]. rewrite app_nil_r. apply IHc; assumption. }
    destruct n.
    + rewrite <- app_assoc. cbn [app].
      econstructor; [apply (next_token_kw kw_bang); [reflexivity|apply delim_tail_sp]|].
      apply yields_sp; [|exact Y].
      pose proof (u_nonempty (Stmt false c false)) as NE. cbn [u_stmt app] in NE. rewrite app_nil_r in NE.
      intro E. apply app_eq_nil in E. destruct E as (E & _). revert E. apply NE. split; [exact Wc|discriminate].
    + exact Y.
  - (* SNil *) intros _. split; [intros; constructor|intros H; congruence].
  - (* SCons *)
    intros s IHs rest IHr (Ws & Wr). destruct (IHr Wr) as (IHrl & _). split.
    + intros ind k tail Htl. cbn [R_lines u_lines]. rewrite <- !app_assoc.
      econstructor; [apply next_nl; apply (nonblank_app (R_stmt ind k s)); apply NBs; assumption|].
      eapply yields_app; [|apply IHrl; assumption].
      apply IHs; [assumption|]. destruct rest; [exact Htl|cbn [R_lines]; rewrite <- app_assoc; apply delim_tail_nl].
    + intros _ ind d kw tail Hk Htl. cbn [R_cond u_cond]. destruct rest as [|s1 r].
      * rewrite <- !app_assoc. apply yields_sp; [intro E; apply app_eq_nil in E; destruct E as (E & _); exact (u_nonempty s Ws E)|].
        eapply yields_app; [apply IHs; [assumption|destruct (stmt_bg s); simpl; auto]|].
        destruct (stmt_bg s).
        -- cbn [app]. apply yields_sp; [discriminate|]. apply yields_kw; assumption.
        -- cbn [app]. econstructor; [apply next_semi_sp|]. apply yields_sp; [discriminate|]. apply yields_kw; assumption.
      * rewrite <- !app_assoc. cbn [app]. rewrite <- !app_assoc.
        econstructor; [apply next_nl; apply (nonblank_app (R_stmt ind (S d) s)); apply NBs; assumption|].
        eapply yields_app; [apply IHs; [assumption|cbn [R_lines]; rewrite <- app_assoc; apply delim_tail_nl]|].
        eapply yields_app; [apply IHrl; apply delim_tail_nl|]. apply yields_nl_kw; assumption.
  - (* NoElse *)
    intros _ ind d tail Htl. cbn [R_else u_else]. rewrite <- !app_assoc. apply yields_nl_kw; [reflexivity|assumption].
  - (* Elif *)
    intros c IHc t IHt e IHe (Hc & Ht & Wc & Wt & We) ind d tail Htl. cbn [R_else u_else]. rewrite <- !app_assoc.
    destruct (IHc Wc) as (_ & IHcc). destruct (IHt Wt) as (IHtl & _).
    assert (DT : delim_tail (R_cond ind d c ++ kw_then ++ R_lines ind (S d) t ++ R_else ind d e ++ tail)).
    { destruct c as [|s0 [|s1 r]]; [congruence| |]; cbn [R_cond]; rewrite <- ?app_assoc; [simpl; auto|apply delim_tail_nl]. }
    econstructor; [apply next_nl; apply kw_nb; reflexivity|].
    econstructor; [apply next_token_kw; [reflexivity|exact DT]|].
    assert (DT2 : delim_tail (R_lines ind (S d) t ++ R_else ind d e ++ tail)).
    { destruct t; [congruence|]. cbn [R_lines]. rewrite <- app_assoc. apply delim_tail_nl. }
    change (K kw_then :: u_lines t ++ u_else e) with ([K kw_then] ++ u_lines t ++ u_else e). rewrite (app_assoc (u_cond c)).
    eapply yields_app; [apply (IHcc Hc ind d kw_then); [reflexivity|exact DT2]|].
    eapply yields_app; [apply IHtl; destruct e; cbn [R_else]; rewrite <- app_assoc; apply delim_tail_nl|].
    apply IHe; assumption.
  - (* Else *)
    intros t IHt (Ht & Wt) ind d tail Htl. cbn [R_else u_else]. rewrite <- !app_assoc.
    destruct (IHt Wt) as (IHtl & _).
    econstructor; [apply next_nl; apply kw_nb; reflexivity|].
    econstructor; [apply next_token_kw; [reflexivity|destruct t; [congruence|cbn [R_lines]; rewrite <- app_assoc; apply delim_tail_nl]]|].
    eapply yields_app; [apply IHtl; apply delim_tail_nl|]. apply yields_nl_kw; [reflexivity|assumption].
Qed.
