(* Proofs/ReaderProofs.v — the buffered reader under any read schedule implements the
   unbuffered reader of the Spec (C07), and the positions it hands out (C09). *)
From Coq Require Import List NArith ZArith Bool Lia ZifyN ZifyNat ZifyBool.
From Verif Require Import Base.Str Base.Utf8 Syntax.Pos Syntax.Reader.
Import ListNotations.
Open Scope N_scope.

Arguments N.add : simpl never.
Arguments N.mul : simpl never.
Arguments N.sub : simpl never.
Arguments Z.add : simpl never.
Arguments Z.sub : simpl never.

(* ---- the io.Reader -------------------------------------------------------- *)
Lemma read_call_spec : forall rdr cap got eof rdr',
  read_call rdr cap = (got, eof, rdr') ->
  got ++ rd_src rdr' = rd_src rdr /\ (length got <= cap)%nat /\
  (eof = true -> rd_src rdr' = []) /\ rd_eager rdr' = rd_eager rdr /\
  (rd_src rdr = [] -> eof = true /\ got = []) /\
  (rd_src rdr <> [] -> got = [] -> eof = false /\
      ((cap = 0)%nat \/ exists t, rd_sched rdr = 0%nat :: t /\ rd_sched rdr' = t)).
Proof.
  intros rdr cap got eof rdr' H. unfold read_call in H.
  destruct (rd_src rdr) as [|b src] eqn:Es.
  - inversion H; subst. rewrite Es. repeat split; auto; try congruence; simpl; lia.
  - set (l := b :: src) in *.
    set (want := match rd_sched rdr with [] => length l | k :: _ => k end) in *.
    set (n := Nat.min want (Nat.min cap (length l))) in *.
    inversion H; subst; clear H. cbn [rd_src rd_eager rd_sched].
    split; [apply firstn_skipn|]. split.
    { rewrite firstn_length. lia. }
    split.
    { intro E. destruct (skipn n l); [reflexivity|]. rewrite !andb_false_r in E. discriminate. }
    split; [reflexivity|]. split; [discriminate|].
    intros _ Hg. assert (n = 0)%nat.
    { destruct n; [reflexivity|]. unfold l in Hg. simpl in Hg. discriminate. }
    split. { rewrite H. simpl. rewrite andb_false_r. reflexivity. }
    destruct (Nat.eq_dec cap 0) as [|Hc]; [left; assumption|right].
    unfold n, want in H. destruct (rd_sched rdr) as [|k t].
    + unfold l in H. cbn [length] in H. lia.
    + exists t. split; [|reflexivity]. f_equal. unfold l in H. cbn [length] in H. lia.
Qed.

Lemma read_again_spec : forall fuel rdr cap, (0 < cap)%nat -> (length (rd_sched rdr) <= fuel)%nat ->
  exists got eof rdr', read_again fuel rdr cap = Some (got, eof, rdr') /\
    got ++ rd_src rdr' = rd_src rdr /\ (length got <= cap)%nat /\
    (eof = true -> rd_src rdr' = []) /\
    (got = [] <-> rd_src rdr = []) /\ (got = [] -> eof = true).
Proof.
  induction fuel as [|f IH]; intros rdr cap Hc Hf.
  - cbn [read_again]. destruct (read_call rdr cap) as [[got eof] rdr'] eqn:E.
    destruct (read_call_spec _ _ _ _ _ E) as (A & B & C & D & F & G).
    destruct got as [|g got].
    + destruct (rd_src rdr) as [|b src] eqn:Es.
      * destruct (F eq_refl) as [-> _]. exists [], true, rdr'. try rewrite Es in *. repeat split; auto.
      * exfalso. destruct (G ltac:(discriminate) eq_refl) as [_ [X | [t [X _]]]]; [lia|].
        rewrite X in Hf. simpl in Hf. lia.
    + exists (g :: got), eof, rdr'. repeat split; auto; try discriminate.
      intro X. rewrite X in A. discriminate.
  - cbn [read_again]. destruct (read_call rdr cap) as [[got eof] rdr'] eqn:E.
    destruct (read_call_spec _ _ _ _ _ E) as (A & B & C & D & F & G).
    destruct got as [|g got].
    + destruct (rd_src rdr) as [|b src] eqn:Es.
      * destruct (F eq_refl) as [-> _]. exists [], true, rdr'. try rewrite Es in *. repeat split; auto.
      * destruct (G ltac:(discriminate) eq_refl) as [-> [X | [t [X Y]]]]; [lia|].
        destruct (IH rdr' cap Hc) as (got2 & eof2 & rdr2 & R1 & R2 & R3 & R4 & R5 & R6).
        { rewrite Y. rewrite X in Hf. simpl in Hf. lia. }
        exists got2, eof2, rdr2. simpl in A. rewrite A in *. try rewrite Es in *. repeat split; auto; apply R5.
    + exists (g :: got), eof, rdr'. repeat split; auto; try discriminate.
      intro X. rewrite X in A. discriminate.
Qed.

(* ---- invariant and abstraction ---------------------------------------------- *)
Definition Inv (bufsz : nat) (s : st) : Prop :=
  (length (bs s) <= bufsz)%nat /\
  bad s = Good /\
  (r s <> runeEOF -> (bsp s <= length (bs s))%nat) /\
  (readErr s = true -> rd_src (rd s) = []) /\
  (readEOF s = true -> readErr s = true).

Definition left (s : st) : nat := length (bs s) - bsp s.

(* everything of the abstraction except the buffer split *)
Definition same_abs (s s' : st) : Prop :=
  rem s' = rem s /\ (offs s' + Z.of_nat (bsp s') = offs s + Z.of_nat (bsp s))%Z /\
  line s' = line s /\ col s' = col s /\ r s' = r s /\ w s' = w s /\ perr s' = perr s.

Lemma same_abs_refl : forall s, same_abs s s.
Proof. intro s. repeat split. Qed.

Lemma same_abs_trans : forall a b c, same_abs a b -> same_abs b c -> same_abs a c.
Proof.
  intros a b c (A1 & A2 & A3 & A4 & A5 & A6 & A7) (B1 & B2 & B3 & B4 & B5 & B6 & B7).
  repeat split; congruence.
Qed.

Lemma same_abs_abs : forall s s', same_abs s s' -> abs s' = abs s.
Proof.
  intros s s' (A1 & A2 & A3 & A4 & A5 & A6 & A7). unfold abs. rewrite A1, A2, A3, A4, A5, A6, A7. reflexivity.
Qed.

Lemma skipn_len_le : forall (A : Type) (l : list A) n, (length l <= n)%nat -> skipn n l = [].
Proof. intros. apply skipn_all2. assumption. Qed.

(* fill: does not change what the state stands for; makes progress whenever input is left *)
Lemma fill_spec : forall bufsz s s' n, Inv bufsz s -> r s <> runeEOF -> (left s < bufsz)%nat ->
  fill bufsz s = (s', n) ->
  Inv bufsz s' /\ same_abs s s' /\
  (n = 0%nat -> rd_src (rd s') = [] /\ rd_src (rd s) = []) /\
  (n <> 0%nat -> (left s' = left s + n)%nat /\ bsp s' = 0%nat) /\
  (rd_src (rd s) <> [] -> n <> 0%nat).
Proof.
  intros bufsz s s' n (I0 & I1 & I2 & I3 & I4) Hr Hl H. unfold fill in H.
  specialize (I2 Hr).
  destruct (readEOF s) eqn:Ee.
  - cbn [orb] in H. inversion H; subst. specialize (I3 (I4 eq_refl)).
    split; [repeat split; auto|]. split; [apply same_abs_refl|].
    repeat split; auto; try congruence.
  - replace (r s =? runeEOF) with false in H by lia. cbn [orb] in H.
    replace (Nat.ltb (length (bs s)) (bsp s)) with false in H by lia.
    destruct (readErr s) eqn:Er.
    + inversion H; subst; clear H. specialize (I3 eq_refl).
      split. { repeat split; cbn [bs bsp bad r readErr readEOF rd]; auto; try (intros; lia). rewrite skipn_length. lia. }
      split. { unfold same_abs, rem; cbn [rd bs bsp offs line col r w perr]. rewrite skipn_O. repeat split; auto. lia. }
      cbn. repeat split; auto; try congruence.
    + assert (Hlen : length (skipn (bsp s) (bs s)) = left s) by (rewrite skipn_length; reflexivity).
      destruct (read_again_spec (length (rd_sched (rd s))) (rd s) (bufsz - length (skipn (bsp s) (bs s))))
        as (got & eof & rdr' & R1 & R2 & R3 & R4 & R5 & R6); [lia | lia |].
      rewrite R1 in H. inversion H; subst; clear H.
      split. { repeat split; cbn [bs bsp bad r readErr readEOF rd]; auto; try (intros; lia). rewrite app_length. lia. }
      split. { unfold same_abs, rem; cbn [rd bs bsp offs line col r w perr]. rewrite skipn_O, <- app_assoc, R2. repeat split; auto. lia. }
      cbn. split.
      { intro Z0. destruct got; [|discriminate]. split; [apply R4, R6; reflexivity | apply R5; reflexivity]. }
      split.
      { intros _. unfold left; cbn. rewrite app_length, skipn_length. lia. }
      intros Hne Z0. destruct got; [|discriminate]. apply Hne, R5. reflexivity.
Qed.

(* ---- the buffer is a window on the remaining input ---------------------------- *)
Lemma nth_error_skipn_add : forall (A : Type) n (l : list A) i, nth_error (skipn n l) i = nth_error l (n + i).
Proof. induction n; intros l i; [reflexivity|]. destruct l; [destruct i; reflexivity|]. simpl. apply IHn. Qed.

Lemma rem_nth_in : forall s i, (bsp s + i < length (bs s))%nat ->
  nth_error (rem s) i = nth_error (bs s) (bsp s + i).
Proof.
  intros s i H. unfold rem. rewrite nth_error_app1 by (rewrite skipn_length; lia).
  apply nth_error_skipn_add.
Qed.

Lemma rem_short : forall s i, rd_src (rd s) = [] -> (length (bs s) <= bsp s + i)%nat ->
  nth_error (rem s) i = None.
Proof.
  intros s i H1 H2. unfold rem. rewrite H1, app_nil_r. apply nth_error_None. rewrite skipn_length. lia.
Qed.

Definition aget (l : str) (i : nat) : N := match nth_error l i with Some b => b | None => RuneSelfB end.

Lemma ahd_aget : forall l, ahd l = aget l 0.
Proof. destruct l; reflexivity. Qed.

(* the loop `for byte i not buffered { if fill() == 0 { break } }` *)
Lemma ensure_spec : forall fuel bufsz i s s' ok, Inv bufsz s -> r s <> runeEOF -> (i < bufsz)%nat ->
  (i < fuel + left s)%nat ->
  ensure fuel bufsz i s = (s', ok) ->
  Inv bufsz s' /\ same_abs s s' /\
  (ok = true -> (bsp s' + i < length (bs s'))%nat) /\
  (ok = false -> rd_src (rd s') = [] /\ (length (bs s') <= bsp s' + i)%nat).
Proof.
  induction fuel as [|f IH]; intros bufsz i s s' ok HI Hr Hi Hf H.
  - cbn [ensure] in H. assert (bsp s <= length (bs s))%nat by (apply HI; assumption). unfold left in Hf.
    replace (Nat.ltb (bsp s + i) (length (bs s))) with true in H by lia.
    inversion H; subst. split; [assumption|]. split; [apply same_abs_refl|]. split; [lia | discriminate].
  - cbn [ensure] in H. assert (Hb : (bsp s <= length (bs s))%nat) by (apply HI; assumption).
    destruct (Nat.ltb (bsp s + i) (length (bs s))) eqn:E.
    + inversion H; subst. split; [assumption|]. split; [apply same_abs_refl|]. split; [lia | discriminate].
    + destruct (fill bufsz s) as [s1 n] eqn:Ef.
      assert (Hl : (left s < bufsz)%nat) by (unfold left; lia).
      destruct (fill_spec _ _ _ _ HI Hr Hl Ef) as (J1 & J2 & J3 & J4 & J5).
      assert (Hr1 : r s1 <> runeEOF) by (destruct J2 as (_ & _ & _ & _ & -> & _); assumption).
      destruct (Nat.eqb n 0) eqn:En.
      * inversion H; subst. apply Nat.eqb_eq in En. destruct (J3 En) as [K1 K2].
        split; [assumption|]. split; [assumption|]. split; [discriminate|]. intros _. split; [assumption|].
        (* nothing was read: the window is the same *)
        assert (rem s' = rem s) by apply J2. unfold rem in H0. rewrite K1, K2, !app_nil_r in H0.
        apply (f_equal (@length _)) in H0. rewrite !skipn_length in H0. lia.
      * apply Nat.eqb_neq in En. destruct (J4 En) as [K1 K2].
        destruct (IH bufsz i s1 s' ok J1 Hr1 Hi ltac:(lia) H) as (L1 & L2 & L3 & L4).
        split; [assumption|]. split; [eapply same_abs_trans; eassumption|]. split; assumption.
Qed.

Lemma peek_spec : forall bufsz s s' b, Inv bufsz s -> r s <> runeEOF -> (0 < bufsz)%nat ->
  peek bufsz s = (s', b) ->
  Inv bufsz s' /\ same_abs s s' /\ b = ahd (rem s) /\ (rem s <> [] -> (bsp s' < length (bs s'))%nat).
Proof.
  intros bufsz s s' b HI Hr Hb H. unfold peek in H.
  assert (Hle : (bsp s <= length (bs s))%nat) by (apply HI; assumption).
  destruct (Nat.leb (length (bs s)) (bsp s)) eqn:E.
  - destruct (fill bufsz s) as [s1 n] eqn:Ef. cbn [fst] in H.
    assert (Hl : (left s < bufsz)%nat) by (unfold left; lia).
    destruct (fill_spec _ _ _ _ HI Hr Hl Ef) as (J1 & J2 & J3 & J4 & J5).
    inversion H; subst s' b; clear H. split; [assumption|]. split; [assumption|].
    assert (Hrem : rem s1 = rem s) by apply J2. rewrite <- Hrem.
    destruct (Nat.eq_dec n 0) as [En | En].
    + destruct (J3 En) as [K1 K2]. unfold rem in Hrem |- *. rewrite K1, K2, !app_nil_r in *.
      assert (skipn (bsp s) (bs s) = []) by (apply skipn_all2; lia). rewrite H in Hrem. rewrite Hrem.
      apply (f_equal (@length _)) in Hrem. rewrite skipn_length in Hrem. simpl in Hrem.
      replace (nth_error (bs s1) (bsp s1)) with (@None N) by (symmetry; apply nth_error_None; lia).
      split; [reflexivity | congruence].
    + destruct (J4 En) as [K1 K2]. unfold left in K1.
      assert (X : (bsp s1 + 0 < length (bs s1))%nat) by lia.
      rewrite ahd_aget. unfold aget. rewrite (rem_nth_in s1 0 X), Nat.add_0_r. split; [reflexivity | intros; lia].
  - inversion H; subst s' b; clear H. split; [assumption|]. split; [apply same_abs_refl|].
    assert (X : (bsp s + 0 < length (bs s))%nat) by lia.
    rewrite ahd_aget. unfold aget. rewrite (rem_nth_in s 0 X), Nat.add_0_r. split; [reflexivity | intros; lia].
Qed.

Lemma peekAt_spec : forall bufsz i s s' b, Inv bufsz s -> r s <> runeEOF ->
  peekAt bufsz i s = (s', b) ->
  Inv bufsz s' /\ same_abs s s' /\ b = (if Nat.leb bufsz i then RuneSelfB else aget (rem s) i).
Proof.
  intros bufsz i s s' b HI Hr H. unfold peekAt in H.
  assert (Hle : (bsp s <= length (bs s))%nat) by (apply HI; assumption).
  assert (Hsz : (length (bs s) <= bufsz)%nat) by apply HI.
  destruct (Nat.ltb (bsp s + i) (length (bs s))) eqn:E.
  - inversion H; subst s' b; clear H. split; [assumption|]. split; [apply same_abs_refl|].
    replace (Nat.leb bufsz i) with false by lia. unfold aget.
    rewrite (rem_nth_in s i) by lia.
    destruct (nth_error (bs s) (bsp s + i)) eqn:En.
    + apply nth_error_nth. assumption.
    + apply nth_error_None in En. lia.
  - destruct (Nat.leb bufsz i) eqn:Eb.
    + inversion H; subst. split; [assumption|]. split; [apply same_abs_refl | reflexivity].
    + destruct (ensure (S i) bufsz i s) as [s1 ok] eqn:Ee. inversion H; subst s' b; clear H.
      destruct (ensure_spec (S i) bufsz i s s1 ok HI Hr ltac:(lia) ltac:(lia) Ee) as (J1 & J2 & J3 & J4).
      split; [assumption|]. split; [assumption|].
      assert (Hrem : rem s1 = rem s) by apply J2. rewrite <- Hrem. unfold aget. destruct ok.
      * specialize (J3 eq_refl). rewrite (rem_nth_in s1 i J3).
        destruct (nth_error (bs s1) (bsp s1 + i)) eqn:En.
        -- apply nth_error_nth. assumption.
        -- apply nth_error_None in En. lia.
      * destruct (J4 eq_refl) as [K1 K2]. rewrite (rem_short s1 i K1 K2). reflexivity.
Qed.

Lemma peekTwo_spec : forall bufsz s s' a b, Inv bufsz s -> r s <> runeEOF -> (1 < bufsz)%nat ->
  peekTwo bufsz s = (s', a, b) ->
  Inv bufsz s' /\ same_abs s s' /\
  (a, b) = match rem s with [] => (RuneSelfB, RuneSelfB) | [x] => (x, RuneSelfB) | x :: y :: _ => (x, y) end.
Proof.
  intros bufsz s s' a b HI Hr Hb H. unfold peekTwo in H.
  destruct (ensure 2 bufsz 1 s) as [s1 ok] eqn:Ee.
  assert (Hle : (bsp s <= length (bs s))%nat) by (apply HI; assumption).
  destruct (ensure_spec 2 bufsz 1 s s1 ok HI Hr Hb ltac:(lia) Ee) as (J1 & J2 & J3 & J4).
  assert (Hr1 : r s1 <> runeEOF) by (destruct J2 as (_ & _ & _ & _ & -> & _); assumption).
  assert (Hle1 : (bsp s1 <= length (bs s1))%nat) by (apply J1; assumption).
  assert (Hrem : rem s1 = rem s) by apply J2. rewrite <- Hrem.
  assert (G : forall i, (bsp s1 + i < length (bs s1))%nat \/ rd_src (rd s1) = [] ->
              nth_error (bs s1) (bsp s1 + i) = nth_error (rem s1) i).
  { intros i [X | X].
    - symmetry. apply rem_nth_in. assumption.
    - destruct (Nat.ltb (bsp s1 + i) (length (bs s1))) eqn:E.
      + symmetry. apply rem_nth_in. lia.
      + rewrite (rem_short s1 i X) by lia. apply nth_error_None. lia. }
  assert (G0 : nth_error (bs s1) (bsp s1) = nth_error (rem s1) 0).
  { rewrite <- (Nat.add_0_r (bsp s1)) at 1. apply G. destruct ok; [left; specialize (J3 eq_refl); lia | right; apply J4; reflexivity]. }
  assert (G1 : nth_error (bs s1) (bsp s1 + 1) = nth_error (rem s1) 1).
  { apply G. destruct ok; [left; apply J3; reflexivity | right; apply J4; reflexivity]. }
  rewrite G0, G1 in H. split; [|split].
  - destruct (nth_error (rem s1) 0); [destruct (nth_error (rem s1) 1)|]; inversion H; subst; assumption.
  - destruct (nth_error (rem s1) 0); [destruct (nth_error (rem s1) 1)|]; inversion H; subst; assumption.
  - destruct (rem s1) as [|x [|y t]]; cbn in H; inversion H; reflexivity.
Qed.

Lemma apeekAt_rem : forall bufsz i a, apeekAt bufsz i a = (if Nat.leb bufsz i then RuneSelfB else aget (a_rem a) i).
Proof. reflexivity. Qed.

Lemma same_abs_r : forall s s', same_abs s s' -> r s' = r s.
Proof. intros s s' H. apply H. Qed.

Lemma skip_digits_spec : forall fuel bufsz i s s' j a, Inv bufsz s -> r s <> runeEOF -> a_rem a = rem s ->
  (i <= bufsz)%nat -> (bufsz < fuel + i)%nat ->
  skip_digits fuel bufsz i s = (s', j) ->
  Inv bufsz s' /\ same_abs s s' /\ j = askip_digits fuel bufsz i a /\ (j <= bufsz)%nat.
Proof.
  induction fuel as [|f IH]; intros bufsz i s s' j a HI Hr Ha Hi Hf H; [lia|].
  cbn [skip_digits] in H. cbn [askip_digits].
  destruct (peekAt bufsz i s) as [s1 b] eqn:Ep.
  destruct (peekAt_spec _ _ _ _ _ HI Hr Ep) as (J1 & J2 & J3).
  rewrite apeekAt_rem, Ha, <- J3.
  destruct (is_digit b) eqn:Ed.
  - assert (Hlt : (i < bufsz)%nat).
    { destruct (Nat.leb bufsz i) eqn:E; [|apply Nat.leb_gt in E; exact E]. subst b. discriminate. }
    assert (Hr1 : r s1 <> runeEOF) by (rewrite (same_abs_r _ _ J2); assumption).
    assert (Ha1 : a_rem a = rem s1) by (rewrite Ha; symmetry; apply J2).
    destruct (IH bufsz (S i) s1 s' j a J1 Hr1 Ha1 ltac:(lia) ltac:(lia) H) as (K1 & K2 & K3 & K4).
    split; [assumption|]. split; [eapply same_abs_trans; eassumption|]. split; assumption.
  - inversion H; subst. split; [assumption|]. split; [assumption|]. split; [reflexivity | assumption].
Qed.

Lemma zshNumRange_spec : forall bufsz s s' z a, Inv bufsz s -> r s <> runeEOF -> a_rem a = rem s ->
  zshNumRange bufsz s = (s', z) ->
  Inv bufsz s' /\ same_abs s s' /\ z = azshNumRange bufsz a.
Proof.
  intros bufsz s s' z a HI Hr Ha H. unfold zshNumRange in H. unfold azshNumRange.
  destruct (skip_digits (S bufsz) bufsz 0 s) as [s1 i] eqn:E1.
  destruct (skip_digits_spec (S bufsz) bufsz 0%nat s s1 i a HI Hr Ha ltac:(lia) ltac:(lia) E1) as (J1 & J2 & J3 & J4).
  assert (Hr1 : r s1 <> runeEOF) by (rewrite (same_abs_r _ _ J2); assumption).
  assert (Ha1 : a_rem a = rem s1) by (rewrite Ha; symmetry; apply J2).
  destruct (peekAt bufsz i s1) as [s2 b] eqn:E2.
  destruct (peekAt_spec _ _ _ _ _ J1 Hr1 E2) as (K1 & K2 & K3).
  assert (Hr2 : r s2 <> runeEOF) by (rewrite (same_abs_r _ _ K2); assumption).
  assert (Ha2 : a_rem a = rem s2) by (rewrite Ha1; symmetry; apply K2).
  rewrite <- J3. rewrite apeekAt_rem, Ha1, <- K3.
  destruct (negb (b =? 45)) eqn:Eb.
  - inversion H; subst. split; [assumption|]. split; [eapply same_abs_trans; eassumption | reflexivity].
  - assert (Hlt : (i < bufsz)%nat).
    { destruct (Nat.leb bufsz i) eqn:E; [|apply Nat.leb_gt in E; exact E]. subst b. discriminate. }
    destruct (skip_digits (S bufsz) bufsz (S i) s2) as [s3 j] eqn:E3.
    destruct (skip_digits_spec (S bufsz) bufsz (S i) s2 s3 j a K1 Hr2 Ha2 ltac:(lia) ltac:(lia) E3) as (L1 & L2 & L3 & L4).
    assert (Hr3 : r s3 <> runeEOF) by (rewrite (same_abs_r _ _ L2); assumption).
    assert (Ha3 : a_rem a = rem s3) by (rewrite Ha2; symmetry; apply L2).
    destruct (peekAt bufsz j s3) as [s4 c] eqn:E4.
    destruct (peekAt_spec _ _ _ _ _ L1 Hr3 E4) as (M1 & M2 & M3).
    inversion H; subst s' z; clear H.
    split; [assumption|]. split.
    { eapply same_abs_trans; [eassumption|]. eapply same_abs_trans; [eassumption|]. eapply same_abs_trans; eassumption. }
    rewrite <- L3, apeekAt_rem, Ha3, <- M3. reflexivity.
Qed.
