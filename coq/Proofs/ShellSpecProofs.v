(* Proofs/ShellSpecProofs.v — shell_fields = shell_fields_spec and shell_expand = shell_expand_spec. *)
From Verif Require Import Base.Str Expand.ShellApi Expand.ShellSpec.
Open Scope N_scope.

Section Fields.
  Variable env : str -> str.

  (* the state machine of the model, replayed on marked characters *)
  Definition mstep (st : fstate) (m : mch) : fstate :=
    match m with
    | MC c => add_cur st [c]
    | MQ => add_cur st []
    | MSplit => flush st
    end.
  Definition st_run (st : fstate) (l : list mch) : fstate := fold_left mstep l st.
  Definition out (st : fstate) : list str := rev (fst (flush st)).

  Lemma st_run_app : forall a b st, st_run st (a ++ b) = st_run (st_run st a) b.
  Proof. intros. unfold st_run. apply fold_left_app. Qed.

  Lemma add_cur_add_cur : forall st a b, add_cur (add_cur st a) b = add_cur st (a ++ b).
  Proof.
    intros [d [c|]] a b; unfold add_cur; simpl; [rewrite app_assoc|]; reflexivity.
  Qed.

  Lemma st_run_MC : forall v st, v <> [] -> st_run st (map MC v) = add_cur st v.
  Proof.
    induction v as [|c v IH]; intros st H; [congruence|].
    simpl. destruct v as [|d v].
    - reflexivity.
    - change (fold_left mstep (map MC (d :: v)) (mstep st (MC c))) with (st_run (add_cur st [c]) (map MC (d :: v))).
      rewrite IH by discriminate. apply add_cur_add_cur.
  Qed.

  Lemma st_run_MQ_MC : forall v st, st_run st (MQ :: map MC v) = add_cur st v.
  Proof.
    intros v st. destruct v as [|c v].
    - reflexivity.
    - change (st_run st (MQ :: map MC (c :: v))) with (st_run (add_cur st []) (map MC (c :: v))).
      rewrite st_run_MC by discriminate. apply add_cur_add_cur.
  Qed.

  (* splitAdd = replaying the tagged characters of the value *)
  Lemma split_add_run : forall v st pend,
    split_add st v pend =
    st_run (match pend with Some p => add_cur st (rev p) | None => st end) (map (tag) v).
  Proof.
    induction v as [|c v IH]; intros st pend; simpl.
    - reflexivity.
    - unfold tag at 1. destruct (is_ifs c).
      + rewrite IH. reflexivity.
      + rewrite IH. simpl. f_equal. destruct pend as [p|]; simpl.
        * rewrite add_cur_add_cur. reflexivity.
        * reflexivity.
  Qed.

  Definition no_sep (w : list item) : Prop := forall i, In i w -> i <> ISep.

  Lemma item_step_run : forall st it, it <> ISep -> item_step env st it = st_run st (expand_item env it).
  Proof.
    intros st it H. destruct it; try reflexivity; simpl.
    - rewrite split_add_run. reflexivity.
    - symmetry. apply st_run_MQ_MC.
    - unfold home_set. destruct (env HOME) as [|h t] eqn:E.
      + reflexivity.
      + symmetry. apply st_run_MC. discriminate.
    - congruence.
  Qed.

  Lemma fold_items_run : forall w st, no_sep w ->
    fold_left (item_step env) w st = st_run st (flat_map (expand_item env) w).
  Proof.
    induction w as [|i w IH]; intros st H; [reflexivity|].
    simpl. rewrite st_run_app. rewrite item_step_run by (apply H; left; reflexivity).
    apply IH. intros j Hj. apply H. right. exact Hj.
  Qed.

  (* the left-to-right run against the right-to-left Spec *)
  Definition join (cur h : option str) : option str :=
    match cur, h with
    | None, h => h
    | Some a, None => Some a
    | Some a, Some b => Some (a ++ b)
    end.

  Lemma out_run : forall l d cur,
    out (st_run (d, cur) l) =
    rev d ++ cons_opt (join cur (fst (fspec l))) (snd (fspec l)).
  Proof.
    induction l as [|m l IH]; intros d cur.
    - simpl. unfold out, flush. destruct cur; simpl; [reflexivity|rewrite app_nil_r; reflexivity].
    - destruct m.
      + (* MC *)
        change (st_run (d, cur) (MC c :: l)) with (st_run (add_cur (d, cur) [c]) l).
        unfold add_cur; simpl fst; simpl snd. rewrite IH.
        simpl fspec. generalize (fspec l). intros [h t]. simpl.
        destruct cur as [a|]; destruct h as [b|]; simpl; rewrite <- ?app_assoc; simpl; rewrite ?app_nil_r; reflexivity.
      + (* MQ *)
        change (st_run (d, cur) (MQ :: l)) with (st_run (add_cur (d, cur) []) l).
        unfold add_cur; simpl fst; simpl snd. rewrite IH.
        simpl fspec. generalize (fspec l). intros [h t]. simpl.
        destruct cur as [a|]; destruct h as [b|]; simpl; rewrite ?app_nil_r; reflexivity.
      + (* MSplit *)
        change (st_run (d, cur) (MSplit :: l)) with (st_run (flush (d, cur)) l).
        simpl fspec. destruct (fspec l) as [h t] eqn:E. unfold flush; simpl snd; simpl fst.
        destruct cur as [a|].
        * rewrite IH; rewrite ?E. simpl. rewrite <- app_assoc. reflexivity.
        * rewrite IH; rewrite ?E. simpl. reflexivity.
  Qed.

  Lemma out_init : forall l, out (st_run ([], None) l) = fields_of_marked l.
  Proof.
    intros l. rewrite out_run. unfold fields_of_marked. destruct (fspec l) as [h t]. reflexivity.
  Qed.

  Lemma word_fields_spec : forall w, no_sep w ->
    word_fields env w = fields_of_marked (flat_map (expand_item env) w).
  Proof.
    intros w H. unfold word_fields. rewrite fold_items_run by exact H.
    change (rev (f_done (flush (st_run ([], None) (flat_map (expand_item env) w)))))
      with (out (st_run ([], None) (flat_map (expand_item env) w))).
    apply out_init.
  Qed.

  (* a delimiter separates: the fields before it and the fields after it *)
  Lemma fspec_split : forall a b,
    fst (fspec (a ++ MSplit :: b)) = fst (fspec a) /\
    snd (fspec (a ++ MSplit :: b)) = snd (fspec a) ++ fields_of_marked b.
  Proof.
    induction a as [|m a IH]; intros b.
    - simpl. unfold fields_of_marked. destruct (fspec b) as [h t]. split; reflexivity.
    - destruct (IH b) as [I1 I2]. simpl.
      destruct (fspec (a ++ MSplit :: b)) as [h t]. destruct (fspec a) as [h' t']. simpl in *. subst.
      destruct m; simpl; split; try reflexivity.
      destruct h'; reflexivity.
  Qed.

  Lemma fields_split : forall a b,
    fields_of_marked (a ++ MSplit :: b) = fields_of_marked a ++ fields_of_marked b.
  Proof.
    intros a b. destruct (fspec_split a b) as [H1 H2]. unfold fields_of_marked at 1 2.
    destruct (fspec (a ++ MSplit :: b)) as [h t]. destruct (fspec a) as [h' t']. simpl in *. subst.
    destruct h'; reflexivity.
  Qed.

  Lemma split_words_spec : forall its cur, no_sep cur ->
    flat_map (word_fields env) (split_words its cur) =
    fields_of_marked (flat_map (expand_item env) (rev cur ++ its)).
  Proof.
    induction its as [|i its IH]; intros cur Hc.
    - simpl. rewrite !app_nil_r. apply word_fields_spec.
      intros j Hj. apply Hc. apply in_rev. exact Hj.
    - assert (Hrev : no_sep (rev cur)) by (intros j Hj; apply Hc; apply in_rev; exact Hj).
      destruct i; simpl split_words;
        try (rewrite IH by (intros j [<-|Hj]; [discriminate|apply Hc; exact Hj]);
             simpl rev; rewrite <- app_assoc; reflexivity).
      (* ISep *)
      simpl flat_map at 1. rewrite word_fields_spec by exact Hrev.
      rewrite (IH [] (fun j Hj => match Hj with end)). simpl rev. simpl app.
      rewrite flat_map_app. simpl flat_map. rewrite fields_split. reflexivity.
  Qed.

  Theorem fields_correct : forall s, shell_fields env s = shell_fields_spec env s.
  Proof.
    intros s. unfold shell_fields, shell_fields_spec. destruct (lex_fields s); try reflexivity.
    f_equal. apply (split_words_spec its []). intros j [].
  Qed.
End Fields.

(* ------------------------------------------------------------------ shell.Expand *)

Section Expand.
  Variable env : str -> str.

  Definition finish (p : str * dmode) : eres :=
    let '(o, m) := p in
    match m with
    | DText => EOk o
    | DEsc => EOk (o ++ [92])
    | DDol => EOk (o ++ [36])
    | DName acc => EOk (o ++ env acc)
    | DBr _ => EErr
    | DOut => EOut
    end.

  Lemma shell_expand_finish : forall s, shell_expand env s = finish (doc_loop env DText s).
  Proof. intros. unfold shell_expand, finish. destruct (doc_loop env DText s). reflexivity. Qed.

  Lemma finish_dcons : forall o p, finish (dcons o p) = econs o (finish p).
  Proof.
    intros o [o' m]. unfold dcons, finish, econs. simpl.
    destruct m; try reflexivity; rewrite <- app_assoc; reflexivity.
  Qed.

  Lemma dcons_dcons : forall a b p, dcons a (dcons b p) = dcons (a ++ b) p.
  Proof. intros a b [o m]. unfold dcons. simpl. rewrite app_assoc. reflexivity. Qed.

  Lemma dcons_nil : forall p, dcons [] p = p.
  Proof. intros [o m]. reflexivity. Qed.

  Lemma doc_loop_out : forall s, doc_loop env DOut s = ([], DOut).
  Proof. destruct s; reflexivity. Qed.

  Lemma doc_loop_step : forall m c r, m <> DOut ->
    doc_loop env m (c :: r) = dcons (fst (dstep env m c)) (doc_loop env (snd (dstep env m c)) r).
  Proof.
    intros m c r H. simpl. destruct m; try congruence; destruct (dstep env _ c); reflexivity.
  Qed.

  Lemma doc_loop_text : forall c r,
    doc_loop env DText (c :: r) = dcons (fst (dbase c)) (doc_loop env (snd (dbase c)) r).
  Proof. intros. rewrite doc_loop_step by discriminate. reflexivity. Qed.

  Lemma name_start_char : forall c, name_start c = true -> name_char c = true.
  Proof. intros c H. unfold name_char. rewrite H. reflexivity. Qed.

  Lemma take_name_len : forall s, (length (snd (take_name s)) <= length s)%nat.
  Proof.
    induction s as [|c s IH]; simpl; [lia|].
    destruct (name_char c); [|simpl; lia].
    destruct (take_name s) as [n rest]. simpl in *. lia.
  Qed.

  (* the $name loop *)
  Lemma name_loop : forall s acc,
    finish (doc_loop env (DName acc) s) =
    econs (env (acc ++ fst (take_name s))) (finish (doc_loop env DText (snd (take_name s)))).
  Proof.
    induction s as [|c s IH]; intros acc.
    - simpl. rewrite !app_nil_r. reflexivity.
    - rewrite doc_loop_step by discriminate. simpl dstep. simpl take_name.
      destruct (name_char c) eqn:E.
      + simpl fst; simpl snd. rewrite dcons_nil. rewrite IH.
        destruct (take_name s) as [n rest]. simpl. rewrite <- app_assoc. reflexivity.
      + simpl fst; simpl snd. rewrite app_nil_r.
        rewrite doc_loop_text.
        rewrite <- dcons_dcons. rewrite finish_dcons. reflexivity.
  Qed.

  (* the ${name} loop, after at least one name character *)
  Lemma brace_loop : forall s acc, acc <> [] ->
    finish (doc_loop env (DBr acc) s) =
    match snd (take_name s) with
    | [] => EErr
    | g :: rest' => if g =? 125 then econs (env (acc ++ fst (take_name s))) (finish (doc_loop env DText rest'))
                    else EOut
    end.
  Proof.
    induction s as [|c s IH]; intros acc Ha.
    - reflexivity.
    - rewrite doc_loop_step by discriminate. simpl dstep. simpl take_name.
      destruct (c =? 125) eqn:E125.
      + apply N.eqb_eq in E125. subst c. change (name_char 125) with false. simpl snd. simpl fst.
        destruct acc as [|a acc']; [congruence|]. simpl fst. simpl snd.
        rewrite finish_dcons. rewrite app_nil_r. reflexivity.
      + destruct acc as [|a acc'] eqn:Eacc; [congruence|]. rewrite andb_true_r.
        destruct (name_char c) eqn:Enc.
        * simpl fst. simpl snd. rewrite dcons_nil. rewrite IH by (destruct acc'; discriminate).
          destruct (take_name s) as [n rest]. simpl. rewrite <- app_assoc. reflexivity.
        * simpl fst. simpl snd. rewrite dcons_nil. rewrite doc_loop_out. rewrite E125. reflexivity.
  Qed.

  Lemma dstep_DDol : forall d,
    dstep env DDol d =
    if name_start d then ([], DName [d])
    else if d =? 123 then ([], DBr [])
    else if dollar_out d then ([], DOut)
    else dcons [36] (dbase d).
  Proof. reflexivity. Qed.

  Lemma expand_main : forall fuel s, (length s < fuel)%nat ->
    finish (doc_loop env DText s) = hd_spec env fuel s.
  Proof.
    induction fuel as [|f IH]; intros s Hl; [lia|].
    destruct s as [|c r]; [reflexivity|]. simpl in Hl.
    rewrite doc_loop_text. unfold dbase. simpl hd_spec.
    destruct (c =? 92) eqn:E92.
    - (* backslash *)
      simpl fst; simpl snd. rewrite dcons_nil.
      destruct r as [|d r']; [reflexivity|]. simpl in Hl.
      rewrite doc_loop_step by discriminate. simpl dstep.
      destruct ((d =? 36) || (d =? 92) || (d =? 96)).
      + simpl fst; simpl snd. rewrite finish_dcons. rewrite IH by lia. reflexivity.
      + destruct (d =? 10).
        * simpl fst; simpl snd. rewrite dcons_nil, doc_loop_out. reflexivity.
        * simpl fst; simpl snd. rewrite finish_dcons. rewrite IH by lia. reflexivity.
    - destruct (c =? 36) eqn:E36.
      + (* dollar *)
        simpl fst; simpl snd. rewrite dcons_nil.
        destruct r as [|d r']; [reflexivity|]. simpl in Hl.
        rewrite doc_loop_step by discriminate. rewrite dstep_DDol.
        destruct (name_start d) eqn:Ens.
        * simpl fst; simpl snd. rewrite dcons_nil. rewrite name_loop.
          simpl take_name. rewrite (name_start_char d Ens).
          pose proof (take_name_len r') as Hlen.
          destruct (take_name r') as [n rest]. simpl in *. rewrite IH by lia. reflexivity.
        * destruct (d =? 123) eqn:E123.
          -- simpl fst; simpl snd. rewrite dcons_nil.
             destruct r' as [|e r'']; [reflexivity|]. simpl in Hl.
             rewrite doc_loop_step by discriminate. simpl dstep.
             destruct (e =? 125) eqn:Ee.
             ++ simpl fst; simpl snd. rewrite dcons_nil, doc_loop_out. reflexivity.
             ++ destruct (name_start e) eqn:Ese.
                ** rewrite (name_start_char e Ese). simpl andb. simpl fst; simpl snd. rewrite dcons_nil.
                   rewrite brace_loop by discriminate. simpl negb.
                   simpl take_name. rewrite (name_start_char e Ese).
                   pose proof (take_name_len r'') as Hlen.
                   destruct (take_name r'') as [n rest]. simpl in *.
                   destruct rest as [|g rest']; [reflexivity|].
                   destruct (g =? 125); [|reflexivity]. simpl in Hlen. rewrite IH by lia. reflexivity.
                ** rewrite andb_false_r. simpl fst; simpl snd. rewrite doc_loop_out. reflexivity.
          -- destruct (dollar_out d).
             ++ simpl fst; simpl snd. rewrite doc_loop_out. reflexivity.
             ++ rewrite <- (IH (d :: r')) by (simpl; lia). rewrite doc_loop_text.
                destruct (dbase d) as [o1 m1]. unfold dcons at 2 3. simpl fst; simpl snd.
                change (36 :: o1) with ([36] ++ o1). rewrite <- dcons_dcons. rewrite finish_dcons. reflexivity.
      + destruct (c =? 96) eqn:E96.
        * simpl fst; simpl snd. rewrite dcons_nil, doc_loop_out. reflexivity.
        * simpl fst; simpl snd. rewrite finish_dcons. rewrite IH by lia. reflexivity.
  Qed.

  Theorem expand_correct : forall s, shell_expand env s = shell_expand_spec env s.
  Proof.
    intros s. rewrite shell_expand_finish. unfold shell_expand_spec. apply expand_main. lia.
  Qed.
End Expand.
