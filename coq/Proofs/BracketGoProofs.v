(* Proofs/BracketGoProofs.v — the model of regexpNext's bracket case on well-formed bracket expressions of the
   second fragment: no error, the class AST of exactly the listed items, lexer just after the closing bracket. *)
From Verif Require Import Base.Str Pattern.Regex Pattern.Translate Pattern.GlobSpec Pattern.Fragment Proofs.BracketSpecProofs.
From Coq Require Import ZifyN ZifyNat ZifyBool.
Open Scope N_scope.

Lemma es_toks_cons : forall e es, es_toks (e :: es) = elem_toks e ++ es_toks es.
Proof. reflexivity. Qed.

(* --- Go's class parser on the tokens of an element list (the head may be the leading "]") --- *)
Definition rng_ok (e : belem) : bool := match e with ERng a b => negb (b <? a) | _ => true end.

Lemma conv_es : forall es fuel, forallb rng_ok es = true -> (length (es_toks es) < fuel)%nat ->
  conv fuel (es_toks es) = CvOk (map elem_item es).
Proof.
  induction es as [|e es IH]; intros fuel Hr Hf.
  - destruct fuel; [simpl in Hf; lia|]. reflexivity.
  - simpl in Hr. apply andb_true_iff in Hr as [He Hr]. rewrite es_toks_cons in *. rewrite app_length in Hf.
    destruct fuel; [lia|].
    assert (IH' : conv fuel (es_toks es) = CvOk (map elem_item es)).
    { apply IH; auto. destruct e; simpl in Hf; lia. }
    destruct e as [c|c|a b]; cbn [elem_toks app map elem_item].
    + destruct es as [|e' es']; [simpl in IH' |- *; rewrite IH'; reflexivity|].
      rewrite es_toks_cons in *. destruct e'; cbn [elem_toks app conv tok_char] in *; rewrite IH'; reflexivity.
    + destruct es as [|e' es']; [simpl in IH' |- *; rewrite IH'; reflexivity|].
      rewrite es_toks_cons in *. destruct e'; cbn [elem_toks app conv tok_char] in *; rewrite IH'; reflexivity.
    + simpl in He. apply negb_true_iff in He. cbn [conv tok_char]. rewrite He, IH'. reflexivity.
Qed.

Lemma elem_ok_rng : forall es, forallb elem_ok es = true -> forallb rng_ok es = true.
Proof.
  induction es as [|e es IH]; intros H; [reflexivity|]. simpl in *. apply andb_true_iff in H as [He Hes].
  rewrite IH by auto. rewrite andb_true_r. destruct e; auto. simpl in *.
  apply andb_true_iff in He as [_ Hle]. apply N.leb_le in Hle. apply negb_true_iff. apply N.ltb_ge. lia.
Qed.

(* --- the bracket loop -------------------------------------------------------------------- *)
Definition close_out (neg : bool) (toks : list btok) (l : lex) : step :=
  SOk ([cLBRK] ++ (if neg then [cCARET] else []) ++ flat_map btok_text toks ++ [cRBRK])
      (match conv (S (length toks)) toks with
       | CvOk items => OOk (RSet neg items) | CvBad => OBad | CvUnmodelled => OUnmodelled end) l.

Definition bl_at (fuel : nat) (neg : bool) (lit : lex) (pv T : list N) (first : bool) (st : bst) : step :=
  let '(c, l) := lnext {| lprev := pv; lrest := T |} in bracket_loop fuel false neg lit c l first st.

Lemma bl_es : forall es fuel neg lit pv rest first st,
  forallb elem_ok es = true -> bs_slash st = false -> bs_def st = None -> bs_clsend st = None ->
  (length (es_text es) + 2 <= fuel)%nat ->
  bl_at fuel neg lit pv (es_text es ++ cRBRK :: rest) first st =
  close_out neg (rev (bs_toks st) ++ es_toks es) {| lprev := cRBRK :: rev (es_text es) ++ pv; lrest := rest |}.
Proof.
  induction es as [|e es IH]; intros fuel neg lit pv rest first st Hok Hs Hd Hc Hf.
  - destruct fuel; [simpl in Hf; lia|]. unfold bl_at. cbn [es_text flat_map app lnext lrest lprev bracket_loop].
    change (cRBRK =? 0) with false. change (cRBRK =? cBSL) with false. change (cRBRK =? cDASH) with false.
    change (cRBRK =? cRBRK) with true. cbn iota. rewrite Hs, Hd. unfold close_out. rewrite app_nil_r. reflexivity.
  - simpl in Hok. apply andb_true_iff in Hok as [He Hes]. rewrite es_text_cons, es_toks_cons, <- app_assoc.
    rewrite es_text_cons, app_length in Hf.
    destruct e as [c|c|a b]; simpl in He.
    + apply plainc_inv in He as (E0 & E1 & E2 & E3 & E4).
      destruct fuel; [simpl in Hf; lia|]. unfold bl_at. cbn [elem_text app lnext lrest lprev bracket_loop].
      rewrite E0, E1, E2, E3, E4. cbn [andb].
      etransitivity; [apply (IH fuel neg lit (c :: pv) rest false); auto; simpl in *; try rewrite Hs; auto; lia|].
      cbn [push_tok set_slash bs_toks rev elem_toks elem_text]. f_equal; [rewrite <- !app_assoc; reflexivity|].
      f_equal. simpl. rewrite <- app_assoc. reflexivity.
    + apply negb_true_iff in He.
      destruct fuel; [simpl in Hf; lia|]. unfold bl_at. cbn [elem_text app lnext lrest lprev bracket_loop].
      change (cBSL =? 0) with false. change (cBSL =? cBSL) with true. cbn iota. rewrite He.
      assert (Hst : exists st', (if c =? cDASH then push_tok st (BChar c QDash)
                                 else if 128 <? c then push_tok st (BChar c QRaw)
                                 else push_tok (set_slash st (false && (c =? cSLASH))) (BChar c QMeta)) = st' /\
                      bs_toks st' = BChar c (esc_q c) :: bs_toks st /\ bs_slash st' = false /\ bs_def st' = None /\ bs_clsend st' = None).
      { unfold esc_q. destruct (c =? cDASH); [|destruct (128 <? c)]; eexists; (split; [reflexivity|]); simpl;
          rewrite ?Hs; auto. }
      destruct Hst as (st' & -> & Ht & Hs' & Hd' & Hc').
      etransitivity; [apply (IH fuel neg lit (c :: cBSL :: pv) rest false st'); auto; simpl in *; lia|].
      rewrite Ht. cbn [rev elem_toks elem_text]. f_equal; [rewrite <- !app_assoc; reflexivity|].
      f_equal. simpl. rewrite <- !app_assoc. reflexivity.
    + apply andb_true_iff in He as [He Hle]. apply andb_true_iff in He as [Ha Hb].
      apply plainc_inv in Ha as (A0 & A1 & A2 & A3 & A4). apply plainc_inv in Hb as (B0 & B1 & B2 & B3 & B4).
      apply N.leb_le in Hle. assert (Hlt : (b <? a) = false) by (apply N.ltb_ge; lia).
      destruct fuel as [|f1]; [simpl in Hf; lia|].
      unfold bl_at. cbn [elem_text app lnext lrest lprev]. cbn [bracket_loop].
      rewrite A0, A1, A2, A3, A4. cbn [andb lnext lrest lprev].
      destruct f1 as [|f2]; [simpl in Hf; lia|]. cbn [bracket_loop].
      change (cDASH =? 0) with false. change (cDASH =? cBSL) with false. change (cDASH =? cDASH) with true. cbn iota.
      cbn [push_tok set_slash bs_clsend orb]. rewrite Hc. cbn [orb llast lprev lpeek lrest]. rewrite B1, B3, Hlt.
      cbn [negb andb lnext lrest lprev].
      destruct f2 as [|f3]; [simpl in Hf; lia|]. cbn [bracket_loop]. rewrite B0, B1, B2, B3, B4. cbn [andb].
      etransitivity; [apply (IH f3 neg lit (b :: cDASH :: a :: pv) rest false); auto; simpl in *; try rewrite Hs; auto; lia|].
      cbn [push_tok set_slash bs_toks rev elem_toks elem_text]. f_equal; [rewrite <- !app_assoc; reflexivity|].
      f_equal. simpl. rewrite <- !app_assoc. reflexivity.
Qed.

Lemma next_nz : forall es rest, forallb elem_ok es = true ->
  exists c2 p2, es_text es ++ cRBRK :: rest = c2 :: p2 /\ (c2 =? 0) = false.
Proof.
  intros es rest Hok. destruct es as [|e es']; [exists cRBRK, rest; auto|].
  simpl in Hok. apply andb_true_iff in Hok as [He _]. rewrite es_text_cons, <- app_assoc.
  destruct e as [c|c|a b]; simpl in He.
  - apply plainc_inv in He as (E0 & _). eexists _, _. split; [reflexivity|exact E0].
  - eexists _, _. split; [reflexivity|reflexivity].
  - apply andb_true_iff in He as [He _]. apply andb_true_iff in He as [Ha _]. apply plainc_inv in Ha as (E0 & _).
    eexists _, _. split; [reflexivity|exact E0].
Qed.

Lemma close_out_items : forall neg toks items l, conv (S (length toks)) toks = CvOk items ->
  exists txt, close_out neg toks l = SOk txt (OOk (RSet neg items)) l.
Proof. intros. unfold close_out. rewrite H. eauto. Qed.

Definition st0 : bst := {| bs_toks := []; bs_slash := false; bs_def := None; bs_cls := None; bs_clsend := None |}.

(* the bracket case on the text of a set piece *)
Lemma bracket_set : forall neg rb es rest pv, piece_ok (PSet neg rb es) = true ->
  exists txt,
    bracket false {| lprev := pv; lrest := set_tail neg rb es ++ rest |} =
    SOk txt (OOk (RSet (is_some neg) (set_items rb es)))
        {| lprev := rev (set_tail neg rb es) ++ pv; lrest := rest |}.
Proof.
  intros neg rb es rest pv Hok. simpl in Hok.
  apply andb_true_iff in Hok as [Hok Hneg]. apply andb_true_iff in Hok as [Hes Hne].
  pose proof (elem_ok_rng es Hes) as Hrng.
  destruct (next_nz es rest Hes) as (c2 & p2 & Hsh & Hc2).
  pose proof (f_equal (@length N) Hsh) as HL. rewrite app_length in HL. simpl in HL.
  (* the two ways the loop is entered *)
  assert (EnterRb : forall fuel lit ng pv', (length (es_text es) + 2 <= fuel)%nat -> exists txt,
            bracket_loop fuel false ng lit c2 {| lprev := c2 :: pv'; lrest := p2 |} false (push_tok st0 (BChar cRBRK QRaw))
            = SOk txt (OOk (RSet ng (set_items true es))) {| lprev := cRBRK :: rev (es_text es) ++ pv'; lrest := rest |}).
  { intros fuel lit ng pv' Hfu.
    pose proof (bl_es es fuel ng lit pv' rest false (push_tok st0 (BChar cRBRK QRaw)) Hes eq_refl eq_refl eq_refl Hfu) as L.
    unfold bl_at in L. rewrite Hsh in L. cbn [lnext lrest lprev] in L. rewrite L.
    apply close_out_items. cbn [push_tok bs_toks st0 rev app].
    change (BChar cRBRK QRaw :: es_toks es) with (es_toks (EChar cRBRK :: es)).
    rewrite conv_es; [reflexivity| simpl; exact Hrng | lia]. }
  assert (EnterPlain : forall fuel lit ng pv' first, (length (es_text es) + 2 <= fuel)%nat -> exists txt,
            bracket_loop fuel false ng lit c2 {| lprev := c2 :: pv'; lrest := p2 |} first st0
            = SOk txt (OOk (RSet ng (set_items false es))) {| lprev := cRBRK :: rev (es_text es) ++ pv'; lrest := rest |}).
  { intros fuel lit ng pv' first Hfu.
    pose proof (bl_es es fuel ng lit pv' rest first st0 Hes eq_refl eq_refl eq_refl Hfu) as L.
    unfold bl_at in L. rewrite Hsh in L. cbn [lnext lrest lprev] in L. rewrite L.
    apply close_out_items. cbn [bs_toks st0 rev app].
    rewrite conv_es; [reflexivity| exact Hrng | lia]. }
  set (lit := {| lprev := pv; lrest := set_tail neg rb es ++ rest |}).
  unfold bracket. fold st0.
  destruct neg as [m|]; destruct rb; unfold lit, set_tail, set_body_text; cbn [app lnext lrest lprev is_some].
  - (* [m]...  *)
    assert (Hm : (m =? cBANG) || (m =? cCARET) = true) by exact Hneg.
    assert (Hm0 : (m =? 0) = false).
    { apply orb_true_iff in Hm as [H|H]; apply N.eqb_eq in H; subst; reflexivity. }
    rewrite Hm0, Hm. cbn [lnext lrest lprev]. change (cRBRK =? 0) with false. change (cRBRK =? cRBRK) with true. cbn iota.
    rewrite <- app_assoc. cbn [app]. rewrite Hsh. cbn [lnext lrest lprev]. rewrite Hc2.
    match goal with |- context [bracket_loop ?F false ?ng ?L c2 _ false _] =>
      destruct (EnterRb F L ng (cRBRK :: m :: pv)) as [txt Ht]; [cbn [length]; lia|] end.
    exists txt. rewrite Ht. f_equal. f_equal.
    simpl. repeat rewrite rev_app_distr. simpl. repeat rewrite <- app_assoc. reflexivity.
  - assert (Hm : (m =? cBANG) || (m =? cCARET) = true) by exact Hneg.
    assert (Hm0 : (m =? 0) = false).
    { apply orb_true_iff in Hm as [H|H]; apply N.eqb_eq in H; subst; reflexivity. }
    rewrite Hm0, Hm. rewrite <- app_assoc. cbn [app]. rewrite Hsh. cbn [lnext lrest lprev]. rewrite Hc2.
    destruct es as [|e es']; [discriminate|].
    assert (Hrb2 : (c2 =? cRBRK) = false).
    { destruct (next_shape (e :: es') rest Hes) as (c2' & p2' & Hsh' & _ & [(Hn & _)|(e0 & es0 & _ & Hr & _)]); [discriminate|].
      rewrite Hsh in Hsh'. injection Hsh' as <- <-. exact Hr. }
    rewrite Hrb2.
    match goal with |- context [bracket_loop ?F false ?ng ?L c2 _ true _] =>
      destruct (EnterPlain F L ng (m :: pv) true) as [txt Ht]; [cbn [length]; lia|] end.
    exists txt. rewrite Ht. f_equal. f_equal.
    simpl. repeat rewrite rev_app_distr. simpl. repeat rewrite <- app_assoc. reflexivity.
  - (* no negation, "]" first *)
    change (cRBRK =? 0) with false. change ((cRBRK =? cBANG) || (cRBRK =? cCARET)) with false. cbn iota.
    change (cRBRK =? 0) with false. change (cRBRK =? cRBRK) with true. cbn iota.
    rewrite <- app_assoc. cbn [app]. rewrite Hsh. cbn [lnext lrest lprev]. rewrite Hc2.
    match goal with |- context [bracket_loop ?F false ?ng ?L c2 _ false _] =>
      destruct (EnterRb F L ng (cRBRK :: pv)) as [txt Ht]; [cbn [length]; lia|] end.
    exists txt. rewrite Ht. f_equal. f_equal.
    simpl. repeat rewrite rev_app_distr. simpl. repeat rewrite <- app_assoc. reflexivity.
  - destruct es as [|e es']; [discriminate|].
    rewrite <- app_assoc. cbn [app]. rewrite Hsh. cbn [lnext lrest lprev]. rewrite Hc2.
    assert (Hfr : c2 = first_rune (e :: es')).
    { destruct e; simpl in Hsh; injection Hsh as <- _; reflexivity. }
    cbn [orb] in Hneg. apply negb_true_iff in Hneg. rewrite <- Hfr in Hneg. rewrite Hneg. rewrite Hc2.
    assert (Hrb2 : (c2 =? cRBRK) = false).
    { destruct (next_shape (e :: es') rest Hes) as (c2' & p2' & Hsh' & _ & [(Hn & _)|(e0 & es0 & _ & Hr & _)]); [discriminate|].
      rewrite Hsh in Hsh'. injection Hsh' as <- <-. exact Hr. }
    rewrite Hrb2.
    match goal with |- context [bracket_loop ?F false ?ng ?L c2 _ true _] =>
      destruct (EnterPlain F L ng pv true) as [txt Ht]; [cbn [length]; lia|] end.
    exists txt. rewrite Ht. f_equal. f_equal.
    simpl. repeat rewrite rev_app_distr. simpl. repeat rewrite <- app_assoc. reflexivity.
Qed.

(* --- a reversed range is the "invalid range" error --------------------------------------------- *)
Lemma bl_rev : forall fuel neg lit pv rest first st a b,
  plainc a = true -> plainc b = true -> (b <? a) = true ->
  bs_slash st = false -> bs_def st = None -> bs_clsend st = None -> (4 <= fuel)%nat ->
  bl_at fuel neg lit pv (a :: cDASH :: b :: cRBRK :: rest) first st = SErr (ERange a b).
Proof.
  intros fuel neg lit pv rest first st a b Ha Hb Hlt Hs Hd Hc Hf.
  apply plainc_inv in Ha as (A0 & A1 & A2 & A3 & A4). apply plainc_inv in Hb as (B0 & B1 & B2 & B3 & B4).
  destruct fuel as [|f1]; [lia|]. unfold bl_at. cbn [lnext lrest lprev]. cbn [bracket_loop].
  rewrite A0, A1, A2, A3, A4. cbn [andb lnext lrest lprev].
  destruct f1 as [|f2]; [lia|]. cbn [bracket_loop].
  change (cDASH =? 0) with false. change (cDASH =? cBSL) with false. change (cDASH =? cDASH) with true. cbn iota.
  cbn [push_tok set_slash bs_clsend orb]. rewrite Hc. cbn [orb llast lprev lpeek lrest]. rewrite B1, B3, Hlt.
  cbn [negb andb lnext lrest lprev].
  destruct f2 as [|f3]; [lia|]. cbn [bracket_loop]. rewrite B0, B1, B2, B3, B4. cbn [andb lnext lrest lprev].
  destruct f3 as [|f4]; [lia|]. cbn [bracket_loop].
  change (cRBRK =? 0) with false. change (cRBRK =? cBSL) with false. change (cRBRK =? cDASH) with false.
  change (cRBRK =? cRBRK) with true. cbn iota.
  cbn [push_tok set_slash set_def bs_slash bs_def]. rewrite Hs, Hd. reflexivity.
Qed.
