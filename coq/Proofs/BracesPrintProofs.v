(* Proofs/BracesPrintProofs.v — C16: the Printer's trailing-backslash rule is preserved by SplitBraces. *)
From Verif Require Import Base.Str Proofs.StrProofs Expand.Braces Proofs.BracesProofs.
Require Import ZifyN ZifyNat ZifyBool.
Open Scope N_scope.

(* ================================================================== the Printer's trailing-backslash rule *)

Section PartInd.
  Variable P : part -> Prop.
  Hypothesis HL : forall s, P (PLit s).
  Hypothesis HB : forall sq es, Forall (Forall P) es -> P (PBrace sq es).
  Fixpoint part_ind2 (p : part) : P p :=
    match p with
    | PLit s => HL s
    | PBrace sq es =>
        HB sq es
          ((fix go (l : list (list part)) : Forall (Forall P) l :=
              match l with
              | [] => Forall_nil _
              | e :: l' =>
                  Forall_cons e
                    ((fix go2 (q : list part) : Forall P q :=
                        match q with
                        | [] => Forall_nil _
                        | x :: q' => Forall_cons x (part_ind2 x) (go2 q')
                        end) e)
                    (go l')
              end) es)
    end.
End PartInd.

Definition tb (s : str) : bool := trailing_bs_odd_rev (rev s).

Lemma tb_snoc : forall s c, tb (s ++ [c]) = if c =? BS then negb (tb s) else false.
Proof. intros. unfold tb. rewrite rev_app_distr. reflexivity. Qed.

Lemma tb_snoc2 : forall s d, tb (s ++ [BS; d]) = if d =? BS then tb s else false.
Proof.
  intros. change [BS; d] with ([BS] ++ [d]). rewrite app_assoc, !tb_snoc. simpl.
  destruct (d =? BS); [apply negb_involutive|reflexivity].
Qed.

Lemma tb_nil : tb [] = false.
Proof. reflexivity. Qed.

Lemma print_lit_tb : forall s, print_lit s = if tb s then s ++ [BS] else s.
Proof. reflexivity. Qed.

(* every literal in the tree has an even number of trailing backslashes *)
Fixpoint ev_part (p : part) : bool :=
  match p with
  | PLit s => negb (tb s)
  | PBrace _ es => forallb (forallb ev_part) es
  end.
Definition ev_word (w : word) : bool := forallb ev_part w.

Lemma print_cons : forall p w, print (p :: w) = print_part p ++ print w.
Proof. reflexivity. Qed.
Lemma print_app : forall a b, print (a ++ b) = print a ++ print b.
Proof. intros; unfold print; now rewrite map_app, concat_app. Qed.

Lemma ev_print_part : forall p, ev_part p = true -> print_part p = render_part p.
Proof.
  apply (part_ind2 (fun p => ev_part p = true -> print_part p = render_part p)).
  - intros s H. simpl in *. rewrite print_lit_tb. apply negb_true_iff in H. now rewrite H.
  - intros sq es IH H. simpl in H. simpl. f_equal. f_equal. f_equal.
    induction es as [|e es IHes]; [reflexivity|].
    simpl in H. apply andb_prop in H. destruct H as [He Hes].
    inversion IH as [|? ? IHe IHes']; subst. simpl. f_equal; [|now apply IHes].
    clear IHes IHes' IH Hes. induction e as [|q e IHq]; [reflexivity|].
    simpl in He. apply andb_prop in He. destruct He as [Hq He].
    inversion IHe; subst. simpl. f_equal; auto.
Qed.

Lemma ev_print : forall w, ev_word w = true -> print w = render w.
Proof.
  induction w as [|p w IH]; intros H; [reflexivity|].
  simpl in H. apply andb_prop in H. destruct H as [Hp Hw].
  rewrite print_cons, render_cons, ev_print_part, IH; auto.
Qed.

Lemma ev_word_app : forall a b, ev_word (a ++ b) = ev_word a && ev_word b.
Proof. intros; unfold ev_word; apply forallb_app. Qed.

Definition ev_frame (f : frame) : bool := forallb ev_word (felems f).
Definition ev_state (st : state) : Prop := ev_word (top st) = true /\ forallb ev_frame (opn st) = true.

Lemma ev_frame_alt : forall f, ev_frame f = forallb ev_word (fdone f) && ev_word (facc f).
Proof. intros; unfold ev_frame, felems. rewrite forallb_app. simpl. now rewrite andb_true_r. Qed.

Lemma ev_flat_elems : forall sp es, tb sp = false -> forallb ev_word es = true -> ev_word (flat_elems sp es) = true.
Proof.
  intros sp es Hsp. induction es as [|e es IH]; [reflexivity|].
  intros H. simpl in H. apply andb_prop in H. destruct H as [He Hes].
  destruct es as [|e' es'].
  - exact He.
  - change (flat_elems sp (e :: e' :: es')) with (e ++ PLit sp :: flat_elems sp (e' :: es')).
    rewrite ev_word_app, He. simpl. rewrite Hsp. simpl. apply IH. exact Hes.
Qed.

Lemma ev_lit_of : forall p, tb p = false -> ev_word (lit_of p) = true.
Proof. intros [|c p] H; [reflexivity|]. simpl. now rewrite H. Qed.

Lemma ev_add_parts : forall ps st, ev_word ps = true -> ev_state st -> ev_state (add_parts ps st).
Proof.
  intros ps [tp [|f r] fd] Hps [Ht Ho]; unfold add_parts, ev_state in *; simpl in *.
  - split; [|reflexivity]. now rewrite ev_word_app, Ht, Hps.
  - split; [exact Ht|]. apply andb_prop in Ho. destruct Ho as [Hf Hr]. rewrite Hr, andb_true_r.
    rewrite ev_frame_alt in *. simpl. apply andb_prop in Hf. destruct Hf as [Hd Ha].
    now rewrite Hd, ev_word_app, Ha, Hps.
Qed.

Lemma ev_flush_frame : forall p f, tb p = false -> ev_frame f = true -> ev_frame (flush_frame p f) = true.
Proof.
  intros p f Hp H. rewrite ev_frame_alt in *. unfold flush_frame; simpl.
  apply andb_prop in H. destruct H as [Hd Ha]. now rewrite Hd, ev_word_app, Ha, ev_lit_of.
Qed.

Lemma ev_close_parts : forall f, ev_frame f = true -> ev_word (fst (close_parts f)) = true.
Proof.
  intros f H. unfold ev_frame in H.
  destruct (close_parts_cases f) as [[e [E ->]]|[[-> B]|[Sq ->]]]; simpl fst.
  - rewrite E in H. simpl in H. rewrite andb_true_r in H.
    change (ev_word (PLit [LB] :: e ++ [PLit [RB]])) with (ev_word (e ++ [PLit [RB]])).
    now rewrite ev_word_app, H.
  - unfold ev_word. simpl. rewrite andb_true_r. exact H.
  - change (ev_word (PLit [LB] :: flat_elems [DOT; DOT] (felems f) ++ [PLit [RB]]))
      with (ev_word (flat_elems [DOT; DOT] (felems f) ++ [PLit [RB]])).
    rewrite ev_word_app, ev_flat_elems; auto.
Qed.

Lemma ev_do_comma : forall f r st, ev_word (top st) = true -> ev_frame f = true -> forallb ev_frame r = true ->
  ev_state (do_comma f r st).
Proof.
  intros f r st Ht Hf Hr. unfold ev_state, do_comma.
  destruct (fseq f); simpl; (split; [exact Ht|]); rewrite Hr, andb_true_r.
  - unfold ev_frame, felems; simpl. rewrite ev_flat_elems; auto.
  - unfold ev_frame at 1, felems at 1; simpl. rewrite forallb_app. simpl. unfold ev_frame in Hf. now rewrite Hf.
Qed.

Lemma ev_do_dots : forall f r st, ev_word (top st) = true -> ev_frame f = true -> forallb ev_frame r = true ->
  ev_state (do_dots f r st).
Proof.
  intros f r st Ht Hf Hr. unfold ev_state, do_dots. simpl. split; [exact Ht|]. rewrite Hr, andb_true_r.
  unfold ev_frame at 1, felems at 1; simpl. rewrite forallb_app. simpl. unfold ev_frame in Hf. now rewrite Hf.
Qed.

Lemma ev_do_close : forall f r st, ev_word (top st) = true -> ev_frame f = true -> forallb ev_frame r = true ->
  ev_state (do_close f r st).
Proof.
  intros f r st Ht Hf Hr. unfold do_close.
  pose proof (ev_close_parts _ Hf) as C. destruct (close_parts f) as [ps fnd]. simpl in C.
  assert (W: ev_state (add_parts ps {| top := top st; opn := r; found := found st |})).
  { apply ev_add_parts; [exact C|]. split; assumption. }
  exact W.
Qed.

(* loop invariant: literals so far are even, the pending literal is even, and so is the text read so far *)
Definition bs_inv (st : state) (pend : str) : Prop :=
  ev_state st /\ tb pend = false /\ tb (state_text st ++ pend) = false.

Lemma tb_app_snoc : forall a c, c <> BS -> tb (a ++ [c]) = false.
Proof. intros a c H. rewrite tb_snoc. apply N.eqb_neq in H. now rewrite H. Qed.

Lemma scan_bs_n : forall n w, (length w <= n)%nat -> forall pend st st' pend',
  bs_inv st pend -> scan w pend st = (st', pend') ->
  ev_state st' /\ tb pend' = tb (state_text st' ++ pend').
Proof.
  induction n as [|n IHn]; intros w Hn pend st st' pend' [Hev [Hp Ht]] H.
  { destruct w; [|simpl in Hn; lia]. simpl in H. injection H as <- <-. split; [exact Hev|]. now rewrite Hp, Ht. }
  destruct w as [|c rest]; simpl in H.
  { injection H as <- <-. split; [exact Hev|]. now rewrite Hp, Ht. }
  simpl in Hn.
  assert (IH: forall w', (length w' <= length rest)%nat -> forall pend st st' pend',
            bs_inv st pend -> scan w' pend st = (st', pend') ->
            ev_state st' /\ tb pend' = tb (state_text st' ++ pend')).
  { intros w' Hw'. apply IHn. lia. }
  assert (IHr := IH rest (Nat.le_refl _)).
  assert (IHr': forall d rest', rest = d :: rest' -> forall pend st st' pend',
            bs_inv st pend -> scan rest' pend st = (st', pend') ->
            ev_state st' /\ tb pend' = tb (state_text st' ++ pend')).
  { intros d rest' ->. apply IH. simpl. lia. }
  clear IH IHn Hn.
  (* a character that is simply appended to the pending literal *)
  assert (Hcont: c <> BS -> bs_inv st (pend ++ [c])).
  { intros Hc. split; [exact Hev|]. split; [now apply tb_app_snoc|].
    rewrite app_assoc. now apply tb_app_snoc. }
  (* after a split point: pending literal empty, text ends with a metacharacter *)
  assert (Hsplit: forall st2 m, ev_state st2 -> m <> BS -> (exists t0, state_text st2 = t0 ++ [m]) -> bs_inv st2 []).
  { intros st2 m E2 Hm [t0 T0]. split; [exact E2|]. split; [reflexivity|].
    rewrite app_nil_r, T0. now apply tb_app_snoc. }
  destruct (c =? BS) eqn:Ebs.
  { apply N.eqb_eq in Ebs. subst c. destruct rest as [|d rest'].
    - injection H as <- <-. split; [exact Hev|].
      rewrite app_assoc, !tb_snoc. simpl. now rewrite Hp, Ht.
    - eapply (IHr' d rest' eq_refl); [|exact H]. split; [exact Hev|].
      rewrite app_assoc, !tb_snoc2, Hp, Ht. destruct (d =? BS); auto. }
  apply N.eqb_neq in Ebs.
  destruct (c =? LB) eqn:Elb.
  { eapply IHr; [|exact H]. apply (Hsplit _ LB).
    - destruct (ev_add_parts (lit_of pend) st (ev_lit_of _ Hp) Hev) as [A B].
      unfold open_brace, flush. split; simpl; [exact A|]. exact B.
    - discriminate.
    - exists (state_text st ++ pend). now rewrite state_text_open, state_text_flush. }
  destruct st as [tp fs fd]. simpl opn in H. destruct fs as [|f r].
  { eapply IHr; [|exact H]. now apply Hcont. }
  destruct Hev as [Hevt Hevo]. simpl in Hevt, Hevo. apply andb_prop in Hevo. destruct Hevo as [Hf Hr].
  pose proof (ev_flush_frame pend f Hp Hf) as Hff.
  assert (Hst: state_text (mkState tp (f :: r) fd) = render tp ++ frames_text r ++ frame_text f)
    by apply state_text_frame.
  destruct (c =? COMMA) eqn:Eco.
  { eapply IHr; [|exact H]. apply (Hsplit _ COMMA).
    - now apply ev_do_comma.
    - discriminate.
    - rewrite state_text_comma. simpl top. eexists. rewrite !app_assoc. reflexivity. }
  destruct (c =? DOT) eqn:Edo.
  { destruct rest as [|d rest'].
    - eapply IHr; [|exact H]. apply Hcont; auto.
    - destruct (d =? DOT) eqn:Ed2.
      + destruct (negb (fseq f) && Nat.ltb 1 (length (felems f))) eqn:G.
        * eapply IHr; [|exact H]. apply Hcont; auto.
        * eapply (IHr' d rest' eq_refl); [|exact H]. apply (Hsplit _ DOT).
          -- now apply ev_do_dots.
          -- discriminate.
          -- rewrite state_text_dots.
             ++ simpl top. exists (render tp ++ frames_text r ++ frame_text (flush_frame pend f) ++ [DOT]).
                rewrite <- !app_assoc. reflexivity.
             ++ simpl. apply andb_false_iff in G. destruct G as [G|G].
                ** left. now destruct (fseq f).
                ** right. apply Nat.ltb_ge in G. unfold felems in G. rewrite app_length in G. simpl in G.
                   destruct (fdone f); [reflexivity|simpl in G; lia].
      + eapply IHr; [|exact H]. apply Hcont; auto. }
  destruct (c =? RB) eqn:Erb.
  { eapply IHr; [|exact H]. apply (Hsplit _ RB).
    - now apply ev_do_close.
    - discriminate.
    - rewrite state_text_close. simpl top. eexists. rewrite !app_assoc. reflexivity. }
  eapply IHr; [|exact H]. apply Hcont; auto.
Qed.

(* a word all of whose literals are even except the very last part, an odd literal *)
Definition ends_odd (w : word) : Prop := exists a s, w = a ++ [PLit s] /\ ev_word a = true /\ tb s = true.

Lemma print_ends_odd : forall w, ends_odd w -> print w = render w ++ [BS].
Proof.
  intros w (a & s & -> & Ha & Hs). rewrite print_app, render_app, ev_print by exact Ha.
  unfold print, render. simpl. rewrite print_lit_tb, Hs. now rewrite !app_nil_r, <- app_assoc.
Qed.

Definition flat_pre (sp : str) (d : list word) : word := concat (map (fun e => e ++ [PLit sp]) d).

Lemma flat_elems_snoc : forall sp d x, flat_elems sp (d ++ [x]) = flat_pre sp d ++ x.
Proof.
  induction d as [|e d IH]; intros x; [reflexivity|].
  change ((e :: d) ++ [x]) with (e :: (d ++ [x])).
  destruct (d ++ [x]) as [|y ys] eqn:E; [destruct d; discriminate|].
  change (flat_elems sp (e :: y :: ys)) with (e ++ PLit sp :: flat_elems sp (y :: ys)).
  rewrite <- E, IH. unfold flat_pre. simpl. now rewrite <- !app_assoc.
Qed.

Lemma ev_flat_pre : forall sp d, tb sp = false -> forallb ev_word d = true -> ev_word (flat_pre sp d) = true.
Proof.
  intros sp d Hsp. induction d as [|e d IH]; intros H; [reflexivity|].
  simpl in H. apply andb_prop in H. destruct H as [He Hd]. unfold flat_pre in *. simpl.
  rewrite !ev_word_app, He, IH by exact Hd. simpl. now rewrite Hsp.
Qed.

Lemma tb_sep : forall sq, tb (sep sq) = false.
Proof. destruct sq; reflexivity. Qed.

Lemma unclosed_ends_odd : forall fs inner tp,
  ev_word tp = true -> forallb ev_frame fs = true -> ends_odd inner -> ends_odd (unclosed fs inner tp).
Proof.
  induction fs as [|f r IH]; intros inner tp Ht Hf (a & s & -> & Ha & Hs); simpl.
  - exists (tp ++ a), s. rewrite app_assoc. split; [reflexivity|]. split; [|exact Hs]. now rewrite ev_word_app, Ht, Ha.
  - simpl in Hf. apply andb_prop in Hf. destruct Hf as [Hf Hr]. apply IH; auto.
    rewrite ev_frame_alt in Hf. apply andb_prop in Hf. destruct Hf as [Hd Hc].
    rewrite flat_elems_snoc.
    exists (PLit [LB] :: flat_pre (sep (fseq f)) (fdone f) ++ facc f ++ a), s.
    split; [simpl; now rewrite <- !app_assoc|]. split; [|exact Hs].
    change (ev_word (PLit [LB] :: ?x)) with (ev_word x).
    now rewrite !ev_word_app, ev_flat_pre, Hc, Ha by (auto using tb_sep).
Qed.

Lemma ev_unclosed : forall fs inner tp,
  ev_word tp = true -> forallb ev_frame fs = true -> ev_word inner = true -> ev_word (unclosed fs inner tp) = true.
Proof.
  induction fs as [|f r IH]; intros inner tp Ht Hf Hi; simpl.
  - now rewrite ev_word_app, Ht, Hi.
  - simpl in Hf. apply andb_prop in Hf. destruct Hf as [Hf Hr]. apply IH; auto.
    change (ev_word (PLit [LB] :: ?x)) with (ev_word x).
    apply ev_flat_elems; [apply tb_sep|]. rewrite forallb_app. rewrite ev_frame_alt in Hf. apply andb_prop in Hf.
    destruct Hf as [Hd Ha]. rewrite Hd. simpl. now rewrite ev_word_app, Ha, Hi.
Qed.

Theorem split_preserves_print : forall w, print (snd (split_braces w)) = print [PLit w].
Proof.
  intros w. pose proof (split_preserves_text w) as RT. revert RT. unfold split_braces.
  destruct (negb (contains_byte LB w)); [reflexivity|].
  destruct (scan w [] (mkState [] [] false)) as [st pend] eqn:E.
  pose proof (scan_text _ _ _ _ _ E) as TX. simpl in TX.
  apply (scan_bs_n (length w)) in E; [|lia|].
  2:{ split; [split; reflexivity|]. split; reflexivity. }
  destruct E as [Hev Htb]. rewrite TX in Htb.
  destruct (found (flush pend st)) eqn:Fd; simpl; [|reflexivity].
  intros RT. unfold print at 2. simpl. rewrite app_nil_r, print_lit_tb, <- Htb.
  destruct (tb pend) eqn:Tp.
  - (* the word ends in a lone backslash: the last literal is odd, and it is the last part *)
    assert (Hne: pend <> []) by (intros ->; discriminate).
    assert (EO: ends_odd (unclosed (opn (flush pend st)) [] (top (flush pend st)))).
    { unfold flush. destruct pend as [|c0 p0]; [congruence|]. simpl lit_of.
      destruct st as [tp [|f r] fd]; unfold add_parts; simpl.
      - exists tp, (c0 :: p0). destruct Hev as [Ht _]. simpl in Ht. rewrite app_nil_r. auto.
      - destruct Hev as [Ht Ho]. simpl in Ht, Ho. apply andb_prop in Ho. destruct Ho as [Hf Hr].
        apply unclosed_ends_odd; auto.
        rewrite ev_frame_alt in Hf. apply andb_prop in Hf. destruct Hf as [Hd Hc].
        rewrite app_nil_r, flat_elems_snoc.
        exists (PLit [LB] :: flat_pre (sep (fseq f)) (fdone f) ++ facc f), (c0 :: p0).
        split; [simpl; now rewrite <- !app_assoc|]. split; [|exact Tp].
        change (ev_word (PLit [LB] :: ?x)) with (ev_word x).
        now rewrite ev_word_app, ev_flat_pre, Hc by (auto using tb_sep). }
    rewrite (print_ends_odd _ EO), RT. reflexivity.
  - assert (E1: ev_state (flush pend st)) by (apply ev_add_parts; [now apply ev_lit_of|exact Hev]).
    destruct E1 as [Et Eo]. rewrite ev_print; [exact RT|]. apply ev_unclosed; auto.
Qed.
