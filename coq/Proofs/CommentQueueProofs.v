(* Proofs/CommentQueueProofs.v — the pending-comment queue writes every comment handed
   to it exactly once and in order; under Minify only first-line shebangs are written. *)
From Verif Require Import Base.Str Syntax.CommentQueue.

(* invariant: written ++ pending is the sequence handed over so far *)
Lemma stmt_list_seq : forall ss p,
  written (stmt_list false ss p) ++ pending (stmt_list false ss p)
  = written p ++ pending p ++ all_comments ss.
Proof.
  induction ss as [|s ss IH]; intros p; simpl.
  - rewrite app_nil_r. reflexivity.
  - rewrite IH. destruct (nl_before s); simpl; rewrite <- !app_assoc; reflexivity.
Qed.

Lemma print_file_keeps_all : forall ss last,
  print_file false ss last = all_comments ss ++ last.
Proof.
  intros ss last. unfold print_file. simpl.
  pose proof (stmt_list_seq ss st0) as H. simpl in H.
  rewrite app_assoc. rewrite H. reflexivity.
Qed.

Definition keep (c : comment) : bool := c_shebang c && c_at_1_1 c.

Lemma comments_minify : forall cs p, pending p = [] ->
  pending (comments true cs p) = [] /\ written (comments true cs p) = written p ++ filter keep cs.
Proof. intros cs p Hp. simpl. auto. Qed.

Lemma flush_nopending : forall p, pending p = [] -> pending (flush p) = [] /\ written (flush p) = written p.
Proof. intros p Hp. simpl. rewrite Hp, app_nil_r. auto. Qed.

Lemma stmt_list_minify : forall ss p, pending p = [] ->
  pending (stmt_list true ss p) = [] /\
  written (stmt_list true ss p) = written p ++ filter keep (all_comments ss).
Proof.
  induction ss as [|s ss IH]; intros p Hp; simpl.
  - rewrite app_nil_r. auto.
  - destruct (nl_before s); simpl.
    + match goal with |- pending (stmt_list true ss ?q) = [] /\ _ => destruct (IH q eq_refl) as [A B] end.
      split; [exact A|]. rewrite B. simpl. rewrite Hp, app_nil_r.
      rewrite !filter_app, <- !app_assoc. reflexivity.
    + match goal with |- pending (stmt_list true ss ?q) = [] /\ _ => destruct (IH q Hp) as [A B] end.
      split; [exact A|]. rewrite B. simpl.
      rewrite !filter_app, <- !app_assoc. reflexivity.
Qed.

Lemma print_file_minify : forall ss last,
  print_file true ss last = filter keep (all_comments ss ++ last).
Proof.
  intros ss last. unfold print_file.
  destruct (stmt_list_minify ss st0 eq_refl) as [A B].
  set (p := stmt_list true ss st0) in *.
  destruct (comments_minify last p A) as [A1 B1].
  destruct (flush_nopending _ A1) as [_ B2]. rewrite B2, B1, B. simpl.
  rewrite filter_app. reflexivity.
Qed.

Lemma print_file_minify_only_shebang : forall ss last c,
  In c (print_file true ss last) -> c_shebang c = true /\ c_at_1_1 c = true.
Proof.
  intros ss last c H. rewrite print_file_minify in H. apply filter_In in H. destruct H as [_ H].
  unfold keep in H. apply andb_true_iff in H. exact H.
Qed.
