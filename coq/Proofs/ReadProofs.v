(* Proofs/ReadProofs.v — proofs about Expand/Read.v (C23). *)
From Verif Require Import Base.Str Expand.Fields Expand.Read.
From Coq Require Import ZifyN ZifyNat ZifyBool.
Open Scope N_scope.

(* ---- no panic: every index and slice expression of ReadFields is in range ------------- *)
Definition pos_ok (len : nat) (p : nat * nat) : Prop := (fst p <= snd p <= len)%nat.

(* invariant of the loop: closed entries are within buf; when inside a field the
   head entry is open (its end is not yet written) and starts within buf *)
Definition rinv (s : rst) : Prop :=
  (trim_end s <= length (buf s))%nat /\
  match fpos s with
  | [] => infield s = false
  | (st, e) :: t =>
      Forall (pos_ok (length (buf s))) t /\
      (if infield s then (st <= length (buf s))%nat else pos_ok (length (buf s)) (st, e))
  end.

Lemma pos_ok_mono : forall a b p, (a <= b)%nat -> pos_ok a p -> pos_ok b p.
Proof. unfold pos_ok. intros. lia. Qed.

Lemma Forall_pos_mono : forall a b l, (a <= b)%nat -> Forall (pos_ok a) l -> Forall (pos_ok b) l.
Proof. intros a b l H F. eapply Forall_impl; [|exact F]. intros p. apply pos_ok_mono. exact H. Qed.

Lemma rinv_r0 : rinv r0.
Proof. unfold rinv, r0. simpl. split; [lia|reflexivity]. Qed.

Lemma rf_step_inv : forall ifs raw s r, rinv s ->
  exists s', rf_step ifs raw s r = Ok s' /\ rinv s'.
Proof.
  intros ifs raw s r [Ht Hf]. unfold rf_step.
  destruct ((r =? BSL) && negb raw && negb (esc s)).
  { eexists. split; [reflexivity|]. unfold rinv. simpl. split; assumption. }
  assert (Hlen : length (buf s ++ [r]) = S (length (buf s))) by (rewrite app_length; simpl; lia).
  assert (Htrim : ((if ifs_ws ifs r then trim_end s else length (buf s ++ [r])) <= length (buf s ++ [r]))%nat)
    by (destruct (ifs_ws ifs r); lia).
  destruct (negb (negb (esc s) && ifs_rune ifs r)) eqn:Esep.
  - destruct (infield s) eqn:Ein.
    + eexists. split; [reflexivity|]. unfold rinv. cbn [fpos buf trim_end infield].
      split; [exact Htrim|].
      destruct (fpos s) as [|[st e] t]; [congruence|]. destruct Hf as [Hf1 Hf2].
      split; [eapply Forall_pos_mono; [|exact Hf1]; lia|]. rewrite Hlen. lia.
    + eexists. split; [reflexivity|]. unfold rinv. cbn [fpos buf trim_end infield].
      split; [exact Htrim|].
      split; [|rewrite Hlen; lia].
      destruct (fpos s) as [|[st e] t].
      * constructor.
      * destruct Hf as [Hf1 Hf2]. constructor.
        -- eapply pos_ok_mono; [|exact Hf2]. lia.
        -- eapply Forall_pos_mono; [|exact Hf1]. lia.
  - destruct (infield s) eqn:Ein.
    + destruct (fpos s) as [|[st e] t] eqn:Ef; [congruence|]. destruct Hf as [Hf1 Hf2].
      eexists. split; [reflexivity|]. unfold rinv. cbn [fpos buf trim_end infield].
      split; [exact Htrim|].
      split; [eapply Forall_pos_mono; [|exact Hf1]; lia|]. unfold pos_ok. simpl. rewrite Hlen. lia.
    + assert (Hkeep : forall w,
         rinv (mkr (fpos s) (buf s ++ [r]) (if ifs_ws ifs r then trim_end s else length (buf s ++ [r])) false w false)).
      { intros w. unfold rinv. cbn [fpos buf trim_end infield]. split; [exact Htrim|].
        destruct (fpos s) as [|[st e] t]; [reflexivity|]. destruct Hf as [Hf1 Hf2].
        split; [eapply Forall_pos_mono; [|exact Hf1]; lia|]. eapply pos_ok_mono; [|exact Hf2]. lia. }
      destruct (negb (esc s) && ifs_rune ifs r && ifs_ws ifs r).
      { eexists. split; [reflexivity|]. apply Hkeep. }
      destruct (wsdl s).
      { eexists. split; [reflexivity|]. apply Hkeep. }
      eexists. split; [reflexivity|]. unfold rinv. cbn [fpos buf trim_end infield].
      split; [exact Htrim|].
      split; [|unfold pos_ok; simpl; rewrite Hlen; lia].
      destruct (fpos s) as [|[st e] t].
      * constructor.
      * destruct Hf as [Hf1 Hf2]. constructor.
        -- eapply pos_ok_mono; [|exact Hf2]. lia.
        -- eapply Forall_pos_mono; [|exact Hf1]. lia.
Qed.

Lemma rf_loop_inv : forall ifs raw line s, rinv s ->
  exists s', rf_loop ifs raw line s = Ok s' /\ rinv s'.
Proof.
  induction line as [|r line IH]; intros s Hs; simpl.
  - eexists. split; [reflexivity|exact Hs].
  - destruct (rf_step_inv ifs raw s r Hs) as (s1 & E1 & H1). rewrite E1. apply IH. exact H1.
Qed.

Lemma slice_ok : forall b st e, pos_ok (length b) (st, e) -> exists f, slice b st e = Ok f.
Proof.
  intros b st e [H1 H2]. simpl in *. unfold slice.
  destruct (Nat.leb st e) eqn:E1; [|apply Nat.leb_gt in E1; lia].
  destruct (Nat.leb e (length b)) eqn:E2; [|apply Nat.leb_gt in E2; lia].
  eexists. reflexivity.
Qed.

Lemma slices_ok : forall b fp, Forall (pos_ok (length b)) fp -> exists fs, slices b fp = Ok fs.
Proof.
  induction fp as [|[st e] fp IH]; intros H; simpl.
  - eexists. reflexivity.
  - inversion H; subst. destruct (slice_ok b st e H2) as [f Ef]. rewrite Ef.
    destruct (IH H3) as [fs Efs]. rewrite Efs. eexists. reflexivity.
Qed.

Lemma rf_finish_ok : forall s n, rinv s -> exists fs, rf_finish s n = Ok fs.
Proof.
  intros s n [Ht Hf]. unfold rf_finish.
  destruct (fpos s) as [|[st e] t] eqn:Ef; [eexists; reflexivity|].
  destruct Hf as [Hf1 Hf2].
  set (fp := rev (if infield s then (st, length (buf s)) :: t else (st, e) :: t)).
  assert (Hall : Forall (pos_ok (length (buf s))) fp).
  { unfold fp. apply Forall_rev. destruct (infield s).
    - constructor; [unfold pos_ok; simpl; lia|exact Hf1].
    - constructor; assumption. }
  destruct ((0 <? n)%Z && (n <? Z.of_nat (length fp))%Z) eqn:En.
  - apply andb_prop in En. destruct En as [En1 En2].
    apply Z.ltb_lt in En1. apply Z.ltb_lt in En2.
    assert (Hk : (Z.to_nat (n - 1) < length fp)%nat) by lia.
    destruct (nth_error fp (Z.to_nat (n - 1))) as [[st' e']|] eqn:Enth.
    + apply slices_ok. apply Forall_app. split.
      * apply Forall_forall. intros p Hp. rewrite Forall_forall in Hall. apply Hall.
        rewrite <- (firstn_skipn (Z.to_nat (n - 1)) fp). apply in_or_app. left. exact Hp.
      * constructor; [|constructor].
        assert (Hp : pos_ok (length (buf s)) (st', e')).
        { rewrite Forall_forall in Hall. apply Hall. eapply nth_error_In. eassumption. }
        unfold pos_ok in *. simpl in *. lia.
    + apply nth_error_None in Enth. lia.
  - apply slices_ok. exact Hall.
Qed.

Theorem read_fields_no_panic : forall oifs line n raw, exists fs, read_fields oifs line n raw = Ok fs.
Proof.
  intros. unfold read_fields.
  destruct (rf_loop_inv (cfg_ifs oifs) raw line r0 rinv_r0) as (s & E & H). rewrite E.
  apply rf_finish_ok. exact H.
Qed.

(* readLine: the slice line[:len(line)-1] is only taken right after a backslash was appended *)
Lemma read_line_ok : forall raw inp line es, (es = true -> line <> []) ->
  exists r, read_line raw inp line es = Ok r.
Proof.
  induction inp as [|b inp IH]; intros line es H; simpl.
  - eexists. reflexivity.
  - destruct (negb raw && (b =? BSL)).
    + apply IH. intros _. destruct line; discriminate.
    + destruct (negb raw && (b =? NL) && es) eqn:E.
      * apply andb_prop in E. destruct E as [_ Ees]. subst es.
        destruct line as [|c line]; [exfalso; apply H; reflexivity|].
        apply IH. intros; discriminate.
      * destruct (b =? NL); [eexists; reflexivity|].
        apply IH. intros; discriminate.
Qed.

Theorem read_builtin_no_panic : forall oifs raw t inp, exists r, read_builtin oifs raw t inp = Ok r.
Proof.
  intros. unfold read_builtin.
  destruct (read_line_ok raw inp [] false) as [[line eof] E]; [intros; discriminate|]. rewrite E.
  destruct t.
  - eexists. reflexivity.
  - destruct (read_fields_no_panic oifs line (Z.of_nat k) raw) as [fs Ef]. rewrite Ef. eexists. reflexivity.
  - destruct (read_fields_no_panic oifs line (-1)%Z raw) as [fs Ef]. rewrite Ef. eexists. reflexivity.
Qed.
