(* Proofs/ReadProofs.v — proofs about Expand/Read.v (C23). *)
From Verif Require Import Base.Str Expand.Fields Expand.Read.
From Coq Require Import ZifyN ZifyNat ZifyBool.
Open Scope N_scope.

(* ---- no panic: every index and slice expression of ReadFields is in range ------------- *)
Definition pos_ok (len : nat) (p : nat * nat) : Prop := (fst p <= snd p <= len)%nat.

(* invariant of the loop: closed entries are within buf; when inside a field the
   head entry is open (its end is not yet written) and starts within buf *)
Definition rinv (s : rst) : Prop :=
  (trim_end s <= length (buf s))%nat /\
  match fpos s with
  | [] => infield s = false
  | (st, e) :: t =>
      Forall (pos_ok (length (buf s))) t /\
      (if infield s then (st <= length (buf s))%nat else pos_ok (length (buf s)) (st, e))
  end.

Lemma pos_ok_mono : forall a b p, (a <= b)%nat -> pos_ok a p -> pos_ok b p.
Proof. unfold pos_ok. intros. lia. Qed.

Lemma Forall_pos_mono : forall a b l, (a <= b)%nat -> Forall (pos_ok a) l -> Forall (pos_ok b) l.
Proof. intros a b l H F. eapply Forall_impl; [|exact F]. intros p. apply pos_ok_mono. exact H. Qed.

Lemma rinv_r0 : rinv r0.
Proof. unfold rinv, r0. simpl. split; [lia|reflexivity]. Qed.

Lemma rf_step_inv : forall ifs raw s r, rinv s ->
  exists s', rf_step ifs raw s r = Ok s' /\ rinv s'.
Proof.
  intros ifs raw s r [Ht Hf]. unfold rf_step.
  destruct ((r =? BSL) && negb raw && negb (esc s)).
  { eexists. split; [reflexivity|]. unfold rinv. simpl. split; assumption. }
  assert (Hlen : length (buf s ++ [r]) = S (length (buf s))) by (rewrite app_length; simpl; lia).
  assert (Htrim : ((if ifs_ws ifs r then trim_end s else length (buf s ++ [r])) <= length (buf s ++ [r]))%nat)
    by (destruct (ifs_ws ifs r); lia).
  destruct (negb (negb (esc s) && ifs_rune ifs r)) eqn:Esep.
  - destruct (infield s) eqn:Ein.
    + eexists. split; [reflexivity|]. unfold rinv. cbn [fpos buf trim_end infield].
      split; [exact Htrim|].
      destruct (fpos s) as [|[st e] t]; [congruence|]. destruct Hf as [Hf1 Hf2].
      split; [eapply Forall_pos_mono; [|exact Hf1]; lia|]. rewrite Hlen. lia.
    + eexists. split; [reflexivity|]. unfold rinv. cbn [fpos buf trim_end infield].
      split; [exact Htrim|].
      split; [|rewrite Hlen; lia].
      destruct (fpos s) as [|[st e] t].
      * constructor.
      * destruct Hf as [Hf1 Hf2]. constructor.
        -- eapply pos_ok_mono; [|exact Hf2]. lia.
        -- eapply Forall_pos_mono; [|exact Hf1]. lia.
  - destruct (infield s) eqn:Ein.
    + destruct (fpos s) as [|[st e] t] eqn:Ef; [congruence|]. destruct Hf as [Hf1 Hf2].
      eexists. split; [reflexivity|]. unfold rinv. cbn [fpos buf trim_end infield].
      split; [exact Htrim|].
      split; [eapply Forall_pos_mono; [|exact Hf1]; lia|]. unfold pos_ok. simpl. rewrite Hlen. lia.
    + assert (Hkeep : forall w,
         rinv (mkr (fpos s) (buf s ++ [r]) (if ifs_ws ifs r then trim_end s else length (buf s ++ [r])) false w false)).
      { intros w. unfold rinv. cbn [fpos buf trim_end infield]. split; [exact Htrim|].
        destruct (fpos s) as [|[st e] t]; [reflexivity|]. destruct Hf as [Hf1 Hf2].
        split; [eapply Forall_pos_mono; [|exact Hf1]; lia|]. eapply pos_ok_mono; [|exact Hf2]. lia. }
      destruct (negb (esc s) && ifs_rune ifs r && ifs_ws ifs r).
      { eexists. split; [reflexivity|]. apply Hkeep. }
      destruct (wsdl s).
      { eexists. split; [reflexivity|]. apply Hkeep. }
      eexists. split; [reflexivity|]. unfold rinv. cbn [fpos buf trim_end infield].
      split; [exact Htrim|].
      split; [|unfold pos_ok; simpl; rewrite Hlen; lia].
      destruct (fpos s) as [|[st e] t].
      * constructor.
      * destruct Hf as [Hf1 Hf2]. constructor.
        -- eapply pos_ok_mono; [|exact Hf2]. lia.
        -- eapply Forall_pos_mono; [|exact Hf1]. lia.
Qed.

Lemma rf_loop_inv : forall ifs raw line s, rinv s ->
  exists s', rf_loop ifs raw line s = Ok s' /\ rinv s'.
Proof.
  induction line as [|r line IH]; intros s Hs; simpl.
  - eexists. split; [reflexivity|exact Hs].
  - destruct (rf_step_inv ifs raw s r Hs) as (s1 & E1 & H1). rewrite E1. apply IH. exact H1.
Qed.

Lemma slice_ok : forall b st e, pos_ok (length b) (st, e) -> exists f, slice b st e = Ok f.
Proof.
  intros b st e [H1 H2]. simpl in *. unfold slice.
  destruct (Nat.leb st e) eqn:E1; [|apply Nat.leb_gt in E1; lia].
  destruct (Nat.leb e (length b)) eqn:E2; [|apply Nat.leb_gt in E2; lia].
  eexists. reflexivity.
Qed.

Lemma slices_ok : forall b fp, Forall (pos_ok (length b)) fp -> exists fs, slices b fp = Ok fs.
Proof.
  induction fp as [|[st e] fp IH]; intros H; simpl.
  - eexists. reflexivity.
  - inversion H; subst. destruct (slice_ok b st e H2) as [f Ef]. rewrite Ef.
    destruct (IH H3) as [fs Efs]. rewrite Efs. eexists. reflexivity.
Qed.

Lemma rf_finish_ok : forall s n, rinv s -> exists fs, rf_finish s n = Ok fs.
Proof.
  intros s n [Ht Hf]. unfold rf_finish.
  destruct (fpos s) as [|[st e] t] eqn:Ef; [eexists; reflexivity|].
  destruct Hf as [Hf1 Hf2].
  set (fp := rev (if infield s then (st, length (buf s)) :: t else (st, e) :: t)).
  assert (Hall : Forall (pos_ok (length (buf s))) fp).
  { unfold fp. apply Forall_rev. destruct (infield s).
    - constructor; [unfold pos_ok; simpl; lia|exact Hf1].
    - constructor; assumption. }
  destruct ((0 <? n)%Z && (n <? Z.of_nat (length fp))%Z) eqn:En.
  - apply andb_prop in En. destruct En as [En1 En2].
    apply Z.ltb_lt in En1. apply Z.ltb_lt in En2.
    assert (Hk : (Z.to_nat (n - 1) < length fp)%nat) by lia.
    destruct (nth_error fp (Z.to_nat (n - 1))) as [[st' e']|] eqn:Enth.
    + apply slices_ok. apply Forall_app. split.
      * apply Forall_forall. intros p Hp. rewrite Forall_forall in Hall. apply Hall.
        rewrite <- (firstn_skipn (Z.to_nat (n - 1)) fp). apply in_or_app. left. exact Hp.
      * constructor; [|constructor].
        assert (Hp : pos_ok (length (buf s)) (st', e')).
        { rewrite Forall_forall in Hall. apply Hall. eapply nth_error_In. eassumption. }
        unfold pos_ok in *. simpl in *. lia.
    + apply nth_error_None in Enth. lia.
  - apply slices_ok. exact Hall.
Qed.

Theorem read_fields_no_panic : forall oifs line n raw, exists fs, read_fields oifs line n raw = Ok fs.
Proof.
  intros. unfold read_fields.
  destruct (rf_loop_inv (cfg_ifs oifs) raw line r0 rinv_r0) as (s & E & H). rewrite E.
  apply rf_finish_ok. exact H.
Qed.

(* readLine: the slice line[:len(line)-1] is only taken right after a backslash was appended *)
Lemma read_line_ok : forall raw inp line es, (es = true -> line <> []) ->
  exists r, read_line raw inp line es = Ok r.
Proof.
  induction inp as [|b inp IH]; intros line es H; simpl.
  - eexists. reflexivity.
  - destruct (negb raw && (b =? BSL)).
    + apply IH. intros _. destruct line; discriminate.
    + destruct (negb raw && (b =? NL) && es) eqn:E.
      * apply andb_prop in E. destruct E as [_ Ees]. subst es.
        destruct line as [|c line]; [exfalso; apply H; reflexivity|].
        apply IH. intros; discriminate.
      * destruct (b =? NL); [eexists; reflexivity|].
        apply IH. intros; discriminate.
Qed.

Theorem read_builtin_no_panic : forall oifs raw t inp, exists r, read_builtin oifs raw t inp = Ok r.
Proof.
  intros. unfold read_builtin.
  destruct (read_line_ok raw inp [] false) as [[line eof] E]; [intros; discriminate|]. rewrite E.
  destruct t.
  - eexists. reflexivity.
  - destruct (read_fields_no_panic oifs line (Z.of_nat k) raw) as [fs Ef]. rewrite Ef. eexists. reflexivity.
  - destruct (read_fields_no_panic oifs line (-1)%Z raw) as [fs Ef]. rewrite Ef. eexists. reflexivity.
Qed.

(* ---- ReadFields computes the bash/POSIX read fields -------------------------------------- *)
(* positions of the fields: the same three states as rs_*, counting characters *)
Fixpoint ps_start (off : nat) (l : list rsym) : list (nat * nat) :=
  match l with
  | [] => []
  | (_, KC) :: l' => ps_field off (S off) l'
  | (_, KW) :: l' => ps_start (S off) l'
  | (_, KD) :: l' => (off, off) :: ps_start (S off) l'
  end
with ps_field (st off : nat) (l : list rsym) : list (nat * nat) :=
  match l with
  | [] => [(st, off)]
  | (_, KC) :: l' => ps_field st (S off) l'
  | (_, KW) :: l' => (st, off) :: ps_afterws (S off) l'
  | (_, KD) :: l' => (st, off) :: ps_start (S off) l'
  end
with ps_afterws (off : nat) (l : list rsym) : list (nat * nat) :=
  match l with
  | [] => []
  | (_, KC) :: l' => ps_field off (S off) l'
  | (_, KW) :: l' => ps_afterws (S off) l'
  | (_, KD) :: l' => ps_start (S off) l'
  end.

Section Sim.
Variable ifs : str.
Variable raw : bool.

Definition rsym_of (c : N * bool) : rsym := (fst c, kind_of ifs c).

(* what the final position list will be if the rest of the line is l *)
Definition expected (s : rst) (l : list rsym) : list (nat * nat) :=
  match infield s, fpos s with
  | true, (st, _) :: t => rev t ++ ps_field st (length (buf s)) l
  | true, [] => []
  | false, fp => rev fp ++ (if wsdl s then ps_afterws (length (buf s)) l else ps_start (length (buf s)) l)
  end.

Definition final_fp (s : rst) : list (nat * nat) :=
  match fpos s with
  | [] => []
  | (st, e) :: t => rev (if infield s then (st, length (buf s)) :: t else (st, e) :: t)
  end.

Lemma final_fp_expected : forall s, rinv s -> final_fp s = expected s [].
Proof.
  intros s [_ H]. unfold final_fp, expected.
  destruct (fpos s) as [|[st e] t]; rewrite ?H.
  - destruct (wsdl s); reflexivity.
  - destruct (infield s); simpl.
    + reflexivity.
    + destruct (wsdl s); rewrite app_nil_r; reflexivity.
Qed.

(* trailing IFS white space: buf = A ++ B, B all IFS white space, A does not end in one, trim_end = |A| *)
Definition tinv (s : rst) : Prop :=
  exists A B, buf s = A ++ B /\ length A = trim_end s /\ Forall (fun r => ifs_ws ifs r = true) B /\
              (A = [] \/ exists A' x, A = A' ++ [x] /\ ifs_ws ifs x = false).

Lemma step_sim : forall s r, rinv s -> tinv s ->
  if (r =? BSL) && negb raw && negb (esc s) then
    exists s', rf_step ifs raw s r = Ok s' /\ rinv s' /\ tinv s' /\ esc s' = true /\ buf s' = buf s /\
               (forall l, expected s' l = expected s l)
  else
    exists s', rf_step ifs raw s r = Ok s' /\ rinv s' /\ tinv s' /\ esc s' = false /\ buf s' = buf s ++ [r] /\
               (forall l, expected s' l = expected s (rsym_of (r, esc s) :: l)).
Proof.
  intros s r Hinv Htinv.
  destruct (rf_step_inv ifs raw s r Hinv) as (s' & Estep & Hinv').
  destruct ((r =? BSL) && negb raw && negb (esc s)) eqn:Ebs.
  - exists s'. pose proof Estep as Estep0. unfold rf_step in Estep. rewrite Ebs in Estep. inversion Estep; subst s'.
    split; [exact Estep0|]. split; [exact Hinv'|]. split; [exact Htinv|].
    split; [reflexivity|]. split; [reflexivity|]. intros l. reflexivity.
  - exists s'. split; [exact Estep|]. split; [exact Hinv'|].
    unfold rf_step in Estep. rewrite Ebs in Estep.
    assert (Hlen : length (buf s ++ [r]) = S (length (buf s))) by (rewrite app_length; simpl; lia).
    (* tinv for the new buffer *)
    assert (Ht' : forall fp inf w,
       tinv (mkr fp (buf s ++ [r]) (if ifs_ws ifs r then trim_end s else length (buf s ++ [r])) inf w false)).
    { intros fp inf w. destruct Htinv as (A & B & HAB & HA & HB & Hlast). unfold tinv. cbn [buf trim_end].
      destruct (ifs_ws ifs r) eqn:Ews.
      - exists A, (B ++ [r]). split; [rewrite HAB, app_assoc; reflexivity|]. split; [exact HA|].
        split; [apply Forall_app; split; [exact HB|constructor; [exact Ews|constructor]]|exact Hlast].
      - exists (buf s ++ [r]), []. split; [rewrite app_nil_r; reflexivity|]. split; [reflexivity|].
        split; [constructor|]. right. exists (buf s), r. split; [reflexivity|exact Ews]. }
    unfold rsym_of, kind_of. cbn [fst].
    destruct Hinv as [_ Hf].
    destruct (negb (esc s) && ifs_rune ifs r) eqn:Esep; cbn [negb] in Estep.
    + (* a separator *)
      destruct (infield s) eqn:Ein.
      * destruct (fpos s) as [|[st e] t] eqn:Ef; [discriminate|].
        inversion Estep; subst s'. split; [apply Ht'|]. split; [reflexivity|]. split; [reflexivity|].
        intros l. unfold expected. cbn [infield fpos buf wsdl]. rewrite Ein, Ef, Hlen.
        cbn [andb]. destruct (ifs_ws ifs r); simpl; rewrite <- app_assoc; reflexivity.
      * cbn [andb] in Estep. destruct (ifs_ws ifs r) eqn:Ews.
        -- inversion Estep; subst s'. split; [apply Ht'|]. split; [reflexivity|]. split; [reflexivity|].
           intros l. unfold expected. cbn [infield fpos buf wsdl]. rewrite Ein, Hlen.
           destruct (wsdl s); reflexivity.
        -- destruct (wsdl s) eqn:Ew.
           ++ inversion Estep; subst s'. split; [apply Ht'|]. split; [reflexivity|]. split; [reflexivity|].
              intros l. unfold expected. cbn [infield fpos buf wsdl]. rewrite Ein, Ew, Hlen. reflexivity.
           ++ inversion Estep; subst s'. split; [apply Ht'|]. split; [reflexivity|]. split; [reflexivity|].
              intros l. unfold expected. cbn [infield fpos buf wsdl]. rewrite Ein, Ew, Hlen.
              simpl. rewrite <- app_assoc. reflexivity.
    + (* an ordinary (or escaped) character *)
      destruct (infield s) eqn:Ein.
      * inversion Estep; subst s'. split; [apply Ht'|]. split; [reflexivity|]. split; [reflexivity|].
        intros l. unfold expected. cbn [infield fpos buf wsdl]. rewrite Ein, Hlen.
        destruct (fpos s) as [|[st e] t]; reflexivity.
      * inversion Estep; subst s'. split; [apply Ht'|]. split; [reflexivity|]. split; [reflexivity|].
        intros l. unfold expected. cbn [infield fpos buf wsdl]. rewrite Ein, Hlen.
        destruct (wsdl s); reflexivity.
Qed.

Lemma loop_sim : forall line s, rinv s -> tinv s ->
  exists s', rf_loop ifs raw line s = Ok s' /\ rinv s' /\ tinv s' /\
    buf s' = buf s ++ map fst (unescape raw line (esc s)) /\
    final_fp s' = expected s (map rsym_of (unescape raw line (esc s))).
Proof.
  induction line as [|r line IH]; intros s Hinv Ht.
  - exists s. simpl. rewrite app_nil_r.
    split; [reflexivity|]. split; [exact Hinv|]. split; [exact Ht|]. split; [reflexivity|].
    apply final_fp_expected. exact Hinv.
  - pose proof (step_sim s r Hinv Ht) as Hs. cbn [rf_loop unescape].
    destruct ((r =? BSL) && negb raw && negb (esc s)) eqn:Ebs.
    + destruct Hs as (s1 & E1 & Hi1 & Ht1 & Hesc & Hbuf & Hexp). rewrite E1.
      destruct (IH s1 Hi1 Ht1) as (s' & E' & Hi' & Ht' & Hb' & Hf').
      exists s'. rewrite Hesc, Hbuf in Hb'. rewrite Hesc, Hexp in Hf'.
      split; [exact E'|]. split; [exact Hi'|]. split; [exact Ht'|]. split; [exact Hb'|exact Hf'].
    + destruct Hs as (s1 & E1 & Hi1 & Ht1 & Hesc & Hbuf & Hexp). rewrite E1.
      destruct (IH s1 Hi1 Ht1) as (s' & E' & Hi' & Ht' & Hb' & Hf').
      exists s'. rewrite Hesc, Hbuf in Hb'. rewrite Hesc, Hexp in Hf'.
      split; [exact E'|]. split; [exact Hi'|]. split; [exact Ht'|]. split; [|exact Hf'].
      rewrite Hb'. cbn [map fst]. rewrite <- app_assoc. reflexivity.
Qed.
End Sim.

(* ---- positions denote the spec's fields -------------------------------------------------- *)
Definition Rel (text : str) (p : nat * nat) (q : str * list rsym) : Prop :=
  (fst p <= snd p <= length text)%nat /\
  firstn (snd p - fst p) (skipn (fst p) text) = fst q /\
  skipn (fst p) text = map fst (snd q).

Lemma skipn_pre : forall (pre x : str), skipn (length pre) (pre ++ x) = x.
Proof. induction pre; simpl; auto. Qed.

Lemma firstn_exact : forall (f x : str), firstn (length f) (f ++ x) = f.
Proof. induction f; simpl; intros; [reflexivity|]. rewrite IHf. reflexivity. Qed.

Lemma pos_fields : forall l pre,
  Forall2 (Rel (pre ++ map fst l)) (ps_start (length pre) l) (rs_start l)
  /\ Forall2 (Rel (pre ++ map fst l)) (ps_afterws (length pre) l) (rs_afterws l)
  /\ forall st f from,
       skipn st (pre ++ map fst l) = map fst from -> map fst from = f ++ map fst l ->
       length pre = (st + length f)%nat ->
       Forall2 (Rel (pre ++ map fst l)) (ps_field st (length pre) l) (rs_field f from l).
Proof.
  induction l as [|[r k] l IH]; intros pre.
  - simpl. split; [constructor|]. split; [constructor|].
    intros st f from H1 H2 H3. constructor; [|constructor].
    unfold Rel. cbn [fst snd]. rewrite ?app_nil_r in *. split; [lia|]. split; [|exact H1].
    rewrite H1, H2. replace (length pre - st)%nat with (length f) by lia.
    rewrite <- (app_nil_r f) at 2. apply firstn_exact.
  - specialize (IH (pre ++ [r])). rewrite app_length in IH. cbn [length] in IH.
    replace (length pre + 1)%nat with (S (length pre)) in IH by lia.
    rewrite <- app_assoc in IH. cbn [app] in IH.
    destruct IH as (IHs & IHa & IHf). cbn [map fst].
    assert (Hlen : (length pre <= length (pre ++ r :: map fst l))%nat) by (rewrite app_length; lia).
    assert (Hfield : forall st f from,
       skipn st (pre ++ r :: map fst l) = map fst from -> map fst from = f ++ r :: map fst l ->
       length pre = (st + length f)%nat ->
       Rel (pre ++ r :: map fst l) (st, length pre) (f, from)).
    { intros st f from H1 H2 H3. unfold Rel. cbn [fst snd]. split; [lia|]. split; [|exact H1].
      rewrite H1, H2. replace (length pre - st)%nat with (length f) by lia. apply firstn_exact. }
    destruct k; cbn [ps_start ps_afterws ps_field rs_start rs_afterws rs_field].
    + (* KC *)
      assert (Hst : Forall2 (Rel (pre ++ r :: map fst l)) (ps_field (length pre) (S (length pre)) l)
                            (rs_field [r] ((r, KC) :: l) l)).
      { apply IHf.
        - rewrite skipn_pre. reflexivity.
        - reflexivity.
        - simpl. lia. }
      split; [exact Hst|]. split; [exact Hst|].
      intros st f from H1 H2 H3. apply IHf.
      * exact H1.
      * rewrite H2, <- app_assoc. reflexivity.
      * rewrite app_length. simpl. lia.
    + (* KW *)
      split; [exact IHs|]. split; [exact IHa|].
      intros st f from H1 H2 H3. constructor; [apply Hfield; assumption|exact IHa].
    + (* KD *)
      assert (Hemp : Rel (pre ++ r :: map fst l) (length pre, length pre) ([], (r, KD) :: l)).
      { unfold Rel. cbn [fst snd]. split; [lia|]. split.
        - rewrite Nat.sub_diag. reflexivity.
        - rewrite skipn_pre. reflexivity. }
      split; [constructor; [exact Hemp|exact IHs]|]. split; [exact IHs|].
      intros st f from H1 H2 H3. constructor; [apply Hfield; assumption|exact IHs].
Qed.

Lemma slices_rel : forall text fp fs, Forall2 (Rel text) fp fs -> slices text fp = Ok (map fst fs).
Proof.
  induction 1 as [|[st e] [f from] fp fs HR HF IH]; simpl.
  - reflexivity.
  - destruct HR as (Hb & Hf & _). cbn [fst snd] in *. unfold slice.
    destruct (Nat.leb st e) eqn:E1; [|apply Nat.leb_gt in E1; lia].
    destruct (Nat.leb e (length text)) eqn:E2; [|apply Nat.leb_gt in E2; lia].
    simpl. rewrite IH, Hf. reflexivity.
Qed.

Lemma slices_app : forall text a b fa fb, slices text a = Ok fa -> slices text b = Ok fb ->
  slices text (a ++ b) = Ok (fa ++ fb).
Proof.
  induction a as [|[st e] a IH]; simpl; intros b fa fb Ha Hb.
  - inversion Ha; subst. exact Hb.
  - destruct (slice text st e) as [f| |]; try discriminate.
    destruct (slices text a) as [fs| |] eqn:Ea; try discriminate.
    inversion Ha; subst. rewrite (IH b fs fb eq_refl Hb). reflexivity.
Qed.

Lemma Forall2_firstn : forall {A B} (P : A -> B -> Prop) k l1 l2,
  Forall2 P l1 l2 -> Forall2 P (firstn k l1) (firstn k l2).
Proof.
  intros A B P k. induction k; intros l1 l2 H; simpl; [constructor|].
  destruct H; constructor; auto.
Qed.

Lemma Forall2_nth : forall {A B} (P : A -> B -> Prop) l1 l2 k a,
  Forall2 P l1 l2 -> nth_error l1 k = Some a -> exists b, nth_error l2 k = Some b /\ P a b.
Proof.
  intros A B P l1 l2 k a H. revert k. induction H; intros k Hk.
  - destruct k; discriminate.
  - destruct k; simpl in *.
    + inversion Hk; subst. eexists. split; [reflexivity|assumption].
    + apply IHForall2. exact Hk.
Qed.

Lemma Forall2_len : forall {A B} (P : A -> B -> Prop) l1 l2, Forall2 P l1 l2 -> length l1 = length l2.
Proof. induction 1; simpl; congruence. Qed.

(* ---- trailing white space ---------------------------------------------------------------------- *)
Section Trim.
Variable ifs : str.
Notation allws := (Forall (fun r => ifs_ws ifs r = true)).

Lemma drop_ws_allws : forall w rest, allws w -> drop_ws ifs (w ++ rest) = drop_ws ifs rest.
Proof.
  induction w as [|x w IH]; intros rest H; simpl; [reflexivity|].
  inversion H; subst. rewrite H2. apply IH. exact H3.
Qed.

Lemma strip_allws : forall w, allws w -> strip_trailing_ws ifs w = [].
Proof.
  intros w H. unfold strip_trailing_ws. rewrite <- (app_nil_r (rev w)).
  rewrite drop_ws_allws by (apply Forall_rev; exact H). reflexivity.
Qed.

Lemma strip_last : forall p x w, ifs_ws ifs x = false -> allws w ->
  strip_trailing_ws ifs (p ++ [x] ++ w) = p ++ [x].
Proof.
  intros p x w Hx Hw. unfold strip_trailing_ws. rewrite !rev_app_distr. simpl.
  rewrite <- app_assoc. rewrite drop_ws_allws by (apply Forall_rev; exact Hw).
  simpl. rewrite Hx. change (x :: rev p) with ([x] ++ rev p).
  rewrite rev_app_distr, rev_involutive. reflexivity.
Qed.

Lemma trim_suffix : forall A B st,
  allws B -> (A = [] \/ exists A' x, A = A' ++ [x] /\ ifs_ws ifs x = false) ->
  firstn (Nat.max st (length A) - st) (skipn st (A ++ B)) = strip_trailing_ws ifs (skipn st (A ++ B)).
Proof.
  intros A B st HB HA.
  destruct (Nat.le_gt_cases (length A) st) as [Hle|Hgt].
  - (* the suffix lies within the white space *)
    replace (Nat.max st (length A) - st)%nat with O by lia. simpl.
    rewrite skipn_app. rewrite (skipn_all2 A) by lia. simpl.
    symmetry. apply strip_allws.
    rewrite <- (firstn_skipn (st - length A) B) in HB. apply Forall_app in HB. tauto.
  - destruct HA as [->|(A' & x & -> & Hx)]; [simpl in Hgt; lia|].
    rewrite app_length in *. simpl in *.
    replace (Nat.max st (length A' + 1) - st)%nat with (length A' + 1 - st)%nat by lia.
    rewrite skipn_app. rewrite app_length. simpl.
    replace (st - (length A' + 1))%nat with O by lia. simpl.
    rewrite (skipn_app st A' [x]). replace (st - length A')%nat with O by lia. simpl.
    rewrite <- app_assoc. simpl.
    change (skipn st A' ++ x :: B) with (skipn st A' ++ [x] ++ B).
    rewrite (strip_last (skipn st A') x B Hx HB).
    replace (length A' + 1 - st)%nat with (length (skipn st A' ++ [x])).
    2:{ rewrite app_length, skipn_length. simpl. lia. }
    rewrite app_assoc. apply firstn_exact.
Qed.
End Trim.

(* ---- the theorem ----------------------------------------------------------------------------------- *)
Theorem read_fields_spec : forall oifs line n raw,
  read_fields oifs line n raw = Ok (spec_read_fields oifs line n raw).
Proof.
  intros oifs line n raw. unfold read_fields, spec_read_fields.
  set (ifs := cfg_ifs oifs).
  assert (Ht0 : tinv ifs r0).
  { exists [], []. split; [reflexivity|]. split; [reflexivity|]. split; [constructor|]. left; reflexivity. }
  destruct (loop_sim ifs raw line r0 rinv_r0 Ht0) as (s & E & Hinv & Ht & Hbuf & Hfp).
  rewrite E. simpl in Hbuf, Hfp.
  set (cs := unescape raw line false) in *.
  assert (Hks : map (rsym_of ifs) cs = rsyms ifs raw line) by reflexivity.
  assert (Htext : buf s = map fst (rsyms ifs raw line)).
  { rewrite Hbuf. unfold rsyms. fold cs. rewrite map_map. reflexivity. }
  unfold expected in Hfp. simpl in Hfp. rewrite Hks in Hfp.
  destruct (pos_fields (rsyms ifs raw line) []) as (Hrel & _ & _). simpl in Hrel.
  rewrite <- Htext in Hrel. rewrite <- Hfp in Hrel.
  set (fs := rs_start (rsyms ifs raw line)) in *.
  unfold rf_finish. unfold final_fp in Hrel.
  destruct (fpos s) as [|[st e] t] eqn:Ef.
  - inversion Hrel. simpl. destruct ((0 <? n)%Z && (n <? 0)%Z) eqn:En; [|reflexivity].
    apply andb_prop in En. destruct En as [En1 En2].
    apply Z.ltb_lt in En1. apply Z.ltb_lt in En2. lia.
  - set (fp := rev (if infield s then (st, length (buf s)) :: t else (st, e) :: t)) in *.
    rewrite (Forall2_len _ _ _ Hrel).
    destruct ((0 <? n)%Z && (n <? Z.of_nat (length fs))%Z) eqn:En.
    + apply andb_prop in En. destruct En as [En1 En2].
      apply Z.ltb_lt in En1. apply Z.ltb_lt in En2.
      set (k := Z.to_nat (n - 1)).
      destruct (nth_error fp k) as [[st' e']|] eqn:Enth.
      * destruct (Forall2_nth _ _ _ _ _ Hrel Enth) as ([f from] & Hn2 & HR). rewrite Hn2.
        apply slices_app.
        -- apply slices_rel. apply Forall2_firstn. exact Hrel.
        -- simpl. destruct HR as (Hb & _ & Hsk). cbn [fst snd] in *.
           destruct Hinv as [Htr _].
           unfold slice.
           destruct (Nat.leb st' (Nat.max st' (trim_end s))) eqn:E1; [|apply Nat.leb_gt in E1; lia].
           destruct (Nat.leb (Nat.max st' (trim_end s)) (length (buf s))) eqn:E2; [|apply Nat.leb_gt in E2; lia].
           simpl. rewrite <- Hsk.
           destruct Ht as (A & B & HAB & HA & HB & Hlast). rewrite HAB, <- HA.
           rewrite (trim_suffix ifs A B st' HB Hlast). reflexivity.
      * apply nth_error_None in Enth. rewrite (Forall2_len _ _ _ Hrel) in Enth. lia.
    + apply slices_rel. exact Hrel.
Qed.

(* ---- readLine and the builtin ------------------------------------------------------------------------ *)
Lemma reply_unescape : forall v es, reply_loop v es = map fst (unescape false v es).
Proof.
  induction v as [|b v IH]; intros es; simpl; [reflexivity|].
  destruct (b =? BSL); simpl.
  - destruct es; simpl; rewrite IH; reflexivity.
  - rewrite IH. reflexivity.
Qed.

Lemma unescape_raw : forall v es, map fst (unescape true v es) = v.
Proof.
  induction v as [|b v IH]; intros es; simpl; [reflexivity|].
  rewrite andb_false_r. simpl. rewrite IH. reflexivity.
Qed.

Lemma removelast_snoc : forall (l : str) x, removelast (l ++ [x]) = l.
Proof. intros. rewrite removelast_app by discriminate. simpl. apply app_nil_r. Qed.

Lemma read_line_spec : forall raw inp,
  (forall line, read_line raw inp line false =
     Ok (line ++ fst (spec_line raw inp), snd (spec_line raw inp)))
  /\ (raw = false -> forall line0, read_line raw inp (line0 ++ [BSL]) true =
       match inp with
       | [] => Ok (line0 ++ [BSL], true)
       | c :: rest => if c =? NL then Ok (line0 ++ fst (spec_line raw rest), snd (spec_line raw rest))
                      else Ok (line0 ++ BSL :: c :: fst (spec_line raw rest), snd (spec_line raw rest))
       end).
Proof.
  intros raw. induction inp as [|b inp [IH1 IH2]].
  - split; intros; simpl; rewrite ?app_nil_r; reflexivity.
  - split.
    + intros line. cbn [read_line spec_line].
      destruct (b =? NL) eqn:Enl.
      * assert (b =? BSL = false) by (apply N.eqb_eq in Enl; subst; reflexivity).
        rewrite H. rewrite !andb_false_r. simpl. rewrite app_nil_r. reflexivity.
      * destruct raw; simpl.
        -- rewrite IH1. destruct (spec_line true inp). simpl. rewrite <- app_assoc. reflexivity.
        -- destruct (b =? BSL) eqn:Ebs.
           ++ apply N.eqb_eq in Ebs. subst b. rewrite (IH2 eq_refl line).
              destruct inp as [|c rest]; [reflexivity|].
              destruct (c =? NL); [reflexivity|].
              destruct (spec_line false rest). reflexivity.
           ++ rewrite IH1. destruct (spec_line false inp). simpl. rewrite <- app_assoc. reflexivity.
    + intros -> line0. cbn [read_line]. simpl negb. cbn [andb].
      destruct (b =? BSL) eqn:Ebs.
      * assert (b =? NL = false) by (apply N.eqb_eq in Ebs; subst; reflexivity). rewrite H.
        rewrite IH1. apply N.eqb_eq in Ebs. subst b. rewrite <- !app_assoc. reflexivity.
      * destruct (b =? NL) eqn:Enl.
        -- destruct (line0 ++ [BSL]) eqn:El; [destruct line0; discriminate|]. rewrite <- El.
           rewrite removelast_snoc. apply IH1.
        -- cbn [andb]. rewrite IH1. rewrite <- !app_assoc. reflexivity.
Qed.

Theorem read_builtin_spec : forall oifs raw t inp,
  read_builtin oifs raw t inp = Ok (spec_read oifs raw t inp).
Proof.
  intros. unfold read_builtin, spec_read.
  destruct (read_line_spec raw inp) as [H _]. rewrite (H []). simpl app.
  destruct (spec_line raw inp) as [line eof]. cbn [fst snd].
  destruct t.
  - destruct raw.
    + rewrite unescape_raw. reflexivity.
    + rewrite reply_unescape. reflexivity.
  - rewrite read_fields_spec. reflexivity.
  - rewrite read_fields_spec. reflexivity.
Qed.

(* ---- one Config, many reads: no call depends on what an earlier one left in cfg.ifs ------------ *)
Theorem read_seq_independent : forall calls prev,
  read_seq prev calls =
  map (fun c => match c with (oifs, line, n, raw) => read_fields oifs line n raw end) calls.
Proof.
  induction calls as [|[[[oifs line] n] raw] calls IH]; intros prev; simpl.
  - reflexivity.
  - rewrite IH. reflexivity.
Qed.
