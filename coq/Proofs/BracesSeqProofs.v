(* Proofs/BracesSeqProofs.v — C16: sequences {x..y[..n]}: the Go loop equals its closed form, Go's ParseInt and the
   Spec's number reader agree on decimal numbers, and for a "clean" sequence (letters, or int64 numbers with an
   int64 step other than -2^63, outside bash's overflow guard) both sides produce the same list / the limit case. *)
From Verif Require Import Base.Str Proofs.StrProofs Expand.Braces Proofs.BracesProofs.
Require Import ZifyN ZifyNat ZifyBool.
Open Scope N_scope.

Ltac divnia := Z.div_mod_to_equations; nia.

(* ------------------------------------------------------------------ the sequence loop and its closed form *)

Lemma seq_loop_up_done : forall f m to s, (m > to)%Z -> seq_loop f true m to s = [].
Proof. intros [|f] m to s H; [reflexivity|]. cbn [seq_loop]. destruct (m <=? to)%Z eqn:E; [lia|reflexivity]. Qed.

Lemma seq_loop_down_done : forall f m to s, (m < to)%Z -> seq_loop f false m to s = [].
Proof. intros [|f] m to s H; [reflexivity|]. cbn [seq_loop]. destruct (m >=? to)%Z eqn:E; [lia|reflexivity]. Qed.

Lemma seq_loop_up : forall f n to step k, (0 < step)%Z -> (to <= MAX64)%Z -> (n <= to)%Z ->
  ((to - n) / step = Z.of_nat k)%Z ->
  seq_loop f true n to step = count_up (Nat.min f (S k)) n step.
Proof.
  induction f as [|f IH]; intros n to step k Hs Hmax Hn Hk; [reflexivity|].
  cbn [seq_loop]. assert (E: (n <=? to)%Z = true) by lia. rewrite E.
  destruct k as [|k].
  - change (Nat.min (S f) 1) with (S (Nat.min f 0)). rewrite Nat.min_0_r. cbn [count_up]. f_equal.
    assert (n + step > to)%Z by divnia.
    destruct ((0 <? step)%Z && (n >? MAX64 - step)%Z || (step <? 0)%Z && (n <? MIN64 - step)%Z); [reflexivity|].
    now apply seq_loop_up_done.
  - change (Nat.min (S f) (S (S k))) with (S (Nat.min f (S k))). cbn [count_up]. f_equal.
    assert (Hle: (n + step <= to)%Z) by divnia.
    assert (O1: ((0 <? step)%Z && (n >? MAX64 - step)%Z || (step <? 0)%Z && (n <? MIN64 - step)%Z) = false) by lia.
    rewrite O1. apply IH; auto. divnia.
Qed.

Lemma seq_loop_down : forall f n to step k, (0 < step)%Z -> (MIN64 <= to)%Z -> (to <= n)%Z ->
  ((n - to) / step = Z.of_nat k)%Z ->
  seq_loop f false n to (- step) = count_up (Nat.min f (S k)) n (- step).
Proof.
  induction f as [|f IH]; intros n to step k Hs Hmin Hn Hk; [reflexivity|].
  cbn [seq_loop]. assert (E: (n >=? to)%Z = true) by lia. rewrite E.
  destruct k as [|k].
  - change (Nat.min (S f) 1) with (S (Nat.min f 0)). rewrite Nat.min_0_r. cbn [count_up]. f_equal.
    assert (n + - step < to)%Z by divnia.
    destruct ((0 <? - step)%Z && (n >? MAX64 - - step)%Z || (- step <? 0)%Z && (n <? MIN64 - - step)%Z); [reflexivity|].
    now apply seq_loop_down_done.
  - change (Nat.min (S f) (S (S k))) with (S (Nat.min f (S k))). cbn [count_up]. f_equal.
    assert (Hle: (to <= n + - step)%Z) by divnia.
    assert (O1: ((0 <? - step)%Z && (n >? MAX64 - - step)%Z || (- step <? 0)%Z && (n <? MIN64 - - step)%Z) = false)
      by (unfold MIN64, MAX64 in *; lia).
    rewrite O1. apply IH; auto. divnia.
Qed.

Lemma count_up_length : forall m n s, length (count_up m n s) = m.
Proof. induction m; intros; simpl; auto. Qed.

Lemma count_up_in : forall m n s v, In v (count_up m n s) -> exists j, (j < m)%nat /\ v = (n + Z.of_nat j * s)%Z.
Proof.
  induction m as [|m IH]; intros n s v H; [destruct H|]. destruct H as [<-|H].
  - exists O. split; [lia|lia].
  - destruct (IH _ _ _ H) as [j [Hj ->]]. exists (S j). split; [lia|lia].
Qed.

(* ------------------------------------------------------------------ decimal numbers: ParseInt vs the Spec's reader *)

Definition digits (d : str) : bool := match d with [] => false | _ => forallb is_digit d end.
Definition is_num (s : str) : bool :=
  match s with
  | c :: s' => if c =? MINUS then digits s' else digits s
  | [] => false
  end.
Definition dval (d : str) : N := match digits_val 0 d with Some u => u | None => 0 end.
Definition num_val (s : str) : Z :=
  match s with
  | c :: s' => if c =? MINUS then (- Z.of_N (dval s'))%Z else Z.of_N (dval s)
  | [] => 0%Z
  end.

Lemma digits_val_some : forall d acc, forallb is_digit d = true -> exists u, digits_val acc d = Some u.
Proof.
  induction d as [|c d IH]; intros acc H; simpl in *; [eauto|].
  apply andb_prop in H. destruct H as [Hc Hd]. rewrite Hc. now apply IH.
Qed.

Lemma digits_val_dval : forall d, forallb is_digit d = true -> digits_val 0 d = Some (dval d).
Proof. intros d H. unfold dval. destruct (digits_val_some d 0 H) as [u ->]. reflexivity. Qed.

Definition no_digit_head (r : str) : bool := match r with [] => true | c :: _ => negb (is_digit c) end.

Lemma span_digits_app : forall d r, forallb is_digit d = true -> no_digit_head r = true ->
  span_digits (d ++ r) = (d, r).
Proof.
  induction d as [|c d IH]; intros r Hd Hr; simpl in *.
  - destruct r as [|c r]; [reflexivity|]. simpl in Hr. apply negb_true_iff in Hr. simpl. now rewrite Hr.
  - apply andb_prop in Hd. destruct Hd as [Hc Hd]. rewrite Hc, (IH r Hd Hr). reflexivity.
Qed.

Lemma digit_not_sign : forall c, is_digit c = true -> (c =? MINUS) = false /\ (c =? PLUS) = false.
Proof. intros c H. unfold is_digit, MINUS, PLUS in *. lia. Qed.

Lemma digits_inv : forall d, digits d = true -> exists c d', d = c :: d' /\ is_digit c = true /\ forallb is_digit d = true.
Proof.
  intros [|c d'] H; [discriminate|]. exists c, d'. split; [reflexivity|]. simpl in H. split; [|exact H].
  now apply andb_prop in H.
Qed.

(* Go's reader *)
Lemma parse_int_num : forall s, is_num s = true -> parse_int s = (if in64 (num_val s) then num_val s else fst (parse_int s), in64 (num_val s)).
Proof.
  intros [|c s'] H; [discriminate|]. unfold is_num in H. unfold parse_int, num_val.
  destruct (c =? MINUS) eqn:Em.
  - destruct (digits_inv _ H) as (c1 & d1 & -> & Hc1 & Hd). rewrite (digits_val_dval _ Hd).
    set (u := dval (c1 :: d1)).
    assert (EI: in64 (- Z.of_N u) = (Z.of_N u <=? 9223372036854775808)%Z) by (unfold in64, MIN64, MAX64; lia).
    rewrite EI. destruct (Z.of_N u <=? 9223372036854775808)%Z; reflexivity.
  - destruct (digits_inv _ H) as (c1 & d1 & E0 & Hc1 & Hd). injection E0 as -> ->.
    destruct (digit_not_sign _ Hc1) as [_ Ep]. rewrite Ep. rewrite (digits_val_dval _ Hd).
    set (u := dval (c1 :: d1)).
    assert (EI: in64 (Z.of_N u) = (Z.of_N u <=? MAX64)%Z) by (unfold in64, MIN64, MAX64; lia).
    rewrite EI. destruct (Z.of_N u <=? MAX64)%Z; reflexivity.
Qed.

Lemma parse_int_num64 : forall s, is_num s = true -> in64 (num_val s) = true -> parse_int s = (num_val s, true).
Proof. intros s H I. rewrite (parse_int_num s H), I. reflexivity. Qed.

(* the Spec's reader (strtoimax) *)
Lemma strtoimax_num : forall s r, is_num s = true -> no_digit_head r = true ->
  strtoimax (s ++ r) = Some (num_val s, r).
Proof.
  intros [|c s'] r H Hr; [discriminate|]. unfold is_num in H. unfold strtoimax, num_val.
  change ((c :: s') ++ r) with (c :: (s' ++ r)). cbv beta iota.
  destruct (c =? MINUS) eqn:Em.
  - destruct (digits_inv _ H) as (c1 & d1 & -> & Hc1 & Hd). cbv beta iota.
    rewrite (span_digits_app _ r Hd Hr). cbv beta iota. rewrite (digits_val_dval _ Hd). reflexivity.
  - destruct (digits_inv _ H) as (c1 & d1 & E0 & Hc1 & Hd). injection E0 as -> ->.
    destruct (digit_not_sign _ Hc1) as [_ Ep]. rewrite Ep. cbv beta iota.
    change (c1 :: d1 ++ r) with ((c1 :: d1) ++ r).
    rewrite (span_digits_app _ r Hd Hr). cbv beta iota. rewrite (digits_val_dval _ Hd). reflexivity.
Qed.

(* the two readers agree on decimal numbers: same value, and "accepted" = "fits int64" *)
Theorem readers_agree : forall s, is_num s = true ->
  strtoimax s = Some (num_val s, []) /\ snd (parse_int s) = in64 (num_val s)
  /\ (in64 (num_val s) = true -> fst (parse_int s) = num_val s).
Proof.
  intros s H. split; [|split].
  - rewrite <- (app_nil_r s) at 1. now apply strtoimax_num.
  - rewrite (parse_int_num s H). reflexivity.
  - intros I. now rewrite (parse_int_num64 s H I).
Qed.

(* a letter is not a number for either reader *)
Lemma letter_not_digit : forall c, ascii_letter c = true -> is_digit c = false /\ (c =? MINUS) = false /\ (c =? PLUS) = false.
Proof. intros c H. unfold ascii_letter, is_digit, MINUS, PLUS in *. lia. Qed.

Lemma parse_int_letter : forall c, ascii_letter c = true -> parse_int [c] = (0%Z, false).
Proof.
  intros c H. destruct (letter_not_digit c H) as (Hd & Hm & Hp). unfold parse_int. rewrite Hm, Hp.
  simpl. now rewrite Hd.
Qed.

Lemma strtoimax_letter : forall c r, ascii_letter c = true -> strtoimax (c :: r) = None.
Proof.
  intros c r H. destruct (letter_not_digit c H) as (Hd & Hm & Hp). unfold strtoimax. rewrite Hm, Hp.
  simpl. now rewrite Hd.
Qed.

Lemma wrap64_id : forall z, in64 z = true -> wrap64 z = z.
Proof.
  intros z H. unfold in64, MIN64, MAX64 in H. unfold wrap64.
  rewrite Z.mod_small by lia. lia.
Qed.

(* ------------------------------------------------------------------ the core: mkseq (Spec) vs the Go loop *)

Definition lim (X : list str) : sres := if Nat.ltb limit (length X) then Many else Words X.
Definition subover (lv rv : Z) : bool :=
  ((0 <? lv)%Z && (rv <? MIN64 + 3 + lv)%Z) || ((lv <? 0)%Z && (rv >? MAX64 - 2 + lv)%Z).

Lemma fmt_agree : forall chars width n, (chars = true -> (0 <= n < 128)%Z) -> seq_fmt chars width n = spec_fmt chars width n.
Proof.
  intros [|] width n H; [|reflexivity]. unfold seq_fmt, spec_fmt, rune_str.
  specialize (H eq_refl). assert (E: (Z.to_N n <? 128) = true) by lia. now rewrite E.
Qed.

Lemma core_seq : forall chars from to i0 width step,
  in64 from = true -> in64 to = true -> subover from to = false ->
  (MIN64 < i0)%Z -> step = Z.abs (if (i0 =? 0)%Z then 1%Z else i0) ->
  (chars = true -> (0 <= from < 128)%Z /\ (0 <= to < 128)%Z) ->
  let G := map (seq_fmt chars width)
               (seq_loop (S limit) (from <=? to)%Z from to (if (from <=? to)%Z then step else (- step)%Z)) in
  G <> [] /\
  ((mkseq chars from to i0 width = SeqMany /\ lim G = Many) \/
   (mkseq chars from to i0 width = SeqList G /\ lim G = Words G)).
Proof.
  intros chars from to i0 width step Hf Ht Hg Hi Hstep Hc G.
  unfold in64 in Hf, Ht. unfold subover in Hg.
  set (i1 := if (i0 =? 0)%Z then 1%Z else i0) in *.
  assert (Hi1: (MIN64 < i1)%Z) by (unfold i1; destruct (i0 =? 0)%Z; unfold MIN64 in *; lia).
  assert (Hs: (0 < step)%Z) by (subst step; unfold i1; destruct (i0 =? 0)%Z eqn:E; lia).
  unfold mkseq. fold i1. 
  assert (G1: ((from <? to)%Z && (i1 =? MIN64)%Z) = false) by lia.
  rewrite G1, Hg. rewrite <- Hstep.
  set (cnt := (Z.abs (to - from) / step)%Z).
  assert (Hcnt: (0 <= cnt)%Z) by (unfold cnt; apply Z.div_pos; lia).
  set (k := Z.to_nat cnt).
  assert (Hk: Z.of_nat k = cnt) by (unfold k; lia).
  assert (HL: (seq_loop (S limit) (from <=? to)%Z from to (if (from <=? to)%Z then step else (- step)%Z))
              = count_up (Nat.min (S limit) (S k)) from (if (from <=? to)%Z then step else (- step)%Z)).
  { destruct (from <=? to)%Z eqn:Eu.
    - apply seq_loop_up; try lia. rewrite Hk. unfold cnt. f_equal. lia.
    - apply seq_loop_down; try lia. rewrite Hk. unfold cnt. f_equal. lia. }
  unfold G. rewrite HL. split.
  { change (Nat.min (S limit) (S k)) with (S (Nat.min limit k)). discriminate. }
  destruct (Z.of_nat limit <=? cnt)%Z eqn:EL.
  - left. split; [reflexivity|]. unfold lim. rewrite map_length, count_up_length.
    assert (E: Nat.ltb limit (Nat.min (S limit) (S k)) = true) by lia. now rewrite E.
  - right. assert (Emin: Nat.min (S limit) (S k) = S k) by lia. rewrite Emin. split.
    + f_equal. apply map_ext_in. intros v Hv. symmetry. apply fmt_agree. intros ->.
      destruct (Hc eq_refl) as [Hb1 Hb2]. destruct (count_up_in _ _ _ _ Hv) as [j [Hj ->]].
      assert (Hjk: (Z.of_nat j <= cnt)%Z) by lia.
      unfold cnt in Hjk. destruct (from <=? to)%Z eqn:Eu.
      * assert (Z.of_nat j * step <= to - from)%Z by (revert Hjk; divnia). lia.
      * assert (Z.of_nat j * step <= from - to)%Z by (revert Hjk; divnia). lia.
    + unfold lim. rewrite map_length, count_up_length.
      assert (E: Nat.ltb limit (S k) = false) by lia. now rewrite E.
Qed.

