(* Proofs/CoreGrammarFuel.v — lengths/positions invariant, fuel monotonicity, fuel sufficiency of the
   parser model, and the resulting theorems about parse_core itself (no out-of-fuel alternative). *)
From Verif Require Import Base.Str Syntax.CoreGrammar Proofs.CoreGrammarProofs.
From Coq Require Import Lia.
Arguments do_redirect : simpl never.
Arguments bind : simpl never.
Arguments perr : simpl never.
Arguments lerr : simpl never.
Arguments redirs : simpl never.
Arguments call_loop : simpl never.
Arguments word_iter : simpl never.
Arguments pats_loop : simpl never.
Arguments word_list : simpl never.

Lemma call_loop_S : forall px f o q first ts, call_loop px (S f) o q first ts =
  match ts with
  | [] => POk ts
  | t :: r =>
      if is_litword t then
        call_loop px f o q (match first with None => match t with TAssign => None | _ => Some t end | _ => first end) r
      else match t with
           | TNewl | TSemi | TAmp | TPipe | TAndAnd | TOrOr | TDSemi => POk ts
           | TWord => call_loop px f o q (match first with None => Some TWord | _ => first end) r
           | TAssignW => call_loop px f o q first r
           | TLparen => unexpected_in_call px o first ts
           | TRparen => match q with QSub => POk ts | _ => unexpected_in_call px o first ts end
           | _ => bind (do_redirect o ts) (fun r' => call_loop px f o q first r')
           end
  end.
Proof. reflexivity. Qed.


(* ---------------------------------------------------------------------- *)
(* Lengths and positions: every parsing function returns a rest no longer than its input,
   and every error position is at most the bound on the input length and on the positions passed in *)
Section Inv.
  Variable N : nat.

  Definition invg {A} (Q : A -> Prop) (x : pres A) : Prop :=
    match x with POk v => Q v | PErr _ p _ => p <= N | PFuel => True end.

  Lemma invg_bind : forall A B (Q : A -> Prop) (R : B -> Prop) (x : pres A) (k : A -> pres B),
    invg Q x -> (forall v, Q v -> invg R (k v)) -> invg R (bind x k).
  Proof. intros A B Q R x k H K. destruct x; unfold bind; simpl in *; auto. Qed.

  Lemma invg_weaken : forall A (Q Q' : A -> Prop) (x : pres A), (forall v, Q v -> Q' v) -> invg Q x -> invg Q' x.
  Proof. intros A Q Q' x W H. destruct x; simpl in *; auto. Qed.

  Lemma invg_perr : forall A (Q : A -> Prop) o cur c p, p <= N -> invg Q (@perr A o cur c p).
  Proof. intros. unfold perr. exact H. Qed.
  Lemma invg_lerr : forall A (Q : A -> Prop) c p, p <= N -> invg Q (@lerr A c p).
  Proof. intros. unfold lerr. exact H. Qed.

  Lemma get_word_len : forall ts x, get_word ts = Some x -> length x <= length ts /\ 1 <= length ts.
  Proof.
    intros [|t ts] x H; [discriminate|]. simpl in H. destruct (is_litword t).
    - inversion H; subst. simpl. lia.
    - destruct t; inversion H; subst; simpl; lia.
  Qed.
  Lemma get_lit_len : forall ts x, get_lit ts = Some x -> length x <= length ts /\ 1 <= length ts.
  Proof.
    intros [|t ts] x H; [discriminate|]. simpl in H. destruct (is_litword t).
    - inversion H; subst. simpl. lia.
    - destruct t; inversion H; subst; simpl; lia.
  Qed.
  Lemma got_newl_len : forall ts, length (got_newl ts) <= length ts.
  Proof. intros [|[] ts]; simpl; lia. Qed.

  Definition le_len (ts : list token) (v : list token) : Prop := length v <= length ts.

  Lemma inv_do_redirect : forall o t ts, length (t :: ts) <= N ->
    invg (le_len ts) (do_redirect o (t :: ts)).
  Proof.
    intros o t ts L. unfold do_redirect. destruct (get_word ts) as [x|] eqn:E.
    - apply get_word_len in E. unfold le_len. simpl. lia.
    - apply invg_perr. exact L.
  Qed.

  Lemma inv_redirs : forall f o ts, length ts <= N -> invg (le_len ts) (redirs f o ts).
  Proof.
    induction f as [|f IH]; intros o ts L; [exact I|].
    rewrite redirs_S. destruct ts as [|t ts]; [simpl; unfold le_len; lia|].
    destruct (peek_redir (t :: ts)); [|simpl; unfold le_len; lia].
    eapply invg_bind; [apply inv_do_redirect; exact L|].
    intros v Hv. unfold le_len in *. simpl in L. eapply invg_weaken; [|apply IH; lia].
    intros v0 Hv0. simpl in *. lia.
  Qed.

  Lemma inv_unexpected : forall A (Q : A -> Prop) px o first ts, length ts <= N -> invg Q (@unexpected_in_call A px o first ts).
  Proof.
    intros. unfold unexpected_in_call. destruct first as [a|]; [destruct (px && is_compound_kw a)|];
      first [apply invg_lerr | apply invg_perr]; assumption.
  Qed.

  Lemma inv_call_loop : forall px f o q first ts, length ts <= N -> invg (le_len ts) (call_loop px f o q first ts).
  Proof.
    induction f as [|f IH]; intros o q first ts L; [exact I|].
    rewrite call_loop_S. destruct ts as [|t ts]; [simpl; unfold le_len; lia|].
    assert (REC : forall fst0, invg (le_len (t :: ts)) (call_loop px f o q fst0 ts)).
    { intro. eapply invg_weaken; [|apply IH; simpl in L; lia]. unfold le_len. simpl. intros; lia. }
    assert (SAME : invg (le_len (t :: ts)) (POk (t :: ts))) by (simpl; unfold le_len; lia).
    assert (RD : invg (le_len (t :: ts)) (bind (do_redirect o (t :: ts)) (fun r' => call_loop px f o q first r'))).
    { eapply invg_bind; [apply inv_do_redirect; exact L|]. intros v Hv. unfold le_len in *.
      eapply invg_weaken; [|apply IH; simpl in L; lia]. simpl. intros; lia. }
    destruct (is_litword t); [apply REC|].
    destruct t; try apply REC; try exact SAME; try exact RD; try (apply inv_unexpected; exact L).
    destruct q; try exact SAME; apply inv_unexpected; exact L.
  Qed.

  Lemma inv_word_list : forall f o ts, length ts <= N -> invg (le_len ts) (word_list f o ts).
  Proof.
    induction f as [|f IH]; intros o ts L; [exact I|].
    rewrite word_list_S. destruct (stop_token ts); [simpl; unfold le_len; lia|].
    destruct (get_word ts) as [x|] eqn:E; [|apply invg_perr; exact L].
    apply get_word_len in E. eapply invg_weaken; [|apply IH; lia]. unfold le_len. intros; lia.
  Qed.

  Lemma cur_pos_le : forall prev ts, prev <= N -> length ts <= N -> cur_pos prev ts <= N.
  Proof. intros prev [|[] ts] P L; simpl in *; lia. Qed.

  Lemma inv_pats_loop : forall f o prev ts, prev <= N -> length ts <= N -> invg (le_len ts) (pats_loop f o prev ts).
  Proof.
    induction f as [|f IH]; intros o prev ts P L; [exact I|].
    rewrite pats_loop_S. destruct ts as [|t ts]; [simpl; unfold le_len; lia|].
    destruct (get_word (t :: ts)) as [x|] eqn:E; [|apply invg_perr; apply cur_pos_le; assumption].
    apply get_word_len in E. destruct E as [E _].
    destruct x as [|t1 x]; [apply invg_perr; apply cur_pos_le; simpl in *; lia|].
    destruct t1; try (apply invg_perr; apply cur_pos_le; simpl in *; lia).
    - eapply invg_weaken; [|apply IH; simpl in *; lia]. unfold le_len. simpl in *. intros; lia.
    - simpl. unfold le_len. exact E.
  Qed.

  Lemma inv_word_iter : forall f o fpos ts, fpos <= N -> length ts <= N -> invg (le_len ts) (word_iter f o fpos ts).
  Proof.
    intros f o fpos ts P L. unfold word_iter.
    destruct (get_lit ts) as [x|] eqn:E; [|apply invg_perr; exact P].
    apply get_lit_len in E. destruct E as [E _].
    assert (W : forall y, length y <= length x -> invg (le_len ts)
      (bind (word_list f o y) (fun r4 => let r5 := match r4 with TSemi :: z => z | _ => r4 end in POk (got_newl r5)))).
    { intros y Ly. eapply invg_bind; [apply inv_word_list; lia|]. intros v Hv. unfold le_len in *. cbv zeta.
      simpl. destruct v as [|[] v]; simpl in *; try lia;
        match goal with |- context [got_newl ?z] => pose proof (got_newl_len z) end; simpl in *; lia. }
    destruct x as [|t1 x]; [apply invg_perr; exact P|].
    destruct t1; try (apply invg_perr; exact P); simpl in E.
    - simpl. unfold le_len. simpl. lia.
    - apply W. simpl. lia.
    - simpl. unfold le_len. pose proof (got_newl_len x). lia.
    - simpl got_newl. destruct x as [|t2 x]; [apply invg_perr; exact P|].
      destruct t2; try (apply invg_perr; exact P); simpl in E.
      + simpl. unfold le_len. simpl. lia.
      + apply W. simpl. lia.
  Qed.

  Variable px : bool.
  Definition lb (ts : list token) (v : list token * bool) : Prop := length (fst v) <= length ts.
  Definition ob_lt (ts : list token) (v : option (list token * bool)) : Prop :=
    match v with Some (x, _) => length x < length ts | None => True end.
  Definition ob_le (ts : list token) (v : option (list token * bool)) : Prop :=
    match v with Some (x, _) => length x <= length ts | None => True end.
  Definition o_lt (ts : list token) (v : option (list token)) : Prop :=
    match v with Some x => length x < length ts | None => True end.
  Definition o_le (ts : list token) (v : option (list token)) : Prop :=
    match v with Some x => length x <= length ts | None => True end.

  Definition Iall (f : nat) : Prop :=
    (forall o q stops ge any ts, length ts <= N -> invg (lb ts) (stmts px f o q stops ge any ts)) /\
    (forall o q re bc ts, length ts <= N -> invg (ob_lt ts) (get_stmt px f o q re bc ts)) /\
    (forall o q re bc ts, length ts <= N -> invg (ob_le ts) (and_or px f o q re bc ts)) /\
    (forall o q ng bc sp ts, sp <= N -> length ts <= N -> invg (o_lt ts) (stmt_pipe px f o q ng bc sp ts)) /\
    (forall o q bc ts, length ts <= N -> invg (o_le ts) (pipe_loop px f o q bc ts)) /\
    (forall o q lpos stops ts, lpos <= N -> length ts <= N -> invg (le_len ts) (follow_stmts px f o q lpos stops ts)) /\
    (forall o q ts, length ts <= N -> invg (le_len (tl ts)) (block px f o q ts)) /\
    (forall o ts, length ts <= N -> invg (le_len (tl ts)) (subshell px f o ts)) /\
    (forall o q ts, length ts <= N -> invg (le_len (tl ts)) (if_clause px f o q ts)) /\
    (forall o q ipos ts, ipos <= N -> length ts <= N -> invg (le_len ts) (elif_loop px f o q ipos ts)) /\
    (forall o q ts, length ts <= N -> invg (le_len (tl ts)) (while_clause px f o q ts)) /\
    (forall o q ts, length ts <= N -> invg (le_len (tl ts)) (for_clause px f o q ts)) /\
    (forall o q ts, length ts <= N -> invg (le_len (tl ts)) (case_clause px f o q ts)) /\
    (forall o prev ts, prev <= N -> length ts <= N -> invg (le_len ts) (case_items px f o prev ts)) /\
    (forall o q npos ts, npos <= N -> length ts <= N -> invg (le_len ts) (func_decl px f o q npos ts)).

  Lemma tl_len : forall (z : list token), length (tl z) <= length z.
  Proof. intros [|? ?]; simpl; lia. Qed.

  Ltac fin := unfold le_len, lb, ob_lt, ob_le, o_lt, o_le in *; simpl in *;
              repeat match goal with |- context [tl ?z] =>
                       lazymatch goal with H : length (tl z) <= length z |- _ => fail | _ => pose proof (tl_len z) end end;
              repeat match goal with H : context [tl ?z] |- _ =>
                       lazymatch goal with H2 : length (tl z) <= length z |- _ => fail | _ => pose proof (tl_len z) end end;
              repeat match goal with |- context [got_newl ?z] =>
                       lazymatch goal with H : length (got_newl z) <= length z |- _ => fail | _ => pose proof (got_newl_len z) end end;
              repeat match goal with H : context [got_newl ?z] |- _ =>
                       lazymatch goal with H2 : length (got_newl z) <= length z |- _ => fail | _ => pose proof (got_newl_len z) end end;
              try lia.
  Ltac pe := first [apply invg_perr | apply invg_lerr]; fin.

  Lemma inv_sp_cmd : forall f, Iall f -> forall o q ng ts1, length ts1 <= N -> invg (ob_lt ts1) (sp_cmd px f o q ng ts1).
  Proof.
    intros f IH o q ng ts1 H1.
    destruct IH as (Is & Ig & Ia & Ip & Il & Ifo & Ib & Isu & Ii & Ie & Iw & Ifr & Ic & Iit & Ifu).
        (* the command *)
        unfold sp_cmd. destruct ts1 as [|t1 y]; [fin|].
        assert (L1 : length (t1 :: y) <= N) by exact H1.
        assert (MK : forall k (X : pres (list token)), invg (le_len y) X -> invg (ob_lt (t1 :: y)) (bind X (mk k))).
        { intros k X HX. eapply invg_bind; [exact HX|]. intros v Hv. unfold mk. fin. }
        assert (CALL : forall first, invg (ob_lt (t1 :: y)) (bind (call_loop px (S f) o q first y) (mk false))).
        { intro. apply MK. apply inv_call_loop. fin. }
        assert (ASN : forall tn, invg (ob_lt (t1 :: y)) (sp_asname px f o q tn (length (t1 :: y)) y)).
        { intro tn. unfold sp_asname. destruct y as [|t2 z]; [apply CALL|].
          destruct t2; try apply CALL.
          destruct z as [|t3 w]; [pe|]. destruct t3; try pe.
          destruct (px && negb (valid_func_name tn)); [pe|].
          eapply invg_bind; [apply Ifu; fin|]. intros v Hv. unfold mk. fin. }
        destruct t1; try pe; try apply ASN; try apply CALL; try (fin; fail).
        * (* TWord *) destruct y as [|t2 z]; [apply CALL|]. destruct t2; try apply CALL. pe.
        * apply MK. apply (Ii o q (TIf :: y)). exact L1.
        * apply MK. apply (Iw o q (TWhile :: y)). exact L1.
        * apply MK. apply (Iw o q (TUntil :: y)). exact L1.
        * apply MK. apply (Ifr o q (TFor :: y)). exact L1.
        * apply MK. apply (Ic o q (TCase :: y)). exact L1.
        * apply MK. apply (Ib o q (TLbrace :: y)). exact L1.
        * destruct ng; [apply ASN|pe].
        * apply MK. apply (Isu o (TLparen :: y)). exact L1.
  Qed.

  Lemma inv_all : forall f, Iall f.
  Proof.
    induction f as [|f IH].
    - unfold Iall. repeat apply conj; intros; exact I.
    - destruct IH as (Is & Ig & Ia & Ip & Il & Ifo & Ib & Isu & Ii & Ie & Iw & Ifr & Ic & Iit & Ifu).
      unfold Iall. repeat apply conj; intros.
      + (* stmts *)
        destruct ts as [|t ts]; [fin|]. rewrite stmts_S.
        assert (K : forall nl ts1, length ts1 <= length (t :: ts) -> invg (lb (t :: ts)) (stmts_tail px f o q stops ge any nl ts1)).
        { intros nl ts1 L1. unfold stmts_tail.
          assert (G : invg (lb (t :: ts))
            (if negb nl && negb ge then perr o ts1 ESep (length ts1)
             else match ts1 with
                  | [] => POk ([], any)
                  | t0 :: _ => bind (get_stmt px f (S o) q true false ts1) (fun v =>
                      match v with None => perr o ts1 (invalid_start_code t0) (length ts1)
                              | Some (r0, semi) => stmts px f o q stops semi true r0 end) end)).
          { destruct (negb nl && negb ge); [pe|]. destruct ts1 as [|t0 ts1]; [fin|].
            eapply invg_bind; [apply Ig; fin|]. intros [[a b]|] Hv; [|pe].
            eapply invg_weaken; [|apply Is; fin]. intros v0 Hv0. fin. }
          destruct ts1 as [|t0 ts1']; [exact G|].
          destruct (is_litword t0).
          - destruct (in_stops stops t0); [fin|]. destruct t0; try exact G; pe.
          - destruct t0; try exact G.
            + destruct (is_quote_sub q); [fin|exact G].
            + destruct (is_quote_case q); [fin|pe]. }
        apply K. pose proof (got_newl_len (t :: ts)). lia.
      + (* get_stmt *)
        rewrite get_stmt_S.
        assert (K : forall ng ts1, length ts1 <= length ts -> invg (ob_lt ts)
          (bind (stmt_pipe px f o q ng false (length ts) ts1) (fun sp => match sp with None => POk None | Some r0 => and_or px f o q re bc r0 end))).
        { intros ng ts1 L1. eapply invg_bind; [apply Ip; fin|]. intros [a|] Hv; [|fin].
          eapply invg_weaken; [|apply Ia; fin]. intros [[x b]|] Hv0; fin. }
        destruct ts as [|t ts]; [rewrite bind_POk; apply K; fin|].
        destruct t; try (rewrite bind_POk; apply K; fin).
        destruct (stop_token ts); [rewrite bind_perr; pe|].
        destruct ts as [|t2 ts2]; [rewrite bind_POk; apply K; fin|].
        destruct t2; try (rewrite bind_POk; apply K; fin). rewrite bind_perr; pe.
      + (* and_or *)
        rewrite and_or_S.
        assert (SAME : invg (ob_le ts) (POk (Some (ts, false)))) by fin.
        destruct ts as [|t ts]; [destruct re; fin|].
        assert (OP : invg (ob_le (t :: ts))
          (bind (get_stmt px f o q false true (got_newl ts)) (fun v =>
             match v with None => perr o (got_newl ts) EAfterOp (length (t :: ts)) | Some (r2, _) => and_or px f o q re bc r2 end))).
        { eapply invg_bind; [apply Ig; fin|]. intros [[a b]|] Hv; [|pe].
          eapply invg_weaken; [|apply Ia; fin]. intros [[x b0]|] Hv0; fin. }
        destruct t; try (destruct re; fin); destruct bc; try exact SAME; try exact OP; fin.
      + (* stmt_pipe *)
        rewrite stmt_pipe_S.
        eapply invg_bind; [apply inv_redirs; assumption|]. intros ts1 H1. unfold le_len in H1.
        set (had := Nat.ltb (length ts1) (length ts)).
        assert (HAD : had = true -> length ts1 < length ts) by (intro E; apply Nat.ltb_lt; exact E).
        assert (HADF : had = false -> ts1 = ts \/ length ts1 = length ts) by (intro E; right; apply Nat.ltb_ge in E; lia).
        (* tail *)
        assert (TL : forall c, ob_lt ts1 c -> invg (o_lt ts) (sp_tail px f o q bc had sp ts1 c)).
        { intros [[a k]|] Hc; unfold sp_tail.
          - destruct (had && k); [pe|]. eapply invg_bind; [apply inv_redirs; fin|]. intros v Hv.
            eapply invg_weaken; [|apply Il; fin]. intros [x|] Hv0; fin.
          - destruct had eqn:E; [|fin]. eapply invg_weaken; [|apply Il; fin]. intros [x|] Hv0; fin; try (specialize (HAD eq_refl); lia). }
        eapply invg_bind; [|exact TL].
        apply inv_sp_cmd; [unfold Iall; repeat apply conj; assumption | lia].
      + (* pipe_loop *)
        rewrite pipe_loop_S. destruct ts as [|t ts]; [fin|].
        destruct t; try (fin; fail). destruct bc; [fin|].
        eapply invg_bind; [apply Ip; fin|]. intros [a|] Hv; [|pe].
        eapply invg_weaken; [|apply Il; fin]. intros [x|] Hv0; fin.
      + (* follow_stmts *)
        rewrite follow_S.
        assert (G : invg (le_len ts) (bind (stmts px f o q stops true false ts) (fun v => let '(r0, any) := v in if any then POk r0 else perr o r0 EFollowStmts lpos))).
        { eapply invg_bind; [apply Is; fin|]. intros [a b] Hv. destruct b; [fin|pe]. }
        destruct ts as [|t ts]; [exact G|]. destruct t; try exact G. pe.
      + (* block *)
        rewrite block_S. eapply invg_bind; [apply Ifo; fin|]. intros v Hv.
        destruct v as [|t1 v]; [pe|]. destruct t1; try pe. fin.
      + (* subshell *)
        rewrite subshell_S. eapply invg_bind; [apply Ifo; fin|]. intros v Hv.
        destruct v as [|t1 v]; [pe|]. destruct t1; try pe. fin.
      + (* if *)
        rewrite if_S. eapply invg_bind; [apply Ifo; fin|]. intros v Hv.
        destruct v as [|t1 v]; [pe|]. destruct t1; try pe.
        eapply invg_bind; [apply Ifo; fin|]. intros v2 Hv2.
        eapply invg_weaken; [|apply Ie; fin]. intros v0 Hv0. fin.
      + (* elif *)
        rewrite elif_S.
        assert (FI : forall y, length y <= length ts -> invg (le_len ts) (match y with TFi :: r6 => POk r6 | _ => perr o y EStmtEnd ipos end)).
        { intros [|t1 y] Ly; [pe|]. destruct t1; try pe. fin. }
        destruct ts as [|t ts]; [unfold bind; simpl; apply (FI []); fin|].
        destruct t; try (unfold bind; simpl; first [apply (FI (_ :: ts)); fin | pe | (fin; fail)]).
        * (* TElif *) eapply invg_bind; [apply Ifo; fin|]. intros v Hv.
          destruct v as [|t1 v]; [pe|]. destruct t1; try pe.
          eapply invg_bind; [apply Ifo; fin|]. intros v2 Hv2.
          eapply invg_weaken; [|apply Ie; fin]. intros v0 Hv0. fin.
        * (* TElse *) eapply invg_bind; [apply Ifo; fin|]. intros v Hv. apply FI. fin.
      + (* while *)
        rewrite while_S. eapply invg_bind; [apply Ifo; fin|]. intros v Hv.
        destruct v as [|t1 v]; [pe|]. destruct t1; try pe.
        eapply invg_bind; [apply Ifo; fin|]. intros v2 Hv2.
        destruct v2 as [|t2 v2]; [pe|]. destruct t2; try pe. fin.
      + (* for *)
        rewrite for_S.
        assert (LT : length (tl ts) <= N) by fin.
        assert (C1 : invg (fun _ : unit => True) (match tl ts with TLparen :: _ => if px then lerr ELangCStyleFor (length (tl ts)) else POk tt | _ => POk tt end)).
        { remember (tl ts) as z. destruct z as [|t1 y]; [exact I|]. destruct t1; try exact I. destruct px; [apply invg_lerr; exact LT|exact I]. }
        eapply invg_bind; [exact C1|]. intros _ _.
        eapply invg_bind; [apply inv_word_iter; [assumption|destruct ts; fin]|]. intros v Hv.
        destruct v as [|t1 v]; [pe|]. destruct t1; try pe.
        * eapply invg_bind; [apply Ifo; destruct ts; fin|]. intros v2 Hv2.
          destruct v2 as [|t2 v2]; [pe|]. destruct t2; try pe. fin.
        * destruct px; [apply invg_lerr; destruct ts; fin|].
          eapply invg_bind; [apply Ifo; destruct ts; fin|]. intros v2 Hv2.
          destruct v2 as [|t2 v2]; [pe|]. destruct t2; try pe. fin.
      + (* case *)
        rewrite case_S. destruct (get_word (tl ts)) as [x|] eqn:E; [|pe].
        apply get_word_len in E. destruct E as [E _].
        destruct (got_newl x) as [|t1 y] eqn:G; [pe|].
        pose proof (got_newl_len x) as GL. rewrite G in GL.
        assert (LT : length (tl ts) <= N) by (destruct ts; fin).
        destruct t1; try pe.
        eapply invg_bind; [apply Iit; fin|]. intros v Hv.
          destruct v as [|t2 v]; [pe|]. destruct t2; try pe. fin.
      + (* case_items *)
        rewrite items_S. destruct ts as [|t ts]; [fin|].
        assert (K : forall n z, n <= N -> length z <= length (t :: ts) -> invg (le_len (t :: ts))
          (bind (pats_loop (S f) o n z) (fun r0 =>
            bind (stmts px f o QCase [TEsac] true false (tl r0)) (fun v =>
              match fst v with TDSemi :: r3 => case_items px f o (length (fst v)) (got_newl r3) | _ => POk (fst v) end)))).
        { intros n z Hn Lz. eapply invg_bind; [apply inv_pats_loop; fin|]. intros v Hv.
          assert (LTL : length (tl v) <= length v) by (destruct v; simpl; lia).
          eapply invg_bind; [apply Is; fin|]. intros [a b] Ha. simpl fst.
          destruct a as [|t2 a]; [fin|]. destruct t2; try (fin; fail).
          eapply invg_weaken; [|apply Iit; fin]. intros v0 Hv0. fin. }
        destruct t; try (apply K; fin).
        * fin.
        * destruct ts as [|t1 ts1]; [rewrite bind_perr; pe | apply K; fin].
      + (* func_decl *)
        rewrite func_S. eapply invg_bind; [apply Ig; fin|]. intros [[a b]|] Hv; [fin|pe].
  Qed.
End Inv.


(* ---------------------------------------------------------------------- *)
(* Fuel monotonicity: a result other than PFuel does not change with more fuel *)
Definition mono_rel {A} (x y : pres A) : Prop := x <> PFuel -> y = x.

Lemma mono_refl : forall A (x : pres A), mono_rel x x.
Proof. intros A x _. reflexivity. Qed.

Lemma mono_bind : forall A B (x y : pres A) (k k' : A -> pres B),
  mono_rel x y -> (forall a, mono_rel (k a) (k' a)) -> mono_rel (bind x k) (bind y k').
Proof.
  intros A B x y k k' H K N. destruct x as [a| |]; unfold bind in *; simpl in *.
  - rewrite (H ltac:(discriminate)). apply K. exact N.
  - rewrite (H ltac:(discriminate)). reflexivity.
  - congruence.
Qed.

Ltac mono_tac IH :=
  repeat first
    [ apply mono_refl
    | apply IH
    | apply mono_bind; [ | intro ]
    | match goal with |- mono_rel (match ?x with _ => _ end) _ => destruct x end
    | match goal with |- mono_rel (if ?x then _ else _) _ => destruct x end ].

Lemma mono_redirs : forall f o ts, mono_rel (redirs f o ts) (redirs (S f) o ts).
Proof.
  induction f as [|f IH]; intros o ts; [intro N; exfalso; apply N; reflexivity|].
  rewrite (redirs_S (S f)), (redirs_S f). mono_tac IH.
Qed.

Lemma mono_call_loop : forall px f o q first ts, mono_rel (call_loop px f o q first ts) (call_loop px (S f) o q first ts).
Proof.
  induction f as [|f IH]; intros o q first ts; [intro N; exfalso; apply N; reflexivity|].
  rewrite (call_loop_S px (S f)), (call_loop_S px f). mono_tac IH.
Qed.

Lemma mono_word_list : forall f o ts, mono_rel (word_list f o ts) (word_list (S f) o ts).
Proof.
  induction f as [|f IH]; intros o ts; [intro N; exfalso; apply N; reflexivity|].
  rewrite (word_list_S (S f)), (word_list_S f). mono_tac IH.
Qed.

Lemma mono_pats_loop : forall f o prev ts, mono_rel (pats_loop f o prev ts) (pats_loop (S f) o prev ts).
Proof.
  induction f as [|f IH]; intros o prev ts; [intro N; exfalso; apply N; reflexivity|].
  rewrite (pats_loop_S (S f)), (pats_loop_S f). mono_tac IH.
Qed.

Lemma mono_word_iter : forall f o fpos ts, mono_rel (word_iter f o fpos ts) (word_iter (S f) o fpos ts).
Proof.
  intros. unfold word_iter. mono_tac mono_word_list.
Qed.

Section Mono.
  Variable px : bool.
  Definition Mall (f : nat) : Prop :=
    (forall o q stops ge any ts, mono_rel (stmts px f o q stops ge any ts) (stmts px (S f) o q stops ge any ts)) /\
    (forall o q re bc ts, mono_rel (get_stmt px f o q re bc ts) (get_stmt px (S f) o q re bc ts)) /\
    (forall o q re bc ts, mono_rel (and_or px f o q re bc ts) (and_or px (S f) o q re bc ts)) /\
    (forall o q ng bc sp ts, mono_rel (stmt_pipe px f o q ng bc sp ts) (stmt_pipe px (S f) o q ng bc sp ts)) /\
    (forall o q bc ts, mono_rel (pipe_loop px f o q bc ts) (pipe_loop px (S f) o q bc ts)) /\
    (forall o q lpos stops ts, mono_rel (follow_stmts px f o q lpos stops ts) (follow_stmts px (S f) o q lpos stops ts)) /\
    (forall o q ts, mono_rel (block px f o q ts) (block px (S f) o q ts)) /\
    (forall o ts, mono_rel (subshell px f o ts) (subshell px (S f) o ts)) /\
    (forall o q ts, mono_rel (if_clause px f o q ts) (if_clause px (S f) o q ts)) /\
    (forall o q ipos ts, mono_rel (elif_loop px f o q ipos ts) (elif_loop px (S f) o q ipos ts)) /\
    (forall o q ts, mono_rel (while_clause px f o q ts) (while_clause px (S f) o q ts)) /\
    (forall o q ts, mono_rel (for_clause px f o q ts) (for_clause px (S f) o q ts)) /\
    (forall o q ts, mono_rel (case_clause px f o q ts) (case_clause px (S f) o q ts)) /\
    (forall o prev ts, mono_rel (case_items px f o prev ts) (case_items px (S f) o prev ts)) /\
    (forall o q npos ts, mono_rel (func_decl px f o q npos ts) (func_decl px (S f) o q npos ts)).

  Ltac z := intros; let HN := fresh "HN" in intro HN; exfalso; apply HN; reflexivity.

  Ltac mono2 :=
    repeat first
      [ apply mono_refl
      | apply mono_redirs | apply mono_call_loop | apply mono_word_iter | apply mono_pats_loop
      | match goal with H : forall _, _ |- _ => apply H end
      | apply mono_bind; [ | intro ]
      | match goal with |- mono_rel (match ?x with _ => _ end) _ => destruct x end
      | match goal with |- mono_rel (if ?x then _ else _) _ => destruct x end ].

  Lemma mono_all : forall f, Mall f.
  Proof.
    induction f as [|f IH].
    - unfold Mall. repeat apply conj; z.
    - destruct IH as (Is & Ig & Ia & Ip & Il & Ifo & Ib & Isu & Ii & Ie & Iw & Ifr & Ic & Iit & Ifu).
      unfold Mall. repeat apply conj; intros.
      + destruct ts as [|t ts]; [apply mono_refl|]. rewrite !stmts_S. unfold stmts_tail. mono2.
      + rewrite (get_stmt_S px (S f)), (get_stmt_S px f). mono2.
      + rewrite (and_or_S px (S f)), (and_or_S px f). mono2.
      + rewrite (stmt_pipe_S px (S f)), (stmt_pipe_S px f). unfold sp_cmd, sp_tail, sp_asname, mk. mono2.
      + rewrite (pipe_loop_S px (S f)), (pipe_loop_S px f). mono2.
      + rewrite (follow_S px (S f)), (follow_S px f). mono2.
      + rewrite (block_S px (S f)), (block_S px f). mono2.
      + rewrite (subshell_S px (S f)), (subshell_S px f). mono2.
      + rewrite (if_S px (S f)), (if_S px f). mono2.
      + rewrite (elif_S px (S f)), (elif_S px f). mono2.
      + rewrite (while_S px (S f)), (while_S px f). mono2.
      + rewrite (for_S px (S f)), (for_S px f). mono2.
      + rewrite (case_S px (S f)), (case_S px f). mono2.
      + rewrite (items_S px (S f)), (items_S px f). mono2.
      + rewrite (func_S px (S f)), (func_S px f). mono2.
  Qed.
End Mono.


(* ---------------------------------------------------------------------- *)
(* Fuel sufficiency *)
Definition nf {A} (x : pres A) : Prop := x <> PFuel.

Lemma nf_bind : forall A B (x : pres A) (k : A -> pres B),
  nf x -> (forall v, x = POk v -> nf (k v)) -> nf (bind x k).
Proof. intros A B x k H K. destruct x; unfold bind, nf in *; simpl; [apply K; reflexivity|discriminate|congruence]. Qed.
Lemma nf_perr : forall A o cur c p, nf (@perr A o cur c p). Proof. intros. unfold perr, nf. discriminate. Qed.
Lemma nf_lerr : forall A c p, nf (@lerr A c p). Proof. intros. unfold lerr, nf. discriminate. Qed.
Lemma nf_ok : forall A (a : A), nf (POk a). Proof. intros. unfold nf. discriminate. Qed.

(* length facts extracted from inv_all / helper invariants, for a successful result *)
Lemma invg_ok : forall N A (Q : A -> Prop) x v, invg N Q x -> x = POk v -> Q v.
Proof. intros N A Q x v H E. subst. exact H. Qed.

Lemma len_do_redirect : forall o t ts v, do_redirect o (t :: ts) = POk v -> length v <= length ts.
Proof. intros o t ts v E. exact (invg_ok _ _ _ _ _ (inv_do_redirect (length (t :: ts)) o t ts (le_n _)) E). Qed.
Lemma len_redirs : forall f o ts v, redirs f o ts = POk v -> length v <= length ts.
Proof. intros f o ts v E. exact (invg_ok _ _ _ _ _ (inv_redirs (length ts) f o ts (le_n _)) E). Qed.
Lemma len_word_list : forall f o ts v, word_list f o ts = POk v -> length v <= length ts.
Proof. intros f o ts v E. exact (invg_ok _ _ _ _ _ (inv_word_list (length ts) f o ts (le_n _)) E). Qed.

Lemma suf_redirs : forall f o ts, length ts + 1 <= f -> nf (redirs f o ts).
Proof.
  induction f as [|f IH]; intros o ts L; [lia|].
  rewrite redirs_S. destruct ts as [|t ts]; [apply nf_ok|].
  destruct (peek_redir (t :: ts)); [|apply nf_ok].
  apply nf_bind.
  - unfold do_redirect. destruct (get_word ts); [apply nf_ok|apply nf_perr].
  - intros v E. apply len_do_redirect in E. apply IH. simpl in L. lia.
Qed.

Lemma nf_unexpected : forall A px o first ts, nf (@unexpected_in_call A px o first ts).
Proof. intros. unfold unexpected_in_call. destruct first as [a|]; [destruct (px && is_compound_kw a)|]; first [apply nf_lerr|apply nf_perr]. Qed.

Lemma suf_call_loop : forall px f o q first ts, length ts + 1 <= f -> nf (call_loop px f o q first ts).
Proof.
  induction f as [|f IH]; intros o q first ts L; [lia|].
  rewrite call_loop_S. destruct ts as [|t ts]; [apply nf_ok|]. simpl in L.
  assert (REC : forall fst0, nf (call_loop px f o q fst0 ts)) by (intro; apply IH; lia).
  assert (RD : nf (bind (do_redirect o (t :: ts)) (fun r' => call_loop px f o q first r'))).
  { apply nf_bind.
    - unfold do_redirect. destruct (get_word ts); [apply nf_ok|apply nf_perr].
    - intros v E. apply len_do_redirect in E. apply IH. lia. }
  destruct (is_litword t); [apply REC|].
  destruct t; try apply REC; try apply nf_ok; try exact RD; try apply nf_unexpected.
  destruct q; try apply nf_ok; apply nf_unexpected.
Qed.

Lemma suf_word_list : forall f o ts, length ts + 1 <= f -> nf (word_list f o ts).
Proof.
  induction f as [|f IH]; intros o ts L; [lia|].
  rewrite word_list_S. destruct (stop_token ts) eqn:S0; [apply nf_ok|].
  destruct (get_word ts) as [x|] eqn:E; [|apply nf_perr].
  destruct ts as [|t ts]; [discriminate|]. simpl in E. simpl in L.
  destruct (is_litword t).
  - inversion E; subst. apply IH. lia.
  - destruct t; inversion E; subst; try (apply IH; lia); simpl in S0; try discriminate.
    (* TIoRedir: the operator stays, it is not a stop token and not a word *)
    destruct f as [|f]; [lia|]. rewrite word_list_S. simpl. apply nf_perr.
Qed.

Lemma suf_pats_loop : forall f o prev ts, length ts + 1 <= f -> nf (pats_loop f o prev ts).
Proof.
  induction f as [|f IH]; intros o prev ts L; [lia|].
  rewrite pats_loop_S. destruct ts as [|t ts]; [apply nf_ok|].
  destruct (get_word (t :: ts)) as [x|] eqn:E; [|apply nf_perr].
  apply get_word_len in E. destruct E as [E _].
  destruct x as [|t1 x]; [apply nf_perr|]. destruct t1; try apply nf_perr; [|apply nf_ok].
  apply IH. simpl in *. lia.
Qed.

Lemma suf_word_iter : forall f o fpos ts, length ts + 1 <= f -> nf (word_iter f o fpos ts).
Proof.
  intros f o fpos ts L. unfold word_iter.
  destruct (get_lit ts) as [x|] eqn:E; [|apply nf_perr].
  apply get_lit_len in E. destruct E as [E _].
  assert (W : forall y, length y <= length x -> nf
    (bind (word_list f o y) (fun r4 => let r5 := match r4 with TSemi :: z => z | _ => r4 end in POk (got_newl r5)))).
  { intros y Ly. apply nf_bind; [apply suf_word_list; lia|]. intros; apply nf_ok. }
  destruct x as [|t1 x]; [apply nf_perr|].
  destruct t1; try apply nf_perr; try apply nf_ok; simpl in E.
  - apply W. simpl. lia.
  - simpl got_newl. destruct x as [|t2 x]; [apply nf_perr|].
    destruct t2; try apply nf_perr; try apply nf_ok. apply W. simpl in *. lia.
Qed.

Section Suf.
  Variable px : bool.

  Lemma len_stmts : forall f o q stops ge any ts v, stmts px f o q stops ge any ts = POk v -> length (fst v) <= length ts.
  Proof. intros. exact (invg_ok _ _ _ _ _ (proj1 (inv_all (length ts) px f) o q stops ge any ts (le_n _)) H). Qed.
  Lemma len_get : forall f o q re bc ts x b, get_stmt px f o q re bc ts = POk (Some (x, b)) -> length x < length ts.
  Proof. intros. exact (invg_ok _ _ _ _ _ (proj1 (proj2 (inv_all (length ts) px f)) o q re bc ts (le_n _)) H). Qed.
  Lemma len_pipe : forall f o q ng bc sp ts x, stmt_pipe px f o q ng bc sp ts = POk (Some x) -> length x < length ts.
  Proof.
    intros. assert (L1 : sp <= sp + length ts) by lia. assert (L2 : length ts <= sp + length ts) by lia.
    exact (invg_ok _ _ _ _ _ (proj1 (proj2 (proj2 (proj2 (inv_all (sp + length ts) px f)))) o q ng bc sp ts L1 L2) H).
  Qed.
  Lemma len_follow : forall f o q lpos stops ts v, follow_stmts px f o q lpos stops ts = POk v -> length v <= length ts.
  Proof.
    intros. assert (L1 : lpos <= lpos + length ts) by lia. assert (L2 : length ts <= lpos + length ts) by lia.
    exact (invg_ok _ _ _ _ _ (proj1 (proj2 (proj2 (proj2 (proj2 (proj2 (inv_all (lpos + length ts) px f)))))) o q lpos stops ts L1 L2) H).
  Qed.
  Lemma len_pats : forall f o prev ts v, pats_loop f o prev ts = POk v -> length v <= length ts.
  Proof.
    intros. assert (L1 : prev <= prev + length ts) by lia. assert (L2 : length ts <= prev + length ts) by lia.
    exact (invg_ok _ _ _ _ _ (inv_pats_loop (prev + length ts) f o prev ts L1 L2) H).
  Qed.
  Lemma len_word_iter : forall f o fpos ts v, word_iter f o fpos ts = POk v -> length v <= length ts.
  Proof.
    intros. assert (L1 : fpos <= fpos + length ts) by lia. assert (L2 : length ts <= fpos + length ts) by lia.
    exact (invg_ok _ _ _ _ _ (inv_word_iter (fpos + length ts) f o fpos ts L1 L2) H).
  Qed.
  Lemma len_call : forall f o q first ts v, call_loop px f o q first ts = POk v -> length v <= length ts.
  Proof. intros. exact (invg_ok _ _ _ _ _ (inv_call_loop (length ts) px f o q first ts (le_n _)) H). Qed.
  Lemma len_items : forall f o prev ts v, case_items px f o prev ts = POk v -> length v <= length ts.
  Proof.
    intros. assert (L1 : prev <= prev + length ts) by lia. assert (L2 : length ts <= prev + length ts) by lia.
    exact (invg_ok _ _ _ _ _ (proj1 (proj2 (proj2 (proj2 (proj2 (proj2 (proj2 (proj2 (proj2 (proj2 (proj2 (proj2 (proj2 (proj2 (inv_all (prev + length ts) px f)))))))))))))) o prev ts L1 L2) H).
  Qed.

  Definition Sall (f : nat) : Prop :=
    (forall o q stops ge any ts, 12 * length ts + 4 <= f -> nf (stmts px f o q stops ge any ts)) /\
    (forall o q re bc ts, 12 * length ts + 3 <= f -> nf (get_stmt px f o q re bc ts)) /\
    (forall o q re bc ts, 12 * length ts + 1 <= f -> nf (and_or px f o q re bc ts)) /\
    (forall o q ng bc sp ts, 12 * length ts + 2 <= f -> nf (stmt_pipe px f o q ng bc sp ts)) /\
    (forall o q bc ts, 12 * length ts + 1 <= f -> nf (pipe_loop px f o q bc ts)) /\
    (forall o q lpos stops ts, 12 * length ts + 5 <= f -> nf (follow_stmts px f o q lpos stops ts)) /\
    (forall o q t ts, 12 * length (t :: ts) + 1 <= f -> nf (block px f o q (t :: ts))) /\
    (forall o t ts, 12 * length (t :: ts) + 1 <= f -> nf (subshell px f o (t :: ts))) /\
    (forall o q t ts, 12 * length (t :: ts) + 1 <= f -> nf (if_clause px f o q (t :: ts))) /\
    (forall o q ipos ts, 12 * length ts + 1 <= f -> nf (elif_loop px f o q ipos ts)) /\
    (forall o q t ts, 12 * length (t :: ts) + 1 <= f -> nf (while_clause px f o q (t :: ts))) /\
    (forall o q t ts, 12 * length (t :: ts) + 1 <= f -> nf (for_clause px f o q (t :: ts))) /\
    (forall o q t ts, 12 * length (t :: ts) + 1 <= f -> nf (case_clause px f o q (t :: ts))) /\
    (forall o prev ts, 12 * length ts + 5 <= f -> nf (case_items px f o prev ts)) /\
    (forall o q npos ts, 12 * length ts + 4 <= f -> nf (func_decl px f o q npos ts)).

  Ltac pk := first [apply nf_perr | apply nf_lerr | apply nf_ok].
  Ltac sl := simpl in *; repeat match goal with |- context [got_newl ?z] =>
                       lazymatch goal with H : length (got_newl z) <= length z |- _ => fail | _ => pose proof (got_newl_len z) end end;
             repeat match goal with H : context [got_newl ?z] |- _ =>
                       lazymatch goal with H2 : length (got_newl z) <= length z |- _ => fail | _ => pose proof (got_newl_len z) end end;
             try lia.

  (* closing token after a follow_stmts *)
  Lemma suf_all : forall f, Sall f.
  Proof.
    induction f as [|f IH].
    - unfold Sall. repeat apply conj; intros; lia.
    - destruct IH as (Is & Ig & Ia & Ip & Il & Ifo & Ib & Isu & Ii & Ie & Iw & Ifr & Ic & Iit & Ifu).
      unfold Sall. repeat apply conj; intros.
      + (* stmts *)
        destruct ts as [|t ts]; [pk|]. rewrite stmts_S.
        assert (K : forall nl ts1, length ts1 <= length (t :: ts) -> nf (stmts_tail px f o q stops ge any nl ts1)).
        { intros nl ts1 L1. unfold stmts_tail.
          assert (G : nf
            (if negb nl && negb ge then perr o ts1 ESep (length ts1)
             else match ts1 with
                  | [] => POk ([], any)
                  | t0 :: _ => bind (get_stmt px f (S o) q true false ts1) (fun v =>
                      match v with None => perr o ts1 (invalid_start_code t0) (length ts1)
                              | Some (r0, semi) => stmts px f o q stops semi true r0 end) end)).
          { destruct (negb nl && negb ge); [pk|]. destruct ts1 as [|t0 ts1]; [pk|].
            apply nf_bind; [apply Ig; sl|]. intros [[a b]|] E; [|pk].
            apply len_get in E. apply Is. sl. }
          destruct ts1 as [|t0 ts1']; [exact G|].
          destruct (is_litword t0).
          - destruct (in_stops stops t0); [pk|]. destruct t0; try exact G; pk.
          - destruct t0; try exact G.
            + destruct (is_quote_sub q); [pk|exact G].
            + destruct (is_quote_case q); pk. }
        apply K. pose proof (got_newl_len (t :: ts)). lia.
      + (* get_stmt *)
        rewrite get_stmt_S.
        assert (K : forall ng ts1, length ts1 <= length ts -> nf
          (bind (stmt_pipe px f o q ng false (length ts) ts1) (fun sp => match sp with None => POk None | Some r0 => and_or px f o q re bc r0 end))).
        { intros ng ts1 L1. apply nf_bind; [apply Ip; sl|]. intros [a|] E; [|pk].
          apply len_pipe in E. apply Ia. sl. }
        destruct ts as [|t ts]; [rewrite bind_POk; apply K; sl|].
        destruct t; try (rewrite bind_POk; apply K; sl).
        destruct (stop_token ts); [rewrite bind_perr; pk|].
        destruct ts as [|t2 ts2]; [rewrite bind_POk; apply K; sl|].
        destruct t2; try (rewrite bind_POk; apply K; sl). rewrite bind_perr; pk.
      + (* and_or *)
        rewrite and_or_S. destruct ts as [|t ts]; [destruct re; pk|].
        assert (OP : nf
          (bind (get_stmt px f o q false true (got_newl ts)) (fun v =>
             match v with None => perr o (got_newl ts) EAfterOp (length (t :: ts)) | Some (r2, _) => and_or px f o q re bc r2 end))).
        { apply nf_bind; [apply Ig; sl|]. intros [[a b]|] E; [|pk]. apply len_get in E. apply Ia. sl. }
        destruct t; try (destruct re; pk); destruct bc; try pk; exact OP.
      + (* stmt_pipe *)
        rewrite stmt_pipe_S.
        apply nf_bind; [apply suf_redirs; lia|]. intros ts1 E1. apply len_redirs in E1.
        set (had := Nat.ltb (length ts1) (length ts)).
        apply nf_bind.
        * (* the command *)
          unfold sp_cmd. destruct ts1 as [|t1 y]; [pk|]. simpl in E1.
          assert (MK : forall k (X : pres (list token)), nf X -> nf (bind X (mk k))).
          { intros k X HX. apply nf_bind; [exact HX|]. intros; unfold mk; pk. }
          assert (CALL : forall first, nf (bind (call_loop px (S f) o q first y) (mk false))).
          { intro. apply MK. apply suf_call_loop. lia. }
          assert (ASN : forall tn, nf (sp_asname px f o q tn (length (t1 :: y)) y)).
          { intro tn. unfold sp_asname. destruct y as [|t2 z]; [apply CALL|].
            destruct t2; try apply CALL.
            destruct z as [|t3 w]; [pk|]. destruct t3; try pk.
            destruct (px && negb (valid_func_name tn)); [pk|].
            apply MK. apply Ifu. sl. }
          destruct t1; try pk; try apply ASN; try apply CALL.
          -- destruct y as [|t2 z]; [apply CALL|]. destruct t2; try apply CALL. pk.
          -- apply MK. apply Ii. sl.
          -- apply MK. apply Iw. sl.
          -- apply MK. apply Iw. sl.
          -- apply MK. apply Ifr. sl.
          -- apply MK. apply Ic. sl.
          -- apply MK. apply Ib. sl.
          -- destruct ng; [apply ASN|pk].
          -- apply MK. apply Isu. sl.
        * (* the tail *)
          intros c Ec. unfold sp_tail. destruct c as [[a k]|].
          -- destruct (had && k); [pk|].
             assert (La : length a < length ts1).
             { exact (invg_ok _ _ _ _ _ (inv_sp_cmd (length ts1) px f (inv_all (length ts1) px f) o q ng ts1 (le_n _)) Ec). }
             apply nf_bind; [apply suf_redirs; lia|]. intros v Ev. apply len_redirs in Ev. apply Il. lia.
          -- destruct had eqn:EH; [|pk]. apply Il. apply Nat.ltb_lt in EH. lia.
      + (* pipe_loop *)
        rewrite pipe_loop_S. destruct ts as [|t ts]; [pk|].
        destruct t; try pk. destruct bc; [pk|].
        apply nf_bind; [apply Ip; sl|]. intros [a|] E; [|pk]. apply len_pipe in E. apply Il. sl.
      + (* follow *)
        rewrite follow_S.
        assert (G : nf (bind (stmts px f o q stops true false ts) (fun v => let '(r0, any) := v in if any then POk r0 else perr o r0 EFollowStmts lpos))).
        { apply nf_bind; [apply Is; lia|]. intros [a b] E. destruct b; pk. }
        destruct ts as [|t ts]; [exact G|]. destruct t; try exact G. pk.
      + (* block *)
        rewrite block_S. simpl tl. apply nf_bind; [apply Ifo; sl|]. intros v E.
        destruct v as [|t1 v]; [pk|]. destruct t1; pk.
      + (* subshell *)
        rewrite subshell_S. simpl tl. apply nf_bind; [apply Ifo; sl|]. intros v E.
        destruct v as [|t1 v]; [pk|]. destruct t1; pk.
      + (* if *)
        rewrite if_S. simpl tl. apply nf_bind; [apply Ifo; sl|]. intros v E. apply len_follow in E.
        destruct v as [|t1 v]; [pk|]. destruct t1; try pk.
        apply nf_bind; [apply Ifo; sl|]. intros v2 E2. apply len_follow in E2. apply Ie. sl.
      + (* elif *)
        rewrite elif_S.
        assert (FI : forall y, nf (match y with TFi :: r6 => POk r6 | _ => perr o y EStmtEnd ipos end)).
        { intros [|t1 y]; [pk|]. destruct t1; pk. }
        destruct ts as [|t ts]; [unfold bind; simpl; apply (FI [])|].
        destruct t; try (unfold bind; simpl; first [apply (FI (_ :: ts)) | pk]).
        * apply nf_bind; [apply Ifo; sl|]. intros v E. apply len_follow in E.
          destruct v as [|t1 v]; [pk|]. destruct t1; try pk.
          apply nf_bind; [apply Ifo; sl|]. intros v2 E2. apply len_follow in E2. apply Ie. sl.
        * apply nf_bind; [apply Ifo; sl|]. intros v E. apply FI.
      + (* while *)
        rewrite while_S. simpl tl. apply nf_bind; [apply Ifo; sl|]. intros v E. apply len_follow in E.
        destruct v as [|t1 v]; [pk|]. destruct t1; try pk.
        apply nf_bind; [apply Ifo; sl|]. intros v2 E2.
        destruct v2 as [|t2 v2]; [pk|]. destruct t2; pk.
      + (* for *)
        rewrite for_S. simpl tl.
        apply nf_bind; [destruct ts as [|t1 y]; [pk|]; destruct t1; try pk; destruct px; pk|]. intros _ _.
        apply nf_bind; [apply suf_word_iter; sl|]. intros v E. apply len_word_iter in E.
        destruct v as [|t1 v]; [pk|]. destruct t1; try pk.
        * apply nf_bind; [apply Ifo; sl|]. intros v2 E2.
          destruct v2 as [|t2 v2]; [pk|]. destruct t2; pk.
        * destruct px; [pk|]. apply nf_bind; [apply Ifo; sl|]. intros v2 E2.
          destruct v2 as [|t2 v2]; [pk|]. destruct t2; pk.
      + (* case *)
        rewrite case_S. simpl tl. destruct (get_word ts) as [x|] eqn:E; [|pk].
        apply get_word_len in E. destruct E as [E _].
        destruct (got_newl x) as [|t1 y] eqn:G; [pk|].
        pose proof (got_newl_len x) as GL. rewrite G in GL.
        destruct t1; try pk.
        apply nf_bind; [apply Iit; sl|]. intros v Ev.
        destruct v as [|t2 v]; [pk|]. destruct t2; pk.
      + (* case_items *)
        rewrite items_S. destruct ts as [|t ts]; [pk|].
        assert (K : forall n z, length z <= length (t :: ts) -> nf
          (bind (pats_loop (S f) o n z) (fun r0 =>
            bind (stmts px f o QCase [TEsac] true false (tl r0)) (fun v =>
              match fst v with TDSemi :: r3 => case_items px f o (length (fst v)) (got_newl r3) | _ => POk (fst v) end)))).
        { intros n z Lz. apply nf_bind; [apply suf_pats_loop; sl|]. intros v Ev. apply len_pats in Ev.
          assert (LTL : length (tl v) <= length v) by (destruct v; simpl; lia).
          apply nf_bind; [apply Is; sl|]. intros [a b] Ea. apply len_stmts in Ea. simpl fst in *.
          destruct a as [|t2 a]; [pk|]. destruct t2; try pk.
          apply Iit. sl. }
        destruct t; try (apply K; sl).
        * pk.
        * destruct ts as [|t1 ts1]; [rewrite bind_perr; pk | apply K; sl].
      + (* func_decl *)
        rewrite func_S. apply nf_bind; [apply Ig; sl|]. intros [[a b]|] E; pk.
  Qed.
End Suf.


(* ---------------------------------------------------------------------- *)
Lemma parse_toks_no_fuel : forall px ts, parse_toks px ts <> PFuel.
Proof.
  intros px ts. unfold parse_toks, fuel_for.
  apply (proj1 (suf_all px (12 * length ts + 16))). lia.
Qed.

Lemma stmts_mono_le : forall px f f' o q stops ge any ts, f <= f' ->
  stmts px f o q stops ge any ts <> PFuel ->
  stmts px f' o q stops ge any ts = stmts px f o q stops ge any ts.
Proof.
  intros px f f' o q stops ge any ts L. induction L as [|f' L IH]; intro H; [reflexivity|].
  rewrite <- (IH H). apply (proj1 (mono_all px f')). rewrite (IH H). exact H.
Qed.

Theorem prefix_parse_toks : forall px q r,
  accepted (parse_toks px (q ++ r)) = true ->
  accepted (parse_toks px q) = true \/ incomplete (parse_toks px q) = true.
Proof.
  intros px q r A. unfold parse_toks in *.
  pose proof (prefix_ok_or_incomplete px (fuel_for (q ++ r)) q r A) as H. cbv zeta in H.
  assert (LE : fuel_for q <= fuel_for (q ++ r)) by (unfold fuel_for; rewrite app_length; lia).
  rewrite (stmts_mono_le px _ _ 0 QNone [] true false q LE (parse_toks_no_fuel px q)) in H.
  destruct H as [H|[H|H]]; [left; exact H|right; exact H|].
  exfalso. pose proof (parse_toks_no_fuel px q) as N. unfold parse_toks in N.
  destruct (stmts px (fuel_for q) 0 QNone [] true false q); simpl in H; try discriminate. apply N. reflexivity.
Qed.

(* the lexer's merging of newline runs commutes with taking a prefix *)
Lemma norm_cons_other : forall t z, t <> TNewl -> norm (t :: z) = t :: norm z.
Proof. intros t z N. destruct t; try reflexivity; congruence. Qed.
Lemma norm_newl_other : forall t z, t <> TNewl -> norm (TNewl :: t :: z) = TNewl :: norm (t :: z).
Proof. intros t z N. destruct t; try reflexivity; congruence. Qed.
Lemma norm_newl_newl : forall z, norm (TNewl :: TNewl :: z) = norm (TNewl :: z).
Proof. reflexivity. Qed.
Lemma norm_newl_nil : norm [TNewl] = [TNewl].
Proof. reflexivity. Qed.

Lemma norm_head_newl : forall r, exists r', norm (TNewl :: r) = TNewl :: r'.
Proof.
  induction r as [|t r IH]; [exists []; reflexivity|].
  destruct (token_eq_dec t TNewl) as [->|N].
  - rewrite norm_newl_newl. exact IH.
  - rewrite norm_newl_other by exact N. eexists; reflexivity.
Qed.

Lemma norm_app_exists : forall q r, exists r', norm (q ++ r) = norm q ++ r'.
Proof.
  induction q as [|t q IH]; intro r; [exists (norm r); reflexivity|].
  destruct (token_eq_dec t TNewl) as [->|N].
  - destruct q as [|t2 q].
    + destruct (norm_head_newl r) as [r' E]. exists r'.
      change (([TNewl] ++ r)) with (TNewl :: r). rewrite E, norm_newl_nil. reflexivity.
    + destruct (IH r) as [r' E]. exists r'. destruct (token_eq_dec t2 TNewl) as [->|N2].
      * change ((TNewl :: TNewl :: q) ++ r) with (TNewl :: TNewl :: (q ++ r)).
        rewrite !norm_newl_newl. exact E.
      * change ((TNewl :: t2 :: q) ++ r) with (TNewl :: t2 :: (q ++ r)).
        rewrite !norm_newl_other by exact N2.
        change (t2 :: q ++ r) with ((t2 :: q) ++ r). rewrite E. reflexivity.
  - destruct (IH r) as [r' E]. exists r'.
    change ((t :: q) ++ r) with (t :: (q ++ r)). rewrite !norm_cons_other by exact N. rewrite E. reflexivity.
Qed.

Theorem prefix_parse_core : forall px q r,
  accepted (parse_core px (q ++ r)) = true ->
  accepted (parse_core px q) = true \/ incomplete (parse_core px q) = true.
Proof.
  intros px q r A. unfold parse_core in *. destruct (norm_app_exists q r) as [r' E]. rewrite E in A.
  exact (prefix_parse_toks px (norm q) r' A).
Qed.

Theorem error_pos_inside : forall px ts c p i, parse_core px ts = PErr c p i -> p <= length (norm ts).
Proof.
  intros px ts c p i E. unfold parse_core, parse_toks in E.
  pose proof (proj1 (inv_all (length (norm ts)) px (fuel_for (norm ts))) 0 QNone [] true false (norm ts) (le_n _)) as H.
  rewrite E in H. exact H.
Qed.

Theorem parse_core_no_fuel : forall px ts, parse_core px ts <> PFuel.
Proof. intros. unfold parse_core. apply parse_toks_no_fuel. Qed.

Theorem parse_core_fuel_irrelevant : forall px ts f, fuel_for (norm ts) <= f ->
  stmts px f 0 QNone [] true false (norm ts) = parse_core px ts.
Proof.
  intros px ts f L. unfold parse_core, parse_toks. apply stmts_mono_le; [exact L|]. apply (parse_toks_no_fuel px (norm ts)).
Qed.

