(* Proofs/FieldsProofs.v — proofs about Expand/Fields.v (C22). *)
From Verif Require Import Base.Str Expand.Fields.
From Coq Require Import ZifyN ZifyNat ZifyBool.
Open Scope N_scope.

(* ---- abstraction of the Go state -------------------------------------------- *)
Inductive mode := MStart | MAfter | MField (f : str).

Definition sp_mode (m : mode) (l : list sym) : list str :=
  match m with MStart => sp_start l | MAfter => sp_afterws l | MField f => sp_field f l end.

Definition mode_of (s : st) : mode :=
  match cur s with
  | [] => if wsd s then MAfter else MStart
  | _ :: _ => MField (concat (cur s))
  end.

(* what the Go state yields if the rest of the word flattens to l *)
Definition result (s : st) (l : list sym) : list str :=
  map (@concat N) (fields s) ++ sp_mode (mode_of s) l.

Lemma concat_snoc : forall (c : list str) (v : str), concat (c ++ [v]) = concat c ++ v.
Proof. intros. rewrite concat_app. simpl. rewrite app_nil_r. reflexivity. Qed.

Lemma sp_field_chars : forall v f l, sp_field f (map C v ++ l) = sp_field (f ++ v) l.
Proof.
  induction v as [|r v IH]; intros f l; simpl.
  - rewrite app_nil_r. reflexivity.
  - rewrite IH. rewrite <- app_assoc. reflexivity.
Qed.

Lemma sp_field_chars_nil : forall v f, sp_field f (map C v) = [f ++ v].
Proof. intros. rewrite <- (app_nil_r (map C v)), sp_field_chars. reflexivity. Qed.

Lemma mode_add_part : forall s v, mode_of (add_part s v) = MField (concat (cur s) ++ v).
Proof.
  intros s v. unfold mode_of, add_part. cbn [cur].
  rewrite concat_snoc.
  destruct (cur s) as [|c cs] eqn:E; reflexivity.
Qed.

(* a quoted piece *)
Lemma result_add_quoted : forall s v l,
  result (add_part s v) l = result s (Q :: map C v ++ l).
Proof.
  intros s v l. unfold result. rewrite mode_add_part. f_equal.
  unfold mode_of. destruct (cur s) as [|c cs] eqn:E.
  - destruct (wsd s); simpl; rewrite sp_field_chars; reflexivity.
  - simpl. rewrite sp_field_chars. reflexivity.
Qed.

(* an unquoted, non-empty piece *)
Lemma result_add_chars : forall s v l, v <> [] ->
  result (add_part s v) l = result s (map C v ++ l).
Proof.
  intros s v l Hv. unfold result. rewrite mode_add_part. f_equal.
  unfold mode_of. destruct (cur s) as [|c cs] eqn:E.
  - destruct v as [|r v]; [congruence|].
    destruct (wsd s); simpl; rewrite sp_field_chars; reflexivity.
  - simpl. rewrite sp_field_chars. reflexivity.
Qed.

(* more characters for a piece that is already there *)
Lemma result_extend : forall s f v l,
  result (add_part s (f ++ v)) l = result (add_part s f) (map C v ++ l).
Proof.
  intros. unfold result. rewrite !mode_add_part. simpl. rewrite sp_field_chars.
  rewrite app_assoc. reflexivity.
Qed.

Lemma result_delimit : forall ifs r s l, ifs_rune ifs r = true ->
  result (delimit ifs r s) l = result s (classify ifs r :: l).
Proof.
  intros ifs r s l Hr. unfold result, delimit, classify, mode_of. rewrite Hr.
  destruct (cur s) as [|c cs] eqn:E; destruct (ifs_ws ifs r) eqn:Ew; destruct (wsd s) eqn:Ed;
    cbn [fields cur wsd]; rewrite ?E, ?Ed; simpl; rewrite ?map_app; simpl;
    rewrite <- ?app_assoc; reflexivity.
Qed.

Lemma cl_c_top : forall ifs r, ifs_rune ifs r = false -> classify ifs r = C r.
Proof. intros ifs r H. unfold classify. rewrite H. reflexivity. Qed.

Definition pend (s : st) (fs : option str) : st :=
  match fs with Some f => add_part s f | None => s end.

Lemma result_split_loop : forall ifs v fs s l,
  (forall f, fs = Some f -> f <> []) ->
  result (split_loop ifs v fs s) l = result (pend s fs) (map (classify ifs) v ++ l).
Proof.
  induction v as [|r v IH]; intros fs s l Hfs; cbn [split_loop map app].
  - destruct fs; reflexivity.
  - destruct (ifs_rune ifs r) eqn:Er.
    + rewrite IH by (intros; discriminate). cbn [pend].
      rewrite result_delimit by assumption. destruct fs; reflexivity.
    + rewrite IH.
      * rewrite (cl_c_top ifs r Er).
        change (C r :: map (classify ifs) v ++ l) with (map C [r] ++ (map (classify ifs) v ++ l)).
        destruct fs as [f|]; cbn [pend].
        -- apply result_extend.
        -- apply result_add_chars. discriminate.
      * intros f Hf. inversion Hf. destruct fs as [g|]; [destruct g|]; discriminate.
Qed.

Lemma result_split_add : forall ifs v s l,
  result (split_add ifs v s) l = result s (map (classify ifs) v ++ l).
Proof.
  intros. unfold split_add. rewrite result_split_loop by (intros; discriminate). reflexivity.
Qed.

(* flush followed by a quoted piece = the boundary between "$@" elements *)
Lemma result_flush_add : forall s e l,
  result (add_part (flush s) e) l = result s (BQ :: map C e ++ l).
Proof.
  intros s e l. unfold result. rewrite mode_add_part.
  unfold flush, mode_of. destruct (cur s) as [|c cs] eqn:E.
  - rewrite E. simpl. destruct (wsd s); simpl; rewrite sp_field_chars; reflexivity.
  - simpl. rewrite map_app. simpl. rewrite <- app_assoc. simpl.
    rewrite sp_field_chars. reflexivity.
Qed.

Lemma result_at_loop_rest : forall es s l,
  result (at_loop false es s) l = result s (at_syms es ++ l).
Proof.
  induction es as [|e es IH]; intros s l; simpl.
  - reflexivity.
  - rewrite IH. rewrite result_flush_add. rewrite <- app_assoc. reflexivity.
Qed.

Lemma result_ulist_loop : forall ifs es first s l, ifs <> [] ->
  result (ulist_loop ifs first es s) l = result s (ulist_syms ifs first es ++ l).
Proof.
  intros ifs es. induction es as [|e es IH]; intros first s l Hifs; simpl.
  - reflexivity.
  - rewrite IH by assumption. rewrite result_split_add.
    destruct first; simpl.
    + rewrite <- app_assoc. reflexivity.
    + destruct ifs as [|sep ifs']; [congruence|].
      rewrite result_delimit.
      * simpl. rewrite <- app_assoc. reflexivity.
      * unfold ifs_rune, mem. simpl. rewrite N.eqb_refl. reflexivity.
Qed.

(* ---- "..." with list expansions inside ------------------------------------------------- *)
Lemma result_item : forall d s l,
  result (match d with DVal v => add_part s v | DList es => at_loop true es s end) l
  = result s (item_syms d ++ l).
Proof.
  intros [v|es] s l.
  - apply result_add_quoted.
  - destruct es as [|e es]; simpl.
    + reflexivity.
    + rewrite result_at_loop_rest. rewrite result_add_quoted. rewrite <- app_assoc. reflexivity.
Qed.

Lemma result_dbl_loop : forall items s el ne l,
  result (fst (fst (dbl_loop items s el ne))) l = result s (flat_map item_syms items ++ l).
Proof.
  induction items as [|d items IH]; intros s el ne l; simpl.
  - reflexivity.
  - destruct d as [v|es]; rewrite IH; rewrite <- app_assoc.
    + apply (result_item (DVal v)).
    + apply (result_item (DList es)).
Qed.

Lemma dbl_loop_flags : forall items s el ne,
  snd (fst (dbl_loop items s el ne)) = el || existsb item_empty_list items /\
  snd (dbl_loop items s el ne) = ne || negb (forallb item_empty items).
Proof.
  induction items as [|d items IH]; intros s el ne; simpl.
  - rewrite !orb_false_r. split; reflexivity.
  - destruct d as [v|es].
    + destruct (IH (add_part s v) el (ne || str_nonempty v)) as [H1 H2]. rewrite H1, H2.
      destruct v; destruct ne; destruct el; simpl;
        destruct (existsb item_empty_list items); destruct (forallb item_empty items); split; reflexivity.
    + destruct (IH (at_loop true es s) (el || match es with [] => true | _ => false end)
                   (ne || match es with [] => false | _ => true end)) as [H1 H2]. rewrite H1, H2.
      destruct es; destruct ne; destruct el; simpl;
        destruct (existsb item_empty_list items); destruct (forallb item_empty items); split; reflexivity.
Qed.

(* when everything inside the quotes is empty, the loop only appends empty parts *)
Lemma dbl_loop_all_empty : forall items s el ne, forallb item_empty items = true ->
  let s' := fst (fst (dbl_loop items s el ne)) in
  fields s' = fields s /\ wsd s' = wsd s /\
  exists X, cur s' = cur s ++ X /\
            length X = length (filter (fun d => negb (item_empty_list d)) items).
Proof.
  induction items as [|d items IH]; intros s el ne H; simpl.
  - split; [reflexivity|]. split; [reflexivity|]. exists []. rewrite app_nil_r. split; reflexivity.
  - simpl in H. apply andb_prop in H. destruct H as [Hd Hi].
    destruct d as [v|es].
    + destruct v; [|discriminate].
      destruct (IH (add_part s []) el (ne || str_nonempty []) Hi) as (H1 & H2 & X & H3 & H4).
      split; [exact H1|]. split; [exact H2|]. exists ([] :: X). simpl in *.
      rewrite H3, <- app_assoc. split; [reflexivity|]. rewrite H4. reflexivity.
    + destruct es; [|discriminate]. simpl.
      destruct (IH s (el || true) (ne || false) Hi) as (H1 & H2 & X & H3 & H4).
      split; [exact H1|]. split; [exact H2|]. exists X. split; assumption.
Qed.

Lemma firstn_len_app : forall {A} (a b : list A), firstn (length a) (a ++ b) = a.
Proof. induction a; simpl; intros; [reflexivity|]. rewrite IHa. reflexivity. Qed.

Lemma result_dbl_mix : forall items s l,
  result (dbl_mix items s) l = result s (part_syms [] (PDblMix items) ++ l).
Proof.
  intros items s l. unfold dbl_mix. cbn [part_syms].
  pose proof (result_dbl_loop items s false false) as Hres.
  destruct (dbl_loop_flags items s false false) as [Hel Hne]. simpl in Hel, Hne.
  destruct (dbl_loop items s false false) as [[s' el] ne] eqn:E. simpl in *.
  unfold dbl_vanishes. subst el ne.
  destruct (forallb item_empty items) eqn:Eall; simpl.
  - pose proof (dbl_loop_all_empty items s false false Eall) as Hs. rewrite E in Hs. simpl in Hs.
    destruct Hs as (H1 & H2 & X & H3 & H4).
    destruct (existsb item_empty_list items) eqn:Eex; simpl.
    + rewrite H1, H2, H3, firstn_len_app. destruct s. reflexivity.
    + rewrite H3, app_length.
      destruct items as [|d items].
      * simpl in H4. destruct X; [|discriminate]. simpl. rewrite Nat.add_0_r, Nat.eqb_refl.
        rewrite (result_add_quoted s' [] l). cbn [map app]. rewrite (Hres (Q :: l)). reflexivity.
      * assert (Hpos : (0 < length X)%nat).
        { rewrite H4. simpl in Eex. apply orb_false_elim in Eex. destruct Eex as [Ed _].
          simpl. rewrite Ed. simpl. lia. }
        destruct (Nat.eqb (length (cur s) + length X) (length (cur s))) eqn:En.
        -- apply Nat.eqb_eq in En. lia.
        -- apply Hres.
  - rewrite andb_false_r. destruct items as [|d items]; [discriminate|]. apply Hres.
Qed.

(* scope of one part *)
Definition part_ok (ifs : str) (p : part) : bool :=
  match p with
  | PLit [] => false
  | PUList _ => match ifs with [] => false | _ => true end
  | _ => true
  end.

Lemma result_do_part : forall ifs i0 p s l, part_ok ifs p = true ->
  result (do_part ifs i0 p s) l = result s (part_syms ifs p ++ l).
Proof.
  intros ifs i0 p s l Hok. destruct p as [v|v|vs|v|es|es|es|items]; simpl.
  - destruct v as [|r v]; [discriminate|].
    destruct i0.
    + rewrite (result_add_chars (add_part s []) (r :: v) l) by discriminate.
      rewrite (result_add_quoted s [] _). cbn [map app].
      unfold result; f_equal;
        try (unfold mode_of; destruct (cur s); [destruct (wsd s)|]; reflexivity).
    + apply (result_add_chars s (r :: v) l); discriminate.
  - apply result_add_quoted.
  - destruct vs as [|v vs].
    + apply (result_add_quoted s [] l).
    + (* cur ++ vs has the same concatenation as one part concat vs *)
      rewrite <- (result_add_quoted s (concat (v :: vs)) l).
      unfold result, add_part, mode_of. simpl.
      destruct (cur s) as [|c cs] eqn:E; simpl.
      * rewrite app_nil_r. reflexivity.
      * rewrite !concat_app. simpl. rewrite app_nil_r. reflexivity.
  - apply result_split_add.
  - destruct es as [|e es]; simpl.
    + reflexivity.
    + rewrite result_at_loop_rest. rewrite result_add_quoted. rewrite <- app_assoc. reflexivity.
  - apply result_add_quoted.
  - apply result_ulist_loop. destruct ifs; [discriminate|discriminate].
  - apply result_dbl_mix.
Qed.

Lemma result_parts_loop : forall ifs ps i0 s l, forallb (part_ok ifs) ps = true ->
  result (parts_loop ifs i0 ps s) l = result s (flatten ifs ps ++ l).
Proof.
  intros ifs ps. induction ps as [|p ps IH]; intros i0 s l Hok; simpl.
  - reflexivity.
  - simpl in Hok. apply andb_prop in Hok. destruct Hok as [Hp Hps].
    rewrite IH by assumption. rewrite result_do_part by assumption.
    rewrite <- app_assoc. reflexivity.
Qed.

Lemma result_final : forall s, map (@concat N) (fields (flush s)) = result s [].
Proof.
  intros s. unfold result, flush, mode_of. destruct (cur s) as [|c cs] eqn:E;
    cbn [fields cur]; rewrite ?E; [destruct (wsd s)|]; simpl;
    rewrite ?app_nil_r, ?map_app; reflexivity.
Qed.

(* the main theorem: the Go algorithm computes POSIX field splitting *)
Definition word_ok (oifs : option str) (ps : list part) : bool := forallb (part_ok (cfg_ifs oifs)) ps.

Theorem word_fields_spec : forall oifs ps, word_ok oifs ps = true ->
  word_fields oifs ps = spec_fields oifs ps.
Proof.
  intros oifs ps Hok. unfold word_fields, spec_fields. rewrite result_final.
  rewrite result_parts_loop by exact Hok. rewrite app_nil_r. reflexivity.
Qed.

(* outside the scope: an empty unquoted literal is a field of its own in the Go code *)
Lemma empty_literal_refuted : exists oifs ps, word_fields oifs ps <> spec_fields oifs ps.
Proof. exists None, [PLit []]. vm_compute. discriminate. Qed.

(* ---- quote removal -------------------------------------------------------------- *)
Lemma sp_field_nosplit : forall ifs ps f, forallb no_split_part ps = true ->
  sp_field f (flatten ifs ps) = [f ++ concat (map (part_text ifs) ps)].
Proof.
  intros ifs ps. induction ps as [|p ps IH]; intros f H; simpl.
  - rewrite app_nil_r. reflexivity.
  - simpl in H. apply andb_prop in H. destruct H as [Hp Hps].
    destruct p; try discriminate; simpl;
      rewrite ?sp_field_chars, IH by assumption; rewrite <- ?app_assoc; reflexivity.
Qed.

Theorem quote_removal : forall oifs ps,
  ps <> [] -> word_ok oifs ps = true -> forallb no_split_part ps = true ->
  word_fields oifs ps = [concat (map (part_text (cfg_ifs oifs)) ps)].
Proof.
  intros oifs ps Hne Hok Hns. rewrite word_fields_spec by assumption.
  unfold spec_fields. destruct ps as [|p ps]; [congruence|].
  simpl in Hns. apply andb_prop in Hns. destruct Hns as [Hp Hps].
  simpl in Hok. unfold word_ok in Hok. simpl in Hok. apply andb_prop in Hok. destruct Hok as [Hokp _].
  simpl. destruct p as [v|v|vs|v|es|es|es|items]; try discriminate; simpl.
  - destruct v as [|r v]; [discriminate|]. simpl.
    rewrite sp_field_chars, sp_field_nosplit by assumption. reflexivity.
  - rewrite sp_field_chars, sp_field_nosplit by assumption. reflexivity.
  - rewrite sp_field_chars, sp_field_nosplit by assumption. reflexivity.
  - rewrite sp_field_chars, sp_field_nosplit by assumption. reflexivity.
Qed.

(* ---- "$@" and "$*" ---------------------------------------------------------------- *)
Lemma sp_field_at_syms : forall es f, sp_field f (at_syms es) = f :: es.
Proof.
  induction es as [|e es IH]; intros f; simpl.
  - reflexivity.
  - rewrite sp_field_chars. rewrite IH. reflexivity.
Qed.

(* "$@" alone: one field per positional parameter, empty ones kept, none if there are none *)
Theorem quoted_at_fields : forall oifs es, word_fields oifs [PAt es] = es.
Proof.
  intros. rewrite word_fields_spec by reflexivity. unfold spec_fields. simpl.
  destruct es as [|e es]; simpl.
  - reflexivity.
  - rewrite app_nil_r. rewrite sp_field_chars. simpl. apply sp_field_at_syms.
Qed.

(* pre"$@"post: the first parameter joins pre, the last joins post *)
Theorem quoted_at_affixes : forall oifs pre post e es last,
  pre <> [] -> post <> [] ->
  word_fields oifs [PLit pre; PAt (e :: es ++ [last]); PLit post] = (pre ++ e) :: es ++ [last ++ post].
Proof.
  intros oifs pre post e es last Hpre Hpost.
  rewrite word_fields_spec.
  2:{ unfold word_ok. simpl. destruct pre; [congruence|]. destruct post; [congruence|]. reflexivity. }
  unfold spec_fields. simpl. rewrite app_nil_r.
  destruct pre as [|r pre]; [congruence|]. simpl.
  rewrite sp_field_chars. simpl. rewrite <- app_assoc. rewrite sp_field_chars.
  assert (H: forall l f, sp_field f (at_syms (l ++ [last]) ++ map C post) = f :: l ++ [last ++ post]).
  { induction l as [|x l IH]; intros f; simpl; rewrite <- ?app_assoc; simpl.
    - rewrite sp_field_chars. simpl. rewrite sp_field_chars_nil. reflexivity.
    - rewrite sp_field_chars. simpl. rewrite IH. reflexivity. }
  rewrite H. reflexivity.
Qed.

Theorem quoted_at_siblings : forall oifs a b e es last,
  word_fields oifs [PDblMix [DVal a; DList (e :: es ++ [last]); DVal b]] = (a ++ e) :: es ++ [last ++ b].
Proof.
  intros oifs a b e es last.
  rewrite word_fields_spec by reflexivity.
  unfold spec_fields. cbn [flatten flat_map part_syms]. rewrite app_nil_r.
  replace (dbl_vanishes [DVal a; DList (e :: es ++ [last]); DVal b]) with false
    by (unfold dbl_vanishes; simpl; reflexivity).
  cbn [item_syms app sp_start]. rewrite sp_field_chars. cbn [app sp_field].
  rewrite <- app_assoc. rewrite sp_field_chars.
  assert (H: forall l f, sp_field f (at_syms (l ++ [last]) ++ Q :: map C b ++ []) = f :: l ++ [last ++ b]).
  { induction l as [|x l IH]; intros f; simpl; rewrite <- ?app_assoc; simpl.
    - rewrite sp_field_chars. simpl. rewrite app_nil_r. rewrite sp_field_chars_nil. reflexivity.
    - rewrite sp_field_chars. simpl. rewrite IH. reflexivity. }
  rewrite H. reflexivity.
Qed.

(* "$*": one field, the parameters joined by the first character of IFS
   (a space if IFS is unset, nothing if IFS is empty) *)
Theorem quoted_star_field : forall oifs es,
  word_fields oifs [PStar es] = [join (ifs_sep (cfg_ifs oifs)) es].
Proof.
  intros. rewrite word_fields_spec by reflexivity. unfold spec_fields. simpl.
  rewrite app_nil_r. rewrite sp_field_chars_nil. reflexivity.
Qed.

(* IFS empty: an unquoted expansion is not split (and vanishes if empty) *)
Theorem empty_ifs_no_split : forall v,
  word_fields (Some []) [PExp v] = match v with [] => [] | _ => [v] end.
Proof.
  intros. rewrite word_fields_spec by reflexivity. unfold spec_fields. simpl. rewrite app_nil_r.
  destruct v as [|r v]; simpl.
  - reflexivity.
  - unfold classify at 1. simpl.
    replace (map (classify []) v) with (map C v) by (apply map_ext; reflexivity).
    rewrite sp_field_chars_nil. reflexivity.
Qed.

(* ---- the text-book splitter for one unquoted value --------------------------------- *)
Section Posix.
Variable ifs : str.
Notation cl := (classify ifs).

Lemma ws_is_ifs : forall r, ifs_ws ifs r = true -> ifs_rune ifs r = true.
Proof. unfold ifs_ws. intros r H. apply andb_prop in H. tauto. Qed.

Lemma cl_ws : forall r, ifs_ws ifs r = true -> cl r = W.
Proof. intros r H. unfold classify. rewrite (ws_is_ifs r H), H. reflexivity. Qed.

Lemma cl_d : forall r, ifs_rune ifs r = true -> ifs_ws ifs r = false -> cl r = D.
Proof. intros r H1 H2. unfold classify. rewrite H1, H2. reflexivity. Qed.

Lemma cl_c : forall r, ifs_rune ifs r = false -> cl r = C r.
Proof. intros r H. unfold classify. rewrite H. reflexivity. Qed.

Lemma sp_start_drop_ws : forall v, sp_start (map cl (drop_ws ifs v)) = sp_start (map cl v).
Proof.
  induction v as [|r v IH]; simpl; [reflexivity|].
  destruct (ifs_ws ifs r) eqn:E.
  - rewrite (cl_ws r E). simpl. exact IH.
  - reflexivity.
Qed.

Lemma sp_afterws_drop_ws : forall v, sp_afterws (map cl (drop_ws ifs v)) = sp_afterws (map cl v).
Proof.
  induction v as [|r v IH]; simpl; [reflexivity|].
  destruct (ifs_ws ifs r) eqn:E.
  - rewrite (cl_ws r E). simpl. exact IH.
  - reflexivity.
Qed.

Lemma drop_ws_len : forall v, (length (drop_ws ifs v) <= length v)%nat.
Proof.
  induction v as [|r v IH]; simpl; [lia|]. destruct (ifs_ws ifs r); simpl; lia.
Qed.

Lemma drop_ws_head : forall v r v', drop_ws ifs v = r :: v' -> ifs_ws ifs r = false.
Proof.
  induction v as [|x v IH]; simpl; intros r v' H; [discriminate|].
  destruct (ifs_ws ifs x) eqn:E.
  - eapply IH; eassumption.
  - inversion H; subst. exact E.
Qed.

Lemma take_field_spec : forall v g f rest, take_field ifs v = (f, rest) ->
  sp_field g (map cl v) = sp_field (g ++ f) (map cl rest)
  /\ (length rest <= length v)%nat
  /\ (forall r rest', rest = r :: rest' -> ifs_rune ifs r = true).
Proof.
  induction v as [|x v IH]; simpl; intros g f rest H.
  - inversion H; subst. rewrite app_nil_r.
    split; [reflexivity|split; [simpl; lia|intros ? ? Hx; discriminate Hx]].
  - destruct (ifs_rune ifs x) eqn:E.
    + inversion H; subst. rewrite app_nil_r.
      split; [reflexivity|split; [simpl; lia|]].
      intros r rest' Hr. inversion Hr; subst. exact E.
    + destruct (take_field ifs v) as [f' rest'] eqn:Et. inversion H; subst.
      destruct (IH (g ++ [x]) f' rest eq_refl) as (H1 & H2 & H3).
      rewrite (cl_c x E). simpl. rewrite H1. rewrite <- app_assoc. simpl.
      split; [reflexivity|split; [simpl in *; lia|exact H3]].
Qed.

Lemma skip_delim_spec : forall r v', ifs_rune ifs r = true ->
  (if ifs_ws ifs r then sp_afterws (map cl v') else sp_start (map cl v'))
    = sp_start (map cl (skip_delim ifs (r :: v')))
  /\ (length (skip_delim ifs (r :: v')) <= length v')%nat.
Proof.
  intros r v' Hr. simpl. destruct (ifs_ws ifs r) eqn:Ew.
  - rewrite <- sp_afterws_drop_ws.
    pose proof (drop_ws_len v') as Hlen.
    destruct (drop_ws ifs v') as [|r2 v2] eqn:Ed.
    + simpl. split; [reflexivity|lia].
    + pose proof (drop_ws_head _ _ _ Ed) as Hnw.
      destruct (ifs_rune ifs r2) eqn:E2.
      * simpl. rewrite (cl_d r2 E2 Hnw). simpl. rewrite sp_start_drop_ws.
        split; [reflexivity|]. pose proof (drop_ws_len v2). simpl in Hlen. lia.
      * simpl. rewrite (cl_c r2 E2). simpl. split; [reflexivity|exact Hlen].
  - rewrite sp_start_drop_ws. split; [reflexivity|apply drop_ws_len].
Qed.

Lemma sp_start_field_nil : forall v r v', v = r :: v' -> ifs_ws ifs r = false ->
  sp_start (map cl v) = sp_field [] (map cl v).
Proof.
  intros v r v' -> Hnw. simpl. unfold classify. destruct (ifs_rune ifs r) eqn:E.
  - rewrite Hnw. reflexivity.
  - reflexivity.
Qed.

Lemma posix_loop_spec : forall fuel v,
  (length v < fuel)%nat ->
  (forall r v', v = r :: v' -> ifs_ws ifs r = false) ->
  posix_loop fuel ifs v = sp_start (map cl v).
Proof.
  induction fuel as [|fuel IH]; intros v Hlen Hhead; [lia|].
  destruct v as [|x v]; [reflexivity|].
  pose proof (Hhead x v eq_refl) as Hx.
  rewrite (sp_start_field_nil (x :: v) x v eq_refl Hx).
  cbn [posix_loop].
  destruct (take_field ifs (x :: v)) as [f rest] eqn:Et.
  destruct (take_field_spec (x :: v) [] f rest Et) as (H1 & H2 & H3).
  rewrite H1. simpl app.
  destruct rest as [|r rest'].
  - reflexivity.
  - pose proof (H3 r rest' eq_refl) as Hr.
    destruct (skip_delim_spec r rest' Hr) as (Hs & Hl).
    rewrite IH.
    + rewrite <- Hs. cbn [map].
      destruct (ifs_ws ifs r) eqn:Ew; [rewrite (cl_ws r Ew)|rewrite (cl_d r Hr Ew)]; reflexivity.
    + simpl in H2, Hlen. lia.
    + (* the head of what follows a delimiter is not IFS white space *)
      intros r0 v0 Hv0. simpl in Hv0. destruct (ifs_ws ifs r) eqn:Ew.
      * destruct (drop_ws ifs rest') as [|r2 v2] eqn:Ed; [discriminate|].
        destruct (ifs_rune ifs r2) eqn:E2.
        -- eapply drop_ws_head; eassumption.
        -- inversion Hv0; subst. eapply drop_ws_head; eassumption.
      * eapply drop_ws_head; eassumption.
Qed.

Lemma posix_split_spec : forall v, posix_split ifs v = sp_start (map cl v).
Proof.
  intros v. unfold posix_split. rewrite posix_loop_spec.
  - apply sp_start_drop_ws.
  - pose proof (drop_ws_len v). lia.
  - intros r v' H. eapply drop_ws_head; eassumption.
Qed.
End Posix.

(* one unquoted expansion splits exactly like the text-book POSIX splitter *)
Theorem split_matches : forall oifs v,
  word_fields oifs [PExp v] = posix_split (cfg_ifs oifs) v.
Proof.
  intros. rewrite word_fields_spec by reflexivity. unfold spec_fields. simpl.
  rewrite app_nil_r. symmetry. apply posix_split_spec.
Qed.

(* ---- IFS empty: nothing is ever split, wsDelim is never set ------------------------------- *)
Lemma wsd_split_loop_nil : forall v fs s, wsd (split_loop [] v fs s) = wsd s.
Proof.
  induction v as [|r v IH]; intros fs s; simpl.
  - destruct fs; reflexivity.
  - apply IH.
Qed.

Lemma wsd_flush : forall s, wsd (flush s) = wsd s.
Proof. intros s. unfold flush. destruct (cur s); reflexivity. Qed.

Lemma wsd_at_loop : forall es first s, wsd (at_loop first es s) = wsd s.
Proof.
  induction es as [|e es IH]; intros first s; simpl; [reflexivity|].
  rewrite IH. destruct first; simpl; [reflexivity|apply wsd_flush].
Qed.

Lemma wsd_ulist_loop_nil : forall es first s, wsd (ulist_loop [] first es s) = wsd s.
Proof.
  induction es as [|e es IH]; intros first s; simpl; [reflexivity|].
  rewrite IH. unfold split_add. rewrite wsd_split_loop_nil.
  destruct first; [reflexivity|apply wsd_flush].
Qed.

Lemma wsd_dbl_loop : forall items s el ne, wsd (fst (fst (dbl_loop items s el ne))) = wsd s.
Proof.
  induction items as [|d items IH]; intros s el ne; simpl; [reflexivity|].
  destruct d as [v|es]; rewrite IH; [reflexivity|apply wsd_at_loop].
Qed.

Lemma wsd_dbl_mix : forall items s, wsd (dbl_mix items s) = wsd s.
Proof.
  intros items s. unfold dbl_mix. pose proof (wsd_dbl_loop items s false false) as H.
  destruct (dbl_loop items s false false) as [[s' el] ne]. simpl in H.
  destruct ne; [exact H|]. destruct el; [exact H|].
  destruct (Nat.eqb (length (cur s')) (length (cur s))); exact H.
Qed.

Lemma wsd_do_part_nil : forall i0 p s, wsd (do_part [] i0 p s) = wsd s.
Proof.
  intros i0 p s. destruct p as [v|v|vs|v|es|es|es|items]; simpl.
  - destruct i0; reflexivity.
  - reflexivity.
  - destruct vs; reflexivity.
  - apply wsd_split_loop_nil.
  - apply wsd_at_loop.
  - reflexivity.
  - apply wsd_ulist_loop_nil.
  - apply wsd_dbl_mix.
Qed.

Lemma result_flush_bk : forall s l, wsd s = false -> result (flush s) l = result s (Bk :: l).
Proof.
  intros s l Hw. unfold result, flush, mode_of.
  destruct (cur s) as [|c cs] eqn:E; cbn [fields cur wsd]; rewrite ?E, ?Hw; simpl.
  - reflexivity.
  - rewrite map_app. simpl. rewrite <- app_assoc. reflexivity.
Qed.

Lemma result_ulist_loop_nil : forall es first s l, wsd s = false ->
  result (ulist_loop [] first es s) l = result s (ulist_syms [] first es ++ l).
Proof.
  induction es as [|e es IH]; intros first s l Hw; simpl; [reflexivity|].
  rewrite IH.
  - rewrite result_split_add. destruct first; simpl.
    + rewrite <- app_assoc. reflexivity.
    + rewrite result_flush_bk by exact Hw. simpl. rewrite <- app_assoc. reflexivity.
  - unfold split_add. rewrite wsd_split_loop_nil. destruct first; [exact Hw|]. rewrite wsd_flush. exact Hw.
Qed.

Lemma result_do_part_nil : forall i0 p s l, lit_nonempty p = true -> wsd s = false ->
  result (do_part [] i0 p s) l = result s (part_syms [] p ++ l).
Proof.
  intros i0 p s l Hok Hw. destruct p as [v|v|vs|v|es|es|es|items];
    try (apply result_do_part; destruct v; [discriminate|reflexivity]);
    try (apply result_do_part; reflexivity).
  simpl. apply result_ulist_loop_nil. exact Hw.
Qed.

Lemma result_parts_loop_nil : forall ps i0 s l, forallb lit_nonempty ps = true -> wsd s = false ->
  result (parts_loop [] i0 ps s) l = result s (flatten [] ps ++ l).
Proof.
  induction ps as [|p ps IH]; intros i0 s l Hok Hw; simpl.
  - reflexivity.
  - simpl in Hok. apply andb_prop in Hok. destruct Hok as [Hp Hps].
    rewrite IH; [|exact Hps|rewrite wsd_do_part_nil; exact Hw].
    rewrite result_do_part_nil by assumption. rewrite <- app_assoc. reflexivity.
Qed.

Lemma part_ok_nonempty_ifs : forall ifs p, ifs <> [] -> lit_nonempty p = true -> part_ok ifs p = true.
Proof.
  intros ifs p Hifs Hp. destruct p as [v|v|vs|v|es|es|es|items]; try reflexivity.
  - destruct v; [discriminate|reflexivity].
  - simpl. destruct ifs; [congruence|reflexivity].
Qed.

(* the main theorem on the full scope: only empty unquoted literals are excluded *)
Theorem word_fields_spec_full : forall oifs ps, in_scope ps = true ->
  word_fields oifs ps = spec_fields oifs ps.
Proof.
  intros oifs ps Hok. destruct (cfg_ifs oifs) as [|r ifs'] eqn:Eifs.
  - unfold word_fields, spec_fields. rewrite Eifs. rewrite result_final.
    rewrite result_parts_loop_nil by (try exact Hok; reflexivity). rewrite app_nil_r. reflexivity.
  - apply word_fields_spec. unfold word_ok. rewrite Eifs.
    unfold in_scope in Hok. rewrite forallb_forall in *. intros p Hp.
    apply part_ok_nonempty_ifs; [discriminate|apply Hok; exact Hp].
Qed.

(* ---- one Config, many calls: no call depends on what an earlier one left in cfg.ifs ----------- *)
Theorem fields_seq_independent : forall calls prev,
  fields_seq prev calls = map (fun c => word_fields (fst c) (snd c)) calls.
Proof.
  induction calls as [|[oifs ps] calls IH]; intros prev; simpl.
  - reflexivity.
  - rewrite IH. reflexivity.
Qed.
