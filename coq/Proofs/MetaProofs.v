(* Proofs/MetaProofs.v — QuoteMeta / HasMeta laws on the C17 model. *)
From Verif Require Import Base.Str Pattern.Regex Pattern.Translate Pattern.GlobSpec Pattern.Fragment
  Proofs.RegexProofs Proofs.TranslateProofs.
From Coq Require Import ZifyN ZifyNat ZifyBool.
Open Scope N_scope.

Definition no_nul (s : list N) : Prop := Forall (fun c => c <> 0) s.

Lemma special_cases : forall c, is_glob_special c = true ->
  c = cSTAR \/ c = cQUEST \/ c = cLBRK \/ c = cBSL.
Proof.
  intros c H. unfold is_glob_special in H. repeat rewrite orb_true_iff in H. repeat rewrite N.eqb_eq in H. tauto.
Qed.
Lemma nonspecial_cases : forall c, is_glob_special c = false ->
  (c =? cSTAR) = false /\ (c =? cQUEST) = false /\ (c =? cLBRK) = false /\ (c =? cBSL) = false.
Proof.
  intros c H. unfold is_glob_special in H. repeat rewrite orb_false_iff in H. tauto.
Qed.

Lemma quote_meta_cons : forall c s,
  quote_meta_glob (c :: s) = (if is_glob_special c then [cBSL; c] else [c]) ++ quote_meta_glob s.
Proof. reflexivity. Qed.

Lemma quote_meta_flat : forall s, no_nul s -> flat (quote_meta_glob s) = true.
Proof.
  induction s as [|c s IH]; intros H; [reflexivity|].
  inversion H as [|? ? Hc Hs]; subst. rewrite quote_meta_cons.
  destruct (is_glob_special c) eqn:E.
  - cbn. assert (c =? 0 = false) by (apply N.eqb_neq; auto). rewrite H0. cbn. auto.
  - apply nonspecial_cases in E as (E1 & E2 & E3 & E4). cbn [app flat].
    assert (c =? 0 = false) by (apply N.eqb_neq; auto). rewrite H0, E3, E4. auto.
Qed.

Lemma quote_meta_lang : forall s t, gflat (quote_meta_glob s) t <-> t = s.
Proof.
  induction s as [|c s IH]; intros t.
  - simpl. tauto.
  - rewrite quote_meta_cons. destruct (is_glob_special c) eqn:E.
    + cbn [app gflat]. change (cBSL =? cSTAR) with false. change (cBSL =? cQUEST) with false.
      change (cBSL =? cBSL) with true. cbn iota. split.
      * intros (s' & -> & H). apply IH in H. subst. reflexivity.
      * intros ->. exists s. split; auto. apply IH. reflexivity.
    + apply nonspecial_cases in E as (E1 & E2 & E3 & E4). cbn [app gflat]. rewrite E1, E2, E4. split.
      * intros (s' & -> & H). apply IH in H. subst. reflexivity.
      * intros ->. exists s. split; auto. apply IH. reflexivity.
Qed.

Theorem quotemeta_matches_only_self : forall wc s t, no_nul s ->
  (glob_spec wc f_plain (quote_meta_glob s) t = true <-> t = s).
Proof.
  intros wc s t H. rewrite glob_spec_flat by (apply quote_meta_flat; auto). apply quote_meta_lang.
Qed.

Lemma quote_meta_no_meta_aux : forall s, has_meta_aux (quote_meta_glob s) false false = false.
Proof.
  induction s as [|c s IH]; [reflexivity|].
  rewrite quote_meta_cons. destruct (is_glob_special c) eqn:E.
  - cbn [app has_meta_aux]. change (cBSL =? cBSL) with true. cbn iota. exact IH.
  - apply nonspecial_cases in E as (E1 & E2 & E3 & E4). cbn [app has_meta_aux].
    rewrite E4, E1, E2, E3. cbn [orb]. destruct (c =? cRBRK); exact IH.
Qed.

Theorem quotemeta_no_meta : forall s, has_meta (quote_meta_glob s) = false.
Proof. exact quote_meta_no_meta_aux. Qed.

(* with extended operators the quoted text is still a pattern: expected refutation *)
Lemma quotemeta_ext_refuted :
  exists s t, t <> s /\ has_meta (quote_meta_glob s) = false /\
              glob_spec no_wide f_extglob (quote_meta_glob s) t = true.
Proof.
  exists [64; 40; 97; 41], [97]. split; [discriminate|]. split; vm_compute; reflexivity.
Qed.

Lemma hasmeta_flat_single_aux : forall n p, (length p <= n)%nat -> forall o t,
  flat p = true -> has_meta_aux p false o = false -> gflat p t -> t = unescape p.
Proof.
  induction n as [|n IH]; intros p Hn o t Hf Hm Hg.
  - destruct p; [|simpl in Hn; lia]. simpl in Hg. subst. reflexivity.
  - destruct p as [|c p']; [simpl in Hg; subst; reflexivity|].
    simpl in Hn. simpl in Hf. cbn [has_meta_aux] in Hm. cbn [gflat] in Hg. cbn [unescape].
    destruct (c =? 0) eqn:E0; [discriminate|]. destruct (c =? cLBRK) eqn:EL; [discriminate|].
    destruct (c =? cBSL) eqn:EB.
    + destruct p' as [|e p'']; [discriminate|]. apply andb_true_iff in Hf as [_ Hf'].
      assert (ES : c =? cSTAR = false) by (apply N.eqb_eq in EB; apply N.eqb_neq; unfold cSTAR, cBSL in *; lia).
      assert (EQ : c =? cQUEST = false) by (apply N.eqb_eq in EB; apply N.eqb_neq; unfold cQUEST, cBSL in *; lia).
      rewrite ES, EQ in Hg. cbn [has_meta_aux] in Hm. destruct Hg as (s' & -> & Hg). simpl in Hn.
      f_equal. eapply IH; eauto. lia.
    + destruct (c =? cSTAR) eqn:ES; [discriminate|]. destruct (c =? cQUEST) eqn:EQ; [discriminate|].
      cbn [orb] in Hm. destruct Hg as (s' & -> & Hg). f_equal.
      destruct (c =? cRBRK).
      * destruct o; [discriminate|]. eapply IH; eauto. lia.
      * eapply IH; eauto. lia.
Qed.

Theorem hasmeta_false_single_flat : forall wc p t, flat p = true -> has_meta p = false ->
  glob_spec wc f_plain p t = true -> t = unescape p.
Proof.
  intros wc p t Hf Hm Hg. apply glob_spec_flat in Hg; auto.
  eapply (hasmeta_flat_single_aux (length p)); eauto.
Qed.

(* HasMeta ignores the extended operators: with them a HasMeta-false pattern can match two strings *)
Lemma hasmeta_ext_refuted :
  exists p t1 t2, t1 <> t2 /\ has_meta p = false /\
     glob_spec no_wide f_extglob p t1 = true /\ glob_spec no_wide f_extglob p t2 = true.
Proof.
  exists [64; 40; 97; 124; 98; 41], [97], [98]. split; [discriminate|]. repeat split; vm_compute; reflexivity.
Qed.
