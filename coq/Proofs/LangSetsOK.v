(* Lemmas about the GENERATED gate table (Gen/LangSets.v): finite, closed by vm_compute, re-checked on every run. *)
From Coq Require Import List Arith Bool String.
From Verif Require Import Syntax.LangGate Gen.LangSets.
Import ListNotations.

Lemma all_gated : all_gated_b gates = true.
Proof. vm_compute. reflexivity. Qed.

Lemma bash_subset_bats : bash_subset_bats_b gates = true.
Proof. vm_compute. reflexivity. Qed.

(* exactly one gate tells bats from bash, and it is the `@test` keyword test in gotStmtPipe *)
Lemma bats_extra_is_at_test :
  map g_set (bats_extra gates) = [[bats]] /\
  forallb (fun g => String.prefix "parser.go:gotStmtPipe" (g_site g)) (bats_extra gates) = true.
Proof. vm_compute. split; reflexivity. Qed.

Lemma posix_gate_table : posix_gate_b gates = true.
Proof. vm_compute. reflexivity. Qed.

(* the same facts in the form the generic theorem wants *)
Lemma gates_subset : subset_b (sets_of (const_gates gates)) = true.
Proof. vm_compute. reflexivity. Qed.

Lemma gates_extra_single : List.length (extra_idx (sets_of (const_gates gates))) = 1.
Proof. vm_compute. reflexivity. Qed.

(* non-vacuity: the table is not empty and does contain gates with bash *)
Lemma gates_nontrivial : 80 <= List.length gates /\ 30 <= List.length (filter (fun g => mem bash (g_set g)) gates).
Proof. vm_compute. split; repeat constructor. Qed.
