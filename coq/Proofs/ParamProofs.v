(* Proofs/ParamProofs.v — proofs about Expand/Param.v against Expand/ParamSpec.v. *)
From Verif Require Import Base.Str Expand.Param Expand.ParamSpec Proofs.ParamMatchProofs.
From Coq Require Import ZifyN ZifyNat ZifyBool.
Open Scope N_scope.

Arguments N.add : simpl never.
Arguments N.div : simpl never.
Arguments N.modulo : simpl never.

(* ------------------------------------------------------------------ the parameter's value *)

Lemma indexed_val_elem_of : forall l ix i,
  (0 <= i)%Z -> indexed_val l ix i = Ok (elem_of l ix i).
Proof.
  intros l ix i Hi. unfold indexed_val, elem_of. destruct ix as [ixs|].
  - destruct (ix_pos ixs i); reflexivity.
  - destruct (Z.ltb_spec i 0); [lia | reflexivity].
Qed.

Lemma indexed_max_eq : forall l ix, indexed_max l ix = max_index l ix.
Proof. reflexivity. Qed.

Definition set_of (v : option str) : bool := negb (is_unset v).

Lemma opt_pair : forall o : option str,
  (opt_str o, match o with Some _ => true | None => false end) = (cur o, set_of o).
Proof. destruct o; reflexivity. Qed.

(* varInd computes the manual's notion of "the parameter's value" for every subscript
   other than @ and * *)
Lemma var_index_spec : forall e vr i v,
  is_list_idx i = false ->
  bash_value vr i = PVal v ->
  var_index e vr i = OOk (cur v, set_of v).
Proof.
  intros e vr i v Hl Hv.
  destruct vr as [|s|l ix|m]; destruct i as [| | |n|k]; simpl in Hl; try discriminate;
    simpl in Hv; try discriminate.
  - inversion Hv; reflexivity.
  - inversion Hv; reflexivity.
  - inversion Hv; reflexivity.
  - inversion Hv; reflexivity.
  - inversion Hv; subst. simpl. destruct (Z.eqb n 0); reflexivity.
  - inversion Hv; subst. simpl. rewrite indexed_val_elem_of by lia. now rewrite opt_pair.
  - simpl. fold (max_index l ix) in *.
    change (indexed_max l ix) with (max_index l ix).
    destruct (Z.ltb_spec n 0).
    + destruct (Z.ltb_spec (n + max_index l ix + 1) 0); [discriminate|].
      inversion Hv; subst. rewrite indexed_val_elem_of by lia.
      destruct (elem_of l ix (n + max_index l ix + 1)); reflexivity.
    + inversion Hv; subst. destruct (Z.ltb_spec n 0); [lia|].
      rewrite indexed_val_elem_of by lia. destruct (elem_of l ix n); reflexivity.
  - inversion Hv; subst. simpl. now rewrite opt_pair.
  - simpl. destruct (Z.ltb n 0); [discriminate|]. inversion Hv; subst. now rewrite opt_pair.
  - inversion Hv; subst. simpl. now rewrite opt_pair.
Qed.

Lemma eff_idx_plain : forall name i o,
  is_params_name name = false -> eff_idx (mkP name i o) = i.
Proof.
  intros name i o H. unfold eff_idx, is_params_name in *. simpl.
  destruct (str_eqb name AT); [discriminate|]. destruct (str_eqb name STAR); [discriminate|]. reflexivity.
Qed.

(* shape of param_exp on a non-list subject *)
Section WithFns.
  Variable upper lower : N -> N.
  Variable quote : str -> str.

  Lemma param_exp_scalar : forall e name i o v,
    is_params_name name = false ->
    is_list_idx i = false ->
    bash_value (env_get e name) i = PVal v ->
    param_exp upper lower quote e (mkP name i o) =
    (let sv := cur v in let set := set_of v in let vr := env_get e name in
     let elems := [sv] in
     let joinf := fun l : list str => join SP l in
     match o with
     | PNone => OOk (sv, None)
     | PLength => OOk (itoa (Z.of_nat (length sv)), None)
     | PExcl =>
         match i, vr with
         | INone, _ =>
             if negb (is_set vr) then OErr 2
             else match sv with [] => OOk ([], None)
                  | _ => OOk (joinf [var_string (env_get e sv)], None) end
         | _, VIdx l ix =>
             OOk (joinf (match ix with
                         | Some ixs => map itoa ixs
                         | None => map (fun i => itoa (Z.of_nat i)) (seq 0 (length l))
                         end), None)
         | _, VAssoc m => OOk (joinf (assoc_keys m), None)
         | _, _ =>
             if negb (is_set vr) then OErr 2
             else match sv with [] => OOk ([], None)
                  | _ => OOk (joinf [var_string (env_get e sv)], None) end
         end
     | PSlice off len =>
         let n := length sv in
         let in_range := match off with
                         | Some o => Z.leb o (Z.of_nat n) && Z.leb (- Z.of_nat n) o
                         | None => true
                         end in
         let rs := match off with Some o => skipn (slice_pos n o) sv | None => sv end in
         match len with
         | None => OOk (rs, None)
         | Some l =>
             if Z.ltb l 0 && Z.ltb (Z.of_nat (length rs) + l) 0 && set && in_range
             then OErr 4
             else OOk (firstn (slice_pos (length rs) l) rs, None)
         end
     | PRepl all orig w =>
         if negb set then OOk (sv, None)
         else obind (opt_out (replace_elems all orig w elems)) (fun el => OOk (joinf el, None))
     | PExp op w =>
         let arg := exp_arg op w in
         match op with
         | AltUnsetOrNull =>
             match sv with [] => OOk (sv, None) | _ => OOk (if set then arg else sv, None) end
         | AltUnset => OOk (if set then arg else sv, None)
         | DefUnset =>
             if set then OOk (sv, None)
             else OOk (match sv with [] => arg | _ => sv end, None)
         | DefUnsetOrNull => OOk (match sv with [] => arg | _ => sv end, None)
         | ErrUnset =>
             if set then OOk (sv, None)
             else match sv with [] => OErrUnset arg | _ => OOk (sv, None) end
         | ErrUnsetOrNull =>
             match sv with [] => OErrUnset arg | _ => OOk (sv, None) end
         | AsgUnset | AsgUnsetOrNull =>
             let skip := match op with AsgUnset => set | _ => false end in
             if skip then OOk (sv, None)
             else match sv with
                  | [] =>
                      match i, vr with
                      | INone, VUnset | INone, VStr _ =>
                          if is_params_name name then OOut
                          else OOk (arg, Some (name, VStr arg))
                      | _, _ => OOut
                      end
                  | _ => OOk (sv, None)
                  end
         | RemSP | RemLP | RemSS | RemLS | UpFirst | UpAll | LowFirst | LowAll =>
             if negb (pat_in_model arg) then OOut
             else obind (opt_out (rem_case_elems upper lower op arg elems)) (fun el => OOk (joinf el, None))
         | OtherOp =>
             match arg with
             | [81] => OOk (if set then quote sv else sv, None)
             | [85] => OOk (map upper sv, None)
             | [117] => OOk (match sv with [] => [] | c :: r => upper c :: r end, None)
             | [76] => OOk (map lower sv, None)
             | _ => OOut
             end
         end
     end).
  Proof.
    intros e name i o v Hn Hl Hv.
    unfold param_exp. rewrite (eff_idx_plain name i o Hn). cbn [p_name p_idx p_op].
    rewrite Hl. cbn iota beta.
    rewrite (var_index_spec e _ i v Hl Hv). cbn [obind].
    assert (Hs : is_star i = false) by (destruct i; simpl in *; congruence).
    rewrite Hs. reflexivity.
  Qed.
End WithFns.

(* ------------------------------------------------------------------ defaults, length, substring, transform, indirect *)

Definition is_default_op (op : expop) : bool :=
  match op with
  | AltUnset | AltUnsetOrNull | DefUnset | DefUnsetOrNull
  | ErrUnset | ErrUnsetOrNull | AsgUnset | AsgUnsetOrNull => true
  | _ => false
  end.

(* ${p=w} is covered for a plain scalar (or unset) variable without subscript *)
Definition assign_scope (op : expop) (i : idx) (vr : var) : bool :=
  match op with
  | AsgUnset | AsgUnsetOrNull =>
      match i, vr with INone, VUnset | INone, VStr _ => true | _, _ => false end
  | _ => true
  end.

Definition lift (o : outcome str) : outcome (str * option (str * var)) :=
  obind o (fun s => OOk (s, None)).

Section Theorems.
  Variable upper lower : N -> N.
  Variable quote : str -> str.
  Notation pexp_eval := (param_exp upper lower quote).

  Lemma defaults_correct : forall e name i op w v,
    is_params_name name = false ->
    is_list_idx i = false ->
    is_default_op op = true ->
    bash_value (env_get e name) i = PVal v ->
    assign_scope op i (env_get e name) = true ->
    pexp_eval e (mkP name i (PExp op w)) = bash_default op name v (literal_of w).
  Proof.
    intros e name i op w v Hn Hl Hop Hv Ha.
    rewrite (param_exp_scalar upper lower quote e name i _ v Hn Hl Hv). cbv zeta.
    destruct op; try discriminate Hop; unfold exp_arg; cbn [is_pat_op];
      destruct v as [[|c s]|]; cbn [cur set_of is_unset is_null negb bash_default]; try reflexivity;
      rewrite ?Hn;
      destruct i; try discriminate Ha; destruct (env_get e name); try discriminate Ha; reflexivity.
  Qed.

  Lemma length_correct : forall e name i v,
    is_params_name name = false ->
    is_list_idx i = false ->
    bash_value (env_get e name) i = PVal v ->
    pexp_eval e (mkP name i PLength) = OOk (bash_length v, None).
  Proof.
    intros. rewrite (param_exp_scalar upper lower quote e name i _ v) by assumption. reflexivity.
  Qed.

  Lemma firstn_min : forall (A : Type) (l : list A) n, (length l <= n)%nat -> firstn n l = l.
  Proof. intros. apply firstn_all2. assumption. Qed.

  Lemma skipn_nil_ge : forall (A : Type) (l : list A) n, (length l <= n)%nat -> skipn n l = [].
  Proof. intros. apply skipn_all2. assumption. Qed.

  Lemma substring_correct : forall e name i off len v,
    is_params_name name = false ->
    is_list_idx i = false ->
    bash_value (env_get e name) i = PVal v ->
    pexp_eval e (mkP name i (PSlice off len)) = lift (bash_substring v off len).
  Proof.
    intros e name i off len v Hn Hl Hv.
    rewrite (param_exp_scalar upper lower quote e name i _ v Hn Hl Hv). cbv zeta.
    destruct v as [s|]; cbn [cur set_of is_unset negb bash_substring]; cbv zeta.
    2:{ (* unset *)
        assert (Hr : (match off with Some o => skipn (slice_pos (@length N []) o) (@nil N) | None => [] end) = [])
          by (destruct off; [apply skipn_nil | reflexivity]).
        rewrite Hr. destruct len; cbn [lift obind]; [|reflexivity].
        rewrite !andb_false_r || idtac.
        replace (Z.ltb z 0 && Z.ltb (Z.of_nat (@length N []) + z) 0 && false &&
                 match off with Some o => Z.leb o (Z.of_nat (@length N [])) && Z.leb (- Z.of_nat (@length N [])) o | None => true end)
          with false by (rewrite andb_false_r; reflexivity).
        rewrite firstn_nil. reflexivity. }
    set (n := length s).
    destruct off as [o|].
    - (* offset given *)
      destruct (Z.ltb_spec o 0) as [Ho|Ho].
      + (* negative offset *)
        destruct (Z.ltb_spec (o + Z.of_nat n) 0) as [Ho1|Ho1].
        * (* before the start: nothing *)
          cbn [orb].
          assert (Hsp : slice_pos n o = n).
          { unfold slice_pos. destruct (Z.ltb_spec o 0); [|lia].
            destruct (Z.ltb_spec (Z.of_nat n + o) 0); [reflexivity|lia]. }
          rewrite Hsp. rewrite (skipn_nil_ge _ s n) by (unfold n; lia).
          destruct len as [l|]; cbn [lift obind]; [|reflexivity].
          replace (Z.leb (- Z.of_nat n) o) with false by (symmetry; apply Z.leb_gt; lia).
          rewrite !andb_false_r. rewrite firstn_nil. reflexivity.
        * assert (Hn2 : Z.ltb (Z.of_nat n) (o + Z.of_nat n) = false) by (apply Z.ltb_ge; lia).
          rewrite Hn2. cbn [orb].
          assert (Hsp : slice_pos n o = Z.to_nat (o + Z.of_nat n)).
          { unfold slice_pos. destruct (Z.ltb_spec o 0); [|lia].
            destruct (Z.ltb_spec (Z.of_nat n + o) 0); [lia|]. f_equal. lia. }
          rewrite Hsp.
          destruct len as [l|]; cbn [lift obind]; [|reflexivity].
          assert (Hlen : length (skipn (Z.to_nat (o + Z.of_nat n)) s) = (n - Z.to_nat (o + Z.of_nat n))%nat)
            by (rewrite skipn_length; reflexivity).
          rewrite Hlen.
          replace (Z.leb o (Z.of_nat n) && Z.leb (- Z.of_nat n) o) with true
            by (symmetry; apply andb_true_iff; split; apply Z.leb_le; lia).
          rewrite !andb_true_r.
          destruct (Z.ltb_spec l 0) as [Hl0|Hl0]; cbn [andb].
          -- destruct (Z.ltb_spec (Z.of_nat n + l) (o + Z.of_nat n)) as [He|He].
             ++ replace (Z.ltb (Z.of_nat (n - Z.to_nat (o + Z.of_nat n)) + l) 0) with true
                  by (symmetry; apply Z.ltb_lt; lia). reflexivity.
             ++ replace (Z.ltb (Z.of_nat (n - Z.to_nat (o + Z.of_nat n)) + l) 0) with false
                  by (symmetry; apply Z.ltb_ge; lia).
                cbn [lift obind]. do 3 f_equal.
                unfold slice_pos. destruct (Z.ltb_spec l 0); [|lia].
                destruct (Z.ltb_spec (Z.of_nat (n - Z.to_nat (o + Z.of_nat n)) + l) 0); [lia|]. lia.
          -- cbn [lift obind]. do 2 f_equal.
             unfold slice_pos. destruct (Z.ltb_spec l 0); [lia|].
             destruct (Z.ltb_spec (Z.of_nat (n - Z.to_nat (o + Z.of_nat n))) l).
             ++ rewrite !firstn_min; [reflexivity | rewrite Hlen; lia | rewrite Hlen; lia].
             ++ reflexivity.
      + (* non-negative offset *)
        assert (Hf : Z.ltb o 0 = false) by (apply Z.ltb_ge; lia).
        rewrite ?Hf. cbn [orb].
        destruct (Z.ltb_spec (Z.of_nat n) o) as [Hbig|Hbig].
        * assert (Hsp : slice_pos n o = n).
          { unfold slice_pos. destruct (Z.ltb_spec o 0); [lia|].
            destruct (Z.ltb_spec (Z.of_nat n) o); [reflexivity|lia]. }
          rewrite Hsp. rewrite (skipn_nil_ge _ s n) by (unfold n; lia).
          destruct len as [l|]; cbn [lift obind]; [|reflexivity].
          replace (Z.leb o (Z.of_nat n)) with false by (symmetry; apply Z.leb_gt; lia).
          cbn [andb]. rewrite !andb_false_r. rewrite firstn_nil. reflexivity.
        * assert (Hsp : slice_pos n o = Z.to_nat o).
          { unfold slice_pos. destruct (Z.ltb_spec o 0); [lia|].
            destruct (Z.ltb_spec (Z.of_nat n) o); [lia|reflexivity]. }
          rewrite Hsp.
          destruct len as [l|]; cbn [lift obind]; [|reflexivity].
          assert (Hlen : length (skipn (Z.to_nat o) s) = (n - Z.to_nat o)%nat)
            by (rewrite skipn_length; reflexivity).
          rewrite Hlen.
          replace (Z.leb o (Z.of_nat n) && Z.leb (- Z.of_nat n) o) with true
            by (symmetry; apply andb_true_iff; split; apply Z.leb_le; lia).
          rewrite !andb_true_r.
          destruct (Z.ltb_spec l 0) as [Hl0|Hl0]; cbn [andb].
          -- destruct (Z.ltb_spec (Z.of_nat n + l) o) as [He|He].
             ++ replace (Z.ltb (Z.of_nat (n - Z.to_nat o) + l) 0) with true
                  by (symmetry; apply Z.ltb_lt; lia). reflexivity.
             ++ replace (Z.ltb (Z.of_nat (n - Z.to_nat o) + l) 0) with false
                  by (symmetry; apply Z.ltb_ge; lia).
                cbn [lift obind]. do 3 f_equal.
                unfold slice_pos. destruct (Z.ltb_spec l 0); [|lia].
                destruct (Z.ltb_spec (Z.of_nat (n - Z.to_nat o) + l) 0); [lia|]. lia.
          -- cbn [lift obind]. do 2 f_equal.
             unfold slice_pos. destruct (Z.ltb_spec l 0); [lia|].
             destruct (Z.ltb_spec (Z.of_nat (n - Z.to_nat o)) l).
             ++ rewrite !firstn_min; [reflexivity | rewrite Hlen; lia | rewrite Hlen; lia].
             ++ reflexivity.
    - (* no offset: ${p::l} *)
      change (Z.ltb 0 0) with false. cbv iota. change (Z.ltb 0 0) with false.
      replace (Z.ltb (Z.of_nat n) 0) with false by (symmetry; apply Z.ltb_ge; lia).
      cbn [orb]. change (Z.to_nat 0) with O. cbn [skipn].
      destruct len as [l|]; cbn [lift obind]; [|reflexivity].
      rewrite !andb_true_r. fold n.
      destruct (Z.ltb_spec l 0) as [Hl0|Hl0]; cbn [andb].
      + destruct (Z.ltb_spec (Z.of_nat n + l) 0) as [He|He].
        * reflexivity.
        * cbn [lift obind]. do 3 f_equal.
          unfold slice_pos. destruct (Z.ltb_spec l 0); [|lia].
          destruct (Z.ltb_spec (Z.of_nat n + l) 0); [lia|]. lia.
      + cbn [lift obind]. do 2 f_equal.
        unfold slice_pos. destruct (Z.ltb_spec l 0); [lia|].
        destruct (Z.ltb_spec (Z.of_nat n) l).
        * rewrite !firstn_min; [reflexivity | lia | unfold n in *; lia].
        * reflexivity.
  Qed.

  Lemma transform_correct : forall e name i k v,
    is_params_name name = false ->
    is_list_idx i = false ->
    bash_value (env_get e name) i = PVal v ->
    In k [81; 85; 117; 76] ->
    pexp_eval e (mkP name i (PExp OtherOp [WLit [k]])) =
    OOk (bash_transform upper lower quote k v, None).
  Proof.
    intros e name i k v Hn Hl Hv Hk.
    rewrite (param_exp_scalar upper lower quote e name i _ v Hn Hl Hv). cbv zeta.
    unfold exp_arg, literal_of. cbn [is_pat_op flat_map part_text app].
    destruct Hk as [<-|[<-|[<-|[<-|[]]]]]; destruct v as [s|]; reflexivity.
  Qed.

  Definition not_assoc (v : var) : bool := match v with VAssoc _ => false | _ => true end.
  Definition plain_scalar (v : var) : bool := match v with VUnset | VStr _ => true | _ => false end.

  Lemma var_string_value : forall vr,
    not_assoc vr = true ->
    var_string vr = match bash_value vr INone with PVal (Some t) => t | _ => [] end.
  Proof.
    destruct vr as [|s|l ix|m]; simpl; intros; try reflexivity; try discriminate.
    unfold var_string. rewrite indexed_val_elem_of by lia. destruct (elem_of l ix 0); reflexivity.
  Qed.

  (* ${!name}: name a plain scalar (or unset) whose value is non-empty, the target not an
     associative array (known findings indirect_invalid_name, indirect_to_assoc) *)
  Lemma indirect_correct : forall e name v,
    is_params_name name = false ->
    plain_scalar (env_get e name) = true ->
    bash_value (env_get e name) INone = PVal v ->
    v <> Some [] ->
    not_assoc (env_get e (cur v)) = true ->
    pexp_eval e (mkP name INone PExcl) = lift (bash_indirect e v).
  Proof.
    intros e name v Hn Hp Hv Hne Hna.
    rewrite (param_exp_scalar upper lower quote e name INone _ v Hn eq_refl Hv). cbv zeta.
    destruct (env_get e name) as [|s| |] eqn:Hvr; try discriminate Hp; simpl in Hv; inversion Hv; subst v.
    - reflexivity.
    - cbn [is_set negb cur]. destruct s as [|c s]; [exfalso; apply Hne; reflexivity|].
      cbn [cur] in Hna. cbn [bash_indirect lift obind join]. rewrite (var_string_value _ Hna). reflexivity.
  Qed.

  (* ------------------------------------------------------------------ removal and case conversion on a scalar subject *)

  Definition is_suffix_op (op : expop) : bool := match op with RemSS | RemLS => true | _ => false end.
  Definition is_prefix_op (op : expop) : bool := match op with RemSP | RemLP => true | _ => false end.
  Definition is_longest_op (op : expop) : bool := match op with RemLS | RemLP => true | _ => false end.

  Lemma pat_ok_in_model : forall p a, pat_atoms p = PatOk a -> pat_in_model p = true.
  Proof. intros p a H. unfold pat_in_model. rewrite H. reflexivity. Qed.

  Lemma remove_suffix_param : forall e name i op w v a,
    is_params_name name = false ->
    is_list_idx i = false ->
    bash_value (env_get e name) i = PVal v ->
    is_suffix_op op = true ->
    pat_atoms (pattern_of w) = PatOk a ->
    exists r, pexp_eval e (mkP name i (PExp op w)) = OOk (r, None) /\
              is_suffix_removal (is_longest_op op) (toks a) (cur v) r.
  Proof.
    intros e name i op w v a Hn Hl Hv Hop Hp.
    rewrite (param_exp_scalar upper lower quote e name i _ v Hn Hl Hv). cbv zeta.
    destruct op; try discriminate Hop; unfold exp_arg; cbn [is_pat_op];
      rewrite (pat_ok_in_model _ _ Hp); cbn [negb rem_case_elems remove_elems map opt_out obind join];
      eexists; (split; [reflexivity|]).
    - apply (remove_suffix_correct (cur v) (pattern_of w) a true Hp).
    - apply (remove_suffix_correct (cur v) (pattern_of w) a false Hp).
  Qed.

  Lemma remove_prefix_param : forall e name i op w v a,
    is_params_name name = false ->
    is_list_idx i = false ->
    bash_value (env_get e name) i = PVal v ->
    is_prefix_op op = true ->
    pat_atoms (pattern_of w) = PatOk a ->
    exists r, pexp_eval e (mkP name i (PExp op w)) = OOk (r, None) /\
              is_prefix_removal (is_longest_op op) (toks a) (cur v) r.
  Proof.
    intros e name i op w v a Hn Hl Hv Hop Hp.
    rewrite (param_exp_scalar upper lower quote e name i _ v Hn Hl Hv). cbv zeta.
    destruct op; try discriminate Hop; unfold exp_arg; cbn [is_pat_op];
      rewrite (pat_ok_in_model _ _ Hp); cbn [negb rem_case_elems remove_elems map opt_out obind join];
      eexists; (split; [reflexivity|]).
    - apply (remove_prefix_correct (cur v) (pattern_of w) a true Hp).
    - apply (remove_prefix_correct (cur v) (pattern_of w) a false Hp).
  Qed.

  Definition case_conv_of (op : expop) : option ((N -> N) * bool) :=
    match op with
    | UpFirst => Some (upper, false) | UpAll => Some (upper, true)
    | LowFirst => Some (lower, false) | LowAll => Some (lower, true)
    | _ => None
    end.

  (* each character (the first only for ^ and ,) that the pattern matches is converted; an omitted
     pattern matches every character *)
  Lemma case_param : forall e name i op w v a conv all,
    is_params_name name = false ->
    is_list_idx i = false ->
    bash_value (env_get e name) i = PVal v ->
    case_conv_of op = Some (conv, all) ->
    pat_atoms (pattern_of w) = PatOk a ->
    exists m : N -> bool,
      (forall c, m c = true <-> (a = [] \/ pmatch (toks a) [c])) /\
      pexp_eval e (mkP name i (PExp op w)) = OOk (bash_case conv all m (cur v), None).
  Proof.
    intros e name i op w v a conv all Hn Hl Hv Hop Hp.
    exists (match_char a). split; [intros c; apply match_char_spec|].
    rewrite (param_exp_scalar upper lower quote e name i _ v Hn Hl Hv). cbv zeta.
    destruct op; try discriminate Hop; unfold exp_arg; cbn [is_pat_op];
      rewrite (pat_ok_in_model _ _ Hp); cbn [negb rem_case_elems];
      rewrite (case_conv_correct _ _ _ a _ Hp); cbn [map opt_out obind join];
      simpl in Hop; inversion Hop; subst; reflexivity.
  Qed.

  (* ------------------------------------------------------------------ ${p/pat/w} ${p/#pat/w} ${p/%pat/w} on a set scalar subject *)

  Lemma replace_param_eval : forall e name i orig w s anc p a,
    is_params_name name = false ->
    is_list_idx i = false ->
    bash_value (env_get e name) i = PVal (Some s) ->
    split_anchor false orig (pattern_of orig) = (anc, p) ->
    (anc = ANone -> p <> []) ->
    pat_atoms p = PatOk a ->
    pexp_eval e (mkP name i (PRepl false orig w)) =
    OOk (match anc with
         | ABegin => replace_anchored a (literal_of w) s false
         | AEnd => replace_anchored a (literal_of w) s true
         | ANone => replace_first a (literal_of w) s
         end, None).
  Proof.
    intros e name i orig w s anc p a Hn Hl Hv Hsa Hne Hp.
    rewrite (param_exp_scalar upper lower quote e name i _ (Some s) Hn Hl Hv). cbv zeta.
    cbn [set_of is_unset negb cur]. unfold replace_elems. rewrite Hsa.
    destruct anc; destruct p as [|c p']; try (exfalso; apply Hne; reflexivity);
      rewrite Hp; cbn [map opt_out obind join]; reflexivity.
  Qed.

  Lemma replace_end_param : forall e name i orig w s p a,
    is_params_name name = false -> is_list_idx i = false ->
    bash_value (env_get e name) i = PVal (Some s) ->
    split_anchor false orig (pattern_of orig) = (AEnd, p) ->
    pat_atoms p = PatOk a ->
    exists r, pexp_eval e (mkP name i (PRepl false orig w)) = OOk (r, None) /\
      ((exists pre suf, s = pre ++ suf /\ pmatch (toks a) suf /\ r = pre ++ literal_of w /\
          forall pre' suf', s = pre' ++ suf' -> pmatch (toks a) suf' -> (length suf' <= length suf)%nat)
       \/ (r = s /\ forall pre suf, s = pre ++ suf -> ~ pmatch (toks a) suf)).
  Proof.
    intros e name i orig w s p a Hn Hl Hv Hsa Hp. eexists. split.
    - apply (replace_param_eval e name i orig w s AEnd p a Hn Hl Hv Hsa); [discriminate|exact Hp].
    - apply replace_anchored_end_correct.
  Qed.

  Lemma replace_begin_param : forall e name i orig w s p a,
    is_params_name name = false -> is_list_idx i = false ->
    bash_value (env_get e name) i = PVal (Some s) ->
    split_anchor false orig (pattern_of orig) = (ABegin, p) ->
    pat_atoms p = PatOk a ->
    exists r, pexp_eval e (mkP name i (PRepl false orig w)) = OOk (r, None) /\
      ((exists pre suf, s = pre ++ suf /\ pmatch (toks a) pre /\ r = literal_of w ++ suf /\
          forall pre' suf', s = pre' ++ suf' -> pmatch (toks a) pre' -> (length pre' <= length pre)%nat)
       \/ (r = s /\ forall pre suf, s = pre ++ suf -> ~ pmatch (toks a) pre)).
  Proof.
    intros e name i orig w s p a Hn Hl Hv Hsa Hp. eexists. split.
    - apply (replace_param_eval e name i orig w s ABegin p a Hn Hl Hv Hsa); [discriminate|exact Hp].
    - apply replace_anchored_begin_correct.
  Qed.

  Lemma replace_first_param : forall e name i orig w s p a,
    is_params_name name = false -> is_list_idx i = false ->
    bash_value (env_get e name) i = PVal (Some s) ->
    split_anchor false orig (pattern_of orig) = (ANone, p) ->
    p <> [] ->
    pat_atoms p = PatOk a ->
    exists r, pexp_eval e (mkP name i (PRepl false orig w)) = OOk (r, None) /\
      ((exists pre mid post, s = pre ++ mid ++ post /\ pmatch (toks a) mid /\ r = pre ++ literal_of w ++ post /\
          (forall pre' mid' post', s = pre' ++ mid' ++ post' -> pmatch (toks a) mid' -> (length pre <= length pre')%nat) /\
          (forall mid' post', mid ++ post = mid' ++ post' -> pmatch (toks a) mid' -> (length mid' <= length mid)%nat))
       \/ (r = s /\ forall pre mid post, s = pre ++ mid ++ post -> ~ pmatch (toks a) mid)).
  Proof.
    intros e name i orig w s p a Hn Hl Hv Hsa Hne Hp. eexists. split.
    - apply (replace_param_eval e name i orig w s ANone p a Hn Hl Hv Hsa); [intros _; exact Hne|exact Hp].
    - apply replace_first_correct.
  Qed.

  (* an unset parameter expands to nothing whatever the pattern (repaired) *)
  Lemma replace_unset_param : forall e name i all orig w,
    is_params_name name = false -> is_list_idx i = false ->
    bash_value (env_get e name) i = PVal None ->
    pexp_eval e (mkP name i (PRepl all orig w)) = OOk ([], None).
  Proof.
    intros e name i all orig w Hn Hl Hv.
    rewrite (param_exp_scalar upper lower quote e name i _ None Hn Hl Hv). reflexivity.
  Qed.

  (* ------------------------------------------------------------------ element-wise forms: "${a[@]op}" "${a[*]op}" ${a[@]op} "$@" ... *)

  (* the operator as a function on one string *)
  Definition elem_op (op : expop) (arg : str) : option (str -> str) :=
    match op with
    | RemSP => Some (fun s => remove_pattern s arg false true)
    | RemLP => Some (fun s => remove_pattern s arg false false)
    | RemSS => Some (fun s => remove_pattern s arg true true)
    | RemLS => Some (fun s => remove_pattern s arg true false)
    | UpFirst | UpAll | LowFirst | LowAll =>
        let conv := match op with UpFirst | UpAll => upper | _ => lower end in
        let all := match op with UpAll | LowAll => true | _ => false end in
        match pat_atoms arg with
        | PatOk a => Some (bash_case conv all (match_char a))
        | PatErr => Some (fun s => s)
        | PatOut => None
        end
    | _ => None
    end.

  Lemma rem_case_elems_map : forall op arg elems,
    is_pat_op op = true ->
    rem_case_elems upper lower op arg elems = option_map (fun f => map f elems) (elem_op op arg).
  Proof.
    intros op arg elems H. destruct op; try discriminate H; try reflexivity;
      unfold rem_case_elems, case_conv_elems, elem_op; destruct (pat_atoms arg); simpl;
      try reflexivity; rewrite map_id; reflexivity.
  Qed.

  Definition list_of_subject (e : env) (name : str) (i : idx) : option (list str * bool) :=
    (* (elements, star) of $@ $* ${a[@]} ${a[*]} for an indexed array / the positional parameters *)
    if is_params_name name then
      Some (match env_get e name with VIdx l _ => l | _ => [] end, str_eqb name STAR)
    else match i, env_get e name with
         | IAt, VIdx l _ => Some (l, false)
         | IStar, VIdx l _ => Some (l, true)
         | _, _ => None
         end.

  Lemma list_elems_unsliced : forall e name i op w l star,
    list_of_subject e name i = Some (l, star) ->
    list_elems e (mkP name i (PExp op w)) = Some (l, star).
  Proof.
    intros e name i op w l star H. unfold list_elems, list_of_subject in *. cbn [p_name p_idx p_op pop_sliced pop_off pop_len] in *.
    destruct (is_params_name name).
    - inversion H; subst. unfold slice_elems. reflexivity.
    - destruct i; try discriminate; cbn [is_list_idx]; destruct (env_get e name); try discriminate;
        inversion H; subst; unfold slice_elems; reflexivity.
  Qed.

  (* quoted: one field per element ([@], "$@"), or one field joined with the first IFS character ([*], "$*");
     each element is what the scalar operator gives for it *)
  Lemma elementwise_quoted : forall e name i op w l star f,
    list_of_subject e name i = Some (l, star) ->
    is_pat_op op = true ->
    pat_in_model (exp_arg op w) = true ->
    elem_op op (exp_arg op w) = Some f ->
    expand_word upper lower quote e (mkP name i (PExp op w)) true =
    OOk (if star then [ifs_join e (map f l)] else map f l, None).
  Proof.
    intros e name i op w l star f Hl Hop Hin Hf.
    unfold expand_word, quoted_elem_fields. cbn [p_op].
    rewrite (list_elems_unsliced e name i op w l star Hl).
    unfold per_elem_ops. cbn [p_op]. rewrite Hop, Hin. cbn [negb].
    rewrite (rem_case_elems_map op _ l Hop), Hf. reflexivity.
  Qed.

  (* the same operator on a scalar holding one element *)
  Lemma elementwise_scalar : forall e name op w x f,
    is_params_name name = false ->
    env_get e name = VStr x ->
    is_pat_op op = true ->
    pat_in_model (exp_arg op w) = true ->
    elem_op op (exp_arg op w) = Some f ->
    pexp_eval e (mkP name INone (PExp op w)) = OOk (f x, None).
  Proof.
    intros e name op w x f Hn Hv Hop Hin Hf.
    assert (Hb : bash_value (env_get e name) INone = PVal (Some x)) by (rewrite Hv; reflexivity).
    rewrite (param_exp_scalar upper lower quote e name INone _ (Some x) Hn eq_refl Hb). cbv zeta.
    cbn [cur]. destruct op; try discriminate Hop; rewrite Hin; cbn [negb];
      rewrite (rem_case_elems_map _ _ [x] Hop), Hf; reflexivity.
  Qed.

  (* unquoted ${a[@]op} / ${a[*]op}: the converted elements are joined (space, or the first IFS character for the star form)
     and the result is split at IFS *)
  Lemma elementwise_unquoted : forall e name i op w l star f,
    is_params_name name = false ->
    list_of_subject e name i = Some (l, star) ->
    is_pat_op op = true ->
    pat_in_model (exp_arg op w) = true ->
    elem_op op (exp_arg op w) = Some f ->
    expand_word upper lower quote e (mkP name i (PExp op w)) false =
    OOk (split_fields (ifs_of e) (if star then ifs_join e (map f l) else join SP (map f l)) [], None).
  Proof.
    intros e name i op w l star f Hn Hl Hop Hin Hf.
    unfold expand_word, unquoted_elem_fields. cbn [p_op].
    unfold list_of_subject in Hl. rewrite Hn in Hl.
    unfold param_exp. rewrite (eff_idx_plain name i _ Hn). cbn [p_name p_idx p_op].
    destruct i; try discriminate Hl; destruct (env_get e name) as [| |l0 ix|] eqn:Ev; try discriminate Hl;
      inversion Hl; subst; cbn [is_list_idx is_star pop_sliced pop_off pop_len is_set obind];
      unfold slice_elems; cbn [negb obind];
      (destruct op; try discriminate Hop; rewrite Hin; cbn [negb];
       rewrite (rem_case_elems_map _ _ l Hop), Hf; reflexivity).
  Qed.
End Theorems.

(* ------------------------------------------------------------------ splitting a space-joined list = splitting each element *)

Lemma split_fields_sep : forall ifs a b cur,
  in_str 32 ifs = true ->
  split_fields ifs (a ++ 32 :: b) cur = split_fields ifs a cur ++ split_fields ifs b [].
Proof.
  intros ifs a b cur H. revert cur. induction a as [|c a IH]; intros cur; simpl.
  - rewrite H. destruct cur; reflexivity.
  - destruct (in_str c ifs).
    + destruct cur; rewrite IH; reflexivity.
    + apply IH.
Qed.

Lemma split_join_space : forall ifs xs,
  in_str 32 ifs = true ->
  split_fields ifs (join SP xs) [] = flat_map (fun x => split_fields ifs x []) xs.
Proof.
  intros ifs xs H. induction xs as [|x xs IH]; [reflexivity|].
  destruct xs as [|y xs].
  - simpl. rewrite app_nil_r. reflexivity.
  - change (join SP (x :: y :: xs)) with (x ++ 32 :: join SP (y :: xs)).
    rewrite split_fields_sep by exact H. rewrite IH. reflexivity.
Qed.

(* ------------------------------------------------------------------ element-wise replacement *)

Definition repl_op (all : bool) (orig_w with_w : word) : option (str -> str) :=
  let '(anc, orig) := split_anchor all orig_w (pattern_of orig_w) in
  match anc, orig with
  | ANone, [] => Some (fun s => s)
  | _, _ =>
      let w := literal_of with_w in
      match pat_atoms orig with
      | PatOut => None
      | PatErr => Some (fun s => s)
      | PatOk a =>
          Some (fun s => match anc with
                         | ABegin => replace_anchored a w s false
                         | AEnd => replace_anchored a w s true
                         | ANone => if all then replace_all (S (S (length s))) a w s false
                                    else replace_first a w s
                         end)
      end
  end.

Lemma replace_elems_map : forall all orig w elems,
  replace_elems all orig w elems = option_map (fun f => map f elems) (repl_op all orig w).
Proof.
  intros all orig w elems. unfold replace_elems, repl_op.
  destruct (split_anchor all orig (pattern_of orig)) as [anc p].
  destruct anc; destruct p as [|c p']; cbv beta iota zeta;
    try (cbn [option_map]; rewrite map_id; reflexivity);
    match goal with |- context [pat_atoms ?x] => destruct (pat_atoms x) end;
    cbn [option_map]; try reflexivity; rewrite map_id; reflexivity.
Qed.

Section ElemRepl.
  Variable upper lower : N -> N.
  Variable quote : str -> str.

  Lemma list_elems_unsliced_repl : forall e name i all orig w l star,
    list_of_subject e name i = Some (l, star) ->
    list_elems e (mkP name i (PRepl all orig w)) = Some (l, star).
  Proof.
    intros e name i all orig w l star H. unfold list_elems, list_of_subject in *.
    cbn [p_name p_idx p_op pop_sliced pop_off pop_len] in *.
    destruct (is_params_name name).
    - inversion H; subst. unfold slice_elems. reflexivity.
    - destruct i; try discriminate; cbn [is_list_idx]; destruct (env_get e name); try discriminate;
        inversion H; subst; unfold slice_elems; reflexivity.
  Qed.

  Lemma elementwise_quoted_repl : forall e name i all orig w l star f,
    list_of_subject e name i = Some (l, star) ->
    repl_op all orig w = Some f ->
    expand_word upper lower quote e (mkP name i (PRepl all orig w)) true =
    OOk (if star then [ifs_join e (map f l)] else map f l, None).
  Proof.
    intros e name i all orig w l star f Hl Hf.
    unfold expand_word, quoted_elem_fields. cbn [p_op].
    rewrite (list_elems_unsliced_repl e name i all orig w l star Hl).
    unfold per_elem_ops. cbn [p_op]. rewrite replace_elems_map, Hf. reflexivity.
  Qed.

  Lemma elementwise_scalar_repl : forall e name all orig w x f,
    is_params_name name = false ->
    env_get e name = VStr x ->
    repl_op all orig w = Some f ->
    param_exp upper lower quote e (mkP name INone (PRepl all orig w)) = OOk (f x, None).
  Proof.
    intros e name all orig w x f Hn Hv Hf.
    assert (Hb : bash_value (env_get e name) INone = PVal (Some x)) by (rewrite Hv; reflexivity).
    rewrite (param_exp_scalar upper lower quote e name INone _ (Some x) Hn eq_refl Hb). cbv zeta.
    cbn [cur set_of is_unset negb]. rewrite replace_elems_map, Hf. reflexivity.
  Qed.
End ElemRepl.
