From Verif Require Import Base.Str Expand.Param.
