(* Proofs/RunnerReuseProofs.v — C30 (Interp/Reuse.v) *)
From Verif Require Import Base.Str Interp.Reuse.
From Coq Require String.
From Coq Require Import Lia.

(* ---------------- mapi ---------------- *)
Lemma mapi_from_ext {A B} (f g : nat -> A -> B) : forall l k,
  (forall i a, nth_error l i = Some a -> f (k + i) a = g (k + i) a) -> mapi_from f k l = mapi_from g k l.
Proof.
  induction l; intros k H; simpl; auto. f_equal.
  - specialize (H 0 a eq_refl). rewrite Nat.add_0_r in H. exact H.
  - apply IHl. intros i b Hi. specialize (H (S i) b Hi). rewrite Nat.add_succ_r in H. exact H.
Qed.

Lemma mapi_ext {A B} (f g : nat -> A -> B) l :
  (forall i a, nth_error l i = Some a -> f i a = g i a) -> mapi f l = mapi g l.
Proof. intros H. apply mapi_from_ext. exact H. Qed.

Lemma nth_mapi_from {A B} (f : nat -> A -> B) d : forall l k i a,
  nth_error l i = Some a -> nth i (mapi_from f k l) d = f (k + i) a.
Proof.
  induction l; intros k i b H; destruct i; simpl in *; try discriminate.
  - inversion H; subst. rewrite Nat.add_0_r; auto.
  - rewrite (IHl (S k) i b H). f_equal. lia.
Qed.

Lemma nth_mapi {A B} (f : nat -> A -> B) d l i a :
  nth_error l i = Some a -> nth i (mapi f l) d = f i a.
Proof. intros H. unfold mapi. rewrite (nth_mapi_from f d l 0 i a H). auto. Qed.

(* ---------------- Part 1 ---------------- *)
Section ResetP.
Variable val : Type.
Variable dflt : val.
Variable prog obs : Type.
Variable tab : table.
Variable reset_fn : nat -> list val -> val.
Variable step : prog -> list val -> list val * obs.

Local Notation get := (Reuse.get val dflt).
Local Notation reset := (reset val dflt tab reset_fn).
Local Notation run := (run val dflt prog obs tab step).
Local Notation runs := (runs val dflt prog obs tab step).
Local Notation mask := (mask val dflt tab).

Lemma run_keeps p r i rw :
  nth_error tab i = Some rw -> f_written rw = false -> get (fst (run p r)) i = get r i.
Proof.
  intros Hi Hw. unfold Reuse.run. destruct (step p r) as [r1 o]. simpl.
  unfold Reuse.get at 1. rewrite (nth_mapi _ dflt tab i rw Hi). rewrite Hw. auto.
Qed.

Lemma runs_keeps i rw : nth_error tab i = Some rw -> f_written rw = false ->
  forall hist r, get (runs hist r) i = get r i.
Proof.
  intros Hi Hw. induction hist; intros r; simpl; auto.
  unfold Reuse.runs in *. simpl. rewrite IHhist. apply run_keeps with rw; auto.
Qed.

Lemma reset_carried r i rw :
  nth_error tab i = Some rw -> f_carried rw = true -> get (reset r) i = get r i.
Proof.
  intros Hi Hc. unfold Reuse.reset. unfold Reuse.get at 1.
  rewrite (nth_mapi _ dflt tab i rw Hi). rewrite Hc. auto.
Qed.

Lemma covered_row i rw : fields_covered tab = true -> nth_error tab i = Some rw ->
  (f_carried rw = true -> f_written rw = false) /\
  (forall g, In g (f_reads rw) -> exists rg, nth_error tab g = Some rg /\ f_carried rg = true /\ f_written rg = false).
Proof.
  intros Hc Hi. unfold fields_covered in Hc. rewrite forallb_forall in Hc.
  specialize (Hc rw (nth_error_In _ _ Hi)). unfold row_covered in Hc.
  apply andb_true_iff in Hc; destruct Hc as [Hc Hr]. apply andb_true_iff in Hc; destruct Hc as [_ Hcw].
  split.
  - intros H1. rewrite H1 in Hcw. simpl in Hcw. destruct (f_written rw); auto; discriminate.
  - intros g Hg. rewrite forallb_forall in Hr. specialize (Hr g Hg).
    destruct (nth_error tab g) as [rg|]; [|discriminate].
    apply andb_true_iff in Hr; destruct Hr as [H1 H2].
    exists rg; repeat split; auto. destruct (f_written rg); auto; discriminate.
Qed.

Theorem reset_runs_reset : fields_covered tab = true ->
  forall s hist, reset (runs hist (reset s)) = reset s.
Proof.
  intros Hc s hist. unfold Reuse.reset at 1 3. apply mapi_ext. intros i rw Hi.
  destruct (covered_row i rw Hc Hi) as [Hcw Hreads].
  destruct (f_carried rw) eqn:Hcar.
  - rewrite (runs_keeps i rw Hi (Hcw eq_refl)). apply reset_carried with rw; auto.
  - f_equal. unfold Reuse.mask. apply mapi_ext. intros j rj Hj.
    destruct (mem_nat j (f_reads rw)) eqn:Hm; auto.
    unfold mem_nat in Hm. apply existsb_exists in Hm. destruct Hm as [g [Hg Hjg]].
    apply Nat.eqb_eq in Hjg; subst g.
    destruct (Hreads j Hg) as [rg [Hrg [Hc1 Hw1]]].
    rewrite (runs_keeps j rg Hrg Hw1). apply reset_carried with rg; auto.
Qed.

Theorem reset_fresh : fields_covered tab = true ->
  forall s hist p, run p (reset (runs hist (reset s))) = run p (reset s).
Proof. intros Hc s hist p. rewrite reset_runs_reset; auto. Qed.

End ResetP.

(* a table that is not covered: one field, carried over by Reset and written by Run *)
Definition bad_tab : table := [mkrow String.EmptyString true true [] true].
Lemma uncovered_table_refuted :
  fields_covered bad_tab = false /\
  exists (step : unit -> list nat -> list nat * nat) s hist p,
    run nat 0 unit nat bad_tab step p (reset nat 0 bad_tab (fun _ _ => 0) (runs nat 0 unit nat bad_tab step hist (reset nat 0 bad_tab (fun _ _ => 0) s)))
    <> run nat 0 unit nat bad_tab step p (reset nat 0 bad_tab (fun _ _ => 0) s).
Proof.
  split; [reflexivity|].
  exists (fun _ r => ([S (nth 0 r 0)], nth 0 r 0)), [0], [tt], tt. vm_compute. discriminate.
Qed.

(* ---------------- Part 2 ---------------- *)
Arguments sg {Sigma} r.
Arguments ex {Sigma} r.
Arguments lastex {Sigma} r.
Arguments htrap {Sigma} r.
Arguments fname {Sigma} r.
Section IncrP.
Variable Sigma : Type.
Variable stmt_t : Type.
Variable body : stmt_t -> rs Sigma -> rs Sigma.
Variable noexec : Sigma -> bool.
Variable exit_trap : Sigma -> option (list stmt_t).
Hypothesis Hb : body_ok Sigma stmt_t body.
Hypothesis Hn : noexec_clean Sigma stmt_t body noexec.

Local Notation rs := (rs Sigma).
Local Notation stmt := (stmt Sigma stmt_t body noexec).
Local Notation stmts := (stmts Sigma stmt_t body noexec).
Local Notation stop := (stop Sigma noexec).
Local Notation trap_callback := (trap_callback Sigma stmt_t body noexec exit_trap).
Local Notation run_file := (run_file Sigma stmt_t body noexec exit_trap).
Local Notation run_stmt := (run_stmt Sigma stmt_t body noexec exit_trap).
Local Notation run_incr := (run_incr Sigma stmt_t body noexec exit_trap).

(* the state between two top-level statements of a program that has not exited *)
Definition between (r : rs) : Prop :=
  htrap r = false /\ fname r = [] /\ e_returning (ex r) = false /\ e_exiting (ex r) = false /\
  lastex r = ex r /\ (noexec (sg r) = true -> ex r = ex0).

Lemma set_lastex_id (x : rs) : lastex x = ex x -> set_lastex Sigma x (ex x) = x.
Proof. destruct x; simpl; intros; subst; reflexivity. Qed.

Lemma rs_eta (r : rs) : mkrs Sigma (sg r) (ex r) (lastex r) (htrap r) (fname r) = r.
Proof. destruct r; auto. Qed.

(* one statement of the whole-file run, from a `between` state *)
Lemma stmt_between st r : between r ->
  let r' := stmt st r in
  htrap r' = false /\ fname r' = [] /\ e_returning (ex r') = false /\ lastex r' = ex r' /\
  (noexec (sg r') = true -> ex r' = ex0).
Proof.
  intros (Ht & Hf & Hr & He & Hl & Hx). unfold Reuse.stmt.
  destruct (stop r) eqn:Hs; simpl.
  - repeat split; auto.
  - destruct Hb as [B1 B2 B3]. repeat split; simpl.
    + rewrite B3; auto.
    + rewrite B2; auto.
    + apply B1.
    + apply Hn.
Qed.

(* Run(stmt) on a `between` state = stmt, followed by the EXIT trap when it exits *)
Lemma run_stmt_between st r : between r ->
  run_stmt st r = (if e_exiting (ex (stmt st r)) then trap_callback (stmt st r) else stmt st r).
Proof.
  intros Hbt. pose proof Hbt as (Ht & Hf & Hr & He & Hl & Hx). unfold Reuse.run_stmt.
  assert (E1 : stmt st (set_fname Sigma (set_ex Sigma r ex0) []) = stmt st r).
  { clear Hbt. destruct r as [g e l h f]; simpl in *; subst. destruct e as [c rt xt]; simpl in *; subst.
    unfold Reuse.stmt, Reuse.stop, set_fname, set_ex; simpl.
    destruct (noexec g) eqn:Hne; simpl.
    - specialize (Hx eq_refl). inversion Hx; subst. reflexivity.
    - reflexivity. }
  rewrite E1.
  destruct (stmt_between st r Hbt) as (_ & _ & _ & Hl' & _).
  assert (E2 : set_lastex Sigma (stmt st r) (ex (stmt st r)) = stmt st r).
  { apply set_lastex_id; auto. }
  rewrite E2. reflexivity.
Qed.

(* once exiting (outside a trap), the remaining statements are skipped *)
Lemma stmts_exiting sts : forall r, htrap r = false -> e_exiting (ex r) = true -> stmts sts r = r.
Proof.
  induction sts; intros r Ht He; simpl; auto. unfold Reuse.stmts in *. simpl.
  assert (stmt a r = r) as ->.
  { unfold Reuse.stmt, Reuse.stop. rewrite Ht, He. simpl. rewrite orb_true_r. reflexivity. }
  apply IHsts; auto.
Qed.

Lemma incr_vs_stmts sts : forall r, between r ->
  let w := stmts sts r in
  let i := run_incr sts r in
  (e_exiting (ex w) = true -> i = trap_callback w) /\
  (e_exiting (ex w) = false -> i = w /\ between w).
Proof.
  induction sts as [|st sts IH]; intros r Hbt; simpl.
  - destruct Hbt as (Ht & Hf & Hr & He & Hl & Hx). split; intros H; [congruence|].
    split; auto. repeat split; auto.
  - rewrite (run_stmt_between st r Hbt).
    destruct (stmt_between st r Hbt) as (Ht' & Hf' & Hr' & Hl' & Hx').
    unfold Reuse.stmts; simpl. fold (stmts sts (stmt st r)).
    destruct (e_exiting (ex (stmt st r))) eqn:He'.
    + (* this statement exits *)
      rewrite (stmts_exiting sts _ Ht' He').
      assert (Hex : ex (trap_callback (stmt st r)) = ex (stmt st r)).
      { unfold Reuse.trap_callback. destruct (exit_trap (sg (stmt st r))); auto.
        rewrite Ht'. reflexivity. }
      rewrite Hex, He'. split; intros H; [reflexivity | congruence].
    + rewrite He'. apply IH. repeat split; auto.
Qed.

Theorem incremental sts r : fresh_top Sigma r ->
  let w := run_file [] sts r in
  let i := run_incr sts r in
  (e_exiting (ex i) = true -> w = i) /\
  (e_exiting (ex i) = false -> w = trap_callback i).
Proof.
  intros (He & Hl & Ht & Hf). simpl.
  assert (Hpre : set_fname Sigma (set_ex Sigma r ex0) [] = r).
  { destruct r; simpl in *; subst; reflexivity. }
  assert (Hbt : between r).
  { repeat split; auto; try (rewrite He; reflexivity). congruence. }
  unfold Reuse.run_file. rewrite Hpre.
  destruct (incr_vs_stmts sts r Hbt) as [H1 H2].
  fold (stmts sts r).
  assert (Hex : forall x, ex (trap_callback x) = ex x).
  { intros x. unfold Reuse.trap_callback. destruct (exit_trap (sg x)); auto. destruct (htrap x); auto. }
  destruct (e_exiting (ex (stmts sts r))) eqn:Hw.
  - (* some statement exited *)
    rewrite (H1 eq_refl). rewrite Hex.
    assert (Hlw : set_lastex Sigma (stmts sts r) (ex (stmts sts r)) = stmts sts r).
    { (* lastex = ex after the exiting statement: by induction the exiting state came out of stmt *)
      clear H1 H2 Hex Hpre He Hl Ht Hf.
      revert r Hbt Hw. induction sts as [|st sts IH]; intros r Hbt Hw.
      - destruct Hbt as (_ & _ & _ & He' & _). simpl in Hw. congruence.
      - unfold Reuse.stmts in *; simpl in *. fold (stmts sts (stmt st r)) in *.
        destruct (stmt_between st r Hbt) as (Ht' & Hf' & Hr' & Hl' & Hx').
        destruct (e_exiting (ex (stmt st r))) eqn:He'.
        + rewrite (stmts_exiting sts _ Ht' He') in *. apply set_lastex_id; auto.
        + apply IH; auto. repeat split; auto. }
    rewrite Hlw. rewrite Hw. split; intros; [reflexivity | congruence].
  - destruct (H2 eq_refl) as [Hi Hbw]. rewrite Hi. rewrite Hw.
    split; intros; [congruence|].
    destruct Hbw as (_ & _ & _ & _ & Hlw & _).
    rewrite (set_lastex_id _ Hlw). reflexivity.
Qed.

Corollary incremental_status sts r : fresh_top Sigma r ->
  e_code (ex (run_file [] sts r)) = e_code (ex (run_incr sts r)).
Proof.
  intros Hf. destruct (incremental sts r Hf) as [H1 H2].
  destruct (e_exiting (ex (run_incr sts r))) eqn:He.
  - rewrite (H1 eq_refl). reflexivity.
  - rewrite (H2 eq_refl). unfold Reuse.trap_callback.
    destruct (exit_trap (sg (run_incr sts r))); auto. destruct (htrap (run_incr sts r)); auto.
Qed.

End IncrP.

(* KF-C30-1 in the model: a statement (true) that turns noexec on and ends with status 1,
   followed by any statement: the whole-file run ends with status 1, the statement-wise run with 0.
   (Sigma = the noexec flag.)  The body satisfies body_ok, so noexec_clean is what fails. *)
Definition kf_body (st : bool) (r : rs bool) : rs bool :=
  if st then mkrs bool true (mkex 1 false false) (lastex r) (htrap r) (fname r)
  else mkrs bool (sg r) ex0 (lastex r) (htrap r) (fname r).
Definition kf_r0 : rs bool := mkrs bool false ex0 ex0 false [].

Lemma incremental_noexec_refuted :
  body_ok bool bool kf_body /\ fresh_top bool kf_r0 /\
  e_code (ex (run_file bool bool kf_body (fun b => b) (fun _ => None) [] [true; false] kf_r0)) = 1%N /\
  e_code (ex (run_incr bool bool kf_body (fun b => b) (fun _ => None) [true; false] kf_r0)) = 0%N.
Proof.
  split; [|split; [|split]].
  - constructor; intros st r; destruct st; reflexivity.
  - repeat split.
  - reflexivity.
  - reflexivity.
Qed.
