(* Proofs/IsolationProofs.v — the ownership (frame) invariant of the shell-state
   model: a thread only stores into cells it owns. *)
From Verif Require Import Base.Str Base.GoSlice Interp.Isolation.
From Coq Require Import Lia.
Open Scope nat_scope.

(* ---- lists ------------------------------------------------------------------ *)
Lemma set_nth_length {A} (l : list A) i x : length (set_nth l i x) = length l.
Proof. revert i; induction l; destruct i; simpl; auto. Qed.

Lemma nth_error_set_nth_other {A} (l : list A) i j x :
  i <> j -> nth_error (set_nth l i x) j = nth_error l j.
Proof.
  revert i j; induction l as [|a l IH]; intros i j H; destruct i, j; simpl; auto; try congruence.
Qed.

Lemma nth_error_app_below {A} (l : list A) c j : j < length l -> nth_error (l ++ [c]) j = nth_error l j.
Proof. intros; apply nth_error_app1; auto. Qed.

Lemma nth_of_nth_error {A} (l l' : list A) i d :
  nth_error l' i = nth_error l i -> nth i l' d = nth i l d.
Proof.
  intros H. destruct (nth_error l i) eqn:E.
  - rewrite (nth_error_nth _ _ d E). apply (nth_error_nth _ _ d H).
  - apply nth_error_None in E. apply nth_error_None in H.
    rewrite !nth_overflow; auto.
Qed.

Ltac tsplit := split; [|split].

Section Own.
Variable grow : nat -> nat -> nat.
(* the cells this thread owns; every location not yet allocated counts as owned *)
Variables owna owno : loc -> Prop.

Definition fresh_owned (h : heaps) : Prop :=
  (forall l, length (ha h) <= l -> owna l) /\ (forall l, length (ho h) <= l -> owno l).

(* an owned function-scope overlay forwards Set to an owned parent *)
Definition fs_closed (h : heaps) : Prop :=
  forall l p vals, owno l -> nth_error (ho h) l = Some (CEnv (Some p) true vals) -> owno p.

Definition hinv (h : heaps) : Prop := fresh_owned h /\ fs_closed h.

(* every cell that is not owned keeps its contents *)
Definition frame (h h' : heaps) : Prop :=
  length (ha h) <= length (ha h') /\ length (ho h) <= length (ho h') /\
  (forall l, ~ owna l -> nth_error (ha h') l = nth_error (ha h) l) /\
  (forall l, ~ owno l -> nth_error (ho h') l = nth_error (ho h) l).

Lemma frame_refl h : frame h h.
Proof. unfold frame; intuition. Qed.

Lemma frame_trans h1 h2 h3 : frame h1 h2 -> frame h2 h3 -> frame h1 h3.
Proof.
  unfold frame; intros (A1 & B1 & C1 & D1) (A2 & B2 & C2 & D2); repeat split; try lia.
  - intros l H; rewrite C2, C1; auto.
  - intros l H; rewrite D2, D1; auto.
Qed.

Lemma frame_eta h : frame h (mkH (ha h) (ho h)).
Proof. unfold frame; simpl; intuition. Qed.
Lemma hinv_eta h : hinv h -> hinv (mkH (ha h) (ho h)).
Proof. unfold hinv, fresh_owned, fs_closed; simpl; auto. Qed.

Ltac nochange Hi :=
  tsplit; [ first [apply frame_refl | apply frame_eta]
          | first [exact Hi | apply hinv_eta; exact Hi]
          | try (intros; exact I); try (intros; discriminate) ].

Definition triple {A} (c : M A) (Q : A -> Prop) : Prop :=
  forall h, hinv h ->
    frame h (snd (c h)) /\ hinv (snd (c h)) /\ (forall a, fst (c h) = Ok a -> Q a).

Lemma triple_ret {A} (a : A) (Q : A -> Prop) : Q a -> triple (ret a) Q.
Proof. intros H h Hi; simpl; nochange Hi. intros ? [= <-]; auto. Qed.

Lemma triple_fail {A} e (Q : A -> Prop) : triple (fail e) Q.
Proof. intros h Hi; simpl; nochange Hi. Qed.

Lemma triple_panic {A} (Q : A -> Prop) : triple panic Q.
Proof. intros h Hi; simpl; nochange Hi. Qed.

Lemma triple_lift {A} (r : res A) (Q : A -> Prop) : (forall a, r = Ok a -> Q a) -> triple (lift r) Q.
Proof. intros H h Hi; simpl; nochange Hi. auto. Qed.

Lemma triple_bind {A B} (c : M A) (f : A -> M B) (Q : A -> Prop) (R : B -> Prop) :
  triple c Q -> (forall a, Q a -> triple (f a) R) -> triple (bind c f) R.
Proof.
  intros Hc Hf h Hi. unfold bind. destruct (Hc h Hi) as (F & I & P).
  destruct (c h) as [[a|e|] h1]; simpl in *.
  - destruct (Hf a (P a eq_refl) h1 I) as (F2 & I2 & P2).
    tsplit; auto. eapply frame_trans; eauto.
  - tsplit; auto; intros; discriminate.
  - tsplit; auto; intros; discriminate.
Qed.

Lemma triple_weaken {A} (c : M A) (Q Q' : A -> Prop) :
  triple c Q -> (forall a, Q a -> Q' a) -> triple c Q'.
Proof. intros H W h Hi. destruct (H h Hi) as (F & I & P); tsplit; auto. Qed.

Lemma triple_ignore_err (c : M unit) (Q : unit -> Prop) :
  triple c Q -> triple (ignore_err c) (fun _ => True).
Proof.
  intros H h Hi. unfold ignore_err. destruct (H h Hi) as (F & I & P).
  destruct (c h) as [[a|e|] h1]; simpl in *; tsplit; auto.
Qed.

(* a computation that leaves the heaps alone *)
Definition readonly {A} (c : M A) : Prop := forall h, snd (c h) = h.

Lemma triple_readonly {A} (c : M A) : readonly c -> triple c (fun _ => True).
Proof. intros H h Hi. rewrite H. nochange Hi. Qed.

Lemma readonly_ret {A} (a : A) : readonly (ret a). Proof. intro; reflexivity. Qed.
Lemma readonly_fail {A} e : readonly (@fail A e). Proof. intro; reflexivity. Qed.
Lemma readonly_panic {A} : readonly (@panic A). Proof. intro; reflexivity. Qed.
Lemma readonly_lift {A} (r : res A) : readonly (lift r). Proof. intro; reflexivity. Qed.
Lemma readonly_bind {A B} (c : M A) (f : A -> M B) :
  readonly c -> (forall a, readonly (f a)) -> readonly (bind c f).
Proof.
  intros Hc Hf h. unfold bind. specialize (Hc h). destruct (c h) as [[a|e|] h1]; simpl in *; subst; auto.
  apply Hf.
Qed.
Lemma readonly_m_elems s : readonly (m_elems s). Proof. intro; reflexivity. Qed.
Lemma readonly_m_index s i : readonly (m_index s i). Proof. intro; reflexivity. Qed.
Lemma readonly_o_get l : readonly (o_get l).
Proof. intro h; unfold o_get; destruct (nth_error (ho h) l); reflexivity. Qed.

(* ---- array heap primitives -------------------------------------------------- *)
Definition owned_s (s : slice) : Prop :=
  match s with
  | SNil => True
  | Sl l _ n c => owna l \/ (n = 0 /\ c = 0)
  end.

Lemma hinv_ha h a' : hinv h -> length (ha h) <= length a' -> hinv (mkH a' (ho h)).
Proof.
  intros ((Fa & Fo) & C) L. split; [split|]; simpl; auto.
  intros l Hl; apply Fa; lia.
Qed.

Lemma step_hwrite h l pos (vs : list val) :
  hinv h -> owna l ->
  frame h (mkH (hwrite (ha h) l pos vs) (ho h)) /\ hinv (mkH (hwrite (ha h) l pos vs) (ho h)).
Proof.
  intros Hi Ho. unfold hwrite. split.
  - unfold frame; simpl. rewrite set_nth_length. repeat split; auto.
    intros l' Hn. apply nth_error_set_nth_other. intro; subst; auto.
  - apply hinv_ha; auto. rewrite set_nth_length; auto.
Qed.

Lemma step_halloc h (c : list val) :
  hinv h ->
  frame h (mkH (ha h ++ [c]) (ho h)) /\ hinv (mkH (ha h ++ [c]) (ho h)) /\ owna (length (ha h)).
Proof.
  intros Hi. pose proof Hi as ((Fa & Fo) & C). split; [|split].
  - unfold frame; simpl. rewrite app_length; simpl. repeat split; auto; try lia.
    intros l Hn. apply nth_error_app_below.
    destruct (Nat.lt_ge_cases l (length (ha h))); auto. exfalso; auto.
  - apply hinv_ha; auto. rewrite app_length; simpl; lia.
  - apply Fa; auto.
Qed.

Lemma triple_m_alloc_list z l c : triple (m_alloc_list z l c) owned_s.
Proof.
  intros h Hi. unfold m_alloc_list, alloc_list, halloc. simpl.
  destruct (step_halloc h (l ++ repeat z (Nat.max c (length l) - length l)) Hi) as (F & I & O).
  tsplit; auto. intros a [= <-]. simpl; auto.
Qed.

Lemma triple_m_store s i v : owned_s s -> triple (m_store s i v) (fun _ => True).
Proof.
  intros Ho h Hi. unfold m_store, store. destruct s as [|l o n c]; simpl.
  - nochange Hi.
  - destruct (Nat.ltb i n) eqn:E; simpl.
    + destruct Ho as [Ho|[-> _]]; [|apply Nat.ltb_lt in E; lia].
      destruct (step_hwrite h l (o + i) [v] Hi Ho); tsplit; auto.
    + nochange Hi.
Qed.

Lemma triple_m_append z s vs : owned_s s -> triple (m_append grow z s vs) owned_s.
Proof.
  intros Ho h Hi. unfold m_append, append.
  destruct vs as [|v vs].
  - simpl. nochange Hi. intros a [= <-]; auto.
  - destruct s as [|l o n c].
    + apply (triple_m_alloc_list z (v :: vs) _ h Hi).
    + destruct (Nat.leb (n + length (v :: vs)) c) eqn:E.
      * simpl. destruct Ho as [Ho|[-> ->]]; [|apply Nat.leb_le in E; simpl in E; lia].
        destruct (step_hwrite h l (o + n) (v :: vs) Hi Ho); tsplit; auto.
        intros a [= <-]; simpl; auto.
      * apply (triple_m_alloc_list z _ _ h Hi).
Qed.

Lemma triple_m_clone z s : triple (m_clone grow z s) owned_s.
Proof.
  intros h Hi. unfold m_clone, clone. destruct s as [|l o n c].
  - simpl. nochange Hi. intros a [= <-]; simpl; auto.
  - destruct n.
    + simpl. nochange Hi. intros a [= <-]; simpl; auto.
    + apply (triple_m_alloc_list z _ _ h Hi).
Qed.

Lemma triple_m_insert z s i v : owned_s s -> triple (m_insert grow z s i v) owned_s.
Proof.
  intros Ho h Hi. unfold m_insert, insert.
  destruct (Nat.ltb (s_len s) i).
  { simpl. nochange Hi. }
  destruct (Nat.eqb i (s_len s)).
  { apply (triple_m_append z s [v] Ho h Hi). }
  destruct s as [|l o n c].
  { simpl. nochange Hi. }
  simpl s_len. destruct (Nat.ltb c (n + 1)) eqn:E.
  - apply (triple_m_alloc_list z _ _ h Hi).
  - simpl. destruct Ho as [Ho|[-> ->]]; [|apply Nat.ltb_ge in E; lia].
    destruct (step_hwrite h l o (firstn i (elems (ha h) (Sl l o n c)) ++ v :: skipn i (elems (ha h) (Sl l o n c))) Hi Ho).
    tsplit; auto. intros a [= <-]; simpl; auto.
Qed.

Lemma triple_m_delete z s i j : owned_s s -> triple (m_delete z s i j) owned_s.
Proof.
  intros Ho h Hi. unfold m_delete, delete.
  destruct (negb (Nat.leb i j && Nat.leb j (s_len s))) eqn:B.
  { simpl. nochange Hi. }
  destruct (Nat.eqb i j) eqn:E.
  { simpl. nochange Hi. intros a [= <-]; auto. }
  destruct s as [|l o n c].
  { simpl. nochange Hi. }
  simpl. destruct Ho as [Ho|[-> ->]].
  - match goal with |- context [hwrite ?a ?b ?c ?d] => destruct (step_hwrite h b c d Hi Ho) end.
    tsplit; auto. intros a [= <-]; simpl; auto.
  - apply negb_false_iff, andb_true_iff in B. destruct B as [B1 B2].
    apply Nat.leb_le in B1, B2. simpl in B2. apply Nat.eqb_neq in E. lia.
Qed.

Lemma owned_reslice s lo hi s' : owned_s s -> reslice s lo hi = Ok s' -> owned_s s'.
Proof.
  intros Ho. unfold reslice. destruct s as [|l o n c].
  - destruct (Nat.eqb lo 0 && Nat.eqb hi 0); intros [= <-]; simpl; auto.
  - destruct (Nat.leb lo hi && Nat.leb hi c) eqn:B; intros [= <-]. simpl.
    destruct Ho as [Ho|[-> ->]]; auto. right.
    apply andb_true_iff in B. destruct B as [B1 B2]. apply Nat.leb_le in B1, B2. lia.
Qed.

Lemma triple_reslice s lo hi : owned_s s -> triple (lift (reslice s lo hi)) owned_s.
Proof. intros Ho. apply triple_lift. intros a. apply owned_reslice; auto. Qed.

(* ---- object heap primitives -------------------------------------------------- *)
Definition own_opt (o : option loc) : Prop := match o with None => True | Some l => owno l end.

Lemma hinv_len h : hinv h -> forall l, ~ owno l -> l < length (ho h).
Proof.
  intros ((Fa & Fo) & C) l Hn. destruct (Nat.lt_ge_cases l (length (ho h))); auto. exfalso; auto.
Qed.

Lemma triple_o_alloc c :
  (forall p vals, c = CEnv (Some p) true vals -> owno p) -> triple (o_alloc c) owno.
Proof.
  intros Hc h Hi. pose proof Hi as ((Fa & Fo) & C). unfold o_alloc; simpl.
  tsplit.
  - unfold frame; simpl. rewrite app_length; simpl. repeat split; auto; try lia.
    intros l Hn. apply nth_error_app_below. apply hinv_len; auto.
  - split; [split|]; simpl; auto.
    + intros l Hl. apply Fo. rewrite app_length in Hl; simpl in Hl; lia.
    + intros l p vals Ol E. simpl in E.
      destruct (Nat.lt_ge_cases l (length (ho h))) as [L|L].
      * rewrite nth_error_app1 in E by auto. eapply C; eauto.
      * rewrite nth_error_app2 in E by auto.
        destruct (l - length (ho h)) as [|k] eqn:K; simpl in E.
        -- injection E as E. eapply Hc; eauto.
        -- destruct k; discriminate.
  - intros a [= <-]. apply Fo; auto.
Qed.

Definition not_fs_env (c : ocell) : Prop :=
  match c with CEnv (Some _) true _ => False | _ => True end.

Lemma step_o_set h l c :
  hinv h -> owno l ->
  (forall p vals, c = CEnv (Some p) true vals -> owno p) ->
  frame h (mkH (ha h) (set_nth (ho h) l c)) /\ hinv (mkH (ha h) (set_nth (ho h) l c)).
Proof.
  intros Hi Ol Hc. pose proof Hi as ((Fa & Fo) & C). split.
  - unfold frame; simpl. rewrite set_nth_length. repeat split; auto.
    intros l' Hn. apply nth_error_set_nth_other. intro; subst; auto.
  - split; [split|]; simpl; auto.
    + intros l' Hl. apply Fo. rewrite set_nth_length in Hl; auto.
    + intros l' p vals Ol' E. simpl in E. destruct (Nat.eq_dec l l') as [->|N].
      * destruct (nth_error (ho h) l') eqn:E0.
        -- assert (nth_error (set_nth (ho h) l' c) l' = Some c) as E1.
           { clear - E0. revert l' E0. induction (ho h); destruct l'; simpl; intros; try discriminate; auto. }
           rewrite E1 in E. injection E as E. eapply Hc; eauto.
        -- assert (nth_error (set_nth (ho h) l' c) l' = None) as E1.
           { apply nth_error_None. rewrite set_nth_length. apply nth_error_None; auto. }
           congruence.
      * rewrite nth_error_set_nth_other in E by auto. eapply C; eauto.
Qed.

Lemma triple_o_set l c :
  owno l -> (forall p vals, c = CEnv (Some p) true vals -> owno p) ->
  triple (o_set l c) (fun _ => True).
Proof.
  intros Ol Hc h Hi. unfold o_set; simpl. destruct (step_o_set h l c Hi Ol Hc). tsplit; auto.
Qed.

Lemma triple_o_get l : triple (o_get l) (fun _ => True).
Proof. apply triple_readonly, readonly_o_get. Qed.

Definition owned2 (p : slice * slice) : Prop := owned_s (fst p) /\ owned_s (snd p).
Definition owned2o (b : option (slice * slice)) : Prop := match b with Some p => owned2 p | None => True end.

(* ---- automation --------------------------------------------------------------- *)
Lemma triple_m_elems s : triple (m_elems s) (fun _ => True).
Proof. apply triple_readonly, readonly_m_elems. Qed.
Lemma triple_m_index s i : triple (m_index s i) (fun _ => True).
Proof. apply triple_readonly, readonly_m_index. Qed.

Hint Resolve triple_m_elems triple_m_index triple_m_alloc_list triple_m_store triple_m_append
     triple_m_clone triple_m_insert triple_m_delete triple_reslice triple_o_get : trip.
Lemma owned_nil : owned_s SNil. Proof. exact I. Qed.
Hint Resolve owned_nil : trip.
Hint Resolve readonly_m_elems readonly_m_index readonly_o_get : ro.

Ltac ro :=
  lazymatch goal with
  | |- readonly (bind _ _) => apply readonly_bind; [ro | intros; ro]
  | |- readonly (ret _) => apply readonly_ret
  | |- readonly (fail _) => apply readonly_fail
  | |- readonly panic => apply readonly_panic
  | |- readonly (lift _) => apply readonly_lift
  | |- readonly (if ?b then _ else _) => destruct b; ro
  | |- readonly (match ?x with _ => _ end) => destruct x; ro
  | |- _ => solve [eauto with ro]
  end.

Ltac clean :=
  unfold owned2o, owned2, own_opt in *; cbn [fst snd] in *; repeat match goal with H : _ /\ _ |- _ => destruct H end.

Ltac tleaf := solve [ eauto with trip
                    | eapply triple_weaken; [ solve [eauto with trip] | simpl; intros; clean; intuition auto ] ].

Ltac tgo :=
  lazymatch goal with
  | |- triple (bind _ _) _ =>
      first [ eapply triple_bind; [ solve [eauto with trip] | cbv beta; intros; clean; tgo ]
            | eapply (triple_bind _ _ owned2o); [ tgo | cbv beta; intros; clean; tgo ]
            | eapply (triple_bind _ _ owned2); [ tgo | cbv beta; intros; clean; tgo ]
            | eapply (triple_bind _ _ owno); [ tgo | cbv beta; intros; clean; tgo ]
            | eapply (triple_bind _ _ (fun _ => True)); [ tgo | cbv beta; intros; clean; tgo ] ]
  | |- triple (let _ := _ in _) _ => cbv zeta; tgo
  | |- triple (ret _) _ =>
      apply triple_ret; unfold owned2o, owned2; simpl;
      repeat match goal with |- context [if ?b then _ else _] => destruct b end; simpl; intuition auto
  | |- triple (fail _) _ => apply triple_fail
  | |- triple panic _ => apply triple_panic
  | |- triple (if ?b then _ else _) _ => destruct b; tgo
  | |- triple (match ?x with _ => _ end) _ => destruct x; clean; tgo
  | |- _ => tleaf
  end.

(* ---- read-only parts -------------------------------------------------------------- *)
Lemma readonly_env_get fuel : forall e name, readonly (env_get fuel e name).
Proof. induction fuel; intros; simpl; ro. Qed.
Lemma readonly_env_each fuel : forall e, readonly (env_each fuel e).
Proof. induction fuel; intros; simpl; ro. Qed.
Hint Resolve readonly_env_get readonly_env_each : ro.

Lemma readonly_map_read m : readonly (map_read m). Proof. unfold map_read; ro. Qed.
Lemma readonly_funcs_read m : readonly (funcs_read m). Proof. unfold funcs_read; ro. Qed.
Lemma readonly_alias_read m : readonly (alias_read m). Proof. unfold alias_read; ro. Qed.
Lemma readonly_indexed_max l i : readonly (indexed_max l i). Proof. unfold indexed_max; ro. Qed.
Lemma readonly_lookup_var r name : readonly (lookup_var r name). Proof. unfold lookup_var; ro. Qed.
Lemma readonly_var_string v : readonly (var_string v).
Proof. unfold var_string; ro. Qed.
Hint Resolve readonly_map_read readonly_funcs_read readonly_alias_read readonly_indexed_max
     readonly_lookup_var readonly_var_string : ro.

Lemma triple_env_get fuel e name : triple (env_get fuel e name) (fun _ => True).
Proof. apply triple_readonly; auto with ro. Qed.
Lemma triple_env_each fuel e : triple (env_each fuel e) (fun _ => True).
Proof. apply triple_readonly; auto with ro. Qed.
Lemma triple_map_read m : triple (map_read m) (fun _ => True).
Proof. apply triple_readonly; auto with ro. Qed.
Lemma triple_funcs_read m : triple (funcs_read m) (fun _ => True).
Proof. apply triple_readonly; auto with ro. Qed.
Lemma triple_alias_read m : triple (alias_read m) (fun _ => True).
Proof. apply triple_readonly; auto with ro. Qed.
Lemma triple_indexed_max l i : triple (indexed_max l i) (fun _ => True).
Proof. apply triple_readonly; auto with ro. Qed.
Lemma triple_lookup_var r name : triple (lookup_var r name) (fun _ => True).
Proof. apply triple_readonly; auto with ro. Qed.
Lemma triple_var_string v : triple (var_string v) (fun _ => True).
Proof. apply triple_readonly; auto with ro. Qed.
Hint Resolve triple_env_get triple_env_each triple_map_read triple_funcs_read triple_alias_read
     triple_indexed_max triple_lookup_var triple_var_string : trip.

(* ---- internal/sparse.go -------------------------------------------------------- *)

Lemma triple_canonical idx : owned_s idx -> triple (canonical_indexes idx) owned_s.
Proof. intros. unfold canonical_indexes. tgo. Qed.
Hint Resolve triple_canonical : trip.

Lemma triple_set_sparse l ix k v : owned_s l -> owned_s ix -> triple (set_sparse grow l ix k v) owned2.
Proof. intros. unfold set_sparse, owned2. tgo. Qed.
Hint Resolve triple_set_sparse : trip.

Lemma triple_set_indexed_elem l ix k v :
  owned_s l -> owned_s ix -> triple (set_indexed_elem grow l ix k v) owned2.
Proof. intros. unfold set_indexed_elem, owned2. tgo. Qed.
Hint Resolve triple_set_indexed_elem : trip.

Lemma triple_delete_indexed_elem l ix k :
  owned_s l -> owned_s ix -> triple (delete_indexed_elem l ix k) owned2.
Proof. intros. unfold delete_indexed_elem, owned2. tgo. Qed.
Hint Resolve triple_delete_indexed_elem : trip.

(* ---- maps and overlay environments ------------------------------------------------ *)
Lemma triple_o_set_plain l c : owno l -> not_fs_env c -> triple (o_set l c) (fun _ => True).
Proof.
  intros Ol Hc. apply triple_o_set; auto. intros p vals ->. simpl in Hc. contradiction.
Qed.

Lemma triple_o_alloc_plain c : not_fs_env c -> triple (o_alloc c) owno.
Proof. intros Hc. apply triple_o_alloc. intros p vals ->. simpl in Hc. contradiction. Qed.

Lemma triple_map_clone m : triple (map_clone m) own_opt.
Proof.
  unfold map_clone. destruct m; [|tgo].
  eapply triple_bind; [eauto with trip|]. intros a _.
  eapply triple_bind; [apply triple_o_alloc_plain; exact I|]. intros l' Hl. tgo.
Qed.
Lemma triple_map_put l k v : owno l -> triple (map_put l k v) (fun _ => True).
Proof.
  intros. unfold map_put. eapply triple_bind; [eauto with trip|]. intros c _.
  destruct c; try apply triple_panic. apply triple_o_set_plain; simpl; auto.
Qed.
Lemma triple_map_del l k : owno l -> triple (map_del l k) (fun _ => True).
Proof.
  intros. unfold map_del. eapply triple_bind; [eauto with trip|]. intros c _.
  destruct c; try apply triple_panic. apply triple_o_set_plain; simpl; auto.
Qed.
Hint Resolve triple_map_clone triple_map_put triple_map_del : trip.

(* rewriting the values of an owned overlay keeps its parent and funcScope *)
Lemma triple_env_update e (f : list (str * variable) -> list (str * variable)) :
  owno e ->
  triple (c <- o_get e ;;
          match c with CEnv p fs vals => o_set e (CEnv p fs (f vals)) | _ => panic end)
         (fun _ => True).
Proof.
  intros Oe h Hi. unfold bind, o_get.
  destruct (nth_error (ho h) e) as [c|] eqn:E; [|nochange Hi].
  destruct c; try (nochange Hi).
  unfold o_set; simpl.
  destruct (step_o_set h e (CEnv parent fs (f vals)) Hi Oe) as (F & I).
  - intros p vals' [= -> -> _]. destruct Hi as (_ & C). eapply C; eauto.
  - tsplit; auto.
Qed.

Lemma triple_env_put e name v : owno e -> triple (env_put e name v) (fun _ => True).
Proof. intros. apply (triple_env_update e (al_put name v)); auto. Qed.
Lemma triple_env_del e name : owno e -> triple (env_del e name) (fun _ => True).
Proof. intros. apply (triple_env_update e (al_del name)); auto. Qed.
Hint Resolve triple_env_put triple_env_del : trip.

Definition triple_at {A} (c : M A) (h : heaps) (Q : A -> Prop) : Prop :=
  frame h (snd (c h)) /\ hinv (snd (c h)) /\ (forall a, fst (c h) = Ok a -> Q a).

Lemma bind_o_get_at {B} e (f : ocell -> M B) h (R : B -> Prop) :
  hinv h -> (forall c, nth_error (ho h) e = Some c -> triple_at (f c) h R) ->
  triple_at (bind (o_get e) f) h R.
Proof.
  intros Hi H. unfold triple_at, bind, o_get.
  destruct (nth_error (ho h) e) as [c|] eqn:E; simpl.
  - apply H; auto.
  - nochange Hi.
Qed.

Lemma triple_env_set fuel : forall e name vr, owno e -> triple (env_set fuel e name vr) (fun _ => True).
Proof.
  induction fuel; intros e name vr Oe; simpl; [apply triple_fail|].
  intros h Hi. apply bind_o_get_at; auto. intros c E.
  destruct c; try (apply (triple_panic (fun _ => True) h Hi)).
  destruct (fs && negb (v_local vr) &&
            negb (v_local match al_get name vals with Some v => v | None => var0 end)) eqn:B.
  - destruct parent as [p'|]; [|apply (triple_panic (fun _ => True) h Hi)].
    apply IHfuel; auto.
    apply andb_true_iff in B. destruct B as [B _]. apply andb_true_iff in B. destruct B as [B _]. subst fs.
    destruct Hi as (_ & C). eapply C; eauto.
  - match goal with |- triple_at ?c h _ => assert (T : triple c (fun _ => True)) end.
    { tgo. }
    apply (T h Hi).
Qed.
Hint Resolve triple_env_set : trip.

(* ---- the Runner ---------------------------------------------------------------------- *)
Definition rinv (r : runner) : Prop :=
  owno (r_env r) /\ own_opt (r_funcs r) /\ own_opt (r_alias r) /\ owned_s (r_dirstack r) /\
  Forall (fun f => owno (f_env f)) (r_stack r).

Lemma triple_set_var r name vr : owno (r_env r) -> triple (set_var r name vr) (fun _ => True).
Proof. intros. unfold set_var. eapply triple_ignore_err. apply triple_env_set; auto. Qed.
Lemma triple_del_var r name : owno (r_env r) -> triple (del_var r name) (fun _ => True).
Proof. intros. unfold del_var. eapply triple_ignore_err. apply triple_env_set; auto. Qed.
Lemma triple_set_var_string r name s : owno (r_env r) -> triple (set_var_string r name s) (fun _ => True).
Proof. intros. apply triple_set_var; auto. Qed.
Hint Resolve triple_set_var triple_del_var triple_set_var_string : trip.

Lemma triple_arr_loop es : forall l ix index,
  owned_s l -> owned_s ix -> triple (arr_loop grow es l ix index) owned2.
Proof.
  induction es as [|[[i|] v] es IH]; intros l ix index Hl Hix; simpl.
  - unfold owned2. tgo.
  - eapply triple_bind; [eauto with trip|]. intros mx _.
    match goal with |- triple (if ?b then _ else _) _ => destruct b end.
    + unfold owned2. tgo.
    + eapply triple_bind; [eauto with trip|]. intros [l' ix'] [H1 H2]. simpl in *. apply IH; auto.
  - eapply triple_bind; [eauto with trip|]. intros [l' ix'] [H1 H2]. simpl in *. apply IH; auto.
Qed.
Hint Resolve triple_arr_loop : trip.

Lemma triple_o_alloc_map m : triple (o_alloc (CMap m)) owno.
Proof. apply triple_o_alloc_plain; exact I. Qed.
Lemma triple_o_alloc_funcs m : triple (o_alloc (CFuncs m)) owno.
Proof. apply triple_o_alloc_plain; exact I. Qed.
Lemma triple_o_alloc_alias m : triple (o_alloc (CAlias m)) owno.
Proof. apply triple_o_alloc_plain; exact I. Qed.
Lemma triple_o_set_funcs l m : owno l -> triple (o_set l (CFuncs m)) (fun _ => True).
Proof. intros; apply triple_o_set_plain; simpl; auto. Qed.
Lemma triple_o_set_alias l m : owno l -> triple (o_set l (CAlias m)) (fun _ => True).
Proof. intros; apply triple_o_set_plain; simpl; auto. Qed.
Hint Resolve triple_o_alloc_map triple_o_alloc_funcs triple_o_alloc_alias triple_o_set_funcs triple_o_set_alias : trip.

Lemma triple_assign_val prev app hi rh vt :
  triple (assign_val grow prev app hi rh vt) (fun _ => True).
Proof. unfold assign_val. tgo. Qed.
Hint Resolve triple_assign_val : trip.

Lemma triple_set_var_with_index r prev name index vr ae :
  owno (r_env r) -> triple (set_var_with_index grow r prev name index vr ae) (fun _ => True).
Proof. intros. unfold set_var_with_index. tgo. Qed.
Hint Resolve triple_set_var_with_index : trip.

Lemma triple_unset_elem r name sub : owno (r_env r) -> triple (unset_elem grow r name sub) (fun _ => True).
Proof. intros. unfold unset_elem. tgo. Qed.
Lemma triple_unset_all r name : owno (r_env r) -> triple (unset_all r name) (fun _ => True).
Proof. intros. unfold unset_all. tgo. Qed.
Hint Resolve triple_unset_elem triple_unset_all : trip.

Lemma rinv_set_dir r d : rinv r -> rinv (set_dir d r).
Proof. unfold rinv; destruct r; simpl; auto. Qed.

Lemma triple_change_dir r apath : rinv r -> triple (change_dir r apath) rinv.
Proof.
  intros H. pose proof (rinv_set_dir r apath H) as H'. unfold change_dir.
  destruct H' as (? & ? & ? & ? & ?). tgo; unfold rinv; auto.
Qed.
Hint Resolve triple_change_dir : trip.

(* ---- every operation of a thread keeps the invariant ------------------------------------ *)
Lemma triple_step o r : rinv r -> triple (step grow o r) rinv.
Proof.
  intros H. pose proof H as (He & Hf & Ha & Hd & Hs).
  destruct o; unfold step.
  - (* OAssign *) tgo.
  - (* ODecl *) destruct v, (r_infunc r); tgo.
  - (* OUnset *) tgo.
  - tgo.
  - tgo.
  - (* OUnsetF *) tgo.
  - (* OShift *)
    destruct (Nat.leb (s_len (r_params r)) n); [tgo; unfold rinv; auto|].
    eapply (triple_bind _ _ (fun _ => True)); [apply triple_lift; auto|].
    intros; tgo; unfold rinv; auto.
  - (* OSetParams *) tgo; unfold rinv; auto.
  - (* OCd *) tgo.
  - (* OPushd *)
    eapply triple_bind; [apply triple_change_dir; auto|]. intros r' (He' & Hf' & Ha' & Hd' & Hs').
    tgo; unfold rinv; simpl; auto.
  - (* OPushdSwap *) tgo.
  - (* OPopd *)
    destruct (Nat.ltb (s_len (r_dirstack r)) 2); [tgo|].
    eapply triple_bind; [apply triple_reslice; eauto|]. intros d Hd'.
    eapply triple_bind; [eauto with trip|]. intros nt _.
    apply triple_change_dir. unfold rinv; simpl; auto.
  - (* OAlias *) destruct (r_alias r) eqn:E; tgo; unfold rinv; simpl; rewrite ?E; auto.
  - (* OUnalias *) destruct (r_alias r) eqn:E; tgo.
  - (* OFuncDef *) destruct (r_funcs r) eqn:E; tgo; unfold rinv; simpl; rewrite ?E; auto.
  - (* OSetOpt *) tgo; unfold rinv; auto.
  - (* OCallBegin *)
    eapply triple_bind; [eauto with trip|]. intros p _.
    eapply triple_bind; [apply triple_o_alloc; intros ? ? [= <- _]; exact He|]. intros e Oe.
    apply triple_ret. unfold rinv; simpl. repeat split; auto.
  - (* OCallEnd *)
    destruct (r_stack r) as [|fr rest] eqn:E; [tgo|].
    apply triple_ret. inversion Hs; subst. unfold rinv; simpl; auto.
Qed.

Lemma step_state_inv s o :
  rinv (st_r s) -> hinv (st_h s) ->
  frame (st_h s) (st_h (step_state grow s o)) /\ rinv (st_r (step_state grow s o)) /\
  hinv (st_h (step_state grow s o)).
Proof.
  intros Hr Hi. unfold step_state. destruct (st_panic s).
  { tsplit; auto using frame_refl. }
  destruct (triple_step o (st_r s) Hr (st_h s) Hi) as (F & I & P).
  destruct (step grow o (st_r s) (st_h s)) as [[r'|e|] h']; simpl in *; tsplit; auto.
Qed.

Lemma run_ops_inv ops : forall s,
  rinv (st_r s) -> hinv (st_h s) ->
  frame (st_h s) (st_h (run_ops grow ops s)) /\ rinv (st_r (run_ops grow ops s)) /\
  hinv (st_h (run_ops grow ops s)).
Proof.
  induction ops as [|o ops IH]; intros s Hr Hi; simpl.
  - tsplit; auto using frame_refl.
  - destruct (step_state_inv s o Hr Hi) as (F & R & I).
    destruct (IH _ R I) as (F2 & R2 & I2). tsplit; auto. eapply frame_trans; eauto.
Qed.

(* ---- Runner.subshell ---------------------------------------------------------------------- *)
Lemma triple_set_all e : forall l, owno e -> triple (set_all e l) (fun _ => True).
Proof.
  induction l as [|[n v] l IH]; intros Oe; cbn [set_all]; [tgo|].
  eapply triple_bind; [eapply triple_ignore_err; apply triple_env_set; auto|]. intros; auto.
Qed.

Lemma triple_subshell bg r : triple (subshell grow bg r) rinv.
Proof.
  unfold subshell.
  eapply (triple_bind _ _ owno).
  { destruct bg.
    - eapply triple_bind; [apply triple_o_alloc; intros ? ? [=]|]. intros e Oe.
      eapply triple_bind; [eauto with trip|]. intros all _.
      eapply triple_bind; [apply triple_set_all; auto|]. intros; tgo.
    - apply triple_o_alloc; intros ? ? [=]. }
  intros e Oe.
  eapply (triple_bind _ _ own_opt).
  { unfold map_clone_funcs. destruct (r_funcs r); tgo. }
  intros f Of.
  eapply (triple_bind _ _ own_opt).
  { unfold map_clone_alias. destruct (r_alias r); tgo. }
  intros a Oa'.
  tgo. unfold rinv; simpl; auto.
Qed.

End Own.

(* ======================================================================================= *)
(* What a Runner observes depends only on the cells that existed when the
   observation's roots were created.                                                        *)

Definition agree (na no : nat) (h h' : heaps) : Prop :=
  (forall l, l < na -> nth_error (ha h') l = nth_error (ha h) l) /\
  (forall l, l < no -> nth_error (ho h') l = nth_error (ho h) l).

Definition wf_slice (na : nat) (s : slice) : Prop :=
  match s with SNil => True | Sl l _ _ _ => l < na end.
Definition opt_lt (no : nat) (o : option loc) : Prop :=
  match o with Some l => l < no | None => True end.
Definition wf_var (na no : nat) (v : variable) : Prop :=
  wf_slice na (v_list v) /\ wf_slice na (v_idx v) /\ opt_lt no (v_map v).
Definition wf_vals (na no : nat) (vals : list (str * variable)) : Prop :=
  Forall (fun nv => wf_var na no (snd nv)) vals.
Definition wf_cell (na no : nat) (l : loc) (c : ocell) : Prop :=
  match c with
  | CEnv p _ vals => match p with Some p' => p' < l | None => True end /\ wf_vals na no vals
  | CBase vals => wf_vals na no vals
  | _ => True
  end.
(* no dangling pointers: what Go's memory safety guarantees of any reachable state *)
Definition wf_heap (h : heaps) : Prop :=
  forall l c, nth_error (ho h) l = Some c -> wf_cell (length (ha h)) (length (ho h)) l c.
Definition wf_runner (r : runner) (h : heaps) : Prop :=
  r_env r < length (ho h) /\ opt_lt (length (ho h)) (r_funcs r) /\ opt_lt (length (ho h)) (r_alias r) /\
  wf_slice (length (ha h)) (r_dirstack r) /\ wf_slice (length (ha h)) (r_params r).

Section Agree.
Variables h h' : heaps.
Let na := length (ha h).
Let no := length (ho h).
Hypothesis AG : agree na no h h'.
Hypothesis WF : wf_heap h.

Lemma elems_agree s : wf_slice na s -> elems (ha h') s = elems (ha h) s.
Proof.
  destruct s as [|l o n c]; simpl; auto. intros L. unfold arr.
  rewrite (nth_of_nth_error (ha h) (ha h') l []); auto. apply AG; auto.
Qed.

Lemma bind_o_get {B} e (f : ocell -> M B) g :
  bind (o_get e) f g = match nth_error (ho g) e with Some c => f c g | None => (Panic, g) end.
Proof. unfold bind, o_get. destruct (nth_error (ho g) e); reflexivity. Qed.

Lemma al_get_wf name vals v : wf_vals na no vals -> al_get name vals = Some v -> wf_var na no v.
Proof.
  induction 1 as [|[k x] t Hx Ht IH]; simpl; [discriminate|].
  destruct (str_eqb k name); auto. intros [= <-]; auto.
Qed.

Lemma wf_var0 : wf_var na no var0.
Proof. unfold wf_var, var0; simpl; auto. Qed.

Lemma env_get_agree fuel : forall e name, e < no ->
  fst (env_get fuel e name h') = fst (env_get fuel e name h) /\
  (forall v, fst (env_get fuel e name h) = Ok v -> wf_var na no v).
Proof.
  induction fuel; intros e name L; simpl; [split; auto; discriminate|].
  rewrite !bind_o_get. destruct AG as [_ AGo]. rewrite (AGo e L).
  destruct (nth_error (ho h) e) as [c|] eqn:E; [|split; auto; discriminate].
  pose proof (WF e c E) as W.
  destruct c; simpl; try (split; auto; discriminate).
  - destruct W as [Wp Wv].
    destruct (al_get name vals) eqn:G.
    + simpl. split; auto. intros v0 [= <-]. eapply al_get_wf; eauto.
    + destruct parent as [p'|].
      * apply IHfuel. fold no. lia.
      * simpl. split; auto. intros v0 [= <-]. apply wf_var0.
  - split; auto. intros v0 [= <-]. destruct (al_get name vals) eqn:G.
    + eapply al_get_wf; eauto.
    + apply wf_var0.
Qed.

Lemma env_each_agree fuel : forall e, e < no ->
  fst (env_each fuel e h') = fst (env_each fuel e h).
Proof.
  induction fuel; intros e L; simpl; auto.
  rewrite !bind_o_get. destruct AG as [_ AGo]. rewrite (AGo e L).
  destruct (nth_error (ho h) e) as [c|] eqn:E; auto.
  pose proof (WF e c E) as W.
  destruct c; simpl; auto.
  destruct W as [Wp Wv]. destruct parent as [p'|]; simpl; auto.
  assert (Lp : p' < no) by (fold no; lia).
  specialize (IHfuel p' Lp).
  unfold bind.
  pose proof (readonly_env_each fuel p' h') as R1. pose proof (readonly_env_each fuel p' h) as R2.
  destruct (env_each fuel p' h') as [r1 g1]; destruct (env_each fuel p' h) as [r2 g2]; simpl in *; subst.
  destruct r2; reflexivity.
Qed.

Lemma map_read_agree m : opt_lt no m -> fst (map_read m h') = fst (map_read m h).
Proof.
  destruct m as [l|]; simpl; auto. intros L. rewrite !bind_o_get.
  destruct AG as [_ AGo]. rewrite (AGo l L).
  destruct (nth_error (ho h) l) as [c|]; auto. destruct c; reflexivity.
Qed.
Lemma funcs_read_agree m : opt_lt no m -> fst (funcs_read m h') = fst (funcs_read m h).
Proof.
  destruct m as [l|]; simpl; auto. intros L. rewrite !bind_o_get.
  destruct AG as [_ AGo]. rewrite (AGo l L).
  destruct (nth_error (ho h) l) as [c|]; auto. destruct c; reflexivity.
Qed.
Lemma alias_read_agree m : opt_lt no m -> fst (alias_read m h') = fst (alias_read m h).
Proof.
  destruct m as [l|]; simpl; auto. intros L. rewrite !bind_o_get.
  destruct AG as [_ AGo]. rewrite (AGo l L).
  destruct (nth_error (ho h) l) as [c|]; auto. destruct c; reflexivity.
Qed.

Lemma resolve_var_agree v : wf_var na no v -> resolve_var h' v = resolve_var h v.
Proof.
  intros (W1 & W2 & W3). unfold resolve_var.
  rewrite (elems_agree _ W1), (elems_agree _ W2).
  destruct (v_map v) as [l|] eqn:E; auto.
  rewrite (map_read_agree (Some l)); auto.
Qed.

Lemma observe_var_agree r name : r_env r < no -> observe_var r h' name = observe_var r h name.
Proof.
  intros L. unfold observe_var, lookup_var, bind.
  destruct (env_get_agree (chain_fuel (r_env r)) (r_env r) name L) as [E W].
  destruct (env_get (chain_fuel (r_env r)) (r_env r) name h') as [r1 g1].
  destruct (env_get (chain_fuel (r_env r)) (r_env r) name h) as [r2 g2]. simpl in *. subst r1.
  destruct r2 as [v| |]; simpl; auto.
  f_equal. apply resolve_var_agree.
  destruct (declared v); [apply W; auto | apply wf_var0].
Qed.

Lemma observe_agree r : wf_runner r h -> observe r h' = observe r h.
Proof.
  intros (L & Lf & La & Ld & Lp). unfold observe.
  rewrite (funcs_read_agree _ Lf), (alias_read_agree _ La), (elems_agree _ Ld), (elems_agree _ Lp).
  f_equal.
  pose proof (env_each_agree (chain_fuel (r_env r)) (r_env r) L) as E.
  destruct (env_each (chain_fuel (r_env r)) (r_env r) h') as [r1 g1].
  destruct (env_each (chain_fuel (r_env r)) (r_env r) h) as [r2 g2]. simpl in E. subst r1.
  destruct r2; auto. f_equal. apply map_ext. intros nv. f_equal. apply observe_var_agree; auto.
Qed.

End Agree.

(* ======================================================================================= *)
(* C27: a subshell and everything it runs leave the parent's observation unchanged           *)

Lemma run_ops_panic grow ops : forall s, st_panic s = true -> run_ops grow ops s = s.
Proof.
  induction ops as [|o ops IH]; intros s H; simpl; auto.
  assert (E : step_state grow s o = s) by (unfold step_state; rewrite H; auto).
  rewrite E. apply IH; auto.
Qed.

Section Isolated.
Variable grow : nat -> nat -> nat.
Variables (r : runner) (h : heaps).
Let owna := fun l => length (ha h) <= l.
Let owno := fun l => length (ho h) <= l.

Lemma hinv_start : hinv owna owno h.
Proof.
  split; [split; auto|]. intros l p vals Ol E.
  assert (nth_error (ho h) l = None) by (apply nth_error_None; auto). congruence.
Qed.

Lemma frame_agree g : frame owna owno h g -> agree (length (ha h)) (length (ho h)) h g.
Proof.
  intros (_ & _ & A & O). split; intros l L; [apply A | apply O]; unfold owna, owno; lia.
Qed.

Lemma child_frame bg ops :
  frame owna owno h (st_h (run_ops grow ops (subshell_state grow bg r h))).
Proof.
  unfold subshell_state.
  destruct (triple_subshell grow owna owno bg r h hinv_start) as (F & I & P).
  destruct (subshell grow bg r h) as [[r2|e|] h1]; simpl in *.
  - destruct (run_ops_inv grow owna owno ops (mkSt r2 h1 false) (P r2 eq_refl) I) as (F2 & _ & _).
    simpl in F2. eapply frame_trans; eauto.
  - rewrite run_ops_panic; auto.
  - rewrite run_ops_panic; auto.
Qed.

Theorem isolated bg ops :
  wf_heap h -> wf_runner r h ->
  observe r (st_h (run_ops grow ops (subshell_state grow bg r h))) = observe r h.
Proof.
  intros WH WR. apply observe_agree; auto. apply frame_agree. apply child_frame.
Qed.

(* the invariant itself: every cell that existed when the subshell was created is untouched *)
Theorem child_writes_only_own_cells bg ops :
  let g := st_h (run_ops grow ops (subshell_state grow bg r h)) in
  (forall l, l < length (ha h) -> nth_error (ha g) l = nth_error (ha h) l) /\
  (forall l, l < length (ho h) -> nth_error (ho g) l = nth_error (ho h) l).
Proof. apply frame_agree, child_frame. Qed.

End Isolated.

(* ======================================================================================= *)
(* C32 (model level): each thread only writes what it owns                                   *)

Section Threads.
Variable grow : nat -> nat -> nat.

(* the thread that continues in the parent Runner: P marks the cells only it can reach
   (its overlay chain, Funcs, alias, dirStack array); everything allocated later is its own *)
Theorem parent_writes_only_own_cells (Pa Po : loc -> Prop) r h ops :
  let owna := fun l => Pa l \/ length (ha h) <= l in
  let owno := fun l => Po l \/ length (ho h) <= l in
  rinv owna owno r -> fs_closed owno h ->
  let g := st_h (run_ops grow ops (mkSt r h false)) in
  (forall l, l < length (ha h) -> ~ Pa l -> nth_error (ha g) l = nth_error (ha h) l) /\
  (forall l, l < length (ho h) -> ~ Po l -> nth_error (ho g) l = nth_error (ho h) l).
Proof.
  intros owna owno R C g.
  assert (Hi : hinv owna owno h).
  { split; auto. split; intros l L; right; auto. }
  destruct (run_ops_inv grow owna owno ops (mkSt r h false) R Hi) as ((_ & _ & A & O) & _ & _).
  split; intros l L N; [apply A | apply O]; unfold owna, owno; intros [X|X]; auto; lia.
Qed.

End Threads.

(* ---- bgProcs / wait ------------------------------------------------------------------------ *)
Definition good_job (j : job) : Prop :=
  (j_pc j = 0 /\ j_done j = false) \/ j_exit j = j_status j.

Lemma map_set_nth {A B} (f : A -> B) (l : list A) i x :
  nth_error l i <> None -> f x = match nth_error l i with Some y => f y | None => f x end ->
  map f (set_nth l i x) = map f l.
Proof.
  revert i; induction l as [|a l IH]; intros [|i] H E; simpl in *; auto; try congruence.
  f_equal. apply IH; auto.
Qed.

Lemma Forall_set_nth {A} (P : A -> Prop) (l : list A) i x : Forall P l -> P x -> Forall P (set_nth l i x).
Proof.
  intros H; revert i; induction H; intros [|i] Px; simpl; auto.
Qed.

Lemma good_job_step j : good_job j -> good_job (job_step j).
Proof.
  unfold good_job, job_step. intros [[P D]|E].
  - rewrite P. simpl. auto.
  - destruct (j_pc j) as [|[|k]]; simpl; auto.
Qed.

Lemma run_events_inv evs : forall js,
  Forall good_job js ->
  Forall good_job (run_events evs js) /\
  map j_status (run_events evs js) = map j_status js ++ spawned evs.
Proof.
  induction evs as [|e evs IH]; intros js G; simpl.
  - rewrite app_nil_r; auto.
  - destruct e as [s|i]; simpl.
    + destruct (IH (js ++ [mkJob 0 false 0 s])) as [G' M'].
      { apply Forall_app; split; auto. constructor; auto. left; auto. }
      split; auto. rewrite M', map_app, <- app_assoc. reflexivity.
    + destruct (nth_error js i) as [j|] eqn:E; [|apply IH; auto].
      destruct (IH (set_nth js i (job_step j))) as [G' M'].
      { apply Forall_set_nth; auto. apply good_job_step.
        eapply Forall_forall; eauto. eapply nth_error_In; eauto. }
      split; auto. rewrite M'. f_equal. apply map_set_nth; try congruence.
      rewrite E. unfold job_step. destruct (j_pc j) as [|[|k]]; reflexivity.
Qed.

Lemma done_pc evs : forall js,
  Forall (fun j => j_done j = true -> 1 <= j_pc j) js ->
  Forall (fun j => j_done j = true -> 1 <= j_pc j) (run_events evs js).
Proof.
  induction evs as [|e evs IH]; intros js G; simpl; auto.
  destruct e as [s|i]; simpl.
  - apply IH. apply Forall_app; split; auto. constructor; auto. simpl; discriminate.
  - destruct (nth_error js i) as [j|] eqn:E; [|apply IH; auto].
    apply IH. apply Forall_set_nth; auto.
    assert (Hj : j_done j = true -> 1 <= j_pc j).
    { eapply (proj1 (Forall_forall _ _) G). eapply nth_error_In; eauto. }
    unfold job_step. destruct (j_pc j) as [|[|k]] eqn:P; simpl; auto. intros D. apply Hj in D. lia.
Qed.

Theorem wait_status evs n st :
  wait_result (run_events evs []) (S n) = Some (Ok st) -> nth_error (spawned evs) n = Some st.
Proof.
  simpl. destruct (run_events_inv evs [] (Forall_nil _)) as [G M]. simpl in M.
  pose proof (done_pc evs [] (Forall_nil _)) as D.
  destruct (nth_error (run_events evs []) n) as [j|] eqn:E; [|discriminate].
  destruct (j_done j) eqn:Dj; [|discriminate]. intros [= <-].
  rewrite <- M. rewrite nth_error_map, E. simpl. f_equal.
  assert (Gj : good_job j) by (eapply (proj1 (Forall_forall _ _) G); eapply nth_error_In; eauto).
  destruct Gj as [[P Dn]|X]; auto. congruence.
Qed.

Theorem wait_not_child evs n :
  length (spawned evs) <= n -> wait_result (run_events evs []) (S n) = Some (Err 1%N).
Proof.
  simpl. destruct (run_events_inv evs [] (Forall_nil _)) as [G M]. simpl in M.
  intros L. assert (nth_error (run_events evs []) n = None) as ->; auto.
  apply nth_error_None. rewrite <- (map_length j_status), M. auto.
Qed.

(* once job n has taken its two steps, wait returns *)
Theorem wait_returns evs n :
  (exists j, nth_error (run_events evs []) n = Some j /\ j_pc j = 2) ->
  exists st, wait_result (run_events evs []) (S n) = Some (Ok st).
Proof.
  intros (j & E & P). simpl. rewrite E.
  assert (Forall (fun j => j_pc j = 2 -> j_done j = true) (run_events evs [])) as F.
  { clear. generalize (@nil job) (Forall_nil (fun j => j_pc j = 2 -> j_done j = true)).
    induction evs as [|e evs IH]; intros js G; simpl; auto.
    destruct e as [s|i]; simpl.
    - apply IH. apply Forall_app; split; auto. constructor; auto. simpl; discriminate.
    - destruct (nth_error js i) as [j|] eqn:E; [|apply IH; auto].
      apply IH. apply Forall_set_nth; auto.
      assert (Hj : j_pc j = 2 -> j_done j = true).
      { eapply (proj1 (Forall_forall _ _) G). eapply nth_error_In; eauto. }
      unfold job_step. destruct (j_pc j) as [|[|k]] eqn:P; simpl; auto; try discriminate.
      intros; apply Hj; congruence. }
  rewrite (proj1 (Forall_forall _ _) F j (nth_error_In _ _ E) P). eauto.
Qed.

(* ======================================================================================= *)
(* concrete witnesses                                                                         *)
Open Scope N_scope.
Definition ex_grow (old need : nat) : nat := need.
Definition ex_base : state :=
  mkSt (mkR 1%nat None None [] [] SNil SNil false []) (mkH [] [CBase []; CEnv (Some 0%nat) false []]) false.
(* parent: a=(x y); m=(["k"]=v); f() { ..1.. } *)
Definition ex_parent_ops : list op :=
  [ OAssign [97] None false (RArr [(None, [120]); (None, [121])]);
    OAssign [109] None false (RAssocLit [([107], [118])]);
    OFuncDef [102] 1 ].
Definition ex_parent : state := run_ops ex_grow ex_parent_ops ex_base.
(* child: a+=z; a[1]=w; m[k]=u; unset -f f; cd /t *)
Definition ex_child_ops : list op :=
  [ OAssign [97] None true (RStr [122]);
    OAssign [97] (Some (1%Z, [49])) false (RStr [119]);
    OAssign [109] (Some (0%Z, [107])) false (RStr [117]);
    OUnsetF [102];
    OCd [47; 116] ].
Close Scope N_scope.

Lemma ex_parent_wf : wf_heap (st_h ex_parent) /\ wf_runner (st_r ex_parent) (st_h ex_parent).
Proof.
  split.
  - intros l c E. vm_compute in E.
    do 4 (destruct l as [|l]; [injection E as <-; vm_compute; repeat (split || constructor); auto; lia|]).
    destruct l; discriminate.
  - vm_compute. repeat split; auto; lia.
Qed.

(* the child really changes what it sees itself (the theorem is not about no-ops) *)
Definition ex_child (bg : bool) : state :=
  run_ops ex_grow ex_child_ops (subshell_state ex_grow bg (st_r ex_parent) (st_h ex_parent)).
Lemma ex_child_sees_change bg :
  observe_var (st_r (ex_child bg)) (st_h (ex_child bg)) [97%N] <>
  observe_var (st_r ex_parent) (st_h ex_parent) [97%N].
Proof. unfold not; intro E. destruct bg; vm_compute in E; discriminate E. Qed.

(* the last stage of a pipeline runs in the parent Runner itself *)
Lemma pipeline_last_stage_changes_parent :
  exists r h right_,
    wf_heap h /\ wf_runner r h /\
    observe (st_r (pipeline ex_grow [] right_ r h)) (st_h (pipeline ex_grow [] right_ r h)) <> observe r h.
Proof.
  exists (st_r ex_parent), (st_h ex_parent), [OAssign [97%N] None false (RStr [53%N])].
  destruct ex_parent_wf as [A B]. split; [exact A | split; [exact B |]].
  unfold not; intro E. vm_compute in E. discriminate E.
Qed.

(* the code before fix d35f0af: assignVal's `prev.List[0] += s` without cloning *)
Definition old_append_scalar (r : runner) (name s : str) : M unit :=
  prev <- lookup_var r name ;;
  old <- m_index (v_list prev) 0 ;;
  _ <- m_store (v_list prev) 0 (VS (val_str old ++ s)) ;;
  set_var r name (with_set true prev).
Definition old_child_heap (bg : bool) (r : runner) (h : heaps) : heaps :=
  snd (old_append_scalar (st_r (subshell_state ex_grow bg r h)) [97%N] [122%N]
                         (st_h (subshell_state ex_grow bg r h))).

Lemma old_append_scalar_changes_parent bg :
  exists r h, wf_heap h /\ wf_runner r h /\ observe r (old_child_heap bg r h) <> observe r h.
Proof.
  exists (st_r ex_parent), (st_h ex_parent).
  destruct ex_parent_wf as [A B]. split; [exact A | split; [exact B |]].
  unfold not; intro E. destruct bg; vm_compute in E; discriminate E.
Qed.
