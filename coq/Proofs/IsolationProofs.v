(* Proofs/IsolationProofs.v — the ownership (frame) invariant of the shell-state
   model: a thread only stores into cells it owns. *)
From Verif Require Import Base.Str Base.GoSlice Interp.Isolation.
From Coq Require Import Lia.
Open Scope nat_scope.

(* ---- lists ------------------------------------------------------------------ *)
Lemma set_nth_length {A} (l : list A) i x : length (set_nth l i x) = length l.
Proof. revert i; induction l; destruct i; simpl; auto. Qed.

Lemma nth_error_set_nth_other {A} (l : list A) i j x :
  i <> j -> nth_error (set_nth l i x) j = nth_error l j.
Proof.
  revert i j; induction l as [|a l IH]; intros i j H; destruct i, j; simpl; auto; try congruence.
Qed.

Lemma nth_error_app_below {A} (l : list A) c j : j < length l -> nth_error (l ++ [c]) j = nth_error l j.
Proof. intros; apply nth_error_app1; auto. Qed.

Lemma nth_of_nth_error {A} (l l' : list A) i d :
  nth_error l' i = nth_error l i -> nth i l' d = nth i l d.
Proof.
  intros H. destruct (nth_error l i) eqn:E.
  - rewrite (nth_error_nth _ _ d E). apply (nth_error_nth _ _ d H).
  - apply nth_error_None in E. apply nth_error_None in H.
    rewrite !nth_overflow; auto.
Qed.

Ltac tsplit := split; [|split].

Section Own.
Variable grow : nat -> nat -> nat.
(* the cells this thread owns; every location not yet allocated counts as owned *)
Variables owna owno : loc -> Prop.

Definition fresh_owned (h : heaps) : Prop :=
  (forall l, length (ha h) <= l -> owna l) /\ (forall l, length (ho h) <= l -> owno l).

(* an owned function-scope overlay forwards Set to an owned parent *)
Definition fs_closed (h : heaps) : Prop :=
  forall l p vals, owno l -> nth_error (ho h) l = Some (CEnv (Some p) true vals) -> owno p.

Definition hinv (h : heaps) : Prop := fresh_owned h /\ fs_closed h.

(* every cell that is not owned keeps its contents *)
Definition frame (h h' : heaps) : Prop :=
  length (ha h) <= length (ha h') /\ length (ho h) <= length (ho h') /\
  (forall l, ~ owna l -> nth_error (ha h') l = nth_error (ha h) l) /\
  (forall l, ~ owno l -> nth_error (ho h') l = nth_error (ho h) l).

Lemma frame_refl h : frame h h.
Proof. unfold frame; intuition. Qed.

Lemma frame_trans h1 h2 h3 : frame h1 h2 -> frame h2 h3 -> frame h1 h3.
Proof.
  unfold frame; intros (A1 & B1 & C1 & D1) (A2 & B2 & C2 & D2); repeat split; try lia.
  - intros l H; rewrite C2, C1; auto.
  - intros l H; rewrite D2, D1; auto.
Qed.

Lemma frame_eta h : frame h (mkH (ha h) (ho h)).
Proof. unfold frame; simpl; intuition. Qed.
Lemma hinv_eta h : hinv h -> hinv (mkH (ha h) (ho h)).
Proof. unfold hinv, fresh_owned, fs_closed; simpl; auto. Qed.

Ltac nochange Hi :=
  tsplit; [ first [apply frame_refl | apply frame_eta]
          | first [exact Hi | apply hinv_eta; exact Hi]
          | try (intros; exact I); try (intros; discriminate) ].

Definition triple {A} (c : M A) (Q : A -> Prop) : Prop :=
  forall h, hinv h ->
    frame h (snd (c h)) /\ hinv (snd (c h)) /\ (forall a, fst (c h) = Ok a -> Q a).

Lemma triple_ret {A} (a : A) (Q : A -> Prop) : Q a -> triple (ret a) Q.
Proof. intros H h Hi; simpl; nochange Hi. intros ? [= <-]; auto. Qed.

Lemma triple_fail {A} e (Q : A -> Prop) : triple (fail e) Q.
Proof. intros h Hi; simpl; nochange Hi. Qed.

Lemma triple_panic {A} (Q : A -> Prop) : triple panic Q.
Proof. intros h Hi; simpl; nochange Hi. Qed.

Lemma triple_lift {A} (r : res A) (Q : A -> Prop) : (forall a, r = Ok a -> Q a) -> triple (lift r) Q.
Proof. intros H h Hi; simpl; nochange Hi. auto. Qed.

Lemma triple_bind {A B} (c : M A) (f : A -> M B) (Q : A -> Prop) (R : B -> Prop) :
  triple c Q -> (forall a, Q a -> triple (f a) R) -> triple (bind c f) R.
Proof.
  intros Hc Hf h Hi. unfold bind. destruct (Hc h Hi) as (F & I & P).
  destruct (c h) as [[a|e|] h1]; simpl in *.
  - destruct (Hf a (P a eq_refl) h1 I) as (F2 & I2 & P2).
    tsplit; auto. eapply frame_trans; eauto.
  - tsplit; auto; intros; discriminate.
  - tsplit; auto; intros; discriminate.
Qed.

Lemma triple_weaken {A} (c : M A) (Q Q' : A -> Prop) :
  triple c Q -> (forall a, Q a -> Q' a) -> triple c Q'.
Proof. intros H W h Hi. destruct (H h Hi) as (F & I & P); tsplit; auto. Qed.

Lemma triple_ignore_err (c : M unit) (Q : unit -> Prop) :
  triple c Q -> triple (ignore_err c) (fun _ => True).
Proof.
  intros H h Hi. unfold ignore_err. destruct (H h Hi) as (F & I & P).
  destruct (c h) as [[a|e|] h1]; simpl in *; tsplit; auto.
Qed.

(* a computation that leaves the heaps alone *)
Definition readonly {A} (c : M A) : Prop := forall h, snd (c h) = h.

Lemma triple_readonly {A} (c : M A) : readonly c -> triple c (fun _ => True).
Proof. intros H h Hi. rewrite H. nochange Hi. Qed.

Lemma readonly_ret {A} (a : A) : readonly (ret a). Proof. intro; reflexivity. Qed.
Lemma readonly_fail {A} e : readonly (@fail A e). Proof. intro; reflexivity. Qed.
Lemma readonly_panic {A} : readonly (@panic A). Proof. intro; reflexivity. Qed.
Lemma readonly_lift {A} (r : res A) : readonly (lift r). Proof. intro; reflexivity. Qed.
Lemma readonly_bind {A B} (c : M A) (f : A -> M B) :
  readonly c -> (forall a, readonly (f a)) -> readonly (bind c f).
Proof.
  intros Hc Hf h. unfold bind. specialize (Hc h). destruct (c h) as [[a|e|] h1]; simpl in *; subst; auto.
  apply Hf.
Qed.
Lemma readonly_m_elems s : readonly (m_elems s). Proof. intro; reflexivity. Qed.
Lemma readonly_m_index s i : readonly (m_index s i). Proof. intro; reflexivity. Qed.
Lemma readonly_o_get l : readonly (o_get l).
Proof. intro h; unfold o_get; destruct (nth_error (ho h) l); reflexivity. Qed.

(* ---- array heap primitives -------------------------------------------------- *)
Definition owned_s (s : slice) : Prop :=
  match s with
  | SNil => True
  | Sl l _ n c => owna l \/ (n = 0 /\ c = 0)
  end.

Lemma hinv_ha h a' : hinv h -> length (ha h) <= length a' -> hinv (mkH a' (ho h)).
Proof.
  intros ((Fa & Fo) & C) L. split; [split|]; simpl; auto.
  intros l Hl; apply Fa; lia.
Qed.

Lemma step_hwrite h l pos (vs : list val) :
  hinv h -> owna l ->
  frame h (mkH (hwrite (ha h) l pos vs) (ho h)) /\ hinv (mkH (hwrite (ha h) l pos vs) (ho h)).
Proof.
  intros Hi Ho. unfold hwrite. split.
  - unfold frame; simpl. rewrite set_nth_length. repeat split; auto.
    intros l' Hn. apply nth_error_set_nth_other. intro; subst; auto.
  - apply hinv_ha; auto. rewrite set_nth_length; auto.
Qed.

Lemma step_halloc h (c : list val) :
  hinv h ->
  frame h (mkH (ha h ++ [c]) (ho h)) /\ hinv (mkH (ha h ++ [c]) (ho h)) /\ owna (length (ha h)).
Proof.
  intros Hi. pose proof Hi as ((Fa & Fo) & C). split; [|split].
  - unfold frame; simpl. rewrite app_length; simpl. repeat split; auto; try lia.
    intros l Hn. apply nth_error_app_below.
    destruct (Nat.lt_ge_cases l (length (ha h))); auto. exfalso; auto.
  - apply hinv_ha; auto. rewrite app_length; simpl; lia.
  - apply Fa; auto.
Qed.

Lemma triple_m_alloc_list z l c : triple (m_alloc_list z l c) owned_s.
Proof.
  intros h Hi. unfold m_alloc_list, alloc_list, halloc. simpl.
  destruct (step_halloc h (l ++ repeat z (Nat.max c (length l) - length l)) Hi) as (F & I & O).
  tsplit; auto. intros a [= <-]. simpl; auto.
Qed.

Lemma triple_m_store s i v : owned_s s -> triple (m_store s i v) (fun _ => True).
Proof.
  intros Ho h Hi. unfold m_store, store. destruct s as [|l o n c]; simpl.
  - nochange Hi.
  - destruct (Nat.ltb i n) eqn:E; simpl.
    + destruct Ho as [Ho|[-> _]]; [|apply Nat.ltb_lt in E; lia].
      destruct (step_hwrite h l (o + i) [v] Hi Ho); tsplit; auto.
    + nochange Hi.
Qed.

Lemma triple_m_append z s vs : owned_s s -> triple (m_append grow z s vs) owned_s.
Proof.
  intros Ho h Hi. unfold m_append, append.
  destruct vs as [|v vs].
  - simpl. nochange Hi. intros a [= <-]; auto.
  - destruct s as [|l o n c].
    + apply (triple_m_alloc_list z (v :: vs) _ h Hi).
    + destruct (Nat.leb (n + length (v :: vs)) c) eqn:E.
      * simpl. destruct Ho as [Ho|[-> ->]]; [|apply Nat.leb_le in E; simpl in E; lia].
        destruct (step_hwrite h l (o + n) (v :: vs) Hi Ho); tsplit; auto.
        intros a [= <-]; simpl; auto.
      * apply (triple_m_alloc_list z _ _ h Hi).
Qed.

Lemma triple_m_clone z s : triple (m_clone grow z s) owned_s.
Proof.
  intros h Hi. unfold m_clone, clone. destruct s as [|l o n c].
  - simpl. nochange Hi. intros a [= <-]; simpl; auto.
  - destruct n.
    + simpl. nochange Hi. intros a [= <-]; simpl; auto.
    + apply (triple_m_alloc_list z _ _ h Hi).
Qed.

Lemma triple_m_insert z s i v : owned_s s -> triple (m_insert grow z s i v) owned_s.
Proof.
  intros Ho h Hi. unfold m_insert, insert.
  destruct (Nat.ltb (s_len s) i).
  { simpl. nochange Hi. }
  destruct (Nat.eqb i (s_len s)).
  { apply (triple_m_append z s [v] Ho h Hi). }
  destruct s as [|l o n c].
  { simpl. nochange Hi. }
  simpl s_len. destruct (Nat.ltb c (n + 1)) eqn:E.
  - apply (triple_m_alloc_list z _ _ h Hi).
  - simpl. destruct Ho as [Ho|[-> ->]]; [|apply Nat.ltb_ge in E; lia].
    destruct (step_hwrite h l o (firstn i (elems (ha h) (Sl l o n c)) ++ v :: skipn i (elems (ha h) (Sl l o n c))) Hi Ho).
    tsplit; auto. intros a [= <-]; simpl; auto.
Qed.

Lemma triple_m_delete z s i j : owned_s s -> triple (m_delete z s i j) owned_s.
Proof.
  intros Ho h Hi. unfold m_delete, delete.
  destruct (negb (Nat.leb i j && Nat.leb j (s_len s))) eqn:B.
  { simpl. nochange Hi. }
  destruct (Nat.eqb i j) eqn:E.
  { simpl. nochange Hi. intros a [= <-]; auto. }
  destruct s as [|l o n c].
  { simpl. nochange Hi. }
  simpl. destruct Ho as [Ho|[-> ->]].
  - match goal with |- context [hwrite ?a ?b ?c ?d] => destruct (step_hwrite h b c d Hi Ho) end.
    tsplit; auto. intros a [= <-]; simpl; auto.
  - apply negb_false_iff, andb_true_iff in B. destruct B as [B1 B2].
    apply Nat.leb_le in B1, B2. simpl in B2. apply Nat.eqb_neq in E. lia.
Qed.

Lemma owned_reslice s lo hi s' : owned_s s -> reslice s lo hi = Ok s' -> owned_s s'.
Proof.
  intros Ho. unfold reslice. destruct s as [|l o n c].
  - destruct (Nat.eqb lo 0 && Nat.eqb hi 0); intros [= <-]; simpl; auto.
  - destruct (Nat.leb lo hi && Nat.leb hi c) eqn:B; intros [= <-]. simpl.
    destruct Ho as [Ho|[-> ->]]; auto. right.
    apply andb_true_iff in B. destruct B as [B1 B2]. apply Nat.leb_le in B1, B2. lia.
Qed.

Lemma triple_reslice s lo hi : owned_s s -> triple (lift (reslice s lo hi)) owned_s.
Proof. intros Ho. apply triple_lift. intros a. apply owned_reslice; auto. Qed.

(* ---- object heap primitives -------------------------------------------------- *)
Definition own_opt (o : option loc) : Prop := match o with None => True | Some l => owno l end.

Lemma hinv_len h : hinv h -> forall l, ~ owno l -> l < length (ho h).
Proof.
  intros ((Fa & Fo) & C) l Hn. destruct (Nat.lt_ge_cases l (length (ho h))); auto. exfalso; auto.
Qed.

Lemma triple_o_alloc c :
  (forall p vals, c = CEnv (Some p) true vals -> owno p) -> triple (o_alloc c) owno.
Proof.
  intros Hc h Hi. pose proof Hi as ((Fa & Fo) & C). unfold o_alloc; simpl.
  tsplit.
  - unfold frame; simpl. rewrite app_length; simpl. repeat split; auto; try lia.
    intros l Hn. apply nth_error_app_below. apply hinv_len; auto.
  - split; [split|]; simpl; auto.
    + intros l Hl. apply Fo. rewrite app_length in Hl; simpl in Hl; lia.
    + intros l p vals Ol E. simpl in E.
      destruct (Nat.lt_ge_cases l (length (ho h))) as [L|L].
      * rewrite nth_error_app1 in E by auto. eapply C; eauto.
      * rewrite nth_error_app2 in E by auto.
        destruct (l - length (ho h)) as [|k] eqn:K; simpl in E.
        -- injection E as E. eapply Hc; eauto.
        -- destruct k; discriminate.
  - intros a [= <-]. apply Fo; auto.
Qed.

Definition not_fs_env (c : ocell) : Prop :=
  match c with CEnv (Some _) true _ => False | _ => True end.

Lemma step_o_set h l c :
  hinv h -> owno l ->
  (forall p vals, c = CEnv (Some p) true vals -> owno p) ->
  frame h (mkH (ha h) (set_nth (ho h) l c)) /\ hinv (mkH (ha h) (set_nth (ho h) l c)).
Proof.
  intros Hi Ol Hc. pose proof Hi as ((Fa & Fo) & C). split.
  - unfold frame; simpl. rewrite set_nth_length. repeat split; auto.
    intros l' Hn. apply nth_error_set_nth_other. intro; subst; auto.
  - split; [split|]; simpl; auto.
    + intros l' Hl. apply Fo. rewrite set_nth_length in Hl; auto.
    + intros l' p vals Ol' E. simpl in E. destruct (Nat.eq_dec l l') as [->|N].
      * destruct (nth_error (ho h) l') eqn:E0.
        -- assert (nth_error (set_nth (ho h) l' c) l' = Some c) as E1.
           { clear - E0. revert l' E0. induction (ho h); destruct l'; simpl; intros; try discriminate; auto. }
           rewrite E1 in E. injection E as E. eapply Hc; eauto.
        -- assert (nth_error (set_nth (ho h) l' c) l' = None) as E1.
           { apply nth_error_None. rewrite set_nth_length. apply nth_error_None; auto. }
           congruence.
      * rewrite nth_error_set_nth_other in E by auto. eapply C; eauto.
Qed.

Lemma triple_o_set l c :
  owno l -> (forall p vals, c = CEnv (Some p) true vals -> owno p) ->
  triple (o_set l c) (fun _ => True).
Proof.
  intros Ol Hc h Hi. unfold o_set; simpl. destruct (step_o_set h l c Hi Ol Hc). tsplit; auto.
Qed.

Lemma triple_o_get l : triple (o_get l) (fun _ => True).
Proof. apply triple_readonly, readonly_o_get. Qed.

Definition owned2 (p : slice * slice) : Prop := owned_s (fst p) /\ owned_s (snd p).
Definition owned2o (b : option (slice * slice)) : Prop := match b with Some p => owned2 p | None => True end.

(* ---- automation --------------------------------------------------------------- *)
Lemma triple_m_elems s : triple (m_elems s) (fun _ => True).
Proof. apply triple_readonly, readonly_m_elems. Qed.
Lemma triple_m_index s i : triple (m_index s i) (fun _ => True).
Proof. apply triple_readonly, readonly_m_index. Qed.

Hint Resolve triple_m_elems triple_m_index triple_m_alloc_list triple_m_store triple_m_append
     triple_m_clone triple_m_insert triple_m_delete triple_reslice triple_o_get : trip.
Lemma owned_nil : owned_s SNil. Proof. exact I. Qed.
Hint Resolve owned_nil : trip.
Hint Resolve readonly_m_elems readonly_m_index readonly_o_get : ro.

Ltac ro :=
  lazymatch goal with
  | |- readonly (bind _ _) => apply readonly_bind; [ro | intros; ro]
  | |- readonly (ret _) => apply readonly_ret
  | |- readonly (fail _) => apply readonly_fail
  | |- readonly panic => apply readonly_panic
  | |- readonly (lift _) => apply readonly_lift
  | |- readonly (if ?b then _ else _) => destruct b; ro
  | |- readonly (match ?x with _ => _ end) => destruct x; ro
  | |- _ => solve [eauto with ro]
  end.

Ltac clean :=
  unfold owned2o, owned2, own_opt in *; cbn [fst snd] in *; repeat match goal with H : _ /\ _ |- _ => destruct H end.

Ltac tleaf := solve [ eauto with trip
                    | eapply triple_weaken; [ solve [eauto with trip] | simpl; intros; clean; intuition auto ] ].

Ltac tgo :=
  lazymatch goal with
  | |- triple (bind _ _) _ =>
      first [ eapply triple_bind; [ solve [eauto with trip] | cbv beta; intros; clean; tgo ]
            | eapply (triple_bind _ _ owned2o); [ tgo | cbv beta; intros; clean; tgo ]
            | eapply (triple_bind _ _ owned2); [ tgo | cbv beta; intros; clean; tgo ]
            | eapply (triple_bind _ _ owno); [ tgo | cbv beta; intros; clean; tgo ]
            | eapply (triple_bind _ _ (fun _ => True)); [ tgo | cbv beta; intros; clean; tgo ] ]
  | |- triple (let _ := _ in _) _ => cbv zeta; tgo
  | |- triple (ret _) _ =>
      apply triple_ret; unfold owned2o, owned2; simpl;
      repeat match goal with |- context [if ?b then _ else _] => destruct b end; simpl; intuition auto
  | |- triple (fail _) _ => apply triple_fail
  | |- triple panic _ => apply triple_panic
  | |- triple (if ?b then _ else _) _ => destruct b; tgo
  | |- triple (match ?x with _ => _ end) _ => destruct x; clean; tgo
  | |- _ => tleaf
  end.

(* ---- read-only parts -------------------------------------------------------------- *)
Lemma readonly_env_get fuel : forall e name, readonly (env_get fuel e name).
Proof. induction fuel; intros; simpl; ro. Qed.
Lemma readonly_env_each fuel : forall e, readonly (env_each fuel e).
Proof. induction fuel; intros; simpl; ro. Qed.
Hint Resolve readonly_env_get readonly_env_each : ro.

Lemma readonly_map_read m : readonly (map_read m). Proof. unfold map_read; ro. Qed.
Lemma readonly_funcs_read m : readonly (funcs_read m). Proof. unfold funcs_read; ro. Qed.
Lemma readonly_alias_read m : readonly (alias_read m). Proof. unfold alias_read; ro. Qed.
Lemma readonly_indexed_max l i : readonly (indexed_max l i). Proof. unfold indexed_max; ro. Qed.
Lemma readonly_lookup_var r name : readonly (lookup_var r name). Proof. unfold lookup_var; ro. Qed.
Lemma readonly_var_string v : readonly (var_string v).
Proof. unfold var_string; ro. Qed.
Hint Resolve readonly_map_read readonly_funcs_read readonly_alias_read readonly_indexed_max
     readonly_lookup_var readonly_var_string : ro.

Lemma triple_env_get fuel e name : triple (env_get fuel e name) (fun _ => True).
Proof. apply triple_readonly; auto with ro. Qed.
Lemma triple_env_each fuel e : triple (env_each fuel e) (fun _ => True).
Proof. apply triple_readonly; auto with ro. Qed.
Lemma triple_map_read m : triple (map_read m) (fun _ => True).
Proof. apply triple_readonly; auto with ro. Qed.
Lemma triple_funcs_read m : triple (funcs_read m) (fun _ => True).
Proof. apply triple_readonly; auto with ro. Qed.
Lemma triple_alias_read m : triple (alias_read m) (fun _ => True).
Proof. apply triple_readonly; auto with ro. Qed.
Lemma triple_indexed_max l i : triple (indexed_max l i) (fun _ => True).
Proof. apply triple_readonly; auto with ro. Qed.
Lemma triple_lookup_var r name : triple (lookup_var r name) (fun _ => True).
Proof. apply triple_readonly; auto with ro. Qed.
Lemma triple_var_string v : triple (var_string v) (fun _ => True).
Proof. apply triple_readonly; auto with ro. Qed.
Hint Resolve triple_env_get triple_env_each triple_map_read triple_funcs_read triple_alias_read
     triple_indexed_max triple_lookup_var triple_var_string : trip.

(* ---- internal/sparse.go -------------------------------------------------------- *)

Lemma triple_canonical idx : owned_s idx -> triple (canonical_indexes idx) owned_s.
Proof. intros. unfold canonical_indexes. tgo. Qed.
Hint Resolve triple_canonical : trip.

Lemma triple_set_sparse l ix k v : owned_s l -> owned_s ix -> triple (set_sparse grow l ix k v) owned2.
Proof. intros. unfold set_sparse, owned2. tgo. Qed.
Hint Resolve triple_set_sparse : trip.

Lemma triple_set_indexed_elem l ix k v :
  owned_s l -> owned_s ix -> triple (set_indexed_elem grow l ix k v) owned2.
Proof. intros. unfold set_indexed_elem, owned2. tgo. Qed.
Hint Resolve triple_set_indexed_elem : trip.

Lemma triple_delete_indexed_elem l ix k :
  owned_s l -> owned_s ix -> triple (delete_indexed_elem l ix k) owned2.
Proof. intros. unfold delete_indexed_elem, owned2. tgo. Qed.
Hint Resolve triple_delete_indexed_elem : trip.

(* ---- maps and overlay environments ------------------------------------------------ *)
Lemma triple_o_set_plain l c : owno l -> not_fs_env c -> triple (o_set l c) (fun _ => True).
Proof.
  intros Ol Hc. apply triple_o_set; auto. intros p vals ->. simpl in Hc. contradiction.
Qed.

Lemma triple_o_alloc_plain c : not_fs_env c -> triple (o_alloc c) owno.
Proof. intros Hc. apply triple_o_alloc. intros p vals ->. simpl in Hc. contradiction. Qed.

Lemma triple_map_clone m : triple (map_clone m) own_opt.
Proof.
  unfold map_clone. destruct m; [|tgo].
  eapply triple_bind; [eauto with trip|]. intros a _.
  eapply triple_bind; [apply triple_o_alloc_plain; exact I|]. intros l' Hl. tgo.
Qed.
Lemma triple_map_put l k v : owno l -> triple (map_put l k v) (fun _ => True).
Proof.
  intros. unfold map_put. eapply triple_bind; [eauto with trip|]. intros c _.
  destruct c; try apply triple_panic. apply triple_o_set_plain; simpl; auto.
Qed.
Lemma triple_map_del l k : owno l -> triple (map_del l k) (fun _ => True).
Proof.
  intros. unfold map_del. eapply triple_bind; [eauto with trip|]. intros c _.
  destruct c; try apply triple_panic. apply triple_o_set_plain; simpl; auto.
Qed.
Hint Resolve triple_map_clone triple_map_put triple_map_del : trip.

(* rewriting the values of an owned overlay keeps its parent and funcScope *)
Lemma triple_env_update e (f : list (str * variable) -> list (str * variable)) :
  owno e ->
  triple (c <- o_get e ;;
          match c with CEnv p fs vals => o_set e (CEnv p fs (f vals)) | _ => panic end)
         (fun _ => True).
Proof.
  intros Oe h Hi. unfold bind, o_get.
  destruct (nth_error (ho h) e) as [c|] eqn:E; [|nochange Hi].
  destruct c; try (nochange Hi).
  unfold o_set; simpl.
  destruct (step_o_set h e (CEnv parent fs (f vals)) Hi Oe) as (F & I).
  - intros p vals' [= -> -> _]. destruct Hi as (_ & C). eapply C; eauto.
  - tsplit; auto.
Qed.

Lemma triple_env_put e name v : owno e -> triple (env_put e name v) (fun _ => True).
Proof. intros. apply (triple_env_update e (al_put name v)); auto. Qed.
Lemma triple_env_del e name : owno e -> triple (env_del e name) (fun _ => True).
Proof. intros. apply (triple_env_update e (al_del name)); auto. Qed.
Hint Resolve triple_env_put triple_env_del : trip.

Definition triple_at {A} (c : M A) (h : heaps) (Q : A -> Prop) : Prop :=
  frame h (snd (c h)) /\ hinv (snd (c h)) /\ (forall a, fst (c h) = Ok a -> Q a).

Lemma bind_o_get_at {B} e (f : ocell -> M B) h (R : B -> Prop) :
  hinv h -> (forall c, nth_error (ho h) e = Some c -> triple_at (f c) h R) ->
  triple_at (bind (o_get e) f) h R.
Proof.
  intros Hi H. unfold triple_at, bind, o_get.
  destruct (nth_error (ho h) e) as [c|] eqn:E; simpl.
  - apply H; auto.
  - nochange Hi.
Qed.

Lemma triple_env_set fuel : forall e name vr, owno e -> triple (env_set fuel e name vr) (fun _ => True).
Proof.
  induction fuel; intros e name vr Oe; simpl; [apply triple_fail|].
  intros h Hi. apply bind_o_get_at; auto. intros c E.
  destruct c; try (apply (triple_panic (fun _ => True) h Hi)).
  destruct (fs && negb (v_local vr) &&
            negb (v_local match al_get name vals with Some v => v | None => var0 end)) eqn:B.
  - destruct parent as [p'|]; [|apply (triple_panic (fun _ => True) h Hi)].
    apply IHfuel; auto.
    apply andb_true_iff in B. destruct B as [B _]. apply andb_true_iff in B. destruct B as [B _]. subst fs.
    destruct Hi as (_ & C). eapply C; eauto.
  - match goal with |- triple_at ?c h _ => assert (T : triple c (fun _ => True)) end.
    { tgo. }
    apply (T h Hi).
Qed.
Hint Resolve triple_env_set : trip.

(* ---- the Runner ---------------------------------------------------------------------- *)
Definition rinv (r : runner) : Prop :=
  owno (r_env r) /\ own_opt (r_funcs r) /\ own_opt (r_alias r) /\ owned_s (r_dirstack r) /\
  Forall (fun f => owno (f_env f)) (r_stack r).

Lemma triple_set_var r name vr : owno (r_env r) -> triple (set_var r name vr) (fun _ => True).
Proof. intros. unfold set_var. eapply triple_ignore_err. apply triple_env_set; auto. Qed.
Lemma triple_del_var r name : owno (r_env r) -> triple (del_var r name) (fun _ => True).
Proof. intros. unfold del_var. eapply triple_ignore_err. apply triple_env_set; auto. Qed.
Lemma triple_set_var_string r name s : owno (r_env r) -> triple (set_var_string r name s) (fun _ => True).
Proof. intros. apply triple_set_var; auto. Qed.
Hint Resolve triple_set_var triple_del_var triple_set_var_string : trip.

Lemma triple_arr_loop es : forall l ix index,
  owned_s l -> owned_s ix -> triple (arr_loop grow es l ix index) owned2.
Proof.
  induction es as [|[[i|] v] es IH]; intros l ix index Hl Hix; simpl.
  - unfold owned2. tgo.
  - eapply triple_bind; [eauto with trip|]. intros mx _.
    match goal with |- triple (if ?b then _ else _) _ => destruct b end.
    + unfold owned2. tgo.
    + eapply triple_bind; [eauto with trip|]. intros [l' ix'] [H1 H2]. simpl in *. apply IH; auto.
  - eapply triple_bind; [eauto with trip|]. intros [l' ix'] [H1 H2]. simpl in *. apply IH; auto.
Qed.
Hint Resolve triple_arr_loop : trip.

Lemma triple_o_alloc_map m : triple (o_alloc (CMap m)) owno.
Proof. apply triple_o_alloc_plain; exact I. Qed.
Lemma triple_o_alloc_funcs m : triple (o_alloc (CFuncs m)) owno.
Proof. apply triple_o_alloc_plain; exact I. Qed.
Lemma triple_o_alloc_alias m : triple (o_alloc (CAlias m)) owno.
Proof. apply triple_o_alloc_plain; exact I. Qed.
Lemma triple_o_set_funcs l m : owno l -> triple (o_set l (CFuncs m)) (fun _ => True).
Proof. intros; apply triple_o_set_plain; simpl; auto. Qed.
Lemma triple_o_set_alias l m : owno l -> triple (o_set l (CAlias m)) (fun _ => True).
Proof. intros; apply triple_o_set_plain; simpl; auto. Qed.
Hint Resolve triple_o_alloc_map triple_o_alloc_funcs triple_o_alloc_alias triple_o_set_funcs triple_o_set_alias : trip.

Lemma triple_assign_val prev app hi rh vt :
  triple (assign_val grow prev app hi rh vt) (fun _ => True).
Proof. unfold assign_val. tgo. Qed.
Hint Resolve triple_assign_val : trip.

Lemma triple_set_var_with_index r prev name index vr ae :
  owno (r_env r) -> triple (set_var_with_index grow r prev name index vr ae) (fun _ => True).
Proof. intros. unfold set_var_with_index. tgo. Qed.
Hint Resolve triple_set_var_with_index : trip.

Lemma triple_unset_elem r name sub : owno (r_env r) -> triple (unset_elem grow r name sub) (fun _ => True).
Proof. intros. unfold unset_elem. tgo. Qed.
Lemma triple_unset_all r name : owno (r_env r) -> triple (unset_all r name) (fun _ => True).
Proof. intros. unfold unset_all. tgo. Qed.
Hint Resolve triple_unset_elem triple_unset_all : trip.

Lemma rinv_set_dir r d : rinv r -> rinv (set_dir d r).
Proof. unfold rinv; destruct r; simpl; auto. Qed.

Lemma triple_change_dir r apath : rinv r -> triple (change_dir r apath) rinv.
Proof.
  intros H. pose proof (rinv_set_dir r apath H) as H'. unfold change_dir.
  destruct H' as (? & ? & ? & ? & ?). tgo; unfold rinv; auto.
Qed.
Hint Resolve triple_change_dir : trip.

End Own.
