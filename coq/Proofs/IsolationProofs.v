(* Proofs/IsolationProofs.v — the ownership (frame) invariant of the shell-state
   model: a thread only stores into cells it owns. *)
From Verif Require Import Base.Str Base.GoSlice Interp.Isolation.
From Coq Require Import Lia.
Open Scope nat_scope.

(* ---- lists ------------------------------------------------------------------ *)
Lemma set_nth_length {A} (l : list A) i x : length (set_nth l i x) = length l.
Proof. revert i; induction l; destruct i; simpl; auto. Qed.

Lemma nth_error_set_nth_other {A} (l : list A) i j x :
  i <> j -> nth_error (set_nth l i x) j = nth_error l j.
Proof.
  revert i j; induction l as [|a l IH]; intros i j H; destruct i, j; simpl; auto; try congruence.
Qed.

Lemma nth_error_app_below {A} (l : list A) c j : j < length l -> nth_error (l ++ [c]) j = nth_error l j.
Proof. intros; apply nth_error_app1; auto. Qed.

Lemma nth_of_nth_error {A} (l l' : list A) i d :
  nth_error l' i = nth_error l i -> nth i l' d = nth i l d.
Proof.
  intros H. destruct (nth_error l i) eqn:E.
  - rewrite (nth_error_nth _ _ d E). apply (nth_error_nth _ _ d H).
  - apply nth_error_None in E. apply nth_error_None in H.
    rewrite !nth_overflow; auto.
Qed.

Ltac tsplit := split; [|split].

(* ---- heaps only grow --------------------------------------------------------------- *)
Definition hle (h h' : heaps) : Prop :=
  length (ha h) <= length (ha h') /\ length (ho h) <= length (ho h').
Definition mono {A} (c : M A) : Prop := forall h, hle h (snd (c h)).

Lemma hle_refl h : hle h h. Proof. split; auto. Qed.
Lemma hle_trans a b c : hle a b -> hle b c -> hle a c.
Proof. intros [? ?] [? ?]; split; lia. Qed.

Lemma mono_ret {A} (a : A) : mono (ret a). Proof. intro; apply hle_refl. Qed.
Lemma mono_fail {A} e : mono (@fail A e). Proof. intro; apply hle_refl. Qed.
Lemma mono_panic {A} : mono (@panic A). Proof. intro; apply hle_refl. Qed.
Lemma mono_lift {A} (r : res A) : mono (lift r). Proof. intro; apply hle_refl. Qed.
Lemma mono_bind {A B} (c : M A) (f : A -> M B) : mono c -> (forall a, mono (f a)) -> mono (bind c f).
Proof.
  intros Hc Hf h. unfold bind. specialize (Hc h). destruct (c h) as [[a|e|] h1]; simpl in *; auto.
  eapply hle_trans; eauto. apply Hf.
Qed.
Lemma mono_ignore_err (c : M unit) : mono c -> mono (ignore_err c).
Proof. intros Hc h. unfold ignore_err. specialize (Hc h). destruct (c h) as [[a|e|] h1]; simpl in *; auto. Qed.
Lemma mono_m_elems s : mono (m_elems s). Proof. intro; apply hle_refl. Qed.
Lemma mono_m_index s i : mono (m_index s i). Proof. intro; apply hle_refl. Qed.
Lemma mono_o_get l : mono (o_get l).
Proof. intro h; unfold o_get; destruct (nth_error (ho h) l); apply hle_refl. Qed.
Lemma mono_o_set l c : mono (o_set l c).
Proof. intro h; unfold o_set, hle; simpl. rewrite set_nth_length; split; auto. Qed.
Lemma mono_o_alloc c : mono (o_alloc c).
Proof. intro h; unfold o_alloc, hle; simpl. rewrite app_length; simpl; lia. Qed.
Ltac hr := first [apply hle_refl | solve [split; simpl; auto]].
Lemma mono_m_store s i v : mono (m_store s i v).
Proof.
  intro h; unfold m_store, store. destruct s as [|l o n c]; simpl; try hr.
  destruct (Nat.ltb i n); simpl; try hr. unfold hle, hwrite; simpl. rewrite set_nth_length; split; auto.
Qed.
Lemma mono_m_alloc_list z l c : mono (m_alloc_list z l c).
Proof. intro h; unfold m_alloc_list, alloc_list, halloc, hle; simpl. rewrite app_length; simpl; lia. Qed.
Lemma mono_m_append grow z s vs : mono (m_append grow z s vs).
Proof.
  intro h; unfold m_append, append. destruct vs as [|v vs]; [hr|].
  destruct s as [|l o n c]; [apply (mono_m_alloc_list z (v :: vs) _ h)|].
  destruct (Nat.leb (n + length (v :: vs)) c).
  - unfold hle, hwrite; simpl. rewrite set_nth_length; split; auto.
  - apply (mono_m_alloc_list z _ _ h).
Qed.
Lemma mono_m_clone grow z s : mono (m_clone grow z s).
Proof.
  intro h; unfold m_clone, clone. destruct s as [|l o n c]; [hr|].
  destruct n; [hr|]. apply (mono_m_alloc_list z _ _ h).
Qed.
Lemma mono_m_insert grow z s i v : mono (m_insert grow z s i v).
Proof.
  intro h; unfold m_insert, insert.
  destruct (Nat.ltb (s_len s) i); [hr|].
  destruct (Nat.eqb i (s_len s)); [apply (mono_m_append grow z s [v] h)|].
  destruct s as [|l o n c]; [hr|]. simpl s_len.
  destruct (Nat.ltb c (n + 1)); [apply (mono_m_alloc_list z _ _ h)|].
  unfold hle, hwrite; simpl. rewrite set_nth_length; split; auto.
Qed.
Lemma mono_m_delete z s i j : mono (m_delete z s i j).
Proof.
  intro h; unfold m_delete, delete.
  destruct (negb (Nat.leb i j && Nat.leb j (s_len s))); [hr|].
  destruct (Nat.eqb i j); [hr|].
  destruct s as [|l o n c]; [hr|]. unfold hle, hwrite; simpl. rewrite set_nth_length; split; auto.
Qed.
Create HintDb mo.
#[export] Hint Resolve mono_m_elems mono_m_index mono_o_get mono_o_set mono_o_alloc mono_m_store mono_m_alloc_list
     mono_m_append mono_m_clone mono_m_insert mono_m_delete : mo.

Ltac mo :=
  lazymatch goal with
  | |- mono (bind _ _) => apply mono_bind; [mo | intros; mo]
  | |- mono (ret _) => apply mono_ret
  | |- mono (fail _) => apply mono_fail
  | |- mono panic => apply mono_panic
  | |- mono (lift _) => apply mono_lift
  | |- mono (ignore_err _) => apply mono_ignore_err; mo
  | |- mono (let _ := _ in _) => cbv zeta; mo
  | |- mono (if ?b then _ else _) => destruct b; mo
  | |- mono (match ?x with _ => _ end) => destruct x; mo
  | |- _ => solve [eauto with mo]
  end.

Lemma mono_env_get fuel : forall e name, mono (env_get fuel e name).
Proof. induction fuel; intros; simpl; mo. Qed.
Lemma mono_env_each fuel : forall e, mono (env_each fuel e).
Proof. induction fuel; intros; simpl; mo. Qed.
#[export] Hint Resolve mono_env_get mono_env_each : mo.
Lemma mono_env_put e n v : mono (env_put e n v). Proof. unfold env_put; mo. Qed.
Lemma mono_env_del e n : mono (env_del e n). Proof. unfold env_del; mo. Qed.
#[export] Hint Resolve mono_env_put mono_env_del : mo.
Lemma mono_env_set fuel : forall e name vr, mono (env_set fuel e name vr).
Proof. induction fuel; intros; simpl; mo. Qed.
#[export] Hint Resolve mono_env_set : mo.
Lemma mono_map_read m : mono (map_read m). Proof. unfold map_read; mo. Qed.
Lemma mono_funcs_read m : mono (funcs_read m). Proof. unfold funcs_read; mo. Qed.
Lemma mono_alias_read m : mono (alias_read m). Proof. unfold alias_read; mo. Qed.
#[export] Hint Resolve mono_map_read mono_funcs_read mono_alias_read : mo.
Lemma mono_map_clone m : mono (map_clone m). Proof. unfold map_clone; mo. Qed.
Lemma mono_map_put l k v : mono (map_put l k v). Proof. unfold map_put; mo. Qed.
Lemma mono_map_del l k : mono (map_del l k). Proof. unfold map_del; mo. Qed.
Lemma mono_indexed_max l i : mono (indexed_max l i). Proof. unfold indexed_max; mo. Qed.
Lemma mono_canonical i : mono (canonical_indexes i). Proof. unfold canonical_indexes; mo. Qed.
#[export] Hint Resolve mono_map_clone mono_map_put mono_map_del mono_indexed_max mono_canonical : mo.
Lemma mono_set_sparse g l ix k v : mono (set_sparse g l ix k v). Proof. unfold set_sparse; mo. Qed.
#[export] Hint Resolve mono_set_sparse : mo.
Lemma mono_set_indexed_elem g l ix k v : mono (set_indexed_elem g l ix k v). Proof. unfold set_indexed_elem; mo. Qed.
Lemma mono_delete_indexed_elem l ix k : mono (delete_indexed_elem l ix k). Proof. unfold delete_indexed_elem; mo. Qed.
#[export] Hint Resolve mono_set_indexed_elem mono_delete_indexed_elem : mo.
Lemma mono_lookup_var r n : mono (lookup_var r n). Proof. unfold lookup_var; mo. Qed.
Lemma mono_var_string v : mono (var_string v). Proof. unfold var_string; mo. Qed.
Lemma mono_set_var r n v : mono (set_var r n v). Proof. unfold set_var; mo. Qed.
Lemma mono_del_var r n : mono (del_var r n). Proof. unfold del_var; mo. Qed.
Lemma mono_set_var_string r n s : mono (set_var_string r n s). Proof. apply mono_set_var. Qed.
#[export] Hint Resolve mono_lookup_var mono_var_string mono_set_var mono_del_var mono_set_var_string : mo.
Lemma mono_arr_loop g es : forall l ix i, mono (arr_loop g es l ix i).
Proof. induction es as [|[[i|] v] es IH]; intros; simpl; mo. Qed.
#[export] Hint Resolve mono_arr_loop : mo.
Lemma mono_assign_val g p a hi rh vt : mono (assign_val g p a hi rh vt). Proof. unfold assign_val; mo. Qed.
Lemma mono_set_var_with_index g r p n i v ae : mono (set_var_with_index g r p n i v ae).
Proof. unfold set_var_with_index; mo. Qed.
Lemma mono_unset_elem g r n s : mono (unset_elem g r n s). Proof. unfold unset_elem; mo. Qed.
Lemma mono_unset_all r n : mono (unset_all r n). Proof. unfold unset_all; mo. Qed.
Lemma mono_change_dir r p : mono (change_dir r p). Proof. unfold change_dir; mo. Qed.
#[export] Hint Resolve mono_assign_val mono_set_var_with_index mono_unset_elem mono_unset_all mono_change_dir : mo.
Lemma mono_step g o r : mono (step g o r). Proof. destruct o; unfold step; mo. Qed.
Lemma mono_set_all e : forall l, mono (set_all e l).
Proof. induction l as [|[n v] l IH]; cbn [set_all]; mo. Qed.
#[export] Hint Resolve mono_step mono_set_all : mo.
Lemma mono_map_clone_funcs f : mono (map_clone_funcs f). Proof. unfold map_clone_funcs; mo. Qed.
Lemma mono_map_clone_alias f : mono (map_clone_alias f). Proof. unfold map_clone_alias; mo. Qed.
#[export] Hint Resolve mono_map_clone_funcs mono_map_clone_alias : mo.
Lemma mono_subshell g bg r : mono (subshell g bg r).
Proof. unfold subshell, map_clone_funcs, map_clone_alias; mo. Qed.

Lemma step_state_hle g s o : hle (st_h s) (st_h (step_state g s o)).
Proof.
  unfold step_state. destruct (st_panic s); [apply hle_refl|].
  pose proof (mono_step g o (st_r s) (st_h s)) as H.
  destruct (step g o (st_r s) (st_h s)) as [[r'|e|] h']; simpl in *; auto.
Qed.
Lemma run_ops_hle g ops : forall s, hle (st_h s) (st_h (run_ops g ops s)).
Proof.
  induction ops as [|o ops IH]; intros s; simpl; [apply hle_refl|].
  eapply hle_trans; [apply step_state_hle | apply IH].
Qed.


Section Own.
Variable grow : nat -> nat -> nat.
(* the cells this thread owns; every location not yet allocated counts as owned *)
Variables owna owno : loc -> Prop.
(* bounds on the heap lengths reached by the computation under study: locations
   at or above them are never allocated and need not be owned *)
Variables Na No : nat.

Definition fresh_owned (h : heaps) : Prop :=
  (forall l, length (ha h) <= l -> l < Na -> owna l) /\ (forall l, length (ho h) <= l -> l < No -> owno l).
Definition lenok (h : heaps) : Prop := length (ha h) <= Na /\ length (ho h) <= No.
Lemma lenok_hle h h' : hle h h' -> lenok h' -> lenok h.
Proof. intros [? ?] [? ?]; split; lia. Qed.

(* an owned function-scope overlay forwards Set to an owned parent *)
Definition fs_closed (h : heaps) : Prop :=
  forall l p vals, owno l -> nth_error (ho h) l = Some (CEnv (Some p) true vals) -> owno p.

Definition hinv (h : heaps) : Prop := fresh_owned h /\ fs_closed h.

(* every cell that is not owned keeps its contents *)
Definition frame (h h' : heaps) : Prop :=
  length (ha h) <= length (ha h') /\ length (ho h) <= length (ho h') /\
  (forall l, ~ owna l -> nth_error (ha h') l = nth_error (ha h) l) /\
  (forall l, ~ owno l -> nth_error (ho h') l = nth_error (ho h) l).

Lemma frame_refl h : frame h h.
Proof. unfold frame; intuition. Qed.

Lemma frame_trans h1 h2 h3 : frame h1 h2 -> frame h2 h3 -> frame h1 h3.
Proof.
  unfold frame; intros (A1 & B1 & C1 & D1) (A2 & B2 & C2 & D2); repeat split; try lia.
  - intros l H; rewrite C2, C1; auto.
  - intros l H; rewrite D2, D1; auto.
Qed.

Lemma frame_eta h : frame h (mkH (ha h) (ho h)).
Proof. unfold frame; simpl; intuition. Qed.
Lemma hinv_eta h : hinv h -> hinv (mkH (ha h) (ho h)).
Proof. unfold hinv, fresh_owned, fs_closed; simpl; auto. Qed.

Ltac nochange Hi :=
  tsplit; [ first [apply frame_refl | apply frame_eta]
          | first [exact Hi | apply hinv_eta; exact Hi]
          | try (intros; exact I); try (intros; discriminate) ].

Definition triple {A} (c : M A) (Q : A -> Prop) : Prop :=
  forall h, hinv h -> lenok (snd (c h)) ->
    frame h (snd (c h)) /\ hinv (snd (c h)) /\ (forall a, fst (c h) = Ok a -> Q a).

Lemma triple_ret {A} (a : A) (Q : A -> Prop) : Q a -> triple (ret a) Q.
Proof. intros H h Hi Hl; simpl; nochange Hi. intros ? [= <-]; auto. Qed.

Lemma triple_fail {A} e (Q : A -> Prop) : triple (fail e) Q.
Proof. intros h Hi Hl; simpl; nochange Hi. Qed.

Lemma triple_panic {A} (Q : A -> Prop) : triple panic Q.
Proof. intros h Hi Hl; simpl; nochange Hi. Qed.

Lemma triple_lift {A} (r : res A) (Q : A -> Prop) : (forall a, r = Ok a -> Q a) -> triple (lift r) Q.
Proof. intros H h Hi Hl; simpl; nochange Hi. auto. Qed.

Lemma triple_bind {A B} (c : M A) (f : A -> M B) (Q : A -> Prop) (R : B -> Prop) :
  triple c Q -> (forall a, mono (f a)) -> (forall a, Q a -> triple (f a) R) -> triple (bind c f) R.
Proof.
  intros Hc Hm Hf h Hi Hl. unfold bind in *.
  assert (L1 : lenok (snd (c h))).
  { destruct (c h) as [[a|e|] h1] eqn:E; simpl in *; auto.
    eapply lenok_hle; [apply (Hm a h1) | exact Hl]. }
  destruct (Hc h Hi L1) as (F & I & P).
  destruct (c h) as [[a|e|] h1]; simpl in *.
  - destruct (Hf a (P a eq_refl) h1 I Hl) as (F2 & I2 & P2).
    tsplit; auto. eapply frame_trans; eauto.
  - tsplit; auto; intros; discriminate.
  - tsplit; auto; intros; discriminate.
Qed.

Lemma triple_weaken {A} (c : M A) (Q Q' : A -> Prop) :
  triple c Q -> (forall a, Q a -> Q' a) -> triple c Q'.
Proof. intros H W h Hi Hl. destruct (H h Hi Hl) as (F & I & P); tsplit; auto. Qed.

Lemma triple_ignore_err (c : M unit) (Q : unit -> Prop) :
  triple c Q -> triple (ignore_err c) (fun _ => True).
Proof.
  intros H h Hi Hl. unfold ignore_err in *.
  assert (L1 : lenok (snd (c h))) by (destruct (c h) as [[a|e|] h1]; simpl in *; auto).
  destruct (H h Hi L1) as (F & I & P).
  destruct (c h) as [[a|e|] h1]; simpl in *; tsplit; auto.
Qed.

(* a computation that leaves the heaps alone *)
Definition readonly {A} (c : M A) : Prop := forall h, snd (c h) = h.

Lemma triple_readonly {A} (c : M A) : readonly c -> triple c (fun _ => True).
Proof. intros H h Hi Hl. rewrite H. nochange Hi. Qed.

Lemma readonly_ret {A} (a : A) : readonly (ret a). Proof. intro; reflexivity. Qed.
Lemma readonly_fail {A} e : readonly (@fail A e). Proof. intro; reflexivity. Qed.
Lemma readonly_panic {A} : readonly (@panic A). Proof. intro; reflexivity. Qed.
Lemma readonly_lift {A} (r : res A) : readonly (lift r). Proof. intro; reflexivity. Qed.
Lemma readonly_bind {A B} (c : M A) (f : A -> M B) :
  readonly c -> (forall a, readonly (f a)) -> readonly (bind c f).
Proof.
  intros Hc Hf h. unfold bind. specialize (Hc h). destruct (c h) as [[a|e|] h1]; simpl in *; subst; auto.
  apply Hf.
Qed.
Lemma readonly_m_elems s : readonly (m_elems s). Proof. intro; reflexivity. Qed.
Lemma readonly_m_index s i : readonly (m_index s i). Proof. intro; reflexivity. Qed.
Lemma readonly_o_get l : readonly (o_get l).
Proof. intro h; unfold o_get; destruct (nth_error (ho h) l); reflexivity. Qed.

(* ---- array heap primitives -------------------------------------------------- *)
Definition owned_s (s : slice) : Prop :=
  match s with
  | SNil => True
  | Sl l _ n c => owna l \/ (n = 0 /\ c = 0)
  end.

Lemma hinv_ha h a' : hinv h -> length (ha h) <= length a' -> hinv (mkH a' (ho h)).
Proof.
  intros ((Fa & Fo) & C) L. split; [split|]; simpl; auto.
  intros l Hl Hn; apply Fa; auto; lia.
Qed.

Lemma step_hwrite h l pos (vs : list val) :
  hinv h -> owna l ->
  frame h (mkH (hwrite (ha h) l pos vs) (ho h)) /\ hinv (mkH (hwrite (ha h) l pos vs) (ho h)).
Proof.
  intros Hi Ho. unfold hwrite. split.
  - unfold frame; simpl. rewrite set_nth_length. repeat split; auto.
    intros l' Hn. apply nth_error_set_nth_other. intro; subst; auto.
  - apply hinv_ha; auto. rewrite set_nth_length; auto.
Qed.

Lemma nth_error_app_unowned {A} (l : list A) c j :
  j <> length l -> nth_error (l ++ [c]) j = nth_error l j.
Proof.
  intros N. destruct (Nat.lt_ge_cases j (length l)) as [L|L].
  - apply nth_error_app1; auto.
  - assert (nth_error l j = None) as -> by (apply nth_error_None; auto).
    apply nth_error_None. rewrite app_length; simpl; lia.
Qed.

Lemma step_halloc h (c : list val) :
  hinv h -> length (ha h) < Na ->
  frame h (mkH (ha h ++ [c]) (ho h)) /\ hinv (mkH (ha h ++ [c]) (ho h)) /\ owna (length (ha h)).
Proof.
  intros Hi Hl. pose proof Hi as ((Fa & Fo) & C).
  assert (O : owna (length (ha h))) by (apply Fa; auto).
  split; [|split]; auto.
  - unfold frame; simpl. rewrite app_length; simpl. repeat split; auto; try lia.
    intros l Hn. apply nth_error_app_unowned. intro; subst; auto.
  - apply hinv_ha; auto. rewrite app_length; simpl; lia.
Qed.

Lemma triple_m_alloc_list z l c : triple (m_alloc_list z l c) owned_s.
Proof.
  intros h Hi Hl. unfold m_alloc_list, alloc_list, halloc in *. simpl in *.
  destruct (step_halloc h (l ++ repeat z (Nat.max c (length l) - length l)) Hi) as (F & I & O).
  { destruct Hl as [Hl _]. simpl in Hl. rewrite app_length in Hl; simpl in Hl; lia. }
  tsplit; auto. intros a [= <-]. simpl; auto.
Qed.

Lemma triple_m_store s i v : owned_s s -> triple (m_store s i v) (fun _ => True).
Proof.
  intros Ho h Hi. unfold m_store, store. destruct s as [|l o n c]; simpl.
  - intros Hl; nochange Hi.
  - destruct (Nat.ltb i n) eqn:E; simpl.
    + destruct Ho as [Ho|[-> _]]; [|apply Nat.ltb_lt in E; lia].
      intros Hl; destruct (step_hwrite h l (o + i) [v] Hi Ho); tsplit; auto.
    + intros Hl; nochange Hi.
Qed.

Lemma triple_m_append z s vs : owned_s s -> triple (m_append grow z s vs) owned_s.
Proof.
  intros Ho h Hi. unfold m_append, append.
  destruct vs as [|v vs].
  - simpl. intros Hl; nochange Hi. intros a [= <-]; auto.
  - destruct s as [|l o n c].
    + apply (triple_m_alloc_list z (v :: vs) _ h Hi).
    + destruct (Nat.leb (n + length (v :: vs)) c) eqn:E.
      * simpl. destruct Ho as [Ho|[-> ->]]; [|apply Nat.leb_le in E; simpl in E; lia].
        intros Hl; destruct (step_hwrite h l (o + n) (v :: vs) Hi Ho); tsplit; auto.
        intros a [= <-]; simpl; auto.
      * apply (triple_m_alloc_list z _ _ h Hi).
Qed.

Lemma triple_m_clone z s : triple (m_clone grow z s) owned_s.
Proof.
  intros h Hi. unfold m_clone, clone. destruct s as [|l o n c].
  - simpl. intros Hl; nochange Hi. intros a [= <-]; simpl; auto.
  - destruct n.
    + simpl. intros Hl; nochange Hi. intros a [= <-]; simpl; auto.
    + apply (triple_m_alloc_list z _ _ h Hi).
Qed.

Lemma triple_m_insert z s i v : owned_s s -> triple (m_insert grow z s i v) owned_s.
Proof.
  intros Ho h Hi. unfold m_insert, insert.
  destruct (Nat.ltb (s_len s) i).
  { simpl. intros Hl; nochange Hi. }
  destruct (Nat.eqb i (s_len s)).
  { apply (triple_m_append z s [v] Ho h Hi). }
  destruct s as [|l o n c].
  { simpl. intros Hl; nochange Hi. }
  simpl s_len. destruct (Nat.ltb c (n + 1)) eqn:E.
  - apply (triple_m_alloc_list z _ _ h Hi).
  - simpl. destruct Ho as [Ho|[-> ->]]; [|apply Nat.ltb_ge in E; lia].
    intros Hl; destruct (step_hwrite h l o (firstn i (elems (ha h) (Sl l o n c)) ++ v :: skipn i (elems (ha h) (Sl l o n c))) Hi Ho).
    tsplit; auto. intros a [= <-]; simpl; auto.
Qed.

Lemma triple_m_delete z s i j : owned_s s -> triple (m_delete z s i j) owned_s.
Proof.
  intros Ho h Hi. unfold m_delete, delete.
  destruct (negb (Nat.leb i j && Nat.leb j (s_len s))) eqn:B.
  { simpl. intros Hl; nochange Hi. }
  destruct (Nat.eqb i j) eqn:E.
  { simpl. intros Hl; nochange Hi. intros a [= <-]; auto. }
  destruct s as [|l o n c].
  { simpl. intros Hl; nochange Hi. }
  simpl. destruct Ho as [Ho|[-> ->]].
  - match goal with |- context [hwrite ?a ?b ?c ?d] => intros Hl; destruct (step_hwrite h b c d Hi Ho) end.
    tsplit; auto. intros a [= <-]; simpl; auto.
  - apply negb_false_iff, andb_true_iff in B. destruct B as [B1 B2].
    apply Nat.leb_le in B1, B2. simpl in B2. apply Nat.eqb_neq in E. lia.
Qed.

Lemma owned_reslice s lo hi s' : owned_s s -> reslice s lo hi = Ok s' -> owned_s s'.
Proof.
  intros Ho. unfold reslice. destruct s as [|l o n c].
  - destruct (Nat.eqb lo 0 && Nat.eqb hi 0); intros [= <-]; simpl; auto.
  - destruct (Nat.leb lo hi && Nat.leb hi c) eqn:B; intros [= <-]. simpl.
    destruct Ho as [Ho|[-> ->]]; auto. right.
    apply andb_true_iff in B. destruct B as [B1 B2]. apply Nat.leb_le in B1, B2. lia.
Qed.

Lemma triple_reslice s lo hi : owned_s s -> triple (lift (reslice s lo hi)) owned_s.
Proof. intros Ho. apply triple_lift. intros a. apply owned_reslice; auto. Qed.

(* ---- object heap primitives -------------------------------------------------- *)
Definition own_opt (o : option loc) : Prop := match o with None => True | Some l => owno l end.

Lemma triple_o_alloc c :
  (forall p vals, c = CEnv (Some p) true vals -> owno p) -> triple (o_alloc c) owno.
Proof.
  intros Hc h Hi Hl. pose proof Hi as ((Fa & Fo) & C). unfold o_alloc in *; simpl in *.
  assert (L : length (ho h) < No).
  { destruct Hl as [_ Hl]. simpl in Hl. rewrite app_length in Hl; simpl in Hl; lia. }
  assert (O : owno (length (ho h))) by (apply Fo; auto).
  tsplit.
  - unfold frame; simpl. rewrite app_length; simpl. repeat split; auto; try lia.
    intros l Hn. apply nth_error_app_unowned. intro; subst; auto.
  - split; [split|]; simpl; auto.
    + intros l Hl' Hn. apply Fo; auto. rewrite app_length in Hl'; simpl in Hl'; lia.
    + intros l p vals Ol E. simpl in E.
      destruct (Nat.lt_ge_cases l (length (ho h))) as [L'|L'].
      * rewrite nth_error_app1 in E by auto. eapply C; eauto.
      * rewrite nth_error_app2 in E by auto.
        destruct (l - length (ho h)) as [|k] eqn:K; simpl in E.
        -- injection E as E. eapply Hc; eauto.
        -- destruct k; discriminate.
  - intros a [= <-]. auto.
Qed.

Definition not_fs_env (c : ocell) : Prop :=
  match c with CEnv (Some _) true _ => False | _ => True end.

Lemma step_o_set h l c :
  hinv h -> owno l ->
  (forall p vals, c = CEnv (Some p) true vals -> owno p) ->
  frame h (mkH (ha h) (set_nth (ho h) l c)) /\ hinv (mkH (ha h) (set_nth (ho h) l c)).
Proof.
  intros Hi Ol Hc. pose proof Hi as ((Fa & Fo) & C). split.
  - unfold frame; simpl. rewrite set_nth_length. repeat split; auto.
    intros l' Hn. apply nth_error_set_nth_other. intro; subst; auto.
  - split; [split|]; simpl; auto.
    + intros l' Hl Hn. apply Fo; auto. rewrite set_nth_length in Hl; auto.
    + intros l' p vals Ol' E. simpl in E. destruct (Nat.eq_dec l l') as [->|N].
      * destruct (nth_error (ho h) l') eqn:E0.
        -- assert (nth_error (set_nth (ho h) l' c) l' = Some c) as E1.
           { clear - E0. revert l' E0. induction (ho h); destruct l'; simpl; intros; try discriminate; auto. }
           rewrite E1 in E. injection E as E. eapply Hc; eauto.
        -- assert (nth_error (set_nth (ho h) l' c) l' = None) as E1.
           { apply nth_error_None. rewrite set_nth_length. apply nth_error_None; auto. }
           congruence.
      * rewrite nth_error_set_nth_other in E by auto. eapply C; eauto.
Qed.

Lemma triple_o_set l c :
  owno l -> (forall p vals, c = CEnv (Some p) true vals -> owno p) ->
  triple (o_set l c) (fun _ => True).
Proof.
  intros Ol Hc h Hi Hl. unfold o_set; simpl. destruct (step_o_set h l c Hi Ol Hc). tsplit; auto.
Qed.

Lemma triple_o_get l : triple (o_get l) (fun _ => True).
Proof. apply triple_readonly, readonly_o_get. Qed.

Definition owned2 (p : slice * slice) : Prop := owned_s (fst p) /\ owned_s (snd p).
Definition owned2o (b : option (slice * slice)) : Prop := match b with Some p => owned2 p | None => True end.

(* ---- automation --------------------------------------------------------------- *)
Lemma triple_m_elems s : triple (m_elems s) (fun _ => True).
Proof. apply triple_readonly, readonly_m_elems. Qed.
Lemma triple_m_index s i : triple (m_index s i) (fun _ => True).
Proof. apply triple_readonly, readonly_m_index. Qed.

Hint Resolve triple_m_elems triple_m_index triple_m_alloc_list triple_m_store triple_m_append
     triple_m_clone triple_m_insert triple_m_delete triple_reslice triple_o_get : trip.
Lemma owned_nil : owned_s SNil. Proof. exact I. Qed.
Hint Resolve owned_nil : trip.
Hint Resolve readonly_m_elems readonly_m_index readonly_o_get : ro.

Ltac ro :=
  lazymatch goal with
  | |- readonly (bind _ _) => apply readonly_bind; [ro | intros; ro]
  | |- readonly (ret _) => apply readonly_ret
  | |- readonly (fail _) => apply readonly_fail
  | |- readonly panic => apply readonly_panic
  | |- readonly (lift _) => apply readonly_lift
  | |- readonly (if ?b then _ else _) => destruct b; ro
  | |- readonly (match ?x with _ => _ end) => destruct x; ro
  | |- _ => solve [eauto with ro]
  end.

Ltac clean :=
  unfold owned2o, owned2, own_opt in *; cbn [fst snd] in *; repeat match goal with H : _ /\ _ |- _ => destruct H end.

Ltac tleaf := solve [ eauto with trip
                    | eapply triple_weaken; [ solve [eauto with trip] | simpl; intros; clean; intuition auto ] ].

Ltac tgo :=
  lazymatch goal with
  | |- triple (bind _ _) _ =>
      first [ eapply triple_bind; [ solve [eauto with trip] | solve [intros; mo] | cbv beta; intros; clean; tgo ]
            | eapply (triple_bind _ _ owned2o); [ tgo | solve [intros; mo] | cbv beta; intros; clean; tgo ]
            | eapply (triple_bind _ _ owned2); [ tgo | solve [intros; mo] | cbv beta; intros; clean; tgo ]
            | eapply (triple_bind _ _ owno); [ tgo | solve [intros; mo] | cbv beta; intros; clean; tgo ]
            | eapply (triple_bind _ _ (fun _ => True)); [ tgo | solve [intros; mo] | cbv beta; intros; clean; tgo ] ]
  | |- triple (let _ := _ in _) _ => cbv zeta; tgo
  | |- triple (ret _) _ =>
      apply triple_ret; unfold owned2o, owned2; simpl;
      repeat match goal with |- context [if ?b then _ else _] => destruct b end; simpl; intuition auto
  | |- triple (fail _) _ => apply triple_fail
  | |- triple panic _ => apply triple_panic
  | |- triple (if ?b then _ else _) _ => destruct b; tgo
  | |- triple (match ?x with _ => _ end) _ => destruct x; clean; tgo
  | |- _ => tleaf
  end.

(* ---- read-only parts -------------------------------------------------------------- *)
Lemma readonly_env_get fuel : forall e name, readonly (env_get fuel e name).
Proof. induction fuel; intros; simpl; ro. Qed.
Lemma readonly_env_each fuel : forall e, readonly (env_each fuel e).
Proof. induction fuel; intros; simpl; ro. Qed.
Hint Resolve readonly_env_get readonly_env_each : ro.

Lemma readonly_map_read m : readonly (map_read m). Proof. unfold map_read; ro. Qed.
Lemma readonly_funcs_read m : readonly (funcs_read m). Proof. unfold funcs_read; ro. Qed.
Lemma readonly_alias_read m : readonly (alias_read m). Proof. unfold alias_read; ro. Qed.
Lemma readonly_indexed_max l i : readonly (indexed_max l i). Proof. unfold indexed_max; ro. Qed.
Lemma readonly_lookup_var r name : readonly (lookup_var r name). Proof. unfold lookup_var; ro. Qed.
Lemma readonly_var_string v : readonly (var_string v).
Proof. unfold var_string; ro. Qed.
Hint Resolve readonly_map_read readonly_funcs_read readonly_alias_read readonly_indexed_max
     readonly_lookup_var readonly_var_string : ro.

Lemma triple_env_get fuel e name : triple (env_get fuel e name) (fun _ => True).
Proof. apply triple_readonly; auto with ro. Qed.
Lemma triple_env_each fuel e : triple (env_each fuel e) (fun _ => True).
Proof. apply triple_readonly; auto with ro. Qed.
Lemma triple_map_read m : triple (map_read m) (fun _ => True).
Proof. apply triple_readonly; auto with ro. Qed.
Lemma triple_funcs_read m : triple (funcs_read m) (fun _ => True).
Proof. apply triple_readonly; auto with ro. Qed.
Lemma triple_alias_read m : triple (alias_read m) (fun _ => True).
Proof. apply triple_readonly; auto with ro. Qed.
Lemma triple_indexed_max l i : triple (indexed_max l i) (fun _ => True).
Proof. apply triple_readonly; auto with ro. Qed.
Lemma triple_lookup_var r name : triple (lookup_var r name) (fun _ => True).
Proof. apply triple_readonly; auto with ro. Qed.
Lemma triple_var_string v : triple (var_string v) (fun _ => True).
Proof. apply triple_readonly; auto with ro. Qed.
Hint Resolve triple_env_get triple_env_each triple_map_read triple_funcs_read triple_alias_read
     triple_indexed_max triple_lookup_var triple_var_string : trip.

(* ---- internal/sparse.go -------------------------------------------------------- *)

Lemma triple_canonical idx : owned_s idx -> triple (canonical_indexes idx) owned_s.
Proof. intros. unfold canonical_indexes. tgo. Qed.
Hint Resolve triple_canonical : trip.

Lemma triple_set_sparse l ix k v : owned_s l -> owned_s ix -> triple (set_sparse grow l ix k v) owned2.
Proof. intros. unfold set_sparse, owned2. tgo. Qed.
Hint Resolve triple_set_sparse : trip.

Lemma triple_set_indexed_elem l ix k v :
  owned_s l -> owned_s ix -> triple (set_indexed_elem grow l ix k v) owned2.
Proof. intros. unfold set_indexed_elem, owned2. tgo. Qed.
Hint Resolve triple_set_indexed_elem : trip.

Lemma triple_delete_indexed_elem l ix k :
  owned_s l -> owned_s ix -> triple (delete_indexed_elem l ix k) owned2.
Proof. intros. unfold delete_indexed_elem, owned2. tgo. Qed.
Hint Resolve triple_delete_indexed_elem : trip.

(* ---- maps and overlay environments ------------------------------------------------ *)
Lemma triple_o_set_plain l c : owno l -> not_fs_env c -> triple (o_set l c) (fun _ => True).
Proof.
  intros Ol Hc. apply triple_o_set; auto. intros p vals ->. simpl in Hc. contradiction.
Qed.

Lemma triple_o_alloc_plain c : not_fs_env c -> triple (o_alloc c) owno.
Proof. intros Hc. apply triple_o_alloc. intros p vals ->. simpl in Hc. contradiction. Qed.

Lemma triple_map_clone m : triple (map_clone m) own_opt.
Proof.
  unfold map_clone. destruct m; [|tgo].
  eapply triple_bind; [eauto with trip|solve [intros; mo]|]. intros a _.
  eapply triple_bind; [apply triple_o_alloc_plain; exact I|solve [intros; mo]|]. intros l' Hl. tgo.
Qed.
Lemma triple_map_put l k v : owno l -> triple (map_put l k v) (fun _ => True).
Proof.
  intros. unfold map_put. eapply triple_bind; [eauto with trip|solve [intros; mo]|]. intros c _.
  destruct c; try apply triple_panic. apply triple_o_set_plain; simpl; auto.
Qed.
Lemma triple_map_del l k : owno l -> triple (map_del l k) (fun _ => True).
Proof.
  intros. unfold map_del. eapply triple_bind; [eauto with trip|solve [intros; mo]|]. intros c _.
  destruct c; try apply triple_panic. apply triple_o_set_plain; simpl; auto.
Qed.
Hint Resolve triple_map_clone triple_map_put triple_map_del : trip.

(* rewriting the values of an owned overlay keeps its parent and funcScope *)
Lemma triple_env_update e (f : list (str * variable) -> list (str * variable)) :
  owno e ->
  triple (c <- o_get e ;;
          match c with CEnv p fs vals => o_set e (CEnv p fs (f vals)) | _ => panic end)
         (fun _ => True).
Proof.
  intros Oe h Hi. unfold bind, o_get.
  destruct (nth_error (ho h) e) as [c|] eqn:E; [|nochange Hi].
  destruct c; try (nochange Hi).
  unfold o_set; simpl.
  destruct (step_o_set h e (CEnv parent fs (f vals)) Hi Oe) as (F & I).
  - intros p vals' [= -> -> _]. destruct Hi as (_ & C). eapply C; eauto.
  - tsplit; auto.
Qed.

Lemma triple_env_put e name v : owno e -> triple (env_put e name v) (fun _ => True).
Proof. intros. apply (triple_env_update e (al_put name v)); auto. Qed.
Lemma triple_env_del e name : owno e -> triple (env_del e name) (fun _ => True).
Proof. intros. apply (triple_env_update e (al_del name)); auto. Qed.
Hint Resolve triple_env_put triple_env_del : trip.

Definition triple_at {A} (c : M A) (h : heaps) (Q : A -> Prop) : Prop :=
  lenok (snd (c h)) ->
  frame h (snd (c h)) /\ hinv (snd (c h)) /\ (forall a, fst (c h) = Ok a -> Q a).

Lemma bind_o_get_at {B} e (f : ocell -> M B) h (R : B -> Prop) :
  hinv h -> (forall c, nth_error (ho h) e = Some c -> triple_at (f c) h R) ->
  triple_at (bind (o_get e) f) h R.
Proof.
  intros Hi H. unfold triple_at, bind, o_get.
  destruct (nth_error (ho h) e) as [c|] eqn:E; simpl.
  - apply H; auto.
  - intros Hl; nochange Hi.
Qed.

Lemma triple_env_set fuel : forall e name vr, owno e -> triple (env_set fuel e name vr) (fun _ => True).
Proof.
  induction fuel; intros e name vr Oe; simpl; [apply triple_fail|].
  intros h Hi. apply bind_o_get_at; auto. intros c E. unfold triple_at.
  destruct c; try (apply (triple_panic (fun _ => True) h Hi)).
  destruct (fs && negb (v_local vr) &&
            negb (v_local match al_get name vals with Some v => v | None => var0 end)) eqn:B.
  - destruct parent as [p'|]; [|apply (triple_panic (fun _ => True) h Hi)].
    apply IHfuel; auto.
    apply andb_true_iff in B. destruct B as [B _]. apply andb_true_iff in B. destruct B as [B _]. subst fs.
    destruct Hi as (_ & C). eapply C; eauto.
  - match goal with |- lenok (snd (?c h)) -> _ => assert (T : triple c (fun _ => True)) end.
    { tgo. }
    apply (T h Hi).
Qed.
Hint Resolve triple_env_set : trip.

(* ---- the Runner ---------------------------------------------------------------------- *)
Definition rinv (r : runner) : Prop :=
  owno (r_env r) /\ own_opt (r_funcs r) /\ own_opt (r_alias r) /\ owned_s (r_dirstack r) /\
  Forall (fun f => owno (f_env f)) (r_stack r).

Lemma triple_set_var r name vr : owno (r_env r) -> triple (set_var r name vr) (fun _ => True).
Proof. intros. unfold set_var. eapply triple_ignore_err. apply triple_env_set; auto. Qed.
Lemma triple_del_var r name : owno (r_env r) -> triple (del_var r name) (fun _ => True).
Proof. intros. unfold del_var. eapply triple_ignore_err. apply triple_env_set; auto. Qed.
Lemma triple_set_var_string r name s : owno (r_env r) -> triple (set_var_string r name s) (fun _ => True).
Proof. intros. apply triple_set_var; auto. Qed.
Hint Resolve triple_set_var triple_del_var triple_set_var_string : trip.

Lemma triple_arr_loop es : forall l ix index,
  owned_s l -> owned_s ix -> triple (arr_loop grow es l ix index) owned2.
Proof.
  induction es as [|[[i|] v] es IH]; intros l ix index Hl Hix; simpl.
  - unfold owned2. tgo.
  - eapply triple_bind; [eauto with trip|solve [intros; mo]|]. intros mx _.
    match goal with |- triple (if ?b then _ else _) _ => destruct b end.
    + unfold owned2. tgo.
    + eapply triple_bind; [eauto with trip|solve [intros; mo]|]. intros [l' ix'] [H1 H2]. simpl in *. apply IH; auto.
  - eapply triple_bind; [eauto with trip|solve [intros; mo]|]. intros [l' ix'] [H1 H2]. simpl in *. apply IH; auto.
Qed.
Hint Resolve triple_arr_loop : trip.

Lemma triple_o_alloc_map m : triple (o_alloc (CMap m)) owno.
Proof. apply triple_o_alloc_plain; exact I. Qed.
Lemma triple_o_alloc_funcs m : triple (o_alloc (CFuncs m)) owno.
Proof. apply triple_o_alloc_plain; exact I. Qed.
Lemma triple_o_alloc_alias m : triple (o_alloc (CAlias m)) owno.
Proof. apply triple_o_alloc_plain; exact I. Qed.
Lemma triple_o_set_funcs l m : owno l -> triple (o_set l (CFuncs m)) (fun _ => True).
Proof. intros; apply triple_o_set_plain; simpl; auto. Qed.
Lemma triple_o_set_alias l m : owno l -> triple (o_set l (CAlias m)) (fun _ => True).
Proof. intros; apply triple_o_set_plain; simpl; auto. Qed.
Hint Resolve triple_o_alloc_map triple_o_alloc_funcs triple_o_alloc_alias triple_o_set_funcs triple_o_set_alias : trip.

Lemma triple_assign_val prev app hi rh vt :
  triple (assign_val grow prev app hi rh vt) (fun _ => True).
Proof. unfold assign_val. tgo. Qed.
Hint Resolve triple_assign_val : trip.

Lemma triple_set_var_with_index r prev name index vr ae :
  owno (r_env r) -> triple (set_var_with_index grow r prev name index vr ae) (fun _ => True).
Proof. intros. unfold set_var_with_index. tgo. Qed.
Hint Resolve triple_set_var_with_index : trip.

Lemma triple_unset_elem r name sub : owno (r_env r) -> triple (unset_elem grow r name sub) (fun _ => True).
Proof. intros. unfold unset_elem. tgo. Qed.
Lemma triple_unset_all r name : owno (r_env r) -> triple (unset_all r name) (fun _ => True).
Proof. intros. unfold unset_all. tgo. Qed.
Hint Resolve triple_unset_elem triple_unset_all : trip.

Lemma rinv_set_dir r d : rinv r -> rinv (set_dir d r).
Proof. unfold rinv; destruct r; simpl; auto. Qed.

Lemma triple_change_dir r apath : rinv r -> triple (change_dir r apath) rinv.
Proof.
  intros H. pose proof (rinv_set_dir r apath H) as H'. unfold change_dir.
  destruct H' as (? & ? & ? & ? & ?). tgo; unfold rinv; auto.
Qed.
Hint Resolve triple_change_dir : trip.

(* ---- every operation of a thread keeps the invariant ------------------------------------ *)
Lemma triple_step o r : rinv r -> triple (step grow o r) rinv.
Proof.
  intros H. pose proof H as (He & Hf & Ha & Hd & Hs).
  destruct o; unfold step.
  - (* OAssign *) tgo.
  - (* ODecl *) destruct v, (r_infunc r); tgo.
  - (* OUnset *) tgo.
  - tgo.
  - tgo.
  - (* OUnsetF *) tgo.
  - (* OShift *)
    destruct (Nat.leb (s_len (r_params r)) n); [tgo; unfold rinv; auto|].
    eapply (triple_bind _ _ (fun _ => True)); [apply triple_lift; auto|solve [intros; mo]|].
    intros; tgo; unfold rinv; auto.
  - (* OSetParams *) tgo; unfold rinv; auto.
  - (* OCd *) tgo.
  - (* OPushd *)
    eapply triple_bind; [apply triple_change_dir; auto|solve [intros; mo]|]. intros r' (He' & Hf' & Ha' & Hd' & Hs').
    tgo; unfold rinv; simpl; auto.
  - (* OPushdSwap *) tgo.
  - (* OPopd *)
    destruct (Nat.ltb (s_len (r_dirstack r)) 2); [tgo|].
    eapply triple_bind; [apply triple_reslice; eauto|solve [intros; mo]|]. intros d Hd'.
    eapply triple_bind; [eauto with trip|solve [intros; mo]|]. intros nt _.
    apply triple_change_dir. unfold rinv; simpl; auto.
  - (* OAlias *) destruct (r_alias r) eqn:E; tgo; unfold rinv; simpl; rewrite ?E; auto.
  - (* OUnalias *) destruct (r_alias r) eqn:E; tgo.
  - (* OFuncDef *) destruct (r_funcs r) eqn:E; tgo; unfold rinv; simpl; rewrite ?E; auto.
  - (* OSetOpt *) tgo; unfold rinv; auto.
  - (* OSetString *) tgo.
  - (* OCallBegin *)
    eapply triple_bind; [eauto with trip|solve [intros; mo]|]. intros p _.
    eapply triple_bind; [apply triple_o_alloc; intros ? ? [= <- _]; exact He|solve [intros; mo]|]. intros e Oe.
    apply triple_ret. unfold rinv; simpl. repeat split; auto.
  - (* OCallEnd *)
    destruct (r_stack r) as [|fr rest] eqn:E; [tgo|].
    apply triple_ret. inversion Hs; subst. unfold rinv; simpl; auto.
Qed.

Lemma step_state_inv s o :
  rinv (st_r s) -> hinv (st_h s) -> lenok (st_h (step_state grow s o)) ->
  frame (st_h s) (st_h (step_state grow s o)) /\ rinv (st_r (step_state grow s o)) /\
  hinv (st_h (step_state grow s o)).
Proof.
  intros Hr Hi Hl. unfold step_state in *. destruct (st_panic s).
  { tsplit; auto using frame_refl. }
  assert (L : lenok (snd (step grow o (st_r s) (st_h s)))).
  { destruct (step grow o (st_r s) (st_h s)) as [[r'|e|] h']; simpl in *; auto. }
  destruct (triple_step o (st_r s) Hr (st_h s) Hi L) as (F & I & P).
  destruct (step grow o (st_r s) (st_h s)) as [[r'|e|] h']; simpl in *; tsplit; auto.
Qed.

Lemma run_ops_inv ops : forall s,
  rinv (st_r s) -> hinv (st_h s) -> lenok (st_h (run_ops grow ops s)) ->
  frame (st_h s) (st_h (run_ops grow ops s)) /\ rinv (st_r (run_ops grow ops s)) /\
  hinv (st_h (run_ops grow ops s)).
Proof.
  induction ops as [|o ops IH]; intros s Hr Hi Hl; simpl in *.
  - tsplit; auto using frame_refl.
  - assert (L1 : lenok (st_h (step_state grow s o))).
    { eapply lenok_hle; [apply run_ops_hle | exact Hl]. }
    destruct (step_state_inv s o Hr Hi L1) as (F & R & I).
    destruct (IH _ R I Hl) as (F2 & R2 & I2). tsplit; auto. eapply frame_trans; eauto.
Qed.

(* ---- Runner.subshell ---------------------------------------------------------------------- *)
Lemma triple_set_all e : forall l, owno e -> triple (set_all e l) (fun _ => True).
Proof.
  induction l as [|[n v] l IH]; intros Oe; cbn [set_all]; [tgo|].
  eapply triple_bind; [eapply triple_ignore_err; apply triple_env_set; auto|solve [intros; mo]|]. intros; auto.
Qed.

Lemma triple_subshell bg r : triple (subshell grow bg r) rinv.
Proof.
  unfold subshell.
  eapply (triple_bind _ _ owno).
  { destruct bg.
    - eapply triple_bind; [apply triple_o_alloc; intros ? ? [=]|solve [intros; mo]|]. intros e Oe.
      eapply triple_bind; [eauto with trip|solve [intros; mo]|]. intros all _.
      eapply triple_bind; [apply triple_set_all; auto|solve [intros; mo]|]. intros; tgo.
    - apply triple_o_alloc; intros ? ? [=]. }
  { intros; mo. }
  intros e Oe.
  eapply (triple_bind _ _ own_opt).
  { unfold map_clone_funcs. destruct (r_funcs r); tgo. }
  { intros; mo. }
  intros f Of.
  eapply (triple_bind _ _ own_opt).
  { unfold map_clone_alias. destruct (r_alias r); tgo. }
  { intros; mo. }
  intros a Oa'.
  tgo. unfold rinv; simpl; auto.
Qed.

End Own.

(* ======================================================================================= *)
(* What a Runner observes depends only on the cells that existed when the
   observation's roots were created.                                                        *)

Definition agree (na no : nat) (h h' : heaps) : Prop :=
  (forall l, l < na -> nth_error (ha h') l = nth_error (ha h) l) /\
  (forall l, l < no -> nth_error (ho h') l = nth_error (ho h) l).

Definition wf_slice (na : nat) (s : slice) : Prop :=
  match s with SNil => True | Sl l _ _ _ => l < na end.
Definition opt_lt (no : nat) (o : option loc) : Prop :=
  match o with Some l => l < no | None => True end.
Definition wf_var (na no : nat) (v : variable) : Prop :=
  wf_slice na (v_list v) /\ wf_slice na (v_idx v) /\ opt_lt no (v_map v).
Definition wf_vals (na no : nat) (vals : list (str * variable)) : Prop :=
  Forall (fun nv => wf_var na no (snd nv)) vals.
Definition wf_cell (na no : nat) (l : loc) (c : ocell) : Prop :=
  match c with
  | CEnv p _ vals => match p with Some p' => p' < l | None => True end /\ wf_vals na no vals
  | CBase vals => wf_vals na no vals
  | _ => True
  end.
(* no dangling pointers: what Go's memory safety guarantees of any reachable state *)
Definition wf_heap (h : heaps) : Prop :=
  forall l c, nth_error (ho h) l = Some c -> wf_cell (length (ha h)) (length (ho h)) l c.
Definition wf_runner (r : runner) (h : heaps) : Prop :=
  r_env r < length (ho h) /\ opt_lt (length (ho h)) (r_funcs r) /\ opt_lt (length (ho h)) (r_alias r) /\
  wf_slice (length (ha h)) (r_dirstack r) /\ wf_slice (length (ha h)) (r_params r).

Section Agree.
Variables h h' : heaps.
Let na := length (ha h).
Let no := length (ho h).
Hypothesis AG : agree na no h h'.
Hypothesis WF : wf_heap h.

Lemma elems_agree s : wf_slice na s -> elems (ha h') s = elems (ha h) s.
Proof.
  destruct s as [|l o n c]; simpl; auto. intros L. unfold arr.
  rewrite (nth_of_nth_error (ha h) (ha h') l []); auto. apply AG; auto.
Qed.

Lemma bind_o_get {B} e (f : ocell -> M B) g :
  bind (o_get e) f g = match nth_error (ho g) e with Some c => f c g | None => (Panic, g) end.
Proof. unfold bind, o_get. destruct (nth_error (ho g) e); reflexivity. Qed.

Lemma al_get_wf name vals v : wf_vals na no vals -> al_get name vals = Some v -> wf_var na no v.
Proof.
  induction 1 as [|[k x] t Hx Ht IH]; simpl; [discriminate|].
  destruct (str_eqb k name); auto. intros [= <-]; auto.
Qed.

Lemma wf_var0 : wf_var na no var0.
Proof. unfold wf_var, var0; simpl; auto. Qed.

Lemma env_get_agree fuel : forall e name, e < no ->
  fst (env_get fuel e name h') = fst (env_get fuel e name h) /\
  (forall v, fst (env_get fuel e name h) = Ok v -> wf_var na no v).
Proof.
  induction fuel; intros e name L; simpl; [split; auto; discriminate|].
  rewrite !bind_o_get. destruct AG as [_ AGo]. rewrite (AGo e L).
  destruct (nth_error (ho h) e) as [c|] eqn:E; [|split; auto; discriminate].
  pose proof (WF e c E) as W.
  destruct c; simpl; try (split; auto; discriminate).
  - destruct W as [Wp Wv].
    destruct (al_get name vals) eqn:G.
    + simpl. split; auto. intros v0 [= <-]. eapply al_get_wf; eauto.
    + destruct parent as [p'|].
      * apply IHfuel. fold no. lia.
      * simpl. split; auto. intros v0 [= <-]. apply wf_var0.
  - split; auto. intros v0 [= <-]. destruct (al_get name vals) eqn:G.
    + eapply al_get_wf; eauto.
    + apply wf_var0.
Qed.

Lemma env_each_agree fuel : forall e, e < no ->
  fst (env_each fuel e h') = fst (env_each fuel e h).
Proof.
  induction fuel; intros e L; simpl; auto.
  rewrite !bind_o_get. destruct AG as [_ AGo]. rewrite (AGo e L).
  destruct (nth_error (ho h) e) as [c|] eqn:E; auto.
  pose proof (WF e c E) as W.
  destruct c; simpl; auto.
  destruct W as [Wp Wv]. destruct parent as [p'|]; simpl; auto.
  assert (Lp : p' < no) by (fold no; lia).
  specialize (IHfuel p' Lp).
  unfold bind.
  pose proof (readonly_env_each fuel p' h') as R1. pose proof (readonly_env_each fuel p' h) as R2.
  destruct (env_each fuel p' h') as [r1 g1]; destruct (env_each fuel p' h) as [r2 g2]; simpl in *; subst.
  destruct r2; reflexivity.
Qed.

Lemma map_read_agree m : opt_lt no m -> fst (map_read m h') = fst (map_read m h).
Proof.
  destruct m as [l|]; simpl; auto. intros L. rewrite !bind_o_get.
  destruct AG as [_ AGo]. rewrite (AGo l L).
  destruct (nth_error (ho h) l) as [c|]; auto. destruct c; reflexivity.
Qed.
Lemma funcs_read_agree m : opt_lt no m -> fst (funcs_read m h') = fst (funcs_read m h).
Proof.
  destruct m as [l|]; simpl; auto. intros L. rewrite !bind_o_get.
  destruct AG as [_ AGo]. rewrite (AGo l L).
  destruct (nth_error (ho h) l) as [c|]; auto. destruct c; reflexivity.
Qed.
Lemma alias_read_agree m : opt_lt no m -> fst (alias_read m h') = fst (alias_read m h).
Proof.
  destruct m as [l|]; simpl; auto. intros L. rewrite !bind_o_get.
  destruct AG as [_ AGo]. rewrite (AGo l L).
  destruct (nth_error (ho h) l) as [c|]; auto. destruct c; reflexivity.
Qed.

Lemma resolve_var_agree v : wf_var na no v -> resolve_var h' v = resolve_var h v.
Proof.
  intros (W1 & W2 & W3). unfold resolve_var.
  rewrite (elems_agree _ W1), (elems_agree _ W2).
  destruct (v_map v) as [l|] eqn:E; auto.
  rewrite (map_read_agree (Some l)); auto.
Qed.

Lemma observe_var_agree r name : r_env r < no -> observe_var r h' name = observe_var r h name.
Proof.
  intros L. unfold observe_var, lookup_var, bind.
  destruct (env_get_agree (chain_fuel (r_env r)) (r_env r) name L) as [E W].
  destruct (env_get (chain_fuel (r_env r)) (r_env r) name h') as [r1 g1].
  destruct (env_get (chain_fuel (r_env r)) (r_env r) name h) as [r2 g2]. simpl in *. subst r1.
  destruct r2 as [v| |]; simpl; auto.
  f_equal. apply resolve_var_agree.
  destruct (declared v); [apply W; auto | apply wf_var0].
Qed.

Lemma observe_agree r : wf_runner r h -> observe r h' = observe r h.
Proof.
  intros (L & Lf & La & Ld & Lp). unfold observe.
  rewrite (funcs_read_agree _ Lf), (alias_read_agree _ La), (elems_agree _ Ld), (elems_agree _ Lp).
  f_equal.
  pose proof (env_each_agree (chain_fuel (r_env r)) (r_env r) L) as E.
  destruct (env_each (chain_fuel (r_env r)) (r_env r) h') as [r1 g1].
  destruct (env_each (chain_fuel (r_env r)) (r_env r) h) as [r2 g2]. simpl in E. subst r1.
  destruct r2; auto. f_equal. apply map_ext. intros nv. f_equal. apply observe_var_agree; auto.
Qed.

End Agree.

(* the same for an arbitrary set of cells (Pa, Po) closed under the pointers stored in it *)
Definition agreeP (Pa Po : loc -> Prop) (h h' : heaps) : Prop :=
  (forall l, Pa l -> nth_error (ha h') l = nth_error (ha h) l) /\
  (forall l, Po l -> nth_error (ho h') l = nth_error (ho h) l).
Definition okS (Pa : loc -> Prop) (s : slice) : Prop :=
  match s with SNil => True | Sl l _ _ _ => Pa l end.
Definition okO (Po : loc -> Prop) (o : option loc) : Prop :=
  match o with Some l => Po l | None => True end.
Definition okV (Pa Po : loc -> Prop) (v : variable) : Prop :=
  okS Pa (v_list v) /\ okS Pa (v_idx v) /\ okO Po (v_map v).
Definition okVals (Pa Po : loc -> Prop) (vals : list (str * variable)) : Prop :=
  Forall (fun nv => okV Pa Po (snd nv)) vals.
Definition okCell (Pa Po : loc -> Prop) (c : ocell) : Prop :=
  match c with
  | CEnv p _ vals => match p with Some p' => Po p' | None => True end /\ okVals Pa Po vals
  | CBase vals => okVals Pa Po vals
  | _ => True
  end.
Definition closedP (Pa Po : loc -> Prop) (h : heaps) : Prop :=
  forall l c, Po l -> nth_error (ho h) l = Some c -> okCell Pa Po c.
Definition okR (Pa Po : loc -> Prop) (r : runner) : Prop :=
  Po (r_env r) /\ okO Po (r_funcs r) /\ okO Po (r_alias r) /\ okS Pa (r_dirstack r) /\ okS Pa (r_params r).

Section AgreeP.
Variables h h' : heaps.
Variables Pa Po : loc -> Prop.
Hypothesis AG : agreeP Pa Po h h'.
Hypothesis WF : closedP Pa Po h.

Lemma elems_agreeP s : okS Pa s -> elems (ha h') s = elems (ha h) s.
Proof.
  destruct s as [|l o n c]; simpl; auto. intros L. unfold arr.
  rewrite (nth_of_nth_error (ha h) (ha h') l []); auto. apply AG; auto.
Qed.

Lemma bind_o_getP {B} e (f : ocell -> M B) g :
  bind (o_get e) f g = match nth_error (ho g) e with Some c => f c g | None => (Panic, g) end.
Proof. unfold bind, o_get. destruct (nth_error (ho g) e); reflexivity. Qed.

Lemma al_get_wfP name vals v : okVals Pa Po vals -> al_get name vals = Some v -> okV Pa Po v.
Proof.
  induction 1 as [|[k x] t Hx Ht IH]; simpl; [discriminate|].
  destruct (str_eqb k name); auto. intros [= <-]; auto.
Qed.

Lemma wf_var0P : okV Pa Po var0.
Proof. unfold okV, var0; simpl; auto. Qed.

Lemma env_get_agreeP fuel : forall e name, Po e ->
  fst (env_get fuel e name h') = fst (env_get fuel e name h) /\
  (forall v, fst (env_get fuel e name h) = Ok v -> okV Pa Po v).
Proof.
  induction fuel; intros e name L; simpl; [split; auto; discriminate|].
  rewrite !bind_o_getP. destruct AG as [_ AGo]. rewrite (AGo e L).
  destruct (nth_error (ho h) e) as [c|] eqn:E; [|split; auto; discriminate].
  pose proof (WF e c L E) as W.
  destruct c; simpl; try (split; auto; discriminate).
  - destruct W as [Wp Wv].
    destruct (al_get name vals) eqn:G.
    + simpl. split; auto. intros v0 [= <-]. eapply al_get_wfP; eauto.
    + destruct parent as [p'|].
      * apply IHfuel. exact Wp.
      * simpl. split; auto. intros v0 [= <-]. apply wf_var0P.
  - split; auto. intros v0 [= <-]. destruct (al_get name vals) eqn:G.
    + eapply al_get_wfP; eauto.
    + apply wf_var0P.
Qed.

Lemma env_each_agreeP fuel : forall e, Po e ->
  fst (env_each fuel e h') = fst (env_each fuel e h).
Proof.
  induction fuel; intros e L; simpl; auto.
  rewrite !bind_o_getP. destruct AG as [_ AGo]. rewrite (AGo e L).
  destruct (nth_error (ho h) e) as [c|] eqn:E; auto.
  pose proof (WF e c L E) as W.
  destruct c; simpl; auto.
  destruct W as [Wp Wv]. destruct parent as [p'|]; simpl; auto.
  assert (Lp : Po p') by exact Wp.
  specialize (IHfuel p' Lp).
  unfold bind.
  pose proof (readonly_env_each fuel p' h') as R1. pose proof (readonly_env_each fuel p' h) as R2.
  destruct (env_each fuel p' h') as [r1 g1]; destruct (env_each fuel p' h) as [r2 g2]; simpl in *; subst.
  destruct r2; reflexivity.
Qed.

Lemma map_read_agreeP m : okO Po m -> fst (map_read m h') = fst (map_read m h).
Proof.
  destruct m as [l|]; simpl; auto. intros L. rewrite !bind_o_getP.
  destruct AG as [_ AGo]. rewrite (AGo l L).
  destruct (nth_error (ho h) l) as [c|]; auto. destruct c; reflexivity.
Qed.
Lemma funcs_read_agreeP m : okO Po m -> fst (funcs_read m h') = fst (funcs_read m h).
Proof.
  destruct m as [l|]; simpl; auto. intros L. rewrite !bind_o_getP.
  destruct AG as [_ AGo]. rewrite (AGo l L).
  destruct (nth_error (ho h) l) as [c|]; auto. destruct c; reflexivity.
Qed.
Lemma alias_read_agreeP m : okO Po m -> fst (alias_read m h') = fst (alias_read m h).
Proof.
  destruct m as [l|]; simpl; auto. intros L. rewrite !bind_o_getP.
  destruct AG as [_ AGo]. rewrite (AGo l L).
  destruct (nth_error (ho h) l) as [c|]; auto. destruct c; reflexivity.
Qed.

Lemma resolve_var_agreeP v : okV Pa Po v -> resolve_var h' v = resolve_var h v.
Proof.
  intros (W1 & W2 & W3). unfold resolve_var.
  rewrite (elems_agreeP _ W1), (elems_agreeP _ W2).
  destruct (v_map v) as [l|] eqn:E; auto.
  rewrite (map_read_agreeP (Some l)); auto.
Qed.

Lemma observe_var_agreeP r name : Po (r_env r) -> observe_var r h' name = observe_var r h name.
Proof.
  intros L. unfold observe_var, lookup_var, bind.
  destruct (env_get_agreeP (chain_fuel (r_env r)) (r_env r) name L) as [E W].
  destruct (env_get (chain_fuel (r_env r)) (r_env r) name h') as [r1 g1].
  destruct (env_get (chain_fuel (r_env r)) (r_env r) name h) as [r2 g2]. simpl in *. subst r1.
  destruct r2 as [v| |]; simpl; auto.
  f_equal. apply resolve_var_agreeP.
  destruct (declared v); [apply W; auto | apply wf_var0P].
Qed.

Lemma observe_agreeP r : okR Pa Po r -> observe r h' = observe r h.
Proof.
  intros (L & Lf & La & Ld & Lp). unfold observe.
  rewrite (funcs_read_agreeP _ Lf), (alias_read_agreeP _ La), (elems_agreeP _ Ld), (elems_agreeP _ Lp).
  f_equal.
  pose proof (env_each_agreeP (chain_fuel (r_env r)) (r_env r) L) as E.
  destruct (env_each (chain_fuel (r_env r)) (r_env r) h') as [r1 g1].
  destruct (env_each (chain_fuel (r_env r)) (r_env r) h) as [r2 g2]. simpl in E. subst r1.
  destruct r2; auto. f_equal. apply map_ext. intros nv. f_equal. apply observe_var_agreeP; auto.
Qed.

End AgreeP.

(* ======================================================================================= *)
(* C27: a subshell and everything it runs leave the parent's observation unchanged           *)

Lemma run_ops_panic grow ops : forall s, st_panic s = true -> run_ops grow ops s = s.
Proof.
  induction ops as [|o ops IH]; intros s H; simpl; auto.
  assert (E : step_state grow s o = s) by (unfold step_state; rewrite H; auto).
  rewrite E. apply IH; auto.
Qed.

Lemma subshell_state_h g bg r h : st_h (subshell_state g bg r h) = snd (subshell g bg r h).
Proof. unfold subshell_state. destruct (subshell g bg r h) as [[r2|e|] h1]; reflexivity. Qed.

Section Isolated.
Variable grow : nat -> nat -> nat.
Variables (r : runner) (h : heaps).
Let owna := fun l => length (ha h) <= l.
Let owno := fun l => length (ho h) <= l.

Lemma hinv_start Na No : hinv owna owno Na No h.
Proof.
  split; [split; auto|]. intros l p vals Ol E.
  assert (nth_error (ho h) l = None) by (apply nth_error_None; auto). congruence.
Qed.

Lemma frame_agree g : frame owna owno h g -> agree (length (ha h)) (length (ho h)) h g.
Proof.
  intros (_ & _ & A & O). split; intros l L; [apply A | apply O]; unfold owna, owno; lia.
Qed.

Lemma child_frame bg ops :
  frame owna owno h (st_h (run_ops grow ops (subshell_state grow bg r h))).
Proof.
  pose (Na := length (ha (st_h (run_ops grow ops (subshell_state grow bg r h))))).
  pose (No := length (ho (st_h (run_ops grow ops (subshell_state grow bg r h))))).
  assert (Lg : lenok Na No (st_h (run_ops grow ops (subshell_state grow bg r h)))) by (split; auto).
  pose proof (run_ops_hle grow ops (subshell_state grow bg r h)) as M.
  assert (L1 : lenok Na No (snd (subshell grow bg r h))).
  { rewrite <- subshell_state_h. eapply lenok_hle; [exact M | exact Lg]. }
  destruct (triple_subshell grow owna owno Na No bg r h (hinv_start Na No) L1) as (F & I & P).
  clearbody Na No. unfold subshell_state in *.
  destruct (subshell grow bg r h) as [[r2|e|] h1]; simpl in *.
  - destruct (run_ops_inv grow owna owno Na No ops (mkSt r2 h1 false) (P r2 eq_refl) I Lg) as (F2 & _ & _).
    simpl in F2. eapply frame_trans; eauto.
  - rewrite run_ops_panic; auto.
  - rewrite run_ops_panic; auto.
Qed.

Theorem isolated bg ops :
  wf_heap h -> wf_runner r h ->
  observe r (st_h (run_ops grow ops (subshell_state grow bg r h))) = observe r h.
Proof.
  intros WH WR. apply observe_agree; auto. apply frame_agree. apply child_frame.
Qed.

(* the invariant itself: every cell that existed when the subshell was created is untouched *)
Theorem child_writes_only_own_cells bg ops :
  let g := st_h (run_ops grow ops (subshell_state grow bg r h)) in
  (forall l, l < length (ha h) -> nth_error (ha g) l = nth_error (ha h) l) /\
  (forall l, l < length (ho h) -> nth_error (ho g) l = nth_error (ho h) l).
Proof. apply frame_agree, child_frame. Qed.

End Isolated.

(* ======================================================================================= *)
(* C32 (model level): two threads, any interleaving                                          *)

Lemma rinv_mono (P Q P' Q' : loc -> Prop) r :
  (forall l, P l -> P' l) -> (forall l, Q l -> Q' l) -> rinv P Q r -> rinv P' Q' r.
Proof.
  intros HP HQ (He & Hf & Ha & Hd & Hs). unfold rinv, own_opt, owned_s in *.
  repeat split; auto.
  - destruct (r_funcs r); auto.
  - destruct (r_alias r); auto.
  - destruct (r_dirstack r); auto. destruct Hd; auto.
  - eapply Forall_impl; [|exact Hs]. simpl; auto.
Qed.

(* strict ownership: allocated and tagged t *)
Definition sown (tags : list tid) (t : tid) (l : loc) : Prop :=
  l < length tags /\ nth l tags TShared = t.
(* a thread's invariant: every pointer it stores through is to a cell of its own, and an
   own function-scope overlay has an own parent *)
Definition tinv (t : tid) (ta to : list tid) (r : runner) (h : heaps) : Prop :=
  rinv (sown ta t) (sown to t) r /\ fs_closed (sown to t) h.
(* a step of thread t leaves every existing cell that is not tagged t as it was *)
Definition writes_ok (t : tid) (ta to : list tid) (h h' : heaps) : Prop :=
  (forall l, l < length ta -> nth l ta TShared <> t -> nth_error (ha h') l = nth_error (ha h) l) /\
  (forall l, l < length to -> nth l to TShared <> t -> nth_error (ho h') l = nth_error (ho h) l).

Lemma nth_repeat_in {A} (x d : A) k : forall i, i < k -> nth i (repeat x k) d = x.
Proof. induction k; intros [|i] H; simpl; auto; try lia. apply IHk; lia. Qed.

Lemma retag_length tags t n : length tags <= n -> length (retag tags t n) = n.
Proof. intros. unfold retag. rewrite app_length, repeat_length. lia. Qed.
Lemma retag_old tags t n l : l < length tags -> nth l (retag tags t n) TShared = nth l tags TShared.
Proof. intros. unfold retag. apply app_nth1; auto. Qed.
Lemma retag_new tags t n l : length tags <= l -> l < n -> nth l (retag tags t n) TShared = t.
Proof.
  intros. unfold retag. rewrite app_nth2 by auto. apply nth_repeat_in. lia.
Qed.

Section Threads.
Variable grow : nat -> nat -> nat.

(* ownership used for one step of thread t that starts at heap h and ends with lengths Na/No *)
Definition sta (ta : list tid) (t : tid) (h : heaps) (Na : nat) (l : loc) : Prop :=
  l < Na /\ (nth l ta TShared = t \/ length (ha h) <= l).
Definition sto (to : list tid) (t : tid) (h : heaps) (No : nat) (l : loc) : Prop :=
  l < No /\ (nth l to TShared = t \/ length (ho h) <= l).

(* the generic step: a computation of thread t that keeps the frame invariant *)
Lemma thread_step t ta to h h' (r r' : runner) :
  length ta = length (ha h) -> length to = length (ho h) -> hle h h' ->
  let Na := length (ha h') in let No := length (ho h') in
  fs_closed (sown to t) h ->
  forall (P : Prop),
  (hinv (sta ta t h Na) (sto to t h No) Na No h ->
   frame (sta ta t h Na) (sto to t h No) h h' /\
   (P -> rinv (sta ta t h Na) (sto to t h No) r') /\
   hinv (sta ta t h Na) (sto to t h No) Na No h') ->
  let ta' := retag ta t Na in let to' := retag to t No in
  writes_ok t ta to h h' /\ (P -> tinv t ta' to' r' h') /\
  (forall u ru, u <> t -> tinv u ta to ru h -> tinv u ta' to' ru h').
Proof.
  intros La Lo [Ma Mo] Na No C P Hstep ta' to'. subst ta' to'.
  assert (Hi : hinv (sta ta t h Na) (sto to t h No) Na No h).
  { split; [split|].
    - intros l L1 L2. split; auto.
    - intros l L1 L2. split; auto.
    - intros l p vals [Ol [Ot|Ot]] E.
      + assert (l < length (ho h)) by (apply nth_error_Some; congruence).
        assert (S : sown to t p). { eapply C; eauto. split; auto. lia. }
        destruct S as [S1 S2]. split; auto. unfold No. lia.
      + assert (l < length (ho h)) by (apply nth_error_Some; congruence). lia. }
  destruct (Hstep Hi) as ((_ & _ & FA & FO) & R & (_ & C')).
  assert (LA : length (retag ta t Na) = Na) by (apply retag_length; lia).
  assert (LO : length (retag to t No) = No) by (apply retag_length; lia).
  assert (EA : forall l, sta ta t h Na l <-> sown (retag ta t Na) t l).
  { intros l; unfold sta, sown; rewrite LA. split.
    - intros [L [T|T]]; split; auto.
      + destruct (Nat.lt_ge_cases l (length ta)); [rewrite retag_old; auto | apply retag_new; auto].
      + apply retag_new; auto; lia.
    - intros [L T]; split; auto.
      destruct (Nat.lt_ge_cases l (length ta)); [left; rewrite <- T; symmetry; apply retag_old; auto | right; lia]. }
  assert (EO : forall l, sto to t h No l <-> sown (retag to t No) t l).
  { intros l; unfold sto, sown; rewrite LO. split.
    - intros [L [T|T]]; split; auto.
      + destruct (Nat.lt_ge_cases l (length to)); [rewrite retag_old; auto | apply retag_new; auto].
      + apply retag_new; auto; lia.
    - intros [L T]; split; auto.
      destruct (Nat.lt_ge_cases l (length to)); [left; rewrite <- T; symmetry; apply retag_old; auto | right; lia]. }
  split; [|split].
  - split; intros l L T; [apply FA | apply FO]; intros [_ [X|X]]; auto; lia.
  - intros HP. split.
    + eapply rinv_mono; [| |exact (R HP)]; intros l; [apply EA | apply EO].
    + intros l p vals Ol E. apply EO. eapply C'; eauto. apply EO; auto.
  - intros u ru Hu [Ru Cu]. split.
    + eapply rinv_mono; [| |exact Ru]; intros l [L T]; split;
        try (rewrite LA || rewrite LO); try lia; rewrite retag_old; auto.
    + intros l p vals [L T] E.
      assert (L0 : l < length to).
      { destruct (Nat.lt_ge_cases l (length to)); auto.
        rewrite retag_new in T; auto; [congruence | rewrite <- LO; auto]. }
      rewrite retag_old in T by auto.
      assert (NO : ~ sto to t h No l) by (intros [_ [X|X]]; [congruence | lia]).
      rewrite (FO l NO) in E.
      destruct (Cu l p vals (conj L0 T) E) as [P1 P2].
      split; [rewrite LO; lia | rewrite retag_old; auto].
Qed.

Definition cinv (cf : conf) : Prop :=
  length (cf_ta cf) = length (ha (cf_h cf)) /\ length (cf_to cf) = length (ho (cf_h cf)) /\
  (cf_pp cf = true \/ tinv TParent (cf_ta cf) (cf_to cf) (cf_p cf) (cf_h cf)) /\
  (cf_cp cf = true \/ tinv TChild (cf_ta cf) (cf_to cf) (cf_c cf) (cf_h cf)).
Definition ev_tid (ev : bool * op) : tid := if fst ev then TParent else TChild.
Definition step_ok (cf : conf) (ev : bool * op) : Prop :=
  writes_ok (ev_tid ev) (cf_ta cf) (cf_to cf) (cf_h cf) (cf_h (sched_step grow cf ev)).
Fixpoint all_ok (evs : list (bool * op)) (cf : conf) : Prop :=
  match evs with
  | [] => True
  | ev :: rest => step_ok cf ev /\ all_ok rest (sched_step grow cf ev)
  end.

Lemma retag_same tags t n : length tags = n -> retag tags t n = tags.
Proof. intros <-. unfold retag. rewrite Nat.sub_diag. simpl. apply app_nil_r. Qed.

(* one step of thread t from runner r (panic flag pp) *)
Lemma thread_state_step t ta to h r pp o :
  length ta = length (ha h) -> length to = length (ho h) ->
  (pp = true \/ tinv t ta to r h) ->
  let s := step_state grow (mkSt r h pp) o in
  let ta' := retag ta t (length (ha (st_h s))) in
  let to' := retag to t (length (ho (st_h s))) in
  writes_ok t ta to h (st_h s) /\
  length ta' = length (ha (st_h s)) /\ length to' = length (ho (st_h s)) /\
  (st_panic s = true \/ tinv t ta' to' (st_r s) (st_h s)) /\
  (forall u ru, u <> t -> tinv u ta to ru h -> tinv u ta' to' ru (st_h s)).
Proof.
  intros La Lo Hp s ta' to'.
  pose proof (step_state_hle grow (mkSt r h pp) o) as M. simpl in M. fold s in M.
  destruct Hp as [Hp|[R C]].
  - (* already panicked: nothing runs *)
    assert (E : s = mkSt r h pp) by (unfold s, step_state; simpl; rewrite Hp; reflexivity).
    subst ta' to'. rewrite E; simpl. rewrite !retag_same by auto.
    split; [split; intros; reflexivity|]. split; [auto|]. split; [auto|]. split; auto.
  - destruct (thread_step t ta to h (st_h s) r (st_r s) La Lo M C True) as (W & T & U).
    { intros Hi. destruct M as [Ma Mo].
      assert (R' : rinv (sta ta t h (length (ha (st_h s)))) (sto to t h (length (ho (st_h s)))) r).
      { eapply rinv_mono; [| |exact R]; intros l [L X]; split; auto; lia. }
      destruct (step_state_inv grow _ _ _ _ (mkSt r h pp) o R' Hi) as (F & R2 & I2).
      { split; auto. }
      fold s in F, R2, I2. tsplit; auto. }
    destruct M as [Ma Mo].
    split; [exact W|]. split; [apply retag_length; lia|]. split; [apply retag_length; lia|].
    split; [right; apply T; exact I | exact U].
Qed.

Lemma sched_step_inv cf ev : cinv cf -> step_ok cf ev /\ cinv (sched_step grow cf ev).
Proof.
  intros (La & Lo & Hp & Hc). destruct ev as [[|] o]; unfold step_ok, sched_step, ev_tid; simpl.
  - destruct (thread_state_step TParent _ _ _ _ _ o La Lo Hp) as (W & L1 & L2 & T & U).
    split; auto. unfold cinv; simpl. repeat split; auto.
    destruct Hc as [Hc|Hc]; [left; auto | right; apply U; auto; discriminate].
  - destruct (thread_state_step TChild _ _ _ _ _ o La Lo Hc) as (W & L1 & L2 & T & U).
    split; auto. unfold cinv; simpl. repeat split; auto.
    destruct Hp as [Hp|Hp]; [left; auto | right; apply U; auto; discriminate].
Qed.

Lemma run_sched_ok evs : forall cf, cinv cf -> all_ok evs cf /\ cinv (run_sched grow evs cf).
Proof.
  induction evs as [|ev evs IH]; intros cf Hc; simpl; auto.
  destruct (sched_step_inv cf ev Hc) as [S C]. destruct (IH _ C) as [A C']. auto.
Qed.

(* the fork itself: Runner.subshell(true) is a step of the copy *)
Lemma fork_inv r h ta to :
  length ta = length (ha h) -> length to = length (ho h) ->
  tinv TParent ta to r h ->
  (forall l, nth l to TShared <> TChild) ->
  cinv (fork_conf grow r h ta to) /\ writes_ok TChild ta to h (cf_h (fork_conf grow r h ta to)).
Proof.
  intros La Lo TP NC. unfold fork_conf. simpl.
  set (s := subshell_state grow true r h).
  assert (M : hle h (st_h s)).
  { unfold s. rewrite subshell_state_h. apply mono_subshell. }
  assert (C0 : fs_closed (sown to TChild) h).
  { intros l p vals [L T] E. exfalso. eapply NC; eauto. }
  destruct (thread_step TChild ta to h (st_h s) r (st_r s) La Lo M C0 (st_panic s = false)) as (W & T & U).
  { intros Hi. pose proof (subshell_state_h grow true r h) as Es. fold s in Es. rewrite Es in *.
    assert (L : lenok (length (ha (snd (subshell grow true r h)))) (length (ho (snd (subshell grow true r h))))
                      (snd (subshell grow true r h))) by (split; auto).
    destruct (triple_subshell grow _ _ _ _ true r h Hi L) as (F & I & Q).
    tsplit; auto.
    intros Hp. unfold s, subshell_state in *.
    destruct (subshell grow true r h) as [[r2|e|] h1]; simpl in *; try discriminate. apply Q; auto. }
  destruct M as [Ma Mo]. split; auto.
  unfold cinv; simpl. repeat split; try (apply retag_length; lia).
  - right. apply U; auto. discriminate.
  - destruct (st_panic s) eqn:P; [left; auto | right; apply T; auto].
Qed.

(* every cell classified as shared at the fork keeps its contents under every interleaving *)
Lemma shared_stable evs : forall cf, cinv cf ->
  (forall l, l < length (cf_ta cf) -> nth l (cf_ta cf) TShared = TShared ->
     nth_error (ha (cf_h (run_sched grow evs cf))) l = nth_error (ha (cf_h cf)) l) /\
  (forall l, l < length (cf_to cf) -> nth l (cf_to cf) TShared = TShared ->
     nth_error (ho (cf_h (run_sched grow evs cf))) l = nth_error (ho (cf_h cf)) l).
Proof.
  induction evs as [|ev evs IH]; intros cf Hc; simpl; auto.
  destruct (sched_step_inv cf ev Hc) as [[WA WO] C]. destruct (IH _ C) as [A O].
  assert (TA : forall l, l < length (cf_ta cf) ->
                 l < length (cf_ta (sched_step grow cf ev)) /\
                 nth l (cf_ta (sched_step grow cf ev)) TShared = nth l (cf_ta cf) TShared).
  { intros l L. destruct ev as [[|] o]; unfold sched_step; simpl;
      (split; [unfold retag; rewrite app_length; lia | apply retag_old; auto]). }
  assert (TO : forall l, l < length (cf_to cf) ->
                 l < length (cf_to (sched_step grow cf ev)) /\
                 nth l (cf_to (sched_step grow cf ev)) TShared = nth l (cf_to cf) TShared).
  { intros l L. destruct ev as [[|] o]; unfold sched_step; simpl;
      (split; [unfold retag; rewrite app_length; lia | apply retag_old; auto]). }
  split; intros l L T.
  - destruct (TA l L) as [L' T']. rewrite A by (auto; congruence).
    apply WA; auto. rewrite T. unfold ev_tid. destruct (fst ev); discriminate.
  - destruct (TO l L) as [L' T']. rewrite O by (auto; congruence).
    apply WO; auto. rewrite T. unfold ev_tid. destruct (fst ev); discriminate.
Qed.

Theorem no_shared_writes_interleaved r h ta to evs :
  length ta = length (ha h) -> length to = length (ho h) ->
  tinv TParent ta to r h -> (forall l, nth l to TShared <> TChild) ->
  all_ok evs (fork_conf grow r h ta to) /\
  cinv (run_sched grow evs (fork_conf grow r h ta to)) /\
  (forall l, l < length ta -> nth l ta TShared = TShared ->
     nth_error (ha (cf_h (run_sched grow evs (fork_conf grow r h ta to)))) l = nth_error (ha h) l) /\
  (forall l, l < length to -> nth l to TShared = TShared ->
     nth_error (ho (cf_h (run_sched grow evs (fork_conf grow r h ta to)))) l = nth_error (ho h) l).
Proof.
  intros La Lo TP NC. destruct (fork_inv r h ta to La Lo TP NC) as [C [WA WO]].
  destruct (run_sched_ok evs _ C) as [A C']. destruct (shared_stable evs _ C) as [SA SO].
  assert (LA' : forall l, l < length ta -> l < length (cf_ta (fork_conf grow r h ta to)) /\
                 nth l (cf_ta (fork_conf grow r h ta to)) TShared = nth l ta TShared).
  { intros l L. unfold fork_conf; simpl. split; [unfold retag; rewrite app_length; lia | apply retag_old; auto]. }
  assert (LO' : forall l, l < length to -> l < length (cf_to (fork_conf grow r h ta to)) /\
                 nth l (cf_to (fork_conf grow r h ta to)) TShared = nth l to TShared).
  { intros l L. unfold fork_conf; simpl. split; [unfold retag; rewrite app_length; lia | apply retag_old; auto]. }
  split; auto. split; auto. split; intros l L T.
  - destruct (LA' l L) as [L1 T1].
    transitivity (nth_error (ha (cf_h (fork_conf grow r h ta to))) l).
    + apply SA; auto; congruence.
    + apply WA; auto; rewrite T; discriminate.
  - destruct (LO' l L) as [L1 T1].
    transitivity (nth_error (ho (cf_h (fork_conf grow r h ta to))) l).
    + apply SO; auto; congruence.
    + apply WO; auto; rewrite T; discriminate.
Qed.

End Threads.

(* ---- bgProcs / wait ------------------------------------------------------------------------ *)
Definition good_job (j : job) : Prop :=
  (j_pc j = 0 /\ j_done j = false) \/ j_exit j = j_status j.

Lemma map_set_nth {A B} (f : A -> B) (l : list A) i x :
  nth_error l i <> None -> f x = match nth_error l i with Some y => f y | None => f x end ->
  map f (set_nth l i x) = map f l.
Proof.
  revert i; induction l as [|a l IH]; intros [|i] H E; simpl in *; auto; try congruence.
  f_equal. apply IH; auto.
Qed.

Lemma Forall_set_nth {A} (P : A -> Prop) (l : list A) i x : Forall P l -> P x -> Forall P (set_nth l i x).
Proof.
  intros H; revert i; induction H; intros [|i] Px; simpl; auto.
Qed.

Lemma good_job_step j : good_job j -> good_job (job_step j).
Proof.
  unfold good_job, job_step. intros [[P D]|E].
  - rewrite P. simpl. auto.
  - destruct (j_pc j) as [|[|k]]; simpl; auto.
Qed.

Lemma run_events_inv evs : forall js,
  Forall good_job js ->
  Forall good_job (run_events evs js) /\
  map j_status (run_events evs js) = map j_status js ++ spawned evs.
Proof.
  induction evs as [|e evs IH]; intros js G; simpl.
  - rewrite app_nil_r; auto.
  - destruct e as [s|i]; simpl.
    + destruct (IH (js ++ [mkJob 0 false 0 s])) as [G' M'].
      { apply Forall_app; split; auto. constructor; auto. left; auto. }
      split; auto. rewrite M', map_app, <- app_assoc. reflexivity.
    + destruct (nth_error js i) as [j|] eqn:E; [|apply IH; auto].
      destruct (IH (set_nth js i (job_step j))) as [G' M'].
      { apply Forall_set_nth; auto. apply good_job_step.
        eapply Forall_forall; eauto. eapply nth_error_In; eauto. }
      split; auto. rewrite M'. f_equal. apply map_set_nth; try congruence.
      rewrite E. unfold job_step. destruct (j_pc j) as [|[|k]]; reflexivity.
Qed.

Lemma done_pc evs : forall js,
  Forall (fun j => j_done j = true -> 1 <= j_pc j) js ->
  Forall (fun j => j_done j = true -> 1 <= j_pc j) (run_events evs js).
Proof.
  induction evs as [|e evs IH]; intros js G; simpl; auto.
  destruct e as [s|i]; simpl.
  - apply IH. apply Forall_app; split; auto. constructor; auto. simpl; discriminate.
  - destruct (nth_error js i) as [j|] eqn:E; [|apply IH; auto].
    apply IH. apply Forall_set_nth; auto.
    assert (Hj : j_done j = true -> 1 <= j_pc j).
    { eapply (proj1 (Forall_forall _ _) G). eapply nth_error_In; eauto. }
    unfold job_step. destruct (j_pc j) as [|[|k]] eqn:P; simpl; auto. intros D. apply Hj in D. lia.
Qed.

Theorem wait_status evs n st :
  wait_result (run_events evs []) (S n) = Some (Ok st) -> nth_error (spawned evs) n = Some st.
Proof.
  simpl. destruct (run_events_inv evs [] (Forall_nil _)) as [G M]. simpl in M.
  pose proof (done_pc evs [] (Forall_nil _)) as D.
  destruct (nth_error (run_events evs []) n) as [j|] eqn:E; [|discriminate].
  destruct (j_done j) eqn:Dj; [|discriminate]. intros [= <-].
  rewrite <- M. rewrite nth_error_map, E. simpl. f_equal.
  assert (Gj : good_job j) by (eapply (proj1 (Forall_forall _ _) G); eapply nth_error_In; eauto).
  destruct Gj as [[P Dn]|X]; auto. congruence.
Qed.

Theorem wait_not_child evs n :
  length (spawned evs) <= n -> wait_result (run_events evs []) (S n) = Some (Err 1%N).
Proof.
  simpl. destruct (run_events_inv evs [] (Forall_nil _)) as [G M]. simpl in M.
  intros L. assert (nth_error (run_events evs []) n = None) as ->; auto.
  apply nth_error_None. rewrite <- (map_length j_status), M. auto.
Qed.

(* once job n has taken its two steps, wait returns *)
Theorem wait_returns evs n :
  (exists j, nth_error (run_events evs []) n = Some j /\ j_pc j = 2) ->
  exists st, wait_result (run_events evs []) (S n) = Some (Ok st).
Proof.
  intros (j & E & P). simpl. rewrite E.
  assert (Forall (fun j => j_pc j = 2 -> j_done j = true) (run_events evs [])) as F.
  { clear. generalize (@nil job) (Forall_nil (fun j => j_pc j = 2 -> j_done j = true)).
    induction evs as [|e evs IH]; intros js G; simpl; auto.
    destruct e as [s|i]; simpl.
    - apply IH. apply Forall_app; split; auto. constructor; auto. simpl; discriminate.
    - destruct (nth_error js i) as [j|] eqn:E; [|apply IH; auto].
      apply IH. apply Forall_set_nth; auto.
      assert (Hj : j_pc j = 2 -> j_done j = true).
      { eapply (proj1 (Forall_forall _ _) G). eapply nth_error_In; eauto. }
      unfold job_step. destruct (j_pc j) as [|[|k]] eqn:P; simpl; auto; try discriminate.
      intros; apply Hj; congruence. }
  rewrite (proj1 (Forall_forall _ _) F j (nth_error_In _ _ E) P). eauto.
Qed.

(* ======================================================================================= *)
(* C32: what the copy observes does not depend on what the parent does after the fork        *)
Section Visibility.
Variable grow : nat -> nat -> nat.

Lemma stable_under t evs : forall cf, cinv cf -> Forall (fun ev => ev_tid ev = t) evs ->
  (forall l, l < length (cf_ta cf) -> nth l (cf_ta cf) TShared <> t ->
     nth_error (ha (cf_h (run_sched grow evs cf))) l = nth_error (ha (cf_h cf)) l) /\
  (forall l, l < length (cf_to cf) -> nth l (cf_to cf) TShared <> t ->
     nth_error (ho (cf_h (run_sched grow evs cf))) l = nth_error (ho (cf_h cf)) l).
Proof.
  induction evs as [|ev evs IH]; intros cf Hc HF; simpl; auto.
  inversion HF as [|? ? Hev HF']; subst.
  destruct (sched_step_inv grow cf ev Hc) as [[WA WO] C]. destruct (IH _ C HF') as [A O].
  assert (TA : forall l, l < length (cf_ta cf) ->
                 l < length (cf_ta (sched_step grow cf ev)) /\
                 nth l (cf_ta (sched_step grow cf ev)) TShared = nth l (cf_ta cf) TShared).
  { intros l L. destruct ev as [[|] o]; unfold sched_step; simpl;
      (split; [unfold retag; rewrite app_length; lia | apply retag_old; auto]). }
  assert (TO : forall l, l < length (cf_to cf) ->
                 l < length (cf_to (sched_step grow cf ev)) /\
                 nth l (cf_to (sched_step grow cf ev)) TShared = nth l (cf_to cf) TShared).
  { intros l L. destruct ev as [[|] o]; unfold sched_step; simpl;
      (split; [unfold retag; rewrite app_length; lia | apply retag_old; auto]). }
  split; intros l L T.
  - destruct (TA l L) as [L' T']. rewrite A by (auto; congruence). apply WA; auto.
  - destruct (TO l L) as [L' T']. rewrite O by (auto; congruence). apply WO; auto.
Qed.

(* the cells the parent never writes: everything not tagged TParent *)
Definition not_parent (tags : list tid) (l : loc) : Prop :=
  l < length tags /\ nth l tags TShared <> TParent.

Theorem copy_unaffected_by_parent r h ta to ops :
  length ta = length (ha h) -> length to = length (ho h) ->
  tinv TParent ta to r h -> (forall l, nth l to TShared <> TChild) ->
  closedP (not_parent (cf_ta (fork_conf grow r h ta to))) (not_parent (cf_to (fork_conf grow r h ta to)))
          (cf_h (fork_conf grow r h ta to)) ->
  okR (not_parent (cf_ta (fork_conf grow r h ta to))) (not_parent (cf_to (fork_conf grow r h ta to)))
      (cf_c (fork_conf grow r h ta to)) ->
  observe (cf_c (fork_conf grow r h ta to))
          (cf_h (run_sched grow (map (fun o => (true, o)) ops) (fork_conf grow r h ta to))) =
  observe (cf_c (fork_conf grow r h ta to)) (cf_h (fork_conf grow r h ta to)).
Proof.
  intros La Lo TP NC CL OK.
  destruct (fork_inv grow r h ta to La Lo TP NC) as [C _].
  destruct (stable_under TParent (map (fun o => (true, o)) ops) _ C) as [SA SO].
  { apply Forall_forall. intros ev Hin. apply in_map_iff in Hin. destruct Hin as (o & <- & _). reflexivity. }
  eapply observe_agreeP; eauto.
  split; intros l [L T]; auto.
Qed.

End Visibility.

(* ---- a boolean checker for the closure hypotheses of copy_unaffected_by_parent ---------- *)
Definition npb (tags : list tid) (l : loc) : bool :=
  Nat.ltb l (length tags) && negb (tid_eqb (nth l tags TShared) TParent).
Definition okSb (ta : list tid) (s : slice) : bool :=
  match s with SNil => true | Sl l _ _ _ => npb ta l end.
Definition okOb (to : list tid) (o : option loc) : bool :=
  match o with Some l => npb to l | None => true end.
Definition okVb (ta to : list tid) (v : variable) : bool :=
  okSb ta (v_list v) && okSb ta (v_idx v) && okOb to (v_map v).
Definition okCellb (ta to : list tid) (c : ocell) : bool :=
  match c with
  | CEnv p _ vals => okOb to p && forallb (fun nv => okVb ta to (snd nv)) vals
  | CBase vals => forallb (fun nv => okVb ta to (snd nv)) vals
  | _ => true
  end.
Fixpoint closed_from (ta to : list tid) (k : nat) (cells : list ocell) : bool :=
  match cells with
  | [] => true
  | c :: rest => (negb (npb to k) || okCellb ta to c) && closed_from ta to (S k) rest
  end.
Definition closedPb (ta to : list tid) (h : heaps) : bool := closed_from ta to 0 (ho h).
Definition okRb (ta to : list tid) (r : runner) : bool :=
  npb to (r_env r) && okOb to (r_funcs r) && okOb to (r_alias r) && okSb ta (r_dirstack r) && okSb ta (r_params r).

Lemma npb_spec tags l : npb tags l = true <-> not_parent tags l.
Proof.
  unfold npb, not_parent. rewrite andb_true_iff, Nat.ltb_lt, negb_true_iff. split; intros [A B]; split; auto.
  - intro E. rewrite E in B. discriminate.
  - destruct (nth l tags TShared); simpl; auto. congruence.
Qed.
Lemma okSb_spec ta s : okSb ta s = true -> okS (not_parent ta) s.
Proof. destruct s; simpl; auto. apply npb_spec. Qed.
Lemma okOb_spec to o : okOb to o = true -> okO (not_parent to) o.
Proof. destruct o; simpl; auto. apply npb_spec. Qed.
Lemma okVb_spec ta to v : okVb ta to v = true -> okV (not_parent ta) (not_parent to) v.
Proof.
  unfold okVb, okV. rewrite !andb_true_iff. intros [[A B] C].
  auto using okSb_spec, okOb_spec.
Qed.
Lemma okValsb_spec ta to vals :
  forallb (fun nv => okVb ta to (snd nv)) vals = true -> okVals (not_parent ta) (not_parent to) vals.
Proof.
  intros H. apply Forall_forall. intros x Hx. apply okVb_spec.
  eapply (proj1 (forallb_forall _ _) H); eauto.
Qed.
Lemma okCellb_spec ta to c : okCellb ta to c = true -> okCell (not_parent ta) (not_parent to) c.
Proof.
  destruct c; simpl; auto using okValsb_spec.
  rewrite andb_true_iff. intros [A B]. split; [|apply okValsb_spec; auto].
  destruct parent; auto. apply npb_spec. exact A.
Qed.
Lemma closed_from_spec ta to cells : forall k l c,
  closed_from ta to k cells = true -> nth_error cells l = Some c -> npb to (k + l) = true ->
  okCellb ta to c = true.
Proof.
  induction cells as [|c0 rest IH]; intros k l c H E N; [destruct l; discriminate|].
  simpl in H. apply andb_true_iff in H. destruct H as [H1 H2].
  destruct l as [|l]; simpl in E.
  - injection E as <-. rewrite Nat.add_0_r in N. rewrite N in H1. simpl in H1. exact H1.
  - eapply (IH (S k) l c); eauto. rewrite <- N. f_equal. lia.
Qed.
Lemma closedPb_spec ta to h :
  closedPb ta to h = true -> closedP (not_parent ta) (not_parent to) h.
Proof.
  intros H l c Pl E. apply okCellb_spec.
  eapply (closed_from_spec ta to (ho h) 0 l c); eauto. simpl. apply npb_spec; auto.
Qed.
Lemma okRb_spec ta to r : okRb ta to r = true -> okR (not_parent ta) (not_parent to) r.
Proof.
  unfold okRb, okR. rewrite !andb_true_iff. intros [[[[A B] C] D] E].
  split; [apply npb_spec; exact A|]. split; [apply okOb_spec; exact B|]. split; [apply okOb_spec; exact C|].
  split; [apply okSb_spec; exact D | apply okSb_spec; exact E].
Qed.

(* ======================================================================================= *)
(* concrete witnesses                                                                         *)
Open Scope N_scope.
Definition ex_grow (old need : nat) : nat := need.
Definition ex_base : state :=
  mkSt (mkR 1%nat None None [] [] SNil SNil false []) (mkH [] [CBase []; CEnv (Some 0%nat) false []]) false.
(* parent: a=(x y); m=(["k"]=v); f() { ..1.. } *)
Definition ex_parent_ops : list op :=
  [ OAssign [97] None false (RArr [(None, [120]); (None, [121])]);
    OAssign [109] None false (RAssocLit [([107], [118])]);
    OFuncDef [102] 1 ].
Definition ex_parent : state := run_ops ex_grow ex_parent_ops ex_base.
(* child: a+=z; a[1]=w; m[k]=u; unset -f f; cd /t *)
Definition ex_child_ops : list op :=
  [ OAssign [97] None true (RStr [122]);
    OAssign [97] (Some (1%Z, [49])) false (RStr [119]);
    OAssign [109] (Some (0%Z, [107])) false (RStr [117]);
    OUnsetF [102];
    OCd [47; 116] ].
Close Scope N_scope.

Lemma ex_parent_wf : wf_heap (st_h ex_parent) /\ wf_runner (st_r ex_parent) (st_h ex_parent).
Proof.
  split.
  - intros l c E. vm_compute in E.
    do 4 (destruct l as [|l]; [injection E as <-; vm_compute; repeat (split || constructor); auto; lia|]).
    destruct l; discriminate.
  - vm_compute. repeat split; auto; lia.
Qed.

(* the child really changes what it sees itself (the theorem is not about no-ops) *)
Definition ex_child (bg : bool) : state :=
  run_ops ex_grow ex_child_ops (subshell_state ex_grow bg (st_r ex_parent) (st_h ex_parent)).
Lemma ex_child_sees_change bg :
  observe_var (st_r (ex_child bg)) (st_h (ex_child bg)) [97%N] <>
  observe_var (st_r ex_parent) (st_h ex_parent) [97%N].
Proof. unfold not; intro E. destruct bg; vm_compute in E; discriminate E. Qed.

(* the last stage of a pipeline runs in the parent Runner itself *)
Lemma pipeline_last_stage_changes_parent :
  exists r h right_,
    wf_heap h /\ wf_runner r h /\
    observe (st_r (pipeline ex_grow [] right_ r h)) (st_h (pipeline ex_grow [] right_ r h)) <> observe r h.
Proof.
  exists (st_r ex_parent), (st_h ex_parent), [OAssign [97%N] None false (RStr [53%N])].
  destruct ex_parent_wf as [A B]. split; [exact A | split; [exact B |]].
  unfold not; intro E. vm_compute in E. discriminate E.
Qed.

(* the code before fix d35f0af: assignVal's `prev.List[0] += s` without cloning *)
Definition old_append_scalar (r : runner) (name s : str) : M unit :=
  prev <- lookup_var r name ;;
  old <- m_index (v_list prev) 0 ;;
  _ <- m_store (v_list prev) 0 (VS (val_str old ++ s)) ;;
  set_var r name (with_set true prev).
Definition old_child_heap (bg : bool) (r : runner) (h : heaps) : heaps :=
  snd (old_append_scalar (st_r (subshell_state ex_grow bg r h)) [97%N] [122%N]
                         (st_h (subshell_state ex_grow bg r h))).

Lemma old_append_scalar_changes_parent bg :
  exists r h, wf_heap h /\ wf_runner r h /\ observe r (old_child_heap bg r h) <> observe r h.
Proof.
  exists (st_r ex_parent), (st_h ex_parent).
  destruct ex_parent_wf as [A B]. split; [exact A | split; [exact B |]].
  unfold not; intro E. destruct bg; vm_compute in E; discriminate E.
Qed.

(* a concrete instance of every hypothesis of copy_unaffected_by_parent *)
Definition ex_ta : list tid := [TShared; TShared].
Definition ex_to : list tid := [TParent; TParent; TShared; TParent].
Definition ex_cf : conf := fork_conf ex_grow (st_r ex_parent) (st_h ex_parent) ex_ta ex_to.

Lemma ex_fork_hyps :
  length ex_ta = length (ha (st_h ex_parent)) /\ length ex_to = length (ho (st_h ex_parent)) /\
  tinv TParent ex_ta ex_to (st_r ex_parent) (st_h ex_parent) /\
  (forall l, nth l ex_to TShared <> TChild) /\
  closedP (not_parent (cf_ta ex_cf)) (not_parent (cf_to ex_cf)) (cf_h ex_cf) /\
  okR (not_parent (cf_ta ex_cf)) (not_parent (cf_to ex_cf)) (cf_c ex_cf).
Proof.
  split; [reflexivity|]. split; [reflexivity|]. split; [|split; [|split]].
  - split.
    + vm_compute. repeat split; auto; try lia.
    + intros l p vals [L T] E. vm_compute in E.
      do 4 (destruct l as [|l]; [discriminate E|]). destruct l; discriminate E.
  - intros l. do 5 (destruct l as [|l]; [simpl; discriminate|]). simpl. destruct l; discriminate.
  - apply closedPb_spec. vm_compute. reflexivity.
  - apply okRb_spec. vm_compute. reflexivity.
Qed.

(* the child's view in that instance is not trivial, and the parent's later operations do change the parent *)
Lemma ex_copy_unaffected ops :
  observe (cf_c ex_cf) (cf_h (run_sched ex_grow (map (fun o => (true, o)) ops) ex_cf)) =
  observe (cf_c ex_cf) (cf_h ex_cf).
Proof.
  destruct ex_fork_hyps as (A & B & C & D & E & F).
  apply (copy_unaffected_by_parent ex_grow _ _ _ _ ops A B C D E F).
Qed.
