(* Proofs/LineColProofs.v — C09_linecol: every position the Spec reader hands out is
   pos_of_offset of its offset (and so, by C07_rune_stream, every position of the buffered reader). *)
From Coq Require Import List NArith ZArith Bool Lia ZifyN ZifyNat ZifyBool.
From Verif Require Import Base.Str Base.Utf8 Syntax.Pos Syntax.Reader Proofs.ReaderProofs Proofs.Utf8ReaderProofs Proofs.ReaderRuneProofs.
Import ListNotations.
Open Scope N_scope.
Arguments N.add : simpl never. Arguments N.mul : simpl never. Arguments N.sub : simpl never.
Arguments Z.add : simpl never. Arguments Z.sub : simpl never.

Definition nl (r : N) : bool := (r =? 10) || (r =? escNewl).
Definition lc (input : str) (n : nat) : Z * Z := linecol input n 1%Z 1%Z.

Lemma linecol_nil : forall k l c, linecol [] k l c = (l, c).
Proof. destruct k; reflexivity. Qed.

Lemma linecol_0 : forall input l c, linecol input 0 l c = (l, c).
Proof. destruct input; reflexivity. Qed.

Lemma linecol_skip : forall n input k l c,
  linecol input (n + k) l c = let '(l', c') := linecol input n l c in linecol (skipn n input) k l' c'.
Proof.
  induction n; intros input k l c.
  - destruct input; reflexivity.
  - destruct input as [|b t].
    + destruct k; reflexivity.
    + cbn [Nat.add linecol skipn]. destruct (b =? 10); apply IHn.
Qed.

Lemma skipn_S_cons : forall n (input : str) b t, skipn n input = b :: t -> skipn (S n) input = t.
Proof.
  intros n input b t H. replace (S n) with (n + 1)%nat by lia. rewrite skipn_add, H. reflexivity.
Qed.

Lemma lc_step : forall input n b t l c, skipn n input = b :: t -> lc input n = (l, c) ->
  lc input (S n) = (if b =? 10 then ((l + 1)%Z, 1%Z) else (l, (c + 1)%Z)).
Proof.
  intros input n b t l c H Hl. unfold lc in *. replace (S n) with (n + 1)%nat by lia.
  rewrite linecol_skip, Hl, H. cbn [linecol]. destruct (b =? 10); apply linecol_0.
Qed.

Lemma lc_run : forall p input n q l c, skipn n input = p ++ q -> Forall (fun x => x <> 10) p ->
  lc input n = (l, c) -> lc input (n + length p) = (l, (c + Z.of_nat (length p))%Z).
Proof.
  induction p as [|x p IH]; intros input n q l c H Hf Hl.
  - cbn [length]. rewrite Nat.add_0_r, Hl. f_equal. lia.
  - inversion Hf; subst. cbn [app] in H.
    pose proof (lc_step input n x (p ++ q) l c H Hl) as S1.
    replace (x =? 10) with false in S1 by lia.
    pose proof (skipn_S_cons _ _ _ _ H) as S2.
    specialize (IH input (S n) q l (c + 1)%Z S2 H3 S1).
    cbn [length]. replace (n + S (length p))%nat with (S n + length p)%nat by lia. rewrite IH. f_equal. lia.
Qed.

Lemma skipn_len_bound : forall (input : str) n b t, skipn n input = b :: t -> (S n <= length input)%nat.
Proof.
  intros input n b t H. apply (f_equal (@length _)) in H. rewrite skipn_length in H. cbn in H. lia.
Qed.

(* ---- positions ----------------------------------------------------------------- *)
Definition good_pos (input : str) (m : nat) (l c : Z) : Prop := (m <= length input)%nat /\ lc input m = (l, c).

Definition Good (input : str) (a : ast) : Prop :=
  match a_err a with
  | Some (o, l, c) => exists m, o = Z.of_nat m /\ good_pos input m l c
  | None =>
      if a_r a =? runeEOF
      then exists m, (a_off a - a_w a)%Z = Z.of_nat m /\ good_pos input m (a_line a) (a_col a)
      else exists m w, a_w a = Z.of_nat w /\ a_off a = Z.of_nat (m + w) /\ a_rem a = skipn (m + w) input /\
             (m + w <= length input)%nat /\ good_pos input m (a_line a) (a_col a) /\
             lc input (m + w) = (if nl (a_r a) then ((a_line a + 1)%Z, 1%Z) else (a_line a, (a_col a + Z.of_nat w)%Z))
  end.

Lemma good_obs : forall input a, Good input a -> obs_ok input (aobserve a) = true.
Proof.
  intros input a H. unfold Good in H. unfold aobserve, obs_ok.
  assert (P : forall m l c, good_pos input m l c -> pos_agrees input (Z.of_nat m, l, c) = true).
  { intros m l c [H1 H2]. unfold pos_agrees, pos_of_offset. rewrite Nat2Z.id. fold (lc input m). rewrite H2.
    rewrite !andb_true_iff. repeat split; lia. }
  destruct (a_err a) as [[[o l] c]|].
  - destruct H as (m & -> & G). apply P; exact G.
  - destruct (a_r a =? runeEOF).
    + destruct H as (m & E & G). rewrite E. apply P; exact G.
    + destruct H as (m & w & E1 & E2 & _ & _ & G & _). rewrite E1, E2.
      replace (Z.of_nat (m + w) - Z.of_nat w)%Z with (Z.of_nat m) by lia. apply P; exact G.
Qed.

Lemma decode_high : forall b t rr wd, 128 <= b -> decode_rune (b :: t) = (rr, wd) ->
  128 <= rr <= 1114111 /\ Forall (fun x => x <> 10) (firstn wd (b :: t)).
Proof.
  intros b t rr wd Hb H. unfold decode_rune in H.
  destruct t as [|s1 [|s2 [|s3 t']]]; brk; inversion H; subst; clear H;
    unfold RuneError, is_cont in *; unfold in_range in *;
    (split; [lia | cbn [firstn]; repeat constructor; lia]).
Qed.

Section WithInput.
Variable input : str.
Variables obq obqd : nat.

Lemma Zn1 : forall n, (Z.of_nat n + 1)%Z = Z.of_nat (S n). Proof. intros; lia. Qed.

Lemma aloop_good : forall rem n col bq A, a_err A = None -> rem = skipn n input -> (n <= length input)%nat ->
  lc input n = (a_line A, col) ->
  Good input (aloop obq obqd bq rem (Z.of_nat n) col A).
Proof.
  induction rem as [|b t IH]; intros n col bq A He Hr Hn Hl.
  - (* EOF *)
    cbn [aloop]. unfold Good, aret. cbn [a_err a_r a_off a_w a_line a_col]. rewrite He.
    replace (runeEOF =? runeEOF) with true by reflexivity.
    exists n. split; [lia|]. split; assumption.
  - symmetry in Hr.
    pose proof (skipn_S_cons _ _ _ _ Hr) as Ht. pose proof (skipn_len_bound _ _ _ _ Hr) as Hb.
    pose proof (lc_step input n b t _ _ Hr Hl) as S1.
    cbn [aloop]. destruct (b <? 128) eqn:E128.
    + assert (REC : forall bq', b <> 10 -> Good input (aloop obq obqd bq' t (Z.of_nat n + 1) (col + 1) A)).
      { intros bq' Hne. rewrite Zn1. apply IH; auto. replace (b =? 10) with false in S1 by lia. exact S1. }
      assert (PLAIN : forall w rm rr, rr <> runeEOF -> rm = skipn (n + w) input -> (n + w <= length input)%nat ->
                lc input (n + w) = (if nl rr then ((a_line A + 1)%Z, 1%Z) else (a_line A, (col + Z.of_nat w)%Z)) ->
                Good input (aret A rm (Z.of_nat (n + w)) col rr (Z.of_nat w))).
      { intros w rm rr Hne Hrm Hle Hs. unfold Good, aret. cbn [a_err a_r a_off a_w a_line a_col a_rem]. rewrite He.
        replace (rr =? runeEOF) with false by lia.
        exists n, w. repeat split; auto. }
      destruct (b =? 0) eqn:E0; [apply REC; lia|].
      destruct ((b =? 13) && (ahd t =? 10)) eqn:Ecr; [apply REC; lia|].
      destruct ((b =? 92) && negb (a_r A =? 92) && (ahd t =? 10)) eqn:Een.
      { (* backslash newline *)
        destruct t as [|x t']; [cbn in Een; rewrite andb_false_r in Een; discriminate|].
        assert (x = 10) by (cbn [ahd] in Een; lia). subst x. cbn [tl].
        pose proof (skipn_S_cons _ _ _ _ Ht) as Ht2. pose proof (skipn_len_bound _ _ _ _ Ht) as Hb2.
        replace (b =? 10) with false in S1 by lia.
        pose proof (lc_step input (S n) 10 t' _ _ Ht S1) as S2. cbn in S2.
        replace (Z.of_nat n + 2)%Z with (Z.of_nat (n + 2)) by lia. change 2%Z with (Z.of_nat 2).
        apply PLAIN; try (unfold runeEOF, escNewl; lia).
        - replace (n + 2)%nat with (S (S n)) by lia. symmetry. exact Ht2.
        - replace (n + 2)%nat with (S (S n)) by lia. rewrite S2. reflexivity. }
      destruct ((b =? 92) && negb (a_r A =? 92) && (ahd t =? 13) && (ahd (tl t) =? 10)) eqn:Ecl.
      { (* backslash CR LF *)
        destruct t as [|x [|y t']]; try (cbn in Ecl; rewrite ?andb_false_r in Ecl; discriminate).
        assert (x = 13 /\ y = 10) by (cbn [ahd tl] in Ecl; lia). destruct H; subst x y. cbn [tl].
        pose proof (skipn_S_cons _ _ _ _ Ht) as Ht2. pose proof (skipn_S_cons _ _ _ _ Ht2) as Ht3.
        pose proof (skipn_len_bound _ _ _ _ Ht2) as Hb3.
        replace (b =? 10) with false in S1 by lia.
        pose proof (lc_step input (S n) 13 _ _ _ Ht S1) as S2. cbn in S2.
        pose proof (lc_step input (S (S n)) 10 _ _ _ Ht2 S2) as S3. cbn in S3.
        replace (Z.of_nat n + 3)%Z with (Z.of_nat (n + 3)) by lia. change 3%Z with (Z.of_nat 3).
        apply PLAIN; try (unfold runeEOF, escNewl; lia).
        - replace (n + 3)%nat with (S (S (S n))) by lia. symmetry. exact Ht3.
        - replace (n + 3)%nat with (S (S (S n))) by lia. rewrite S3. reflexivity. }
      match goal with |- context[if ?c then _ else _] => destruct c eqn:Ebq end; [apply REC; lia|].
      (* a plain byte *)
      replace (Z.of_nat n + 1)%Z with (Z.of_nat (n + 1)) by lia.
      change (aret A t (Z.of_nat (n + 1)) col b 1%Z) with (aret A t (Z.of_nat (n + 1)) col b (Z.of_nat 1)).
      apply PLAIN; try (unfold runeEOF; lia).
      * replace (n + 1)%nat with (S n) by lia. symmetry. exact Ht.
      * replace (n + 1)%nat with (S n) by lia. rewrite S1. unfold nl.
        replace (b =? escNewl) with false by (unfold escNewl; lia). rewrite orb_false_r.
        destruct (b =? 10); f_equal; lia.
    + (* non-ASCII *)
      destruct (decode_rune (b :: t)) as [rr wd] eqn:Ed.
      destruct (decode_high b t rr wd ltac:(lia) Ed) as [Hrr Hfa].
      pose proof (decode_width (b :: t) ltac:(discriminate)) as Hw. rewrite Ed in Hw. cbn [snd] in Hw.
      rewrite He.
      destruct ((rr =? RuneError) && Nat.eqb wd 1) eqn:Ee.
      * unfold Good. cbn [a_err]. exists n. split; [reflexivity|]. split; assumption.
      * assert (Hsplit : skipn n input = firstn wd (b :: t) ++ skipn wd (b :: t)) by (rewrite firstn_skipn; exact Hr).
        assert (Hlen : length (firstn wd (b :: t)) = wd) by (rewrite firstn_length; lia).
        pose proof (lc_run _ input n _ _ _ Hsplit Hfa Hl) as S2. rewrite Hlen in S2.
        unfold Good, aret. cbn [a_err a_r a_off a_w a_line a_col a_rem]. rewrite He.
        replace (rr =? runeEOF) with false by (unfold runeEOF; lia).
        exists n, wd. split; [reflexivity|]. split; [lia|]. split.
        { rewrite skipn_add, Hr. reflexivity. }
        split. { apply (f_equal (@length _)) in Hr. rewrite skipn_length in Hr. lia. }
        split; [split; assumption|].
        rewrite S2. unfold nl. replace (rr =? 10) with false by lia.
        replace (rr =? escNewl) with false by (unfold escNewl; lia). reflexivity.
Qed.

Lemma ainit_good : Good input (ainit input).
Proof.
  unfold Good, ainit. cbn [a_err a_r a_off a_w a_line a_col a_rem].
  replace (0 =? runeEOF) with false by reflexivity.
  exists 0%nat, 0%nat. repeat split; try reflexivity; try lia; unfold lc; apply linecol_0.
Qed.

Lemma arune_good : forall a, Good input a -> a_err a = None -> Good input (arune obq obqd a).
Proof.
  intros a G He. unfold arune. destruct (a_r a =? runeEOF) eqn:Er; [exact G|].
  unfold Good in G. rewrite He, Er in G. destruct G as (m & w & E1 & E2 & E3 & E4 & [G1 G2] & G3).
  rewrite E2, E3.
  destruct ((a_r a =? 10) || (a_r a =? escNewl)) eqn:Enl; unfold nl in G3; rewrite Enl in G3.
  - apply aloop_good; auto.
  - rewrite E1. apply aloop_good; auto.
Qed.

Lemma arune_stream_good : forall fuel a, Good input a -> a_err a = None ->
  Forall (fun o => obs_ok input o = true) (arune_stream fuel obq obqd a).
Proof.
  induction fuel as [|f IH]; intros a G He; [constructor|].
  cbn [arune_stream].
  pose proof (arune_good a G He) as G'.
  destruct (a_r (arune obq obqd a) =? runeEOF) eqn:E.
  - constructor; [apply good_obs; exact G' | constructor].
  - constructor; [apply good_obs; exact G'|]. apply IH; [exact G'|].
    destruct (arune_err obq obqd a He) as [N | N]; [exact N|]. rewrite N in E. discriminate.
Qed.

(* C09_linecol on the Spec reader *)
Theorem atrace_linecol : Forall (fun o => obs_ok input o = true) (atrace obq obqd input).
Proof. unfold atrace. apply arune_stream_good; [apply ainit_good | reflexivity]. Qed.

End WithInput.

(* ... and on the buffered reader under any schedule, through C07_rune_stream *)
Theorem trace_linecol : forall bufsz obq obqd input sched eager, (4 <= bufsz)%nat ->
  Forall (fun o => obs_ok input o = true) (trace bufsz obq obqd input sched eager).
Proof. intros. rewrite rune_stream_all by assumption. apply atrace_linecol. Qed.
