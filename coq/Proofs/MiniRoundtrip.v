(* Proofs/MiniRoundtrip.v — level S, SingleLine: parse_file (print_file t) = Some t for every
   well-formed tree (no size bound), and the corollaries used by Props/C01.v and C02.v. *)
From Verif Require Import Base.Str Syntax.Word Syntax.MiniAst Syntax.MiniPrinter Syntax.MiniParser
  Proofs.WordProofs Proofs.MiniRender Proofs.MiniLex Proofs.MiniParse.
Require Import ZifyN ZifyBool ZifyNat.
Open Scope N_scope.

(* ------------------------------------------------------------------ fuel *)
Lemma r_words_len : forall ws, Forall wf_sword ws -> (length ws <= length (r_words ws))%nat.
Proof.
  induction ws as [|w rest IH]; intros H; [simpl; lia|]. inversion H; subst.
  destruct (sword_first w) as (c & t & E & _); [assumption|].
  cbn [r_words length]. rewrite app_length, E. specialize (IH ltac:(assumption)).
  destruct rest; [simpl in *; lia|]. rewrite app_length. simpl length in *. lia.
Qed.

Ltac ifs := repeat match goal with |- context [if ?b then _ else _] => destruct b end.

Ltac len := cbn [length s_sp s_semi s_lbrace s_rbrace s_lparen s_rparen s_bang s_amp s_nl kw_if kw_then kw_elif
  kw_else kw_fi kw_while kw_until kw_do kw_done].

Lemma size_bound :
  (forall c, wf_cmd c -> (sz_cmd c + 4 <= 8 * length (r_cmd c))%nat) /\
  (forall s, wf_stmt s -> (sz_stmt s + 1 <= 8 * length (r_stmt s))%nat) /\
  (forall ss, wf_stmts ss -> (sz_list ss <= 8 * length (r_stmts ss) + 1)%nat) /\
  (forall e, wf_else e -> (sz_else e <= 8 * length (r_else e))%nat).
Proof.
  apply mini_mutind.
  - intros args (Hf & Hw). cbn [sz_cmd r_cmd]. pose proof (r_words_len args Hf).
    destruct args; [contradiction|]. cbn [length] in *. lia.
  - intros ss IH (_ & W). specialize (IH W). cbn [sz_cmd r_cmd]. rewrite !app_length. len. lia.
  - intros ss IH (_ & W). specialize (IH W). cbn [sz_cmd r_cmd]. rewrite !app_length. len. lia.
  - intros c IHc t IHt e IHe (_ & _ & Wc & Wt & We). specialize (IHc Wc). specialize (IHt Wt). specialize (IHe We).
    cbn [sz_cmd r_cmd]. rewrite !app_length. len. lia.
  - intros u c IHc b IHb (_ & _ & Wc & Wb). specialize (IHc Wc). specialize (IHb Wb).
    cbn [sz_cmd r_cmd]. rewrite !app_length. destruct u; len; lia.
  - intros op x IHx y IHy (Wx & Wy & _). specialize (IHx Wx). specialize (IHy Wy).
    cbn [sz_cmd r_cmd]. rewrite !app_length. len. lia.
  - intros n c IHc b (Wc & _). specialize (IHc Wc). cbn [sz_stmt r_stmt]. rewrite !app_length. lia.
  - intros _. simpl. lia.
  - intros s IHs rest IHr (Ws & Wr). specialize (IHs Ws). specialize (IHr Wr).
    cbn [sz_list r_stmts]. rewrite !app_length. destruct rest as [|s1 r].
    + cbn [sz_list length] in *. lia.
    + rewrite !app_length. len. lia.
  - intros _. simpl. lia.
  - intros c IHc t IHt e IHe (_ & _ & Wc & Wt & We). specialize (IHc Wc). specialize (IHt Wt). specialize (IHe We).
    cbn [sz_else r_else]. rewrite !app_length. len. lia.
  - intros t IHt (_ & Wt). specialize (IHt Wt). cbn [sz_else r_else]. rewrite !app_length. len. lia.
Qed.

(* ------------------------------------------------------------------ round trip on the rendering *)
Theorem parse_render : forall t, wf_file t -> parse_file (render_file t) = Some t.
Proof.
  intros t W. destruct t as [|x rest] eqn:Et; [reflexivity|]. rewrite <- Et in *.
  assert (Hne : t <> SNil) by (subst; discriminate).
  destruct lexing as (_ & _ & LX & _). destruct parsing as (_ & _ & PL & _).
  destruct size_bound as (_ & _ & SB & _).
  assert (Y : yields (r_stmts t ++ s_nl) (t_list false t) s_nl).
  { rewrite <- t_list_false. apply LX; auto. simpl. auto. }
  unfold parse_file, render_file. unfold claimL in PL.
  rewrite (PL t W (parse_fuel (r_stmts t ++ s_nl)) (@nil str) false false true (r_stmts t ++ s_nl) s_nl); auto.
  - exists TEOF, []. split; reflexivity.
  - intros _. exists TNewl, []. split; reflexivity.
  - specialize (SB t W). unfold parse_fuel. rewrite app_length. simpl length. lia.
Qed.

Theorem sl_roundtrip : forall t, wf_file t -> parse_file (sl_print_file t) = Some t.
Proof. intros t W. rewrite sl_print_file_render by assumption. apply parse_render. assumption. Qed.

(* ------------------------------------------------------------------ norm is the identity on wf trees *)
Lemma norm_words_id : forall ws, Forall wf_sword ws -> map (norm_word false) ws = ws.
Proof.
  induction 1 as [|w ws (_ & _ & _ & _ & Hn) _ IH]; [reflexivity|]. cbn [map]. rewrite Hn, IH. reflexivity.
Qed.

Lemma norm_id :
  (forall c, wf_cmd c -> norm_cmd c = c) /\ (forall s, wf_stmt s -> norm_stmt s = s) /\
  (forall ss, wf_stmts ss -> norm_stmts ss = ss) /\ (forall e, wf_else e -> norm_else e = e).
Proof.
  apply mini_mutind.
  - intros args (Hf & _). cbn [norm_cmd]. rewrite norm_words_id by assumption. reflexivity.
  - intros ss IH (_ & W). cbn [norm_cmd]. rewrite IH by assumption. reflexivity.
  - intros ss IH (_ & W). cbn [norm_cmd]. rewrite IH by assumption. reflexivity.
  - intros c IHc t IHt e IHe (_ & _ & Wc & Wt & We). cbn [norm_cmd]. rewrite IHc, IHt, IHe by assumption. reflexivity.
  - intros u c IHc b IHb (_ & _ & Wc & Wb). cbn [norm_cmd]. rewrite IHc, IHb by assumption. reflexivity.
  - intros op x IHx y IHy (Wx & Wy & _). cbn [norm_cmd]. rewrite IHx, IHy by assumption. reflexivity.
  - intros n c IHc b (Wc & _). cbn [norm_stmt]. rewrite IHc by assumption. reflexivity.
  - reflexivity.
  - intros s IHs r IHr (Ws & Wr). cbn [norm_stmts]. rewrite IHs, IHr by assumption. reflexivity.
  - reflexivity.
  - intros c IHc t IHt e IHe (_ & _ & Wc & Wt & We). cbn [norm_else]. rewrite IHc, IHt, IHe by assumption. reflexivity.
  - intros t IHt (_ & Wt). cbn [norm_else]. rewrite IHt by assumption. reflexivity.
Qed.

(* ------------------------------------------------------------------ the statements of Props *)
(* the modelled option sets: SingleLine with any Indent n / BinaryNextLine (these do not
   change a byte of the output on this fragment: see MiniPrinter.v and the code leg) *)
Definition print_file (o : opts) (t : file) : str := sl_print_file t.

Theorem stmt_roundtrip : forall o t, opts_single o -> wf_file t ->
  parse_file (print_file o t) = Some (norm_file t).
Proof.
  intros o t _ W. unfold print_file, norm_file.
  destruct norm_id as (_ & _ & N & _). rewrite (N t W). apply sl_roundtrip. assumption.
Qed.

Theorem stmt_idempotent : forall o t t', opts_single o -> wf_file t ->
  parse_file (print_file o t) = Some t' -> print_file o t' = print_file o t.
Proof.
  intros o t t' Ho W H. rewrite (stmt_roundtrip o t Ho W) in H. inversion H; subst.
  unfold norm_file. destruct norm_id as (_ & _ & N & _). rewrite (N t W). reflexivity.
Qed.

(* the printed text is a fixed point of parse-then-print *)
Theorem stmt_text_fixpoint : forall o t, opts_single o -> wf_file t ->
  option_map (print_file o) (parse_file (print_file o t)) = Some (print_file o t).
Proof.
  intros o t Ho W. rewrite (stmt_roundtrip o t Ho W). cbn [option_map]. f_equal.
  unfold norm_file. destruct norm_id as (_ & _ & N & _). rewrite (N t W). reflexivity.
Qed.

(* ------------------------------------------------------------------ non-vacuity *)
Definition wd (c : N) : word := [Lit [c]].
Definition call1 (c : N) : stmt := Stmt false (Call [wd c]) false.
Definition one (s : stmt) : stmts := SCons s SNil.

(* ( (a) ) *)
Definition ex_parens : stmt :=
  Stmt false (Subshell (one (Stmt false (Subshell (one (call1 97))) false))) false.
(* if a; then b; elif c; then d; else e; fi *)
Definition ex_if : stmt :=
  Stmt false (IfClause (one (call1 97)) (one (call1 98))
                (Elif (one (call1 99)) (one (call1 100)) (Else (one (call1 101))))) false.
(* a && b || c | d & *)
Definition ex_binary : stmt :=
  Stmt false
    (Binary OrStmt
       (Stmt false (Binary AndStmt (call1 97) (call1 98)) false)
       (Stmt false (Binary Pipe (call1 99) (call1 100)) false)) true.
(* ! { a; { b & }; } | while x; do ( (y) | z ); done *)
Definition ex_nested : stmt :=
  Stmt true
    (Binary Pipe
       (Stmt false (Block (SCons (call1 97) (one (Stmt false (Block (one (Stmt false (Call [wd 98]) true))) false)))) false)
       (Stmt false (WhileClause false (one (call1 120))
          (one (Stmt false (Subshell (one (Stmt false
             (Binary Pipe (Stmt false (Subshell (one (call1 121))) false) (call1 122)) false))) false))) false))
    false.
Definition ex_file : file := SCons ex_parens (SCons ex_if (SCons ex_binary (one ex_nested))).

Ltac wf_solve :=
  repeat match goal with
  | H : false = true |- _ => discriminate H
  | |- _ /\ _ => split
  | |- Forall _ _ => constructor
  | |- wf_sword _ => apply kw_sword; reflexivity
  | |- _ <> _ => discriminate
  | |- _ = _ => reflexivity
  | |- True => exact I
  | |- _ -> _ => intro
  end.

Example ex_file_wf : wf_file ex_file.
Proof.
  unfold ex_file, ex_parens, ex_if, ex_binary, ex_nested, call1, one, wd, wf_file.
  cbn [wf_stmts wf_stmt wf_cmd wf_else stmt_bg stmt_neg stmt_cmd is_andor is_binary]. wf_solve.
Qed.

(* ( (a) ); if a; then b; elif c; then d; else e; fi; a && b || c | d & ! { a; { b & }; } | while x; do ( (y) | z); done *)
Definition ex_text : str :=
  [40;32;40;97;41;32;41;59;32;
   105;102;32;97;59;32;116;104;101;110;32;98;59;32;101;108;105;102;32;99;59;32;116;104;101;110;32;100;59;32;
   101;108;115;101;32;101;59;32;102;105;59;32;
   97;32;38;38;32;98;32;124;124;32;99;32;124;32;100;32;38;32;
   33;32;123;32;97;59;32;123;32;98;32;38;32;125;59;32;125;32;124;32;
   119;104;105;108;101;32;120;59;32;100;111;32;40;32;40;121;41;32;124;32;122;41;59;32;100;111;110;101;10].

Example ex_file_prints : sl_print_file ex_file = ex_text.
Proof. vm_compute. reflexivity. Qed.

Example ex_file_parses : parse_file ex_text = Some ex_file.
Proof. vm_compute. reflexivity. Qed.

(* ------------------------------------------------------------------ default mode: example
   (the general round trip in default mode is NOT proved: see notes/C01S.md) *)
From Verif Require Import Syntax.MiniPos Syntax.MiniPrinterML Proofs.MiniRenderML.

Example ex_file_default_roundtrip :
  parse_file (ml_print_file 0 false ex_file) = Some ex_file /\
  parse_file (ml_print_file 4 true ex_file) = Some ex_file.
Proof. vm_compute. split; reflexivity. Qed.

(* the default layout of the example: 18 lines, bodies indented by their depth *)
Definition ex_default_text : str :=
  [40;10;9;40;10;9;9;97;10;9;41;10;41;10;
   105;102;32;97;59;32;116;104;101;110;10;9;98;10;101;108;105;102;32;99;59;32;116;104;101;110;10;9;100;10;
   101;108;115;101;10;9;101;10;102;105;10;
   97;32;38;38;32;98;32;124;124;32;99;32;124;32;100;32;38;10;
   33;32;123;10;9;97;10;9;123;10;9;9;98;32;38;10;9;125;10;125;32;124;32;
   119;104;105;108;101;32;120;59;32;100;111;10;9;40;10;9;9;40;10;9;9;9;121;10;9;9;41;32;124;32;122;10;9;41;10;100;111;110;101;10].

Example ex_file_default_prints : ml_print_file 0 false ex_file = ex_default_text.
Proof. vm_compute. reflexivity. Qed.
