From Verif Require Import Base.Str Shfmt.Patch.
Require Import ZifyNat ZifyBool.

Lemma cmp_str_eq_p : forall a b, cmp_str a b = Eq <-> a = b.
Proof.
  induction a as [|x a IH]; destruct b as [|y b]; simpl; split; intro H; try congruence; try discriminate.
  - destruct (N.compare x y) eqn:E; try discriminate.
    apply N.compare_eq_iff in E. apply IH in H. congruence.
  - inversion H; subst. rewrite N.compare_refl. apply IH. reflexivity.
Qed.

Lemma str_eqb_eq_p : forall a b, str_eqb a b = true <-> a = b.
Proof.
  intros a b. unfold str_eqb. rewrite <- cmp_str_eq_p. destruct (cmp_str a b); split; congruence.
Qed.

Lemma lines_eqb_eq : forall a b, lines_eqb a b = true <-> a = b.
Proof.
  induction a as [|x a IH]; destruct b as [|y b]; simpl; split; intro H; try congruence; try discriminate.
  - apply andb_true_iff in H. destruct H as [H1 H2]. apply str_eqb_eq_p in H1. apply IH in H2. congruence.
  - inversion H; subst. apply andb_true_iff. split; [apply str_eqb_eq_p; reflexivity | apply IH; reflexivity].
Qed.

Lemma firstn_app_exact : forall {A} (l1 l2 : list A), firstn (length l1) (l1 ++ l2) = l1.
Proof. intros. rewrite firstn_app, Nat.sub_diag, firstn_all. simpl. apply app_nil_r. Qed.

Lemma skipn_app_exact : forall {A} (l1 l2 : list A), skipn (length l1) (l1 ++ l2) = l2.
Proof. intros. rewrite skipn_app, Nat.sub_diag, skipn_all. reflexivity. Qed.

(* applying a well-formed unified diff of a that describes b yields b *)
Lemma apply_correct : forall hs pos a b, describes pos a hs b -> apply pos a hs = Some b.
Proof.
  induction hs as [|h hs IH]; simpl; intros pos a b H.
  - congruence.
  - destruct H as (pre & rest' & b' & Hs & Ha & Hd & Hb).
    assert (Hlt : Nat.ltb (h_start h) pos = false) by (apply Nat.ltb_ge; lia).
    rewrite Hlt.
    assert (Hgap : h_start h - pos = length pre) by lia. rewrite Hgap.
    assert (Hlen : Nat.ltb (length a) (length pre) = false).
    { apply Nat.ltb_ge. subst a. rewrite app_length. lia. }
    rewrite Hlen. subst a.
    rewrite firstn_app_exact, skipn_app_exact.
    rewrite firstn_app_exact, skipn_app_exact.
    assert (He : lines_eqb (old_side (h_body h)) (old_side (h_body h)) = true) by (apply lines_eqb_eq; reflexivity).
    rewrite He. rewrite (IH _ _ _ Hd). subst b. reflexivity.
Qed.

Lemma apply_patch_correct : forall a hs b, describes 0 a hs b -> apply_patch a hs = Some b.
Proof. intros. apply apply_correct. assumption. Qed.

(* the applier is strict: whatever it accepts is a diff of a describing its result *)
Lemma apply_sound : forall hs pos a b, apply pos a hs = Some b -> describes pos a hs b.
Proof.
  induction hs as [|h hs IH]; simpl; intros pos a b H.
  - congruence.
  - destruct (Nat.ltb (h_start h) pos) eqn:E1; try discriminate.
    destruct (Nat.ltb (length a) (h_start h - pos)) eqn:E2; try discriminate.
    destruct (lines_eqb _ _) eqn:E3; try discriminate.
    destruct (apply _ _ hs) as [r|] eqn:E4; try discriminate.
    inversion H; subst b; clear H.
    apply Nat.ltb_ge in E1. apply Nat.ltb_ge in E2. apply lines_eqb_eq in E3.
    exists (firstn (h_start h - pos) a), (skipn (length (old_side (h_body h))) (skipn (h_start h - pos) a)), r.
    repeat split.
    + rewrite firstn_length. lia.
    + rewrite E3 at 1. rewrite firstn_skipn. rewrite firstn_skipn. reflexivity.
    + apply IH. exact E4.
Qed.

(* non-vacuity: a two-hunk diff *)
Definition l_ (n : N) : str := [n; 10%N].
Example describes_example :
  describes 0 [l_ 1; l_ 2; l_ 3; l_ 4; l_ 5]
            [mkHunk 1 [(Ctx, l_ 2); (Del, l_ 3); (Add, l_ 9)]; mkHunk 4 [(Del, l_ 5); (Add, l_ 7); (Add, l_ 8)]]
            [l_ 1; l_ 2; l_ 9; l_ 4; l_ 7; l_ 8].
Proof.
  simpl. exists [l_ 1], [l_ 4; l_ 5], [l_ 4; l_ 7; l_ 8]. repeat split.
  exists [l_ 4], [], []. repeat split.
Qed.
