(* Proofs/PosProofs.v — lemmas about Syntax/Pos.v (C09_pos_pack). *)
From Coq Require Import NArith ZArith Bool Lia ZifyN ZifyBool.
From Verif Require Import Syntax.Pos.
Open Scope N_scope.

Lemma u32_small : forall x, x < two32 -> u32 x = x.
Proof. intros; unfold u32; apply N.mod_small; assumption. Qed.

Lemma pack_line : forall l c, c <= colMax -> N.shiftr (N.lor (N.shiftl l colBitSize) c) colBitSize = l.
Proof.
  intros l c Hc. rewrite N.shiftr_lor, N.shiftr_shiftl_l by reflexivity.
  replace (colBitSize - colBitSize) with 0 by reflexivity. rewrite N.shiftl_0_r.
  rewrite (N.shiftr_div_pow2 c). rewrite N.div_small. apply N.lor_0_r.
  unfold colBitSize, colMax in *. change (2 ^ 14) with 16384. lia.
Qed.

Lemma testbit_small : forall c n, c <= colMax -> 14 <= n -> N.testbit c n = false.
Proof.
  intros c n Hc Hn. destruct (N.eq_dec c 0) as [-> | Hnz]; [apply N.bits_0|].
  apply N.bits_above_log2. apply N.log2_lt_pow2; [lia|].
  apply N.lt_le_trans with (2 ^ 14).
  - unfold colMax in Hc. change (2 ^ 14) with 16384. lia.
  - apply N.pow_le_mono_r; [discriminate | assumption].
Qed.

Lemma pack_col : forall l c, c <= colMax -> N.land (N.lor (N.shiftl l colBitSize) c) colBitMask = c.
Proof.
  intros l c Hc. apply N.bits_inj. intro n.
  rewrite N.land_spec, N.lor_spec. change colBitMask with (N.ones 14). unfold colBitSize.
  destruct (N.lt_ge_cases n 14) as [H | H].
  - rewrite N.ones_spec_low by assumption. rewrite N.shiftl_spec_low by assumption.
    cbn [orb]. apply andb_true_r.
  - rewrite N.ones_spec_high by assumption. rewrite andb_false_r.
    symmetry. apply testbit_small; assumption.
Qed.

Definition sat_line (l : N) : N := if lineMax <? l then 0 else l.
Definition sat_col (c : N) : N := if colMax <? c then 0 else c.

Lemma NewPos_fields : forall o l c,
  NewPos o l c = mkpos (N.min o offsetMax) (N.lor (N.shiftl (sat_line l) colBitSize) (sat_col c)).
Proof.
  intros. unfold NewPos, sat_line, sat_col.
  assert (Hl : (if lineMax <? l then 0 else l) <= lineMax) by (destruct (lineMax <? l) eqn:E; unfold lineMax in *; lia).
  assert (Hc : (if colMax <? c then 0 else c) <= colMax) by (destruct (colMax <? c) eqn:E; unfold colMax in *; lia).
  set (l' := if lineMax <? l then 0 else l) in *. set (c' := if colMax <? c then 0 else c) in *.
  rewrite (u32_small (N.min o offsetMax)) by (unfold offsetMax, two32; lia).
  rewrite (u32_small l') by (unfold lineMax, two32 in *; lia).
  rewrite (u32_small c') by (unfold colMax, two32 in *; lia).
  rewrite u32_small; [reflexivity|].
  unfold colBitSize. rewrite N.shiftl_mul_pow2. change (2^14) with 16384. unfold lineMax, two32 in *. lia.
Qed.

(* the documented behaviour of NewPos for ALL arguments: clamp the offset, zero an oversized line or column *)
Lemma pos_pack_sat : forall o l c,
  Offset (NewPos o l c) = N.min o offsetMax /\
  Line (NewPos o l c) = sat_line l /\
  Col (NewPos o l c) = sat_col c.
Proof.
  intros. rewrite NewPos_fields.
  assert (Hc : sat_col c <= colMax) by (unfold sat_col; destruct (colMax <? c) eqn:E; unfold colMax in *; lia).
  unfold Offset, Line, Col; cbn [p_offs p_linecol].
  split; [|split].
  - destruct (offsetMax <? N.min o offsetMax) eqn:E; [lia | reflexivity].
  - apply pack_line; assumption.
  - apply pack_col; assumption.
Qed.

Lemma pos_pack : forall o l c, o <= offsetMax -> l <= lineMax -> c <= colMax ->
  Offset (NewPos o l c) = o /\ Line (NewPos o l c) = l /\ Col (NewPos o l c) = c.
Proof.
  intros o l c Ho Hl Hc. destruct (pos_pack_sat o l c) as (A & B & C).
  rewrite A, B, C. unfold sat_line, sat_col.
  replace (lineMax <? l) with false by lia. replace (colMax <? c) with false by lia.
  repeat split; lia.
Qed.

Lemma NewPos_valid : forall o l c, IsValid (NewPos o l c) = negb ((sat_line l =? 0) && (sat_col c =? 0)).
Proof.
  intros. rewrite NewPos_fields. unfold IsValid; cbn [p_offs p_linecol].
  replace (N.min o offsetMax <=? offsetMax) with true by lia. cbn [andb].
  f_equal. rewrite eq_iff_eq_true, andb_true_iff, !N.eqb_eq, N.lor_eq_0_iff, N.shiftl_eq_0_iff. tauto.
Qed.

(* After is < on offsets for valid positions *)
Lemma after_valid : forall p p2, IsValid p = true -> IsValid p2 = true ->
  After p p2 = (Offset p2 <? Offset p).
Proof.
  intros p p2 H1 H2. unfold After. rewrite H1; cbn [negb].
  unfold IsValid in *. apply andb_true_iff in H1, H2. destruct H1 as [A _], H2 as [B _].
  unfold Offset. replace (offsetMax <? p_offs p) with false by lia.
  replace (offsetMax <? p_offs p2) with false by lia. reflexivity.
Qed.

Lemma after_invalid : forall p p2, IsValid p = false -> After p p2 = false.
Proof. intros p p2 H. unfold After. rewrite H. reflexivity. Qed.

(* posAddCol on a valid position: line unchanged, offset clamped sum, column sum or 0 *)
Definition clampZ (x : Z) : Z := Z.min (Z.max x 0) (Z.of_N offsetMax).

Lemma ldiff_lor_line : forall lc c, c <= colMax ->
  N.shiftr (N.lor (N.ldiff lc colBitMask) c) colBitSize = N.shiftr lc colBitSize.
Proof.
  intros lc c Hc. rewrite N.shiftr_lor. rewrite (N.shiftr_div_pow2 c), (N.div_small c).
  2:{ unfold colBitSize, colMax in *. change (2^14) with 16384. lia. }
  rewrite N.lor_0_r. apply N.bits_inj. intro n.
  rewrite !N.shiftr_spec by apply N.le_0_l. rewrite N.ldiff_spec.
  change colBitMask with (N.ones 14). rewrite N.ones_spec_high.
  - apply andb_true_r.
  - unfold colBitSize. lia.
Qed.

Lemma ldiff_lor_col : forall lc c, c <= colMax ->
  N.land (N.lor (N.ldiff lc colBitMask) c) colBitMask = c.
Proof.
  intros lc c Hc. apply N.bits_inj. intro n.
  rewrite N.land_spec, N.lor_spec, N.ldiff_spec. change colBitMask with (N.ones 14).
  destruct (N.lt_ge_cases n 14) as [H | H].
  - rewrite N.ones_spec_low by assumption. cbn [negb]. rewrite andb_false_r. cbn [orb]. apply andb_true_r.
  - rewrite N.ones_spec_high by assumption. rewrite andb_false_r.
    symmetry. apply testbit_small; assumption.
Qed.

Lemma posAddCol_spec : forall p n, IsValid p = true ->
  Line (posAddCol p n) = Line p /\
  Z.of_N (Offset (posAddCol p n)) = clampZ (Z.of_N (Offset p) + n) /\
  Z.of_N (Col (posAddCol p n)) =
    (if Col p =? 0 then 0%Z
     else let c := (Z.of_N (Col p) + n)%Z in
          if (c <? 1)%Z || (Z.of_N colMax <? c)%Z then 0%Z else c).
Proof.
  intros p n Hv. unfold posAddCol. rewrite Hv; cbn [negb].
  set (offs' := Z.min (Z.max (Z.of_N (p_offs p) + n) 0) (Z.of_N offsetMax)).
  set (colz := if (0 <? Z.of_N (Col p))%Z
               then (let c := (Z.of_N (Col p) + n)%Z in if (c <? 1)%Z || (Z.of_N colMax <? c)%Z then 0%Z else c)
               else Z.of_N (Col p)).
  assert (Hcz : (0 <= colz <= Z.of_N colMax)%Z).
  { unfold colz. destruct (0 <? Z.of_N (Col p))%Z eqn:E.
    - cbv zeta. destruct ((Z.of_N (Col p) + n <? 1)%Z || (Z.of_N colMax <? Z.of_N (Col p) + n)%Z) eqn:F; unfold colMax in *; lia.
    - unfold colMax; lia. }
  assert (Hoz : (0 <= offs' <= Z.of_N offsetMax)%Z) by (unfold offs', offsetMax; lia).
  rewrite (u32_small (Z.to_N offs')) by (unfold offsetMax, two32 in *; lia).
  rewrite (u32_small (Z.to_N colz)) by (unfold colMax, two32 in *; lia).
  assert (Hc' : Z.to_N colz <= colMax) by lia.
  unfold Line, Col, Offset; cbn [p_offs p_linecol].
  split; [|split].
  - apply ldiff_lor_line; assumption.
  - replace (offsetMax <? Z.to_N offs') with false by lia.
    unfold IsValid in Hv. apply andb_true_iff in Hv. destruct Hv as [A _].
    replace (offsetMax <? p_offs p) with false by lia.
    unfold clampZ. fold offs'. lia.
  - rewrite ldiff_lor_col by assumption. rewrite Z2N.id by lia.
    unfold colz. fold (Col p).
    destruct (Col p =? 0) eqn:E.
    + apply N.eqb_eq in E. rewrite E. reflexivity.
    + apply N.eqb_neq in E. replace (0 <? Z.of_N (Col p))%Z with true by lia. reflexivity.
Qed.

(* Parser.nextPos packs the raw bookkeeping exactly while it is below the limits *)
Lemma next_pos_exact : forall o l c : Z,
  (0 <= o <= Z.of_N offsetMax)%Z -> (0 <= l <= Z.of_N lineMax)%Z -> (0 <= c <= Z.of_N colMax)%Z ->
  Z.of_N (Offset (next_pos o l c)) = o /\ Z.of_N (Line (next_pos o l c)) = l /\ Z.of_N (Col (next_pos o l c)) = c.
Proof.
  intros o l c Ho Hl Hc. unfold next_pos, to_uint.
  replace (Z.min o (Z.of_N offsetMax)) with o by lia.
  replace (l <=? Z.of_N lineMax)%Z with true by lia. replace (c <=? Z.of_N colMax)%Z with true by lia.
  rewrite !Z.mod_small by (unfold two64, offsetMax, lineMax, colMax in *; lia).
  destruct (pos_pack (Z.to_N o) (Z.to_N l) (Z.to_N c)) as (A & B & C); lia.
Qed.
