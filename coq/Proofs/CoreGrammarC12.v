(* Proofs/CoreGrammarC12.v — unbounded component lemmas relating parse_core's simple-command loop (callExpr) to the
   POSIX grammar's cmd_suffix recogniser.  The full unbounded C12_accepts_iff_grammar is NOT proved (see Props/C12.v). *)
From Verif Require Import Base.Str Syntax.CoreGrammar Proofs.CoreGrammarProofs Proofs.CoreGrammarFuel.
From Coq Require Import Lia.
Arguments do_redirect : simpl never.
Arguments bind : simpl never.
Arguments perr : simpl never.
Arguments lerr : simpl never.
Arguments call_loop : simpl never.

Definition is_redir_tok (t : token) : bool := match t with TRedir | TIoRedir => true | _ => false end.

(* KF-C12-5 excluded: no redirection operator directly followed by an io-number-redirection *)
Fixpoint no_ionum_target (ts : list token) : bool :=
  match ts with
  | t :: r => match r with
              | TIoRedir :: _ => negb (is_redir_tok t) && no_ionum_target r
              | _ => no_ionum_target r
              end
  | [] => true
  end.

Lemma a_suffix_S : forall f ts, a_suffix (S f) ts =
  match ts with
  | t :: r => if is_word t then a_suffix f r
              else match a_redirect ts with AOk r' => a_suffix f r' | ANone => Some ts | AFail => None end
  | [] => Some []
  end.
Proof. reflexivity. Qed.

Lemma is_word_litword : forall t, is_litword t = true -> is_word t = true.
Proof. intros t H. unfold is_word. rewrite H. reflexivity. Qed.

Lemma nit_tail : forall t r, no_ionum_target (t :: r) = true -> no_ionum_target r = true.
Proof. intros t [|t2 r] H; [reflexivity|]. simpl in H. destruct t2; try exact H. apply Bool.andb_true_iff in H. apply H. Qed.

(* soundness: whatever callExpr's loop accepts (outside a subshell) is a cmd_suffix, with the same rest *)
Lemma call_loop_sound : forall px f o first ts rest,
  no_ionum_target ts = true ->
  call_loop px f o QNone first ts = POk rest -> a_suffix f ts = Some rest.
Proof.
  induction f as [|f IH]; intros o first ts rest NI H; [discriminate|].
  rewrite call_loop_S in H. rewrite a_suffix_S.
  destruct ts as [|t r]; [inversion H; reflexivity|].
  pose proof (nit_tail _ _ NI) as NT.
  destruct (is_litword t) eqn:LW.
  - rewrite (is_word_litword t LW). eapply IH; eauto.
  - destruct t; simpl in LW; try discriminate; simpl is_word; simpl a_redirect;
      try (inversion H; subst; reflexivity);
      try (eapply IH; eauto; fail);
      try (exfalso; destruct (unexpected_is_err (list token) px o first (TLparen :: r)) as (c & p & i & E); rewrite E in H; discriminate);
      try (exfalso; destruct (unexpected_is_err (list token) px o first (TRparen :: r)) as (c & p & i & E); rewrite E in H; discriminate).
    + (* TRedir *)
      unfold do_redirect in H. destruct r as [|t2 r2]; [unfold bind, perr in H; simpl in H; discriminate|].
      destruct (get_word (t2 :: r2)) as [x|] eqn:G; [|unfold bind, perr in H; discriminate].
      rewrite bind_POk in H. simpl in G. simpl in NI.
      destruct (is_litword t2) eqn:L2.
      * inversion G; subst. rewrite (is_word_litword t2 L2). eapply IH; [|exact H]. apply (nit_tail _ _ NT).
      * destruct t2; try discriminate; simpl in NI; try discriminate; inversion G; subst; simpl;
          (eapply IH; [|exact H]; apply (nit_tail _ _ NT)).
    + (* TIoRedir *)
      unfold do_redirect in H. destruct r as [|t2 r2]; [unfold bind, perr in H; simpl in H; discriminate|].
      destruct (get_word (t2 :: r2)) as [x|] eqn:G; [|unfold bind, perr in H; discriminate].
      rewrite bind_POk in H. simpl in G. simpl in NI.
      destruct (is_litword t2) eqn:L2.
      * inversion G; subst. rewrite (is_word_litword t2 L2). eapply IH; [|exact H]. apply (nit_tail _ _ NT).
      * destruct t2; try discriminate; simpl in NI; try discriminate; inversion G; subst; simpl;
          (eapply IH; [|exact H]; apply (nit_tail _ _ NT)).
Qed.

Definition not_paren_head (ts : list token) : bool :=
  match ts with (TLparen | TRparen) :: _ => false | _ => true end.

(* completeness: a cmd_suffix that does not stop at a parenthesis is accepted by callExpr's loop, with the same rest *)
Lemma call_loop_complete : forall px f o first ts rest,
  a_suffix f ts = Some rest -> not_paren_head rest = true ->
  call_loop px f o QNone first ts = POk rest.
Proof.
  induction f as [|f IH]; intros o first ts rest H NP; [discriminate|].
  rewrite a_suffix_S in H. rewrite call_loop_S.
  destruct ts as [|t r]; [inversion H; reflexivity|].
  destruct (is_litword t) eqn:LW.
  - rewrite (is_word_litword t LW) in H. eapply IH; eauto.
  - destruct t; simpl in LW; try discriminate; simpl is_word in H; simpl a_redirect in H;
      try (inversion H; subst; simpl in NP; try discriminate; reflexivity);
      try (eapply IH; eauto; fail).
    + (* TRedir *)
      destruct r as [|t2 r2]; [discriminate|]. destruct (is_word t2) eqn:W2; [|discriminate].
      unfold do_redirect. unfold is_word in W2.
      assert (G : get_word (t2 :: r2) = Some r2).
      { simpl. destruct (is_litword t2); [reflexivity|]. destruct t2; simpl in W2; try discriminate; reflexivity. }
      rewrite G, bind_POk. eapply IH; eauto.
    + (* TIoRedir *)
      destruct r as [|t2 r2]; [discriminate|]. destruct (is_word t2) eqn:W2; [|discriminate].
      unfold do_redirect. unfold is_word in W2.
      assert (G : get_word (t2 :: r2) = Some r2).
      { simpl. destruct (is_litword t2); [reflexivity|]. destruct t2; simpl in W2; try discriminate; reflexivity. }
      rewrite G, bind_POk. eapply IH; eauto.
Qed.
