(* Proofs/TreeRegionProofs.v — C29: every operation of Interp/TreeRegion.v only
   stores into objects allocated during the run.  [ext n s s'] : s' is s plus
   allocations and stores into objects >= n. *)
From Verif Require Import Base.Str Base.GoSliceLite Interp.TreeRegion.
Require Import Lia.

Local Notation state := (st val).
#[local] Arguments halloc : simpl never.
#[local] Arguments hwrite : simpl never.
#[local] Arguments hset : simpl never.
#[local] Arguments alloc_list : simpl never.
#[local] Arguments go_append : simpl never.
#[local] Arguments concat : simpl never.
#[local] Arguments clone : simpl never.
#[local] Arguments reslice : simpl never.
#[local] Arguments store : simpl never.
#[local] Arguments obj : simpl never.
#[local] Arguments elems : simpl never.

(* ---------------- list facts ---------------- *)
Lemma set_nth_length {A} (l : list A) i x : length (set_nth l i x) = length l.
Proof. revert i; induction l; destruct i; simpl; auto. Qed.

Lemma nth_set_nth_other {A} (l : list A) i j x d : i <> j -> nth j (set_nth l i x) d = nth j l d.
Proof.
  revert i j; induction l; intros i j H; destruct i, j; simpl; auto; try congruence.
Qed.

(* ---------------- ext ---------------- *)
Definition fresh_log (n : nat) (lg : list (loc * nat * nat)) : Prop :=
  Forall (fun w => n <= fst (fst w)) lg.

Definition ext (n : nat) (s s' : state) : Prop :=
  n <= length (hp s) /\
  length (hp s) <= length (hp s') /\
  (forall l, l < n -> nth l (hp s') [] = nth l (hp s) []) /\
  exists new, wlog s' = new ++ wlog s /\ fresh_log n new.

Lemma ext_refl n s : n <= length (hp s) -> ext n s s.
Proof. intros; repeat split; auto. exists []; split; auto. constructor. Qed.

Lemma ext_trans n s1 s2 s3 : ext n s1 s2 -> ext n s2 s3 -> ext n s1 s3.
Proof.
  intros (a1 & b1 & c1 & n1 & d1 & e1) (a2 & b2 & c2 & n2 & d2 & e2).
  repeat split; try lia.
  - intros l Hl. rewrite c2, c1; auto.
  - exists (n2 ++ n1). split. rewrite d2, d1, app_assoc; auto. apply Forall_app; auto.
Qed.

Lemma ext_len n s s' : ext n s s' -> n <= length (hp s').
Proof. intros (a & b & _); lia. Qed.

Lemma ext_halloc n s o : n <= length (hp s) ->
  ext n s (fst (halloc s o)) /\ snd (halloc s o) = length (hp s).
Proof.
  intros H; unfold halloc; simpl; split; auto.
  repeat split; simpl; auto.
  - rewrite app_length; simpl; lia.
  - intros l Hl. rewrite app_nth1; auto; lia.
  - exists []; split; auto; constructor.
Qed.

Lemma ext_hwrite n s l pos vs : n <= length (hp s) -> n <= l -> ext n s (hwrite s l pos vs).
Proof.
  intros H Hl; unfold hwrite; repeat split; simpl; auto.
  - rewrite set_nth_length; lia.
  - intros l' Hl'. apply nth_set_nth_other; lia.
  - exists [(l, pos, length vs)]; split; auto. constructor; simpl; auto.
Qed.

Lemma ext_hset n s l o : n <= length (hp s) -> n <= l -> ext n s (hset s l o).
Proof.
  intros H Hl; unfold hset; repeat split; simpl; auto.
  - rewrite set_nth_length; lia.
  - intros l' Hl'. apply nth_set_nth_other; lia.
  - exists [(l, 0, length o)]; split; auto. constructor; simpl; auto.
Qed.

(* a slice on which append/store can only hit objects >= n *)
Definition ssafe (n : nat) (sl : slice) : Prop :=
  match sl with SNil => True | Sl l _ len c => n <= l \/ (len = 0 /\ c = 0) end.

Lemma ext_alloc_list n s vs c s' sl :
  n <= length (hp s) -> alloc_list zero s vs c = (s', sl) -> ext n s s' /\ ssafe n sl.
Proof.
  unfold alloc_list; intros H E.
  destruct (halloc s (vs ++ repeat zero (Nat.max c (length vs) - length vs))) as [s1 a] eqn:Ha.
  inversion E; subst; clear E.
  destruct (ext_halloc n s (vs ++ repeat zero (Nat.max c (length vs) - length vs)) H) as [He Hs].
  rewrite Ha in He, Hs; simpl in *. split; auto. left; lia.
Qed.

Lemma ext_go_append n s sl vs s' sl' :
  n <= length (hp s) -> ssafe n sl -> go_append zero s sl vs = (s', sl') -> ext n s s' /\ ssafe n sl'.
Proof.
  intros H Hs E; unfold go_append in E.
  destruct vs as [|v vs].
  - inversion E; subst; split; auto using ext_refl.
  - destruct sl as [|l o len c].
    + eapply ext_alloc_list; eauto.
    + destruct (Nat.leb (len + length (v :: vs)) c) eqn:Hc.
      * inversion E; subst; clear E. apply Nat.leb_le in Hc; simpl in Hc, Hs.
        destruct Hs as [Hs | [? ?]]; [| lia].
        split; [apply ext_hwrite; auto | left; auto].
      * eapply ext_alloc_list; eauto.
Qed.

Lemma ext_concat n s sls s' sl :
  n <= length (hp s) -> concat zero s sls = (s', sl) -> ext n s s' /\ ssafe n sl.
Proof.
  unfold concat; intros H E. destruct (flat_map (elems s) sls) eqn:Hf.
  - inversion E; subst; split; simpl; auto using ext_refl.
  - eapply ext_alloc_list; eauto.
Qed.

Lemma ext_clone n s sl s' sl' :
  n <= length (hp s) -> clone zero s sl = (s', sl') -> ext n s s' /\ ssafe n sl'.
Proof.
  unfold clone; intros H E. destruct sl as [|l o len c].
  - inversion E; subst; split; simpl; auto using ext_refl.
  - destruct len.
    + inversion E; subst; split; simpl; auto using ext_refl.
    + eapply ext_alloc_list; eauto.
Qed.

Lemma ssafe_reslice n sl lo hi sl' : ssafe n sl -> reslice sl lo hi = Ok sl' -> ssafe n sl'.
Proof.
  destruct sl as [|l o len c]; unfold reslice; simpl; intros Hs E.
  - destruct (Nat.eqb lo 0 && Nat.eqb hi 0); inversion E; simpl; auto.
  - destruct (Nat.leb lo hi && Nat.leb hi c) eqn:Hc; inversion E; subst; simpl.
    apply andb_true_iff in Hc; destruct Hc as [H1 H2]. apply Nat.leb_le in H1, H2.
    destruct Hs as [Hs | [? ?]]; [left; auto | right; lia].
Qed.

Lemma ext_store n s sl i v s' :
  n <= length (hp s) -> ssafe n sl -> store s sl i v = Ok s' -> ext n s s'.
Proof.
  destruct sl as [|l o len c]; unfold store; simpl; intros H Hs E; [discriminate|].
  destruct (Nat.ltb i len) eqn:Hi; inversion E; subst.
  apply Nat.ltb_lt in Hi. destruct Hs as [Hs | [? ?]]; [| lia].
  apply ext_hwrite; auto.
Qed.

Local Opaque halloc hwrite hset alloc_list go_append concat clone reslice store obj elems.

Ltac break_obj E :=
  repeat match type of E with
         | (match ?x with _ => _ end) = _ =>
             first [ is_var x | match x with obj _ _ => idtac end ];
             destruct x eqn:?; try discriminate E
         end.

Ltac ext_chain := solve [ eassumption | eapply ext_trans; [eassumption | ext_chain] ].

Ltac bind_inv E :=
  match type of E with
  | res_bind ?a _ = Ok _ => let x := fresh "x" in let Ea := fresh "E" in
                            destruct a as [x| |] eqn:Ea; cbn [res_bind] in E; try discriminate E
  end.

(* ---------------- 1. alias expansion ---------------- *)
Lemma ext_alias_loop n fuel ea al : forall s args i s' args',
  n <= length (hp s) -> alias_loop fuel ea al s args i = Ok (s', args') -> ext n s s'.
Proof.
  induction fuel; intros s args i s' args' H E; simpl in E; [discriminate|].
  destruct (negb (Nat.ltb i (s_len args))). { inversion E; subst; apply ext_refl; auto. }
  destruct (negb ea). { inversion E; subst; apply ext_refl; auto. }
  destruct (nth_error (elems s args) i); [|discriminate].
  bind_inv E. bind_inv E.
  destruct (alias_find al x0) as [[aargs blank]|]; [| inversion E; subst; apply ext_refl; auto].
  bind_inv E. bind_inv E.
  destruct (concat zero s [x1; aargs; x2]) as [s1 args1] eqn:Hc.
  destruct (ext_concat n _ _ _ _ H Hc) as [He _].
  destruct (negb blank).
  - inversion E; subst; auto.
  - eapply ext_trans; eauto. eapply IHfuel; eauto. eapply ext_len; eauto.
Qed.

Lemma ext_alloc_lit_words n : forall ws s s' l,
  n <= length (hp s) -> alloc_lit_words s ws = (s', l) -> ext n s s'.
Proof.
  induction ws; intros s s' l H E; simpl in E.
  - inversion E; subst; apply ext_refl; auto.
  - destruct (halloc s [VTag 0; VStr a]) as [s1 l1] eqn:H1.
    destruct (alloc_list zero s1 [VPtr l1] 1) as [s2 ps] eqn:H2.
    destruct (halloc s2 [VTag 1; VSl ps]) as [s3 wl] eqn:H3.
    destruct (alloc_lit_words s3 ws) as [s4 r] eqn:H4.
    inversion E; subst; clear E.
    pose proof (ext_halloc n s [VTag 0; VStr a] H) as [A1 _]; rewrite H1 in A1; simpl in A1.
    destruct (ext_alloc_list n _ _ _ _ _ (ext_len _ _ _ A1) H2) as [A2 _].
    pose proof (ext_halloc n s2 [VTag 1; VSl ps] (ext_len _ _ _ A2)) as [A3 _]; rewrite H3 in A3; simpl in A3.
    pose proof (IHws _ _ _ (ext_len _ _ _ A3) H4).
    (try ext_chain; auto).
Qed.

Lemma ext_append_each n : forall vs s sl s' sl',
  n <= length (hp s) -> ssafe n sl -> append_each s sl vs = (s', sl') -> ext n s s' /\ ssafe n sl'.
Proof.
  induction vs; intros s sl s' sl' H Hs E; simpl in E.
  - inversion E; subst; split; auto using ext_refl.
  - destruct (go_append zero s sl [a]) as [s1 sl1] eqn:H1.
    destruct (ext_go_append n _ _ _ _ _ H Hs H1) as [A1 S1].
    destruct (IHvs _ _ _ _ (ext_len _ _ _ A1) S1 E) as [A2 S2].
    split; (try ext_chain; auto).
Qed.

Lemma ext_alias_def n s al name ws blank s' al' :
  n <= length (hp s) -> alias_def s al name ws blank = (s', al') -> ext n s s'.
Proof.
  unfold alias_def; intros H E.
  destruct (alloc_lit_words s ws) as [s1 wl] eqn:H1.
  destruct (append_each s1 SNil wl) as [s2 sl] eqn:H2.
  inversion E; subst; clear E.
  pose proof (ext_alloc_lit_words n _ _ _ _ H H1) as A1.
  destruct (ext_append_each n _ _ _ _ _ (ext_len _ _ _ A1) (I : ssafe n SNil) H2) as [A2 _].
  (try ext_chain; auto).
Qed.

(* ---------------- 2. SplitBraces on a copy ---------------- *)
Section Abs.
Variable splitter : list (option str) -> option (list newpart).
Variable seq_values : list str -> list str.
Variable expand_word : state -> loc -> list str.

Lemma ext_build_leaf n s orig acc lf s' acc' :
  n <= length (hp s) -> ssafe n acc -> build_leaf s orig acc lf = (s', acc') -> ext n s s' /\ ssafe n acc'.
Proof.
  intros H Hs E; destruct lf; simpl in E.
  - eapply ext_go_append; eauto.
  - destruct (halloc s [VTag 0; VStr v]) as [s1 l] eqn:H1.
    pose proof (ext_halloc n s [VTag 0; VStr v] H) as [A1 _]; rewrite H1 in A1; simpl in A1.
    destruct (ext_go_append n _ _ _ _ _ (ext_len _ _ _ A1) Hs E) as [A2 S2].
    split; (try ext_chain; auto).
Qed.

Lemma ext_build_leaves n orig : forall lfs s acc s' acc',
  n <= length (hp s) -> ssafe n acc -> build_leaves s orig acc lfs = (s', acc') -> ext n s s' /\ ssafe n acc'.
Proof.
  induction lfs; intros s acc s' acc' H Hs E; simpl in E.
  - inversion E; subst; split; auto using ext_refl.
  - destruct (build_leaf s orig acc a) as [s1 acc1] eqn:H1.
    destruct (ext_build_leaf n _ _ _ _ _ _ H Hs H1) as [A1 S1].
    destruct (IHlfs _ _ _ _ (ext_len _ _ _ A1) S1 E) as [A2 S2].
    split; (try ext_chain; auto).
Qed.

Lemma ext_build_elems n orig : forall es s acc s' acc',
  n <= length (hp s) -> ssafe n acc -> build_elems s orig acc es = (s', acc') -> ext n s s' /\ ssafe n acc'.
Proof.
  induction es; intros s acc s' acc' H Hs E; simpl in E.
  - inversion E; subst; split; auto using ext_refl.
  - destruct (build_leaves s orig SNil a) as [s1 ps] eqn:H1.
    destruct (halloc s1 [VTag 1; VSl ps]) as [s2 w] eqn:H2.
    destruct (go_append zero s2 acc [VPtr w]) as [s3 acc1] eqn:H3.
    destruct (ext_build_leaves n _ _ _ _ _ _ H (I : ssafe n SNil) H1) as [A1 _].
    pose proof (ext_halloc n s1 [VTag 1; VSl ps] (ext_len _ _ _ A1)) as [A2 _]; rewrite H2 in A2; simpl in A2.
    destruct (ext_go_append n _ _ _ _ _ (ext_len _ _ _ A2) Hs H3) as [A3 S3].
    destruct (IHes _ _ _ _ (ext_len _ _ _ A3) S3 E) as [A4 S4].
    split; (try ext_chain; auto).
Qed.

Lemma ext_build_parts n orig : forall nps s acc s' acc',
  n <= length (hp s) -> ssafe n acc -> build_parts s orig acc nps = (s', acc') -> ext n s s' /\ ssafe n acc'.
Proof.
  induction nps as [|np nps IH]; intros s acc s' acc' H Hs E; simpl in E.
  - inversion E; subst; split; auto using ext_refl.
  - destruct np as [lf | sq es].
    + destruct (build_leaf s orig acc lf) as [s1 acc1] eqn:H1.
      destruct (ext_build_leaf n _ _ _ _ _ _ H Hs H1) as [A1 S1].
      destruct (IH _ _ _ _ (ext_len _ _ _ A1) S1 E) as [A2 S2].
      split; (try ext_chain; auto).
    + destruct (build_elems s orig SNil es) as [s1 el] eqn:H1.
      destruct (halloc s1 [VTag 2; VBool sq; VSl el]) as [s2 b] eqn:H2.
      destruct (go_append zero s2 acc [VPtr b]) as [s3 acc1] eqn:H3.
      destruct (ext_build_elems n _ _ _ _ _ _ H (I : ssafe n SNil) H1) as [A1 _].
      pose proof (ext_halloc n s1 [VTag 2; VBool sq; VSl el] (ext_len _ _ _ A1)) as [A2 _]; rewrite H2 in A2; simpl in A2.
      destruct (ext_go_append n _ _ _ _ _ (ext_len _ _ _ A2) Hs H3) as [A3 S3].
      destruct (IH _ _ _ _ (ext_len _ _ _ A3) S3 E) as [A4 S4].
      split; (try ext_chain; auto).
Qed.

Lemma ext_split_braces n s w s' b :
  n <= length (hp s) -> n <= w -> split_braces splitter s w = Ok (s', b) -> ext n s s'.
Proof.
  unfold split_braces; intros H Hw E. bind_inv E.
  destruct (splitter (map (part_view s) (elems s x))).
  - destruct (build_parts s (elems s x) SNil l) as [s1 top] eqn:H1.
    inversion E; subst; clear E.
    destruct (ext_build_parts n _ _ _ _ _ _ H (I : ssafe n SNil) H1) as [A1 _].
    eapply ext_trans; eauto. apply ext_hwrite; auto. eapply ext_len; eauto.
  - inversion E; subst; apply ext_refl; auto.
Qed.

Lemma ext_fields_word n s w s' c b :
  n <= length (hp s) -> fields_word splitter s w = Ok (s', c, b) -> ext n s s' /\ n <= c.
Proof.
  unfold fields_word; intros H E.
  break_obj E.
  match type of E with context [halloc s ?o] =>
    destruct (halloc s o) as [s1 c1] eqn:H1;
    pose proof (ext_halloc n s o H) as [A1 C1]; rewrite H1 in A1, C1; simpl in A1, C1 end.
  bind_inv E. destruct x as [s2 b2]. inversion E; subst; clear E.
  split; [|lia].
  assert (n <= length (hp s1)) by (eapply ext_len; eauto).
  eapply ext_trans; [eassumption|]. eapply ext_split_braces; [| |eassumption]; lia.
Qed.

(* ---------------- 3. bracesSeqRec ---------------- *)
Definition all_ge (n : nat) (ws : list loc) : Prop := Forall (fun w => n <= w) ws.

Lemma ext_prepend_left n left : forall ws s s',
  n <= length (hp s) -> all_ge n ws -> prepend_left s left ws = Ok s' -> ext n s s'.
Proof.
  induction ws; intros s s' H Hw E; simpl in E.
  - inversion E; subst; apply ext_refl; auto.
  - inversion Hw; subst. bind_inv E.
    destruct (concat zero s [left; x]) as [s1 c] eqn:H1.
    destruct (ext_concat n _ _ _ _ H H1) as [A1 _].
    pose proof (ext_hwrite n s1 a 1 [VSl c] (ext_len _ _ _ A1) H2) as A2.
    eapply ext_trans; eauto. eapply ext_trans; eauto.
    eapply IHws; eauto. eapply ext_len; eauto.
Qed.

Definition rec_ok (n : nat) (rec : state -> loc -> res (state * list loc)) : Prop :=
  forall s w s' ws, n <= length (hp s) -> rec s w = Ok (s', ws) -> ext n s s' /\ all_ge n ws.

Section Body.
Variable rec : state -> loc -> res (state * list loc).
Variable n : nat.
Hypothesis Hrec : rec_ok n rec.

Lemma ext_expand_next left s next acc s' acc' :
  n <= length (hp s) -> all_ge n acc -> expand_next rec left s next acc = Ok (s', acc') ->
  ext n s s' /\ all_ge n acc'.
Proof.
  unfold expand_next; intros H Ha E. bind_inv E. destruct x as [s1 ws].
  destruct (Hrec _ _ _ _ H E0) as [A1 W1].
  bind_inv E. inversion E; subst; clear E.
  pose proof (ext_prepend_left n left _ _ _ (ext_len _ _ _ A1) W1 E1) as A2.
  split; (try ext_chain; auto). apply Forall_app; auto.
Qed.

Lemma ext_each_seq w left rest : forall vs s acc s' acc',
  n <= length (hp s) -> all_ge n acc -> each_seq rec w left rest vs s acc = Ok (s', acc') ->
  ext n s s' /\ all_ge n acc'.
Proof.
  induction vs as [|v vs IH]; intros s acc s' acc' H Ha E; simpl in E.
  - inversion E; subst; split; auto using ext_refl.
  - destruct (halloc s (obj s w)) as [s1 next] eqn:H1.
    destruct (halloc s1 [VTag 0; VStr v]) as [s2 lit] eqn:H2.
    destruct (alloc_list zero s2 [VPtr lit] 1) as [s3 one] eqn:H3.
    destruct (go_append zero s3 one (elems s3 rest)) as [s4 np] eqn:H4.
    pose proof (ext_halloc n s (obj s w) H) as [A1 C1]; rewrite H1 in A1, C1; simpl in A1, C1.
    pose proof (ext_halloc n s1 [VTag 0; VStr v] (ext_len _ _ _ A1)) as [A2 _]; rewrite H2 in A2; simpl in A2.
    destruct (ext_alloc_list n _ _ _ _ _ (ext_len _ _ _ A2) H3) as [A3 S3].
    destruct (ext_go_append n _ _ _ _ _ (ext_len _ _ _ A3) S3 H4) as [A4 _].
    assert (Hn : n <= next) by lia.
    pose proof (ext_hwrite n s4 next 1 [VSl np] (ext_len _ _ _ A4) Hn) as A5.
    bind_inv E. destruct x as [s5 acc5].
    destruct (ext_expand_next _ _ _ _ _ _ (ext_len _ _ _ A5) Ha E0) as [A6 W6].
    destruct (IH _ _ _ _ (ext_len _ _ _ A6) W6 E) as [A7 W7].
    split; auto. (try ext_chain; auto).
Qed.

Lemma ext_each_elem w left rest : forall es s acc s' acc',
  n <= length (hp s) -> all_ge n acc -> each_elem rec w left rest es s acc = Ok (s', acc') ->
  ext n s s' /\ all_ge n acc'.
Proof.
  induction es as [|ev es IH]; intros s acc s' acc' H Ha E; simpl in E.
  - inversion E; subst; split; auto using ext_refl.
  - bind_inv E. bind_inv E.
    destruct (halloc s (obj s w)) as [s1 next] eqn:H1.
    destruct (concat zero s1 [x0; rest]) as [s2 np] eqn:H2.
    pose proof (ext_halloc n s (obj s w) H) as [A1 C1]; rewrite H1 in A1, C1; simpl in A1, C1.
    destruct (ext_concat n _ _ _ _ (ext_len _ _ _ A1) H2) as [A2 _].
    assert (Hn : n <= next) by lia.
    pose proof (ext_hwrite n s2 next 1 [VSl np] (ext_len _ _ _ A2) Hn) as A3.
    bind_inv E. destruct x1 as [s3 acc3].
    destruct (ext_expand_next _ _ _ _ _ _ (ext_len _ _ _ A3) Ha E2) as [A4 W4].
    destruct (IH _ _ _ _ (ext_len _ _ _ A4) W4 E) as [A5 W5].
    split; auto. (try ext_chain; auto).
Qed.

Lemma ext_scan w parts : forall todo i s left s' ws,
  n <= length (hp s) -> ssafe n left -> scan seq_values rec w parts todo i s left = Ok (s', ws) ->
  ext n s s' /\ all_ge n ws.
Proof.
  induction todo as [|wp todo IH]; intros i s left s' ws H Hs E; simpl in E.
  - destruct (halloc s [VTag 1; VSl left]) as [s1 nw] eqn:H1.
    pose proof (ext_halloc n s [VTag 1; VSl left] H) as [A1 C1]; rewrite H1 in A1, C1; simpl in A1, C1.
    inversion E; subst; split; auto. constructor; [lia | constructor].
  - destruct (brace_view s wp) as [[sq el]|].
    + bind_inv E. destruct sq.
      * eapply ext_each_seq; eauto. constructor.
      * eapply ext_each_elem; eauto. constructor.
    + destruct (go_append zero s left [wp]) as [s1 left1] eqn:H1.
      destruct (ext_go_append n _ _ _ _ _ H Hs H1) as [A1 S1].
      destruct (IH _ _ _ _ _ (ext_len _ _ _ A1) S1 E) as [A2 W2].
      split; (try ext_chain; auto).
Qed.
End Body.

Lemma braces_rec_ok n : forall fuel, rec_ok n (braces_rec seq_values fuel).
Proof.
  induction fuel; intros s w s' ws H E; simpl in E; [discriminate|].
  bind_inv E. eapply ext_scan; eauto. exact (I : ssafe n SNil).
Qed.

Lemma ext_fields_one n fuel s w s' :
  n <= length (hp s) -> fields_one splitter seq_values fuel s w = Ok s' -> ext n s s'.
Proof.
  unfold fields_one; intros H E. bind_inv E. destruct x as [[s1 c] b].
  destruct (ext_fields_word n _ _ _ _ _ H E0) as [A1 C1].
  destruct b.
  - bind_inv E. destruct x as [s2 ws]. inversion E; subst; clear E; simpl.
    destruct (braces_rec_ok n fuel _ _ _ _ (ext_len _ _ _ A1) E1) as [A2 _].
    (try ext_chain; auto).
  - inversion E; subst; auto.
Qed.

Lemma ext_fields_all n fuel : forall ws s s',
  n <= length (hp s) -> fields_all splitter seq_values fuel s ws = Ok s' -> ext n s s'.
Proof.
  induction ws; intros s s' H E; simpl in E.
  - inversion E; subst; apply ext_refl; auto.
  - bind_inv E. bind_inv E.
    pose proof (ext_fields_one n _ _ _ _ H E1) as A1.
    eapply ext_trans; eauto. eapply IHws; eauto. eapply ext_len; eauto.
Qed.

(* ---------------- 4. flattenAssigns ---------------- *)
Lemma ext_new_assign n s f s' a : n <= length (hp s) -> new_assign s f = (s', a) -> ext n s s'.
Proof.
  unfold new_assign; intros H E. destruct (cut_byte 61 f) as [[name v]|].
  - destruct (halloc s [VTag 0; VStr name]) as [s1 nl] eqn:H1.
    destruct (halloc s1 [VTag 0; VStr v]) as [s2 lv] eqn:H2.
    destruct (alloc_list zero s2 [VPtr lv] 1) as [s3 ps] eqn:H3.
    destruct (halloc s3 [VTag 1; VSl ps]) as [s4 w] eqn:H4.
    pose proof (ext_halloc n s [VTag 0; VStr name] H) as [A1 _]; rewrite H1 in A1; simpl in A1.
    pose proof (ext_halloc n s1 [VTag 0; VStr v] (ext_len _ _ _ A1)) as [A2 _]; rewrite H2 in A2; simpl in A2.
    destruct (ext_alloc_list n _ _ _ _ _ (ext_len _ _ _ A2) H3) as [A3 _].
    pose proof (ext_halloc n s3 [VTag 1; VSl ps] (ext_len _ _ _ A3)) as [A4 _]; rewrite H4 in A4; simpl in A4.
    pose proof (ext_halloc n s4 [VTag 3; VPtr nl; VPtr w; VBool false] (ext_len _ _ _ A4)) as [A5 _].
    rewrite E in A5; simpl in A5. (try ext_chain; auto).
  - destruct (halloc s [VTag 0; VStr f]) as [s1 nl] eqn:H1.
    pose proof (ext_halloc n s [VTag 0; VStr f] H) as [A1 _]; rewrite H1 in A1; simpl in A1.
    pose proof (ext_halloc n s1 [VTag 3; VPtr nl; VNilv; VBool true] (ext_len _ _ _ A1)) as [A2 _].
    rewrite E in A2; simpl in A2. (try ext_chain; auto).
Qed.

Lemma ext_new_assigns n : forall fs s s' l, n <= length (hp s) -> new_assigns s fs = (s', l) -> ext n s s'.
Proof.
  induction fs; intros s s' l H E; simpl in E.
  - inversion E; subst; apply ext_refl; auto.
  - destruct (new_assign s a) as [s1 a1] eqn:H1. destruct (new_assigns s1 fs) as [s2 l2] eqn:H2.
    inversion E; subst; clear E.
    pose proof (ext_new_assign n _ _ _ _ H H1) as A1.
    eapply ext_trans; eauto. eapply IHfs; eauto. eapply ext_len; eauto.
Qed.

Lemma ext_flatten_assigns n fuel : forall args s s' l,
  n <= length (hp s) -> flatten_assigns splitter seq_values expand_word fuel s args = Ok (s', l) -> ext n s s'.
Proof.
  induction args as [|av args IH]; intros s s' l H E; simpl in E.
  - inversion E; subst; apply ext_refl; auto.
  - bind_inv E.
    break_obj E.
    + (* named *)
      bind_inv E. destruct x0 as [sa la]. inversion E; subst. eapply IH; eauto.
    + (* unnamed *)
      bind_inv E.
      match type of E with context [new_assigns ?a ?b] => destruct (new_assigns a b) as [sb lb] eqn:H2 end.
      bind_inv E. destruct x1 as [sc lc]. inversion E; subst; clear E.
      pose proof (ext_fields_one n _ _ _ _ H E1) as A1.
      pose proof (ext_new_assigns n _ _ _ _ (ext_len _ _ _ A1) H2) as A2.
      pose proof (IH _ _ _ (ext_len _ _ _ A2) E2) as A3.
      (try ext_chain; auto).
Qed.

(* ---------------- 5. here-documents ---------------- *)
Lemma ext_flush_line n s cur s' cur' :
  n <= length (hp s) -> ssafe n cur -> flush_line s cur = Ok (s', cur') -> ext n s s' /\ ssafe n cur'.
Proof.
  unfold flush_line; intros H Hs E.
  destruct (halloc s [VTag 1; VSl cur]) as [s1 w] eqn:H1.
  pose proof (ext_halloc n s [VTag 1; VSl cur] H) as [A1 _]; rewrite H1 in A1; simpl in A1.
  bind_inv E. inversion E; subst. split; auto. eapply ssafe_reslice; eauto.
Qed.

Lemma ext_hdoc_pieces n : forall ps s cur first s' cur',
  n <= length (hp s) -> ssafe n cur -> hdoc_pieces s cur ps first = Ok (s', cur') -> ext n s s' /\ ssafe n cur'.
Proof.
  induction ps as [|p ps IH]; intros s cur first s' cur' H Hs E; simpl in E.
  - inversion E; subst; split; auto using ext_refl.
  - bind_inv E. destruct x as [s1 cur1].
    assert (ext n s s1 /\ ssafe n cur1) as [A1 S1].
    { destruct first. inversion E0; subst; split; auto using ext_refl. eapply ext_flush_line; eauto. }
    destruct (halloc s1 [VTag 0; VStr (trim_tabs p)]) as [s2 l] eqn:H2.
    destruct (go_append zero s2 cur1 [VPtr l]) as [s3 cur2] eqn:H3.
    pose proof (ext_halloc n s1 [VTag 0; VStr (trim_tabs p)] (ext_len _ _ _ A1)) as [A2 _]; rewrite H2 in A2; simpl in A2.
    destruct (ext_go_append n _ _ _ _ _ (ext_len _ _ _ A2) S1 H3) as [A3 S3].
    destruct (IH _ _ _ _ _ (ext_len _ _ _ A3) S3 E) as [A4 S4].
    split; auto. (try ext_chain; auto).
Qed.

Lemma ext_hdoc_parts n : forall ps s cur s' cur',
  n <= length (hp s) -> ssafe n cur -> hdoc_parts s cur ps = Ok (s', cur') -> ext n s s' /\ ssafe n cur'.
Proof.
  induction ps as [|wp ps IH]; intros s cur s' cur' H Hs E; simpl in E.
  - inversion E; subst; split; auto using ext_refl.
  - destruct (part_view s wp).
    + bind_inv E. destruct x as [s1 cur1].
      destruct (ext_hdoc_pieces n _ _ _ _ _ _ H Hs E0) as [A1 S1].
      destruct (IH _ _ _ _ (ext_len _ _ _ A1) S1 E) as [A2 S2]. split; (try ext_chain; auto).
    + destruct (go_append zero s cur [wp]) as [s1 cur1] eqn:H1.
      destruct (ext_go_append n _ _ _ _ _ H Hs H1) as [A1 S1].
      destruct (IH _ _ _ _ (ext_len _ _ _ A1) S1 E) as [A2 S2]. split; (try ext_chain; auto).
Qed.

Lemma ext_hdoc_dash n s rd s' : n <= length (hp s) -> hdoc_dash s rd = Ok s' -> ext n s s'.
Proof.
  unfold hdoc_dash; intros H E.
  break_obj E.
  - bind_inv E. bind_inv E. destruct x0 as [s1 cur]. bind_inv E. inversion E; subst; clear E.
    destruct (ext_hdoc_parts n _ _ _ _ _ H (I : ssafe n SNil) E1) as [A1 S1].
    destruct x0 as [s2 c2]. destruct (ext_flush_line n _ _ _ _ (ext_len _ _ _ A1) S1 E2) as [A2 _].
    simpl. (try ext_chain; auto).
  - inversion E; subst; apply ext_refl; auto.
Qed.

End Abs.

(* ---------------- 6. the environment ---------------- *)
(* every overlay is an object of the run, and the outermost one is not a function scope *)
Definition stack_ok (n : nat) (e : env_stack) : Prop :=
  e <> [] /\ Forall (fun p => n <= fst p) e /\ snd (last e (0, false)) = false.

Lemma ext_env_set n caller name : forall e s vr s',
  n <= length (hp s) -> stack_ok n e -> env_set s caller e name vr = Ok s' -> ext n s s'.
Proof.
  induction e as [|[l f] e IH]; intros s vr s' H (Hne & Hall & Hlast) E.
  - congruence.
  - inversion Hall; subst; simpl in H2. simpl in E.
    destruct (f && negb (v_local vr) &&
              negb (v_local match ent_find (obj s l) name with Some p => p | None => zero_var end)) eqn:Hc.
    + destruct e as [|p e'].
      * simpl in Hlast; subst f; simpl in Hc; discriminate.
      * eapply IH; eauto. repeat split; auto; try congruence.
    + destruct (negb match v_kind vr with KKeepValue => true | _ => false end && v_readonly _); [discriminate|].
      match type of E with (if ?c then _ else _) = _ => destruct c end;
        inversion E; subst; apply ext_hset; auto.
Qed.

Lemma ext_set_index n caller e name k v s s' :
  n <= length (hp s) -> stack_ok n e -> set_index s caller e name k v = Ok s' -> ext n s s'.
Proof.
  unfold set_index; intros H Hst E.
  destruct (clone zero s (v_list (env_get s caller e name))) as [s1 l] eqn:H1.
  destruct (ext_clone n _ _ _ _ H H1) as [A1 S1].
  bind_inv E. destruct x as [s2 l2].
  assert (ext n s1 s2) as A2.
  { destruct (Nat.ltb k (s_len l)).
    - bind_inv E0. inversion E0; subst. eapply ext_store; eauto. eapply ext_len; eauto.
    - inversion E0. eapply ext_go_append; eauto. eapply ext_len; eauto. }
  pose proof (ext_env_set n _ _ _ _ _ _ (ext_len _ _ _ A2) Hst E) as A3.
  (try ext_chain; auto).
Qed.

Lemma ext_append_scalar n caller e name v s s' :
  n <= length (hp s) -> stack_ok n e -> append_scalar s caller e name v = Ok s' -> ext n s s'.
Proof.
  unfold append_scalar; intros H Hst E.
  destruct (clone zero s (v_list (env_get s caller e name))) as [s1 l] eqn:H1.
  destruct (ext_clone n _ _ _ _ H H1) as [A1 S1].
  bind_inv E. destruct x as [s2 l2].
  assert (ext n s1 s2) as A2.
  { destruct (elems s1 l) as [|[| old| | | | |] r].
    all: try (inversion E0; eapply ext_go_append; eauto; eapply ext_len; eauto).
    bind_inv E0. inversion E0; subst. eapply ext_store; eauto. eapply ext_len; eauto. }
  pose proof (ext_env_set n _ _ _ _ _ _ (ext_len _ _ _ A2) Hst E) as A3.
  (try ext_chain; auto).
Qed.

(* ---------------- 7. all operation sequences ---------------- *)
Section RunP.
Variable splitter : list (option str) -> option (list newpart).
Variable seq_values : list str -> list str.
Variable expand_word : state -> loc -> list str.
Variable fuel : nat.

Definition inv (n : nat) (r : run_state) : Prop :=
  n <= length (hp (rs_heap r)) /\ stack_ok n (rs_env r).

Lemma exec_op_ext n o r r' :
  inv n r -> exec_op splitter seq_values expand_word fuel o r = Ok r' ->
  ext n (rs_heap r) (rs_heap r') /\ inv n r'.
Proof.
  intros [H Hst] E. destruct o; unfold exec_op in E; cbv beta iota zeta in E.
  - destruct (alias_def (rs_heap r) (rs_alias r) name ws blank) as [s1 al] eqn:H1.
    inversion E; subst; simpl. pose proof (ext_alias_def n _ _ _ _ _ _ _ H H1) as A.
    split; auto. split; auto. eapply ext_len; eauto.
  - bind_inv E. bind_inv E. destruct x0 as [s1 args1]. bind_inv E. inversion E; subst; simpl.
    pose proof (ext_alias_loop n _ _ _ _ _ _ _ _ H E1) as A1.
    pose proof (ext_fields_all splitter seq_values n _ _ _ _ (ext_len _ _ _ A1) E2) as A2.
    split; [(try ext_chain; auto)|]. split; auto. eapply ext_len; eauto.
  - bind_inv E. inversion E; subst; simpl.
    pose proof (ext_fields_one splitter seq_values n _ _ _ _ H E0) as A1.
    split; auto. split; auto. eapply ext_len; eauto.
  - break_obj E.
    bind_inv E. inversion E; subst; simpl. destruct x as [s1 l]; simpl.
    pose proof (ext_flatten_assigns splitter seq_values expand_word n _ _ _ _ _ H E0) as A1.
    split; auto. split; auto. eapply ext_len; eauto.
  - bind_inv E. inversion E; subst; simpl.
    pose proof (ext_hdoc_dash n _ _ _ H E0) as A1.
    split; auto. split; auto. eapply ext_len; eauto.
  - destruct (halloc (rs_heap r) []) as [s1 l] eqn:H1.
    pose proof (ext_halloc n (rs_heap r) [] H) as [A1 C1]; rewrite H1 in A1, C1; simpl in A1, C1.
    inversion E; subst; simpl. split; auto. split. eapply ext_len; eauto.
    destruct Hst as (Hne & Hall & Hlast). unfold stack_ok; simpl. split; [congruence|]. split.
    + constructor; auto; simpl; lia.
    + simpl. destruct (rs_env r); [congruence | exact Hlast].
  - destruct (halloc (rs_heap r) []) as [s1 l] eqn:H1.
    pose proof (ext_halloc n (rs_heap r) [] H) as [A1 C1]; rewrite H1 in A1, C1; simpl in A1, C1.
    inversion E; subst; simpl. split; auto. split. eapply ext_len; eauto.
    destruct Hst as (Hne & Hall & Hlast). unfold stack_ok; simpl. split; [congruence|]. split.
    + constructor; auto; simpl; lia.
    + simpl. destruct (rs_env r); [congruence | exact Hlast].
  - destruct (rs_env r) as [|p [|q e]] eqn:He; inversion E; subst; simpl.
    + split; [apply ext_refl; auto|]. split; auto. rewrite He; auto.
    + split; [apply ext_refl; auto|]. split; auto. rewrite He; auto.
    + split; [apply ext_refl; auto|]. split; auto.
      destruct Hst as (Hne & Hall & Hlast). inversion Hall; subst.
      unfold stack_ok; simpl. split; [congruence|]. split; auto.
  - destruct (env_set (rs_heap r) (rs_caller r) (rs_env r) name v) eqn:H1; inversion E; subst; simpl.
    + pose proof (ext_env_set n _ _ _ _ _ _ H Hst H1) as A1.
      split; auto. split; auto. eapply ext_len; eauto.
    + split; [apply ext_refl; auto | split; auto].
  - destruct (set_index (rs_heap r) (rs_caller r) (rs_env r) name k v) eqn:H1; inversion E; subst; simpl.
    + pose proof (ext_set_index n _ _ _ _ _ _ _ H Hst H1) as A1.
      split; auto. split; auto. eapply ext_len; eauto.
    + split; [apply ext_refl; auto | split; auto].
  - destruct (append_scalar (rs_heap r) (rs_caller r) (rs_env r) name v) eqn:H1; inversion E; subst; simpl.
    + pose proof (ext_append_scalar n _ _ _ _ _ _ H Hst H1) as A1.
      split; auto. split; auto. eapply ext_len; eauto.
    + split; [apply ext_refl; auto | split; auto].
Qed.

Lemma exec_ops_ext n : forall os r r',
  inv n r -> exec_ops splitter seq_values expand_word fuel os r = Ok r' ->
  ext n (rs_heap r) (rs_heap r') /\ inv n r'.
Proof.
  induction os; intros r r' Hi E; simpl in E.
  - inversion E; subst. split; auto. apply ext_refl. apply Hi.
  - bind_inv E. destruct (exec_op_ext n _ _ _ Hi E0) as [A1 I1].
    destruct (IHos _ _ I1 E) as [A2 I2]. split; (try ext_chain; auto).
Qed.

Local Transparent halloc.

Lemma start_inv h0 caller : inv (length h0) (start h0 caller).
Proof.
  unfold start, inv, halloc; simpl. split.
  - rewrite app_length; simpl; lia.
  - repeat split; try congruence. constructor; simpl; auto.
Qed.

Theorem run_region_same h0 caller os r' :
  exec_ops splitter seq_values expand_word fuel os (start h0 caller) = Ok r' ->
  region_same (length h0) h0 (hp (rs_heap r')).
Proof.
  intros E. destruct (exec_ops_ext _ _ _ _ (start_inv h0 caller) E) as [(_ & _ & Hs & _) _].
  intros l Hl. rewrite Hs; auto. unfold start, halloc; simpl. apply app_nth1; auto.
Qed.

Theorem run_no_store_below h0 caller os r' :
  exec_ops splitter seq_values expand_word fuel os (start h0 caller) = Ok r' ->
  no_store_below (length h0) (wlog (rs_heap r')).
Proof.
  intros E. destruct (exec_ops_ext _ _ _ _ (start_inv h0 caller) E) as [(_ & _ & _ & new & Hn & Hf) _].
  unfold start, halloc in Hn; simpl in Hn. rewrite app_nil_r in Hn. rewrite Hn. exact Hf.
Qed.

(* the caller's Environ is one of the objects that exist before the run *)
Theorem run_env_never_written h0 caller os r' :
  caller < length h0 ->
  exec_ops splitter seq_values expand_word fuel os (start h0 caller) = Ok r' ->
  obj (rs_heap r') caller = nth caller h0 [] /\
  forall w, In w (wlog (rs_heap r')) -> fst (fst w) <> caller.
Proof.
  intros Hc E. split.
  - Local Transparent obj. unfold obj. apply (run_region_same _ _ _ _ E); auto.
  - intros w Hw. pose proof (run_no_store_below _ _ _ _ E) as Hf.
    unfold no_store_below in Hf. rewrite Forall_forall in Hf. specialize (Hf _ Hw). simpl in Hf. unfold loc in *. intro Heq. rewrite Heq in Hf. lia.
Qed.

End RunP.
