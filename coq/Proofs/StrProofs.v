(* Proofs/StrProofs.v — lemmas about Base/Str.v (cmp_str is a strict total order, cut/index facts). *)
From Verif Require Import Base.Str.

Lemma cmp_str_refl : forall a, cmp_str a a = Eq.
Proof. induction a as [|x a IH]; simpl; [reflexivity|]. rewrite N.compare_refl. exact IH. Qed.

Lemma cmp_str_eq : forall a b, cmp_str a b = Eq -> a = b.
Proof.
  induction a as [|x a IH]; destruct b as [|y b]; simpl; intros H; try discriminate; [reflexivity|].
  destruct (N.compare x y) eqn:E; try discriminate.
  apply N.compare_eq in E. subst. f_equal. apply IH. exact H.
Qed.

Lemma cmp_str_antisym : forall a b, cmp_str b a = CompOpp (cmp_str a b).
Proof.
  induction a as [|x a IH]; destruct b as [|y b]; simpl; try reflexivity.
  rewrite (N.compare_antisym x y). destruct (N.compare x y); simpl; auto.
Qed.

Lemma cmp_str_lt_gt : forall a b, cmp_str a b = Lt <-> cmp_str b a = Gt.
Proof. intros a b. rewrite (cmp_str_antisym a b). destruct (cmp_str a b); simpl; split; congruence. Qed.

Lemma cmp_str_lt_trans : forall a b c, cmp_str a b = Lt -> cmp_str b c = Lt -> cmp_str a c = Lt.
Proof.
  induction a as [|x a IH]; destruct b as [|y b]; destruct c as [|z c]; simpl; intros H1 H2; try discriminate; try reflexivity.
  destruct (N.compare x y) eqn:E1; try discriminate.
  - apply N.compare_eq in E1. subst y.
    destruct (N.compare x z) eqn:E2; try discriminate; [|reflexivity].
    eapply IH; eassumption.
  - destruct (N.compare y z) eqn:E2; try discriminate.
    + apply N.compare_eq in E2. subst z. rewrite E1. reflexivity.
    + assert (E3 : N.compare x z = Lt).
      { exact (N.lt_trans x y z E1 E2). }
      rewrite E3. reflexivity.
Qed.

(* a <= b  (not Gt), b < c  ->  a < c ; and a < b, b <= c -> a < c *)
Lemma cmp_str_le_lt_trans : forall a b c, cmp_str a b <> Gt -> cmp_str b c = Lt -> cmp_str a c = Lt.
Proof.
  intros a b c H1 H2. destruct (cmp_str a b) eqn:E; [|eapply cmp_str_lt_trans; eassumption|congruence].
  apply cmp_str_eq in E. subst. exact H2.
Qed.

Lemma cmp_str_lt_le_trans : forall a b c, cmp_str a b = Lt -> cmp_str b c <> Gt -> cmp_str a c = Lt.
Proof.
  intros a b c H1 H2. destruct (cmp_str b c) eqn:E; [|eapply cmp_str_lt_trans; eassumption|congruence].
  apply cmp_str_eq in E. subst. exact H1.
Qed.

Lemma cmp_str_le_trans : forall a b c, cmp_str a b <> Gt -> cmp_str b c <> Gt -> cmp_str a c <> Gt.
Proof.
  intros a b c H1 H2. destruct (cmp_str b c) eqn:E; [|rewrite (cmp_str_le_lt_trans a b c H1 E); congruence|congruence].
  apply cmp_str_eq in E. subst. exact H1.
Qed.

Lemma str_eqb_true : forall a b, str_eqb a b = true <-> a = b.
Proof.
  intros a b; unfold str_eqb; split.
  - destruct (cmp_str a b) eqn:E; try discriminate. intros _. apply cmp_str_eq. exact E.
  - intros ->. rewrite cmp_str_refl. reflexivity.
Qed.

Lemma str_eqb_refl : forall a, str_eqb a a = true.
Proof. intros. apply str_eqb_true. reflexivity. Qed.

Lemma cmp_str_nil_l : forall a, cmp_str [] a <> Gt.
Proof. destruct a; simpl; congruence. Qed.

(* cut_byte / index_byte *)
Lemma cut_index : forall c s b a, cut_byte c s = Some (b, a) ->
  index_byte c s = Some (length b) /\ firstn (length b) s = b /\ s = b ++ c :: a /\ index_byte c b = None.
Proof.
  induction s as [|x s IH]; simpl; intros b a H; [discriminate|].
  destruct (N.eqb x c) eqn:E.
  - inversion H; subst. apply N.eqb_eq in E. subst. simpl. auto.
  - destruct (cut_byte c s) as [[b' a']|] eqn:Hc; [|discriminate].
    inversion H; subst. destruct (IH b' a eq_refl) as (H1 & H2 & H3 & H4).
    rewrite H1. simpl. rewrite E, H2, H4. repeat split; auto. f_equal. exact H3.
Qed.

Lemma cut_none_index : forall c s, cut_byte c s = None -> index_byte c s = None.
Proof.
  induction s as [|x s IH]; simpl; intros H; [reflexivity|].
  destruct (N.eqb x c); [discriminate|].
  destruct (cut_byte c s) as [[b a]|]; [discriminate|]. rewrite IH; reflexivity.
Qed.
