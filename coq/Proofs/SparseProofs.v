(* Proofs/SparseProofs.v — proofs about Vars/Sparse.v: the reference map is a finite map; binary search;
   SetIndexedElem/DeleteIndexedElem/lookups/slicing refine the map operations and keep the representation
   invariant; every interpreter operation refines its bash rule; lifted to all histories. *)
From Coq Require Import ZifyNat ZifyBool ZifyN.
From Verif Require Import Base.Str Vars.Sparse.
Open Scope Z_scope.

(* ================================================================ A. the reference map is a finite map *)

Definition m_wf (lo : Z) (m : smap) : Prop := sorted_from lo (map fst m).

Lemma sorted_from_weaken : forall ix lo lo', lo' <= lo -> sorted_from lo ix -> sorted_from lo' ix.
Proof. destruct ix as [|x r]; simpl; intros; [exact I|]. split; [lia|tauto]. Qed.

Lemma sorted_from_tail : forall x r lo, sorted_from lo (x :: r) -> sorted_from lo r.
Proof. simpl. intros x r lo [H1 H2]. eapply sorted_from_weaken; [|exact H2]. lia. Qed.

Lemma m_get_set_same : forall k v m, m_get k (m_set k v m) = Some v.
Proof.
  induction m as [|[k' v'] r IH]; simpl.
  - rewrite Z.eqb_refl. reflexivity.
  - destruct (k' <? k) eqn:E1; simpl.
    + destruct (k =? k') eqn:E2; [lia|exact IH].
    + destruct (k' =? k) eqn:E2; simpl; rewrite Z.eqb_refl; reflexivity.
Qed.

Lemma m_get_set_other : forall k k' v m, k' <> k -> m_get k' (m_set k v m) = m_get k' m.
Proof.
  induction m as [|[k0 v0] r IH]; intros Hne; simpl.
  - destruct (k' =? k) eqn:E; [lia|reflexivity].
  - destruct (k0 <? k) eqn:E1; simpl.
    + destruct (k' =? k0); [reflexivity|apply IH; exact Hne].
    + destruct (k0 =? k) eqn:E2; simpl.
      * destruct (k' =? k) eqn:E3; [lia|]. destruct (k' =? k0) eqn:E4; [lia|reflexivity].
      * destruct (k' =? k) eqn:E3; [lia|reflexivity].
Qed.

Lemma m_get_above : forall k m lo, m_wf lo m -> k < lo -> m_get k m = None.
Proof.
  induction m as [|[k0 v0] r IH]; intros lo Hwf Hlt; simpl; [reflexivity|].
  destruct Hwf as [H1 H2]. simpl in H1. destruct (k =? k0) eqn:E; [lia|].
  apply (IH (k0 + 1)); [exact H2|lia].
Qed.

Lemma m_get_del_same : forall k m lo, m_wf lo m -> m_get k (m_del k m) = None.
Proof.
  induction m as [|[k0 v0] r IH]; intros lo Hwf; simpl; [reflexivity|].
  destruct Hwf as [H1 H2]. simpl in H1.
  destruct (k0 <? k) eqn:E1; simpl.
  - destruct (k =? k0) eqn:E2; [lia|]. apply (IH (k0 + 1)). exact H2.
  - destruct (k0 =? k) eqn:E2.
    + apply (m_get_above k r (k0 + 1)); [exact H2|lia].
    + simpl. destruct (k =? k0) eqn:E3; [lia|]. apply (m_get_above k r (k0 + 1)); [exact H2|lia].
Qed.

Lemma m_get_del_other : forall k k' m, k' <> k -> m_get k' (m_del k m) = m_get k' m.
Proof.
  induction m as [|[k0 v0] r IH]; intros Hne; simpl; [reflexivity|].
  destruct (k0 <? k) eqn:E1; simpl.
  - destruct (k' =? k0); [reflexivity|apply IH; exact Hne].
  - destruct (k0 =? k) eqn:E2; simpl; [|reflexivity].
    destruct (k' =? k0) eqn:E3; [lia|reflexivity].
Qed.

Lemma m_set_wf : forall k v m lo, m_wf lo m -> lo <= k -> m_wf lo (m_set k v m).
Proof.
  unfold m_wf. induction m as [|[k0 v0] r IH]; intros lo Hwf Hlo; simpl.
  - split; [lia|exact I].
  - destruct Hwf as [H1 H2]. simpl in H1.
    destruct (k0 <? k) eqn:E1; simpl.
    + split; [exact H1|]. apply IH; [exact H2|lia].
    + destruct (k0 =? k) eqn:E2; simpl.
      * split; [lia|]. replace (k + 1) with (k0 + 1) by lia. exact H2.
      * split; [lia|]. split; [lia|exact H2].
Qed.

Lemma m_del_wf : forall k m lo, m_wf lo m -> m_wf lo (m_del k m).
Proof.
  unfold m_wf. induction m as [|[k0 v0] r IH]; intros lo Hwf; simpl; [exact I|].
  destruct Hwf as [H1 H2]. simpl in H1.
  destruct (k0 <? k) eqn:E1; simpl.
  - split; [exact H1|]. apply IH. exact H2.
  - destruct (k0 =? k) eqn:E2; simpl.
    + simpl in H2. eapply sorted_from_weaken; [|exact H2]. lia.
    + split; assumption.
Qed.

Lemma m_keys_get : forall k m, In k (m_keys m) <-> m_get k m <> None.
Proof.
  induction m as [|[k0 v0] r IH]; simpl.
  - split; [tauto|congruence].
  - destruct (k =? k0) eqn:E.
    + split; [congruence|]. intros _. left. lia.
    + rewrite <- IH. split; [intros [H|H]; [lia|exact H]|tauto].
Qed.

(* two well-formed maps with the same lookups are the same list: the reference model is canonical *)
Lemma m_ext : forall m1 m2 lo, m_wf lo m1 -> m_wf lo m2 -> (forall k, m_get k m1 = m_get k m2) -> m1 = m2.
Proof.
  induction m1 as [|[k1 v1] r1 IH]; intros m2 lo W1 W2 H.
  - destruct m2 as [|[k2 v2] r2]; [reflexivity|]. specialize (H k2). simpl in H. rewrite Z.eqb_refl in H. discriminate.
  - destruct m2 as [|[k2 v2] r2].
    + specialize (H k1). simpl in H. rewrite Z.eqb_refl in H. discriminate.
    + destruct W1 as [A1 A2], W2 as [B1 B2]. simpl in A1, B1.
      assert (k1 = k2).
      { destruct (Z.lt_trichotomy k1 k2) as [L|[L|L]]; [|exact L|].
        - pose proof (H k1) as Hk. simpl in Hk. rewrite Z.eqb_refl in Hk.
          destruct (k1 =? k2) eqn:E; [lia|]. rewrite (m_get_above k1 r2 (k2 + 1)) in Hk; [discriminate|exact B2|lia].
        - pose proof (H k2) as Hk. simpl in Hk. rewrite Z.eqb_refl in Hk.
          destruct (k2 =? k1) eqn:E; [lia|]. rewrite (m_get_above k2 r1 (k1 + 1)) in Hk; [discriminate|exact A2|lia]. }
      subst k2. pose proof (H k1) as Hk. simpl in Hk. rewrite Z.eqb_refl in Hk. inversion Hk; subst v2.
      f_equal. apply (IH r2 (k1 + 1)); [exact A2|exact B2|].
      intros k. specialize (H k). simpl in H. destruct (k =? k1) eqn:E; [|exact H].
      rewrite (m_get_above k r1 (k1 + 1)), (m_get_above k r2 (k1 + 1)); try assumption; try lia. reflexivity.
Qed.

(* ================================================================ B1. binary search *)

(* number of leading elements below k: where BinarySearch lands on a sorted slice *)
Fixpoint lb (ix : list Z) (k : Z) : nat :=
  match ix with [] => O | x :: r => if x <? k then S (lb r k) else O end.

Definition found (ix : list Z) (k : Z) : bool :=
  match nth_error ix (lb ix k) with Some e => e =? k | None => false end.

Lemma lb_le_length : forall ix k, (lb ix k <= length ix)%nat.
Proof. induction ix as [|x r IH]; intros k; simpl; [lia|]. destruct (x <? k); [specialize (IH k)|]; lia. Qed.

Lemma sorted_nth_ge : forall r lo h e, sorted_from lo r -> nth_error r h = Some e -> lo <= e.
Proof.
  induction r as [|x r IH]; intros lo h e Hs Hn; [destruct h; discriminate|].
  destruct Hs as [H1 H2]. destruct h as [|h]; simpl in Hn.
  - inversion Hn; subst. exact H1.
  - specialize (IH _ _ _ H2 Hn). lia.
Qed.

Lemma sorted_lb_split : forall ix lo k h e, sorted_from lo ix -> nth_error ix h = Some e ->
  ((e <? k) = true <-> (h < lb ix k)%nat).
Proof.
  induction ix as [|x r IH]; intros lo k h e Hs Hn; [destruct h; discriminate|].
  destruct Hs as [H1 H2]. simpl lb. destruct h as [|h]; simpl in Hn.
  - inversion Hn; subst. destruct (e <? k); split; intros; try lia; discriminate.
  - destruct (x <? k) eqn:E.
    + rewrite (IH _ k h e H2 Hn). lia.
    + pose proof (sorted_nth_ge _ _ _ _ H2 Hn). split; intros; lia.
Qed.

Lemma div2_bounds : forall i j, (i < j)%nat -> (i <= Nat.div2 (i + j) < j)%nat.
Proof.
  intros i j H. rewrite Nat.div2_div. split.
  - apply Nat.div_le_lower_bound; lia.
  - apply Nat.div_lt_upper_bound; lia.
Qed.

Lemma bsearch_loop_correct : forall ix lo k, sorted_from lo ix ->
  forall fuel i j, (i <= lb ix k)%nat -> (lb ix k <= j)%nat -> (j <= length ix)%nat -> (j - i < fuel)%nat ->
  bsearch_loop fuel ix k i j = Ok (lb ix k).
Proof.
  intros ix lo k Hs. induction fuel as [|fuel IH]; intros i j Hi Hj Hjl Hf; [lia|].
  simpl. destruct (Nat.ltb i j) eqn:Elt.
  - apply Nat.ltb_lt in Elt. pose proof (div2_bounds i j Elt) as [Hb1 Hb2].
    set (h := Nat.div2 (i + j)) in *.
    destruct (nth_error ix h) as [e|] eqn:En.
    2:{ apply nth_error_None in En. lia. }
    pose proof (sorted_lb_split ix lo k h e Hs En) as Hsp.
    destruct (e <? k) eqn:Ef.
    + apply IH; try lia.
    + apply IH; try lia.
  - apply Nat.ltb_ge in Elt. f_equal. lia.
Qed.

Lemma bsearch_sorted : forall ix lo k, sorted_from lo ix -> bsearch ix k = Ok (lb ix k, found ix k).
Proof.
  intros ix lo k Hs. unfold bsearch.
  rewrite (bsearch_loop_correct ix lo k Hs); try lia.
  - reflexivity.
  - apply lb_le_length.
Qed.

(* ================================================================ B4. iota *)

Lemma iota_from_length : forall n s, length (iota_from s n) = n.
Proof. induction n; intros; simpl; [reflexivity|]. rewrite IHn. reflexivity. Qed.

Lemma iota_from_sorted : forall n s lo, lo <= s -> sorted_from lo (iota_from s n).
Proof. induction n; intros; simpl; [exact I|]. split; [lia|]. apply IHn. lia. Qed.

Lemma iota_from_snoc : forall n s, iota_from s (S n) = iota_from s n ++ [s + Z.of_nat n].
Proof.
  induction n; intros s.
  - simpl. f_equal. lia.
  - change (iota_from s (S (S n))) with (s :: iota_from (s + 1) (S n)). rewrite IHn. simpl. do 3 f_equal. lia.
Qed.

Lemma iota_from_nth : forall n s i, (i < n)%nat -> nth_error (iota_from s n) i = Some (s + Z.of_nat i).
Proof.
  induction n; intros s i Hi; [lia|]. destruct i as [|i]; simpl.
  - f_equal. lia.
  - rewrite IHn by lia. f_equal. lia.
Qed.

Lemma iota_from_lb : forall n s k, s <= k -> lb (iota_from s n) k = Nat.min (Z.to_nat (k - s)) n.
Proof.
  induction n; intros s k Hk; simpl; [lia|].
  destruct (s <? k) eqn:E.
  - rewrite IHn by lia. lia.
  - lia.
Qed.

Lemma iota_from_lb_below : forall n s k, k <= s -> lb (iota_from s n) k = O.
Proof. destruct n; intros; simpl; [reflexivity|]. destruct (s <? k) eqn:E; [lia|reflexivity]. Qed.

Lemma is_iota_from_eq : forall ix s, is_iota_from s ix = true -> ix = iota_from s (length ix).
Proof.
  induction ix as [|x r IH]; intros s H; [reflexivity|].
  simpl in H. destruct (x =? s) eqn:E; [|discriminate].
  simpl. f_equal; [lia|]. apply IH. exact H.
Qed.

Lemma is_iota_from_iota : forall n s, is_iota_from s (iota_from s n) = true.
Proof. induction n; intros; simpl; [reflexivity|]. rewrite Z.eqb_refl. apply IHn. Qed.

(* ================================================================ B2. list operations vs map operations *)

Lemma upd_length : forall A (l : list A) n v l', upd l n v = Ok l' -> length l' = length l.
Proof.
  induction l as [|x r IH]; intros n v l' H; [destruct n; discriminate|].
  destruct n as [|n]; simpl in H.
  - inversion H. reflexivity.
  - destruct (upd r n v) eqn:E; try discriminate. inversion H. simpl. f_equal. eapply IH. exact E.
Qed.

(* set, index present *)
Lemma set_found : forall ix l k v, length ix = length l -> found ix k = true ->
  exists l', upd l (lb ix k) v = Ok l' /\ combine ix l' = m_set k v (combine ix l).
Proof.
  unfold found. induction ix as [|x r IH]; intros l k v Hlen Hf; [discriminate|].
  destruct l as [|y l]; [discriminate|]. simpl in Hlen. simpl lb in *.
  destruct (x <? k) eqn:E.
  - simpl in Hf. destruct (IH l k v) as (l' & H1 & H2); [lia|exact Hf|].
    exists (y :: l'). simpl. rewrite H1, E, H2. split; reflexivity.
  - simpl in Hf. exists (v :: l). simpl. rewrite E, Hf. split; [reflexivity|]. f_equal. f_equal. lia.
Qed.

(* set, index absent *)
Lemma set_not_found : forall ix l k v, length ix = length l -> found ix k = false ->
  exists l' ix', insert_at (lb ix k) v l = Ok l' /\ insert_at (lb ix k) k ix = Ok ix' /\
                 length ix' = length l' /\ combine ix' l' = m_set k v (combine ix l) /\
                 (forall lo, sorted_from lo ix -> lo <= k -> sorted_from lo ix').
Proof.
  unfold found. induction ix as [|x r IH]; intros l k v Hlen Hf.
  - destruct l; [|discriminate]. exists [v], [k]. simpl. repeat split; auto.
  - destruct l as [|y l]; [discriminate|]. simpl in Hlen. simpl lb in *.
    destruct (x <? k) eqn:E.
    + simpl in Hf. destruct (IH l k v) as (l' & ix' & H1 & H2 & H3 & H4 & H5); [lia|exact Hf|].
      exists (y :: l'), (x :: ix'). simpl. rewrite H1, H2, E, H4. repeat split; auto.
      * simpl in H. tauto.
      * simpl in H. apply H5; [tauto|lia].
    + simpl in Hf. exists (v :: y :: l), (k :: x :: r). simpl. rewrite E, Hf. repeat split; auto; simpl in H; try lia; tauto.
Qed.

Lemma del_found : forall ix l k, length ix = length l -> found ix k = true ->
  exists l' ix', delete_at (lb ix k) l = Ok l' /\ delete_at (lb ix k) ix = Ok ix' /\
                 length ix' = length l' /\ combine ix' l' = m_del k (combine ix l) /\
                 (forall lo, sorted_from lo ix -> sorted_from lo ix').
Proof.
  unfold found. induction ix as [|x r IH]; intros l k Hlen Hf; [discriminate|].
  destruct l as [|y l]; [discriminate|]. simpl in Hlen. simpl lb in *.
  destruct (x <? k) eqn:E.
  - simpl in Hf. destruct (IH l k) as (l' & ix' & H1 & H2 & H3 & H4 & H5); [lia|exact Hf|].
    exists (y :: l'), (x :: ix'). simpl. rewrite H1, H2, E, H4. repeat split; auto.
    + simpl in H. tauto.
    + simpl in H. apply H5. tauto.
  - simpl in Hf. exists l, r. simpl. rewrite E, Hf. repeat split; auto; try lia.
    intros lo Hs. eapply sorted_from_tail. exact Hs.
Qed.

Lemma del_not_found : forall ix l k lo, length ix = length l -> sorted_from lo ix -> found ix k = false ->
  m_del k (combine ix l) = combine ix l.
Proof.
  unfold found. induction ix as [|x r IH]; intros l k lo Hlen Hs Hf; [reflexivity|].
  destruct l as [|y l]; [reflexivity|]. simpl in Hlen. simpl lb in *. simpl.
  destruct (x <? k) eqn:E.
  - simpl in Hf. f_equal. apply (IH l k (x + 1)); [lia|simpl in Hs; tauto|exact Hf].
  - simpl in Hf. rewrite Hf. reflexivity.
Qed.

Lemma get_above : forall ix l k lo, sorted_from lo ix -> k < lo -> m_get k (combine ix l) = None.
Proof.
  induction ix as [|x r IH]; intros l k lo Hs Hk; [reflexivity|].
  destruct l as [|y l]; [reflexivity|]. simpl. destruct Hs as [H1 H2].
  destruct (k =? x) eqn:E; [lia|]. apply (IH l k (x + 1)); [exact H2|lia].
Qed.

Lemma get_sorted : forall ix l k lo, length ix = length l -> sorted_from lo ix ->
  m_get k (combine ix l) = if found ix k then nth_error l (lb ix k) else None.
Proof.
  unfold found. induction ix as [|x r IH]; intros l k lo Hlen Hs; [reflexivity|].
  destruct l as [|y l]; [discriminate|]. simpl in Hlen. destruct Hs as [H1 H2]. simpl lb. simpl m_get.
  destruct (x <? k) eqn:E.
  - destruct (k =? x) eqn:E2; [lia|]. simpl. apply (IH l k (x + 1)); [lia|exact H2].
  - simpl. destruct (k =? x) eqn:E2.
    + replace (x =? k) with true by lia. reflexivity.
    + replace (x =? k) with false by lia. apply (get_above r l k (x + 1)); [exact H2|lia].
Qed.

Lemma combine_keys : forall (ix : list Z) (l : list str), length ix = length l -> map fst (combine ix l) = ix.
Proof.
  induction ix as [|x r IH]; intros l H; [reflexivity|]. destruct l; [discriminate|]. simpl. f_equal. apply IH. simpl in H. lia.
Qed.

Lemma combine_vals : forall (ix : list Z) (l : list str), length ix = length l -> map snd (combine ix l) = l.
Proof.
  induction ix as [|x r IH]; intros l H; destruct l; try discriminate; [reflexivity|]. simpl. f_equal. apply IH. simpl in H. lia.
Qed.

Lemma insert_at_end : forall A (l : list A) v, insert_at (length l) v l = Ok (l ++ [v]).
Proof. induction l; intros; simpl; [reflexivity|]. rewrite IHl. reflexivity. Qed.

Lemma delete_at_last : forall A (l : list A) n, length l = S n -> delete_at n l = Ok (firstn n l).
Proof.
  induction l as [|x r IH]; intros n H; [discriminate|]. simpl in H.
  destruct n as [|n]; simpl.
  - destruct r; [reflexivity|discriminate].
  - rewrite IH by lia. reflexivity.
Qed.

Lemma firstn_iota : forall n s m, (m <= n)%nat -> firstn m (iota_from s n) = iota_from s m.
Proof.
  induction n; intros s m H; destruct m; simpl; try reflexivity; try lia. f_equal. apply IHn. lia.
Qed.

(* ================================================================ B5. SetIndexedElem / DeleteIndexedElem refine m_set / m_del *)

Definition idx_of (a : arr) : list Z :=
  match a_idx a with Some ix => ix | None => iota (length (a_list a)) end.

Lemma abs_idx : forall a, abs a = combine (idx_of a) (a_list a).
Proof. reflexivity. Qed.

Lemma inv_idx : forall a, Inv a -> length (idx_of a) = length (a_list a) /\ sorted_from 0 (idx_of a).
Proof.
  unfold Inv, idx_of. intros a H. destruct (a_idx a) as [ix|].
  - tauto.
  - unfold iota. rewrite iota_from_length. split; [reflexivity|]. apply iota_from_sorted. lia.
Qed.

(* wrapping a well-formed index list with CanonicalIndexes *)
Lemma canonical_ok : forall l ix, length ix = length l -> sorted_from 0 ix ->
  Inv (mkArr l (canonical ix)) /\ abs (mkArr l (canonical ix)) = combine ix l.
Proof.
  intros l ix Hlen Hs. unfold canonical. destruct (is_iota_from 0 ix) eqn:E.
  - split; [exact I|]. unfold abs. simpl. apply is_iota_from_eq in E. unfold iota. rewrite <- Hlen, <- E. reflexivity.
  - split; [|reflexivity]. unfold Inv. simpl. auto.
Qed.

Lemma set_sparse_ok : forall l ix k v, length ix = length l -> sorted_from 0 ix -> 0 <= k ->
  (found ix k = true -> forall l', length l' = length l -> Inv (mkArr l' (Some ix))) ->
  exists a', set_sparse l ix k v = Ok a' /\ Inv a' /\ abs a' = m_set k v (combine ix l).
Proof.
  intros l ix k v Hlen Hs Hk Hinv. unfold set_sparse. rewrite (bsearch_sorted ix 0 k Hs).
  destruct (found ix k) eqn:Ef.
  - destruct (set_found ix l k v Hlen Ef) as (l' & H1 & H2). rewrite H1.
    exists (mkArr l' (Some ix)). split; [reflexivity|]. split; [|exact H2].
    apply Hinv; [reflexivity|]. eapply upd_length. exact H1.
  - destruct (set_not_found ix l k v Hlen Ef) as (l' & ix' & H1 & H2 & H3 & H4 & H5). rewrite H1, H2.
    exists (mkArr l' (canonical ix')). split; [reflexivity|].
    destruct (canonical_ok l' ix' H3 (H5 0 Hs Hk)) as [C1 C2]. split; [exact C1|]. rewrite C2. exact H4.
Qed.

Theorem set_elem_ok : forall a k v, Inv a -> 0 <= k ->
  exists a', set_elem a k v = Ok a' /\ Inv a' /\ abs a' = m_set k v (abs a).
Proof.
  intros [l oi] k v HI Hk. unfold set_elem, abs. simpl a_idx. simpl a_list.
  destruct oi as [ix|].
  - destruct HI as (H1 & H2 & H3). simpl in *.
    apply set_sparse_ok; auto. intros _ l' Hl'. unfold Inv. simpl. repeat split; auto. lia.
  - clear HI. set (n := length l). unfold len. fold n.
    assert (Hlen : length (iota n) = length l) by (unfold iota; rewrite iota_from_length; reflexivity).
    assert (Hs : sorted_from 0 (iota n)) by (apply iota_from_sorted; lia).
    destruct (k <? Z.of_nat n) eqn:E1.
    + replace (k <? 0) with false by lia.
      assert (Hlb : lb (iota n) k = Z.to_nat k) by (unfold iota; rewrite iota_from_lb by lia; lia).
      assert (Hf : found (iota n) k = true).
      { unfold found. rewrite Hlb. unfold iota. rewrite iota_from_nth by lia. lia. }
      destruct (set_found (iota n) l k v Hlen Hf) as (l' & H1 & H2). rewrite Hlb in H1. rewrite H1.
      exists (mkArr l' None). split; [reflexivity|]. split; [exact I|]. simpl.
      rewrite (upd_length _ _ _ _ _ H1). fold n. exact H2.
    + destruct (k =? Z.of_nat n) eqn:E2.
      * exists (mkArr (l ++ [v]) None). split; [reflexivity|]. split; [exact I|]. simpl.
        assert (Hlb : lb (iota n) k = n) by (unfold iota; rewrite iota_from_lb by lia; lia).
        assert (Hf : found (iota n) k = false).
        { unfold found. rewrite Hlb. replace (nth_error (iota n) n) with (@None Z); [reflexivity|].
          symmetry. apply nth_error_None. lia. }
        destruct (set_not_found (iota n) l k v Hlen Hf) as (l' & ix' & H1 & H2 & H3 & H4 & H5).
        rewrite <- H4. rewrite Hlb in H1, H2. unfold n in H1. rewrite insert_at_end in H1. inversion H1; subst l'.
        replace n with (length (iota n)) in H2 at 1 by lia. rewrite insert_at_end in H2. inversion H2; subst ix'.
        f_equal. rewrite app_length. simpl. replace (length l + 1)%nat with (S n) by lia.
        unfold iota. rewrite iota_from_snoc. do 2 f_equal. lia.
      * apply set_sparse_ok; auto. intros Hf. exfalso.
        assert (Hlb : lb (iota n) k = n) by (unfold iota; rewrite iota_from_lb by lia; lia).
        unfold found in Hf. rewrite Hlb in Hf.
        replace (nth_error (iota n) n) with (@None Z) in Hf; [discriminate|].
        symmetry. apply nth_error_None. lia.
Qed.

Lemma iota_found_below : forall n s k, k < s -> found (iota_from s n) k = false.
Proof.
  intros n s k H. unfold found. rewrite iota_from_lb_below by lia. destruct n; simpl; [reflexivity|]. lia.
Qed.

Lemma del_sparse_ok : forall l ix k, length ix = length l -> sorted_from 0 ix ->
  (found ix k = false -> Inv (mkArr l (Some ix))) ->
  exists a', del_sparse l ix k = Ok a' /\ Inv a' /\ abs a' = m_del k (combine ix l).
Proof.
  intros l ix k Hlen Hs Hinv. unfold del_sparse. rewrite (bsearch_sorted ix 0 k Hs).
  destruct (found ix k) eqn:Ef.
  - destruct (del_found ix l k Hlen Ef) as (l' & ix' & H1 & H2 & H3 & H4 & H5). rewrite H1, H2.
    exists (mkArr l' (canonical ix')). split; [reflexivity|].
    destruct (canonical_ok l' ix' H3 (H5 0 Hs)) as [C1 C2]. split; [exact C1|]. rewrite C2. exact H4.
  - exists (mkArr l (Some ix)). split; [reflexivity|]. split; [apply Hinv; reflexivity|].
    unfold abs. simpl. symmetry. eapply del_not_found; eauto.
Qed.

Theorem delete_elem_ok : forall a k, Inv a ->
  exists a', delete_elem a k = Ok a' /\ Inv a' /\ abs a' = m_del k (abs a).
Proof.
  intros [l oi] k HI. unfold delete_elem, abs. simpl a_idx. simpl a_list.
  destruct oi as [ix|].
  - destruct HI as (H1 & H2 & H3). simpl in *.
    apply del_sparse_ok; auto. intros _. unfold Inv. simpl. auto.
  - clear HI. set (n := length l). unfold len. fold n.
    assert (Hlen : length (iota n) = length l) by (unfold iota; rewrite iota_from_length; reflexivity).
    assert (Hs : sorted_from 0 (iota n)) by (apply iota_from_sorted; lia).
    destruct ((k <? 0) || (Z.of_nat n <=? k)) eqn:E1.
    + exists (mkArr l None). split; [reflexivity|]. split; [exact I|]. simpl. fold n.
      symmetry. apply (del_not_found (iota n) l k 0 Hlen Hs).
      destruct (k <? 0) eqn:E0; [|unfold found].
      * apply iota_found_below. lia.
      * assert (Hlb : lb (iota n) k = n) by (unfold iota; rewrite iota_from_lb by lia; lia).
        rewrite Hlb. replace (nth_error (iota n) n) with (@None Z); [reflexivity|].
        symmetry. apply nth_error_None. lia.
    + assert (Hlb : lb (iota n) k = Z.to_nat k) by (unfold iota; rewrite iota_from_lb by lia; lia).
      assert (Hf : found (iota n) k = true).
      { unfold found. rewrite Hlb. unfold iota. rewrite iota_from_nth by lia. lia. }
      destruct (k =? Z.of_nat n - 1) eqn:E2.
      * exists (mkArr (firstn (Z.to_nat k) l) None). split; [reflexivity|]. split; [exact I|]. simpl.
        destruct (del_found (iota n) l k Hlen Hf) as (l' & ix' & H1 & H2 & H3 & H4 & H5).
        rewrite <- H4. rewrite Hlb in H1, H2.
        rewrite delete_at_last in H1 by lia. inversion H1; subst l'.
        rewrite delete_at_last in H2 by lia. inversion H2; subst ix'.
        f_equal. rewrite firstn_length. unfold iota. rewrite firstn_iota by lia. f_equal. lia.
      * apply del_sparse_ok; auto. intros Hc. congruence.
Qed.

(* ================================================================ B7. lookups *)

Lemma dense_get : forall (l : list str) k, 0 <= k ->
  m_get k (combine (iota (length l)) l) = nth_error l (Z.to_nat k).
Proof.
  intros l k Hk. set (n := length l).
  assert (Hlen : length (iota n) = length l) by (unfold iota; rewrite iota_from_length; reflexivity).
  rewrite (get_sorted (iota n) l k 0 Hlen) by (apply iota_from_sorted; lia).
  unfold found, iota. rewrite iota_from_lb by lia. replace (k - 0) with k by lia.
  destruct (Z.to_nat k <? n)%nat eqn:E.
  - apply Nat.ltb_lt in E. rewrite Nat.min_l by lia. rewrite iota_from_nth by lia.
    replace (0 + Z.of_nat (Z.to_nat k) =? k) with true by lia. reflexivity.
  - apply Nat.ltb_ge in E. rewrite Nat.min_r by lia.
    replace (nth_error (iota_from 0 n) n) with (@None Z) by (symmetry; apply nth_error_None; rewrite iota_from_length; lia).
    symmetry. apply nth_error_None. unfold n in E. lia.
Qed.

Theorem indexed_val_ok : forall a i, Inv a -> 0 <= i -> indexed_val a i = Ok (m_get i (abs a)).
Proof.
  intros [l oi] i HI Hi. unfold indexed_val, abs. simpl a_idx. simpl a_list.
  destruct oi as [ix|].
  - destruct HI as (H1 & H2 & H3). simpl in *.
    rewrite (bsearch_sorted ix 0 i H2). rewrite (get_sorted ix l i 0 H1 H2).
    destruct (found ix i) eqn:Ef; [|reflexivity].
    destruct (nth_error l (lb ix i)) eqn:En; [reflexivity|].
    exfalso. apply nth_error_None in En. unfold found in Ef.
    destruct (nth_error ix (lb ix i)) eqn:En2; [|discriminate].
    assert (lb ix i < length ix)%nat by (apply nth_error_Some; congruence). lia.
  - rewrite dense_get by lia. unfold len.
    destruct (i <? Z.of_nat (length l)) eqn:E.
    + replace (i <? 0) with false by lia.
      destruct (nth_error l (Z.to_nat i)) eqn:En; [reflexivity|].
      apply nth_error_None in En. lia.
    + f_equal. symmetry. apply nth_error_None. lia.
Qed.

Theorem cur_elem_ok : forall a k, Inv a -> 0 <= k -> cur_elem a k = Ok (s_get_or_empty k (abs a)).
Proof.
  intros [l oi] k HI Hk. pose proof (indexed_val_ok (mkArr l oi) k HI Hk) as Hv.
  unfold cur_elem, indexed_val, s_get_or_empty in *. simpl a_idx in *. simpl a_list in *.
  destruct oi as [ix|].
  - destruct HI as (H1 & H2 & H3). simpl in *. rewrite (bsearch_sorted ix 0 k H2) in *.
    destruct (found ix k).
    + destruct (nth_error l (lb ix k)); [|discriminate]. inversion Hv. reflexivity.
    + inversion Hv. reflexivity.
  - destruct (k <? len l).
    + replace (k <? 0) with false in Hv by lia.
      destruct (nth_error l (Z.to_nat k)); [|discriminate]. inversion Hv. reflexivity.
    + inversion Hv. reflexivity.
Qed.

(* ================================================================ B8. keys, count, max *)

Lemma keys_loop_some : forall ix n i, (i + n <= length ix)%nat ->
  keys_loop n i (Some ix) = Ok (firstn n (skipn i ix)).
Proof.
  intros ix. induction n as [|n IH]; intros i H; [reflexivity|].
  simpl. destruct (nth_error ix i) as [k|] eqn:En.
  2:{ apply nth_error_None in En. lia. }
  rewrite IH by lia.
  assert (Hs : skipn i ix = k :: skipn (S i) ix).
  { clear -En. revert i En. induction ix as [|x r IHr]; intros i En; [destruct i; discriminate|].
    destruct i as [|i]; simpl in *; [inversion En; reflexivity|]. apply IHr. exact En. }
  rewrite Hs. reflexivity.
Qed.

Lemma keys_loop_none : forall n i, keys_loop n i None = Ok (iota_from (Z.of_nat i) n).
Proof.
  induction n as [|n IH]; intros i; [reflexivity|]. simpl. rewrite IH. do 3 f_equal. lia.
Qed.

Theorem indexed_keys_ok : forall a, Inv a -> indexed_keys a = Ok (m_keys (abs a)).
Proof.
  intros [l oi] HI. unfold indexed_keys, abs, m_keys. simpl a_idx. simpl a_list.
  destruct oi as [ix|].
  - destruct HI as (H1 & H2 & H3). simpl in *. rewrite keys_loop_some by lia. simpl.
    rewrite combine_keys by exact H1. rewrite <- H1. rewrite firstn_all. reflexivity.
  - rewrite keys_loop_none. rewrite combine_keys by (unfold iota; rewrite iota_from_length; reflexivity). reflexivity.
Qed.

Theorem count_ok : forall a, Inv a -> count a = m_count (abs a).
Proof.
  intros a HI. destruct (inv_idx a HI) as [H1 _]. unfold count, m_count, len. rewrite abs_idx.
  rewrite combine_length. lia.
Qed.

Theorem vals_ok : forall a, Inv a -> a_list a = m_vals (abs a).
Proof.
  intros a HI. destruct (inv_idx a HI) as [H1 _]. unfold m_vals. rewrite abs_idx. rewrite combine_vals by exact H1. reflexivity.
Qed.

Lemma last_combine : forall (ix : list Z) (l : list str) x0 y0, length ix = length l -> ix <> [] ->
  fst (last (combine ix l) (x0, y0)) = last ix x0.
Proof.
  induction ix as [|x r IH]; intros l x0 y0 Hlen Hne; [congruence|].
  destruct l as [|y l]; [discriminate|]. simpl in Hlen.
  destruct r as [|x' r'].
  - destruct l; [reflexivity|discriminate].
  - destruct l as [|y' l']; [discriminate|].
    change (fst (last (combine (x' :: r') (y' :: l')) (x0, y0)) = last (x' :: r') x0).
    apply IH; [simpl in *; lia|congruence].
Qed.

Lemma last_iota : forall n s, last (iota_from s (S n)) 0 = s + Z.of_nat n.
Proof.
  intros. rewrite iota_from_snoc. rewrite last_last. reflexivity.
Qed.

Theorem indexed_max_ok : forall a, Inv a -> indexed_max (a_list a) (a_idx a) = m_max (abs a).
Proof.
  intros [l oi] HI. unfold indexed_max, abs, m_max. simpl a_idx. simpl a_list.
  destruct oi as [ix|].
  - destruct HI as (H1 & H2 & H3). simpl in *. destruct ix as [|x r]; [discriminate|].
    destruct l as [|y l]; [discriminate|].
    change (last (x :: r) 0 = fst (last (combine (x :: r) (y :: l)) (0, []))).
    symmetry. apply last_combine; [exact H1|congruence].
  - destruct l as [|y l]; [reflexivity|].
    change (len (y :: l) - 1 = fst (last (combine (iota (length (y :: l))) (y :: l)) (0, []))).
    transitivity (last (iota (length (y :: l))) 0).
    + unfold iota. simpl length. rewrite last_iota. unfold len. simpl length. lia.
    + symmetry. apply last_combine.
      * unfold iota. rewrite iota_from_length. reflexivity.
      * unfold iota. simpl. discriminate.
Qed.

(* ================================================================ C. the interpreter's operations *)

Lemma resolve_ok : forall a k, Inv a -> resolve_neg (a_list a) (a_idx a) k = m_resolve (abs a) k.
Proof.
  intros a k HI. unfold resolve_neg, m_resolve. rewrite (indexed_max_ok a HI). reflexivity.
Qed.

Lemma m_resolve_nonneg : forall m k k', m_resolve m k = Some k' -> 0 <= k'.
Proof.
  unfold m_resolve. intros m k k' H. destruct (k <? 0) eqn:E.
  - destruct (k + (m_max m + 1) <? 0) eqn:E2; inversion H. lia.
  - inversion H. lia.
Qed.

Lemma base_arr_ok : forall v, InvVar v -> Inv (base_arr v) /\ abs (base_arr v) = s_base (abs_var v).
Proof. intros [|s|a] H; simpl; auto; split; try exact I; reflexivity. Qed.

Lemma empty_arr_ok : Inv (mkArr [] None) /\ abs (mkArr [] None) = [].
Proof. split; [exact I|reflexivity]. Qed.

Lemma assign_loop_ok : forall es a index, Inv a -> 0 <= index ->
  exists a' e, assign_loop es a index = Ok (a', e) /\ Inv a' /\ (abs a', e) = s_assign_loop es (abs a) index.
Proof.
  induction es as [|[k v|v] r IH]; intros a index HI Hidx.
  - exists a, false. simpl. auto.
  - simpl. rewrite (resolve_ok a k HI). destruct (m_resolve (abs a) k) as [k'|] eqn:Er.
    + pose proof (m_resolve_nonneg _ _ _ Er) as Hk'.
      destruct (set_elem_ok a k' v HI Hk') as (a1 & H1 & H2 & H3). rewrite H1.
      destruct (IH a1 (k' + 1) H2) as (a' & e & G1 & G2 & G3); [lia|].
      exists a', e. rewrite G1, G3, H3. auto.
    + exists a, true. auto.
  - simpl. destruct (set_elem_ok a index v HI Hidx) as (a1 & H1 & H2 & H3). rewrite H1.
    destruct (IH a1 (index + 1) H2) as (a' & e & G1 & G2 & G3); [lia|].
    exists a', e. rewrite G1, G3, H3. auto.
Qed.

Lemma m_max_ge : forall a, Inv a -> -1 <= m_max (abs a).
Proof.
  intros a HI. rewrite <- (indexed_max_ok a HI). destruct (inv_idx a HI) as [H1 H2].
  unfold indexed_max, idx_of in *. destruct (a_idx a) as [[|x r]|]; unfold len; try lia.
  assert (In (last (x :: r) 0) (x :: r)).
  { clear. generalize x. induction r as [|y r IH]; intros x0; [left; reflexivity|]. right. apply IH. }
  apply In_nth_error in H. destruct H as [n Hn]. pose proof (sorted_nth_ge _ _ _ _ H2 Hn). lia.
Qed.

Lemma assign_arr_ok : forall base es, Inv base ->
  exists a' e, assign_arr base es = Ok (VArr a', e) /\ Inv a' /\
               (abs a', e) = s_assign_loop es (abs base) (m_max (abs base) + 1).
Proof.
  intros base es HI. unfold assign_arr. rewrite (indexed_max_ok base HI).
  pose proof (m_max_ge base HI).
  destruct (assign_loop_ok es base (m_max (abs base) + 1) HI) as (a' & e & H1 & H2 & H3); [lia|].
  rewrite H1. exists a', e. auto.
Qed.

Definition step_good (v : var) (o : op) : Prop :=
  exists v' e, step v o = Ok (v', e) /\ InvVar v' /\ (abs_var v', e) = s_step (abs_var v) o.

Lemma ret_arr_good : forall a k s v o m, Inv a -> 0 <= k ->
  s_step (abs_var v) o = (SArr (m_set k s m), false) -> abs a = m ->
  exists v' e, ret_arr (set_elem a k s) = Ok (v', e) /\ InvVar v' /\ (abs_var v', e) = s_step (abs_var v) o.
Proof.
  intros a k s v o m HI Hk Hs Ha. destruct (set_elem_ok a k s HI Hk) as (a' & H1 & H2 & H3).
  rewrite H1. exists (VArr a'), false. simpl. rewrite Hs, H3, Ha. auto.
Qed.

Lemma step_set_with_index : forall v k s (app : bool), InvVar v ->
  exists v' e, set_with_index v k s app = Ok (v', e) /\ InvVar v' /\
    (abs_var v', e) = s_step (abs_var v) (if app then OAppElem k s else OSetElem k s).
Proof.
  intros v k s app HI. destruct (base_arr_ok v HI) as [B1 B2]. unfold set_with_index.
  rewrite (resolve_ok _ k B1), B2.
  destruct app; simpl s_step; destruct (m_resolve (s_base (abs_var v)) k) as [k'|] eqn:Er;
    try (exists v, true; auto; fail); pose proof (m_resolve_nonneg _ _ _ Er) as Hk'.
  - rewrite (cur_elem_ok _ k' B1 Hk'), B2.
    destruct (set_elem_ok (base_arr v) k' (s_get_or_empty k' (s_base (abs_var v)) ++ s) B1 Hk') as (a' & H1 & H2 & H3).
    rewrite H1. exists (VArr a'), false. simpl. rewrite H3, B2. auto.
  - destruct (set_elem_ok (base_arr v) k' s B1 Hk') as (a' & H1 & H2 & H3).
    rewrite H1. exists (VArr a'), false. simpl. rewrite H3, B2. auto.
Qed.

Lemma head_append : forall a x r s, Inv a -> a_list a = x :: r ->
  (a_idx a = None \/ exists ir, a_idx a = Some (0 :: ir)) ->
  Inv (mkArr ((x ++ s) :: r) (a_idx a)) /\
  abs (mkArr ((x ++ s) :: r) (a_idx a)) = m_set 0 (s_get_or_empty 0 (abs a) ++ s) (abs a).
Proof.
  intros [l oi] x r s HI Hl Hi. simpl in *. subst l.
  destruct Hi as [Hn|[ir Hs]]; subst oi.
  - split; [exact I|]. unfold abs, s_get_or_empty. simpl. reflexivity.
  - destruct HI as (H1 & H2 & H3). simpl in *. split.
    + unfold Inv. simpl. auto.
    + unfold abs, s_get_or_empty. simpl. reflexivity.
Qed.

Lemma get0_none : forall a, Inv a ->
  (a_list a = [] \/ exists i0 ir, a_idx a = Some (i0 :: ir) /\ i0 <> 0) -> m_get 0 (abs a) = None.
Proof.
  intros [l oi] HI H. simpl in *. destruct H as [H|(i0 & ir & H & Hne)].
  - subst l. unfold abs. simpl. destruct oi as [ix|]; [destruct ix|]; reflexivity.
  - subst oi. destruct HI as (H1 & H2 & H3). simpl in *. unfold abs. simpl.
    apply (get_above (i0 :: ir) l 0 i0); [|lia]. simpl. split; [lia|tauto].
Qed.

Theorem step_ok : forall v o, InvVar v -> step_good v o.
Proof.
  intros v o HI. unfold step_good. destruct o as [k s|k s|k|es|es|s|s| |colon k s].
  - (* a[k]=s *) exact (step_set_with_index v k s false HI).
  - (* a[k]+=s *) exact (step_set_with_index v k s true HI).
  - (* unset 'a[k]' *)
    destruct v as [|p|a]; simpl.
    + exists VUnset, false. auto.
    + destruct (k =? 0); [exists VUnset, false|exists (VStr p), true]; auto.
    + simpl in HI. rewrite (resolve_ok a k HI). destruct (m_resolve (abs a) k) as [k'|].
      * destruct (delete_elem_ok a k' HI) as (a' & H1 & H2 & H3). rewrite H1.
        exists (VArr a'), false. simpl. rewrite H3. auto.
      * exists (VArr a), true. auto.
  - (* a=( ... ) *)
    destruct (assign_arr_ok (mkArr [] None) es I) as (a' & e & H1 & H2 & H3).
    exists (VArr a'), e. simpl step. rewrite H1. split; [reflexivity|]. split; [exact H2|].
    simpl s_step. change (abs (mkArr [] None)) with (@nil (Z * str)) in H3. simpl in H3. rewrite <- H3. reflexivity.
  - (* a+=( ... ) *)
    destruct (base_arr_ok v HI) as [B1 B2].
    destruct (assign_arr_ok (base_arr v) es B1) as (a' & e & H1 & H2 & H3).
    exists (VArr a'), e. simpl step. rewrite H1. split; [reflexivity|]. split; [exact H2|].
    simpl s_step. rewrite <- B2, <- H3. reflexivity.
  - (* a=s *)
    destruct v as [|p|a]; simpl.
    + exists (VStr s), false. auto.
    + exists (VStr s), false. auto.
    + simpl in HI. destruct (set_elem_ok a 0 s HI) as (a' & H1 & H2 & H3); [lia|]. rewrite H1.
      exists (VArr a'), false. simpl. rewrite H3. auto.
  - (* a+=s *)
    destruct v as [|p|a]; simpl.
    + exists (VStr s), false. auto.
    + exists (VStr (p ++ s)), false. auto.
    + simpl in HI.
      assert (Hset : a_list a = [] \/ (exists i0 ir, a_idx a = Some (i0 :: ir) /\ i0 <> 0) ->
                exists v' e, ret_arr (set_elem a 0 s) = Ok (v', e) /\ InvVar v' /\
                             (abs_var v', e) = (SArr (m_set 0 (s_get_or_empty 0 (abs a) ++ s) (abs a)), false)).
      { intros Hc. destruct (set_elem_ok a 0 s HI) as (a' & H1 & H2 & H3); [lia|]. rewrite H1.
        exists (VArr a'), false. simpl. rewrite H3. unfold s_get_or_empty. rewrite (get0_none a HI Hc). auto. }
      destruct (a_list a) as [|x r] eqn:El; [apply Hset; left; reflexivity|].
      destruct (a_idx a) as [[|i0 ir]|] eqn:Ei.
      * exfalso. unfold Inv in HI. rewrite Ei in HI. destruct HI as (_ & _ & H3). discriminate.
      * destruct (i0 =? 0) eqn:E0.
        -- assert (i0 = 0) by lia. subst i0.
           destruct (head_append a x r s HI El) as [G1 G2]; [right; eauto|]. rewrite Ei in G1, G2.
           exists (VArr (mkArr ((x ++ s) :: r) (Some (0 :: ir)))), false. simpl. rewrite G2. auto.
        -- apply Hset. right. exists i0, ir. split; [reflexivity|lia].
      * destruct (head_append a x r s HI El) as [G1 G2]; [left; exact Ei|]. rewrite Ei in G1, G2.
        exists (VArr (mkArr ((x ++ s) :: r) None)), false. simpl. rewrite G2. auto.
  - (* unset a *) exists VUnset, false. simpl. auto.
  - (* ${a[k]=s} ${a[k]:=s} *)
    destruct (base_arr_ok v HI) as [B1 B2].
    destruct v as [|p|a]; simpl step; simpl s_step; unfold var_index, assign_elem.
    + (* unset name *)
      simpl negb. simpl orb. cbv iota. simpl a_list. simpl a_idx.
      change (resolve_neg [] None k) with (m_resolve [] k).
      destruct (m_resolve [] k) as [k'|] eqn:Er; [|exists VUnset, true; auto].
      pose proof (m_resolve_nonneg _ _ _ Er) as Hk'.
      destruct (set_elem_ok (mkArr [] None) k' s I Hk') as (a' & H1 & H2 & H3). simpl base_arr. rewrite H1.
      exists (VArr a'), false. simpl. rewrite H3. auto.
    + (* scalar *)
      simpl a_list. simpl a_idx. change (resolve_neg [] None k) with (m_resolve [] k).
      assert (Hassign : forall k', m_resolve [] k = Some k' ->
                exists v' e, ret_arr (set_elem (mkArr [p] None) k' s) = Ok (v', e) /\ InvVar v' /\
                             (abs_var v', e) = (SArr (m_set k' s [(0, p)]), false)).
      { intros k' Er. pose proof (m_resolve_nonneg _ _ _ Er) as Hk'.
        destruct (set_elem_ok (mkArr [p] None) k' s I Hk') as (a' & H1 & H2 & H3). rewrite H1.
        exists (VArr a'), false. simpl. rewrite H3. auto. }
      destruct (k =? 0) eqn:E0.
      * assert (k = 0) by lia. subst k. change (m_resolve [] 0) with (Some 0). simpl negb. simpl orb.
        destruct p as [|c p'].
        -- destruct colon; simpl andb; cbv iota.
           ++ apply Hassign. reflexivity.
           ++ exists (VStr []), false. auto.
        -- rewrite andb_false_r. exists (VStr (c :: p')), false. auto.
      * simpl negb. simpl orb. cbv iota.
        destruct (m_resolve [] k) as [k'|] eqn:Er; [|exists (VStr p), true; auto].
        apply Hassign. reflexivity.
    + (* array *)
      simpl in HI. simpl base_arr. rewrite (resolve_ok a k HI).
      destruct (m_resolve (abs a) k) as [k'|] eqn:Er; [|exists (VArr a), true; auto].
      pose proof (m_resolve_nonneg _ _ _ Er) as Hk'.
      rewrite (indexed_val_ok a k' HI Hk').
      assert (Hassign : exists v' e, ret_arr (set_elem a k' s) = Ok (v', e) /\
                          InvVar v' /\ (abs_var v', e) = (SArr (m_set k' s (abs a)), false)).
      { destruct (set_elem_ok a k' s HI Hk') as (a' & H1 & H2 & H3). rewrite H1.
        exists (VArr a'), false. simpl. rewrite H3. auto. }
      destruct (m_get k' (abs a)) as [[|c cur]|].
      * simpl negb. simpl orb. destruct colon; simpl andb; cbv iota.
        -- exact Hassign.
        -- exists (VArr a), false. auto.
      * simpl negb. simpl orb. rewrite andb_false_r. exists (VArr a), false. auto.
      * simpl negb. simpl orb. exact Hassign.
Qed.

(* ================================================================ D. all histories *)

Theorem run_from_ok : forall ops v, InvVar v ->
  exists v', run_from v ops = Ok v' /\ InvVar v' /\ abs_var v' = s_run_from (abs_var v) ops.
Proof.
  induction ops as [|o ops IH]; intros v HI.
  - exists v. auto.
  - destruct (step_ok v o HI) as (v1 & e & H1 & H2 & H3).
    destruct (IH v1 H2) as (v' & G1 & G2 & G3).
    exists v'. unfold run_from, s_run_from in *. simpl. rewrite H1. rewrite G1. split; [reflexivity|]. split; [exact G2|].
    rewrite G3. rewrite <- H3. reflexivity.
Qed.

Theorem run_ok : forall ops, exists v, run ops = Ok v /\ InvVar v /\ abs_var v = s_run ops.
Proof. intros ops. exact (run_from_ok ops VUnset I). Qed.

Theorem run_no_panic : forall ops, run ops <> Panic /\ (forall c, run ops <> Err c).
Proof. intros ops. destruct (run_ok ops) as (v & H & _). rewrite H. split; [discriminate|intros; discriminate]. Qed.

Theorem step_no_panic : forall v o, InvVar v -> step v o <> Panic /\ (forall c, step v o <> Err c).
Proof. intros v o HI. destruct (step_ok v o HI) as (v' & e & H & _). rewrite H. split; [discriminate|intros; discriminate]. Qed.

(* the invariant in the words of the Variable.Indexes documentation *)
Lemma sorted_from_spec : forall ix lo, sorted_from lo ix <->
  (forall i x, nth_error ix i = Some x -> lo <= x) /\
  (forall i j x y, (i < j)%nat -> nth_error ix i = Some x -> nth_error ix j = Some y -> x < y).
Proof.
  induction ix as [|a r IH]; intros lo.
  - simpl. split; [intros _|tauto]. split; intros; destruct i; discriminate.
  - simpl. rewrite IH. split.
    + intros (H1 & H2 & H3). split.
      * intros [|i] x Hn; simpl in Hn; [inversion Hn; lia|]. specialize (H2 _ _ Hn). lia.
      * intros [|i] [|j] x y Hij Hi Hj; simpl in *; try lia.
        -- inversion Hi; subst. specialize (H2 _ _ Hj). lia.
        -- apply (H3 i j); auto. lia.
    + intros (H1 & H2). split; [apply (H1 O); reflexivity|]. split.
      * intros i x Hn. specialize (H2 O (S i) a x). simpl in H2. specialize (H2 ltac:(lia) eq_refl Hn). lia.
      * intros i j x y Hij Hi Hj. apply (H2 (S i) (S j)); auto. lia.
Qed.

Theorem inv_documented : forall a, Inv a <->
  match a_idx a with
  | None => True
  | Some ix => length ix = length (a_list a) /\
               (forall i x, nth_error ix i = Some x -> 0 <= x) /\
               (forall i j x y, (i < j)%nat -> nth_error ix i = Some x -> nth_error ix j = Some y -> x < y) /\
               ix <> iota (length ix)
  end.
Proof.
  intros a. unfold Inv. destruct (a_idx a) as [ix|]; [|tauto].
  rewrite sorted_from_spec. split.
  - intros (H1 & (H2 & H3) & H4). repeat split; auto. intros Hc. rewrite Hc in H4. unfold iota in H4.
    rewrite is_iota_from_iota in H4. discriminate.
  - intros (H1 & H2 & H3 & H4). repeat split; auto.
    destruct (is_iota_from 0 ix) eqn:E; [|reflexivity]. exfalso. apply H4. apply is_iota_from_eq. exact E.
Qed.

(* what every expansion of the array shows, after any history *)
Definition agrees (v : var) (s : sval) : Prop :=
  match v, s with
  | VUnset, SUnset => True
  | VStr x, SStr y => x = y
  | VArr a, SArr m =>
      a_list a = m_vals m /\ indexed_keys a = Ok (m_keys m) /\ count a = m_count m /\
      indexed_max (a_list a) (a_idx a) = m_max m /\
      (forall i, 0 <= i -> indexed_val a i = Ok (m_get i m)) /\
      (forall k, resolve_neg (a_list a) (a_idx a) k = m_resolve m k)
  | _, _ => False
  end.

Lemma abs_agrees : forall v, InvVar v -> agrees v (abs_var v).
Proof.
  intros [|s|a] HI; simpl; auto. simpl in HI. repeat split.
  - apply vals_ok; exact HI.
  - apply indexed_keys_ok; exact HI.
  - apply count_ok; exact HI.
  - apply indexed_max_ok; exact HI.
  - intros. apply indexed_val_ok; assumption.
  - intros. apply resolve_ok; exact HI.
Qed.

Theorem history_observations : forall ops, exists v, run ops = Ok v /\ agrees v (s_run ops).
Proof.
  intros ops. destruct (run_ok ops) as (v & H1 & H2 & H3). exists v. split; [exact H1|].
  rewrite <- H3. apply abs_agrees. exact H2.
Qed.

(* the reference map reached by any history is well-formed (strictly increasing non-negative keys) *)
Lemma abs_wf : forall a, Inv a -> m_wf 0 (abs a).
Proof.
  intros a HI. destruct (inv_idx a HI) as [H1 H2]. unfold m_wf. rewrite abs_idx, combine_keys by exact H1. exact H2.
Qed.

(* ================================================================ E. slicing ${a[@]:off:len} *)

Lemma filter_all_ge : forall ix (l : list str) lo f, sorted_from lo ix -> f <= lo ->
  filter (fun kv : Z * str => f <=? fst kv) (combine ix l) = combine ix l.
Proof.
  induction ix as [|x r IH]; intros l lo f Hs Hf; [reflexivity|]. destruct l as [|y l]; [reflexivity|].
  destruct Hs as [H1 H2]. simpl. replace (f <=? x) with true by lia. f_equal. apply (IH l (x + 1)); [exact H2|lia].
Qed.

Lemma filter_skipn : forall ix (l : list str) lo f, length ix = length l -> sorted_from lo ix ->
  map snd (filter (fun kv : Z * str => f <=? fst kv) (combine ix l)) = skipn (lb ix f) l.
Proof.
  induction ix as [|x r IH]; intros l lo f Hlen Hs; destruct l as [|y l]; try discriminate; [reflexivity|].
  simpl in Hlen. destruct Hs as [H1 H2]. simpl.
  destruct (x <? f) eqn:E.
  - replace (f <=? x) with false by lia. simpl. apply (IH l (x + 1)); [lia|exact H2].
  - replace (f <=? x) with true by lia. simpl. f_equal.
    rewrite (filter_all_ge r l (x + 1) f H2) by lia. apply combine_vals. lia.
Qed.

Lemma sorted_le_last : forall ix lo x, sorted_from lo ix -> In x ix -> x <= last ix 0.
Proof.
  induction ix as [|a r IH]; intros lo x Hs Hin; [contradiction|].
  destruct Hs as [H1 H2]. destruct r as [|b r'].
  - destruct Hin as [<-|[]]. simpl. lia.
  - change (last (a :: b :: r') 0) with (last (b :: r') 0).
    destruct Hin as [<-|Hin].
    + specialize (IH (a + 1) b H2 (or_introl eq_refl)). simpl in H2. lia.
    + apply (IH (a + 1)); assumption.
Qed.

Lemma lb_all_below : forall ix k, (forall x, In x ix -> x < k) -> lb ix k = length ix.
Proof.
  induction ix as [|a r IH]; intros k H; [reflexivity|]. simpl.
  replace (a <? k) with true by (specialize (H a (or_introl eq_refl)); lia).
  f_equal. apply IH. intros x Hx. apply H. right. exact Hx.
Qed.

Lemma slice_len_ok : forall (sel : list str) n, 0 <= n ->
  slice_to (Z.to_nat (slice_pos n sel)) sel = Ok (firstn (Z.to_nat n) sel).
Proof.
  intros sel n Hn. unfold slice_to, slice_pos, len. replace (n <? 0) with false by lia.
  destruct (Z.of_nat (length sel) <? n) eqn:E.
  - rewrite Nat2Z.id. rewrite Nat.leb_refl. rewrite firstn_all. rewrite firstn_all2 by lia. reflexivity.
  - replace (Z.to_nat n <=? length sel)%nat with true by lia. reflexivity.
Qed.

Theorem slice_elems_ok : forall a off len_, Inv a -> (forall n, len_ = Some n -> 0 <= n) ->
  slice_elems a off len_ = m_slice (abs a) off len_.
Proof.
  intros a off len_ HI Hlen.
  destruct (inv_idx a HI) as [H1 H2].
  pose proof (indexed_max_ok a HI) as Hmax.
  assert (Hstep1 : forall o,
    (match a_idx a with
     | Some (x :: r) =>
         let mx := last (x :: r) 0 in
         let o' := if o <? 0 then (let o2 := o + (mx + 1) in if o2 <? 0 then mx + 1 else o2) else o in
         match bsearch (x :: r) o' with
         | Ok (pos, _) => slice_from pos (a_list a)
         | Err c => Err c
         | Panic => Panic
         end
     | _ => slice_from (Z.to_nat (slice_pos o (a_list a))) (a_list a)
     end) = Ok (match (if o <? 0 then (if o + (m_max (abs a) + 1) <? 0 then None else Some (o + (m_max (abs a) + 1))) else Some o) with
                | None => []
                | Some f => map snd (filter (fun kv : Z * str => f <=? fst kv) (abs a))
                end)).
  { intros o. rewrite <- Hmax. rewrite abs_idx. unfold indexed_max, idx_of in *.
    destruct (a_idx a) as [[|x r]|] eqn:Ei.
    - exfalso. unfold Inv in HI. rewrite Ei in HI. destruct HI as (_ & _ & H3). discriminate.
    - set (ix := x :: r) in *. set (mx := last ix 0).
      cbv zeta. 
      assert (Hsf : forall f, match bsearch ix f with Ok (pos, _) => slice_from pos (a_list a) | Err c => Err c | Panic => Panic end
                              = Ok (map snd (filter (fun kv : Z * str => f <=? fst kv) (combine ix (a_list a))))).
      { intros f. rewrite (bsearch_sorted ix 0 f H2). unfold slice_from.
        pose proof (lb_le_length ix f). replace (lb ix f <=? length (a_list a))%nat with true by lia.
        rewrite (filter_skipn ix (a_list a) 0 f H1 H2). reflexivity. }
      destruct (o <? 0) eqn:E0.
      + destruct (o + (mx + 1) <? 0) eqn:E1.
        * rewrite Hsf. f_equal.
          rewrite (filter_skipn ix (a_list a) 0 (mx + 1) H1 H2).
          rewrite lb_all_below.
          -- rewrite H1. apply skipn_all.
          -- intros y Hy. pose proof (sorted_le_last ix 0 y H2 Hy). unfold mx. lia.
        * apply Hsf.
      + apply Hsf.
    - clear Ei. set (l := a_list a) in *. set (n := length l) in *.
      unfold slice_from, slice_pos, len. fold n.
      assert (Hf : forall f, 0 <= f -> map snd (filter (fun kv : Z * str => f <=? fst kv) (combine (iota n) l))
                                       = skipn (Nat.min (Z.to_nat f) n) l).
      { intros f Hf0. rewrite (filter_skipn (iota n) l 0 f H1 H2). unfold iota. rewrite iota_from_lb by lia.
        replace (f - 0) with f by lia. reflexivity. }
      destruct (o <? 0) eqn:E0.
      + replace (o + (Z.of_nat n - 1 + 1)) with (Z.of_nat n + o) by lia.
        destruct (Z.of_nat n + o <? 0) eqn:E1.
        * rewrite Nat2Z.id. rewrite Nat.leb_refl. f_equal. apply skipn_all.
        * replace (Z.to_nat (Z.of_nat n + o) <=? n)%nat with true by lia. rewrite Hf by lia.
          do 2 f_equal. lia.
      + rewrite Hf by lia. destruct (Z.of_nat n <? o) eqn:E1.
        * rewrite Nat2Z.id. rewrite Nat.leb_refl. do 2 f_equal. lia.
        * replace (Z.to_nat o <=? n)%nat with true by lia. do 2 f_equal. lia. }
  unfold slice_elems, m_slice.
  assert (Hfull : map snd (filter (fun kv : Z * str => 0 <=? fst kv) (abs a)) = a_list a).
  { rewrite abs_idx. rewrite (filter_all_ge (idx_of a) (a_list a) 0 0 H2) by lia. apply combine_vals. exact H1. }
  destruct off as [o|].
  - rewrite Hstep1. destruct len_ as [n|]; [|reflexivity].
    specialize (Hlen n eq_refl). replace (n <? 0) with false by lia. apply slice_len_ok. exact Hlen.
  - rewrite Hfull. destruct len_ as [n|]; [|reflexivity].
    specialize (Hlen n eq_refl). replace (n <? 0) with false by lia. apply slice_len_ok. exact Hlen.
Qed.

(* the divergence outside the scope of slice_elems_ok, as a theorem about the model *)
Theorem slice_negative_length_refuted :
  exists a off n, Inv a /\ n < 0 /\ slice_elems a off (Some n) <> m_slice (abs a) off (Some n).
Proof.
  exists (mkArr [[112%N]; [113%N]; [114%N]] None), (Some 1), (-1). split; [exact I|]. split; [lia|].
  vm_compute. discriminate.
Qed.

Theorem history_slices : forall ops a, run ops = Ok (VArr a) ->
  forall off len_, (forall n, len_ = Some n -> 0 <= n) ->
  exists m, s_run ops = SArr m /\ slice_elems a off len_ = m_slice m off len_.
Proof.
  intros ops a Hr off len_ Hl. destruct (run_ok ops) as (v & H1 & H2 & H3).
  rewrite Hr in H1. inversion H1; subst v. simpl in H2, H3.
  exists (abs a). split; [symmetry; exact H3|]. apply slice_elems_ok; assumption.
Qed.
