(* Proofs/SparseProofs.v — proofs about Vars/Sparse.v *)
From Coq Require Import ZifyNat ZifyBool ZifyN.
From Verif Require Import Base.Str Vars.Sparse.
Open Scope Z_scope.

(* ---------------------------------------------------------------- the reference map is a finite map *)

Lemma m_get_set_same : forall k v m, m_get k (m_set k v m) = Some v.
Proof.
  induction m as [|[k' v'] r IH]; simpl.
  - rewrite Z.eqb_refl. reflexivity.
  - destruct (k' <? k) eqn:E1; simpl.
    + destruct (k =? k') eqn:E2; [lia|exact IH].
    + destruct (k' =? k) eqn:E2; simpl; rewrite Z.eqb_refl; reflexivity.
Qed.
