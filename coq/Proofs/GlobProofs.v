(* Proofs/GlobProofs.v — proofs about Expand/Glob.v. *)
From Verif Require Import Base.Str Proofs.StrProofs Expand.Param Expand.ParamSpec Expand.Glob.
From Coq Require Import ZifyN ZifyNat ZifyBool.
Open Scope N_scope.

Lemma noglob_word : forall fs o w, o_noglob o = true -> glob_word fs o w = GOk [w].
Proof. intros. unfold glob_word. rewrite H. rewrite andb_false_r. reflexivity. Qed.

Lemma no_meta_word : forall fs o w, has_meta w = false -> glob_word fs o w = GOk [w].
Proof. intros. unfold glob_word. rewrite H. reflexivity. Qed.

(* nothing matches: the word itself, or nothing under nullglob *)
Lemma nullglob_word : forall fs o w,
  has_meta w = true -> o_noglob o = false -> glob fs o w = GOk [] ->
  glob_word fs o w = GOk (if o_null o then [] else [w]).
Proof.
  intros fs o w Hm Hn Hg. unfold glob_word. rewrite Hm, Hn, Hg. simpl.
  destruct (o_null o); reflexivity.
Qed.

(* ------------------------------------------------------------------ the component matcher vs the Spec *)

Lemma any_suffix_true : forall f s,
  any_suffix f s = true <-> exists pre suf, s = pre ++ suf /\ f suf = true.
Proof.
  intros f s. induction s as [|c s IH]; simpl.
  - rewrite orb_false_r. split.
    + intros H. exists [], []. split; [reflexivity|assumption].
    + intros (pre & suf & E & H). destruct pre; destruct suf; try discriminate. assumption.
  - rewrite orb_true_iff, IH. split.
    + intros [H|(pre & suf & E & H)].
      * exists [], (c :: s). split; [reflexivity|assumption].
      * exists (c :: pre), suf. split; [simpl; congruence|assumption].
    + intros (pre & suf & E & H). destruct pre as [|d pre].
      * left. simpl in E. subst suf. assumption.
      * right. simpl in E. inversion E; subst. exists pre, suf. split; [reflexivity|assumption].
Qed.

Lemma pmatch_star_app : forall p pre s, pmatch p s -> pmatch (TStar :: p) (pre ++ s).
Proof.
  intros p pre s H. induction pre as [|c pre IH]; simpl.
  - apply pm_star_0. assumption.
  - apply pm_star_S. assumption.
Qed.

Lemma pmatch_star_inv : forall p s, pmatch (TStar :: p) s -> exists pre suf, s = pre ++ suf /\ pmatch p suf.
Proof.
  intros p s H. remember (TStar :: p) as q eqn:E. induction H; try discriminate.
  - inversion E; subst. exists [], s. split; [reflexivity|assumption].
  - destruct (IHpmatch E) as (pre & suf & E' & Hm). subst s.
    exists (c :: pre), suf. split; [reflexivity|assumption].
Qed.

Definition spec_tok (t : gtok) : ptok :=
  match t with GLit c => TLit c | GAny => TAny | GStar | GStarNoDot => TStar end.

Fixpoint no_nodot (p : list gtok) : bool :=
  match p with [] => true | GStarNoDot :: _ => false | _ :: r => no_nodot r end.

Lemma gmatch_pmatch : forall p s,
  no_nodot p = true -> (gmatch p s = true <-> pmatch (map spec_tok p) s).
Proof.
  induction p as [|t p IH]; intros s Hn.
  - simpl. destruct s; split; intros H; try discriminate; try constructor. inversion H.
  - destruct t; simpl in Hn; try discriminate; simpl.
    + destruct s as [|d s].
      * split; [discriminate|]. intros H; inversion H.
      * rewrite andb_true_iff, N.eqb_eq, (IH s Hn). split.
        -- intros [-> H]. constructor. assumption.
        -- intros H. inversion H; subst. split; [reflexivity|assumption].
    + destruct s as [|d s].
      * split; [discriminate|]. intros H; inversion H.
      * rewrite (IH s Hn). split.
        -- intros H. constructor. assumption.
        -- intros H. inversion H; subst. assumption.
    + rewrite any_suffix_true. split.
      * intros (pre & suf & -> & H). apply pmatch_star_app. apply IH; assumption.
      * intros H. destruct (pmatch_star_inv _ _ H) as (pre & suf & -> & Hm).
        exists pre, suf. split; [reflexivity|]. apply IH; assumption.
Qed.

(* a leading GStarNoDot behaves like a star on names that do not start with a dot *)
Lemma gmatch_nodot_star : forall p s,
  starts_with_dot s = false ->
  gmatch (GStarNoDot :: p) s = gmatch (GStar :: p) s.
Proof.
  intros p s Hd. simpl. destruct s as [|d s]; simpl.
  - rewrite !orb_false_r. reflexivity.
  - simpl in Hd. rewrite Hd. simpl. reflexivity.
Qed.

(* components without a backslash, a bracket or two adjacent stars *)
Fixpoint simple_comp (s : str) : bool :=
  match s with
  | [] => true
  | c :: r => negb (c =? 92) && negb (c =? 91) &&
              match r with d :: _ => negb ((c =? 42) && (d =? 42)) | [] => true end && simple_comp r
  end.

(* what the manual calls matching a file name against a pattern component *)
Definition spec_comp_toks (s : str) : list ptok :=
  map (fun c => if c =? 42 then TStar else if c =? 63 then TAny else TLit c) s.

Definition bash_name_matches (dotglob : bool) (part name : str) : Prop :=
  (* a leading dot must be matched explicitly unless dotglob is set *)
  (dotglob = true \/ starts_with_dot part = true \/ starts_with_dot name = false) /\
  pmatch (spec_comp_toks part) name.

Lemma comp_toks_tail : forall dg s,
  simple_comp s = true ->
  no_nodot (comp_toks false dg s) = true /\ map spec_tok (comp_toks false dg s) = spec_comp_toks s.
Proof.
  intros dg s. induction s as [|c s IH]; intros H; [split; reflexivity|].
  simpl in H. rewrite !andb_true_iff in H. destruct H as [[[H1 H2] H3] H4].
  specialize (IH H4). destruct IH as [IHa IHb].
  change (spec_comp_toks (c :: s)) with ((if c =? 42 then TStar else if c =? 63 then TAny else TLit c) :: spec_comp_toks s).
  cbn [comp_toks]. cbv zeta. simpl andb.
  destruct (c =? 42) eqn:E42.
  - destruct s as [|d s'].
    + split; reflexivity.
    + simpl in H3. destruct (d =? 42) eqn:Ed; [discriminate|].
      cbn [no_nodot map spec_tok]. split; [exact IHa|]. f_equal. exact IHb.
  - destruct (c =? 63); cbn [no_nodot map spec_tok]; (split; [exact IHa| f_equal; exact IHb]).
Qed.

Lemma comp_matcher_spec : forall dg part name,
  simple_comp part = true ->
  (comp_matcher dg part name = true <-> bash_name_matches dg part name).
Proof.
  intros dg part name Hs. unfold comp_matcher, bash_name_matches.
  rewrite andb_true_iff, !orb_true_iff, negb_true_iff.
  assert (Hm : forall ok : dg = true \/ starts_with_dot part = true \/ starts_with_dot name = false,
             gmatch (comp_toks true dg part) name = true <-> pmatch (spec_comp_toks part) name).
  { intros ok. destruct part as [|c r]; [simpl; destruct name; split; intros H; try discriminate; try constructor; inversion H|].
    simpl in Hs. rewrite !andb_true_iff in Hs. destruct Hs as [[[H1 H2] H3] H4].
    destruct (comp_toks_tail dg r H4) as [Ta Tb].
    change (spec_comp_toks (c :: r)) with ((if c =? 42 then TStar else if c =? 63 then TAny else TLit c) :: spec_comp_toks r).
    cbn [comp_toks]. cbv zeta.
    destruct (c =? 42) eqn:E42.
    - (* leading star *)
      assert (Hr : comp_toks false dg (match r with d :: r' => if d =? 42 then r' else r | [] => [] end) = comp_toks false dg r).
      { destruct r as [|d r']; [reflexivity|]. simpl in H3. destruct (d =? 42); [discriminate|reflexivity]. }
      assert (Hgoal : gmatch ((if true && negb dg then GStarNoDot else GStar) :: comp_toks false dg r) name = true
                      <-> pmatch (TStar :: spec_comp_toks r) name).
      { destruct dg; simpl andb; cbv iota.
        - rewrite <- Tb. apply (gmatch_pmatch (GStar :: comp_toks false true r)). exact Ta.
        - assert (Hnd : starts_with_dot name = false).
          { destruct ok as [ok|[ok|ok]]; [discriminate| |exact ok].
            simpl in ok. apply N.eqb_eq in ok. apply N.eqb_eq in E42. subst c. discriminate. }
          rewrite (gmatch_nodot_star _ _ Hnd). rewrite <- Tb.
          apply (gmatch_pmatch (GStar :: comp_toks false false r)). exact Ta. }
      destruct r as [|d r'].
      + exact Hgoal.
      + simpl in H3. destruct (d =? 42) eqn:Ed; [discriminate|]. exact Hgoal.
    - destruct (c =? 63) eqn:E63.
      + rewrite <- Tb. apply (gmatch_pmatch (GAny :: comp_toks false dg r)). exact Ta.
      + rewrite <- Tb. apply (gmatch_pmatch (GLit c :: comp_toks false dg r)). exact Ta. }
  split.
  - intros [ok H]. split.
    + destruct ok as [[ok|ok]|ok]; auto.
    + apply Hm; [|exact H]. destruct ok as [[ok|ok]|ok]; auto.
  - intros [ok H]. split.
    + destruct ok as [ok|[ok|ok]]; auto.
    + apply Hm; assumption.
Qed.

(* ------------------------------------------------------------------ a single-component word *)

Definition no_slash (w : str) : bool := negb (existsb (fun c => c =? SLASH) w).

Lemma split_slash_noslash : forall w cur,
  no_slash w = true -> split_slash w cur = [rev cur ++ w].
Proof.
  induction w as [|c w IH]; intros cur H; simpl.
  - rewrite app_nil_r. reflexivity.
  - unfold no_slash in H. simpl in H. rewrite negb_orb, andb_true_iff in H. destruct H as [H1 H2].
    apply negb_true_iff in H1. rewrite H1. rewrite IH by exact H2. simpl. rewrite <- app_assoc. reflexivity.
Qed.

Lemma has_meta_not_special : forall w, has_meta w = true -> is_special_part w = false.
Proof.
  intros w H. unfold is_special_part.
  destruct (str_eqb w []) eqn:E1; [apply str_eqb_true in E1; subst; discriminate|].
  destruct (str_eqb w [DOT]) eqn:E2; [apply str_eqb_true in E2; subst; discriminate|].
  destruct (str_eqb w [DOT; DOT]) eqn:E3; [apply str_eqb_true in E3; subst; discriminate|].
  reflexivity.
Qed.

Definition drop_empty (l : list str) : list str := match l with [] :: r => r | _ => l end.

Lemma read_dir_root : forall fs, read_dir fs [] = inr (entries_of fs []).
Proof.
  intros. unfold read_dir. cbn [split_slash rev].
  assert (E : resolve 8 fs [] [[]] = inr []) by reflexivity. rewrite E.
  destruct fs; reflexivity.
Qed.

Lemma map_join_root : forall l : list (str * kind), map (fun e => path_join2 [] (fst e)) l = map fst l.
Proof. intros. apply map_ext. reflexivity. Qed.

Lemma glob_single : forall fs o w,
  no_slash w = true ->
  has_meta w = true ->
  (str_eqb w [42; 42] && o_star o) = false ->
  glob fs o w =
  GOk (drop_empty (sort_paths (map fst (filter (fun e => comp_matcher (o_dot o) w (fst e)) (entries_of fs []))))).
Proof.
  intros fs o w Hns Hm Hgs. unfold glob.
  rewrite (split_slash_noslash w [] Hns). simpl rev. simpl app.
  cbn [glob_parts]. rewrite (has_meta_not_special w Hm). rewrite Hm. cbn [negb]. rewrite Hgs.
  unfold glob_dir. rewrite read_dir_root. cbn [andb].
  rewrite map_join_root. rewrite app_nil_r. f_equal. unfold drop_empty.
  destruct (sort_paths (map fst (filter (fun e => comp_matcher (o_dot o) w (fst e)) (entries_of fs [])))) as [|[|c h] t];
    reflexivity.
Qed.

Lemma In_ins_str : forall x y l, In x (ins_str y l) <-> x = y \/ In x l.
Proof.
  intros x y l. induction l as [|z l IH]; simpl.
  - intuition.
  - destruct (cmp_str y z); simpl; rewrite ?IH; intuition.
Qed.

Lemma In_sort_strs : forall x l, In x (sort_strs l) <-> In x l.
Proof.
  intros x l. induction l as [|y l IH]; simpl; [reflexivity|].
  unfold sort_strs in *. simpl. rewrite In_ins_str, IH. intuition.
Qed.

(* every path returned is an entry of the directory whose name matches like bash says, and
   every such entry is returned (the empty name cannot occur: entries have non-empty names) *)
Lemma glob_single_members : forall fs o w n,
  no_slash w = true -> has_meta w = true -> (str_eqb w [42; 42] && o_star o) = false ->
  simple_comp w = true ->
  (forall k, ~ In ([], k) (entries_of fs [])) ->
  (exists l, glob fs o w = GOk l /\
     (In n l <-> (exists k, In (n, k) (entries_of fs [])) /\ bash_name_matches (o_dot o) w n)).
Proof.
  intros fs o w n Hns Hm Hgs Hsc Hne.
  eexists. split; [apply glob_single; assumption|].
  set (fl := filter (fun e => comp_matcher (o_dot o) w (fst e)) (entries_of fs [])).
  assert (Hin : In n (sort_paths (map fst fl)) <->
                (exists k, In (n, k) (entries_of fs [])) /\ bash_name_matches (o_dot o) w n).
  { unfold sort_paths. rewrite In_sort_strs, in_map_iff. split.
    - intros ((n', k) & E & H). simpl in E. subst n'. unfold fl in H. apply filter_In in H.
      destruct H as [H1 H2]. simpl in H2. split; [exists k; exact H1|].
      apply comp_matcher_spec; assumption.
    - intros ((k & H1) & H2). exists (n, k). split; [reflexivity|]. unfold fl. apply filter_In. split; [exact H1|].
      simpl. apply comp_matcher_spec; assumption. }
  assert (Hnoempty : ~ In [] (sort_paths (map fst fl))).
  { unfold sort_paths. rewrite In_sort_strs, in_map_iff. intros ((n', k) & E & H). simpl in E. subst n'.
    unfold fl in H. apply filter_In in H. destruct H as [H _]. exact (Hne k H). }
  destruct (sort_paths (map fst fl)) as [|h t] eqn:Es; [exact Hin|].
  destruct h as [|c h']; [exfalso; apply Hnoempty; left; reflexivity|].
  exact Hin.
Qed.

(* the result is sorted bytewise: insertion with cmp_str *)
Fixpoint sorted_strs (l : list str) : Prop :=
  match l with
  | [] => True
  | x :: r => match r with [] => True | y :: _ => cmp_str x y <> Gt end /\ sorted_strs r
  end.

Lemma cmp_str_gt_lt : forall a b, cmp_str a b = Gt -> cmp_str b a <> Gt.
Proof.
  induction a as [|x a IH]; destruct b as [|y b]; simpl; try discriminate.
  intros H. destruct (N.compare x y) eqn:E.
  - apply N.compare_eq in E. subst. rewrite N.compare_refl. apply IH. exact H.
  - discriminate.
  - rewrite N.compare_antisym, E. simpl. discriminate.
Qed.

Lemma ins_str_sorted : forall x l, sorted_strs l -> sorted_strs (ins_str x l).
Proof.
  intros x l. induction l as [|y l IH]; intros Hs; simpl.
  - split; exact I.
  - destruct (cmp_str x y) eqn:E.
    + simpl. split; [rewrite E; discriminate|exact Hs].
    + simpl. split; [rewrite E; discriminate|exact Hs].
    + destruct Hs as [Hy Hs]. specialize (IH Hs).
      simpl. split; [|exact IH].
      destruct l as [|z l]; simpl.
      * apply cmp_str_gt_lt. exact E.
      * destruct (cmp_str x z) eqn:E2.
        -- apply cmp_str_gt_lt. exact E.
        -- apply cmp_str_gt_lt. exact E.
        -- exact Hy.
Qed.

Lemma sort_strs_sorted : forall l, sorted_strs (sort_strs l).
Proof.
  induction l as [|x l IH]; simpl; [exact I|]. unfold sort_strs in *. simpl. apply ins_str_sorted. exact IH.
Qed.

Lemma drop_empty_sorted : forall l, sorted_strs l -> sorted_strs (drop_empty l).
Proof. intros [|[|c h] t] H; simpl in *; try exact H. destruct H as [_ H]. exact H. Qed.

Lemma glob_single_sorted : forall fs o w l,
  no_slash w = true -> has_meta w = true -> (str_eqb w [42; 42] && o_star o) = false ->
  glob fs o w = GOk l -> sorted_strs l.
Proof.
  intros fs o w l Hns Hm Hgs H. rewrite (glob_single fs o w Hns Hm Hgs) in H. inversion H; subst.
  apply drop_empty_sorted. apply sort_strs_sorted.
Qed.
