(* Proofs/GlobProofs.v — proofs about Expand/Glob.v. *)
From Verif Require Import Base.Str Proofs.StrProofs Expand.Param Expand.ParamSpec Expand.Glob Expand.GlobSpec.
From Coq Require Import ZifyN ZifyNat ZifyBool.
Open Scope N_scope.

Lemma noglob_word : forall fs o w, o_noglob o = true -> glob_word fs o w = GOk [w].
Proof. intros. unfold glob_word. rewrite H. rewrite andb_false_r. reflexivity. Qed.

Lemma no_meta_word : forall fs o w, has_meta w = false -> glob_word fs o w = GOk [w].
Proof. intros. unfold glob_word. rewrite H. reflexivity. Qed.

(* nothing matches: the word itself, or nothing under nullglob *)
Lemma nullglob_word : forall fs o w,
  has_meta w = true -> o_noglob o = false -> glob fs o w = GOk [] ->
  glob_word fs o w = GOk (if o_null o then [] else [w]).
Proof.
  intros fs o w Hm Hn Hg. unfold glob_word. rewrite Hm, Hn, Hg. simpl.
  destruct (o_null o); reflexivity.
Qed.

(* ------------------------------------------------------------------ the component matcher vs the Spec *)

Lemma any_suffix_true : forall f s,
  any_suffix f s = true <-> exists pre suf, s = pre ++ suf /\ f suf = true.
Proof.
  intros f s. induction s as [|c s IH]; simpl.
  - rewrite orb_false_r. split.
    + intros H. exists [], []. split; [reflexivity|assumption].
    + intros (pre & suf & E & H). destruct pre; destruct suf; try discriminate. assumption.
  - rewrite orb_true_iff, IH. split.
    + intros [H|(pre & suf & E & H)].
      * exists [], (c :: s). split; [reflexivity|assumption].
      * exists (c :: pre), suf. split; [simpl; congruence|assumption].
    + intros (pre & suf & E & H). destruct pre as [|d pre].
      * left. simpl in E. subst suf. assumption.
      * right. simpl in E. inversion E; subst. exists pre, suf. split; [reflexivity|assumption].
Qed.

Lemma pmatch_star_app : forall p pre s, pmatch p s -> pmatch (TStar :: p) (pre ++ s).
Proof.
  intros p pre s H. induction pre as [|c pre IH]; simpl.
  - apply pm_star_0. assumption.
  - apply pm_star_S. assumption.
Qed.

Lemma pmatch_star_inv : forall p s, pmatch (TStar :: p) s -> exists pre suf, s = pre ++ suf /\ pmatch p suf.
Proof.
  intros p s H. remember (TStar :: p) as q eqn:E. induction H; try discriminate.
  - inversion E; subst. exists [], s. split; [reflexivity|assumption].
  - destruct (IHpmatch E) as (pre & suf & E' & Hm). subst s.
    exists (c :: pre), suf. split; [reflexivity|assumption].
Qed.

Definition spec_tok (t : gtok) : ptok :=
  match t with GLit c => TLit c | GAny => TAny | GStar | GStarNoDot => TStar end.

Fixpoint no_nodot (p : list gtok) : bool :=
  match p with [] => true | GStarNoDot :: _ => false | _ :: r => no_nodot r end.

Lemma gmatch_pmatch : forall p s,
  no_nodot p = true -> (gmatch p s = true <-> pmatch (map spec_tok p) s).
Proof.
  induction p as [|t p IH]; intros s Hn.
  - simpl. destruct s; split; intros H; try discriminate; try constructor. inversion H.
  - destruct t; simpl in Hn; try discriminate; simpl.
    + destruct s as [|d s].
      * split; [discriminate|]. intros H; inversion H.
      * rewrite andb_true_iff, N.eqb_eq, (IH s Hn). split.
        -- intros [-> H]. constructor. assumption.
        -- intros H. inversion H; subst. split; [reflexivity|assumption].
    + destruct s as [|d s].
      * split; [discriminate|]. intros H; inversion H.
      * rewrite (IH s Hn). split.
        -- intros H. constructor. assumption.
        -- intros H. inversion H; subst. assumption.
    + rewrite any_suffix_true. split.
      * intros (pre & suf & -> & H). apply pmatch_star_app. apply IH; assumption.
      * intros H. destruct (pmatch_star_inv _ _ H) as (pre & suf & -> & Hm).
        exists pre, suf. split; [reflexivity|]. apply IH; assumption.
Qed.

(* a leading GStarNoDot behaves like a star on names that do not start with a dot *)
Lemma gmatch_nodot_star : forall p s,
  starts_with_dot s = false ->
  gmatch (GStarNoDot :: p) s = gmatch (GStar :: p) s.
Proof.
  intros p s Hd. simpl. destruct s as [|d s]; simpl.
  - rewrite !orb_false_r. reflexivity.
  - simpl in Hd. rewrite Hd. simpl. reflexivity.
Qed.

(* components without a backslash, a bracket or two adjacent stars *)
Fixpoint simple_comp (s : str) : bool :=
  match s with
  | [] => true
  | c :: r => negb (c =? 92) && negb (c =? 91) &&
              match r with d :: _ => negb ((c =? 42) && (d =? 42)) | [] => true end && simple_comp r
  end.

Lemma comp_toks_tail : forall dg s,
  simple_comp s = true ->
  no_nodot (comp_toks false dg s) = true /\ map spec_tok (comp_toks false dg s) = spec_comp_toks s.
Proof.
  intros dg s. induction s as [|c s IH]; intros H; [split; reflexivity|].
  simpl in H. rewrite !andb_true_iff in H. destruct H as [[[H1 H2] H3] H4].
  specialize (IH H4). destruct IH as [IHa IHb].
  change (spec_comp_toks (c :: s)) with ((if c =? 42 then TStar else if c =? 63 then TAny else TLit c) :: spec_comp_toks s).
  cbn [comp_toks]. cbv zeta. simpl andb.
  destruct (c =? 42) eqn:E42.
  - destruct s as [|d s'].
    + split; reflexivity.
    + simpl in H3. destruct (d =? 42) eqn:Ed; [discriminate|].
      cbn [no_nodot map spec_tok]. split; [exact IHa|]. f_equal. exact IHb.
  - destruct (c =? 63); cbn [no_nodot map spec_tok]; (split; [exact IHa| f_equal; exact IHb]).
Qed.

Lemma comp_matcher_spec : forall dg part name,
  simple_comp part = true ->
  (comp_matcher dg part name = true <-> bash_name_matches dg part name).
Proof.
  intros dg part name Hs. unfold comp_matcher, bash_name_matches.
  rewrite andb_true_iff, !orb_true_iff, negb_true_iff.
  assert (Hm : forall ok : dg = true \/ starts_with_dot part = true \/ starts_with_dot name = false,
             gmatch (comp_toks true dg part) name = true <-> pmatch (spec_comp_toks part) name).
  { intros ok. destruct part as [|c r]; [simpl; destruct name; split; intros H; try discriminate; try constructor; inversion H|].
    simpl in Hs. rewrite !andb_true_iff in Hs. destruct Hs as [[[H1 H2] H3] H4].
    destruct (comp_toks_tail dg r H4) as [Ta Tb].
    change (spec_comp_toks (c :: r)) with ((if c =? 42 then TStar else if c =? 63 then TAny else TLit c) :: spec_comp_toks r).
    cbn [comp_toks]. cbv zeta.
    destruct (c =? 42) eqn:E42.
    - (* leading star *)
      assert (Hr : comp_toks false dg (match r with d :: r' => if d =? 42 then r' else r | [] => [] end) = comp_toks false dg r).
      { destruct r as [|d r']; [reflexivity|]. simpl in H3. destruct (d =? 42); [discriminate|reflexivity]. }
      assert (Hgoal : gmatch ((if true && negb dg then GStarNoDot else GStar) :: comp_toks false dg r) name = true
                      <-> pmatch (TStar :: spec_comp_toks r) name).
      { destruct dg; simpl andb; cbv iota.
        - rewrite <- Tb. apply (gmatch_pmatch (GStar :: comp_toks false true r)). exact Ta.
        - assert (Hnd : starts_with_dot name = false).
          { destruct ok as [ok|[ok|ok]]; [discriminate| |exact ok].
            simpl in ok. apply N.eqb_eq in ok. apply N.eqb_eq in E42. subst c. discriminate. }
          rewrite (gmatch_nodot_star _ _ Hnd). rewrite <- Tb.
          apply (gmatch_pmatch (GStar :: comp_toks false false r)). exact Ta. }
      destruct r as [|d r'].
      + exact Hgoal.
      + simpl in H3. destruct (d =? 42) eqn:Ed; [discriminate|]. exact Hgoal.
    - destruct (c =? 63) eqn:E63.
      + rewrite <- Tb. apply (gmatch_pmatch (GAny :: comp_toks false dg r)). exact Ta.
      + rewrite <- Tb. apply (gmatch_pmatch (GLit c :: comp_toks false dg r)). exact Ta. }
  split.
  - intros [ok H]. split.
    + destruct ok as [[ok|ok]|ok]; auto.
    + apply Hm; [|exact H]. destruct ok as [[ok|ok]|ok]; auto.
  - intros [ok H]. split.
    + destruct ok as [ok|[ok|ok]]; auto.
    + apply Hm; assumption.
Qed.

(* ------------------------------------------------------------------ a single-component word *)

Definition no_slash (w : str) : bool := negb (existsb (fun c => c =? SLASH) w).

Lemma split_slash_noslash : forall w cur,
  no_slash w = true -> split_slash w cur = [rev cur ++ w].
Proof.
  induction w as [|c w IH]; intros cur H; simpl.
  - rewrite app_nil_r. reflexivity.
  - unfold no_slash in H. simpl in H. rewrite negb_orb, andb_true_iff in H. destruct H as [H1 H2].
    apply negb_true_iff in H1. rewrite H1. rewrite IH by exact H2. simpl. rewrite <- app_assoc. reflexivity.
Qed.

Lemma has_meta_not_special : forall w, has_meta w = true -> is_special_part w = false.
Proof.
  intros w H. unfold is_special_part.
  destruct (str_eqb w []) eqn:E1; [apply str_eqb_true in E1; subst; discriminate|].
  destruct (str_eqb w [DOT]) eqn:E2; [apply str_eqb_true in E2; subst; discriminate|].
  destruct (str_eqb w [DOT; DOT]) eqn:E3; [apply str_eqb_true in E3; subst; discriminate|].
  reflexivity.
Qed.

Definition drop_empty (l : list str) : list str := match l with [] :: r => r | _ => l end.

Lemma read_dir_root : forall fs, read_dir fs [] = inr (entries_of fs []).
Proof.
  intros. unfold read_dir. cbn [split_slash rev].
  assert (E : resolve 8 fs [] [[]] = inr []) by reflexivity. rewrite E.
  destruct fs; reflexivity.
Qed.

Lemma map_join_root : forall l : list (str * kind), map (fun e => path_join2 [] (fst e)) l = map fst l.
Proof. intros. apply map_ext. reflexivity. Qed.

Lemma glob_single : forall fs o w,
  no_slash w = true ->
  has_meta w = true ->
  (str_eqb w [42; 42] && o_star o) = false ->
  glob fs o w =
  GOk (drop_empty (sort_paths (map fst (filter (fun e => comp_matcher (o_dot o) w (fst e)) (entries_of fs []))))).
Proof.
  intros fs o w Hns Hm Hgs. unfold glob.
  rewrite (split_slash_noslash w [] Hns). simpl rev. simpl app.
  cbn [glob_parts]. rewrite (has_meta_not_special w Hm). rewrite Hm. cbn [negb]. rewrite Hgs.
  cbn [glob_dirs]. unfold glob_dir. rewrite read_dir_root. cbn [andb].
  rewrite map_join_root. rewrite app_nil_r. f_equal. unfold drop_empty.
  destruct (sort_paths (map fst (filter (fun e => comp_matcher (o_dot o) w (fst e)) (entries_of fs [])))) as [|[|c h] t];
    reflexivity.
Qed.

Lemma In_ins_str : forall x y l, In x (ins_str y l) <-> x = y \/ In x l.
Proof.
  intros x y l. induction l as [|z l IH]; simpl.
  - intuition.
  - destruct (cmp_str y z); simpl; rewrite ?IH; intuition.
Qed.

Lemma In_sort_strs : forall x l, In x (sort_strs l) <-> In x l.
Proof.
  intros x l. induction l as [|y l IH]; simpl; [reflexivity|].
  unfold sort_strs in *. simpl. rewrite In_ins_str, IH. intuition.
Qed.

(* every path returned is an entry of the directory whose name matches like bash says, and
   every such entry is returned (the empty name cannot occur: entries have non-empty names) *)
Lemma glob_single_members : forall fs o w n,
  no_slash w = true -> has_meta w = true -> (str_eqb w [42; 42] && o_star o) = false ->
  simple_comp w = true ->
  (forall k, ~ In ([], k) (entries_of fs [])) ->
  (exists l, glob fs o w = GOk l /\
     (In n l <-> (exists k, In (n, k) (entries_of fs [])) /\ bash_name_matches (o_dot o) w n)).
Proof.
  intros fs o w n Hns Hm Hgs Hsc Hne.
  eexists. split; [apply glob_single; assumption|].
  set (fl := filter (fun e => comp_matcher (o_dot o) w (fst e)) (entries_of fs [])).
  assert (Hin : In n (sort_paths (map fst fl)) <->
                (exists k, In (n, k) (entries_of fs [])) /\ bash_name_matches (o_dot o) w n).
  { unfold sort_paths. rewrite In_sort_strs, in_map_iff. split.
    - intros ((n', k) & E & H). simpl in E. subst n'. unfold fl in H. apply filter_In in H.
      destruct H as [H1 H2]. simpl in H2. split; [exists k; exact H1|].
      apply comp_matcher_spec; assumption.
    - intros ((k & H1) & H2). exists (n, k). split; [reflexivity|]. unfold fl. apply filter_In. split; [exact H1|].
      simpl. apply comp_matcher_spec; assumption. }
  assert (Hnoempty : ~ In [] (sort_paths (map fst fl))).
  { unfold sort_paths. rewrite In_sort_strs, in_map_iff. intros ((n', k) & E & H). simpl in E. subst n'.
    unfold fl in H. apply filter_In in H. destruct H as [H _]. exact (Hne k H). }
  destruct (sort_paths (map fst fl)) as [|h t] eqn:Es; [exact Hin|].
  destruct h as [|c h']; [exfalso; apply Hnoempty; left; reflexivity|].
  exact Hin.
Qed.

(* the result is sorted bytewise: insertion with cmp_str *)
Fixpoint sorted_strs (l : list str) : Prop :=
  match l with
  | [] => True
  | x :: r => match r with [] => True | y :: _ => cmp_str x y <> Gt end /\ sorted_strs r
  end.

Lemma cmp_str_gt_lt : forall a b, cmp_str a b = Gt -> cmp_str b a <> Gt.
Proof.
  induction a as [|x a IH]; destruct b as [|y b]; simpl; try discriminate.
  intros H. destruct (N.compare x y) eqn:E.
  - apply N.compare_eq in E. subst. rewrite N.compare_refl. apply IH. exact H.
  - discriminate.
  - rewrite N.compare_antisym, E. simpl. discriminate.
Qed.

Lemma ins_str_sorted : forall x l, sorted_strs l -> sorted_strs (ins_str x l).
Proof.
  intros x l. induction l as [|y l IH]; intros Hs; simpl.
  - split; exact I.
  - destruct (cmp_str x y) eqn:E.
    + simpl. split; [rewrite E; discriminate|exact Hs].
    + simpl. split; [rewrite E; discriminate|exact Hs].
    + destruct Hs as [Hy Hs]. specialize (IH Hs).
      simpl. split; [|exact IH].
      destruct l as [|z l]; simpl.
      * apply cmp_str_gt_lt. exact E.
      * destruct (cmp_str x z) eqn:E2.
        -- apply cmp_str_gt_lt. exact E.
        -- apply cmp_str_gt_lt. exact E.
        -- exact Hy.
Qed.

Lemma sort_strs_sorted : forall l, sorted_strs (sort_strs l).
Proof.
  induction l as [|x l IH]; simpl; [exact I|]. unfold sort_strs in *. simpl. apply ins_str_sorted. exact IH.
Qed.

Lemma drop_empty_sorted : forall l, sorted_strs l -> sorted_strs (drop_empty l).
Proof. intros [|[|c h] t] H; simpl in *; try exact H. destruct H as [_ H]. exact H. Qed.

Lemma glob_single_sorted : forall fs o w l,
  no_slash w = true -> has_meta w = true -> (str_eqb w [42; 42] && o_star o) = false ->
  glob fs o w = GOk l -> sorted_strs l.
Proof.
  intros fs o w l Hns Hm Hgs H. rewrite (glob_single fs o w Hns Hm Hgs) in H. inversion H; subst.
  apply drop_empty_sorted. apply sort_strs_sorted.
Qed.

(* ------------------------------------------------------------------ several components (no active "**") *)

Definition no_globstar (o : gopts) (parts : list str) : Prop :=
  forall p, In p parts -> (str_eqb p [42; 42] && o_star o) = false.

Definition all_simple (parts : list str) : Prop := forall p, In p parts -> simple_comp p = true.

Definition keep_entry (fs : fsys) (dir : str) (want_dir : bool) (e : str * kind) : bool :=
  if want_dir then
    match snd e with
    | KLink _ => match read_dir fs (path_join2 dir (fst e)) with inr _ => true | inl _ => false end
    | KDir => true
    | KFile => false
    end
  else true.

Lemma keep_entry_spec : forall fs dir wd e,
  keep_entry fs dir wd e = true <-> (wd = true -> entry_is_dir fs dir e).
Proof.
  intros fs dir wd [n k]. unfold keep_entry, entry_is_dir. simpl. destruct wd.
  - destruct k as [| |t].
    + split; [intros H; discriminate|intros H; destruct (H eq_refl)].
    + split; auto.
    + destruct (read_dir fs (path_join2 dir n)) as [e|ents].
      * split; [discriminate|]. intros H. destruct (H eq_refl) as [x Hx]. discriminate.
      * split; [intros _ _; exists ents; reflexivity|reflexivity].
  - split; [intros _ H; discriminate|reflexivity].
Qed.

Lemma glob_dir_in : forall fs d matcher wd new links m',
  glob_dir fs d matcher wd = Some (new, links) ->
  (In m' new <-> exists ents e, read_dir fs d = inr ents /\ In e ents /\
                   keep_entry fs d wd e = true /\ matcher (fst e) = true /\ m' = path_join2 d (fst e)).
Proof.
  intros fs d matcher wd new links m' H. unfold glob_dir in H.
  destruct (read_dir fs d) as [err|ents] eqn:E; [discriminate|]. inversion H; subst. clear H.
  rewrite in_map_iff. split.
  - intros (e & Em & Hf). apply filter_In in Hf. destruct Hf as [Hi Hk].
    apply andb_true_iff in Hk. destruct Hk as [Hk Hm].
    exists ents, e. repeat split; auto.
  - intros (ents' & e & Er & Hi & Hk & Hm & Em). inversion Er; subst ents'.
    exists e. split; [symmetry; exact Em|]. apply filter_In. split; [exact Hi|].
    apply andb_true_iff. split; assumption.
Qed.

Lemma glob_dirs_in : forall fs matcher wd ds ms m',
  glob_dirs fs matcher wd ds = Some ms ->
  (In m' ms <-> exists d, In d ds /\ exists ents e, read_dir fs d = inr ents /\ In e ents /\
                   keep_entry fs d wd e = true /\ matcher (fst e) = true /\ m' = path_join2 d (fst e)).
Proof.
  intros fs matcher wd ds. induction ds as [|d ds IH]; intros ms m' H; simpl in H.
  - inversion H; subst. split; [intros []|intros (d & [] & _)].
  - destruct (glob_dir fs d matcher wd) as [[new links]|] eqn:E; [|discriminate].
    destruct (glob_dirs fs matcher wd ds) as [more|] eqn:E2; [|discriminate].
    inversion H; subst. rewrite in_app_iff. rewrite (glob_dir_in _ _ _ _ _ _ m' E). rewrite (IH more m' eq_refl).
    split.
    + intros [Hd|(d' & Hi & Hr)]; [exists d; split; [left; reflexivity|exact Hd]|exists d'; split; [right; exact Hi|exact Hr]].
    + intros (d' & [<-|Hi] & Hr); [left; exact Hr|right; exists d'; split; assumption].
Qed.

Lemma glob_parts_spec : forall fs o fuel parts matches ms,
  no_globstar o parts -> all_simple parts ->
  glob_parts fuel fs o parts matches = GOk ms ->
  forall p, In p ms <-> exists m, In m matches /\ path_rel fs (o_dot o) parts m p.
Proof.
  intros fs o fuel parts. induction parts as [|part rest IH]; intros matches ms Hg Hs H p.
  - simpl in H. inversion H; subst. simpl. split.
    + intros Hi. exists p. split; [exact Hi|reflexivity].
    + intros (m & Hi & ->). exact Hi.
  - assert (Hg' : no_globstar o rest) by (intros q Hq; apply Hg; right; exact Hq).
    assert (Hs' : all_simple rest) by (intros q Hq; apply Hs; right; exact Hq).
    assert (Hgs : (str_eqb part [42; 42] && o_star o) = false) by (apply Hg; left; reflexivity).
    assert (Hsp : simple_comp part = true) by (apply Hs; left; reflexivity).
    cbn [glob_parts] in H. cbn [path_rel]. unfold step_rel.
    destruct (is_special_part part) eqn:Esp.
    + rewrite (IH _ _ Hg' Hs' H p). split.
      * intros (m' & Hi & Hr). apply in_map_iff in Hi. destruct Hi as (m & <- & Hm).
        exists m. split; [exact Hm|]. exists (path_join2 m part). split; [reflexivity|exact Hr].
      * intros (m & Hm & m' & -> & Hr). exists (path_join2 m part). split; [|exact Hr].
        apply in_map_iff. exists m. split; [reflexivity|exact Hm].
    + destruct (has_meta part) eqn:Ehm; cbn [negb] in *.
      * (* wildcard component *)
        rewrite Hgs in H.
        destruct (glob_dirs fs (comp_matcher (o_dot o) part)
                            (match rest with [] => false | _ :: _ => true end) matches) as [ms1|] eqn:Egd; [|discriminate].
        rewrite (IH _ _ Hg' Hs' H p). split.
        -- intros (m' & Hi & Hr).
           apply (proj1 (glob_dirs_in _ _ _ _ _ m' Egd)) in Hi.
           destruct Hi as (d & Hd & ents & e & Er & Hie & Hk & Hm & ->).
           exists d. split; [exact Hd|]. exists (path_join2 d (fst e)). split; [|exact Hr].
           exists ents, e. repeat split; auto.
           ++ apply keep_entry_spec. exact Hk.
           ++ apply (proj1 (comp_matcher_spec (o_dot o) part (fst e) Hsp)) in Hm. apply Hm.
           ++ apply (proj1 (comp_matcher_spec (o_dot o) part (fst e) Hsp)) in Hm. apply Hm.
        -- intros (m & Hm & m' & (ents & e & Er & Hie & Hk & Hb & ->) & Hr).
           exists (path_join2 m (fst e)). split; [|exact Hr].
           apply (proj2 (glob_dirs_in _ _ _ _ _ _ Egd)).
           exists m. split; [exact Hm|]. exists ents, e. repeat split; auto.
           ++ apply keep_entry_spec. exact Hk.
           ++ apply comp_matcher_spec; assumption.
      * (* literal component *)
        rewrite (IH _ _ Hg' Hs' H p). split.
        -- intros (m' & Hi & Hr). apply in_flat_map in Hi. destruct Hi as (m & Hm & Hi).
           exists m. split; [exact Hm|]. exists m'. split; [|exact Hr].
           destruct (read_dir fs (path_join2 m part)) as [[|]|ents] eqn:Er.
           ++ destruct Hi.
           ++ destruct rest; simpl in Hi.
              ** destruct Hi as [<-|[]]. split; [reflexivity|]. rewrite Er. reflexivity.
              ** destruct Hi.
           ++ destruct Hi as [<-|[]]. split; [reflexivity|]. rewrite Er. exact I.
        -- intros (m & Hm & m' & (-> & Hc) & Hr). exists (path_join2 m part). split; [|exact Hr].
           apply in_flat_map. exists m. split; [exact Hm|].
           destruct (read_dir fs (path_join2 m part)) as [[|]|ents] eqn:Er.
           ++ destruct Hc.
           ++ rewrite Hc. left. reflexivity.
           ++ left. reflexivity.
Qed.

Lemma In_drop_empty : forall p l, p <> [] -> (In p (drop_empty l) <-> In p l).
Proof.
  intros p [|[|c h] t] Hp; simpl; try reflexivity.
  split; [auto|]. intros [H|H]; [congruence|exact H].
Qed.

(* the whole word: every non-empty path returned is a path of the tree whose components match,
   every such path is returned, and the result is sorted bytewise *)
Theorem glob_matches_spec : forall fs o w l,
  no_globstar o (split_slash w []) -> all_simple (split_slash w []) ->
  glob fs o w = GOk l ->
  sorted_strs l /\
  forall p, p <> [] -> (In p l <-> path_rel fs (o_dot o) (split_slash w []) [] p).
Proof.
  intros fs o w l Hg Hs H. unfold glob in H.
  destruct (glob_parts 4096 fs o (split_slash w []) [[]]) as [ms| | |] eqn:E; try discriminate.
  inversion H; subst. clear H.
  assert (Hd : match sort_paths ms with [] :: r => r | l0 => l0 end = drop_empty (sort_paths ms))
    by (destruct (sort_paths ms) as [|[|c h] t]; reflexivity).
  rewrite Hd. split.
  - apply drop_empty_sorted. apply sort_strs_sorted.
  - intros p Hp.
    rewrite (In_drop_empty p _ Hp). unfold sort_paths. rewrite In_sort_strs.
    rewrite (glob_parts_spec fs o 4096 _ _ _ Hg Hs E p). split.
    + intros (m & [<-|[]] & Hr). exact Hr.
    + intros Hr. exists []. split; [left; reflexivity|exact Hr].
Qed.

(* ------------------------------------------------------------------ "**" *)

Lemma star_matcher_spec : forall dg n, star_matcher dg n = true <-> star_ok dg n.
Proof.
  intros dg n. unfold star_matcher, star_ok. destruct dg; simpl.
  - split; auto.
  - destruct n as [|c r].
    + split; [discriminate|]. intros [H|(c & r & H & _)]; discriminate.
    + rewrite negb_true_iff. split.
      * intros H. right. exists c, r. split; [reflexivity|]. intros ->. discriminate.
      * intros [H|(c' & r' & E & Hc)]; [discriminate|]. inversion E; subst.
        destruct (N.eqb_spec c' DOT); [contradiction|reflexivity].
Qed.

Lemma gs_child_glob_dir : forall fs dg wd d c,
  gs_child fs dg wd d c <->
  exists new nl, glob_dir fs d (star_matcher dg) wd = Some (new, nl) /\ In c new.
Proof.
  intros fs dg wd d c. split.
  - intros (ents & e & Er & Hi & Hk & Hs & ->).
    destruct (glob_dir fs d (star_matcher dg) wd) as [[new nl]|] eqn:E.
    + exists new, nl. split; [reflexivity|]. apply (proj2 (glob_dir_in _ _ _ _ _ _ _ E)).
      exists ents, e. repeat split; auto.
      * apply keep_entry_spec. exact Hk.
      * apply star_matcher_spec. exact Hs.
    + unfold glob_dir in E. rewrite Er in E. discriminate.
  - intros (new & nl & E & Hi). apply (proj1 (glob_dir_in _ _ _ _ _ _ _ E)) in Hi.
    destruct Hi as (ents & e & Er & Hie & Hk & Hm & ->). exists ents, e. repeat split; auto.
    + apply keep_entry_spec. exact Hk.
    + apply star_matcher_spec. exact Hm.
Qed.

(* every path the walk yields is the start or lies zero or more matching levels below a stacked directory *)
Lemma globstar_sound : forall fs dg wd li fuel stack links acc out,
  globstar_loop fuel fs dg wd li stack links acc = Some out ->
  forall p, In p out -> In p acc \/ exists s, In s stack /\ gs_desc fs dg wd s p.
Proof.
  intros fs dg wd li. induction fuel as [|f IH]; intros stack links acc out H p Hp; [discriminate|].
  simpl in H. destruct stack as [|dir st].
  - inversion H; subst. left. exact Hp.
  - destruct (in_strs dir links).
    + destruct (IH _ _ _ _ H p Hp) as [Ha|(s & Hs & Hd)].
      * destruct li; [left; exact Ha|]. apply in_app_iff in Ha. destruct Ha as [Ha|[<-|[]]]; [left; exact Ha|].
        right. exists dir. split; [left; reflexivity|constructor].
      * right. exists s. split; [right; exact Hs|exact Hd].
    + destruct (glob_dir fs dir (star_matcher dg) wd) as [[new nl]|] eqn:E.
      * destruct (IH _ _ _ _ H p Hp) as [Ha|(s & Hs & Hd)].
        -- apply in_app_iff in Ha. destruct Ha as [Ha|[<-|[]]]; [left; exact Ha|].
           right. exists dir. split; [left; reflexivity|constructor].
        -- apply in_app_iff in Hs. destruct Hs as [Hs|Hs].
           ++ right. exists dir. split; [left; reflexivity|].
              apply gd_step with (c := s); [|exact Hd]. apply gs_child_glob_dir. exists new, nl. auto.
           ++ right. exists s. split; [right; exact Hs|exact Hd].
      * destruct (IH _ _ _ _ H p Hp) as [Ha|(s & Hs & Hd)].
        -- apply in_app_iff in Ha. destruct Ha as [Ha|[<-|[]]]; [left; exact Ha|].
           right. exists dir. split; [left; reflexivity|constructor].
        -- right. exists s. split; [right; exact Hs|exact Hd].
Qed.

Lemma glob_dir_no_links : forall fs d matcher wd new nl,
  no_symlinks fs -> glob_dir fs d matcher wd = Some (new, nl) -> nl = [].
Proof.
  intros fs d matcher wd new nl Hn H. unfold glob_dir in H.
  destruct (read_dir fs d) as [err|ents] eqn:E; [discriminate|]. inversion H; subst. clear H.
  set (keep := fun e : str * kind => _ && matcher (fst e)).
  assert (Hall : forall l, (forall e, In e l -> In e ents) ->
            filter (fun e : str * kind => match snd e with KLink _ => true | _ => false end) l = []).
  { induction l as [|x l IHl]; intros Hsub; [reflexivity|]. simpl.
    pose proof (Hn d ents x E (Hsub x (or_introl eq_refl))) as Hx.
    destruct (snd x); try contradiction; apply IHl; intros e He; apply Hsub; right; exact He. }
  rewrite Hall; [reflexivity|]. intros e He. apply filter_In in He. apply He.
Qed.

(* without symlinks (and when the fuel sufficed) nothing below a stacked directory is missed *)
Lemma globstar_complete : forall fs dg wd li, no_symlinks fs ->
  forall fuel stack acc out,
  globstar_loop fuel fs dg wd li stack [] acc = Some out ->
  (forall p, In p acc -> In p out) /\
  (forall s p, In s stack -> gs_desc fs dg wd s p -> In p out).
Proof.
  intros fs dg wd li Hn. induction fuel as [|f IH]; intros stack acc out H; [discriminate|].
  simpl in H. destruct stack as [|dir st].
  - inversion H; subst. split; [auto|]. intros s p [].
  - simpl in H. destruct (glob_dir fs dir (star_matcher dg) wd) as [[new nl]|] eqn:E.
    + rewrite (glob_dir_no_links _ _ _ _ _ _ Hn E) in H. simpl in H.
      destruct (IH _ _ _ H) as [IHa IHs]. split.
      * intros p Hp. apply IHa. apply in_app_iff. left. exact Hp.
      * intros s p [<-|Hs] Hd.
        -- inversion Hd as [|d c p' Hc Hd']; subst.
           ++ apply IHa. apply in_app_iff. right. left. reflexivity.
           ++ apply gs_child_glob_dir in Hc. destruct Hc as (new' & nl' & E' & Hi). rewrite E in E'. inversion E'; subst.
              apply (IHs c p); [apply in_app_iff; left; exact Hi|exact Hd'].
        -- apply (IHs s p); [apply in_app_iff; right; exact Hs|exact Hd].
    + destruct (IH _ _ _ H) as [IHa IHs]. split.
      * intros p Hp. apply IHa. apply in_app_iff. left. exact Hp.
      * intros s p [<-|Hs] Hd.
        -- inversion Hd as [|d c p' Hc Hd']; subst.
           ++ apply IHa. apply in_app_iff. right. left. reflexivity.
           ++ apply gs_child_glob_dir in Hc. destruct Hc as (new' & nl' & E' & _). rewrite E in E'. discriminate.
        -- apply (IHs s p Hs Hd).
Qed.

(* one component that is not an active "**": the new match list is exactly the step_rel image *)
Lemma glob_step_spec : forall fs o fuel part rest matches ms,
  (str_eqb part [42; 42] && o_star o) = false -> simple_comp part = true ->
  glob_parts fuel fs o (part :: rest) matches = GOk ms ->
  exists ms1, glob_parts fuel fs o rest ms1 = GOk ms /\
    forall m', In m' ms1 <->
      exists m, In m matches /\ step_rel fs (o_dot o) part (match rest with [] => false | _ => true end) m m'.
Proof.
  intros fs o fuel part rest matches ms Hgs Hsp H.
  cbn [glob_parts] in H. unfold step_rel.
  destruct (is_special_part part) eqn:Esp.
  - eexists. split; [exact H|]. intros m'. rewrite in_map_iff. split.
    + intros (m & <- & Hm). exists m. auto.
    + intros (m & Hm & ->). exists m. auto.
  - destruct (has_meta part) eqn:Ehm; cbn [negb] in *.
    + rewrite Hgs in H.
      destruct (glob_dirs fs (comp_matcher (o_dot o) part)
                          (match rest with [] => false | _ :: _ => true end) matches) as [ms1|] eqn:Egd; [|discriminate].
      exists ms1. split; [exact H|]. intros m'. rewrite (glob_dirs_in _ _ _ _ _ m' Egd). split.
      * intros (d & Hd & ents & e & Er & Hie & Hk & Hm & ->). exists d. split; [exact Hd|].
        exists ents, e. repeat split; auto.
        -- apply keep_entry_spec. exact Hk.
        -- apply (proj1 (comp_matcher_spec (o_dot o) part (fst e) Hsp)) in Hm. apply Hm.
        -- apply (proj1 (comp_matcher_spec (o_dot o) part (fst e) Hsp)) in Hm. apply Hm.
      * intros (m & Hm & ents & e & Er & Hie & Hk & Hb & ->). exists m. split; [exact Hm|].
        exists ents, e. repeat split; auto.
        -- apply keep_entry_spec. exact Hk.
        -- apply comp_matcher_spec; assumption.
    + eexists. split; [exact H|]. intros m'. rewrite in_flat_map. split.
      * intros (m & Hm & Hi). exists m. split; [exact Hm|].
        destruct (read_dir fs (path_join2 m part)) as [[|]|ents] eqn:Er.
        -- destruct Hi.
        -- destruct rest; simpl in Hi.
           ++ destruct Hi as [<-|[]]. split; [reflexivity|]. rewrite Er. reflexivity.
           ++ destruct Hi.
        -- destruct Hi as [<-|[]]. split; [reflexivity|]. rewrite Er. exact I.
      * intros (m & Hm & -> & Hc). exists m. split; [exact Hm|].
        destruct (read_dir fs (path_join2 m part)) as [[|]|ents] eqn:Er.
        -- destruct Hc.
        -- rewrite Hc. left. reflexivity.
        -- left. reflexivity.
Qed.

Definition part_ok (o : gopts) (p : str) : Prop :=
  (str_eqb p [42; 42] && o_star o) = true \/ simple_comp p = true.
Definition all_parts_ok (o : gopts) (parts : list str) : Prop := forall p, In p parts -> part_ok o p.

Lemma globstar_part_unfold : forall fs o fuel part rest matches,
  (str_eqb part [42; 42] && o_star o) = true ->
  glob_parts fuel fs o (part :: rest) matches =
  match globstar_loop fuel fs (o_dot o) (match rest with [] => false | _ => true end)
                      (existsb (fun p => negb (str_eqb p [])) rest)
                      (map (fun m => path_join2 m []) matches) [] [] with
  | None => GOutOfFuel
  | Some ms => glob_parts fuel fs o rest ms
  end.
Proof.
  intros fs o fuel part rest matches H. apply andb_true_iff in H. destruct H as [H1 H2].
  apply str_eqb_true in H1. subst part. cbn [glob_parts].
  change (is_special_part [42; 42]) with false. change (has_meta [42; 42]) with true.
  change (str_eqb [42; 42] [42; 42]) with true. rewrite H2. reflexivity.
Qed.

(* every path returned is a path of the tree whose components match ("**" = zero or more levels) *)
Lemma glob_parts_gs_sound : forall fs o fuel parts matches ms,
  all_parts_ok o parts ->
  glob_parts fuel fs o parts matches = GOk ms ->
  forall p, In p ms -> exists m, In m matches /\ path_rel_gs fs o parts m p.
Proof.
  intros fs o fuel parts. induction parts as [|part rest IH]; intros matches ms Hok H p Hp.
  - simpl in H. inversion H; subst. exists p. split; [exact Hp|reflexivity].
  - assert (Hok' : all_parts_ok o rest) by (intros q Hq; apply Hok; right; exact Hq).
    cbn [path_rel_gs]. unfold step_rel_gs.
    destruct (str_eqb part [42; 42] && o_star o) eqn:Egs.
    + rewrite (globstar_part_unfold _ _ _ _ _ _ Egs) in H.
      destruct (globstar_loop _ _ _ _ _ _ _ _) as [ms1|] eqn:EL; [|discriminate].
      destruct (IH _ _ Hok' H p Hp) as (m' & Hm' & Hr).
      destruct (globstar_sound _ _ _ _ _ _ _ _ _ EL m' Hm') as [[]|(s & Hs & Hd)].
      apply in_map_iff in Hs. destruct Hs as (m & <- & Hm).
      exists m. split; [exact Hm|]. exists m'. split; assumption.
    + destruct (Hok part (or_introl eq_refl)) as [Hc|Hsp]; [congruence|].
      destruct (glob_step_spec _ _ _ _ _ _ _ Egs Hsp H) as (ms1 & H1 & Hstep).
      destruct (IH _ _ Hok' H1 p Hp) as (m' & Hm' & Hr).
      apply Hstep in Hm'. destruct Hm' as (m & Hm & Hs).
      exists m. split; [exact Hm|]. exists m'. split; assumption.
Qed.

(* ... and on a file system without symbolic links none is missed *)
Lemma glob_parts_gs_complete : forall fs o, no_symlinks fs ->
  forall fuel parts matches ms,
  all_parts_ok o parts ->
  glob_parts fuel fs o parts matches = GOk ms ->
  forall m p, In m matches -> path_rel_gs fs o parts m p -> In p ms.
Proof.
  intros fs o Hn fuel parts. induction parts as [|part rest IH]; intros matches ms Hok H m p Hm Hr.
  - simpl in H. inversion H; subst. simpl in Hr. subst. exact Hm.
  - assert (Hok' : all_parts_ok o rest) by (intros q Hq; apply Hok; right; exact Hq).
    cbn [path_rel_gs] in Hr. unfold step_rel_gs in Hr. destruct Hr as (m' & Hs & Hr).
    destruct (str_eqb part [42; 42] && o_star o) eqn:Egs.
    + rewrite (globstar_part_unfold _ _ _ _ _ _ Egs) in H.
      destruct (globstar_loop _ _ _ _ _ _ _ _) as [ms1|] eqn:EL; [|discriminate].
      apply (IH _ _ Hok' H m' p); [|exact Hr].
      apply (proj2 (globstar_complete _ _ _ _ Hn _ _ _ _ EL) (path_join2 m []) m'); [|exact Hs].
      apply in_map_iff. exists m. split; [reflexivity|exact Hm].
    + destruct (Hok part (or_introl eq_refl)) as [Hc|Hsp]; [congruence|].
      destruct (glob_step_spec _ _ _ _ _ _ _ Egs Hsp H) as (ms1 & H1 & Hstep).
      apply (IH _ _ Hok' H1 m' p); [|exact Hr]. apply Hstep. exists m. split; assumption.
Qed.

Theorem glob_globstar_spec : forall fs o w l,
  all_parts_ok o (split_slash w []) ->
  glob fs o w = GOk l ->
  sorted_strs l /\
  (forall p, p <> [] -> In p l -> path_rel_gs fs o (split_slash w []) [] p) /\
  (no_symlinks fs -> forall p, p <> [] -> path_rel_gs fs o (split_slash w []) [] p -> In p l).
Proof.
  intros fs o w l Hok H. unfold glob in H.
  destruct (glob_parts 4096 fs o (split_slash w []) [[]]) as [ms| | |] eqn:E; try discriminate.
  inversion H; subst. clear H.
  assert (Hd : match sort_paths ms with [] :: r => r | l0 => l0 end = drop_empty (sort_paths ms))
    by (destruct (sort_paths ms) as [|[|c h] t]; reflexivity).
  rewrite Hd. split; [|split].
  - apply drop_empty_sorted. apply sort_strs_sorted.
  - intros p Hp Hi. rewrite (In_drop_empty p _ Hp) in Hi. unfold sort_paths in Hi. rewrite In_sort_strs in Hi.
    destruct (glob_parts_gs_sound _ _ _ _ _ _ Hok E p Hi) as (m & [<-|[]] & Hr). exact Hr.
  - intros Hn p Hp Hr. rewrite (In_drop_empty p _ Hp). unfold sort_paths. rewrite In_sort_strs.
    apply (glob_parts_gs_complete _ _ Hn _ _ _ _ Hok E [] p); [left; reflexivity|exact Hr].
Qed.
