(* Proofs/BracketSpecProofs.v — bash's BRACKMATCH (GlobSpec.brackmatch) on well-formed bracket expressions of the
   second fragment: it answers exactly the set membership. *)
From Verif Require Import Base.Str Pattern.Regex Pattern.Translate Pattern.GlobSpec Pattern.Fragment.
From Coq Require Import ZifyN ZifyNat ZifyBool.
Open Scope N_scope.

Lemma plainc_inv : forall c, plainc c = true ->
  (c =? 0) = false /\ (c =? cBSL) = false /\ (c =? cDASH) = false /\ (c =? cRBRK) = false /\ (c =? cLBRK) = false.
Proof. intros c H. unfold plainc in H. apply negb_true_iff in H. repeat rewrite orb_false_iff in H. tauto. Qed.

Definition close_res (neg : bool) (rest : list N) : bres := if neg then BNo else BYes rest.
Definition miss_res (neg : bool) (rest : list N) : bres := if neg then BYes rest else BNo.

Lemma es_text_cons : forall e es, es_text (e :: es) = elem_text e ++ es_text es.
Proof. reflexivity. Qed.

(* --- the "matched:" tail ------------------------------------------------------------- *)
Lemma skip_rest_es : forall es fuel neg t rest oc, forallb elem_ok es = true ->
  (length (es_text es) + 1 <= fuel)%nat ->
  skip_rest fuel neg t (es_text es ++ cRBRK :: rest) 1 None oc = close_res neg rest.
Proof.
  induction es as [|e es IH]; intros fuel neg t rest oc Hok Hf.
  - destruct fuel; [simpl in Hf; lia|]. reflexivity.
  - simpl in Hok. apply andb_true_iff in Hok as [He Hes]. rewrite es_text_cons, <- app_assoc.
    rewrite es_text_cons, app_length in Hf.
    destruct e as [c|c|a b]; simpl in He, Hf.
    + apply plainc_inv in He as (_ & E1 & _ & E3 & E4).
      destruct fuel; [lia|]. cbn [elem_text app skip_rest]. rewrite E4, E3, E1. cbn [andb]. apply IH; auto. lia.
    + destruct fuel; [lia|]. cbn [elem_text app skip_rest].
      change (cBSL =? cLBRK) with false. change (cBSL =? cRBRK) with false. change (cBSL =? cBSL) with true.
      cbn [andb]. apply IH; auto. lia.
    + apply andb_true_iff in He as [He Hle]. apply andb_true_iff in He as [Ha Hb].
      apply plainc_inv in Ha as (_ & A1 & _ & A3 & A4). apply plainc_inv in Hb as (_ & B1 & _ & B3 & B4).
      destruct fuel; [lia|]. destruct fuel; [lia|]. destruct fuel; [lia|].
      cbn [elem_text app skip_rest]. rewrite A4, A3, A1. cbn [andb].
      change (cDASH =? cLBRK) with false. change (cDASH =? cRBRK) with false. change (cDASH =? cBSL) with false.
      cbn [andb]. rewrite B4, B3, B1. cbn [andb]. apply IH; auto. lia.
Qed.

(* --- what follows an element: the closing bracket or the first rune of the next element --- *)
Lemma next_shape : forall es rest, forallb elem_ok es = true ->
  exists c2 p2, es_text es ++ cRBRK :: rest = c2 :: p2 /\ (c2 =? cDASH) = false /\
    ((es = [] /\ c2 = cRBRK /\ p2 = rest) \/
     (exists e es', es = e :: es' /\ (c2 =? cRBRK) = false /\ elem_text e = c2 :: tl (elem_text e) /\
                    p2 = tl (elem_text e) ++ es_text es' ++ cRBRK :: rest)).
Proof.
  intros es rest Hok. destruct es as [|e es'].
  - exists cRBRK, rest. split; [reflexivity|]. split; [reflexivity|]. left. auto.
  - simpl in Hok. apply andb_true_iff in Hok as [He _]. rewrite es_text_cons, <- app_assoc.
    destruct e as [c|c|a b]; simpl in He.
    + apply plainc_inv in He as (_ & _ & E2 & E3 & _). exists c, (es_text es' ++ cRBRK :: rest).
      split; [reflexivity|]. split; [exact E2|]. right. exists (EChar c), es'. auto.
    + exists cBSL, (c :: es_text es' ++ cRBRK :: rest). split; [reflexivity|]. split; [reflexivity|].
      right. exists (EEsc c), es'. auto.
    + apply andb_true_iff in He as [He _]. apply andb_true_iff in He as [Ha _].
      apply plainc_inv in Ha as (_ & _ & E2 & E3 & _). exists a, (cDASH :: b :: es_text es' ++ cRBRK :: rest).
      split; [reflexivity|]. split; [exact E2|]. right. exists (ERng a b), es'. auto.
Qed.

(* head element: a fragment element, or the "]" that may come first *)
Definition head_ok (e : belem) : bool := elem_ok e || match e with EChar c => c =? cRBRK | _ => false end.

Lemma head_char : forall c, head_ok (EChar c) = true -> (c =? cLBRK) = false /\ (c =? cBSL) = false.
Proof.
  intros c H. unfold head_ok in H. apply orb_true_iff in H as [H|H].
  - simpl in H. apply plainc_inv in H. tauto.
  - apply N.eqb_eq in H. subst. split; reflexivity.
Qed.

Lemma brack_loop_es : forall wc es e fuel neg t rest,
  head_ok e = true -> forallb elem_ok es = true ->
  (length (elem_text e) + length (es_text es) + 2 <= fuel)%nat ->
  match elem_text e with
  | c :: tl_e =>
      brack_loop wc fuel false false neg t t c (tl_e ++ es_text es ++ cRBRK :: rest)
      = if elem_mem t e || existsb (elem_mem t) es then close_res neg rest else miss_res neg rest
  | [] => True
  end.
Proof.
  intros wc. induction es as [|e1 es IH]; intros e fuel neg t rest He Hes Hf.
  - (* last element *)
    destruct e as [c|c|a b]; cbn [elem_text app es_text flat_map existsb orb elem_mem] in *; rewrite ?orb_false_r.
    + apply head_char in He as [E4 E1]. destruct fuel; [simpl in Hf; lia|].
      cbn [brack_loop]. rewrite E4, E1. cbn [andb fold1]. change (cRBRK =? cDASH) with false. cbn [andb].
      destruct (t =? c) eqn:Et.
      * destruct fuel; [simpl in Hf; lia|]. reflexivity.
      * reflexivity.
    + destruct fuel; [simpl in Hf; lia|]. cbn [brack_loop].
      change (cBSL =? cLBRK) with false. change (cBSL =? cBSL) with true. cbn [andb fold1].
      change (cRBRK =? cDASH) with false. cbn [andb].
      destruct (t =? c) eqn:Et.
      * destruct fuel; [simpl in Hf; lia|]. reflexivity.
      * reflexivity.
    + unfold head_ok in He. rewrite orb_false_r in He. simpl in He.
      apply andb_true_iff in He as [He Hle]. apply andb_true_iff in He as [Ha Hb].
      apply plainc_inv in Ha as (_ & A1 & _ & A3 & A4). apply plainc_inv in Hb as (_ & B1 & _ & B3 & B4).
      destruct fuel; [simpl in Hf; lia|]. cbn [brack_loop]. rewrite A4, A1. cbn [andb fold1].
      change (cDASH =? cSLASH) with false. change (cDASH =? cDASH) with true. rewrite B3, B1. cbn [andb negb].
      apply N.leb_le in Hle. assert (Hlt : (b <? a) = false) by (apply N.ltb_ge; lia). rewrite Hlt.
      destruct (in_rng a b t) eqn:Er.
      * destruct fuel; [simpl in Hf; lia|]. reflexivity.
      * reflexivity.
  - (* an element follows *)
    assert (Hes' := Hes). simpl in Hes'. apply andb_true_iff in Hes' as [He1 Hes1].
    destruct (next_shape (e1 :: es) rest Hes) as (c2 & p2 & Hsh & Hd & [(Hnil & _)|(e' & es' & Heq & Hrb & Hhd & Hp2)]); [discriminate|].
    injection Heq as <- <-.
    assert (IHe : brack_loop wc (pred fuel) false false neg t t c2 p2 =
                  if elem_mem t e1 || existsb (elem_mem t) es then close_res neg rest else miss_res neg rest).
    { specialize (IH e1 (pred fuel) neg t rest). rewrite Hhd in IH. rewrite Hp2. apply IH; auto.
      - unfold head_ok. rewrite He1. reflexivity.
      - rewrite es_text_cons, app_length in Hf. pose proof (f_equal (@length N) Hhd) as L1. simpl in L1.
        destruct e; simpl in Hf |- *; lia. }
    assert (Hskip : forall oc, skip_rest (pred fuel) neg t (es_text (e1 :: es) ++ cRBRK :: rest) 1 None oc = close_res neg rest).
    { intros oc. apply skip_rest_es; auto. destruct e; cbn [elem_text length] in Hf; lia. }
    cbn [existsb]. 
    destruct e as [c|c|a b]; cbn [elem_text app] in *.
    + apply head_char in He as [E4 E1]. destruct fuel; [simpl in Hf; lia|]. cbn [pred] in *.
      cbn [brack_loop]. rewrite E4, E1. cbn [andb fold1]. rewrite Hsh. cbn [fold1 andb]. rewrite Hd. cbn [andb].
      cbn [elem_mem]. destruct (t =? c) eqn:Et.
      * cbn [orb]. rewrite <- Hsh. apply Hskip.
      * cbn [orb]. rewrite Hrb. exact IHe.
    + destruct fuel; [simpl in Hf; lia|]. cbn [pred] in *. cbn [brack_loop].
      change (cBSL =? cLBRK) with false. change (cBSL =? cBSL) with true. cbn [andb fold1].
      rewrite Hsh. cbn [fold1 andb]. rewrite Hd. cbn [andb].
      cbn [elem_mem]. destruct (t =? c) eqn:Et.
      * cbn [orb]. rewrite <- Hsh. apply Hskip.
      * cbn [orb]. rewrite Hrb. exact IHe.
    + unfold head_ok in He. rewrite orb_false_r in He. simpl in He.
      apply andb_true_iff in He as [He Hle]. apply andb_true_iff in He as [Ha Hb].
      apply plainc_inv in Ha as (_ & A1 & _ & A3 & A4). apply plainc_inv in Hb as (_ & B1 & _ & B3 & B4).
      destruct fuel; [simpl in Hf; lia|]. cbn [pred] in *. cbn [brack_loop]. rewrite A4, A1. cbn [andb fold1].
      change (cDASH =? cSLASH) with false. change (cDASH =? cDASH) with true. rewrite B3, B1. cbn [andb negb].
      apply N.leb_le in Hle. assert (Hlt : (b <? a) = false) by (apply N.ltb_ge; lia). rewrite Hlt.
      rewrite Hsh. cbn [elem_mem]. destruct (in_rng a b t) eqn:Er.
      * cbn [orb]. rewrite <- Hsh. apply Hskip.
      * cbn [orb]. rewrite Hrb. exact IHe.
Qed.

(* --- brackmatch on the text of a set piece ----------------------------------------------------- *)
Definition set_tail (neg : option N) (rb : bool) (es : list belem) : list N :=
  (match neg with Some m => [m] | None => [] end) ++ set_body_text rb es ++ [cRBRK].

Lemma piece_text_set : forall neg rb es, piece_text (PSet neg rb es) = cLBRK :: set_tail neg rb es.
Proof. reflexivity. Qed.

Lemma first_rune_head : forall e es, exists tl_e, elem_text e = first_rune (e :: es) :: tl_e.
Proof. intros [c|c|a b] es; simpl; eauto. Qed.

Lemma brackmatch_set : forall wc neg rb es rest x, piece_ok (PSet neg rb es) = true ->
  brackmatch wc false false (set_tail neg rb es ++ rest) x =
  if set_accepts neg rb es x then BYes rest else BNo.
Proof.
  intros wc neg rb es rest x Hok. simpl in Hok.
  apply andb_true_iff in Hok as [Hok Hneg]. apply andb_true_iff in Hok as [Hes Hne].
  (* the element list as bash sees it: head + tail *)
  assert (Hbody : exists e es', head_ok e = true /\ forallb elem_ok es' = true /\
            set_body_text rb es = elem_text e ++ es_text es' /\
            (forall t, (rb && (t =? cRBRK)) || existsb (elem_mem t) es = elem_mem t e || existsb (elem_mem t) es') /\
            first_rune (e :: es') = (if rb then cRBRK else first_rune es)).
  { destruct rb.
    - exists (EChar cRBRK), es. repeat split; auto.
    - destruct es as [|e es']; [discriminate|]. simpl in Hes. apply andb_true_iff in Hes as [He Hes'].
      exists e, es'. repeat split; auto. unfold head_ok. rewrite He. reflexivity. }
  destruct Hbody as (e & es' & Hh & Hes' & Hb & Hmem & Hfr).
  destruct (first_rune_head e es') as [tl_e Hte].
  assert (Main : forall fuel ng, (length tl_e + length (es_text es') + 3 <= fuel)%nat ->
                 brack_loop wc fuel false false ng x x
                   (first_rune (e :: es')) (tl_e ++ es_text es' ++ cRBRK :: rest)
                 = if elem_mem x e || existsb (elem_mem x) es' then close_res ng rest else miss_res ng rest).
  { intros fuel ng Hfu. pose proof (brack_loop_es wc es' e fuel ng x rest Hh Hes') as L.
    rewrite Hte in L. apply L. simpl. lia. }
  unfold set_accepts. rewrite Hmem.
  assert (Harg : set_tail neg rb es ++ rest =
                 (match neg with Some m => [m] | None => [] end) ++ first_rune (e :: es') :: tl_e ++ es_text es' ++ cRBRK :: rest).
  { unfold set_tail. rewrite Hb, Hte. rewrite <- !app_assoc. reflexivity. }
  rewrite Harg. unfold brackmatch. cbn [fold1 andb].
  destruct neg as [m|].
  - assert (Hm : (m =? cBANG) || (m =? cCARET) = true) by exact Hneg.
    cbn [app]. rewrite Hm. rewrite Main by (simpl; rewrite !app_length; simpl; lia).
    cbn [is_some xorb]. destruct (elem_mem x e || existsb (elem_mem x) es'); reflexivity.
  - assert (Hnf : (first_rune (e :: es') =? cBANG) || (first_rune (e :: es') =? cCARET) = false).
    { rewrite Hfr. destruct rb; [reflexivity|]. simpl in Hneg. apply negb_true_iff in Hneg. exact Hneg. }
    cbn [app]. rewrite Hnf. rewrite Main by (simpl; rewrite !app_length; simpl; lia).
    cbn [is_some xorb]. destruct (elem_mem x e || existsb (elem_mem x) es'); reflexivity.
Qed.
