(* Proofs/ArithProofs.v — proofs about Expand/ArithSyntax.v and Expand/Arith.v (C20). *)
From Verif Require Import Base.Str Expand.ArithSyntax Expand.Arith.
From Coq Require Import ZifyN ZifyNat ZifyBool.
Open Scope Z_scope.

(* ---------------------------------------------------------------- refutation witness *)
(* x='1+2'; $((x)) : the interpreter's rule gives 0, bash's rule gives 3 *)
Definition kf_env : env := [([120%N], [49%N; 43%N; 50%N])].
Definition kf_expr : expr := Word [120%N].

Lemma eval_matches_refuted :
  exists e en, wf e = true /\ no_index e = true /\
    snd (bash_eval e en) = BV 3 /\ snd (arithm e en) = Ok 0.
Proof. exists kf_expr, kf_env. vm_compute. repeat split. Qed.
