(* Proofs/ArithProofs.v — proofs about Expand/ArithSyntax.v and Expand/Arith.v (C20). *)
From Verif Require Import Base.Str Expand.ArithSyntax Expand.Arith Proofs.ArithSyntaxProofs.
From Coq Require Import ZifyN ZifyNat ZifyBool Zpow_facts.
Open Scope Z_scope.

(* ---------------------------------------------------------------- refutation witness *)
(* x='1+2'; $((x)) : the interpreter's rule gives 0, bash's rule gives 3 *)
Definition kf_env : env := [([120%N], [49%N; 43%N; 50%N])].
Definition kf_expr : expr := Word [120%N].

Lemma eval_matches_refuted :
  exists e en, wf e = true /\ no_index e = true /\
    snd (bash_eval e en) = BV 3 /\ snd (arithm e en) = Ok 0.
Proof. exists kf_expr, kf_env. vm_compute. repeat split. Qed.

(* ---------------------------------------------------------------- no panic *)

Lemma bin_arit_no_panic o x y : bin_arit o x y <> Panic.
Proof. destruct o; simpl; try discriminate; try (destruct (y =? 0); discriminate); destruct (y <? 0); discriminate. Qed.

Lemma assgn_op_no_panic o x y : assgn_op o x y <> Panic.
Proof. destruct o; simpl; try discriminate; destruct (y =? 0); discriminate. Qed.

Lemma no_panic : forall e en, wf e = true -> snd (arithm e en) <> Panic.
Proof.
  induction e as [e IH] using expr_size_ind. intros en Hwf.
  destruct e as [s|n i|x|o post x|o x y]; simpl in *.
  - discriminate.
  - discriminate.
  - apply IH; [lia | assumption].
  - destruct o; simpl in *;
      try (apply andb_prop in Hwf; destruct Hwf as [Hp Hw];
           pose proof (IH x ltac:(lia) en Hw) as Hx;
           destruct (arithm x en) as [en1 [v|c|]]; simpl in *; [discriminate|discriminate|congruence]).
    + apply andb_prop in Hwf; destruct Hwf as [Hn _]. destruct x; simpl in *; try discriminate.
    + apply andb_prop in Hwf; destruct Hwf as [Hn _]. destruct x; simpl in *; try discriminate.
  - destruct (is_assign o) eqn:Ha.
    + assert (Hw : name_shape x = true /\ wf y = true).
      { destruct o; simpl in *; try discriminate;
          apply andb_prop in Hwf; destruct Hwf as [Hwf Hy]; apply andb_prop in Hwf; destruct Hwf; auto. }
      destruct Hw as [Hn Hy].
      destruct x; simpl in *; try discriminate;
        pose proof (IH y ltac:(lia) en Hy) as Hyy;
        destruct (arithm y en) as [en1 [v|c|]]; simpl in *; try discriminate; try congruence;
        match goal with |- context [assgn_op o ?a ?b] =>
          pose proof (assgn_op_no_panic o a b); destruct (assgn_op o a b) end; simpl; congruence.
    + destruct o; simpl in *; try discriminate;
      try (apply andb_prop in Hwf; destruct Hwf as [Hx Hy];
           pose proof (IH x ltac:(lia) en Hx) as Hxx;
           destruct (arithm x en) as [en1 [l|c|]]; simpl in *; try discriminate; try congruence;
           try (destruct (l =? 0); simpl; try discriminate);
           pose proof (IH y ltac:(lia) en1 Hy) as Hyy;
           destruct (arithm y en1) as [en2 [r|c|]]; simpl in *; try discriminate; try congruence;
           try apply bin_arit_no_panic; try (destruct (r =? 0); discriminate); try (destruct (r <? 0); discriminate)).
      (* ternary *)
      destruct y as [| | | |o2 a b]; try discriminate. destruct o2; try discriminate.
      apply andb_prop in Hwf; destruct Hwf as [Hwf Hb]; apply andb_prop in Hwf; destruct Hwf as [Hx Ha2].
      pose proof (IH x ltac:(lia) en Hx) as Hxx.
      destruct (arithm x en) as [en1 [c|c|]]; simpl in *; try discriminate; try congruence.
      destruct (c =? 0); apply IH; simpl; try lia; assumption.
Qed.

(* ---------------------------------------------------------------- error cases *)

(* division/modulo by zero and negative exponents: errors in the implementation model *)
Lemma div_zero_impl : forall o x y en en1 en2 l,
  o = Quo \/ o = Rem -> arithm x en = (en1, Ok l) -> arithm y en1 = (en2, Ok 0) ->
  arithm (Bin o x y) en = (en2, Err EDivZero).
Proof. intros o x y en en1 en2 l [->| ->] Hx Hy; simpl; rewrite Hx, Hy; reflexivity. Qed.

Lemma neg_exp_impl : forall x y en en1 en2 l r,
  arithm x en = (en1, Ok l) -> arithm y en1 = (en2, Ok r) -> r < 0 ->
  arithm (Bin Pow x y) en = (en2, Err ENegExp).
Proof. intros. simpl. rewrite H, H0. simpl. apply Z.ltb_lt in H1. rewrite H1. reflexivity. Qed.

Lemma div_zero_assign_impl : forall o name y en en1,
  o = QuoAssgn \/ o = RemAssgn -> arithm y en = (en1, Ok 0) ->
  arithm (Bin o (Word name) y) en = (en1, Err EDivZero).
Proof. intros o name y en en1 [->| ->] Hy; simpl; rewrite Hy; reflexivity. Qed.

Lemma div_zero_spec : forall var o x y en en1 en2 l,
  o = Quo \/ o = Rem -> bash_step var x en = (en1, BV l) -> bash_step var y en1 = (en2, BV 0) ->
  bash_step var (Bin o x y) en = (en2, BE EDivZero).
Proof. intros var o x y en en1 en2 l [->| ->] Hx Hy; simpl; rewrite Hx, Hy; reflexivity. Qed.

Lemma neg_exp_spec : forall var x y en en1 en2 l r,
  bash_step var x en = (en1, BV l) -> bash_step var y en1 = (en2, BV r) -> r < 0 ->
  bash_step var (Bin Pow x y) en = (en2, BE ENegExp).
Proof. intros. simpl. rewrite H, H0. simpl. apply Z.ltb_lt in H1. rewrite H1. reflexivity. Qed.

(* and they are not errors when short-circuited away, in both *)
Lemma short_circuit_impl : forall x y en en1,
  arithm x en = (en1, Ok 0) -> arithm (Bin AndArit x y) en = (en1, Ok 0).
Proof. intros. simpl. rewrite H. reflexivity. Qed.

(* ---------------------------------------------------------------- operator-level agreement *)

Lemma wrap64_id z : in64 z = true -> wrap64 z = z.
Proof.
  unfold in64, wrap64, two63, two64. intros H.
  apply andb_prop in H. destruct H as [H1 H2]. apply Z.leb_le in H1. apply Z.ltb_lt in H2.
  rewrite Z.mod_small; lia.
Qed.

Lemma chk_BV z v : chk z = BV v -> v = z /\ in64 z = true.
Proof. unfold chk. destruct (in64 z) eqn:E; intros H; inversion H; auto. Qed.

Lemma chk_not_BE z c : chk z <> BE c.
Proof. unfold chk. destruct (in64 z); discriminate. Qed.

(* operator level, every operator except `**`: wherever bash's result is defined (no signed overflow,
   shift count in 0..63) the Go operator with its int64 wrap-around gives the same value / error *)
Lemma bin_matches o x y :
  o <> Pow -> bash_bin o x y <> BU -> bin_arit o x y = to_res (bash_bin o x y).
Proof.
  intros Hp Hu. destruct o; simpl in *; try congruence; try reflexivity;
    try (unfold chk in *; destruct (in64 _) eqn:E; [rewrite (wrap64_id _ E); reflexivity|congruence]).
  - destruct (y =? 0); [reflexivity|]. unfold chk in *. destruct (in64 _) eqn:E; [rewrite (wrap64_id _ E); reflexivity|congruence].
  - destruct (y =? 0); reflexivity.
  - unfold go_shr. destruct ((0 <=? y) && (y <? 64)); [reflexivity|congruence].
  - unfold go_shl. destruct ((0 <=? y) && (y <? 64)); [reflexivity|congruence].
Qed.

Lemma assgn_matches o v a :
  is_assign o = true -> bash_assgn_op o v a <> BU -> assgn_op o v a = to_res (bash_assgn_op o v a).
Proof.
  intros Ha Hu. destruct o; simpl in Ha; try discriminate; simpl in *; try reflexivity;
    try (unfold chk in *; destruct (in64 _) eqn:E; [rewrite (wrap64_id _ E); reflexivity|congruence]).
  - destruct (a =? 0); [reflexivity|]. unfold chk in *. destruct (in64 _) eqn:E; [rewrite (wrap64_id _ E); reflexivity|congruence].
  - destruct (a =? 0); reflexivity.
  - unfold go_shl. destruct ((0 <=? a) && (a <? 64)); [reflexivity|congruence].
  - unfold go_shr. destruct ((0 <=? a) && (a <? 64)); [reflexivity|congruence].
Qed.

(* ---------------------------------------------------------------- intPow = wrapped power *)
Lemma two64_pos : 0 < two64. Proof. unfold two64; lia. Qed.

Lemma wrap64_mod z : wrap64 z mod two64 = z mod two64.
Proof.
  unfold wrap64. rewrite Zminus_mod_idemp_l. f_equal. lia.
Qed.

Lemma wrap64_congr a b : a mod two64 = b mod two64 -> wrap64 a = wrap64 b.
Proof.
  intros H. unfold wrap64. f_equal.
  rewrite (Zplus_mod a), (Zplus_mod b), H. reflexivity.
Qed.

Lemma wrap64_mul_l a b : wrap64 (wrap64 a * b) = wrap64 (a * b).
Proof. apply wrap64_congr. rewrite Zmult_mod, wrap64_mod, <- Zmult_mod. reflexivity. Qed.

Lemma wrap64_mul_r a b : wrap64 (a * wrap64 b) = wrap64 (a * b).
Proof. rewrite Z.mul_comm, wrap64_mul_l, Z.mul_comm. reflexivity. Qed.

Lemma wrap64_pow c n : 0 <= n -> (wrap64 c ^ n) mod two64 = (c ^ n) mod two64.
Proof.
  intros Hn. rewrite (Zpower_mod (wrap64 c) n two64 two64_pos), wrap64_mod, <- Zpower_mod by exact two64_pos.
  reflexivity.
Qed.

Lemma pow_loop_spec : forall b a p, pow_loop b a p = wrap64 (p * a ^ Zpos b).
Proof.
  induction b as [b IH|b IH|]; intros a p; simpl pow_loop.
  - rewrite IH.
    replace (p * a ^ Z.pos b~1) with ((p * a) * (a * a) ^ Z.pos b).
    2:{ rewrite Pos2Z.inj_xI, Z.pow_add_r, Z.pow_mul_r, Z.pow_1_r, Z.pow_2_r by lia. ring. }
    apply wrap64_congr.
    rewrite Zmult_mod, wrap64_mod, wrap64_pow by lia. rewrite <- Zmult_mod. reflexivity.
  - rewrite IH.
    replace (p * a ^ Z.pos b~0) with (p * (a * a) ^ Z.pos b).
    2:{ rewrite Pos2Z.inj_xO, Z.pow_mul_r, Z.pow_2_r by lia. ring. }
    apply wrap64_congr.
    rewrite Zmult_mod, wrap64_pow by lia. rewrite <- Zmult_mod. reflexivity.
  - rewrite Z.pow_1_r. reflexivity.
Qed.

Lemma wrap64_id2 z : in64 z = true -> wrap64 z = z.
Proof.
  unfold in64, wrap64, two63, two64. intros H.
  apply andb_prop in H. destruct H as [H1 H2]. apply Z.leb_le in H1. apply Z.ltb_lt in H2.
  rewrite Z.mod_small; lia.
Qed.

Lemma int_pow_spec a b : 0 <= b -> int_pow a b = wrap64 (a ^ b).
Proof.
  intros Hb. unfold int_pow. destruct b as [|p|p]; try lia.
  - reflexivity.
  - rewrite pow_loop_spec. f_equal. ring.
Qed.

Lemma pow_matches x y : bash_bin Pow x y <> BU -> bin_arit Pow x y = to_res (bash_bin Pow x y).
Proof.
  simpl. intros Hu. destruct (y <? 0) eqn:E; [reflexivity|].
  apply Z.ltb_ge in E. rewrite int_pow_spec by exact E.
  unfold chk in *. destruct (in64 (x ^ y)) eqn:Ei; [|congruence].
  rewrite (wrap64_id2 _ Ei). reflexivity.
Qed.

Lemma bin_matches_all o x y : bash_bin o x y <> BU -> bin_arit o x y = to_res (bash_bin o x y).
Proof.
  intros Hu. destruct o; try (apply bin_matches; [discriminate|exact Hu]). apply pow_matches. exact Hu.
Qed.

