(* Lemmas about the GENERATED field table (Gen/ParserFields.v): finite, closed by vm_compute, re-checked on every run. *)
From Coq Require Import List Arith Bool String.
From Verif Require Import Syntax.Reuse Gen.ParserFields.
Import ListNotations.

Lemma parser_fields_covered : fields_covered parser_fields = true.
Proof. vm_compute. reflexivity. Qed.

Lemma printer_fields_covered : fields_covered printer_fields = true.
Proof. vm_compute. reflexivity. Qed.

Lemma tables_sane :
  config_not_reset parser_fields = true /\ config_not_reset printer_fields = true /\
  reset_fields_dead parser_fields = true /\ reset_fields_dead printer_fields = true.
Proof. vm_compute. repeat split. Qed.

(* non-vacuity: the tables are the real structs (dozens of fields, most of them reset) *)
Lemma tables_nontrivial :
  30 <= List.length parser_fields /\ 20 <= List.length (filter f_reset parser_fields) /\
  15 <= List.length printer_fields /\ 8 <= List.length (filter f_reset printer_fields).
Proof. vm_compute. repeat split; repeat constructor. Qed.
