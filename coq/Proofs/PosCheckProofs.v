(* Proofs/PosCheckProofs.v — soundness of the position checker twin for the declarative PosSpec. *)
From Coq Require Import List NArith ZArith Bool Lia ZifyN ZifyNat ZifyBool.
From Verif Require Import Base.Str Syntax.Pos Syntax.Reader Syntax.PosCheck.
Import ListNotations.
Open Scope N_scope.

Lemma prefixb_spec : forall want l, prefixb want l = true -> exists post, l = want ++ post.
Proof.
  induction want as [|x w IH]; intros l H.
  - exists l. reflexivity.
  - destruct l as [|y l']; [discriminate|]. cbn [prefixb] in H. apply andb_true_iff in H. destruct H as [E H].
    apply N.eqb_eq in E. subst y. destruct (IH l' H) as [post ->]. exists post. reflexivity.
Qed.

Lemma text_atb_spec : forall src off want, (off <= length src)%nat -> text_atb src off want = true -> at_text src off want.
Proof.
  intros src off want Hle H. unfold text_atb in H. destruct (prefixb_spec _ _ H) as [post E].
  exists (firstn off src), post. split.
  - rewrite <- E. symmetry. apply firstn_skipn.
  - rewrite firstn_length. lia.
Qed.

Lemma pos_okb_spec : forall src p, pos_okb src p = true -> PosOK src p.
Proof.
  intros src [[o l] c] H. unfold pos_okb in H. unfold PosOK, pos_of_offset. cbn [p_off fst snd].
  destruct (linecol src o 1%Z 1%Z) as [l' c']. rewrite !andb_true_iff in H. destruct H as [H1 [H2 H3]].
  split; [lia|]. f_equal; [f_equal|]; lia.
Qed.

Lemma span_okb_spec : forall src a b, span_okb src a b = true -> SpanOK src a b.
Proof.
  intros src a b H. unfold span_okb, leb_pos in H. rewrite !andb_true_iff in H. destruct H as [[H1 H2] H3].
  split; [apply pos_okb_spec; exact H1|]. split; [apply pos_okb_spec; exact H2 | lia].
Qed.

Lemma withinb_spec : forall a b c d, withinb a b c d = true -> Within a b c d.
Proof. intros a b c d H. unfold withinb, leb_pos in H. apply andb_true_iff in H. unfold Within. lia. Qed.

Lemma p_off_add_col : forall p n, p_off (add_col p n) = (p_off p + n)%nat.
Proof. intros [[o l] c] n. reflexivity. Qed.

Lemma check_part_sound : forall src p, check_part src p = true -> PartSpec src p.
Proof.
  intros src p H. destruct p as [l | q]; cbn [check_part] in H; rewrite !andb_true_iff in H.
  - destruct H as [[H1 H2] H3]. pose proof (span_okb_spec _ _ _ H1) as S. unfold PartSpec. cbn [part_pos part_end].
    split; [exact S|]. split.
    + apply text_atb_spec; [apply S | exact H2].
    + apply Nat.eqb_eq. exact H3.
  - destruct H as [[[[H1 H2] H3] H4] H5]. pose proof (span_okb_spec _ _ _ H1) as S.
    pose proof (pos_okb_spec _ _ H2) as R. apply Nat.eqb_eq in H5.
    unfold PartSpec. cbn [part_pos part_end]. split; [exact S|]. split.
    + apply text_atb_spec; [apply S | exact H3].
    + split; [apply text_atb_spec; [apply R | exact H4]|]. split; [exact R|].
      rewrite p_off_add_col. lia.
Qed.

Lemma within_trans : forall a b c d e f, Within a b c d -> Within c d e f -> Within a b e f.
Proof. unfold Within. intros. lia. Qed.

Lemma check_stmt_sound : forall src s, check_stmt src s = true -> StmtSpec src s.
Proof.
  intros src s H. unfold check_stmt in H. rewrite !andb_true_iff in H.
  destruct H as [[[[[H0 H1] H2] H3] H4] H5]. unfold StmtSpec.
  split. { destruct (s_args s); [discriminate | discriminate]. }
  split. { apply span_okb_spec. exact H1. }
  split. { apply Forall_forall. intros a Ha. apply check_part_sound. rewrite forallb_forall in H2. apply H2. exact Ha. }
  split.
  { apply Forall_forall. intros a Ha. rewrite forallb_forall in H3.
    eapply within_trans; [apply withinb_spec; exact H4 | apply withinb_spec; apply H3; exact Ha]. }
  destruct (s_semi s) as [p|]; [|exact I].
  apply andb_true_iff in H5. destruct H5 as [P T]. pose proof (pos_okb_spec _ _ P) as R. split; [exact R|].
  apply orb_true_iff in T. destruct T as [T | T]; [left | right]; apply text_atb_spec; try apply R; exact T.
Qed.

Lemma orderedb_sound : forall f, orderedb f = true -> Ordered f.
Proof.
  induction f as [|a t IH]; intro H; [exact I|]. destruct t as [|b t']; [exact I|].
  cbn [orderedb] in H. apply andb_true_iff in H. destruct H as [H1 H2]. cbn [Ordered].
  split; [apply Nat.ltb_lt; exact H1 | apply IH; exact H2].
Qed.

(* C09_checker_sound (fragment): whatever the checker accepts satisfies the declarative spec *)
Theorem check_file_sound : forall src f, check_file src f = true -> FileSpec src f.
Proof.
  intros src f H. unfold check_file in H. rewrite !andb_true_iff in H. destruct H as [[H1 H2] H3].
  unfold FileSpec. split; [|split].
  - apply Forall_forall. intros s Hs. apply check_stmt_sound. rewrite forallb_forall in H1. apply H1. exact Hs.
  - apply orderedb_sound. exact H2.
  - apply Forall_forall. intros s Hs. apply withinb_spec. rewrite forallb_forall in H3. apply H3. exact Hs.
Qed.

(* what the spec gives a user of the tree: the literal's value is exactly the source text of its span *)
Lemma at_text_firstn : forall src off txt, at_text src off txt -> firstn (length txt) (skipn off src) = txt.
Proof.
  intros src off txt (pre & post & -> & <-). rewrite skipn_app, skipn_all, Nat.sub_diag. cbn [app skipn].
  rewrite firstn_app, firstn_all, Nat.sub_diag. cbn [firstn]. apply app_nil_r.
Qed.

Corollary lit_value_is_source_span : forall src f s l, check_file src f = true -> In s f -> In (PLit l) (s_args s) ->
  firstn (p_off (l_end l) - p_off (l_pos l)) (skipn (p_off (l_pos l)) src) = l_val l.
Proof.
  intros src f s l H Hs Hl. destruct (check_file_sound src f H) as [F _].
  rewrite Forall_forall in F. destruct (F s Hs) as (_ & _ & P & _). rewrite Forall_forall in P.
  destruct (P _ Hl) as [_ [T E]]. rewrite E. replace (p_off (l_pos l) + length (l_val l) - p_off (l_pos l))%nat with (length (l_val l)) by lia.
  apply at_text_firstn. exact T.
Qed.
