(* Proofs/ListEnvironProofs.v — proofs about Vars/ListEnviron.v *)
From Coq Require Import Sorting.Sorted.
From Verif Require Import Base.Str Vars.ListEnviron Proofs.StrProofs.

Lemma func_get_none_iff : forall f name, func_get f name = None <-> f name = [].
Proof. intros f name; unfold func_get; destruct (f name); split; congruence. Qed.

Lemma func_get_some : forall f name v, func_get f name = Some v <-> (f name = v /\ v <> []).
Proof.
  intros f name v; unfold func_get; destruct (f name) as [|c r] eqn:E; split.
  - discriminate.
  - intros [H1 H2]. exfalso. apply H2. symmetry. exact H1.
  - intros H. inversion H. split; [reflexivity|discriminate].
  - intros [H1 H2]. rewrite H1. reflexivity.
Qed.

(* ---------------------------------------------------------------- keys *)

Definition key := sort_key.

Lemma sort_key_cut : forall p, sort_key p = match cut_byte EQ p with Some (n, _) => n | None => [] end.
Proof.
  intros p. unfold sort_key. destruct (cut_byte EQ p) as [[b a]|] eqn:E.
  - destruct (cut_index _ _ _ _ E) as (H1 & H2 & _). rewrite H1. exact H2.
  - rewrite (cut_none_index _ _ E). reflexivity.
Qed.

(* bind_of p n: the binding that pair p contributes for name n *)
Definition bind_of (p n : str) : option str :=
  match valid_pair p with
  | Some (m, v) => if str_eqb m n then Some v else None
  | None => None
  end.

Lemma spec_get_cons : forall p rest n,
  spec_get (p :: rest) n = match spec_get rest n with Some v => Some v | None => bind_of p n end.
Proof. intros. simpl. unfold bind_of. destruct (spec_get rest n); [reflexivity|]. destruct (valid_pair p) as [[m v]|]; reflexivity. Qed.

Lemma spec_get_app : forall l1 l2 n,
  spec_get (l1 ++ l2) n = match spec_get l2 n with Some v => Some v | None => spec_get l1 n end.
Proof.
  induction l1 as [|p l1 IH]; intros l2 n.
  - simpl. destruct (spec_get l2 n); reflexivity.
  - rewrite <- app_comm_cons. rewrite !spec_get_cons. rewrite IH. destruct (spec_get l2 n); reflexivity.
Qed.

Lemma valid_pair_key : forall p m v, valid_pair p = Some (m, v) ->
  key p = m /\ m <> [] /\ cut_byte EQ p = Some (m, v) /\ pair_name p = m /\ pair_value p = v.
Proof.
  intros p m v H. unfold valid_pair in H. unfold key, pair_name, pair_value. rewrite sort_key_cut.
  destruct (cut_byte EQ p) as [[b a]|] eqn:E; [|discriminate].
  destruct b as [|x b]; [discriminate|]. inversion H; subst. repeat split; auto. discriminate.
Qed.

Lemma bind_of_some_key : forall p n v, bind_of p n = Some v -> key p = n /\ n <> [].
Proof.
  unfold bind_of. intros p n v H. destruct (valid_pair p) as [[m w]|] eqn:E; [|discriminate].
  destruct (str_eqb m n) eqn:Em; [|discriminate]. apply str_eqb_true in Em. subst.
  destruct (valid_pair_key _ _ _ E) as (H1 & H2 & _). auto.
Qed.

Lemma spec_get_none_if_no_key : forall l n,
  Forall (fun y => key y <> n) l -> spec_get l n = None.
Proof.
  induction l as [|p l IH]; intros n H; [reflexivity|].
  inversion H; subst. rewrite spec_get_cons, (IH _ H3).
  destruct (bind_of p n) eqn:E; [|reflexivity]. apply bind_of_some_key in E. tauto.
Qed.

(* ---------------------------------------------------------------- sorting *)

Definition le_key (a b : str) : Prop := cmp_str (key a) (key b) <> Gt.

Lemma insert_stable_forall : forall (P : str -> Prop) x l, Forall P l -> P x -> Forall P (insert_stable x l).
Proof.
  intros P x l H Hx. induction H as [|y l Hy Hl IH]; simpl.
  - constructor; [exact Hx|constructor].
  - destruct (cmp_str (sort_key x) (sort_key y)); repeat (constructor; try assumption).
Qed.

Lemma insert_stable_sorted : forall x l, StronglySorted le_key l -> StronglySorted le_key (insert_stable x l).
Proof.
  intros x l H. induction H as [|y l Hs IH Hall]; simpl.
  - constructor; constructor.
  - destruct (cmp_str (sort_key x) (sort_key y)) eqn:E.
    + constructor; [exact IH|]. apply insert_stable_forall; [exact Hall|].
      unfold le_key, key. rewrite (cmp_str_antisym (sort_key x)), E. simpl. congruence.
    + constructor.
      * constructor; assumption.
      * constructor.
        -- unfold le_key, key. rewrite E. congruence.
        -- eapply Forall_impl; [|exact Hall]. intros z Hz. unfold le_key, key in *.
           rewrite (cmp_str_lt_le_trans _ _ _ E Hz). congruence.
    + constructor; [exact IH|]. apply insert_stable_forall; [exact Hall|].
      unfold le_key, key. rewrite (cmp_str_antisym (sort_key x)), E. simpl. congruence.
Qed.

Lemma fold_insert_sorted : forall l acc, StronglySorted le_key acc ->
  StronglySorted le_key (fold_left (fun acc x => insert_stable x acc) l acc).
Proof. induction l as [|x l IH]; simpl; intros acc H; [exact H|]. apply IH. apply insert_stable_sorted. exact H. Qed.

Lemma sort_stable_sorted : forall l, StronglySorted le_key (sort_stable l).
Proof. intros. apply fold_insert_sorted. constructor. Qed.

(* stability, expressed through the spec lookup: inserting x behaves like appending x *)
Lemma spec_get_insert : forall x l n, StronglySorted le_key l ->
  spec_get (insert_stable x l) n = spec_get (l ++ [x]) n.
Proof.
  intros x l n H. induction H as [|y l Hs IH Hall]; [reflexivity|].
  simpl insert_stable. destruct (cmp_str (sort_key x) (sort_key y)) eqn:E.
  - rewrite <- app_comm_cons, !spec_get_cons, IH. reflexivity.
  - (* x goes first: nothing after it has x's key *)
    rewrite spec_get_cons, spec_get_app. simpl (spec_get [x] n).
    change (match valid_pair x with Some (n0, v) => if str_eqb n0 n then Some v else None | None => None end) with (bind_of x n).
    destruct (bind_of x n) eqn:Eb; [|destruct (spec_get (y :: l) n); reflexivity].
    apply bind_of_some_key in Eb. destruct Eb as [Ek _].
    rewrite spec_get_none_if_no_key; [reflexivity|].
    constructor.
    + intros Hc. unfold key in *. rewrite Hc, Ek, cmp_str_refl in E. discriminate.
    + eapply Forall_impl; [|exact Hall]. intros z Hz Hc. unfold le_key, key in *.
      pose proof (cmp_str_lt_le_trans _ _ _ E Hz) as Hlt. rewrite Hc, Ek, cmp_str_refl in Hlt. discriminate.
  - rewrite <- app_comm_cons, !spec_get_cons, IH. reflexivity.
Qed.

Lemma spec_get_fold_insert : forall l acc n, StronglySorted le_key acc ->
  spec_get (fold_left (fun acc x => insert_stable x acc) l acc) n = spec_get (acc ++ l) n.
Proof.
  induction l as [|x l IH]; simpl; intros acc n H.
  - rewrite app_nil_r. reflexivity.
  - rewrite IH by (apply insert_stable_sorted; exact H).
    rewrite spec_get_app, spec_get_insert by exact H.
    replace (acc ++ x :: l) with ((acc ++ [x]) ++ l) by (rewrite <- app_assoc; reflexivity).
    rewrite (spec_get_app (acc ++ [x]) l). reflexivity.
Qed.

Lemma spec_get_sort_stable : forall l n, spec_get (sort_stable l) n = spec_get l n.
Proof. intros. unfold sort_stable. rewrite spec_get_fold_insert by constructor. reflexivity. Qed.

(* ---------------------------------------------------------------- dedup loop *)

Definition lt_str (a b : str) : Prop := cmp_str a b = Lt.
Definition gt_str (a b : str) : Prop := cmp_str b a = Lt.
Definition all_valid (l : list str) : Prop := Forall (fun p => valid_pair p <> None) l.

(* the good output: strictly increasing names, all valid *)
Definition good (out : list str) : Prop :=
  all_valid out /\ StronglySorted lt_str (map key out).

Lemma bind_of_invalid : forall p n, valid_pair p = None -> bind_of p n = None.
Proof. intros p n H. unfold bind_of. rewrite H. reflexivity. Qed.

Lemma spec_get_skip : forall l1 p l2 n, bind_of p n = None ->
  spec_get (l1 ++ p :: l2) n = spec_get (l1 ++ l2) n.
Proof.
  intros l1 p l2 n H. rewrite !spec_get_app, spec_get_cons, H.
  destruct (spec_get l2 n); reflexivity.
Qed.

Lemma bind_of_same_key : forall p0 p n v, valid_pair p <> None -> key p0 = key p ->
  bind_of p0 n = Some v -> exists v', bind_of p n = Some v'.
Proof.
  intros p0 p n v Hv Hk H. apply bind_of_some_key in H. destruct H as [H _].
  unfold bind_of. destruct (valid_pair p) as [[m w]|] eqn:E; [|congruence].
  destruct (valid_pair_key _ _ _ E) as (Hm & _).
  assert (Hmn : m = n) by congruence. rewrite (proj2 (str_eqb_true m n) Hmn). eauto.
Qed.

Lemma spec_get_replace : forall l1 p0 p l2 n, valid_pair p <> None -> key p0 = key p ->
  spec_get (l1 ++ p0 :: p :: l2) n = spec_get (l1 ++ p :: l2) n.
Proof.
  intros l1 p0 p l2 n Hv Hk. rewrite !spec_get_app, !spec_get_cons.
  destruct (spec_get l2 n); [reflexivity|].
  destruct (bind_of p n) eqn:E; [reflexivity|].
  destruct (bind_of p0 n) eqn:E0; [|reflexivity].
  destruct (bind_of_same_key _ _ _ _ Hv Hk E0) as [v' Hv']. congruence.
Qed.

Lemma ssorted_rev_gt : forall l, StronglySorted gt_str l -> StronglySorted lt_str (rev l).
Proof.
  induction l as [|x l IH]; intros H; [constructor|].
  inversion H; subst. simpl.
  specialize (IH H2).
  assert (G : forall l', StronglySorted lt_str l' -> Forall (fun y => lt_str y x) l' -> StronglySorted lt_str (l' ++ [x])).
  { induction l' as [|y l' IHl]; intros Hs Hf; simpl.
    - constructor; constructor.
    - inversion Hs; inversion Hf; subst. constructor; [apply IHl; assumption|].
      apply Forall_app. split; [assumption|constructor; [assumption|constructor]]. }
  apply G; [exact IH|].
  apply Forall_rev. eapply Forall_impl; [|exact H3]. intros y Hy. exact Hy.
Qed.

(* invariant of the loop *)
Record loop_inv (l acc : list str) (last : str) : Prop := {
  li_head : (acc = [] /\ last = []) \/ (exists p acc', acc = p :: acc' /\ key p = last /\ last <> []);
  li_valid : all_valid acc;
  li_dec : StronglySorted gt_str (map key acc);
  li_rest_sorted : StronglySorted le_key l;
  li_rest_ge : Forall (fun y => cmp_str last (key y) <> Gt) l;
}.

Lemma dedup_loop_ok : forall l acc last, loop_inv l acc last ->
  exists out, dedup_loop l acc last = Ok out /\ good out /\
              forall n, spec_get out n = spec_get (rev acc ++ l) n.
Proof.
  induction l as [|p rest IH]; intros acc last [Hh Hv Hd Hs Hg].
  - exists (rev acc). simpl. split; [reflexivity|]. split.
    + split; [apply Forall_rev; exact Hv|]. rewrite map_rev. apply ssorted_rev_gt. exact Hd.
    + intros n. rewrite app_nil_r. reflexivity.
  - inversion Hs as [|? ? Hs' Hall]; subst. inversion Hg as [|? ? Hgp Hg']; subst.
    simpl dedup_loop.
    destruct (cut_byte EQ p) as [[name val]|] eqn:Ec.
    2:{ (* no '=' *)
        assert (Hinv : valid_pair p = None) by (unfold valid_pair; rewrite Ec; reflexivity).
        destruct (IH acc last) as (out & Ho & Hgood & Hspec); [constructor; assumption|].
        exists out. repeat split; try apply Hgood; [exact Ho|].
        intros n. rewrite Hspec. symmetry. apply spec_get_skip. apply bind_of_invalid. exact Hinv. }
    destruct name as [|c name].
    { assert (Hinv : valid_pair p = None) by (unfold valid_pair; rewrite Ec; reflexivity).
      destruct (IH acc last) as (out & Ho & Hgood & Hspec); [constructor; assumption|].
      exists out. repeat split; try apply Hgood; [exact Ho|].
      intros n. rewrite Hspec. symmetry. apply spec_get_skip. apply bind_of_invalid. exact Hinv. }
    assert (Hval : valid_pair p = Some (c :: name, val)) by (unfold valid_pair; rewrite Ec; reflexivity).
    destruct (valid_pair_key _ _ _ Hval) as (Hk & Hne & _).
    assert (Hvp : valid_pair p <> None) by congruence.
    assert (Hrest_ge : Forall (fun y => cmp_str (key p) (key y) <> Gt) rest).
    { eapply Forall_impl; [|exact Hall]. intros y Hy. exact Hy. }
    destruct (cmp_str last (c :: name)) eqn:Ecmp.
    + (* duplicate name: replace the previous element *)
      apply cmp_str_eq in Ecmp.
      destruct Hh as [[_ Hl]|(p0 & acc' & Hacc & Hk0 & Hl)]; [congruence|]. subst acc.
      pose proof (Forall_inv Hv) as Hv0. pose proof (Forall_inv_tail Hv) as Hv'.
      simpl in Hd. apply StronglySorted_inv in Hd. destruct Hd as [Hd' Hd0].
      destruct (IH (p :: acc') last) as (out & Ho & Hgood & Hspec).
      { constructor.
        - right. exists p, acc'. repeat split; congruence.
        - constructor; assumption.
        - simpl. rewrite Hk, <- Ecmp, <- Hk0. constructor; assumption.
        - assumption.
        - assumption. }
      exists out. split; [exact Ho|]. split; [exact Hgood|].
      intros n. rewrite Hspec. simpl rev. rewrite <- !app_assoc. simpl.
      symmetry. apply spec_get_replace; [exact Hvp|congruence].
    + (* new name *)
      destruct (IH (p :: acc) (c :: name)) as (out & Ho & Hgood & Hspec).
      { constructor.
        - right. exists p, acc. repeat split; congruence.
        - constructor; assumption.
        - simpl. constructor; [exact Hd|]. rewrite Hk.
          destruct Hh as [[Ha _]|(p0 & acc' & Hacc & Hk0 & Hl)]; [subst; constructor|].
          subst acc. simpl in *. pose proof (StronglySorted_inv Hd) as [Hd' Hd0].
          constructor.
          * unfold gt_str. rewrite Hk0. exact Ecmp.
          * eapply Forall_impl; [|exact Hd0]. intros k Hk'. unfold gt_str in *.
            eapply cmp_str_lt_trans; [exact Hk'|]. rewrite Hk0. exact Ecmp.
        - assumption.
        - rewrite <- Hk. exact Hrest_ge. }
      exists out. split; [exact Ho|]. split; [exact Hgood|].
      intros n. rewrite Hspec. simpl rev. rewrite <- app_assoc. reflexivity.
    + (* last > name: impossible, the rest is sorted above last *)
      rewrite Hk in Hgp. congruence.
Qed.

Theorem list_environ_ok : forall pairs,
  exists out, list_environ pairs = Ok out /\ good out /\ forall n, spec_get out n = spec_get pairs n.
Proof.
  intros pairs. unfold list_environ.
  destruct (dedup_loop_ok (sort_stable pairs) [] []) as (out & Ho & Hgood & Hspec).
  { constructor.
    - left. auto.
    - constructor.
    - constructor.
    - apply sort_stable_sorted.
    - apply Forall_forall. intros y _. apply cmp_str_nil_l. }
  exists out. split; [exact Ho|]. split; [exact Hgood|].
  intros n. rewrite Hspec. simpl. apply spec_get_sort_stable.
Qed.

(* ---------------------------------------------------------------- Each *)

Lemma good_tail : forall p rest, good (p :: rest) -> good rest /\ valid_pair p <> None /\
  Forall (fun y => cmp_str (key p) (key y) = Lt) rest.
Proof.
  intros p rest [Hv Hs]. simpl in Hs. apply StronglySorted_inv in Hs. destruct Hs as [Hs Hf].
  repeat split.
  - exact (Forall_inv_tail Hv).
  - exact Hs.
  - exact (Forall_inv Hv).
  - clear -Hf. induction rest as [|y rest IH]; [constructor|].
    simpl in Hf. constructor; [exact (Forall_inv Hf)|]. apply IH. exact (Forall_inv_tail Hf).
Qed.

Lemma lt_forall_neq : forall k l, Forall (fun y => cmp_str k (key y) = Lt) l -> Forall (fun y => key y <> k) l.
Proof.
  intros k l H. eapply Forall_impl; [|exact H]. intros y Hy Hc. simpl in Hy. rewrite Hc, cmp_str_refl in Hy. discriminate.
Qed.

Lemma each_good : forall out, good out ->
  exists l, each out = Ok l /\ map fst l = map key out /\
            forall n v, In (n, v) l <-> spec_get out n = Some v.
Proof.
  induction out as [|p rest IH]; intros Hg.
  - exists []. simpl. repeat split; auto; intros; try contradiction; discriminate.
  - destruct (good_tail _ _ Hg) as (Hg' & Hvp & Hlt).
    destruct (IH Hg') as (l & Hl & Hm & Hin).
    destruct (valid_pair p) as [[m w]|] eqn:Ev; [|congruence].
    destruct (valid_pair_key _ _ _ Ev) as (Hk & Hne & Hc & _).
    exists ((m, w) :: l). simpl each. rewrite Hc, Hl. split; [reflexivity|]. split.
    + simpl. rewrite Hk, Hm. reflexivity.
    + intros n v. rewrite spec_get_cons. simpl In. rewrite Hin. split.
      * intros [Heq|Hs].
        -- inversion Heq; subst n v.
           rewrite spec_get_none_if_no_key by (rewrite <- Hk; apply lt_forall_neq; exact Hlt).
           unfold bind_of. rewrite Ev, str_eqb_refl. reflexivity.
        -- rewrite Hs. reflexivity.
      * destruct (spec_get rest n) eqn:Es.
        -- intros H. right. exact H.
        -- unfold bind_of. rewrite Ev. destruct (str_eqb m n) eqn:Em; [|discriminate].
           apply str_eqb_true in Em. intros H. inversion H; subst. left. reflexivity.
Qed.

(* ---------------------------------------------------------------- Get *)

Section BSearch.
  Variable f : str -> comparison.

  Definition split_at (x : list str) (k : nat) : Prop :=
    (forall i e, i < k -> nth_error x i = Some e -> f e = Lt) /\
    (forall i e, k <= i -> nth_error x i = Some e -> f e <> Lt).

  Lemma div2_bounds : forall i j, i < j -> i <= Nat.div2 (i + j) < j.
  Proof.
    intros i j H. rewrite Nat.div2_div.
    split.
    - apply Nat.div_le_lower_bound; lia.
    - apply Nat.div_lt_upper_bound; lia.
  Qed.

  Lemma bsearch_loop_correct : forall x k, split_at x k -> k <= length x ->
    forall fuel i j, i <= k -> k <= j -> j <= length x -> j - i < fuel ->
    bsearch_loop fuel (fun e => Ok (f e)) x i j = Ok k.
  Proof.
    intros x k [H1 H2] Hk. induction fuel as [|fuel IH]; intros i j Hi Hj Hjl Hf; [lia|].
    simpl. destruct (Nat.ltb i j) eqn:Elt.
    - apply Nat.ltb_lt in Elt. pose proof (div2_bounds i j Elt) as [Hb1 Hb2].
      set (h := Nat.div2 (i + j)) in *.
      destruct (nth_error x h) as [e|] eqn:En.
      2:{ apply nth_error_None in En. lia. }
      destruct (f e) eqn:Ef.
      + apply IH; try lia. destruct (Nat.le_gt_cases k h) as [?|Hc]; [assumption|].
        rewrite (H1 h e Hc En) in Ef. discriminate.
      + apply IH; try lia. destruct (Nat.le_gt_cases k h) as [Hc|?]; [|lia].
        exfalso. apply (H2 h e Hc En). exact Ef.
      + apply IH; try lia. destruct (Nat.le_gt_cases k h) as [?|Hc]; [assumption|].
        rewrite (H1 h e Hc En) in Ef. discriminate.
    - apply Nat.ltb_ge in Elt. f_equal. lia.
  Qed.

  Fixpoint lt_count (l : list str) : nat :=
    match l with
    | [] => 0
    | e :: r => match f e with Lt => S (lt_count r) | _ => 0 end
    end.

  Lemma lt_count_le : forall l, lt_count l <= length l.
  Proof. induction l as [|e r IH]; simpl; [lia|]. destruct (f e); lia. Qed.
End BSearch.

Definition fname (name : str) (e : str) : comparison := cmp_str (pair_name e) name.

Lemma good_pair_name : forall p, valid_pair p <> None -> pair_name p = key p.
Proof.
  intros p H. destruct (valid_pair p) as [[m w]|] eqn:E; [|congruence].
  destruct (valid_pair_key _ _ _ E) as (H1 & _ & _ & H4 & _). congruence.
Qed.

Lemma good_split_at : forall name out, good out -> split_at (fname name) out (lt_count (fname name) out).
Proof.
  intros name. induction out as [|p rest IH]; intros Hg.
  - split; intros i e Hi Hn; destruct i; discriminate.
  - destruct (good_tail _ _ Hg) as (Hg' & Hvp & Hlt). specialize (IH Hg'). destruct IH as [IH1 IH2].
    simpl. destruct (fname name p) eqn:Ef.
    + split; [intros i e Hi; lia|]. intros i e _ Hn. destruct i as [|i]; simpl in Hn.
      * inversion Hn; subst. congruence.
      * apply nth_error_In in Hn. rewrite Forall_forall in Hlt. specialize (Hlt e Hn).
        unfold fname in *. rewrite (good_pair_name p Hvp) in Ef. apply cmp_str_eq in Ef. subst name.
        assert (Hve : valid_pair e <> None).
        { destruct Hg' as [Hv' _]. unfold all_valid in Hv'. rewrite Forall_forall in Hv'. auto. }
        rewrite (good_pair_name e Hve). rewrite (proj1 (cmp_str_lt_gt _ _) Hlt). discriminate.
    + split.
      * intros i e Hi Hn. destruct i as [|i]; simpl in Hn; [inversion Hn; subst; exact Ef|].
        apply (IH1 i e); [lia|exact Hn].
      * intros i e Hi Hn. destruct i as [|i]; [lia|]. simpl in Hn. apply (IH2 i e); [lia|exact Hn].
    + split; [intros i e Hi; lia|]. intros i e _ Hn. destruct i as [|i]; simpl in Hn.
      * inversion Hn; subst. congruence.
      * apply nth_error_In in Hn. rewrite Forall_forall in Hlt. specialize (Hlt e Hn).
        unfold fname in *. rewrite (good_pair_name p Hvp) in Ef.
        assert (Hve : valid_pair e <> None).
        { destruct Hg' as [Hv' _]. unfold all_valid in Hv'. rewrite Forall_forall in Hv'. auto. }
        rewrite (good_pair_name e Hve).
        apply cmp_str_lt_gt in Ef.
        rewrite (proj1 (cmp_str_lt_gt _ _) (cmp_str_lt_trans _ _ _ Ef Hlt)). discriminate.
Qed.

Lemma good_lookup : forall name out, good out ->
  match nth_error out (lt_count (fname name) out) with
  | Some e => match fname name e with
              | Eq => spec_get out name = Some (pair_value e)
              | _ => spec_get out name = None
              end
  | None => spec_get out name = None
  end.
Proof.
  intros name. induction out as [|p rest IH]; intros Hg; [reflexivity|].
  destruct (good_tail _ _ Hg) as (Hg' & Hvp & Hlt). specialize (IH Hg').
  destruct (valid_pair p) as [[m w]|] eqn:Ev; [|congruence].
  destruct (valid_pair_key _ _ _ Ev) as (Hk & Hne & Hc & Hpn & Hpv).
  simpl lt_count. rewrite spec_get_cons. destruct (fname name p) eqn:Ef.
  - cbn [nth_error]. rewrite Ef. unfold fname in Ef. rewrite Hpn in Ef. apply cmp_str_eq in Ef. rewrite Ef in Hk, Ev.
    rewrite spec_get_none_if_no_key by (rewrite <- Hk; apply lt_forall_neq; exact Hlt).
    unfold bind_of. rewrite Ev, str_eqb_refl, Hpv. reflexivity.
  - cbn [nth_error].
    assert (Hb : bind_of p name = None).
    { unfold bind_of. rewrite Ev. destruct (str_eqb m name) eqn:Em; [|reflexivity].
      apply str_eqb_true in Em. rewrite Em in Hpn. unfold fname in Ef. rewrite Hpn, cmp_str_refl in Ef. discriminate. }
    rewrite Hb.
    destruct (nth_error rest (lt_count (fname name) rest)) as [e|].
    + destruct (fname name e); rewrite IH; reflexivity.
    + rewrite IH. reflexivity.
  - cbn [nth_error]. rewrite Ef.
    unfold fname in Ef. rewrite Hpn in Ef. apply cmp_str_lt_gt in Ef.
    rewrite spec_get_none_if_no_key.
    + unfold bind_of. rewrite Ev. destruct (str_eqb m name) eqn:Em; [|reflexivity].
      apply str_eqb_true in Em. rewrite Em, cmp_str_refl in Ef. discriminate.
    + eapply Forall_impl; [|exact Hlt]. intros y Hy Hcy. simpl in Hy. rewrite Hk in Hy.
      pose proof (cmp_str_lt_trans _ _ _ Ef Hy) as Hc2. rewrite Hcy, cmp_str_refl in Hc2. discriminate.
Qed.

Lemma get_good : forall out name, good out -> get out name = Ok (spec_get out name).
Proof.
  intros out name Hg. unfold get, bsearch, get_cmp.
  pose proof (good_split_at name out Hg) as Hs.
  pose proof (lt_count_le (fname name) out) as Hle.
  change (fun pair : str => Ok (cmp_str (pair_name pair) name)) with (fun e : str => @Ok comparison (fname name e)).
  rewrite (bsearch_loop_correct (fname name) out _ Hs Hle) by lia.
  pose proof (good_lookup name out Hg) as Hl.
  destruct (nth_error out (lt_count (fname name) out)) as [e|] eqn:En.
  - change (cmp_str (pair_name e) name) with (fname name e).
    destruct (fname name e) eqn:Ef; rewrite Hl; try reflexivity. rewrite En. reflexivity.
  - rewrite Hl. reflexivity.
Qed.

(* ---------------------------------------------------------------- API-level theorems *)

Theorem api_get_spec : forall pairs name, api_get pairs name = Ok (spec_get pairs name).
Proof.
  intros pairs name. unfold api_get.
  destruct (list_environ_ok pairs) as (out & Ho & Hg & Hspec). rewrite Ho.
  rewrite get_good by exact Hg. rewrite Hspec. reflexivity.
Qed.

Theorem api_each_spec : forall pairs,
  exists l, api_each pairs = Ok l /\
            StronglySorted lt_str (map fst l) /\
            forall n v, In (n, v) l <-> spec_get pairs n = Some v.
Proof.
  intros pairs. unfold api_each.
  destruct (list_environ_ok pairs) as (out & Ho & Hg & Hspec). rewrite Ho.
  destruct (each_good out Hg) as (l & Hl & Hm & Hin).
  exists l. split; [exact Hl|]. split.
  - rewrite Hm. apply Hg.
  - intros n v. rewrite Hin, Hspec. reflexivity.
Qed.

(* strictly increasing names: no name twice, and sorted in plain string order *)
Lemma ssorted_lt_nodup : forall l, StronglySorted lt_str l -> NoDup l.
Proof.
  induction l as [|x l IH]; intros H; [constructor|].
  apply StronglySorted_inv in H. destruct H as [Hs Hf]. constructor; [|apply IH; exact Hs].
  intros Hin. rewrite Forall_forall in Hf. specialize (Hf x Hin). unfold lt_str in Hf.
  rewrite cmp_str_refl in Hf. discriminate.
Qed.

Lemma ssorted_lt_sorted_names : forall l, StronglySorted lt_str l -> sorted_names l = true.
Proof.
  induction l as [|x l IH]; intros H; [reflexivity|].
  apply StronglySorted_inv in H. destruct H as [Hs Hf]. simpl. destruct l as [|y l]; [reflexivity|].
  pose proof (Forall_inv Hf) as Hxy. unfold lt_str in Hxy. rewrite Hxy. apply IH. exact Hs.
Qed.

(* spec_get agrees with "the last valid pair with that name" *)
Lemma bind_of_none_iff : forall q n, bind_of q n = None <-> forall w, valid_pair q <> Some (n, w).
Proof.
  intros q n. unfold bind_of. destruct (valid_pair q) as [[m w]|] eqn:E.
  - destruct (str_eqb m n) eqn:Em.
    + apply str_eqb_true in Em. subst m. split; [discriminate|]. intros H. exfalso. apply (H w). reflexivity.
    + split; [|reflexivity]. intros _ w' Hc. inversion Hc; subst. rewrite str_eqb_refl in Em. discriminate.
  - split; [|reflexivity]. intros _ w'. discriminate.
Qed.

Lemma spec_get_none_iff : forall l n, spec_get l n = None <->
  Forall (fun q => forall w, valid_pair q <> Some (n, w)) l.
Proof.
  induction l as [|q l IH]; intros n.
  - simpl. split; [constructor|reflexivity].
  - rewrite spec_get_cons. split.
    + destruct (spec_get l n) eqn:Es; [discriminate|]. intros Hb. constructor.
      * apply bind_of_none_iff. exact Hb.
      * apply IH. exact Es.
    + intros H. rewrite (proj2 (IH n) (Forall_inv_tail H)). apply bind_of_none_iff. exact (Forall_inv H).
Qed.

Lemma spec_get_some_iff : forall pairs n v, spec_get pairs n = Some v <->
  exists l1 p l2, pairs = l1 ++ p :: l2 /\ valid_pair p = Some (n, v) /\
                  Forall (fun q => forall w, valid_pair q <> Some (n, w)) l2.
Proof.
  induction pairs as [|p rest IH]; intros n v.
  - simpl. split; [discriminate|]. intros (l1 & p & l2 & H & _). destruct l1; discriminate.
  - rewrite spec_get_cons. split.
    + destruct (spec_get rest n) as [v'|] eqn:Es.
      * intros H. inversion H; subst v'. apply IH in Es. destruct Es as (l1 & q & l2 & H1 & H2 & H3).
        exists (p :: l1), q, l2. subst rest. auto.
      * intros Hb. unfold bind_of in Hb. destruct (valid_pair p) as [[m w]|] eqn:Ev; [|discriminate].
        destruct (str_eqb m n) eqn:Em; [|discriminate]. apply str_eqb_true in Em. inversion Hb; subst.
        exists [], p, rest. repeat split; auto. apply spec_get_none_iff. exact Es.
    + intros (l1 & q & l2 & H1 & H2 & H3). destruct l1 as [|p' l1]; simpl in H1; inversion H1; subst.
      * rewrite (proj2 (spec_get_none_iff l2 n) H3). unfold bind_of. rewrite H2, str_eqb_refl. reflexivity.
      * assert (Es : spec_get (l1 ++ q :: l2) n = Some v).
        { apply IH. exists l1, q, l2. auto. }
        rewrite Es. reflexivity.
Qed.
