From Verif Require Import Base.Str Vars.ListEnviron.

Lemma func_get_none_iff : forall f name, func_get f name = None <-> f name = [].
Proof. intros f name; unfold func_get; destruct (f name); split; congruence. Qed.
