(* Proofs/RegexProofs.v — the derivative matcher decides the denotation of Regex.v. *)
From Verif Require Import Base.Str Pattern.Regex.
Open Scope N_scope.

Section P.
  Variable orbit : N -> list N.
  Notation matches := (matches orbit).
  Notation nullable := nullable.
  Notation deriv := (deriv orbit).
  Notation matchb := (matchb orbit).

  Lemma nullable_sound : forall r, nullable r = true -> matches r [].
  Proof.
    induction r; simpl; intros H; try discriminate; try (constructor; fail).
    - apply andb_true_iff in H as [H1 H2]. change (@nil N) with (@nil N ++ []). constructor; auto.
    - apply orb_true_iff in H as [H|H]; [apply MAltL | apply MAltR]; auto.
    - change (@nil N) with (@nil N ++ []). apply MPlus; auto. constructor.
    - constructor; auto.
  Qed.

  Lemma nullable_complete : forall r s, matches r s -> s = [] -> nullable r = true.
  Proof.
    induction 1; intros E; simpl; try discriminate; auto.
    - apply app_eq_nil in E as [-> ->]. rewrite IHmatches1, IHmatches2; auto.
    - rewrite IHmatches; auto.
    - rewrite IHmatches; auto. apply orb_true_r.
    - apply app_eq_nil in E as [-> ->]. auto.
  Qed.

  Lemma nullable_iff : forall r, nullable r = true <-> matches r [].
  Proof. split; [apply nullable_sound | intros; eapply nullable_complete; eauto]. Qed.

  Lemma star_cons_inv : forall r s, matches r s -> forall a x t, r = RStar a -> s = x :: t ->
    exists t1 t2, t = t1 ++ t2 /\ matches a (x :: t1) /\ matches (RStar a) t2.
  Proof.
    induction 1; intros a0 x0 t0 Er Es; try discriminate.
    injection Er as ->.
    destruct s as [|y s'].
    - simpl in Es. eapply IHmatches2; eauto.
    - simpl in Es. injection Es as -> <-. exists s', t. auto.
  Qed.

  Lemma deriv_sound : forall r x s, matches (deriv x r) s -> matches r (x :: s).
  Proof.
    induction r; simpl; intros x s H.
    - inversion H.
    - inversion H.
    - destruct (chr_ok orbit c x) eqn:E; inversion H; subst. constructor; auto.
    - inversion H; subst. constructor.
    - destruct (set_ok orbit neg items x) eqn:E; inversion H; subst. constructor; auto.
    - destruct (nullable r1) eqn:E.
      + inversion H as [| | | | | ? ? ? HL | ? ? ? HR | | | | | |]; subst.
        * inversion HL as [| | | | ? ? u v Hu Hv | | | | | | | |]; subst.
          change (x :: u ++ v) with ((x :: u) ++ v). constructor; auto.
        * change (x :: s) with ([] ++ x :: s). constructor; auto. apply nullable_sound; auto.
      + inversion H as [| | | | ? ? u v Hu Hv | | | | | | | |]; subst.
        change (x :: u ++ v) with ((x :: u) ++ v). constructor; auto.
    - inversion H; subst; [apply MAltL | apply MAltR]; auto.
    - inversion H as [| | | | ? ? u v Hu Hv | | | | | | | |]; subst.
      change (x :: u ++ v) with ((x :: u) ++ v). apply MStarS; auto.
    - inversion H as [| | | | ? ? u v Hu Hv | | | | | | | |]; subst.
      change (x :: u ++ v) with ((x :: u) ++ v). apply MPlus; auto.
    - apply MOptS; auto.
    - constructor; auto.
  Qed.

  Lemma deriv_complete : forall r s0, matches r s0 -> forall x s, s0 = x :: s -> matches (deriv x r) s.
  Proof.
    induction 1; intros x0 s0 E; simpl; try discriminate.
    - injection E as -> <-. rewrite H. constructor.
    - injection E as -> <-. constructor.
    - injection E as -> <-. rewrite H. constructor.
    - destruct s as [|y s'].
      + simpl in E. subst t.
        assert (N1 : nullable a = true) by (apply nullable_iff; auto).
        rewrite N1. apply MAltR. eapply IHmatches2; eauto.
      + simpl in E. injection E as -> <-.
        destruct (nullable a); [apply MAltL|]; constructor; auto.
    - apply MAltL; eauto.
    - apply MAltR; eauto.
    - destruct s as [|y s'].
      + simpl in E. eapply IHmatches2 in E. simpl in E. exact E.
      + simpl in E. injection E as -> <-. constructor; auto.
    - destruct s as [|y s'].
      + simpl in E. eapply IHmatches2 in E. simpl in E.
        (* a matches [] and star matches x::s0 : derivative of star a *)
        exact E.
      + simpl in E. injection E as -> <-. constructor; auto.
    - eauto.
    - eauto.
  Qed.

  Lemma deriv_iff : forall r x s, matches (deriv x r) s <-> matches r (x :: s).
  Proof. split; [apply deriv_sound | intros; eapply deriv_complete; eauto]. Qed.

  Lemma none_inv : forall s, matches RNone s <-> False.
  Proof. split; intros H; [inversion H | tauto]. Qed.
  Lemma cat_none_l : forall b s, matches (RCat RNone b) s <-> False.
  Proof. split; intros H; [|tauto]. inversion H; subst. match goal with X : matches RNone _ |- _ => inversion X end. Qed.
  Lemma cat_none_r : forall a s, matches (RCat a RNone) s <-> False.
  Proof. split; intros H; [|tauto]. inversion H; subst. match goal with X : matches RNone _ |- _ => inversion X end. Qed.
  Lemma cat_eps_l : forall b s, matches (RCat REps b) s <-> matches b s.
  Proof.
    split; intros H.
    - inversion H; subst. match goal with X : matches REps _ |- _ => inversion X; subst end. simpl. auto.
    - change s with ([] ++ s). constructor; auto. constructor.
  Qed.
  Lemma alt_none_l : forall b s, matches (RAlt RNone b) s <-> matches b s.
  Proof.
    split; intros H.
    - inversion H; subst; auto. match goal with X : matches RNone _ |- _ => inversion X end.
    - apply MAltR; auto.
  Qed.
  Lemma alt_none_r : forall a s, matches (RAlt a RNone) s <-> matches a s.
  Proof.
    split; intros H.
    - inversion H; subst; auto. match goal with X : matches RNone _ |- _ => inversion X end.
    - apply MAltL; auto.
  Qed.

  Lemma mk_cat_iff : forall a b s, matches (mk_cat a b) s <-> matches (RCat a b) s.
  Proof.
    intros a b s. unfold mk_cat.
    destruct a; destruct b;
      rewrite ?cat_none_l, ?cat_none_r, ?cat_eps_l, ?none_inv; tauto.
  Qed.

  Lemma mk_alt_iff : forall a b s, matches (mk_alt a b) s <-> matches (RAlt a b) s.
  Proof.
    intros a b s. unfold mk_alt.
    destruct a; destruct b;
      rewrite ?alt_none_l, ?alt_none_r, ?none_inv; tauto.
  Qed.

  Lemma simp_iff : forall r s, matches (simp r) s <-> matches r s.
  Proof.
    induction r; intros s; simpl; try tauto.
    - rewrite mk_cat_iff. split; intros H; inversion H; subst; constructor; try apply IHr1; try apply IHr2; auto.
    - rewrite mk_alt_iff. split; intros H; inversion H; subst; [apply MAltL|apply MAltR|apply MAltL|apply MAltR];
        try apply IHr1; try apply IHr2; auto.
  Qed.

  Theorem matchb_correct : forall s r, matchb r s = true <-> matches r s.
  Proof.
    induction s as [|x s IH]; intros r; simpl.
    - apply nullable_iff.
    - rewrite IH, simp_iff. apply deriv_iff.
  Qed.
End P.
