(* Proofs/OpenBracketProofs.v — a pattern without any "]" can never close a bracket expression in bash's rule:
   BRACKMATCH either fails or takes the "[" literally.  Used for HasMeta-false patterns with an open "[". *)
From Verif Require Import Base.Str Pattern.Regex Pattern.Translate Pattern.GlobSpec Pattern.Fragment.
From Coq Require Import ZifyN ZifyNat ZifyBool.
Open Scope N_scope.

Definition bres_open (t : N) (r : bres) : Prop :=
  match r with BYes _ => False | BLit => t = cLBRK | BNo => True end.

Lemma unclosed_open : forall t, bres_open t (unclosed t).
Proof. intros t. unfold unclosed. destruct (t =? cLBRK) eqn:E; simpl; auto. apply N.eqb_eq in E. auto. Qed.

Definition norb (p : list N) : Prop := ~ In cRBRK p.

Lemma norb_cons : forall c p, norb (c :: p) -> (c =? cRBRK) = false /\ norb p.
Proof.
  intros c p H. split.
  - apply N.eqb_neq. intros ->. apply H. left. reflexivity.
  - intros Hi. apply H. right. exact Hi.
Qed.
Lemma norb_skipn : forall k p, norb p -> norb (skipn k p).
Proof.
  induction k as [|k IH]; intros p H; [exact H|]. destruct p as [|c p]; [exact H|]. simpl. apply IH. apply norb_cons in H. tauto.
Qed.
Lemma norb_tl : forall p, norb p -> norb (tl p).
Proof. intros [|c p] H; [exact H|]. apply norb_cons in H. tauto. Qed.

Lemma skip_rest_open : forall fuel neg t p brcnt brch oc, norb p -> bres_open t (skip_rest fuel neg t p brcnt brch oc).
Proof.
  induction fuel as [|fuel IH]; intros neg t p brcnt brch oc Hn; [exact I|].
  cbn [skip_rest]. destruct p as [|c p1]; [apply unclosed_open|].
  apply norb_cons in Hn as [Hc Hn]. rewrite Hc. cbn [andb].
  destruct ((c =? cLBRK) && _).
  - destruct p1 as [|x p2]; [apply unclosed_open|]. destruct p2 as [|y p3]; [apply unclosed_open|].
    apply IH. apply norb_cons in Hn. tauto.
  - destruct (c =? cBSL).
    + destruct p1 as [|x p2]; [exact I|]. apply IH. apply norb_cons in Hn. tauto.
    + apply IH. exact Hn.
Qed.

Lemma brack_loop_open : forall wc fuel nocase pathname neg t0 t c p, norb p ->
  bres_open t (brack_loop wc fuel nocase pathname neg t0 t c p).
Proof.
  intros wc. induction fuel as [|fuel IH]; intros nocase pathname neg t0 t c p Hn; [exact I|].
  cbn [brack_loop].
  assert (Next : forall p', norb p' ->
            bres_open t (match p' with
                         | [] => unclosed t
                         | c' :: p'' => if c' =? cRBRK then (if neg then BYes p'' else BNo)
                                        else brack_loop wc fuel nocase pathname neg t0 t (fold1 nocase c') p''
                         end)).
  { intros p' Hp. destruct p' as [|c' p'']; [apply unclosed_open|]. apply norb_cons in Hp as [Hc Hp]. rewrite Hc. apply IH. exact Hp. }
  destruct ((c =? cLBRK) && _).
  { destruct (find2 cCOLON cRBRK (tl p)) as [k|]; [|apply Next; exact Hn].
    destruct (cls_of_name _); [|apply Next; apply norb_skipn; exact Hn].
    destruct (bash_cls_mem _ _ _); [apply skip_rest_open; apply norb_skipn; exact Hn|apply Next; apply norb_skipn; exact Hn]. }
  destruct (c =? cBSL).
  - destruct p as [|x p']; [exact I|]. cbn iota. apply norb_cons in Hn as [_ Hn].
    destruct p' as [|c2 p2]; [apply unclosed_open|]. pose proof Hn as Hn1. apply norb_cons in Hn as [Hc2 Hn2].
    destruct (pathname && _); [exact I|].
    assert (Hf2 : (fold1 nocase c2 =? cRBRK) = false).
    { unfold fold1. destruct (nocase && in_rng 65 90 c2) eqn:E; [|exact Hc2].
      apply andb_true_iff in E as [_ E]. unfold in_rng in E. apply N.eqb_neq. unfold cRBRK. lia. }
    destruct ((fold1 nocase c2 =? cDASH) && _).
    + destruct p2 as [|e p3]; [exact I|]. apply norb_cons in Hn2 as [_ Hn3].
      destruct (e =? cBSL).
      * destruct p3 as [|y p4]; [exact I|]. cbn iota. apply norb_cons in Hn3 as [_ Hn4].
        destruct p4 as [|c3 p5]; [apply unclosed_open|]. pose proof Hn4 as Hn4'. apply norb_cons in Hn4 as [Hc3 Hn5].
        rewrite Hc3. destruct (_ <? _); [apply IH; exact Hn5|].
        destruct (in_rng _ _ t); [apply skip_rest_open; exact Hn4'|apply IH; exact Hn5].
      * cbn iota. destruct p3 as [|c3 p5]; [apply unclosed_open|]. pose proof Hn3 as Hn3'. apply norb_cons in Hn3 as [Hc3 Hn5].
        rewrite Hc3. destruct (_ <? _); [apply IH; exact Hn5|].
        destruct (in_rng _ _ t); [apply skip_rest_open; exact Hn3'|apply IH; exact Hn5].
    + destruct (t =? _); [apply skip_rest_open; exact Hn1|]. rewrite Hf2. apply IH. exact Hn2.
  - cbn iota. destruct p as [|c2 p2]; [apply unclosed_open|]. pose proof Hn as Hn1. apply norb_cons in Hn as [Hc2 Hn2].
    destruct (pathname && _); [exact I|].
    assert (Hf2 : (fold1 nocase c2 =? cRBRK) = false).
    { unfold fold1. destruct (nocase && in_rng 65 90 c2) eqn:E; [|exact Hc2].
      apply andb_true_iff in E as [_ E]. unfold in_rng in E. apply N.eqb_neq. unfold cRBRK. lia. }
    destruct ((fold1 nocase c2 =? cDASH) && _).
    + destruct p2 as [|e p3]; [exact I|]. apply norb_cons in Hn2 as [_ Hn3].
      destruct (e =? cBSL).
      * destruct p3 as [|y p4]; [exact I|]. cbn iota. apply norb_cons in Hn3 as [_ Hn4].
        destruct p4 as [|c3 p5]; [apply unclosed_open|]. pose proof Hn4 as Hn4'. apply norb_cons in Hn4 as [Hc3 Hn5].
        rewrite Hc3. destruct (_ <? _); [apply IH; exact Hn5|].
        destruct (in_rng _ _ t); [apply skip_rest_open; exact Hn4'|apply IH; exact Hn5].
      * cbn iota. destruct p3 as [|c3 p5]; [apply unclosed_open|]. pose proof Hn3 as Hn3'. apply norb_cons in Hn3 as [Hc3 Hn5].
        rewrite Hc3. destruct (_ <? _); [apply IH; exact Hn5|].
        destruct (in_rng _ _ t); [apply skip_rest_open; exact Hn3'|apply IH; exact Hn5].
    + destruct (t =? _); [apply skip_rest_open; exact Hn1|]. rewrite Hf2. apply IH. exact Hn2.
Qed.

Lemma brackmatch_open : forall wc nocase pathname p t0, norb p ->
  bres_open (fold1 nocase t0) (brackmatch wc nocase pathname p t0).
Proof.
  intros wc nocase pathname p t0 Hn. unfold brackmatch.
  destruct p as [|x p']; [apply unclosed_open|].
  destruct ((x =? cBANG) || (x =? cCARET)).
  - apply norb_cons in Hn as [_ Hn]. destruct p' as [|c p2]; [apply unclosed_open|]. apply brack_loop_open. apply norb_cons in Hn. tauto.
  - apply brack_loop_open. apply norb_cons in Hn. tauto.
Qed.

(* --- HasMeta-false patterns without "]" match at most their unescaped text ----------------------------- *)
Lemma gmatch_nometa : forall wc fuel p s bos o, norb p -> has_meta_aux p false o = false ->
  gmatch wc fuel f_plain p s bos = true -> s = unescape p.
Proof.
  intros wc. induction fuel as [|fuel IH]; intros p s bos o Hn Hm Hg; [discriminate|].
  destruct p as [|c p'].
  - cbn in Hg. destruct s; [reflexivity|discriminate].
  - apply norb_cons in Hn as [Hrb Hn]. cbn [has_meta_aux] in Hm. cbn [unescape].
    cbn [gmatch f_plain g_ext g_nocase g_pathname g_period andb] in Hg.
    destruct (c =? cBSL) eqn:EB.
    + assert (EQ : c =? cQUEST = false) by (apply N.eqb_eq in EB; apply N.eqb_neq; unfold cQUEST, cBSL in *; lia).
      assert (ES : c =? cSTAR = false) by (apply N.eqb_eq in EB; apply N.eqb_neq; unfold cSTAR, cBSL in *; lia).
      rewrite EQ, ES in Hg. cbn [andb] in Hg.
      destruct p' as [|e p''].
      * destruct s as [|x [|y s']]; try discriminate. apply N.eqb_eq in Hg. apply N.eqb_eq in EB. subst. reflexivity.
      * destruct s as [|x s']; [discriminate|]. unfold fold1 in Hg. cbn [andb] in Hg.
        apply andb_true_iff in Hg as [Hx Hg]. apply N.eqb_eq in Hx. subst x. cbn [has_meta_aux] in Hm.
        f_equal. eapply IH; eauto. apply norb_cons in Hn. tauto.
    + destruct ((c =? cSTAR) || (c =? cQUEST)) eqn:EM; [discriminate|]. apply orb_false_iff in EM as [ES EQ].
      rewrite EQ, ES in Hg. cbn [andb] in Hg.
      destruct (c =? cLBRK) eqn:EL.
      * destruct s as [|x s']; [discriminate|].
        pose proof (brackmatch_open wc false false p' x Hn) as Hb. unfold fold1 in Hb. cbn [andb] in Hb.
        destruct (brackmatch wc false false p' x) as [| |r]; [discriminate| |contradiction].
        simpl in Hb. subst x. apply N.eqb_eq in EL. subst c. f_equal. eapply IH; eauto.
      * rewrite Hrb in Hm. destruct s as [|x s']; [discriminate|]. unfold fold1 in Hg. cbn [andb] in Hg.
        apply andb_true_iff in Hg as [Hx Hg]. apply N.eqb_eq in Hx. subst x. f_equal. eapply IH; eauto.
Qed.

Theorem hasmeta_false_single_norbrk : forall wc p t, ~ In cRBRK p -> has_meta p = false ->
  glob_spec wc f_plain p t = true -> t = unescape p.
Proof. intros wc p t Hn Hm Hg. unfold glob_spec in Hg. eapply gmatch_nometa; eauto. Qed.
