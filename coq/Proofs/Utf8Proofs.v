(* Proofs/Utf8Proofs.v — lemmas about Base/Utf8.v (Go's utf8 decode/encode). *)
From Verif Require Import Base.Str Base.Utf8.
From Coq Require Import ZifyN ZifyNat ZifyBool.
Open Scope N_scope.

Ltac bdestr :=
  repeat match goal with
         | H : context [if ?c then _ else _] |- _ => destruct c eqn:?
         | |- context [if ?c then _ else _] => destruct c eqn:?
         end.

Ltac inv_pair :=
  repeat match goal with
         | H : (_, _) = (_, _) |- _ => inversion H; clear H; subst
         end.

Ltac dec_cases s :=
  destruct s as [|?s0 [|?s1 [|?s2 [|?s3 ?t]]]];
  unfold decode_rune, is_cont in *; unfold in_range, RuneError, MaxRune in *; cbn [firstn length] in *.

(* size is between 1 and the length for a non-empty string *)
Lemma decode_size : forall s r n, s <> [] -> decode_rune s = (r, n) -> (1 <= n <= length s)%nat.
Proof.
  intros s r n Hne H. dec_cases s; try congruence; bdestr; inv_pair; cbn; lia.
Qed.

Lemma decode_nil : decode_rune [] = (RuneError, 0%nat).
Proof. reflexivity. Qed.

(* decoding only looks at the bytes it consumes *)
Lemma decode_firstn : forall s r n, decode_rune s = (r, n) -> decode_rune (firstn n s) = (r, n).
Proof.
  intros s r n H. dec_cases s; bdestr; inv_pair; cbn [firstn]; unfold decode_rune, is_cont; unfold in_range;
    repeat match goal with H : _ = _ |- _ => rewrite H end; try reflexivity; bdestr; try reflexivity; try lia.
Qed.

Lemma decode_ascii : forall b t, b < 128 -> decode_rune (b :: t) = (b, 1%nat).
Proof. intros. unfold decode_rune. destruct (b <? 128) eqn:E; [reflexivity | lia]. Qed.

(* a rune below 0x80 comes from exactly one byte, itself *)
Lemma decode_small : forall s r n, decode_rune s = (r, n) -> r < 128 -> s <> [] -> n = 1%nat /\ exists t, s = r :: t.
Proof.
  intros s r n H Hr Hne. unfold RuneError in *.
  dec_cases s; try congruence; bdestr; inv_pair; try lia; (split; [reflexivity | eexists; reflexivity]).
Qed.

(* the decoded value is a Unicode scalar value *)
Lemma decode_range : forall s r n, decode_rune s = (r, n) -> r <= MaxRune /\ ~ (55296 <= r <= 57343).
Proof.
  intros s r n H. unfold MaxRune, RuneError in *.
  dec_cases s; bdestr; inv_pair; lia.
Qed.

(* multi-byte sequences: every consumed byte is >= 0x80, the value is >= 0x80 *)
Lemma decode_high : forall s r n, decode_rune s = (r, n) -> (2 <= n)%nat ->
  128 <= r /\ Forall (fun b => 128 <= b) (firstn n s).
Proof.
  intros s r n H Hn.
  dec_cases s; bdestr; inv_pair; try lia; (split; [lia | repeat constructor; lia]).
Qed.

(* a size-1 decode of a byte >= 0x80 is RuneError *)
Lemma decode_size1 : forall s r, decode_rune s = (r, 1%nat) -> exists b t, s = b :: t /\ (r = b /\ b < 128 \/ r = RuneError /\ 128 <= b).
Proof.
  intros s r H.
  dec_cases s; bdestr; inv_pair; try discriminate; do 2 eexists; (split; [reflexivity|]); try (left; split; [reflexivity|lia]); right; split; try reflexivity; lia.
Qed.

(* encode after decode gives the consumed bytes back, unless the byte was invalid *)
Lemma encode_decode : forall s r n, decode_rune s = (r, n) -> s <> [] ->
  ~ (r = RuneError /\ n = 1%nat) -> encode_rune r = firstn n s.
Proof.
  intros s r n H Hne Hv. unfold RuneError in *.
  dec_cases s; try congruence; bdestr; inv_pair;
    try (exfalso; apply Hv; split; reflexivity);
    unfold encode_rune, MaxRune, in_range; bdestr; try lia; cbn [firstn]; repeat f_equal; lia.
Qed.

(* --- runes ------------------------------------------------------------- *)

Definition entry_ok (e : N * str) : Prop :=
  snd e <> [] /\ decode_rune (snd e) = (fst e, length (snd e)).

Lemma runes_aux_concat : forall s k, (k <= length s)%nat ->
  concat (map snd (runes_aux k s)) = skipn k s.
Proof.
  induction s as [|b t IH]; intros k Hk.
  - destruct k; reflexivity.
  - destruct k as [|k]; cbn [runes_aux].
    + destruct (decode_rune (b :: t)) as [r n] eqn:D.
      assert (Hs := decode_size (b :: t) r n ltac:(discriminate) D). cbn [length] in Hs.
      destruct n as [|m]; [lia|].
      cbn [map concat snd Nat.pred firstn skipn]. rewrite IH by lia.
      cbn. f_equal. apply firstn_skipn.
    + cbn [skipn]. apply IH. cbn in Hk. lia.
Qed.

Lemma runes_concat : forall s, concat (map snd (runes s)) = s.
Proof. intros. unfold runes. rewrite runes_aux_concat by lia. reflexivity. Qed.

Lemma runes_aux_ok : forall s k, Forall entry_ok (runes_aux k s).
Proof.
  induction s as [|b t IH]; intros k.
  - destruct k; constructor.
  - destruct k as [|k]; cbn [runes_aux]; [|apply IH].
    destruct (decode_rune (b :: t)) as [r n] eqn:D.
    constructor; [|apply IH].
    assert (Hs := decode_size (b :: t) r n ltac:(discriminate) D). cbn [length] in Hs.
    unfold entry_ok; cbn [fst snd]. split.
    + destruct n; [lia|]. cbn [firstn]. discriminate.
    + rewrite firstn_length_le by (cbn; lia). apply decode_firstn. exact D.
Qed.

Lemma runes_ok : forall s, Forall entry_ok (runes s).
Proof. intros; apply runes_aux_ok. Qed.

Lemma runes_nil_iff : forall s, runes s = [] <-> s = [].
Proof.
  intros [|b t]; split; intros H; try reflexivity; try discriminate.
  unfold runes in H; cbn [runes_aux] in H. destruct (decode_rune (b :: t)); discriminate.
Qed.
